(* C15: MathComp instance of the matrix interface and the proofs about model/Acov.v.
   ssreflect / MathComp style.  F is any real closed field (e.g. the real numbers). *)
From mathcomp Require Import all_ssreflect all_algebra.
From mathcomp Require Import ring.
From Verif.lib Require Import MxC15.
From Verif.model Require Import Acov.
Set Implicit Arguments.
Unset Strict Implicit.
Unset Printing Implicit Defensive.
Import Order.TTheory GRing.Theory Num.Theory.
Local Open Scope ring_scope.

Section McInstance.
Variable F : rcfType.

Definition McOps : MxOps := {|
  sc := F;
  mx := fun m n => 'M[F]_(m, n);
  omx := fun m n => 'M[option F]_(m, n);
  bvec := fun n => 'cV[bool]_n;
  idx := fun k n => 'I_k -> 'I_n;
  s0 := 0;
  smul := fun x y => x * y;
  spos := fun x => 0 < x;
  sisqrt := fun x => (Num.sqrt x)^-1;
  mmul := fun m n p (A : 'M_(m, n)) (B : 'M_(n, p)) => A *m B;
  madd := fun m n (A B : 'M_(m, n)) => A + B;
  mtr := fun m n (A : 'M_(m, n)) => A^T;
  mzero := fun m n => (0 : 'M_(m, n));
  mblock := fun m1 m2 n1 n2 (A : 'M_(m1, n1)) B C (D : 'M_(m2, n2)) => block_mx A B C D;
  mlsub := fun m n1 n2 (A : 'M_(m, n1 + n2)) => lsubmx A;
  mrsub := fun m n1 n2 (A : 'M_(m, n1 + n2)) => rsubmx A;
  musub := fun m1 m2 n (A : 'M_(m1 + m2, n)) => usubmx A;
  mdsub := fun m1 m2 n (A : 'M_(m1 + m2, n)) => dsubmx A;
  mdiagsq := fun n (v : 'rV_n) => diag_mx (map_mx (fun x => x * x) v);
  mloaded := fun m n tol (A : 'M_(m, n)) => \col_i [exists j, tol < `|A i j|];
  bcat := fun m n (a : 'cV[bool]_m) (b : 'cV[bool]_n) => col_mx a b;
  mmask := fun n (b : 'cV[bool]_n) (A : 'M_n) =>
             \matrix_(i, j) if b i 0 || b j 0 then None else Some (A i j);
  osel := fun k n (s : 'I_k -> 'I_n) (A : 'M[option F]_n) => \matrix_(i, j) A (s i) (s j);
  odiagvec := fun n f (A : 'M[option F]_n) => \col_i f (A i i);
  ozip := fun m n f (A : 'M[option F]_(m, n)) (B : 'M_(m, n)) => \matrix_(i, j) f (A i j) (B i j);
|}.

End McInstance.

Section Generic.
Variable F : comRingType.
Variables na ny ne nw : nat.
Variables (G T0 : 'M[F]_na) (P0 : 'M[F]_(na, ne)) (Z : 'M[F]_(ny, na)) (H : 'M[F]_(ny, nw)).
Variables (Su : 'M[F]_ne) (Sw : 'M[F]_nw).
Hypothesis K1 : T0 *m G *m T0^T + P0 *m Su *m P0^T = G.

Lemma tri_lyap_gen :
  let C := block_mx G (G *m Z^T) (Z *m G) (Z *m G *m Z^T + H *m Sw *m H^T) in
  let A := block_mx T0 0 (Z *m T0) 0 in
  let E := block_mx P0 0 (Z *m P0) H in
  C = A *m C *m A^T + E *m block_mx Su 0 0 Sw *m E^T.
Proof.
move=> C A E; rewrite /C /A /E !tr_block_mx !mulmx_block !trmx0.
rewrite !(mul0mx, mulmx0, addr0, add0r) add_block_mx !trmx_mul.
congr block_mx.
- by rewrite K1.
- by rewrite !mulmxA -mulmxDl K1.
- by rewrite -!mulmxA -mulmxDr !mulmxA K1.
- rewrite addrA; congr (_ + _).
  by rewrite !mulmxA -mulmxDl -!mulmxA -mulmxDr !mulmxA K1.
Qed.
End Generic.


Section ListLemmas.
Variables (T U : Type).
Lemma size_Lmap (f : T -> U) (s : seq T) : size (List.map f s) = size s.
Proof. by elim: s => //= x s ->. Qed.
Lemma nth_Lmap (x0 : T) (y0 : U) (f : T -> U) (s : seq T) j :
  (j < size s)%N -> nth y0 (List.map f s) j = f (nth x0 s j).
Proof. by elim: s j => // x s IH [|j] //=; rewrite ltnS; apply: IH. Qed.
End ListLemmas.

Section IterLemmas.
Variable F : rcfType.
Variables nu ns ny : nat.
Implicit Types A G : 'M[F]_(nu + ns + ny).
Lemma size_iter_autocov A G k : size (iter_autocov (O:=McOps F) A G k) = k.+1.
Proof. by elim: k G => //= k IH G; rewrite IH. Qed.
Lemma nth_iter_autocov A G k j : (j <= k)%N ->
  nth 0 (iter_autocov (O:=McOps F) A G k) j = iter j (mulmx A) G.
Proof.
elim: k G j => [|k IH] G [|j] //= jk.
by rewrite IH // -iterSr.
Qed.
End IterLemmas.


(* The covariance function of a linear process, algebraically: random n-vectors are represented by
   their loadings (n x N matrices) on N uncorrelated unit-variance primitive shocks, so that
   cov(x, y) = X Y^T and bilinearity is matrix algebra.  Horizon Tmax is arbitrary. *)
Section LinearProcess.
Variable F : comRingType.
Variables (n N : nat) (A Q G0 : 'M[F]_n) (Tmax : nat).
Variables (x e : nat -> 'M[F]_(n, N)).
Definition cov (X Y : 'M[F]_(n, N)) : 'M[F]_n := X *m Y^T.
Hypothesis Hrec : forall t, (t < Tmax)%N -> x t.+1 = A *m x t + e t.+1.
Hypothesis Horth : forall t s, (s <= t)%N -> (t < Tmax)%N -> cov (e t.+1) (x s) = 0.
Hypothesis Hinn : forall t, (t < Tmax)%N -> cov (e t.+1) (e t.+1) = Q.
Hypothesis Hinit : cov (x 0%N) (x 0%N) = G0.
Hypothesis Hstat : G0 = A *m G0 *m A^T + Q.

Lemma cov_tr X Y : (cov X Y)^T = cov Y X.
Proof. by rewrite /cov trmx_mul trmxK. Qed.

Theorem process_variance t : (t <= Tmax)%N -> cov (x t) (x t) = G0.
Proof.
elim: t => [|t IH] tT //.
have E0 : cov (e t.+1) (x t) = 0 by apply: Horth.
have E0' : cov (x t) (e t.+1) = 0 by rewrite -cov_tr E0 trmx0.
rewrite /cov Hrec // linearD /= mulmxDl !mulmxDr trmx_mul.
rewrite -/(cov (e t.+1) (e t.+1)) Hinn //.
rewrite [e t.+1 *m _]mulmxA -/(cov (e t.+1) (x t)) E0 mul0mx add0r.
rewrite -[A *m x t *m (e t.+1)^T]mulmxA -/(cov (x t) (e t.+1)) E0' mulmx0 addr0.
by rewrite !mulmxA -[A *m x t *m _]mulmxA -/(cov (x t) (x t)) IH 1?ltnW // -Hstat.
Qed.

Theorem process_autocov t j : (t + j <= Tmax)%N -> cov (x (t + j)%N) (x t) = iter j (mulmx A) G0.
Proof.
elim: j => [|j IH] tj; first by rewrite addn0 in tj *; rewrite /= process_variance.
rewrite addnS in tj *; rewrite /cov Hrec // mulmxDl -/(cov (e (t + j).+1) (x t)) Horth ?leq_addr // addr0.
by rewrite -mulmxA -/(cov _ _) IH // ltnW.
Qed.
End LinearProcess.

Section Tri.
Variable F : rcfType.
Variables nu ns ny ne nw : nat.
Variables (Tam : 'M[F]_(nu + ns)) (Pam : 'M[F]_(nu + ns, ne)) (Zam : 'M[F]_(ny, nu + ns))
          (Hmm : 'M[F]_(ny, nw)) (Uam : 'M[F]_(nu + ns)) (tol : F).
Definition sol : solution (McOps F) nu ns ny ne nw := Build_solution (O:=McOps F) Tam Pam Zam Hmm Uam tol.
Notation Tss := (drsubmx Tam).
Notation Pas := (dsubmx Pam).
Notation Zas := (rsubmx Zam).
Variables (Su : 'M[F]_ne) (Sw : 'M[F]_nw) (X : 'M[F]_ns).

Lemma cov_alpha_00E : cov_alpha_00 (O:=McOps F) nu X = block_mx 0 0 0 X.
Proof. by []. Qed.

Lemma Ta_stableE : Ta_stable sol = Tss. Proof. by []. Qed.


Notation Gaa := (block_mx 0 0 0 X : 'M[F]_(nu + ns)).
Notation Ta00 := (block_mx 0 0 0 Tss : 'M[F]_(nu + ns)).
Notation Pa0 := (col_mx 0 Pas : 'M[F]_(nu + ns, ne)).
Notation SW := (Hmm *m Sw *m Hmm^T).

Hypothesis HX : lyap_contract sol Su X.
Hypothesis Xsym : X^T = X.

Lemma HX' : X = Tss *m X *m Tss^T + Pas *m Su *m Pas^T.
Proof. exact: HX. Qed.

Lemma Gaa_sym : Gaa^T = Gaa.
Proof. by rewrite tr_block_mx !trmx0 Xsym. Qed.

Lemma Gaa_lyap : Ta00 *m Gaa *m Ta00^T + Pa0 *m Su *m Pa0^T = Gaa.
Proof.
rewrite tr_block_mx !trmx0 !mulmx_block tr_col_mx trmx0 mul_col_mx mul_col_row.
rewrite !(mul0mx, mulmx0, addr0, add0r) add_block_mx !addr0 -HX'.
by [].
Qed.

Lemma Zas_Gaa : Zas *m X *m Zas^T = Zam *m Gaa *m Zam^T.
Proof.
rewrite -{3 4}(hsubmxK Zam) tr_row_mx mul_row_block mul_row_col.
by rewrite !(mul0mx, mulmx0, addr0, add0r).
Qed.

Lemma cov_triE : cov_triangular_00 sol Sw X =
  block_mx Gaa (Gaa *m Zam^T) (Zam *m Gaa) (Zam *m Gaa *m Zam^T + SW).
Proof.
rewrite /cov_triangular_00 /cov_alpha_y_00 /cov_y_00 /cov_alpha_stable_of /cov_alpha_00 /sigma_w /Za_stable /=.
rewrite -/(drsubmx _) block_mxKdr Zas_Gaa; congr block_mx.
by rewrite trmx_mul trmxK Gaa_sym.
Qed.

Lemma A_triE : A_tri sol = block_mx Ta00 0 (Zam *m Ta00) 0.
Proof. by []. Qed.

Definition Emx : 'M[F]_(nu + ns + ny, ne + nw) := block_mx Pa0 0 (Zam *m Pa0) Hmm.
Definition Sigma : 'M[F]_(ne + nw) := block_mx Su 0 0 Sw.
Definition Qe := Emx *m Sigma *m Emx^T.

Lemma tri_lyap : cov_triangular_00 sol Sw X = A_tri sol *m cov_triangular_00 sol Sw X *m (A_tri sol)^T + Qe.
Proof. rewrite cov_triE A_triE /Qe /Emx /Sigma; exact: (tri_lyap_gen _ _ _ Gaa_lyap). Qed.

Definition Wm : 'M[F]_(nu + ns + ny) := block_mx Uam 0 0 1%:M.
(* loadings of [xi; y] on the unit-root part of alpha *)
Definition Uload : 'M[F]_(nu + ns + ny, nu) := col_mx (lsubmx Uam) (lsubmx Zam).

Lemma transformE (C : 'M[F]_(nu + ns + ny)) :
  transform_cov_triangular_to_square sol C = Wm *m C *m Wm^T.
Proof.
rewrite /transform_cov_triangular_to_square /transform_cols /transform_rows /=.
rewrite -[in RHS](submxK C) /Wm tr_block_mx !mulmx_block trmx1 !trmx0.
rewrite !(mul0mx, mulmx0, addr0, add0r, mul1mx, mulmx1).
by rewrite /ulsubmx /ursubmx /dlsubmx /drsubmx /block_mx !(col_mxKu, col_mxKd, row_mxKl, row_mxKr).
Qed.

(* order j of the square system, before masking *)
Definition Gtri (j : nat) : 'M[F]_(nu + ns + ny) := iter j (mulmx (A_tri sol)) (cov_triangular_00 sol Sw X).
Definition Gsq (j : nat) : 'M[F]_(nu + ns + ny) := Wm *m Gtri j *m Wm^T.

Lemma size_autocov_square_00 k : size (autocov_square_00 sol Sw X k) = k.+1.
Proof. by rewrite /autocov_square_00 size_Lmap size_iter_autocov. Qed.

Lemma nth_autocov_triangular_00 k j : (j <= k)%N -> nth 0 (autocov_triangular_00 sol Sw X k) j = Gtri j.
Proof. exact: nth_iter_autocov. Qed.

Lemma nth_autocov_square_00 k j : (j <= k)%N -> nth 0 (autocov_square_00 sol Sw X k) j = Gsq j.
Proof.
move=> jk; rewrite /autocov_square_00 (nth_Lmap 0) ?size_iter_autocov //.
by rewrite transformE nth_autocov_triangular_00.
Qed.

Lemma GtriS j : Gtri j.+1 = A_tri sol *m Gtri j.
Proof. by []. Qed.

Section Square.
Variables (T : 'M[F]_(nu + ns)) (P : 'M[F]_(nu + ns, ne)) (Z : 'M[F]_(ny, nu + ns)).
Hypothesis HT : T *m Uam = Uam *m Tam.
Hypothesis HP : P = Uam *m Pam.
Hypothesis HZ : Zam = Z *m Uam.
Hypothesis Htri : dlsubmx Tam = 0.


Lemma stable_row_Ta m (M : 'M[F]_(m, nu + ns)) : lsubmx M = 0 -> M *m Tam = M *m Ta00.
Proof.
move=> M0; rewrite -(hsubmxK M) M0 -{1}(submxK Tam) Htri !mul_row_block.
by rewrite !(mul0mx, mulmx0, addr0, add0r).
Qed.

Lemma stable_row_Pa m (M : 'M[F]_(m, nu + ns)) : lsubmx M = 0 -> M *m Pam = M *m Pa0.
Proof.
move=> M0; rewrite -(hsubmxK M) M0 -{1}(vsubmxK Pam) !mul_row_col.
by rewrite !(mul0mx, mulmx0, addr0, add0r).
Qed.

Lemma lsubmx_mul m n p1 p2 (A : 'M[F]_(m, n)) (B : 'M[F]_(n, p1 + p2)) : lsubmx (A *m B) = A *m lsubmx B.
Proof. by rewrite -{1}(hsubmxK B) mul_mx_row row_mxKl. Qed.

Lemma Gsq0_blocks :
  Gsq 0 = block_mx (Uam *m Gaa *m Uam^T) (Uam *m Gaa *m Zam^T) (Zam *m Gaa *m Uam^T) (Zam *m Gaa *m Zam^T + SW).
Proof.
rewrite /Gsq (_ : Gtri 0 = cov_triangular_00 sol Sw X) // cov_triE /Wm tr_block_mx !mulmx_block trmx1 !trmx0.
by rewrite !(mul0mx, mulmx0, addr0, add0r, mul1mx, mulmx1) !mulmxA.
Qed.

Theorem order0_square_xx m (L : 'M[F]_(m, nu + ns)) : L *m lsubmx Uam = 0 ->
  let Gxx := ulsubmx (Gsq 0) in
  L *m Gxx *m L^T = L *m (T *m Gxx *m T^T + P *m Su *m P^T) *m L^T.
Proof.
move=> HL; rewrite Gsq0_blocks block_mxKul /=.
have M0 : lsubmx (L *m Uam) = 0 by rewrite lsubmx_mul.
have E1 : L *m T *m Uam = L *m Uam *m Ta00 by rewrite -mulmxA HT mulmxA stable_row_Ta.
have E2 : L *m P = L *m Uam *m Pa0 by rewrite HP mulmxA stable_row_Pa.
set M := L *m Uam in E1 E2.
have -> : L *m (Uam *m Gaa *m Uam^T) *m L^T = M *m Gaa *m M^T by rewrite /M trmx_mul !mulmxA.
rewrite mulmxDr mulmxDl.
have -> : L *m (T *m (Uam *m Gaa *m Uam^T) *m T^T) *m L^T = (L *m T *m Uam) *m Gaa *m (L *m T *m Uam)^T.
  by rewrite !trmx_mul !mulmxA.
have -> : L *m (P *m Su *m P^T) *m L^T = (L *m P) *m Su *m (L *m P)^T by rewrite !trmx_mul !mulmxA.
rewrite E1 E2 -{1}Gaa_lyap !trmx_mul mulmxDr mulmxDl !mulmxA.
by [].
Qed.

Theorem order0_square_measurement :
  let G := Gsq 0 in
  drsubmx G = Z *m ulsubmx G *m Z^T + Hmm *m Sw *m Hmm^T /\
  ursubmx G = ulsubmx G *m Z^T /\ dlsubmx G = Z *m ulsubmx G.
Proof.
rewrite /= Gsq0_blocks block_mxKul block_mxKur block_mxKdl block_mxKdr HZ !trmx_mul !mulmxA.
by [].
Qed.

Definition Asq : 'M[F]_(nu + ns + ny) := block_mx T 0 (Z *m T) 0.

Lemma stable_rows_WA m (Lf : 'M[F]_(m, nu + ns + ny)) : Lf *m Uload = 0 ->
  Lf *m Wm *m A_tri sol = Lf *m Asq *m Wm.
Proof.
move=> HL; rewrite A_triE /Asq /Wm -!mulmxA !mulmx_block !(mul0mx, mulmx0, addr0, add0r, mul1mx, mulmx1).
rewrite -[Z *m T *m Uam]mulmxA HT !mulmxA -HZ.
rewrite -(hsubmxK Lf) !mul_row_block !(mul0mx, mulmx0, addr0, add0r); congr row_mx.
rewrite !mulmxA -!mulmxDl; apply/esym/stable_row_Ta.
by rewrite -HL -{3}(hsubmxK Lf) /Uload mul_row_col -!lsubmx_mul linearD.
Qed.

Theorem order_j_square m (Lf : 'M[F]_(m, nu + ns + ny)) j : Lf *m Uload = 0 ->
  Lf *m Gsq j.+1 = Lf *m Asq *m Gsq j.
Proof.
by move=> HL; rewrite /Gsq GtriS !mulmxA (stable_rows_WA HL).
Qed.

End Square.

(* the model's order-j matrices are the autocovariances of ANY linear process
   s_t = A_tri s_(t-1) + e_t, cov(e_t) = Qe = E Sigma E^T, e_t uncorrelated with the past,
   started with covariance cov_triangular_00; the square system is xi_t = Ua alpha_t *)
Theorem order_j_is_process_autocov N Tmax (x e : nat -> 'M[F]_(nu + ns + ny, N)) :
  (forall t, (t < Tmax)%N -> x t.+1 = A_tri sol *m x t + e t.+1) ->
  (forall t s, (s <= t)%N -> (t < Tmax)%N -> cov (e t.+1) (x s) = 0) ->
  (forall t, (t < Tmax)%N -> cov (e t.+1) (e t.+1) = Qe) ->
  cov (x 0%N) (x 0%N) = cov_triangular_00 sol Sw X ->
  forall t j k, (t + j <= Tmax)%N -> (j <= k)%N ->
    cov (x (t + j)%N) (x t) = nth 0 (autocov_triangular_00 sol Sw X k) j /\
    cov (Wm *m x (t + j)%N) (Wm *m x t) = nth 0 (autocov_square_00 sol Sw X k) j.
Proof.
move=> Hrec Horth Hinn Hinit t j k tj jk.
have E := process_autocov Hrec Horth Hinn Hinit tri_lyap tj.
rewrite nth_autocov_triangular_00 // nth_autocov_square_00 //; split=> //.
by rewrite /Gsq /Gtri -E /cov trmx_mul !mulmxA.
Qed.

(* NaN mask *)
Definition loaded (i : 'I_(nu + ns + ny)) : bool := [exists c : 'I_nu, tol < `|Uload i c|].

Lemma unstable_flagsE i : unstable_flags sol i 0 = loaded i.
Proof.
rewrite /unstable_flags /loaded /Uload /= -(splitK i).
case: (split i) => i' /=; rewrite ?col_mxEu ?col_mxEd mxE;
  by apply: eq_existsb => c; rewrite ?col_mxEu ?col_mxEd.
Qed.

Variable std_w : 'rV[F]_nw.
Hypothesis HSw : Sw = cov_of_std (O:=McOps F) std_w.

Lemma size_getv_autocov kk (s : 'I_kk -> 'I_(nu + ns + ny)) k :
  size (getv_autocov sol s std_w X k) = k.+1.
Proof. by rewrite /getv_autocov /autocov_square -HSw 2!size_Lmap size_autocov_square_00. Qed.

Theorem masked_entries kk (s : 'I_kk -> 'I_(nu + ns + ny)) k j (a b : 'I_kk) : (j <= k)%N ->
  nth (const_mx None) (getv_autocov sol s std_w X k) j a b =
    if loaded (s a) || loaded (s b) then None else Some (Gsq j (s a) (s b)).
Proof.
move=> jk; set fl := unstable_flags sol.
have -> : getv_autocov sol s std_w X k =
   List.map (osel (McOps F) s) (List.map (mmask (McOps F) fl) (autocov_square_00 sol Sw X k)).
  by rewrite HSw.
rewrite (nth_Lmap (const_mx None)); last by rewrite size_Lmap size_autocov_square_00.
rewrite (nth_Lmap 0 (const_mx None) (mmask (McOps F) fl)); last by rewrite size_autocov_square_00.
rewrite nth_autocov_square_00 // [LHS]mxE [LHS]mxE.
by rewrite /fl !unstable_flagsE.
Qed.
End Tri.

Section Scale.
Variable F : rcfType.
Variables nu ns ny ne nw : nat.
Variables (Tam : 'M[F]_(nu + ns)) (Pam : 'M[F]_(nu + ns, ne)) (Zam : 'M[F]_(ny, nu + ns))
          (Hmm : 'M[F]_(ny, nw)) (Uam : 'M[F]_(nu + ns)) (tol : F).
Notation sol := (sol Tam Pam Zam Hmm Uam tol).
Notation Tss := (drsubmx Tam).
Notation Pas := (dsubmx Pam).
Notation cstd := (cov_of_std (O:=McOps F)).

(* the solver's uniqueness contract (true whenever Tss is stable; not provable without spectral theory) *)
Definition lyap_unique := forall Q Y Y' : 'M[F]_ns,
  Y = Tss *m Y *m Tss^T + Q -> Y' = Tss *m Y' *m Tss^T + Q -> Y = Y'.

Lemma cov_of_std_scale n (c : F) (v : 'rV[F]_n) : cstd (c *: v) = c ^+ 2 *: cstd v.
Proof.
apply/matrixP=> i j; rewrite /cov_of_std /= !mxE.
by case: (i == j); rewrite ?mulr0n ?mulr0 // !mulr1n expr2 mulrACA.
Qed.

Lemma cov_of_std_sym n (v : 'rV[F]_n) : (cstd v)^T = cstd v.
Proof. exact: tr_diag_mx. Qed.

(* under the uniqueness contract the solver's output is symmetric *)
Lemma lyap_sym (Su : 'M[F]_ne) (X : 'M[F]_ns) : lyap_unique -> Su^T = Su -> lyap_contract sol Su X -> X^T = X.
Proof.
move=> Hu Ss HX; apply: (Hu (Pas *m Su *m Pas^T)); last exact: HX.
by rewrite {1}HX linearD /= !trmx_mul !trmxK Ss !mulmxA.
Qed.

Variables (c : F) (std_u : 'rV[F]_ne) (std_w : 'rV[F]_nw) (X X' : 'M[F]_ns).
Hypothesis Hu : lyap_unique.
Hypothesis HX : lyap_contract sol (cstd std_u) X.
Hypothesis HX' : lyap_contract sol (cstd (c *: std_u)) X'.

Lemma scale_lyap : X' = c ^+ 2 *: X.
Proof.
have H1 := (@Hu (Pas *m cstd (c *: std_u) *m Pas^T) X' (c ^+ 2 *: X) HX'). apply: H1.
rewrite cov_of_std_scale {1}HX scalerDr; congr (_ + _).
  by rewrite -scalemxAr -scalemxAl.
by rewrite -scalemxAr -!scalemxAl.
Qed.

Lemma iter_mulmx_scale n (A G : 'M[F]_n) (a : F) j : iter j (mulmx A) (a *: G) = a *: iter j (mulmx A) G.
Proof. by elim: j => //= j ->; rewrite scalemxAr. Qed.

Lemma cov_tri_scale (a : F) (Sw : 'M[F]_nw) :
  cov_triangular_00 sol (a *: Sw) (a *: X) = a *: cov_triangular_00 sol Sw X.
Proof.
rewrite /cov_triangular_00 /cov_alpha_y_00 /cov_y_00 /cov_alpha_stable_of /cov_alpha_00 /sigma_w /Za_stable /=.
rewrite -!/(drsubmx _) !block_mxKdr.
have -> : block_mx 0 0 0 (a *: X) = a *: (block_mx 0 0 0 X : 'M[F]_(nu + ns)).
  by rewrite scale_block_mx !scaler0.
set G := (block_mx 0 0 0 X : 'M[F]_(nu + ns)).
rewrite [RHS]scale_block_mx; congr block_mx.
- by rewrite -scalemxAl.
- by rewrite -scalemxAl linearZ.
- by rewrite scalerDr -!scalemxAr -!scalemxAl.
Qed.

Theorem scale_square k j : (j <= k)%N ->
  nth 0 (autocov_square_00 sol (cstd (c *: std_w)) X' k) j =
  c ^+ 2 *: nth 0 (autocov_square_00 sol (cstd std_w) X k) j.
Proof.
move=> jk; rewrite !nth_autocov_square_00 // /Gsq /Gtri scale_lyap cov_of_std_scale cov_tri_scale.
by rewrite iter_mulmx_scale -scalemxAr -scalemxAl.
Qed.

Theorem scale_square_masked kk (s : 'I_kk -> 'I_(nu + ns + ny)) k j (a b : 'I_kk) : (j <= k)%N ->
  nth (const_mx None) (getv_autocov sol s (c *: std_w) X' k) j a b =
  omap (fun v => c ^+ 2 * v) (nth (const_mx None) (getv_autocov sol s std_w X k) j a b).
Proof.
move=> jk; rewrite !(@masked_entries _ _ _ _ _ _ Tam Pam Zam Hmm Uam tol _ _ _ (erefl _)) //.
case: ifP => //= _; congr Some.
have := scale_square jk; rewrite !nth_autocov_square_00 // => ->.
by rewrite mxE.
Qed.

End Scale.

Section Acorr.
Variable F : rcfType.
Variable kk : nat.
Implicit Types (c : 'M[option F]_kk) (l : seq 'M[option F]_kk).

(* 1 / (order-0 standard deviation); 0 where the variance is not a positive number *)
Definition inv_std (o : option F) : F :=
  match o with Some x => if 0 < x then (Num.sqrt x)^-1 else 0 | None => 0 end.

Lemma inv_std_entryE o : inv_std_entry (O:=McOps F) o = inv_std o.
Proof. by []. Qed.

Lemma scale_matrixE c (a b : 'I_kk) : scale_matrix (O:=McOps F) c a b = inv_std (c a a) * inv_std (c b b).
Proof. by rewrite /scale_matrix /= mxE big_ord1 !mxE. Qed.

Lemma size_acorr l : size (acorr_from_acov (O:=McOps F) l) = size l.
Proof. by case: l => //= c0 l; rewrite size_Lmap. Qed.

Theorem acorr_entries c0 l j (a b : 'I_kk) : (j < size (c0 :: l))%N ->
  nth (const_mx None) (acorr_from_acov (O:=McOps F) (c0 :: l)) j a b =
  omap (fun v => v * (inv_std (c0 a a) * inv_std (c0 b b))) (nth (const_mx None) (c0 :: l) j a b).
Proof.
move=> jl; rewrite /acorr_from_acov (nth_Lmap (const_mx None)) // [LHS]mxE scale_matrixE.
by set o := fun_of_matrix (nth _ _ _) a b; case: o.
Qed.

(* acorr = acov divided by the two order-0 standard deviations *)
Corollary acorr_scaling c0 l j (a b : 'I_kk) (va vb v : F) : (j < size (c0 :: l))%N ->
  c0 a a = Some va -> c0 b b = Some vb -> 0 < va -> 0 < vb ->
  nth (const_mx None) (c0 :: l) j a b = Some v ->
  nth (const_mx None) (acorr_from_acov (O:=McOps F) (c0 :: l)) j a b = Some (v / (Num.sqrt va * Num.sqrt vb)).
Proof.
move=> jl Ha Hb pa pb Hv; rewrite acorr_entries // Hv Ha Hb /= pa pb.
by rewrite invfM.
Qed.

(* the diagonal of the order-0 autocorrelation matrix is 1 *)
Corollary acorr_diag_one c0 l (a : 'I_kk) (va : F) : c0 a a = Some va -> 0 < va ->
  nth (const_mx None) (acorr_from_acov (O:=McOps F) (c0 :: l)) 0 a a = Some 1.
Proof.
move=> Ha pa; rewrite (@acorr_scaling c0 l 0%N a a va va va) //; congr Some.
rewrite -expr2 sqr_sqrtr; last exact: ltW.
by rewrite divff // lt0r_neq0.
Qed.

(* NaN entries stay NaN *)
Corollary acorr_nan c0 l j (a b : 'I_kk) : (j < size (c0 :: l))%N ->
  nth (const_mx None) (c0 :: l) j a b = None ->
  nth (const_mx None) (acorr_from_acov (O:=McOps F) (c0 :: l)) j a b = None.
Proof. by move=> jl Hv; rewrite acorr_entries // Hv. Qed.

(* autocorrelations do not change when every autocovariance is multiplied by s^2, s <> 0 *)
Lemma inv_std_scale (s : F) o : s != 0 -> inv_std (omap (fun v => s ^+ 2 * v) o) = `|s|^-1 * inv_std o.
Proof.
move=> s0; case: o => [x|] /=; last by rewrite mulr0.
have p2 : 0 < s ^+ 2 by rewrite exprn_even_gt0.
rewrite pmulr_rgt0 //; case: ifP => _; last by rewrite mulr0.
by rewrite sqrtrM ?ltW // sqrtr_sqr invfM.
Qed.

Theorem acorr_scale_invariant (s : F) c0 l c0' l' : s != 0 -> size l' = size l ->
  (forall j a b, nth (const_mx None) (c0' :: l') j a b =
                 omap (fun v => s ^+ 2 * v) (nth (const_mx None) (c0 :: l) j a b)) ->
  forall j a b, (j < size (c0 :: l))%N ->
  nth (const_mx None) (acorr_from_acov (O:=McOps F) (c0' :: l')) j a b =
  nth (const_mx None) (acorr_from_acov (O:=McOps F) (c0 :: l)) j a b.
Proof.
move=> s0 sz H j a b jl.
rewrite !acorr_entries //=; last by rewrite sz.
rewrite (H j a b) (H 0%N a a) (H 0%N b b) /= !inv_std_scale //.
set o := fun_of_matrix (nth _ _ _) a b; case: o => //= v; congr Some.
have n0 : `|s| != 0 by rewrite normr_eq0.
have -> : s ^+ 2 = `|s| ^+ 2 by rewrite real_normK // num_real.
by field.
Qed.

End Acorr.

Section Stationary.
Variable F : rcfType.
Variables ns ny ne nw : nat.
Variables (Tam : 'M[F]_(0 + ns)) (Pam : 'M[F]_(0 + ns, ne)) (Zam : 'M[F]_(ny, 0 + ns))
          (Hmm : 'M[F]_(ny, nw)) (Uam : 'M[F]_(0 + ns)) (tol : F).
Variables (Su : 'M[F]_ne) (Sw : 'M[F]_nw) (X : 'M[F]_ns).
Variables (T : 'M[F]_(0 + ns)) (P : 'M[F]_(0 + ns, ne)) (Z : 'M[F]_(ny, 0 + ns)).
Hypothesis HX : lyap_contract (sol Tam Pam Zam Hmm Uam tol) Su X.
Hypothesis Xsym : X^T = X.
Hypothesis HT : T *m Uam = Uam *m Tam.
Hypothesis HP : P = Uam *m Pam.
Hypothesis HZ : Zam = Z *m Uam.

(* no unit roots: the whole order-0 matrix of xi solves the square Lyapunov equation *)
Corollary order0_square_stationary :
  let Gxx := ulsubmx (Gsq Tam Pam Zam Hmm Uam tol Sw X 0) in
  Gxx = T *m Gxx *m T^T + P *m Su *m P^T.
Proof.
have H := @order0_square_xx _ _ _ _ _ _ _ _ _ _ _ tol _ Sw _ HX Xsym _ _ HT HP (thinmx0 _) _ 1%:M (thinmx0 _).
by move: H; rewrite /= !mul1mx trmx1 !mulmx1.
Qed.

Corollary order_j_square_stationary j :
  Gsq Tam Pam Zam Hmm Uam tol Sw X j.+1 = Asq T Z *m Gsq Tam Pam Zam Hmm Uam tol Sw X j.
Proof.
have H := @order_j_square _ _ _ _ _ _ _ Pam _ Hmm _ tol Sw X _ _ HT HZ (thinmx0 _) _ 1%:M j (thinmx0 _).
by move: H; rewrite !mul1mx.
Qed.
End Stationary.

Section Example.
Variable F : rcfType.
Let h : F := 2^-1.
Definition exTa : 'M[F]_(1 + 1) := block_mx 1%:M 1%:M 0 h%:M.
Definition exPa : 'M[F]_(1 + 1, 1) := col_mx 1%:M 1%:M.
Definition exZa : 'M[F]_(1, 1 + 1) := row_mx 0 1%:M.
Definition exX : 'M[F]_1 := (4%:R / 3%:R)%:M.
Definition exstd : 'rV[F]_1 := const_mx 1.

Lemma ex_cstd : cov_of_std (O:=McOps F) exstd = 1%:M.
Proof. by apply/matrixP=> i j; rewrite /cov_of_std /= !mxE !ord1 /= mulr1. Qed.

Lemma ex_unique : lyap_unique exTa.
Proof.
move=> Q Y Y'; rewrite /exTa block_mxKdr tr_scalar_mx !mul_scalar_mx !mul_mx_scalar.
move=> /matrixP/(_ 0 0) E1 /matrixP/(_ 0 0) E2; apply/matrixP=> i j; rewrite !ord1.
move: E1 E2; rewrite !mxE; set y := Y 0 0; set y' := Y' 0 0; set q := Q 0 0 => E1 E2.
have h2 : h * h = 4%:R^-1 by rewrite /h -invfM -natrM.
have Q1 : (1 - h * h) * y = q by rewrite mulrBl mul1r {1}E1 mulrA addrAC subrr add0r.
have Q2 : (1 - h * h) * y' = q by rewrite mulrBl mul1r {1}E2 mulrA addrAC subrr add0r.
have n0 : 1 - h * h != 0.
  rewrite h2 subr_eq0 eq_sym invr_eq1 (_ : 1 = 1%:R) // eqr_nat.
  by [].
by apply: (mulfI n0); rewrite Q1 Q2.
Qed.

Lemma ex_contract : lyap_contract (sol exTa exPa exZa 1%:M 1%:M 0) (cov_of_std (O:=McOps F) exstd) exX.
Proof.
rewrite /lyap_contract /sigma_u ex_cstd /Ta_stable /Pa_stable /= /exTa /exPa -/(drsubmx _) block_mxKdr col_mxKd.
rewrite tr_scalar_mx !mul_scalar_mx !mul_mx_scalar /exX !scale_scalar_mx.
rewrite trmx1 mulmx1 mulr1 -raddfD /=; congr (_%:M).
have n3 : (3%:R : F) != 0 by rewrite pnatr_eq0.
have n2 : (2%:R : F) != 0 by rewrite pnatr_eq0.
by rewrite /h; field.
Qed.

Lemma ex_sym : exX^T = exX. Proof. exact: tr_scalar_mx. Qed.
Lemma ex_tri : dlsubmx exTa = 0. Proof. exact: block_mxKdl. Qed.
Lemma ex_nonzero : exX != 0.
Proof.
apply/eqP=> /matrixP/(_ 0 0); rewrite !mxE /= mulr1n => /eqP.
by rewrite mulf_eq0 invr_eq0 !pnatr_eq0.
Qed.

(* non-vacuity: a system with one unit root and one stable root meets every hypothesis used above *)
Lemma hypotheses_satisfiable :
  lyap_unique exTa /\
  lyap_contract (sol exTa exPa exZa 1%:M 1%:M 0) (cov_of_std (O:=McOps F) exstd) exX /\
  exX^T = exX /\ exX != 0 /\ dlsubmx exTa = 0 /\
  exTa *m 1%:M = 1%:M *m exTa /\ exPa = 1%:M *m exPa /\ exZa = exZa *m 1%:M.
Proof.
split; first exact: ex_unique.
split; first exact: ex_contract.
by rewrite ex_sym ex_nonzero ex_tri !mulmx1 !mul1mx.
Qed.
End Example.

(* ------------------------------------------------------------------------ *)
(* the statements restated in props/C15.v, phrased on the model's outputs     *)
(* ------------------------------------------------------------------------ *)
Section Statements.
Variable F : rcfType.
Variables nu ns ny ne nw : nat.
Variables (Tam : 'M[F]_(nu + ns)) (Pam : 'M[F]_(nu + ns, ne)) (Zam : 'M[F]_(ny, nu + ns))
          (Hmm : 'M[F]_(ny, nw)) (Uam : 'M[F]_(nu + ns)) (tol : F).
Notation SOL := (sol Tam Pam Zam Hmm Uam tol).
Variables (std_u : 'rV[F]_ne) (std_w : 'rV[F]_nw) (X : 'M[F]_ns).
Notation Su := (cov_of_std (O:=McOps F) std_u).
Notation Sw := (cov_of_std (O:=McOps F) std_w).
Hypothesis HX : lyap_contract SOL Su X.
Hypothesis Xsym : X^T = X.
Notation acov00 k j := (nth 0 (autocov_square_00 SOL Sw X k) j).
Notation atri00 k j := (nth 0 (autocov_triangular_00 SOL Sw X k) j).

Theorem stmt_order0_square k (T : 'M[F]_(nu + ns)) (P : 'M[F]_(nu + ns, ne)) (Z : 'M[F]_(ny, nu + ns)) :
  T *m Uam = Uam *m Tam -> P = Uam *m Pam -> Zam = Z *m Uam -> dlsubmx Tam = 0 ->
  let G := acov00 k 0 in
  (forall m (L : 'M[F]_(m, nu + ns)), L *m lsubmx Uam = 0 ->
     L *m ulsubmx G *m L^T = L *m (T *m ulsubmx G *m T^T + P *m Su *m P^T) *m L^T) /\
  drsubmx G = Z *m ulsubmx G *m Z^T + Hmm *m Sw *m Hmm^T /\
  ursubmx G = ulsubmx G *m Z^T /\ dlsubmx G = Z *m ulsubmx G.
Proof.
move=> HT HP HZ Htri G; rewrite /G nth_autocov_square_00 //; split.
  by move=> m L HL; apply: (order0_square_xx Sw HX Xsym HT HP Htri HL).
exact: (order0_square_measurement Tam Pam Hmm tol Sw Xsym HZ).
Qed.

Theorem stmt_order0_triangular k :
  atri00 k 0 = A_tri SOL *m atri00 k 0 *m (A_tri SOL)^T + Qe Pam Zam Hmm Su Sw.
Proof. by rewrite nth_autocov_triangular_00 //; apply: tri_lyap; [exact: HX | exact: Xsym]. Qed.

Theorem stmt_order_j k j : (j < k)%N ->
  atri00 k j.+1 = A_tri SOL *m atri00 k j /\
  atri00 k j = iter j (mulmx (A_tri SOL)) (atri00 k 0) /\
  acov00 k j = @Wm F nu ns ny Uam *m atri00 k j *m (@Wm F nu ns ny Uam)^T.
Proof.
by move=> jk; rewrite !nth_autocov_triangular_00 ?nth_autocov_square_00 //; try exact: ltnW.
Qed.

Theorem stmt_order_j_square k j (T : 'M[F]_(nu + ns)) (Z : 'M[F]_(ny, nu + ns)) m (Lf : 'M[F]_(m, nu + ns + ny)) :
  T *m Uam = Uam *m Tam -> Zam = Z *m Uam -> dlsubmx Tam = 0 -> (j < k)%N ->
  Lf *m Uload Zam Uam = 0 ->
  Lf *m acov00 k j.+1 = Lf *m Asq T Z *m acov00 k j.
Proof.
move=> HT HZ Htri jk HL; rewrite !nth_autocov_square_00 //; last exact: ltnW.
exact: (order_j_square Pam Hmm tol Sw X HT HZ Htri j HL).
Qed.

Theorem stmt_unit_root_rows_nan kk (s : 'I_kk -> 'I_(nu + ns + ny)) k j (a b : 'I_kk) : (j <= k)%N ->
  nth (const_mx None) (getv_autocov SOL s std_w X k) j a b =
    if loaded Zam Uam tol (s a) || loaded Zam Uam tol (s b) then None
    else Some (acov00 k j (s a) (s b)).
Proof.
by move=> jk; rewrite nth_autocov_square_00 // (@masked_entries _ _ _ _ _ _ Tam Pam Zam Hmm Uam tol _ _ _ (erefl _)).
Qed.

End Statements.

Section StatementsStationary.
Variable F : rcfType.
Variables ns ny ne nw : nat.
Variables (Tam : 'M[F]_(0 + ns)) (Pam : 'M[F]_(0 + ns, ne)) (Zam : 'M[F]_(ny, 0 + ns))
          (Hmm : 'M[F]_(ny, nw)) (Uam : 'M[F]_(0 + ns)) (tol : F).
Notation SOL := (sol Tam Pam Zam Hmm Uam tol).
Variables (std_u : 'rV[F]_ne) (std_w : 'rV[F]_nw) (X : 'M[F]_ns).
Notation Su := (cov_of_std (O:=McOps F) std_u).
Notation Sw := (cov_of_std (O:=McOps F) std_w).
Hypothesis HX : lyap_contract SOL Su X.
Hypothesis Xsym : X^T = X.
Notation acov00 k j := (nth 0 (autocov_square_00 SOL Sw X k) j).

Theorem stmt_stationary k j (T : 'M[F]_(0 + ns)) (P : 'M[F]_(0 + ns, ne)) (Z : 'M[F]_(ny, 0 + ns)) :
  T *m Uam = Uam *m Tam -> P = Uam *m Pam -> Zam = Z *m Uam -> (j < k)%N ->
  let Gxx := ulsubmx (acov00 k 0) in
  Gxx = T *m Gxx *m T^T + P *m Su *m P^T /\
  acov00 k j.+1 = Asq T Z *m acov00 k j.
Proof.
move=> HT HP HZ jk Gxx; rewrite /Gxx !nth_autocov_square_00 //; last exact: ltnW.
split; first by apply: order0_square_stationary; [exact: HX | exact: Xsym | exact: HT | exact: HP].
by apply: order_j_square_stationary; [exact: HT | exact: HZ].
Qed.
End StatementsStationary.
