(* C13: the formulas generated from series/_temporal.py are the documented ones,
   the rate helpers are consistent with them, and cumulation inverts change. *)
From Coq Require Import ZArith List Bool Lia Reals Lra.
From Verif Require Import lib.Arith lib.PyRange lib.Period model.Series gen.TemporalGen model.Temporal
     proofs.SeriesProofs.
Import ListNotations.

(* ------------------------------------------------------------------ scalar laws over R *)
Section ScalarLaws.
Open Scope R_scope.
Notation RA := RArith.
Notation Rln := Rpower.ln.
Notation Rexp := Rtrigo_def.exp.
Implicit Types f g x y a p q : R.

Lemma diff_formula f x y : change_diff RA f x y = x - y.                       Proof. reflexivity. Qed.
Lemma adiff_formula f x y : change_adiff RA f x y = f * (x - y).               Proof. reflexivity. Qed.
Lemma diff_log_formula f x y : change_diff_log RA f x y = Rln x - Rln y.         Proof. reflexivity. Qed.
Lemma adiff_log_formula f x y : change_adiff_log RA f x y = f * (Rln x - Rln y). Proof. reflexivity. Qed.
Lemma roc_formula f x y : change_roc RA f x y = x / y.                         Proof. reflexivity. Qed.
Lemma aroc_formula f x y : change_aroc RA f x y = Rpower (x / y) f.            Proof. reflexivity. Qed.
Lemma pct_formula f x y : change_pct RA f x y = 100 * (x / y - 1).             Proof. reflexivity. Qed.
Lemma apct_formula f x y : change_apct RA f x y = 100 * (Rpower (x / y) f - 1). Proof. reflexivity. Qed.

(* fixed / default shifts and the annualisation factor *)
Lemma shifts_as_documented :
  change_diff_default_shift = Some (-1)%Z /\ change_diff_log_default_shift = Some (-1)%Z /\
  change_roc_default_shift = Some (-1)%Z /\ change_pct_default_shift = Some (-1)%Z /\
  change_adiff_fixed_shift = Some (-1)%Z /\ change_adiff_log_fixed_shift = Some (-1)%Z /\
  change_aroc_fixed_shift = Some (-1)%Z /\ change_apct_fixed_shift = Some (-1)%Z /\
  change_adiff_uses_factor = true /\ change_adiff_log_uses_factor = true /\
  change_aroc_uses_factor = true /\ change_apct_uses_factor = true /\
  change_diff_uses_factor = false /\ change_diff_log_uses_factor = false /\
  change_roc_uses_factor = false /\ change_pct_uses_factor = false.
Proof. repeat split; reflexivity. Qed.

Lemma invalid_shift_iff k : invalid_int_shift k = true <-> (0 <= k)%Z.
Proof. unfold invalid_int_shift. rewrite Z.geb_le. tauto. Qed.

(* rate helpers *)
Lemma roc_from_pct_ok f g x y : y <> 0 -> conv_roc_from_pct RA g (change_pct RA f x y) = change_roc RA f x y.
Proof. intros Hy. cbn. field. exact Hy. Qed.

Lemma pct_from_roc_ok f g x y : conv_pct_from_roc RA g (change_roc RA f x y) = change_pct RA f x y.
Proof. reflexivity. Qed.

Lemma Rpower_inv_cancel q f : 0 < q -> f <> 0 -> Rpower (Rpower q f) (1 / f) = q.
Proof.
  intros Hq Hf. rewrite Rpower_mult. replace (f * (1 / f)) with 1 by (field; exact Hf).
  now apply Rpower_1.
Qed.

Lemma roc_from_apct_ok f x y : 0 < x / y -> f <> 0 ->
  conv_roc_from_apct RA f (change_apct RA f x y) = change_roc RA f x y.
Proof.
  intros Hq Hf. cbn.
  replace (1 + 100 * (Rpower (x / y) f - 1) / 100) with (Rpower (x / y) f) by field.
  now apply Rpower_inv_cancel.
Qed.

Lemma pct_from_apct_ok f x y : 0 < x / y -> f <> 0 ->
  conv_pct_from_apct RA f (change_apct RA f x y) = change_pct RA f x y.
Proof.
  intros Hq Hf. cbn.
  replace (1 + 100 * (Rpower (x / y) f - 1) / 100) with (Rpower (x / y) f) by field.
  now rewrite Rpower_inv_cancel.
Qed.

Lemma roc_from_aroc_ok f x y : 0 < x / y -> f <> 0 ->
  conv_roc_from_aroc RA f (change_aroc RA f x y) = change_roc RA f x y.
Proof.
  intros Hq Hf. cbn. now apply Rpower_inv_cancel.
Qed.

(* one step of cumulation undoes one step of change *)
Lemma cum_diff_fwd_step f a p : cum_diff_forward RA p (change_diff RA f a p) = a.
Proof. cbn. ring. Qed.
Lemma cum_diff_bwd_step f a p : cum_diff_backward RA a (change_diff RA f a p) = p.
Proof. cbn. ring. Qed.
Lemma cum_roc_fwd_step f a p : p <> 0 -> cum_roc_forward RA p (change_roc RA f a p) = a.
Proof. intros. cbn. now field. Qed.
Lemma cum_roc_bwd_step f a p : a <> 0 -> p <> 0 -> cum_roc_backward RA a (change_roc RA f a p) = p.
Proof. intros. cbn. now field. Qed.
Lemma cum_pct_fwd_step f a p : p <> 0 -> cum_pct_forward RA p (change_pct RA f a p) = a.
Proof. intros. cbn. now field. Qed.
Lemma cum_pct_bwd_step f a p : a <> 0 -> p <> 0 -> cum_pct_backward RA a (change_pct RA f a p) = p.
Proof.
  intros Ha Hp. cbn. replace (1 + 100 * (a / p - 1) / 100) with (a / p) by (field; exact Hp).
  field. split; assumption.
Qed.
Lemma cum_diff_log_fwd_step f a p : 0 < a -> 0 < p -> cum_diff_log_forward RA p (change_diff_log RA f a p) = a.
Proof.
  intros Ha Hp. cbn. unfold Rminus. rewrite exp_plus, exp_Ropp, !exp_ln by assumption. field. lra.
Qed.
Lemma cum_diff_log_bwd_step f a p : 0 < a -> 0 < p -> cum_diff_log_backward RA a (change_diff_log RA f a p) = p.
Proof.
  intros Ha Hp. cbn. unfold Rminus. rewrite exp_plus, exp_Ropp, !exp_ln by assumption. field. lra.
Qed.

Lemma formulas_all f x y :
  change_diff RA f x y = x - y /\
  change_adiff RA f x y = f * (x - y) /\
  change_diff_log RA f x y = Rln x - Rln y /\
  change_adiff_log RA f x y = f * (Rln x - Rln y) /\
  change_roc RA f x y = x / y /\
  change_aroc RA f x y = Rpower (x / y) f /\
  change_pct RA f x y = 100 * (x / y - 1) /\
  change_apct RA f x y = 100 * (Rpower (x / y) f - 1).
Proof. repeat split. Qed.

Lemma rate_helpers_all f g x y : 0 < x / y -> f <> 0 -> y <> 0 ->
  conv_roc_from_pct RA g (change_pct RA f x y) = change_roc RA f x y /\
  conv_pct_from_roc RA g (change_roc RA f x y) = change_pct RA f x y /\
  conv_pct_from_apct RA f (change_apct RA f x y) = change_pct RA f x y /\
  conv_roc_from_apct RA f (change_apct RA f x y) = change_roc RA f x y /\
  conv_roc_from_aroc RA f (change_aroc RA f x y) = change_roc RA f x y.
Proof.
  intros Hq Hf Hy. split; [now apply roc_from_pct_ok|]. split; [apply pct_from_roc_ok|].
  split; [now apply pct_from_apct_ok|]. split; [now apply roc_from_apct_ok|now apply roc_from_aroc_ok].
Qed.

End ScalarLaws.

(* ------------------------------------------------------------------ lifting to whole series *)
Section Lift.
Open Scope Z_scope.
Variable A : Arith.
Notation V := (car A).
Notation series := (series A).
Hypothesis miss_law : forall x : V, is_miss A x = true -> x = miss A.

Lemma In_zrange u a b : In u (zrange a b) <-> a <= u < b.
Proof.
  unfold zrange. rewrite in_map_iff. split.
  - intros (i & <- & Hi). apply in_seq in Hi. lia.
  - intros H. exists (Z.to_nat (u - a)). split; [lia|]. apply in_seq. lia.
Qed.

Lemma py_range_step1 a b : py_range a b 1 = zrange a b.
Proof.
  unfold py_range, py_range_len, zrange. change (1 >? 0) with true. cbv iota.
  replace (b - a + 1 - 1) with (b - a) by lia. rewrite Z.div_1_r.
  replace (Z.to_nat (Z.max 0 (b - a))) with (Z.to_nat (b - a)) by lia.
  apply map_ext. intros i. lia.
Qed.

Lemma last_assoc_map t dates (g : Z -> list V) acc :
  In t dates -> last_assoc A t dates (map g dates) acc = Some (g t).
Proof.
  revert acc. induction dates as [|d ds IH]; intros acc Hin; [destruct Hin|]. simpl.
  destruct (in_dec Z.eq_dec t ds) as [Hds|Hds].
  - now apply IH.
  - rewrite last_assoc_notin by assumption. destruct Hin as [->|Hin]; [|contradiction].
    now rewrite Z.eqb_refl.
Qed.

Variables (chg cumf : V -> V -> V) (dom : V -> Prop).

Definition cells_in (x : series) (st en : Z) : Prop :=
  forall t c, st <= t <= en -> (c < s_nv x)%nat -> dom (cell A x t c).

Lemma shift_by_WF (x : series) k : WF A x -> WF A (shift_by A x k).
Proof.
  intros [H1 H2]. unfold shift_by. destruct (s_start x) eqn:E; [|split; [assumption|intros _; now apply H2]].
  split; simpl; [assumption|discriminate].
Qed.

Lemma flat_map_shift fr k (span : list Z) :
  flat_map (fun t => match period_shift fr (ByInt k) t with Some sh => [(t, sh)] | None => [] end) span
  = map (fun t => (t, t + k)) span.
Proof. induction span as [|t l IH]; [reflexivity|]. cbn [flat_map map]. rewrite IH. reflexivity. Qed.

(* forward: x[t] is rebuilt from x[t-k] and the change at t *)
Section Forward.
Hypothesis step_law : forall a p, dom a -> dom p -> cumf p (chg a p) = a.

Lemma row_step (x : series) st en u v :
  WF A x -> cells_in x st en -> st <= u <= en -> st <= v <= en ->
  zip_bcast A cumf (row_at A x v) (zip_bcast A chg (row_at A x u) (row_at A x v)) = row_at A x u.
Proof.
  intros Hwf Hdom Hu Hv.
  assert (Lu := row_at_length A x u Hwf). assert (Lv := row_at_length A x v Hwf).
  assert (Lz : length (zip_bcast A chg (row_at A x u) (row_at A x v)) = s_nv x)
    by (rewrite zip_bcast_length, Lu, Lv; apply Nat.max_id).
  apply nth_ext with (d := miss A) (d' := miss A).
  - rewrite zip_bcast_length, Lz, Lv, Lu. apply Nat.max_id.
  - intros i Hi. rewrite zip_bcast_length, Lz, Lv, Nat.max_id in Hi.
    rewrite zip_bcast_nth by (rewrite ?Lz, ?Lv; auto).
    rewrite zip_bcast_nth by (rewrite ?Lu, ?Lv; auto).
    apply step_law; [apply (Hdom u i Hu Hi)|apply (Hdom v i Hv Hi)].
Qed.

Theorem cum_forward_inverts_gen (x c : series) st k neutral :
  let en := st + Z.of_nat (length (s_data x)) - 1 in
  WF A x -> s_start x = Some st -> 0 < k <= en - st -> invalid_int_shift (- k) = false ->
  cells_in x st en ->
  temporal_change A chg (ByInt (- k)) neutral x = Ok c ->
  let r := cumulate_forward_gen A cumf (ByInt (- k)) (get_data A x) (py_range (st + k) (en + 1) 1) (st + k) en c in
  forall t, st <= t <= en -> row_at A r t = row_at A x t.
Proof.
  intros en Hwf Hst Hk Hinv Hdom Hc r.
  (* the change series *)
  unfold temporal_change in Hc. simpl in Hc. rewrite Hinv in Hc.
  assert (Hwf2 := shift_by_WF x (- k) Hwf).
  assert (Hnv2 : s_nv x = s_nv (shift_by A x (- k))) by (unfold shift_by; rewrite Hst; reflexivity).
  assert (Hne0 : s_start x = None -> s_start (shift_by A x (- k)) = None -> False) by (rewrite Hst; discriminate).
  destruct (row_at_binop A miss_law chg x (shift_by A x (- k)) c Hwf Hwf2 Hnv2 Hne0 Hc)
    as (lo & hi & Hlo & Hhi & Hwfc & Hnvc & Hrowc).
  assert (Elo : lo = st).
  { unfold shift_by in Hlo. rewrite Hst in Hlo. simpl in Hlo. inversion Hlo. lia. }
  assert (Ehi : hi = en + k).
  { unfold shift_by, s_end in Hhi. rewrite Hst in Hhi. simpl in Hhi. inversion Hhi. subst en. lia. }
  subst lo hi.
  (* unfold the loop *)
  subst r. unfold cumulate_forward_gen. rewrite flat_map_shift, py_range_step1.
  set (span := zrange (st + k) (en + 1)).
  set (zipped := map (fun t => (t, t + - k)) span).
  set (minp := match map snd zipped with [] => st + k | sh0 :: r => minl sh0 r end).
  assert (Hminp : minp <= st).
  { subst minp zipped span. unfold zrange. replace (Z.to_nat (en + 1 - (st + k))) with (S (Z.to_nat (en - (st + k)))) by lia.
    simpl. match goal with |- minl ?a ?l <= _ => destruct (minl_le a l) as [H _] end. lia. }
  rewrite py_range_step1.
  set (s0 := set_data A (s_freq c) (mkSeries (s_freq c) (s_start c) (s_nv c) []) (zrange minp (en + 1))
                      (get_data A x (zrange minp (en + 1))) None).
  assert (Hwf0 : WF A (mkSeries (s_freq c) (s_start c) (s_nv c) ([] : list (list V)))).
  { split; simpl; [constructor|reflexivity]. }
  (* invariant *)
  set (Inv := fun s : series => WF A s /\ s_nv s = s_nv x /\ forall u, st <= u <= en -> row_at A s u = row_at A x u).
  assert (H0 : Inv s0).
  { subst s0. split; [now apply set_data_WF|]. split; [rewrite set_data_nv; simpl; exact Hnvc|].
    intros u Hu. rewrite row_at_set_data by assumption. unfold get_data.
    rewrite last_assoc_map by (apply In_zrange; lia). simpl. rewrite Hnvc.
    apply bcast_row_id. now apply row_at_length. }
  assert (Hz : forall p, In p zipped -> st + k <= fst p <= en /\ snd p = fst p - k).
  { intros p Hp. subst zipped. apply in_map_iff in Hp as (t0 & <- & Ht0). apply In_zrange in Ht0. simpl. lia. }
  clearbody zipped s0. clear span minp Hminp.
  revert s0 H0. induction zipped as [|[t0 sh] l IH]; intros s0 H0; cbn [fold_left].
  - intros t Ht. now apply H0.
  - apply IH; [intros p Hp; apply Hz; now right|].
    destruct H0 as (Hw & Hn & Hag). destruct (Hz (t0, sh) (or_introl eq_refl)) as [Ht0 Hsh]. simpl in Ht0, Hsh.
    split; [now apply set_data_WF|]. split; [now rewrite set_data_nv|].
    intros u Hu. rewrite row_at_set_data by assumption. simpl.
    destruct (Z.eqb_spec t0 u) as [->|Hne]; [|now apply Hag].
    rewrite Hag by lia. rewrite Hrowc.
    replace ((st <=? u) && (u <=? en + k)) with true by (symmetry; apply andb_true_iff; split; apply Z.leb_le; lia).
    rewrite row_at_shift. unfold zip_rows. subst sh.
    replace (u + - k) with (u - k) by lia.
    rewrite (row_step x st en u (u - k)) by (auto; lia).
    rewrite Hn. apply bcast_row_id. now apply row_at_length.
Qed.
End Forward.

(* backward: x[t-k] is rebuilt from x[t] and the change at t *)
Section Backward.
Variable cumb : V -> V -> V.
Hypothesis step_law_b : forall a p, dom a -> dom p -> cumb a (chg a p) = p.

Lemma row_step_b (x : series) st en u v :
  WF A x -> cells_in x st en -> st <= u <= en -> st <= v <= en ->
  zip_bcast A cumb (row_at A x u) (zip_bcast A chg (row_at A x u) (row_at A x v)) = row_at A x v.
Proof.
  intros Hwf Hdom Hu Hv.
  assert (Lu := row_at_length A x u Hwf). assert (Lv := row_at_length A x v Hwf).
  assert (Lz : length (zip_bcast A chg (row_at A x u) (row_at A x v)) = s_nv x)
    by (rewrite zip_bcast_length, Lu, Lv; apply Nat.max_id).
  apply nth_ext with (d := miss A) (d' := miss A).
  - rewrite zip_bcast_length, Lz, Lv, Lu. apply Nat.max_id.
  - intros i Hi. rewrite zip_bcast_length, Lz, Lu, Nat.max_id in Hi.
    rewrite zip_bcast_nth by (rewrite ?Lz, ?Lu; auto).
    rewrite zip_bcast_nth by (rewrite ?Lu, ?Lv; auto).
    apply step_law_b; [apply (Hdom u i Hu Hi)|apply (Hdom v i Hv Hi)].
Qed.

Lemma In_py_range_back a b x : In x (py_range a (b + sgn (-1)) (-1)) -> b <= x <= a.
Proof.
  unfold py_range, py_range_len, sgn. change (-1 >? 0) with false. change (-1 <? 0) with true.
  change (-1 =? 0) with false. cbv iota. change (- -1) with 1. rewrite Z.div_1_r.
  intros H. apply in_map_iff in H as (i & <- & Hi). apply in_seq in Hi. lia.
Qed.

Theorem cum_backward_inverts_gen (x c : series) st k neutral (shifted : list Z) a :
  let en := st + Z.of_nat (length (s_data x)) - 1 in
  WF A x -> s_start x = Some st -> 0 < k -> invalid_int_shift (- k) = false ->
  cells_in x st en ->
  temporal_change A chg (ByInt (- k)) neutral x = Ok c ->
  shifted <> [] -> (forall sh, In sh shifted -> st <= sh <= a) -> a + k <= en ->
  let r := cumulate_backward_gen A cumb (- k) (get_data A x) shifted a c in
  forall t, minl a shifted <= t <= a + k -> row_at A r t = row_at A x t.
Proof.
  intros en Hwf Hst Hk Hinv Hdom Hc Hne Hsh Hak r.
  unfold temporal_change in Hc. simpl in Hc. rewrite Hinv in Hc.
  assert (Hwf2 := shift_by_WF x (- k) Hwf).
  assert (Hnv2 : s_nv x = s_nv (shift_by A x (- k))) by (unfold shift_by; rewrite Hst; reflexivity).
  assert (Hne0 : s_start x = None -> s_start (shift_by A x (- k)) = None -> False) by (rewrite Hst; discriminate).
  destruct (row_at_binop A miss_law chg x (shift_by A x (- k)) c Hwf Hwf2 Hnv2 Hne0 Hc)
    as (lo & hi & Hlo & Hhi & Hwfc & Hnvc & Hrowc).
  assert (Elo : lo = st).
  { unfold shift_by in Hlo. rewrite Hst in Hlo. simpl in Hlo. inversion Hlo. lia. }
  assert (Ehi : hi = en + k).
  { unfold shift_by, s_end in Hhi. rewrite Hst in Hhi. simpl in Hhi. inversion Hhi. subst en. lia. }
  subst lo hi.
  subst r. unfold cumulate_backward_gen.
  destruct shifted as [|t0 rest] eqn:Eshifted; [contradiction|]. rewrite <- Eshifted in *.
  set (m := minl t0 rest).
  assert (Hm : m <= minl a shifted /\ st <= m).
  { subst m. rewrite Eshifted. unfold minl. simpl.
    assert (Ht0 : st <= t0 <= a) by (apply Hsh; rewrite Eshifted; now left).
    replace (Z.min a t0) with t0 by lia. split; [lia|].
    assert (G : forall l d0, st <= d0 -> (forall d, In d l -> st <= d) -> st <= fold_left Z.min l d0).
    { induction l as [|y l IHl]; intros d0 Hd0 Hl; simpl; [assumption|]. apply IHl; [|intros; apply Hl; now right].
      specialize (Hl y (or_introl eq_refl)). lia. }
    apply G; [lia|]. intros d Hd. apply Hsh. rewrite Eshifted. now right. }
  replace (a - - k + 1) with (a + k + 1) by lia. rewrite py_range_step1.
  set (s0 := set_data A (s_freq c) (mkSeries (s_freq c) (s_start c) (s_nv c) []) (zrange m (a + k + 1))
                      (get_data A x (zrange m (a + k + 1))) None).
  assert (Hwf0 : WF A (mkSeries (s_freq c) (s_start c) (s_nv c) ([] : list (list V)))).
  { split; simpl; [constructor|reflexivity]. }
  set (Inv := fun s : series => WF A s /\ s_nv s = s_nv x /\ forall u, m <= u <= a + k -> row_at A s u = row_at A x u).
  assert (H0 : Inv s0).
  { subst s0. split; [now apply set_data_WF|]. split; [rewrite set_data_nv; simpl; exact Hnvc|].
    intros u Hu. rewrite row_at_set_data by assumption. unfold get_data.
    rewrite last_assoc_map by (apply In_zrange; lia). simpl. rewrite Hnvc.
    apply bcast_row_id. now apply row_at_length. }
  assert (Hz : forall p, In p (combine (map (fun t => t - - k) shifted) shifted) ->
                         m <= snd p <= a /\ fst p = snd p + k).
  { intros [p1 p2] Hp. pose proof (in_combine_r _ _ _ _ Hp) as Hr.
    assert (p1 = p2 - - k).
    { clear - Hp. induction shifted as [|y l IHl]; [destruct Hp|]. simpl in Hp. destruct Hp as [E|Hp]; [now inversion E|now apply IHl]. }
    simpl. split; [|lia]. split; [|apply Hsh; assumption].
    subst m. rewrite Eshifted in Hr. destruct (minl_le t0 rest) as [G1 G2]. destruct Hr as [<-|Hr]; [lia|now apply G2]. }
  intros t Ht. assert (Ht' : m <= t <= a + k) by lia. clear Ht. revert t Ht'.
  generalize dependent (combine (map (fun t => t - - k) shifted) shifted). intros zipped Hz.
  clearbody s0. revert s0 H0. induction zipped as [|[t1 sh] l IH]; intros s0 H0; cbn [fold_left].
  - intros t Ht. now apply H0.
  - apply IH; [intros p Hp; apply Hz; now right|].
    destruct H0 as (Hw & Hn & Hag). destruct (Hz (t1, sh) (or_introl eq_refl)) as [Hs1 Ht1]. simpl in Hs1, Ht1.
    split; [now apply set_data_WF|]. split; [now rewrite set_data_nv|].
    intros u Hu. rewrite row_at_set_data by assumption. simpl.
    destruct (Z.eqb_spec sh u) as [->|Hne']; [|now apply Hag].
    rewrite Hag by lia. rewrite Hrowc.
    replace ((st <=? t1) && (t1 <=? en + k)) with true by (symmetry; apply andb_true_iff; split; apply Z.leb_le; lia).
    rewrite row_at_shift. unfold zip_rows. subst t1.
    replace (u + k + - k) with u by lia.
    rewrite (row_step_b x st en (u + k) u) by (auto; lia).
    rewrite Hn. apply bcast_row_id. now apply row_at_length.
Qed.
End Backward.

End Lift.

(* ------------------------------------------------------------------ the public operations over the reals *)
Section Public.
Open Scope Z_scope.
Notation RA := RArith.

Lemma RA_miss_law : forall x : car RA, is_miss RA x = true -> x = miss RA.
Proof. intros x H. discriminate H. Qed.

Definition chg_of (ck : cum_kind) : change_kind :=
  match ck with CumDiff => KDiff | CumDiffLog => KDiffLog | CumPct => KPct | CumRoc => KRoc end.

(* admissible data: anything for diff, positive where logs are taken, non-zero where ratios are taken *)
Definition dom_of (ck : cum_kind) (v : car RA) : Prop :=
  match ck with CumDiff => True | CumDiffLog => (0 < v)%R | CumPct => v <> 0%R | CumRoc => v <> 0%R end.

Lemma fwd_law ck f : forall a p, dom_of ck a -> dom_of ck p ->
  cum_forward RA ck p (change_fun RA (chg_of ck) f a p) = a.
Proof.
  destruct ck; simpl; intros a p Ha Hp.
  - apply (cum_diff_fwd_step f).
  - now apply (cum_diff_log_fwd_step f).
  - now apply (cum_pct_fwd_step f).
  - now apply (cum_roc_fwd_step f).
Qed.

Lemma bwd_law ck f : forall a p, dom_of ck a -> dom_of ck p ->
  cum_backward RA ck a (change_fun RA (chg_of ck) f a p) = p.
Proof.
  destruct ck; simpl; intros a p Ha Hp.
  - apply (cum_diff_bwd_step f).
  - now apply (cum_diff_log_bwd_step f).
  - now apply (cum_pct_bwd_step f).
  - now apply (cum_roc_bwd_step f).
Qed.

Lemma neg_shift_valid k : 0 < k -> invalid_int_shift (- k) = false.
Proof. intros H. unfold invalid_int_shift. rewrite Z.geb_leb. apply Z.leb_gt. lia. Qed.

Lemma change_unfold ck k (x : series RA) :
  change RA (chg_of ck) (ByInt (- k)) x
  = temporal_change RA (change_fun RA (chg_of ck) (factor_of RA x)) (ByInt (- k)) (change_neutral (chg_of ck)) x.
Proof. destruct ck; reflexivity. Qed.

Theorem cum_forward_inverts ck (x c r : series RA) st k :
  let en := st + Z.of_nat (length (s_data x)) - 1 in
  WF RA x -> s_start x = Some st -> 0 < k <= en - st ->
  cells_in RA (dom_of ck) x st en ->
  change RA (chg_of ck) (ByInt (- k)) x = Ok c ->
  temporal_cumulation RA ck (ByInt (- k)) (InitSeries RA x) (SpanFromTo (st + k) en 1) c = Ok r ->
  forall t, st <= t <= en -> row_at RA r t = row_at RA x t.
Proof.
  intros en Hwf Hst Hk Hdom Hc Hr t Ht.
  rewrite change_unfold in Hc.
  unfold temporal_cumulation in Hr. simpl shift_invalid in Hr. rewrite neg_shift_valid in Hr by lia.
  cbn [sgn] in Hr. change (1 >? 0) with true in Hr. cbv iota beta in Hr.
  inversion Hr as [Hr']. clear Hr.
  unfold cumulate_forward. cbn [initial_rows].
  eapply (cum_forward_inverts_gen RA RA_miss_law _ _ (dom_of ck) (fwd_law ck (factor_of RA x)) x c st k); eauto.
  apply neg_shift_valid; lia.
Qed.

Theorem cum_backward_inverts ck (x c r : series RA) st k a b :
  let en := st + Z.of_nat (length (s_data x)) - 1 in
  WF RA x -> s_start x = Some st -> 0 < k -> st <= b <= a -> a + k <= en ->
  cells_in RA (dom_of ck) x st en ->
  change RA (chg_of ck) (ByInt (- k)) x = Ok c ->
  temporal_cumulation RA ck (ByInt (- k)) (InitSeries RA x) (SpanFromTo a b (-1)) c = Ok r ->
  forall t, b <= t <= a + k -> row_at RA r t = row_at RA x t.
Proof.
  intros en Hwf Hst Hk Hab Hak Hdom Hc Hr t Ht.
  rewrite change_unfold in Hc.
  unfold temporal_cumulation in Hr. simpl shift_invalid in Hr. rewrite neg_shift_valid in Hr by lia.
  change (-1 >? 0) with false in Hr. cbv iota beta in Hr.
  inversion Hr as [Hr']. clear Hr.
  unfold cumulate_backward. cbn [initial_rows].
  set (shifted := py_range a (b + sgn (-1)) (-1)).
  assert (Hin : forall sh, In sh shifted -> b <= sh <= a) by (intros sh; apply In_py_range_back).
  assert (Hne : shifted <> []).
  { subst shifted. unfold py_range, py_range_len, sgn. change (-1 >? 0) with false. change (-1 <? 0) with true.
    change (-1 =? 0) with false. cbv iota. change (- -1) with 1. rewrite Z.div_1_r.
    replace (Z.to_nat (Z.max 0 (a - (b + -1) - -1 - 1))) with (S (Z.to_nat (a - b))) by lia. discriminate. }
  eapply (cum_backward_inverts_gen RA RA_miss_law _ (dom_of ck) _ (bwd_law ck (factor_of RA x)) x c st k); eauto.
  - apply neg_shift_valid; lia.
  - intros sh Hs. specialize (Hin sh Hs). lia.
  - split; [|lia].
    (* the minimum of the written periods is at most b <= t: b itself is written last *)
    assert (Hb : In b shifted).
    { subst shifted. unfold py_range, py_range_len, sgn. change (-1 >? 0) with false. change (-1 <? 0) with true.
      change (-1 =? 0) with false. cbv iota. change (- -1) with 1. rewrite Z.div_1_r.
      apply in_map_iff. exists (Z.to_nat (a - b)). split; [lia|]. apply in_seq. lia. }
    destruct (minl_le a shifted) as [_ G]. specialize (G b Hb). lia.
Qed.

Lemma hypotheses_satisfiable :
  let x := mkSeries (A:=RA) 4 (Some 8000%Z) 1 [[1%R]; [2%R]; [4%R]; [8%R]; [16%R]] in
  WF RA x /\ s_start x = Some 8000%Z /\ (0 < 2 <= (8000 + 5 - 1) - 8000)%Z /\
  cells_in RA (dom_of CumRoc) x 8000 8004 /\
  exists c r, change RA KRoc (ByInt (-2)) x = Ok c /\
              temporal_cumulation RA CumRoc (ByInt (-2)) (InitSeries RA x) (SpanFromTo 8002 8004 1) c = Ok r.
Proof.
  intros x. split; [split; [repeat constructor|discriminate]|]. split; [reflexivity|]. split; [lia|].
  split.
  - intros t c Ht Hc. simpl in Hc. assert (c = 0%nat) by lia. subst c.
    assert (Hcases : t = 8000 \/ t = 8001 \/ t = 8002 \/ t = 8003 \/ t = 8004) by lia.
    destruct Hcases as [E|[E|[E|[E|E]]]]; subst t; unfold cell, row_at, x; simpl; lra.
  - eexists. eexists. split; reflexivity.
Qed.

End Public.
