(* Source variants that differ only in style compile to the same model (property C04):
   {k} vs [k], ^ vs **, = vs :=, keyword spellings, <x> vs {{x}}, ?(c)|upper vs ?{c}. *)
From Coq Require Import ZArith List String Bool Lia.
From Verif Require Import lib.PyRange lib.LangSyntax gen.PseudoGen model.Lang proofs.LangProofs.
Import ListNotations.
Open Scope Z_scope.

#[local] Opaque big_fuel.

(* ------------------------------------------------------------------ *)
(* erasure of the style fields                                         *)
(* ------------------------------------------------------------------ *)
Definition erase_piece (p : piece) : piece :=
  match p with
  | Ctl c VUpperPipe => Ctl c VUpper
  | Ctl c VLowerPipe => Ctl c VLower
  | _ => p
  end.
Definition erase_tname (n : tname) : tname := map erase_piece n.

Fixpoint erase_cond (cd : cond) : cond :=
  match cd with
  | CdStrEq a b ng => CdStrEq (erase_tname a) b ng
  | CdNot a => CdNot (erase_cond a)
  | CdAnd a b => CdAnd (erase_cond a) (erase_cond b)
  | CdOr a b => CdOr (erase_cond a) (erase_cond b)
  | _ => cd
  end.

Definition erase_shift (k : shiftspec) : shiftspec :=
  match k with ShZ z _ => ShZ z Square | ShCtx ie => ShCtx ie end.

Fixpoint erase_expr (e : expr) : expr :=
  match e with
  | EName n k => EName (erase_tname n) (erase_shift k)
  | ENum m d => ENum m d
  | ECtx ie _ => ECtx ie false
  | EBin o _ a b => EBin o StarStar (erase_expr a) (erase_expr b)
  | ENeg a => ENeg (erase_expr a)
  | ECall f args => ECall f (map erase_expr args)
  | EParen a => EParen (erase_expr a)
  | EPseudo f a k => EPseudo f (erase_expr a) k
  | ESubs s => ESubs s
  end.

Definition erase_tokitem (ti : tokitem) : tokitem :=
  match ti with TokName n => TokName (erase_tname n) | TokCtx v => TokCtx v end.

Definition erase_directive {T U} (g : T -> U) (d : directive T) : directive U :=
  match d with
  | DText x => DText (g x)
  | DFor c toks => DFor c (map erase_tokitem toks)
  | DIf cd => DIf (erase_cond cd)
  | DElse => DElse
  | DEnd => DEnd
  end.

Definition erase_tail (t : tail) : tail := (fst t, erase_expr (snd t)).
Definition erase_side (s : eqside) : eqside :=
  mkSide (erase_expr (s_lhs s)) false (erase_expr (s_rhs s)) (map (erase_directive erase_tail) (s_tails s)).

Definition erase_kw (b : blockkw) : blockkw :=
  match b with
  | BQty k _ => BQty k 0
  | BLog ab _ => BLog ab 0
  | BEqn k _ => BEqn k 0
  | BSubs _ => BSubs 0
  end.

Definition erase_item (it : item) : item :=
  match it with
  | IKeyword b => IKeyword (erase_kw b)
  | IQty d n tg => IQty (erase_tname d) (erase_tname n) tg
  | ILog n => ILog (erase_tname n)
  | ILogList tg => ILogList tg
  | IEqn d dy st => IEqn (erase_tname d) (erase_side dy) (match st with Some s => Some (erase_side s) | None => None end)
  | ISubs nm _ b => ISubs nm false (erase_expr b)
  end.

Definition erase_source (src : source) : source := map (erase_directive erase_item) src.

(* ------------------------------------------------------------------ *)
(* expressions                                                         *)
(* ------------------------------------------------------------------ *)
Section ExprInd.
Variable P : expr -> Prop.
Hypothesis Hname : forall n k, P (EName n k).
Hypothesis Hnum : forall m d, P (ENum m d).
Hypothesis Hctx : forall ie j, P (ECtx ie j).
Hypothesis Hbin : forall o ps a b, P a -> P b -> P (EBin o ps a b).
Hypothesis Hneg : forall a, P a -> P (ENeg a).
Hypothesis Hcall : forall f args, Forall P args -> P (ECall f args).
Hypothesis Hparen : forall a, P a -> P (EParen a).
Hypothesis Hpseudo : forall f a k, P a -> P (EPseudo f a k).
Hypothesis Hsubs : forall s, P (ESubs s).
Fixpoint expr_ind' (e : expr) : P e :=
  match e with
  | EName n k => Hname n k
  | ENum m d => Hnum m d
  | ECtx ie j => Hctx ie j
  | EBin o ps a b => Hbin o ps a b (expr_ind' a) (expr_ind' b)
  | ENeg a => Hneg a (expr_ind' a)
  | ECall f args =>
      Hcall f args ((fix go (l : list expr) : Forall P l :=
                       match l with [] => Forall_nil P | x :: r => Forall_cons x (expr_ind' x) (go r) end) args)
  | EParen a => Hparen a (expr_ind' a)
  | EPseudo f a k => Hpseudo f a k (expr_ind' a)
  | ESubs s => Hsubs s
  end.
End ExprInd.

Lemma close_erase n : close_name (erase_tname n) = close_name n.
Proof.
  induction n as [|p r IH]; [reflexivity|].
  destruct p as [s|c v]; simpl.
  - rewrite IH. reflexivity.
  - destruct v; reflexivity.
Qed.

Lemma subst_erase_piece c tok p : subst_piece c tok (erase_piece p) = erase_piece (subst_piece c tok p).
Proof.
  destruct p as [s|c' v]; [reflexivity|].
  destruct v; simpl; destruct (String.eqb c' c); reflexivity.
Qed.

Lemma subst_erase_tname c tok n : subst_tname c tok (erase_tname n) = erase_tname (subst_tname c tok n).
Proof.
  unfold subst_tname, erase_tname. rewrite !map_map. apply map_ext. intros p. apply subst_erase_piece.
Qed.

Lemma subst_erase_cond c tok cd : subst_cond c tok (erase_cond cd) = erase_cond (subst_cond c tok cd).
Proof.
  induction cd; simpl; try reflexivity.
  - rewrite subst_erase_tname. reflexivity.
  - rewrite IHcd. reflexivity.
  - rewrite IHcd1, IHcd2. reflexivity.
  - rewrite IHcd1, IHcd2. reflexivity.
Qed.

Lemma subst_erase_expr c tok e : subst_expr c tok (erase_expr e) = erase_expr (subst_expr c tok e).
Proof.
  induction e using expr_ind'; simpl; try reflexivity.
  - rewrite subst_erase_tname. reflexivity.
  - rewrite IHe1, IHe2. reflexivity.
  - rewrite IHe. reflexivity.
  - f_equal. rewrite !map_map. apply map_ext_Forall. exact H.
  - rewrite IHe. reflexivity.
  - rewrite IHe. reflexivity.
Qed.

Lemma subst_erase_tokitem c tok ti : subst_tokitem c tok (erase_tokitem ti) = erase_tokitem (subst_tokitem c tok ti).
Proof. destruct ti; simpl; [rewrite subst_erase_tname|]; reflexivity. Qed.

Lemma cond_eval_erase cx cd : cond_eval cx (erase_cond cd) = cond_eval cx cd.
Proof.
  induction cd; simpl; try reflexivity.
  - rewrite close_erase. reflexivity.
  - rewrite IHcd. reflexivity.
  - rewrite IHcd1, IHcd2. reflexivity.
  - rewrite IHcd1, IHcd2. reflexivity.
Qed.

Lemma tokens_of_erase cx toks : tokens_of cx (map erase_tokitem toks) = tokens_of cx toks.
Proof.
  induction toks as [|ti r IH]; [reflexivity|].
  destruct ti; simpl; rewrite IH; [rewrite close_erase|]; reflexivity.
Qed.

Lemma elab_erase cx subs e : elab cx subs (erase_expr e) = elab cx subs e.
Proof.
  induction e using expr_ind'; simpl; try reflexivity.
  - rewrite close_erase. destruct k; reflexivity.
  - rewrite IHe1, IHe2. reflexivity.
  - rewrite IHe. reflexivity.
  - match goal with |- match ?G (map erase_expr args) with _ => _ end = match ?G' args with _ => _ end =>
      assert (E : G (map erase_expr args) = G' args) end.
    { induction H as [|x l Hx Hl IH]; simpl; [reflexivity|]. rewrite Hx, IH. reflexivity. }
    rewrite E. reflexivity.
  - rewrite IHe. reflexivity.
  - rewrite IHe. reflexivity.
Qed.

(* ------------------------------------------------------------------ *)
(* _resolve_sequence commutes with a map of the payload                *)
(* ------------------------------------------------------------------ *)
Definition rmap {T U} (g : T -> U) (r : rres T) : rres U :=
  match r with ROk l => ROk (map g l) | RErr => RErr | RFuel => RFuel end.

Section ResolveMap.
Context {T U : Type}.
Variable g : T -> U.
Variable subT : string -> string -> T -> T.
Variable subU : string -> string -> U -> U.
Hypothesis Hcomm : forall c tok x, subU c tok (g x) = g (subT c tok x).
Variable cx : context.
Variable be : bool.
Notation dm := (erase_directive g).

Lemma level_dm d : level (dm d) = level d.
Proof. destruct d; reflexivity. Qed.

Lemma find_end_from_dm s : forall acc i, find_end_from acc i (map dm s) = find_end_from acc i s.
Proof. induction s as [|d r IH]; intros acc i; simpl; [reflexivity|]. rewrite level_dm, IH. reflexivity. Qed.

Lemma find_else_from_dm s : forall acc i b, find_else_from acc i b (map dm s) = find_else_from acc i b s.
Proof.
  induction s as [|d r IH]; intros acc i b; simpl; [reflexivity|].
  rewrite level_dm, IH. destruct d; reflexivity.
Qed.

Lemma slice_dm a b s : slice a b (map dm s) = map dm (slice a b s).
Proof. unfold slice. rewrite skipn_map, firstn_map. reflexivity. Qed.

Lemma subst_dm c tok d : subst_directive subU c tok (dm d) = dm (subst_directive subT c tok d).
Proof.
  destruct d; simpl; try reflexivity.
  - rewrite Hcomm. reflexivity.
  - f_equal. rewrite !map_map. apply map_ext. intros ti. apply subst_erase_tokitem.
  - rewrite subst_erase_cond. reflexivity.
Qed.

Lemma rmap_rapp (a b : rres T) : rmap g (rapp a b) = rapp (rmap g a) (rmap g b).
Proof. destruct a, b; simpl; try reflexivity. rewrite map_app. reflexivity. Qed.

Lemma resolve_dm : forall fuel s,
  resolve subU cx be fuel (map dm s) = rmap g (resolve subT cx be fuel s).
Proof.
  induction fuel as [|fu IH]; intros s; [reflexivity|].
  destruct s as [|d r]; [reflexivity|].
  destruct d as [x|c toks|cd| |].
  - cbn [map erase_directive resolve]. rewrite IH, rmap_rapp. reflexivity.
  - cbn [map erase_directive resolve].
    change (DFor c (map erase_tokitem toks) :: map dm r) with (map dm (DFor c toks :: r)).
    unfold find_end. rewrite find_end_from_dm, tokens_of_erase.
    destruct (find_end_from 0 0 (DFor c toks :: r)) as [e|]; [|reflexivity].
    destruct (tokens_of cx toks) as [tl|]; [|reflexivity].
    rewrite slice_dm, skipn_map, rmap_rapp, <- !IH. f_equal. f_equal.
    induction tl as [|tok tl IHt]; [reflexivity|]. simpl. rewrite map_app, <- IHt. f_equal.
    rewrite !map_map. apply map_ext. intros d. apply subst_dm.
  - cbn [map erase_directive resolve].
    change (DIf (erase_cond cd) :: map dm r) with (map dm (DIf cd :: r)).
    unfold find_end, find_else. rewrite find_end_from_dm, cond_eval_erase.
    destruct (find_end_from 0 0 (DIf cd :: r)) as [e|]; [|reflexivity].
    destruct (cond_eval cx cd) as [b|]; [|reflexivity].
    rewrite find_else_from_dm.
    destruct (find_else_from 0 0 (if be then Some e else None) (DIf cd :: r)) as [i|];
      destruct b; rewrite !slice_dm, skipn_map, rmap_rapp, <- !IH; reflexivity.
  - reflexivity.
  - reflexivity.
Qed.
End ResolveMap.

(* ------------------------------------------------------------------ *)
(* items, equations, the whole model                                   *)
(* ------------------------------------------------------------------ *)
Lemma subst_erase_tail c tok t : subst_tail c tok (erase_tail t) = erase_tail (subst_tail c tok t).
Proof. destruct t as [b e]. unfold subst_tail, erase_tail. simpl. rewrite subst_erase_expr. reflexivity. Qed.

Lemma subst_erase_side c tok s : subst_side c tok (erase_side s) = erase_side (subst_side c tok s).
Proof.
  unfold subst_side, erase_side. simpl. rewrite !subst_erase_expr. f_equal.
  rewrite !map_map. apply map_ext. intros d.
  apply (subst_dm erase_tail subst_tail subst_tail). intros; apply subst_erase_tail.
Qed.

Lemma subst_erase_item c tok it : subst_item c tok (erase_item it) = erase_item (subst_item c tok it).
Proof.
  destruct it; simpl; try reflexivity.
  - rewrite !subst_erase_tname. reflexivity.
  - rewrite subst_erase_tname. reflexivity.
  - rewrite subst_erase_tname, subst_erase_side. destruct steady; [rewrite subst_erase_side|]; reflexivity.
Qed.

Lemma map_opt_map {A B C} (f : B -> option C) (h : A -> B) l : map_opt f (map h l) = map_opt (fun x => f (h x)) l.
Proof. induction l; simpl; [reflexivity|]. rewrite IHl. reflexivity. Qed.

Lemma map_opt_ext {A B} (f h : A -> option B) l : (forall x, f x = h x) -> map_opt f l = map_opt h l.
Proof. intros H. induction l; simpl; [reflexivity|]. rewrite IHl, H. reflexivity. Qed.

Lemma side_written_erase cx subs be s : side_written cx subs be (erase_side s) = side_written cx subs be s.
Proof.
  unfold side_written, erase_side. simpl.
  rewrite (resolve_dm erase_tail subst_tail subst_tail (fun c tok x => subst_erase_tail c tok x)).
  destruct (resolve subst_tail cx be big_fuel (s_tails s)) as [tl| |]; simpl; try reflexivity.
  rewrite !elab_erase, map_opt_map.
  rewrite (map_opt_ext (fun x => elab_tail cx subs (erase_tail x)) (elab_tail cx subs)); [reflexivity|].
  intros [b e]. unfold elab_tail, erase_tail. simpl. rewrite elab_erase. reflexivity.
Qed.

Lemma compile_side_erase cx subs be names shocks s :
  compile_side cx subs be names shocks (erase_side s) = compile_side cx subs be names shocks s.
Proof. unfold compile_side. rewrite side_written_erase. reflexivity. Qed.

Definition erase_eqn (e : eqn) : eqn :=
  mkEqn (e_kind e) (e_descr e) (erase_side (e_dyn e)) (match e_steady e with Some s => Some (erase_side s) | None => None end).

Definition erase_coll (c : collected) : collected :=
  mkColl (c_block c) (c_decls c) (c_log c) (c_allbut c) (map erase_eqn (c_eqns c))
         (map (fun nb : string * expr => (fst nb, erase_expr (snd nb))) (c_subs c)).

Lemma collect1_erase tags st it :
  collect1 tags (option_map erase_coll st) (erase_item it) = option_map erase_coll (collect1 tags st it).
Proof.
  destruct st as [c|]; [|reflexivity].
  destruct it as [b|d n tg|n|tg|d dy sd|nm a b]; simpl.
  - destruct b; reflexivity.
  - destruct (c_block c); try reflexivity. rewrite !close_erase.
    destruct (close_name d); [|reflexivity]. destruct (close_name n); reflexivity.
  - destruct (c_block c); try reflexivity. rewrite close_erase. destruct (close_name n); reflexivity.
  - destruct (c_block c); reflexivity.
  - destruct (c_block c); try reflexivity. rewrite close_erase. destruct (close_name d); [|reflexivity].
    simpl. unfold erase_coll. simpl. rewrite map_app. reflexivity.
  - destruct (c_block c); try reflexivity. simpl. unfold erase_coll. simpl. rewrite map_app. reflexivity.
Qed.

Lemma tags_of_erase items : tags_of (map erase_item items) = tags_of items.
Proof.
  unfold tags_of. induction items as [|it r IH]; [reflexivity|]. simpl. rewrite IH. f_equal.
  destruct it as [b|d n [tg|]|n|tg|d dy sd|nm a b]; simpl; try reflexivity.
  rewrite close_erase. reflexivity.
Qed.

Lemma collect_erase items : collect (map erase_item items) = option_map erase_coll (collect items).
Proof.
  unfold collect. rewrite tags_of_erase. generalize (tags_of items) as tags. intros tags.
  assert (H : forall st, fold_left (collect1 tags) (map erase_item items) (option_map erase_coll st)
                         = option_map erase_coll (fold_left (collect1 tags) items st)).
  { induction items as [|it r IH]; intros st; [reflexivity|]. simpl. rewrite collect1_erase. apply IH. }
  apply (H (Some coll0)).
Qed.

Lemma filter_map_eqn (p : eqn -> bool) l : (forall e, p (erase_eqn e) = p e) ->
  filter p (map erase_eqn l) = map erase_eqn (filter p l).
Proof.
  intros H. induction l as [|e r IH]; [reflexivity|]. simpl. rewrite H. destruct (p e); simpl; rewrite IH; reflexivity.
Qed.

Lemma compile_collected_erase cx be c : compile_collected cx be (erase_coll c) = compile_collected cx be c.
Proof.
  unfold compile_collected. cbn [erase_coll c_allbut c_decls c_log c_eqns c_subs].
  destruct (allbut_flag (c_allbut c)) as [ab|]; [|reflexivity].
  rewrite !filter_map_eqn by (intros; reflexivity). rewrite <- map_app, !map_length.
  repeat match goal with |- (if ?b then _ else _) = (if ?b then _ else _) => destruct b; [reflexivity|] end.
  rewrite map_opt_map.
  rewrite (map_opt_ext _ (fun nb : string * expr =>
             match elab cx [] (snd nb) with Some b => Some (fst nb, expand b) | None => None end));
    [| intros [n b]; simpl; rewrite elab_erase; reflexivity].
  destruct (map_opt _ (c_subs c)) as [subs|]; [|reflexivity].
  rewrite !map_opt_map.
  set (names := map d_name (all_decls (c_decls c))).
  set (tsh := map d_name (of_kind QTransitionShock (all_decls (c_decls c)))).
  set (eqs := (filter _ (c_eqns c) ++ filter _ (c_eqns c))%list).
  rewrite (map_opt_ext (fun x : eqn => compile_side cx subs be names
                                         match e_kind (erase_eqn x) with KTransition => tsh | KMeasurement => [] end (e_dyn (erase_eqn x)))
                       (fun e : eqn => compile_side cx subs be names
                                         match e_kind e with KTransition => tsh | KMeasurement => [] end (e_dyn e)) eqs)
    by (intros e; simpl; apply compile_side_erase).
  rewrite (map_opt_ext (fun x : eqn => compile_side cx subs be names []
                                         match e_steady (erase_eqn x) with Some s => s | None => e_dyn (erase_eqn x) end)
                       (fun e : eqn => compile_side cx subs be names [] match e_steady e with Some s => s | None => e_dyn e end) eqs)
    by (intros e; simpl; destruct (e_steady e); apply compile_side_erase).
  rewrite map_map. reflexivity.
Qed.

(* Theorem 5b: the compiled model does not depend on the style of the source *)
Theorem variants_equal_styles cx be fuel (src : source) :
  compile cx be fuel (erase_source src) = compile cx be fuel src.
Proof.
  unfold compile, erase_source.
  rewrite (resolve_dm erase_item subst_item subst_item (fun c tok x => subst_erase_item c tok x)).
  destruct (resolve subst_item cx be fuel src) as [items| |]; simpl; try reflexivity.
  rewrite collect_erase. destruct (collect items) as [c|]; simpl; [|reflexivity].
  apply compile_collected_erase.
Qed.

Corollary same_erasure_same_model cx be fuel (s1 s2 : source) :
  erase_source s1 = erase_source s2 -> compile cx be fuel s1 = compile cx be fuel s2.
Proof. intros H. rewrite <- (variants_equal_styles cx be fuel s1), H. apply variants_equal_styles. Qed.

(* ------------------------------------------------------------------ *)
(* declared names, kinds, descriptions, log status                     *)
(* ------------------------------------------------------------------ *)
Lemma qkind_eqb_eq a b : qkind_eqb a b = true <-> a = b.
Proof. destruct a, b; simpl; split; intros H; try reflexivity; try discriminate. Qed.

Lemma in_of_kind d k l : In d (of_kind k l) <-> In d l /\ d_kind d = k.
Proof. unfold of_kind. rewrite filter_In, qkind_eqb_eq. reflexivity. Qed.

Lemma in_by_kind d (order l : list qkind) (ds : list decl) :
  In d (flat_map (fun k => of_kind k ds) order) <-> In d ds /\ In (d_kind d) order.
Proof.
  rewrite in_flat_map. split.
  - intros [k [Hk Hd]]. apply in_of_kind in Hd. destruct Hd as [Hd <-]. auto.
  - intros [Hd Hk]. exists (d_kind d). split; [exact Hk|]. apply in_of_kind. auto.
Qed.

(* Invariant.quantities = the declared quantities plus one ant_ quantity per transition shock and one std_
   quantity per shock, each with its kind and description, nothing else *)
Theorem quantities_exactly_declared (decls : list decl) (d : decl) :
  In d (all_decls decls) <->
     (In d decls /\ In (d_kind d) entry_order)
  \/ (exists s, In s decls /\ d_kind s = QTransitionShock /\
                d = mkDecl QAnticipatedShockValue (append ant_prefix (d_name s)) (append ant_descr_prefix (descr_or_name s)))
  \/ (exists s, In s decls /\ d_kind s = QTransitionShock /\
                d = mkDecl QTransitionStd (append std_prefix (d_name s)) (append std_descr_prefix (descr_or_name s)))
  \/ (exists s, In s decls /\ d_kind s = QMeasurementShock /\
                d = mkDecl QMeasurementStd (append std_prefix (d_name s)) (append std_descr_prefix (descr_or_name s))).
Proof.
  unfold all_decls.
  set (entered := flat_map (fun k => of_kind k decls) entry_order).
  assert (Hent : forall x, In x entered <-> In x decls /\ In (d_kind x) entry_order)
    by (intros x; apply (in_by_kind x entry_order entry_order decls)).
  assert (Hall : forall k, In k kind_order) by (intros k; destruct k; simpl; tauto).
  rewrite (in_by_kind d kind_order kind_order).
  rewrite !in_app_iff, !in_map_iff.
  assert (Hsh : forall k x, In k entry_order -> (In x (of_kind k entered) <-> In x decls /\ d_kind x = k)).
  { intros k x Hk. rewrite in_of_kind, Hent. split; [intros [[H1 _] H2]; auto | intros [H1 H2]; subst; auto]. }
  assert (Ht : In QTransitionShock entry_order) by (simpl; tauto).
  assert (Hm : In QMeasurementShock entry_order) by (simpl; tauto).
  split.
  - intros [[H|[H|[H|H]]] _].
    + left. apply Hent. exact H.
    + right; left. destruct H as [s [<- Hs]]. apply (Hsh _ _ Ht) in Hs. exists s. tauto.
    + right; right; left. destruct H as [s [<- Hs]]. apply (Hsh _ _ Ht) in Hs. exists s. tauto.
    + right; right; right. destruct H as [s [<- Hs]]. apply (Hsh _ _ Hm) in Hs. exists s. tauto.
  - intros H. split; [|apply Hall].
    destruct H as [H|[[s [H1 [H2 ->]]]|[[s [H1 [H2 ->]]]|[s [H1 [H2 ->]]]]]].
    + left. apply Hent. exact H.
    + right; left. exists s. split; [reflexivity|]. apply (Hsh _ _ Ht). auto.
    + right; right; left. exists s. split; [reflexivity|]. apply (Hsh _ _ Ht). auto.
    + right; right; right. exists s. split; [reflexivity|]. apply (Hsh _ _ Hm). auto.
Qed.

(* _populate_logly: a loggable variable is a log variable iff it is listed (without !all-but) or not
   listed (with !all-but); other kinds have no log status *)
Theorem log_status_spec (allbut : bool) (logs : list string) (d : decl) :
  logly_of allbut logs d =
    if mem_kind (d_kind d) [QTransitionVariable; QMeasurementVariable; QExogenousVariable]
    then Some (xorb allbut (mem_s (d_name d) logs)) else None.
Proof.
  unfold logly_of. change loggable_kinds with [QTransitionVariable; QMeasurementVariable; QExogenousVariable].
  destruct (mem_kind _ _); [|reflexivity]. destruct (mem_s _ _), allbut; reflexivity.
Qed.
