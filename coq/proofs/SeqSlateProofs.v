(* C17: which numbers the equations of a Sequential model are evaluated with (model/SeqSlate.v) over the reals.
   The routing tables slatable_fallbacks_groups / slatable_overwrites_groups, the residual default and the per-entry
   effect of a fallback / an overwrite come from gen/SeqSlatableGen.v (regenerated from
   sequentials/_slatable_protocols.py, dataslates/_variants.py on every run): every lemma below is re-checked against
   what the source says now. *)
From Coq Require Import ZArith List Bool Lia Reals Lra FunctionalExtensionality.
From Verif Require Import lib.Arith gen.TransformsGen gen.SeqSlatableGen model.Sequential model.SeqSlate
                          proofs.SequentialProofs.
Import ListNotations.

Section Real.
Variable m : R -> bool.
Notation A := (RArithM m).
Notation data := (data A).
Notation expr := (expr A).
Notation eqn := (eqn A).
Notation seqmodel := (seqmodel A).

(* ---------- 1. the dicts ---------- *)
(* no row is both a parameter and a residual *)
Definition sm_ok (sm : seqmodel) : Prop := forall r, In r (sm_resids sm) -> alookup A (sm_params sm) r = None.

Lemma alookup_resid_in (rs : list nat) r :
  In r rs -> alookup A (map (fun r => (r, default_residual A)) rs) r = Some 0%R.
Proof.
  induction rs as [|k rs IH]; [contradiction|]. intros H. cbn [map alookup].
  destruct (Nat.eqb_spec k r); [reflexivity|]. apply IH. destruct H; [contradiction|assumption].
Qed.

Lemma alookup_resid_out (rs : list nat) r :
  ~ In r rs -> alookup A (map (fun r => (r, default_residual A)) rs) r = None.
Proof.
  induction rs as [|k rs IH]; [reflexivity|]. intros H. cbn [map alookup].
  destruct (Nat.eqb_spec k r); [subst; exfalso; apply H; now left|]. apply IH. intros H'. apply H. now right.
Qed.

Lemma param_not_resid (sm : seqmodel) r v : sm_ok sm -> alookup A (sm_params sm) r = Some v -> ~ In r (sm_resids sm).
Proof. intros Hok Hp Hin. rewrite (Hok r Hin) in Hp. discriminate. Qed.

Ltac route :=
  unfold initial_slate, slate_of, slatable_fallbacks, slatable_overwrites;
  cbn [slatable_fallbacks_groups slatable_overwrites_groups fold_left];
  unfold dupdate, dempty, group_dict, apply_fallback, apply_overwrite.

(* ---------- 2. the initial working array, row by row ---------- *)

(* parameters_from_data=False: a parameter row carries the value assigned in the model in EVERY column, whatever the
   input databox holds under that name, and whatever shocks_from_data is *)
Theorem slate_parameter_from_model (sm : seqmodel) r v sfd (raw : data) c :
  sm_ok sm -> alookup A (sm_params sm) r = Some v ->
  initial_slate A sm false sfd raw r c = v.
Proof.
  intros Hok Hp. assert (Hn := param_not_resid sm r v Hok Hp).
  destruct sfd; route; rewrite ?(alookup_resid_out _ _ Hn), ?Hp; reflexivity.
Qed.

(* parameters_from_data=True: the databox value where it is not missing, the model's value otherwise *)
Theorem slate_parameter_from_data (sm : seqmodel) r v sfd (raw : data) c :
  sm_ok sm -> alookup A (sm_params sm) r = Some v ->
  initial_slate A sm true sfd raw r c = if m (raw r c) then v else raw r c.
Proof.
  intros Hok Hp. assert (Hn := param_not_resid sm r v Hok Hp).
  destruct sfd; route; rewrite ?(alookup_resid_out _ _ Hn), ?Hp; reflexivity.
Qed.

(* shocks_from_data=True: a residual row carries the input residual where it is not missing, the default (zero)
   otherwise; shocks_from_data=False: zero everywhere -- whatever parameters_from_data is *)
Theorem slate_residual_from_data (sm : seqmodel) r pfd (raw : data) c :
  sm_ok sm -> In r (sm_resids sm) ->
  initial_slate A sm pfd true raw r c = (if m (raw r c) then 0 else raw r c)%R.
Proof.
  intros Hok Hr. assert (Hp := Hok r Hr).
  destruct pfd; route; rewrite ?(alookup_resid_in _ _ Hr), ?Hp; reflexivity.
Qed.

Theorem slate_residual_default (sm : seqmodel) r pfd (raw : data) c :
  sm_ok sm -> In r (sm_resids sm) ->
  initial_slate A sm pfd false raw r c = 0%R.
Proof.
  intros Hok Hr. assert (Hp := Hok r Hr).
  destruct pfd; route; rewrite ?(alookup_resid_in _ _ Hr), ?Hp; reflexivity.
Qed.

Lemma slate_residual_rows (sm : seqmodel) r pfd (raw : data) c :
  sm_ok sm -> In r (sm_resids sm) ->
  initial_slate A sm pfd true raw r c = (if m (raw r c) then 0 else raw r c)%R /\
  initial_slate A sm pfd false raw r c = 0%R.
Proof. intros H1 H2. split; [now apply slate_residual_from_data | now apply slate_residual_default]. Qed.

(* every other row (LHS, RHS-only, plan series) is the databox row *)
Theorem slate_other_row (sm : seqmodel) r pfd sfd (raw : data) c :
  alookup A (sm_params sm) r = None -> ~ In r (sm_resids sm) ->
  initial_slate A sm pfd sfd raw r c = raw r c.
Proof.
  intros Hp Hn. destruct pfd, sfd; route; rewrite ?(alookup_resid_out _ _ Hn), ?Hp; reflexivity.
Qed.

(* the parameter rows are output rows exactly when parameters_from_data *)
Lemma output_param_rows_spec (sm : seqmodel) pfd sfd :
  output_param_rows A sm pfd sfd = if pfd then map fst (sm_params sm) else [].
Proof. destruct pfd, sfd; reflexivity. Qed.

(* the documented defaults: residuals from the data, parameters from the model *)
Lemma simulate_flag_defaults : default_parameters_from_data = false /\ default_shocks_from_data = true.
Proof. split; reflexivity. Qed.

(* ---------- 3. the loop never touches a parameter row ---------- *)
(* no equation has a parameter row as its LHS or residual row *)
Definition params_not_written (sm : seqmodel) (eqs : list eqn) : Prop :=
  forall e r v, In e eqs -> alookup A (sm_params sm) r = Some v -> e_lhs e <> r /\ e_res e <> Some r.

Lemma run_unwritten_row pl (steps : list (Z * eqn)) (d : data) r c :
  (forall s, In s steps -> e_lhs (snd s) <> r /\ e_res (snd s) <> Some r) ->
  run A pl steps d r c = d r c.
Proof.
  intros H. apply (run_frame m pl steps d (r, c)). intros s Hs Hin. destruct (H s Hs) as [H1 H2].
  unfold writes in Hin. destruct Hin as [E|Hin]; [injection E; intros; congruence|].
  unfold res_cell in Hin. destruct (e_res (snd s)) as [r'|]; [|contradiction].
  destruct Hin as [E|[]]. injection E; intros; subst. now apply H2.
Qed.

Lemma steps_of_eqs o cols (eqs : list eqn) s : In s (steps_of A o cols eqs) -> In (fst s) cols /\ In (snd s) eqs.
Proof.
  destruct s as [t e]. destruct o; cbn [steps_of fst snd]; [apply in_steps_de | apply in_steps_ed].
Qed.

(* parameters_from_data=False: at the END of the simulation every parameter row still carries the model's value *)
Theorem simulate_public_parameter_rows (sm : seqmodel) sfd pl o cols (eqs : list eqn) (raw : data) r v c :
  sm_ok sm -> params_not_written sm eqs -> alookup A (sm_params sm) r = Some v ->
  simulate_public A sm false sfd pl o cols eqs raw r c = v.
Proof.
  intros Hok Hnw Hp. unfold simulate_public, simulate_model. rewrite run_unwritten_row.
  - now apply slate_parameter_from_model.
  - intros s Hs. apply steps_of_eqs in Hs as [_ Hs]. exact (Hnw _ _ _ Hs Hp).
Qed.

(* parameters_from_data=True: ... the databox value where present, the model's value otherwise *)
Theorem simulate_public_parameter_rows_from_data (sm : seqmodel) sfd pl o cols (eqs : list eqn) (raw : data) r v c :
  sm_ok sm -> params_not_written sm eqs -> alookup A (sm_params sm) r = Some v ->
  simulate_public A sm true sfd pl o cols eqs raw r c = if m (raw r c) then v else raw r c.
Proof.
  intros Hok Hnw Hp. unfold simulate_public, simulate_model. rewrite run_unwritten_row.
  - now apply slate_parameter_from_data.
  - intros s Hs. apply steps_of_eqs in Hs as [_ Hs]. exact (Hnw _ _ _ Hs Hp).
Qed.

(* parameters_from_data=False: the whole result is independent of what the input databox holds under the names of
   the parameters *)
Theorem simulate_public_ignores_parameter_data (sm : seqmodel) sfd pl o cols (eqs : list eqn) (raw raw' : data) :
  sm_ok sm -> (forall r c, alookup A (sm_params sm) r = None -> raw r c = raw' r c) ->
  simulate_public A sm false sfd pl o cols eqs raw = simulate_public A sm false sfd pl o cols eqs raw'.
Proof.
  intros Hok H. unfold simulate_public. f_equal. extensionality r. extensionality c.
  destruct (alookup A (sm_params sm) r) as [v|] eqn:Hp.
  - now rewrite !(slate_parameter_from_model sm r v) by assumption.
  - unfold initial_slate, slate_of. now rewrite (H r c Hp).
Qed.

(* ---------- 4. the equations hold WITH THE MODEL'S PARAMETER VALUES ---------- *)
Lemma eval_subst_params (pv : alist A) (d : data) (e : expr) t :
  (forall r v, alookup A pv r = Some v -> forall c, d r c = v) ->
  eval A (subst_params A pv e) d t = eval A e d t.
Proof.
  intros H. induction e; cbn [subst_params eval]; try (now rewrite ?IHe1, ?IHe2, ?IHe).
  destruct (alookup A pv r) as [v|] eqn:E; cbn [eval]; [symmetry; now apply H | reflexivity].
Qed.

Lemma holds_subst (pv : alist A) (d : data) (e : eqn) t :
  (forall r v, alookup A pv r = Some v -> forall c, d r c = v) ->
  holds m e t d -> holds m (subst_eqn A pv e) t d.
Proof.
  intros H. unfold holds, lhs_value, rhs_total, subst_eqn. cbn [e_lhs e_tr e_rhs e_res].
  now rewrite (eval_subst_params pv d (e_rhs e) t H).
Qed.

(* THE PROPERTY on the public entry point, execution_order="dates_equations", parameters_from_data=False:
   for EVERY input databox `raw` (also one that holds entries named like the parameters), either value of
   shocks_from_data, every plan: at the end each equation -- with the model's parameter values in place of the
   parameter names -- holds together with its residual in every simulated period *)
Theorem simulate_public_dates_equations (sm : seqmodel) sfd pl cols (eqs : list eqn) (raw : data) :
  sm_ok sm -> params_not_written sm eqs ->
  increasing cols -> (forall e, In e eqs -> eqn_ok m e) ->
  no_endogenous_leads m pl cols eqs -> sequentially_ordered m pl cols eqs ->
  let dN := simulate_public A sm false sfd pl DatesEquations cols eqs raw in
  (forall t e, In t cols -> In e eqs -> dom_ok m pl (t, e) dN) ->
  forall t e, In t cols -> In e eqs -> holds m (subst_eqn A (sm_params sm) e) t dN.
Proof.
  intros Hok Hnw Hinc Heq Hlead Hseq dN Hdom t e Ht He. apply holds_subst.
  - intros r v Hp c. unfold dN. now apply simulate_public_parameter_rows.
  - unfold dN, simulate_public. now apply simulate_dates_equations_correct.
Qed.

(* ... and execution_order="equations_dates" *)
Theorem simulate_public_equations_dates (sm : seqmodel) sfd pl cols (eqs : list eqn) (raw : data) :
  sm_ok sm -> params_not_written sm eqs ->
  increasing cols -> (forall e, In e eqs -> eqn_ok m e) ->
  no_own_leads m pl cols eqs -> reads_only_earlier m pl cols eqs ->
  let dN := simulate_public A sm false sfd pl EquationsDates cols eqs raw in
  (forall t e, In t cols -> In e eqs -> dom_ok m pl (t, e) dN) ->
  forall t e, In t cols -> In e eqs -> holds m (subst_eqn A (sm_params sm) e) t dN.
Proof.
  intros Hok Hnw Hinc Heq Hown Hearl dN Hdom t e Ht He. apply holds_subst.
  - intros r v Hp c. unfold dN. now apply simulate_public_parameter_rows.
  - unfold dN, simulate_public. now apply simulate_equations_dates_correct.
Qed.

(* a simulated (not exogenized) period keeps the residual of the initial array: with shocks_from_data=True that is
   the input residual where present and zero otherwise -- provided no other step writes that cell *)
Theorem simulated_residual_is_input (sm : seqmodel) pfd pl o cols (eqs : list eqn) (raw : data) r c :
  sm_ok sm -> In r (sm_resids sm) ->
  (forall s, In s (steps_of A o cols eqs) -> ~ In (r, c) (writes m s)) ->
  simulate_public A sm pfd true pl o cols eqs raw r c = (if m (raw r c) then 0 else raw r c)%R.
Proof.
  intros Hok Hr H. unfold simulate_public, simulate_model.
  change (at_ m (run A pl (steps_of A o cols eqs) (initial_slate A sm pfd true raw)) (r, c) = (if m (raw r c) then 0 else raw r c)%R).
  rewrite run_frame by exact H. now apply slate_residual_from_data.
Qed.

(* ---------- 5. non-vacuity ---------- *)
(* rows: 0 = y, 1 = p (parameter, 1/2 in the model), 2 = res_y ;   y = p*y[-1]  [+ res_y] *)
Definition exs_sm : seqmodel := mkSeqModel A [(1%nat, (1/2)%R)] [2%nat].
Definition exs_eqs : list eqn := [ mkEqn A 0%nat TNone (EMul A (EVar A 1%nat 0%Z) (EVar A 0%nat (-1)%Z)) (Some 2%nat) ].
Definition exs_plan : plan := fun _ _ => None.
Definition exs_cols : list Z := [0; 1]%Z.

Ltac in_cases :=
  repeat match goal with
         | H : In _ (_ :: _) |- _ => destruct H as [H|H]
         | H : In _ [] |- _ => destruct H
         | H : _ \/ _ |- _ => destruct H as [H|H]
         | H : False |- _ => destruct H
         | H : (_, _) = (_, _) |- _ => injection H as ? ?
         | H : Some _ = Some _ |- _ => injection H as ?
         end.
Ltac fin := intros; in_cases; subst; try lia; try congruence; try discriminate.

Lemma public_hypotheses_satisfiable :
  sm_ok exs_sm /\ params_not_written exs_sm exs_eqs /\ increasing exs_cols /\
  (forall e, In e exs_eqs -> eqn_ok m e) /\
  no_endogenous_leads m exs_plan exs_cols exs_eqs /\ sequentially_ordered m exs_plan exs_cols exs_eqs /\
  no_own_leads m exs_plan exs_cols exs_eqs /\ reads_only_earlier m exs_plan exs_cols exs_eqs /\
  (forall (d : data) t e, In t exs_cols -> In e exs_eqs -> dom_ok m exs_plan (t, e) d).
Proof.
  unfold exs_cols, exs_eqs, exs_sm.
  split. { intros r Hr. cbn in Hr. in_cases; subst. reflexivity. }
  split.
  { intros e r v He Hp. cbn in Hp. destruct r as [|[|r]]; cbn in Hp; try discriminate.
    in_cases; subst; cbn; split; fin. }
  split; [cbn; repeat split; fin|].
  split.
  { intros e He. unfold eqn_ok, wf_eqn. in_cases; subst; cbn; repeat split; try intros ? ?; try intro; fin. }
  split.
  { intros t e e' r s Ht He He' Htok Hw. in_cases; subst; cbn in Htok, Hw; fin. }
  split.
  { cbn. repeat split; intros; in_cases; subst; cbn in *; fin. }
  split.
  { intros t e r s Ht He Htok Hw. in_cases; subst; cbn in Htok, Hw; fin. }
  split.
  { cbn. repeat split; intros; in_cases; subst; cbn in *; try intro; fin. }
  intros d t e Ht He Hm. in_cases; subst; cbn; exact I.
Qed.

(* the input databox says p = 3/10 in every period; the simulation uses the model's 1/2 all the same, and with
   parameters_from_data=True it uses 3/10 (where 3/10 is not classified as missing) *)
Lemma public_example_values (raw : data) sfd pl o c :
  (forall c, raw 1%nat c = (3/10)%R) ->
  simulate_public A exs_sm false sfd pl o exs_cols exs_eqs raw 1%nat c = (1/2)%R /\
  (m (3/10)%R = false -> simulate_public A exs_sm true sfd pl o exs_cols exs_eqs raw 1%nat c = (3/10)%R).
Proof.
  intros Hraw. destruct public_hypotheses_satisfiable as [Hok [Hnw _]]. split.
  - now apply simulate_public_parameter_rows.
  - intros Hm. rewrite (simulate_public_parameter_rows_from_data exs_sm sfd pl o exs_cols exs_eqs raw 1%nat (1/2)%R)
      by (assumption || reflexivity).
    now rewrite Hraw, Hm.
Qed.

End Real.
