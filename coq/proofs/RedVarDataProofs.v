(* C18: the data layer of model/RedVar.v (lag stacking and complete-column mask), for any value type. *)
From Coq Require Import String.
From Coq Require Import List Arith Lia Bool Sorted.
From Verif Require Import gen.RedVarGen model.RedVar.
Import ListNotations.

Section DataProofs.
Variable T : Type.
Variable fin : T -> bool.
Variables one dflt : T.

Notation where_mask := (where_mask T fin dflt).
Notation estimation_data := (estimation_data T fin one dflt).

(* ---- list helpers ---- *)
Lemma nth_skipn_add (a j : nat) (l : list T) : nth j (skipn a l) dflt = nth (a + j) l dflt.
Proof.
revert l; induction a as [|a IH]; intros l; simpl; [reflexivity|].
destruct l as [|x l]; simpl; [destruct j; reflexivity | apply IH].
Qed.

Lemma nth_firstn_lt (b j : nat) (l : list T) : j < b -> nth j (firstn b l) dflt = nth j l dflt.
Proof.
revert j l; induction b as [|b IH]; intros j l Hj; [lia|].
destruct l as [|x l]; simpl; [destruct j; reflexivity|].
destruct j as [|j]; simpl; [reflexivity | apply IH; lia].
Qed.

Lemma pyslice_nth (a b j : nat) (row : list T) :
  j < b - a -> nth j (pyslice T a b row) dflt = nth (a + j) row dflt.
Proof. intros Hj; unfold pyslice; rewrite nth_firstn_lt by exact Hj; apply nth_skipn_add. Qed.

Lemma pyslice_length (a b : nat) (row : list T) : b <= length row -> length (pyslice T a b row) = b - a.
Proof. intros Hb; unfold pyslice; rewrite firstn_length, skipn_length; lia. Qed.

Lemma nth_map_seq_from {B} (f : nat -> B) (s N j : nat) (d : B) : j < N -> nth j (map f (seq s N)) d = f (s + j).
Proof.
intros Hj; rewrite (nth_indep _ d (f 0)) by (rewrite map_length, seq_length; exact Hj).
rewrite map_nth, seq_nth by exact Hj; reflexivity.
Qed.

Lemma nth_map_seq {B} (f : nat -> B) (N j : nat) (d : B) : j < N -> nth j (map f (seq 0 N)) d = f j.
Proof. intros Hj; rewrite nth_map_seq_from by exact Hj; reflexivity. Qed.

Lemma nth_map_lt {A B} (g : A -> B) (l : list A) (v : nat) (d : B) (d' : A) :
  v < length l -> nth v (map g l) d = g (nth v l d').
Proof.
intros Hv; rewrite (nth_indep _ d (g d')) by (rewrite map_length; exact Hv); apply map_nth.
Qed.

(* ---- the mask ---- *)
Lemma where_mask_length (N : nat) rows : length (where_mask N rows) = N.
Proof. unfold RedVar.where_mask; rewrite map_length, seq_length; reflexivity. Qed.

Lemma where_mask_nth (N : nat) rows (j : nat) : j < N ->
  (nth j (where_mask N rows) false = true <-> forall row, In row rows -> fin (nth j row dflt) = true).
Proof.
intros Hj; unfold RedVar.where_mask; rewrite nth_map_seq by exact Hj; apply forallb_forall.
Qed.

Lemma true_positions_spec (mask : list bool) (i0 j : nat) :
  In j (true_positions i0 mask) <-> i0 <= j /\ j - i0 < length mask /\ nth (j - i0) mask false = true.
Proof.
revert i0; induction mask as [|b mask IH]; intros i0; simpl.
- split; [tauto | intros (_ & H & _); lia].
- destruct b; simpl; rewrite ?IH.
  + split.
    * intros [<- | (H1 & H2 & H3)]; [rewrite Nat.sub_diag; repeat split; lia|].
      replace (j - i0) with (S (j - S i0)) by lia; repeat split; try lia; exact H3.
    * intros (H1 & H2 & H3); destruct (Nat.eq_dec i0 j) as [->|Hne]; [left; reflexivity | right].
      replace (j - i0) with (S (j - S i0)) in * by lia; repeat split; try lia; exact H3.
  + split.
    * intros (H1 & H2 & H3); replace (j - i0) with (S (j - S i0)) by lia; repeat split; try lia; exact H3.
    * intros (H1 & H2 & H3); destruct (Nat.eq_dec i0 j) as [->|Hne].
      { rewrite Nat.sub_diag in H3; discriminate. }
      replace (j - i0) with (S (j - S i0)) in * by lia; repeat split; try lia; exact H3.
Qed.

Lemma true_positions_lower (mask : list bool) (i0 : nat) : Forall (fun j => i0 <= j) (true_positions i0 mask).
Proof.
apply Forall_forall; intros j Hj; apply true_positions_spec in Hj; tauto.
Qed.

(* fitted positions are listed in strictly increasing order (hence without repetition) *)
Lemma true_positions_sorted (mask : list bool) (i0 : nat) : StronglySorted lt (true_positions i0 mask).
Proof.
revert i0; induction mask as [|b mask IH]; intros i0; simpl; [constructor|].
destruct b; [|apply IH].
constructor; [apply IH|].
eapply Forall_impl; [|apply (true_positions_lower mask (S i0))]; simpl; intros; lia.
Qed.

(* ---- lag stacking ---- *)
Lemma In_stack_y0 (p : nat) ys row : In row (stack_y0 T p ys) <-> exists r, In r ys /\ row = skipn p r.
Proof. unfold stack_y0; rewrite in_map_iff; split; intros (r & H1 & H2); exists r; auto. Qed.

Lemma In_stack_y1 (p : nat) ys row :
  In row (stack_y1 T p ys) <->
  exists i r, 1 <= i <= p /\ In r ys /\ row = pyslice T (p - i) (length r - i) r.
Proof.
unfold stack_y1, lag_block; rewrite in_concat; split.
- intros (blk & Hb & Hr); apply in_map_iff in Hb; destruct Hb as (i & <- & Hi).
  apply in_seq in Hi; apply in_map_iff in Hr; destruct Hr as (r & <- & Hr).
  exists i, r; repeat split; try lia; exact Hr.
- intros (i & r & Hi & Hr & ->).
  exists (map (fun row0 => pyslice T (p - i) (length row0 - i) row0) ys); split.
  + apply in_map_iff; exists i; split; [reflexivity | apply in_seq; lia].
  + apply in_map_iff; exists r; auto.
Qed.

(* row (i*n + v) of y1 is lag i+1 of variable v: column j holds the observation of period p + j - (i+1) *)
Lemma nth_concat_uniform {B} (n : nat) (blocks : list (list B)) (i v : nat) (d : B) :
  (forall b, In b blocks -> length b = n) -> v < n ->
  nth (i * n + v) (concat blocks) d = nth v (nth i blocks []) d.
Proof.
revert i; induction blocks as [|b blocks IH]; intros i Hlen Hv; simpl.
- destruct (i * n + v); destruct i; destruct v; reflexivity.
- assert (Hb : length b = n) by (apply Hlen; left; reflexivity).
  destruct i as [|i]; simpl.
  + rewrite app_nth1 by lia; reflexivity.
  + rewrite app_nth2 by lia. replace (n + i * n + v - length b) with (i * n + v) by lia.
    apply IH; [intros b' Hb'; apply Hlen; right; exact Hb' | exact Hv].
Qed.

Lemma stack_y1_nth (p N : nat) ys (i v j : nat) :
  (forall r, In r ys -> length r = p + N) -> i < p -> v < length ys -> j < N ->
  nth j (nth (i * length ys + v) (stack_y1 T p ys) []) dflt = nth (p + j - S i) (nth v ys []) dflt.
Proof.
intros Hlen Hi Hv Hj; unfold stack_y1.
rewrite (nth_concat_uniform (length ys)); [| | exact Hv].
2:{ intros b Hb; apply in_map_iff in Hb; destruct Hb as (i' & <- & _); unfold lag_block; apply map_length. }
rewrite nth_map_seq_from by exact Hi; unfold lag_block.
rewrite (nth_map_lt _ _ _ _ []) by exact Hv.
assert (Hr : length (nth v ys []) = p + N) by (apply Hlen, nth_In; exact Hv).
rewrite pyslice_nth by (rewrite Hr; lia).
f_equal; lia.
Qed.

Lemma stack_y0_nth (p : nat) ys (v j : nat) :
  v < length ys -> nth j (nth v (stack_y0 T p ys) []) dflt = nth (p + j) (nth v ys []) dflt.
Proof.
intros Hv; unfold stack_y0.
rewrite (nth_map_lt _ _ _ _ []) by exact Hv; apply nth_skipn_add.
Qed.

(* ---- fitted periods = exactly the columns on which every needed observation is finite ---- *)
Theorem mask_exact (p k N : nat) (ys xs : list (list T)) :
  (forall r, In r ys -> length r = p + N) -> (forall r, In r xs -> length r = p + N) ->
  ys <> [] -> fin one = true ->
  let d := estimation_data p k true ys xs in
  ed_N d = N /\ length (ed_where d) = N /\
  forall j, j < N ->
    (nth j (ed_where d) false = true <->
       (forall r i, In r ys -> i <= p -> fin (nth (p + j - i) r dflt) = true) /\
       (forall r, In r xs -> fin (nth (p + j) r dflt) = true)).
Proof.
intros Hy Hx Hne Hone d.
assert (HN : ed_N d = N).
{ unfold d, RedVar.estimation_data; simpl. destruct ys as [|r0 ys']; [congruence|]; simpl.
  rewrite skipn_length, (Hy r0) by (left; reflexivity); lia. }
split; [exact HN|]; split.
{ unfold d, RedVar.estimation_data in *; simpl in *; rewrite where_mask_length; exact HN. }
intros j Hj.
assert (Hmask : ed_where d = where_mask N (stack_y0 T p ys ++ stack_y1 T p ys ++ stack_x T p xs ++ stack_k T one k N)).
{ unfold d, RedVar.estimation_data in *; simpl in *; rewrite HN; reflexivity. }
rewrite Hmask, where_mask_nth by exact Hj; split.
- intros H; split.
  + intros r i Hr Hi; destruct i as [|i].
    * rewrite Nat.sub_0_r, <- nth_skipn_add; apply H, in_or_app; left; apply In_stack_y0; exists r; auto.
    * specialize (H (pyslice T (p - S i) (length r - S i) r)).
      rewrite pyslice_nth in H by (rewrite (Hy r Hr); lia).
      replace (p + j - S i) with (p - S i + j) by lia; apply H.
      apply in_or_app; right; apply in_or_app; left; apply In_stack_y1; exists (S i), r; repeat split; auto; lia.
  + intros r Hr; rewrite <- nth_skipn_add; apply H.
    apply in_or_app; right; apply in_or_app; right; apply in_or_app; left.
    unfold stack_x; apply in_map; exact Hr.
- intros (H1 & H2) row Hrow.
  apply in_app_or in Hrow; destruct Hrow as [Hrow | Hrow].
  { apply In_stack_y0 in Hrow; destruct Hrow as (r & Hr & ->).
    rewrite nth_skipn_add; specialize (H1 r 0 Hr); rewrite Nat.sub_0_r in H1; apply H1; lia. }
  apply in_app_or in Hrow; destruct Hrow as [Hrow | Hrow].
  { apply In_stack_y1 in Hrow; destruct Hrow as (i & r & Hi & Hr & ->).
    rewrite pyslice_nth by (rewrite (Hy r Hr); lia).
    replace (p - i + j) with (p + j - i) by lia; apply H1; [exact Hr | lia]. }
  apply in_app_or in Hrow; destruct Hrow as [Hrow | Hrow].
  { unfold stack_x in Hrow; apply in_map_iff in Hrow; destruct Hrow as (r & <- & Hr).
    rewrite nth_skipn_add; apply H2; exact Hr. }
  unfold stack_k in Hrow; apply repeat_spec in Hrow; subst row.
  rewrite (nth_indep _ dflt one) by (rewrite repeat_length; exact Hj).
  rewrite nth_repeat; exact Hone.
Qed.

(* positions handed to the estimator: strictly increasing, and exactly the complete columns *)
Theorem fitted_positions_exact (p k N : nat) (ys xs : list (list T)) :
  (forall r, In r ys -> length r = p + N) -> (forall r, In r xs -> length r = p + N) ->
  ys <> [] -> fin one = true ->
  let idx := true_positions 0 (ed_where (estimation_data p k true ys xs)) in
  StronglySorted lt idx /\
  forall j, In j idx <->
    j < N /\ (forall r i, In r ys -> i <= p -> fin (nth (p + j - i) r dflt) = true) /\
             (forall r, In r xs -> fin (nth (p + j) r dflt) = true).
Proof.
intros Hy Hx Hne Hone idx; split; [apply true_positions_sorted|].
destruct (mask_exact p k N ys xs Hy Hx Hne Hone) as (_ & Hlen & Hm).
intros j; unfold idx; rewrite true_positions_spec, Nat.sub_0_r, Hlen; split.
- intros (_ & Hj & Hn); split; [exact Hj | apply Hm; assumption].
- intros (Hj & H); repeat split; [lia | exact Hj | apply Hm; assumption].
Qed.

(* omit_missing = False: every column is used *)
Lemma mask_all_when_not_omitting (p k : nat) ys xs :
  let d := estimation_data p k false ys xs in ed_where d = repeat true (ed_N d).
Proof. reflexivity. Qed.
End DataProofs.

(* the scalar fragments regenerated from the source are the formulas the model and the theorems assume *)
Lemma generated_formulas (n p m : nat) (ic dof : bool) :
  gen_dimension_fields = ["num_endogenous"; "order"; "has_intercept"; "num_exogenous"]%string /\
  gen_num_nonendogenous n p ic m = m + Nat.b2n ic /\
  gen_num_lagged_endogenous n p ic m = n * p /\
  gen_num_rhs n p ic m = n * p + (m + Nat.b2n ic) /\
  gen_split_a_end n p ic m = n * p /\
  gen_dof_subtrahend n p ic m dof = (if dof then m + Nat.b2n ic else 0) /\
  gen_minnesota_num_obs n p ic m = n * p /\
  gen_mean_num_obs n p ic m = Nat.b2n ic /\
  gen_default_residual_is_zero = true.
Proof. repeat split; reflexivity. Qed.
