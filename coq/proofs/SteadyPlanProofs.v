(* C05, steady plans: the register machine of plans/steady_plans.py (model/SteadyPlan.v) over EVERY history of public
   calls; what the plan hands to the solver loop; fixed quantities keep their assigned level and change through the
   whole of _steady_nonlinear; which descriptor the linear steady state is computed from.  Plain stdlib style. *)
From Coq Require Import List Bool Arith Lia Reals ZArith.
From Verif Require Import lib.Arith gen.SteadyGen gen.SteadyPlanGen model.Steady model.SteadyPlan proofs.SteadyProofs.
Import ListNotations.
Local Open Scope nat_scope.

Definition rname_eqb (a b : rname) : bool :=
  match a, b with RExog, RExog | REndog, REndog | RFixL, RFixL | RFixC, RFixC => true | _, _ => false end.

Lemma rname_eqb_refl r : rname_eqb r r = true.
Proof. destruct r; reflexivity. Qed.

Lemma get_set_reg p r g r' : get_reg (set_reg p r g) r' = if rname_eqb r' r then g else get_reg p r'.
Proof. destruct r, r'; reflexivity. Qed.

(* ------------------------------------------------------------------ one register *)
Lemma keys_set_status g n v : keys (set_status g n v) = keys g.
Proof.
  unfold keys, set_status. rewrite map_map. apply map_ext. intros [k b]; simpl. destruct (k =? n); reflexivity.
Qed.

Lemma is_on_not_key g m : mem_nat m (keys g) = false -> is_on g m = false.
Proof.
  induction g as [|[k b] g IH]; simpl; auto.
  intros H. apply orb_false_iff in H. destruct H as [H1 H2].
  rewrite (IH H2). rewrite Nat.eqb_sym, H1. reflexivity.
Qed.

Lemma is_on_set_status g n v m :
  is_on (set_status g n v) m = if Nat.eqb m n then mem_nat n (keys g) && v else is_on g m.
Proof.
  induction g as [|[k b] g IH].
  - simpl. destruct (m =? n); reflexivity.
  - cbn [set_status map is_on existsb keys fst snd mem_nat]. fold (set_status g n v). fold (is_on (set_status g n v) m).
    fold (is_on g m). fold (keys g). fold (mem_nat n (keys g)). rewrite IH.
    destruct (Nat.eqb_spec m n) as [Emn|Hmn]; [subst m|].
    + destruct (Nat.eqb_spec k n) as [Ekn|Hkn]; [subst k|]; cbn [fst snd].
      * rewrite Nat.eqb_refl. destruct v, (mem_nat n (keys g)); reflexivity.
      * rewrite (proj2 (Nat.eqb_neq k n)), (proj2 (Nat.eqb_neq n k)) by auto. reflexivity.
    + destruct (Nat.eqb_spec k n) as [Ekn|Hkn]; [subst k|]; cbn [fst snd]; [|reflexivity].
      rewrite (proj2 (Nat.eqb_neq n m)) by auto. reflexivity.
Qed.

Definition write_names (g : register) (ns : list nat) (v : bool) : register :=
  fold_left (fun g n => set_status g n v) ns g.

Lemma keys_write_names g ns v : keys (write_names g ns v) = keys g.
Proof.
  unfold write_names. revert g; induction ns as [|n ns IH]; intros g; simpl; auto. rewrite IH. apply keys_set_status.
Qed.

Lemma is_on_write_names g ns v m :
  is_on (write_names g ns v) m = if mem_nat m ns && mem_nat m (keys g) then v else is_on g m.
Proof.
  unfold write_names. revert g; induction ns as [|n ns IH]; intros g; [reflexivity|].
  cbn [fold_left]. rewrite IH, keys_set_status, is_on_set_status. cbn [mem_nat existsb]. fold (mem_nat m ns).
  destruct (Nat.eqb_spec m n) as [Emn|Hmn]; [subst m|]; cbn [orb].
  - destruct (mem_nat n (keys g)) eqn:K.
    + rewrite andb_true_r. cbn [andb]. destruct (mem_nat n ns); reflexivity.
    + rewrite andb_false_r. cbn [andb]. symmetry. apply is_on_not_key; assumption.
  - reflexivity.
Qed.

(* ------------------------------------------------------------------ one validated write *)
Definition sel_covers (g : register) (s : sel) (m : nat) : bool :=
  match s with SAll => mem_nat m (keys g) | SNames l => mem_nat m l end.
Definition sel_mentions (s : sel) (m : nat) : bool :=
  match s with SAll => true | SNames l => mem_nat m l end.

Lemma resolve_names_spec g s ns : resolve_names g s = Some ns ->
  forall m, mem_nat m ns && mem_nat m (keys g) = sel_covers g s m.
Proof.
  destruct s as [|l]; simpl.
  - intros E; inversion E; subst. intros m. apply andb_diag.
  - destruct (forallb _ l) eqn:F; [|discriminate]. intros E; inversion E; subst. intros m.
    destruct (mem_nat m ns) eqn:M; [|reflexivity]. simpl.
    unfold mem_nat in M. apply existsb_exists in M. destruct M as (x & Hx & Ex). apply Nat.eqb_eq in Ex; subst x.
    rewrite forallb_forall in F. apply F; assumption.
Qed.

Lemma write_reg_keys p r s v r' : keys (get_reg (fst (write_reg p r s v)) r') = keys (get_reg p r').
Proof.
  unfold write_reg. destruct (resolve_names (get_reg p r) s) as [ns|]; cbn [fst]; [|reflexivity].
  rewrite get_set_reg. destruct (rname_eqb r' r) eqn:E; [|reflexivity].
  fold (write_names (get_reg p r) ns v). rewrite keys_write_names.
  destruct r, r'; try discriminate; reflexivity.
Qed.

Lemma write_reg_on p r s v r' m :
  is_on (get_reg (fst (write_reg p r s v)) r') m =
  if snd (write_reg p r s v) && rname_eqb r' r && sel_covers (get_reg p r) s m then v else is_on (get_reg p r') m.
Proof.
  unfold write_reg. destruct (resolve_names (get_reg p r) s) as [ns|] eqn:R; cbn [fst snd andb]; [|reflexivity].
  rewrite get_set_reg. destruct (rname_eqb r' r) eqn:E; cbn [andb]; [|reflexivity].
  fold (write_names (get_reg p r) ns v). rewrite is_on_write_names, (resolve_names_spec _ _ _ R).
  replace (get_reg p r') with (get_reg p r) by (destruct r, r'; try discriminate; reflexivity). reflexivity.
Qed.

Lemma write_reg_fail p r s v : snd (write_reg p r s v) = false -> fst (write_reg p r s v) = p.
Proof. unfold write_reg. destruct (resolve_names _ _); simpl; [discriminate|reflexivity]. Qed.

(* a call succeeds iff every named quantity is a key of the register (Ellipsis always succeeds) *)
Lemma write_reg_ok p r s v :
  snd (write_reg p r s v) = match s with SAll => true | SNames l => forallb (fun n => mem_nat n (keys (get_reg p r))) l end.
Proof. unfold write_reg. destruct s as [|l]; simpl; [reflexivity|]. destruct (forallb _ l); reflexivity. Qed.

Lemma covers_mentions g s m : sel_mentions s m = false -> sel_covers g s m = false.
Proof. destruct s; simpl; [discriminate|auto]. Qed.

Lemma write_reg_frame p r s v r' m : rname_eqb r' r && sel_mentions s m = false ->
  is_on (get_reg (fst (write_reg p r s v)) r') m = is_on (get_reg p r') m.
Proof.
  intros H. rewrite write_reg_on. destruct (rname_eqb r' r); cbn [andb] in *.
  - rewrite (covers_mentions _ _ _ H), andb_false_r. reflexivity.
  - rewrite andb_false_r. reflexivity.
Qed.

(* ------------------------------------------------------------------ every call keeps the keys of every register *)
Definition same_keys (p q : splan) : Prop := forall r, keys (get_reg p r) = keys (get_reg q r).

Lemma fix_like_keys p s v guard : same_keys (fst (fix_like p s v guard)) p.
Proof.
  intros r. unfold fix_like.
  destruct (write_reg p RFixL s v) as [p1 ok1] eqn:E1.
  assert (K1 : keys (get_reg p1 r) = keys (get_reg p r)).
  { replace p1 with (fst (write_reg p RFixL s v)) by (rewrite E1; reflexivity). apply write_reg_keys. }
  destruct ok1; cbn [negb]; [|exact K1].
  destruct (guard _ _); [|exact K1]. rewrite write_reg_keys. exact K1.
Qed.

Lemma swap_like_keys p v ps : same_keys (fst (swap_like p v ps)) p.
Proof.
  revert p; induction ps as [|[a b] ps IH]; intros p r; [reflexivity|]. cbn [swap_like].
  destruct (write_reg p gen_swap_first (SNames [a]) v) as [p1 ok1] eqn:E1.
  assert (K1 : keys (get_reg p1 r) = keys (get_reg p r)).
  { replace p1 with (fst (write_reg p gen_swap_first (SNames [a]) v)) by (rewrite E1; reflexivity). apply write_reg_keys. }
  destruct ok1; cbn [negb]; [|exact K1].
  destruct (write_reg p1 gen_swap_second (SNames [b]) v) as [p2 ok2] eqn:E2.
  assert (K2 : keys (get_reg p2 r) = keys (get_reg p1 r)).
  { replace p2 with (fst (write_reg p1 gen_swap_second (SNames [b]) v)) by (rewrite E2; reflexivity). apply write_reg_keys. }
  destruct ok2; cbn [negb fst]; [|congruence]. rewrite IH. congruence.
Qed.

Lemma step_keys p o : same_keys (fst (step p o)) p.
Proof.
  destruct o; cbn [step]; intros r.
  - apply write_reg_keys.
  - apply fix_like_keys.
  - apply fix_like_keys.
  - apply swap_like_keys.
  - apply swap_like_keys.
Qed.

Lemma run_keys p h : same_keys (run p h) p.
Proof.
  unfold run. revert p; induction h as [|o h IH]; intros p r; [reflexivity|]. cbn [fold_left].
  rewrite IH. apply step_keys.
Qed.

Lemma keys_init_register ns : keys (init_register ns) = ns.
Proof. unfold keys, init_register. rewrite map_map. simpl. apply map_id. Qed.

(* the registers reachable from SteadyPlan(model): level register = the endogenous variables; change register = the
   same names in growth mode, EMPTY in flat mode *)
Lemma reachable_keys endog params flat h :
  let p := run (init_plan endog params flat) h in
  keys (sp_exog p) = endog /\ keys (sp_endog p) = params /\ keys (sp_fixl p) = endog /\
  keys (sp_fixc p) = if flat then [] else endog.
Proof.
  intros p. pose proof (run_keys (init_plan endog params flat) h) as K. fold p in K.
  pose proof (K RExog) as K1. pose proof (K REndog) as K2. pose proof (K RFixL) as K3. pose proof (K RFixC) as K4.
  cbn [get_reg init_plan sp_exog sp_endog sp_fixl sp_fixc] in *.
  rewrite keys_init_register in *. repeat split; auto.
  rewrite K4. unfold gen_can_be_fixed_change. destruct flat; reflexivity.
Qed.

Lemma nonempty_keys g m : mem_nat m (keys g) = true -> nonempty g = true.
Proof. destruct g; simpl; [discriminate|reflexivity]. Qed.

Lemma covers_in_keys p r s v m : snd (write_reg p r s v) = true -> sel_covers (get_reg p r) s m = true ->
  mem_nat m (keys (get_reg p r)) = true.
Proof.
  rewrite write_reg_ok. destruct s as [|l]; simpl; auto.
  intros F M. rewrite forallb_forall in F. unfold mem_nat in M. apply existsb_exists in M.
  destruct M as (x & Hx & Ex). apply Nat.eqb_eq in Ex; subst x. apply F; assumption.
Qed.

(* ------------------------------------------------------------------ THEOREM: SteadyPlan.fix over every history.
   After ANY history h of public calls on a fresh plan, a successful fix(names) leaves every named quantity with its
   LEVEL fixed and - in growth mode - its CHANGE fixed as well. *)
Theorem fix_fixes_level_and_change endog params flat h s n :
  let p := run (init_plan endog params flat) h in
  let r := step p (OFix s) in
  snd r = true -> sel_covers (sp_fixl p) s n = true ->
  is_on (sp_fixl (fst r)) n = true /\ (flat = false -> is_on (sp_fixc (fst r)) n = true).
Proof.
  intros p r. subst r. cbn [step]. unfold fix_like.
  destruct (reachable_keys endog params flat h) as (_ & _ & KL & KC). fold p in KL, KC.
  pose proof (write_reg_on p RFixL s true) as ON1. pose proof (write_reg_keys p RFixL s true) as KK1.
  pose proof (covers_in_keys p RFixL s true n) as CK.
  destruct (write_reg p RFixL s true) as [p1 ok1] eqn:E1. cbn [fst snd] in *.
  destruct ok1; cbn [negb]; [|intros; discriminate].
  intros OK Hc.
  assert (L1 : is_on (sp_fixl p1) n = true).
  { specialize (ON1 RFixL n). cbn [get_reg rname_eqb andb] in ON1. rewrite ON1, Hc. reflexivity. }
  specialize (CK eq_refl Hc). cbn [get_reg] in CK.
  destruct flat.
  - (* flat: only the level is claimed; the change call, if made, does not touch the level register *)
    split; [|discriminate].
    destruct (gen_fix_guard _ _); [|exact L1].
    pose proof (write_reg_on p1 RFixC s true RFixL n) as ON2. cbn [get_reg rname_eqb andb] in ON2.
    rewrite andb_false_r in ON2. cbn [andb] in ON2. rewrite ON2. exact L1.
  - (* growth: the change register has the same keys, so it is non-empty and the change call is made *)
    assert (KC1 : keys (sp_fixc p1) = endog) by (pose proof (KK1 RFixC) as X; cbn [get_reg] in X; rewrite X; exact KC).
    assert (NE : nonempty (sp_fixc p1) = true).
    { apply (nonempty_keys _ n). rewrite KC1, <- KL. exact CK. }
    unfold gen_fix_guard in *. rewrite NE in *.
    pose proof (write_reg_on p1 RFixC s true) as ON2.
    destruct (write_reg p1 RFixC s true) as [p2 ok2] eqn:E2. cbn [fst snd] in *. subst ok2.
    split.
    + specialize (ON2 RFixL n). cbn [get_reg rname_eqb andb] in ON2. rewrite ON2. exact L1.
    + intros _. specialize (ON2 RFixC n). cbn [get_reg rname_eqb andb] in ON2. rewrite ON2.
      replace (sel_covers (sp_fixc p1) s n) with true; [reflexivity|].
      symmetry. destruct s as [|l]; cbn [sel_covers] in *; [|exact Hc]. rewrite KC1, <- KL. exact CK.
Qed.

(* ... and unfix(names) switches both off again *)
Theorem unfix_unfixes_level_and_change endog params flat h s n :
  let p := run (init_plan endog params flat) h in
  let r := step p (OUnfix s) in
  snd r = true -> sel_covers (sp_fixl p) s n = true ->
  is_on (sp_fixl (fst r)) n = false /\ is_on (sp_fixc (fst r)) n = false.
Proof.
  intros p r. subst r. cbn [step]. unfold fix_like.
  destruct (reachable_keys endog params flat h) as (_ & _ & KL & KC). fold p in KL, KC.
  pose proof (write_reg_on p RFixL s false) as ON1. pose proof (write_reg_keys p RFixL s false) as KK1.
  pose proof (covers_in_keys p RFixL s false n) as CK.
  destruct (write_reg p RFixL s false) as [p1 ok1] eqn:E1. cbn [fst snd] in *.
  destruct ok1; cbn [negb]; [|intros; discriminate].
  intros OK Hc.
  assert (L1 : is_on (sp_fixl p1) n = false).
  { specialize (ON1 RFixL n). cbn [get_reg rname_eqb andb] in ON1. rewrite ON1, Hc. reflexivity. }
  specialize (CK eq_refl Hc). cbn [get_reg] in CK.
  destruct flat.
  - assert (KC1 : keys (sp_fixc p1) = []) by (pose proof (KK1 RFixC) as X; cbn [get_reg] in X; rewrite X; exact KC).
    assert (Z : forall q, keys (sp_fixc q) = [] -> is_on (sp_fixc q) n = false).
    { intros q Hq. apply is_on_not_key. rewrite Hq. reflexivity. }
    destruct (gen_unfix_guard _ _).
    + pose proof (write_reg_on p1 RFixC s false RFixL n) as ON2. cbn [get_reg rname_eqb andb] in ON2.
      rewrite andb_false_r in ON2. cbn [andb] in ON2. split; [rewrite ON2; exact L1|].
      apply Z. pose proof (write_reg_keys p1 RFixC s false RFixC) as X. cbn [get_reg] in X. rewrite X. exact KC1.
    + split; [exact L1|apply Z; exact KC1].
  - assert (KC1 : keys (sp_fixc p1) = endog) by (pose proof (KK1 RFixC) as X; cbn [get_reg] in X; rewrite X; exact KC).
    assert (NE : nonempty (sp_fixc p1) = true).
    { apply (nonempty_keys _ n). rewrite KC1, <- KL. exact CK. }
    unfold gen_unfix_guard in *. rewrite NE in *.
    pose proof (write_reg_on p1 RFixC s false) as ON2.
    destruct (write_reg p1 RFixC s false) as [p2 ok2] eqn:E2. cbn [fst snd] in *. subst ok2.
    split.
    + specialize (ON2 RFixL n). cbn [get_reg rname_eqb andb] in ON2. rewrite ON2. exact L1.
    + specialize (ON2 RFixC n). cbn [get_reg rname_eqb andb] in ON2. rewrite ON2.
      replace (sel_covers (sp_fixc p1) s n) with true; [reflexivity|].
      symmetry. destruct s as [|l]; cbn [sel_covers] in *; [|exact Hc]. rewrite KC1, <- KL. exact CK.
Qed.

(* ------------------------------------------------------------------ THEOREM: a call that does not name a quantity
   in a register leaves its status there as it is (so a status lasts until a later call names it again) *)
Definition touches (o : op) (r : rname) (n : nat) : bool :=
  match o with
  | OCall m s => rname_eqb r (gen_method_register m) && sel_mentions s n
  | OFix s | OUnfix s => (rname_eqb r RFixL || rname_eqb r RFixC) && sel_mentions s n
  | OSwap ps | OUnswap ps =>
      (rname_eqb r gen_swap_first && mem_nat n (map fst ps)) || (rname_eqb r gen_swap_second && mem_nat n (map snd ps))
  end.

Lemma fix_like_frame p s v guard r n : (rname_eqb r RFixL || rname_eqb r RFixC) && sel_mentions s n = false ->
  is_on (get_reg (fst (fix_like p s v guard)) r) n = is_on (get_reg p r) n.
Proof.
  intros H. unfold fix_like.
  pose proof (write_reg_frame p RFixL s v r n) as F1.
  destruct (write_reg p RFixL s v) as [p1 ok1] eqn:E1. cbn [fst] in F1.
  assert (A1 : is_on (get_reg p1 r) n = is_on (get_reg p r) n).
  { apply F1. destruct (sel_mentions s n); [|apply andb_false_r]. rewrite andb_true_r in *.
    apply orb_false_iff in H. tauto. }
  destruct ok1; cbn [negb]; [|exact A1]. destruct (guard _ _); [|exact A1].
  rewrite write_reg_frame; [exact A1|]. destruct (sel_mentions s n); [|apply andb_false_r]. rewrite andb_true_r in *.
  apply orb_false_iff in H. tauto.
Qed.

Lemma swap_like_frame p v ps r n :
  (rname_eqb r gen_swap_first && mem_nat n (map fst ps)) || (rname_eqb r gen_swap_second && mem_nat n (map snd ps)) = false ->
  is_on (get_reg (fst (swap_like p v ps)) r) n = is_on (get_reg p r) n.
Proof.
  revert p; induction ps as [|[a b] ps IH]; intros p H; [reflexivity|]. cbn [swap_like].
  cbn [map fst snd mem_nat existsb] in H. fold (mem_nat n (map fst ps)) in H. fold (mem_nat n (map snd ps)) in H.
  apply orb_false_iff in H. destruct H as [H1 H2].
  pose proof (write_reg_frame p gen_swap_first (SNames [a]) v r n) as F1.
  destruct (write_reg p gen_swap_first (SNames [a]) v) as [p1 ok1] eqn:E1. cbn [fst] in F1.
  assert (A1 : is_on (get_reg p1 r) n = is_on (get_reg p r) n).
  { apply F1. cbn [sel_mentions mem_nat existsb]. rewrite orb_false_r.
    destruct (rname_eqb r gen_swap_first); [|reflexivity]. cbn [andb] in *. apply orb_false_iff in H1. tauto. }
  destruct ok1; cbn [negb]; [|exact A1].
  pose proof (write_reg_frame p1 gen_swap_second (SNames [b]) v r n) as F2.
  destruct (write_reg p1 gen_swap_second (SNames [b]) v) as [p2 ok2] eqn:E2. cbn [fst] in F2.
  assert (A2 : is_on (get_reg p2 r) n = is_on (get_reg p1 r) n).
  { apply F2. cbn [sel_mentions mem_nat existsb]. rewrite orb_false_r.
    destruct (rname_eqb r gen_swap_second); [|reflexivity]. cbn [andb] in *. apply orb_false_iff in H2. tauto. }
  destruct ok2; cbn [negb fst]; [|congruence].
  rewrite IH; [congruence|].
  apply orb_false_iff. split.
  - destruct (rname_eqb r gen_swap_first); [|reflexivity]. cbn [andb] in *. apply orb_false_iff in H1. tauto.
  - destruct (rname_eqb r gen_swap_second); [|reflexivity]. cbn [andb] in *. apply orb_false_iff in H2. tauto.
Qed.

Theorem step_frame p o r n : touches o r n = false ->
  is_on (get_reg (fst (step p o)) r) n = is_on (get_reg p r) n.
Proof.
  destruct o; cbn [step touches]; intros H.
  - apply write_reg_frame; exact H.
  - apply fix_like_frame; exact H.
  - apply fix_like_frame; exact H.
  - apply swap_like_frame; exact H.
  - apply swap_like_frame; exact H.
Qed.

Theorem status_lasts p h r n : forallb (fun o => negb (touches o r n)) h = true ->
  is_on (get_reg (run p h) r) n = is_on (get_reg p r) n.
Proof.
  unfold run. revert p; induction h as [|o h IH]; intros p H; [reflexivity|]. cbn [fold_left forallb] in *.
  apply andb_prop in H. destruct H as [H1 H2]. rewrite IH by exact H2. apply step_frame.
  apply negb_true_iff; exact H1.
Qed.

Lemma run_app p h1 h2 : run p (h1 ++ h2) = run (run p h1) h2.
Proof. unfold run. apply fold_left_app. Qed.

(* fixed by fix(names) after any history, and still fixed after any later calls that do not name it *)
Theorem fixed_until_named_again endog params flat h1 s h2 n :
  let p := run (init_plan endog params flat) h1 in
  snd (step p (OFix s)) = true -> sel_covers (sp_fixl p) s n = true ->
  forallb (fun o => negb (touches o RFixL n)) h2 = true -> forallb (fun o => negb (touches o RFixC n)) h2 = true ->
  let pf := run (init_plan endog params flat) (h1 ++ OFix s :: h2) in
  is_on (sp_fixl pf) n = true /\ (flat = false -> is_on (sp_fixc pf) n = true).
Proof.
  intros p OK Hc T1 T2 pf.
  destruct (fix_fixes_level_and_change endog params flat h1 s n OK Hc) as [A B]. fold p in A, B.
  assert (E : pf = run (fst (step p (OFix s))) h2).
  { unfold pf. rewrite run_app. reflexivity. }
  rewrite E. split.
  - rewrite <- A. apply (status_lasts _ h2 RFixL n T1).
  - intros F. rewrite <- (B F). apply (status_lasts _ h2 RFixC n T2).
Qed.

(* ------------------------------------------------------------------ what the plan hands to the solver loop *)
Lemma names_on_is_on g n : In n (names_on g) <-> is_on g n = true.
Proof.
  unfold names_on, is_on. rewrite in_map_iff. split.
  - intros ((k, b) & E & H). simpl in E; subst k. apply filter_In in H. destruct H as [H Hb]. simpl in Hb; subst b.
    apply existsb_exists. exists (n, true). split; auto. simpl. rewrite Nat.eqb_refl. reflexivity.
  - intros H. apply existsb_exists in H. destruct H as ((k, b) & H & E). simpl in E. apply andb_prop in E.
    destruct E as [E1 E2]. apply Nat.eqb_eq in E1; subst. exists (n, true). split; auto. apply filter_In. split; auto.
Qed.

Lemma is_on_any g n : is_on g n = true -> any_in g = true.
Proof.
  unfold is_on, any_in. intros H. apply existsb_exists in H. destruct H as (x & Hx & E).
  apply andb_prop in E. apply existsb_exists. exists x. tauto.
Qed.

(* the formula of _resolve_steady_wrt regenerated from the source is the modelled one *)
Theorem resolve_wrt_is_source kinds p : resolve_wrt_gen kinds p = resolve_wrt kinds p.
Proof. reflexivity. Qed.

Lemma sorted_minus_In n l excl q : In q (sorted_minus n l excl) <-> (q < n)%nat /\ In q l /\ ~ In q excl.
Proof.
  unfold sorted_minus. rewrite filter_In, in_seq, andb_true_iff, negb_true_iff, mem_nat_In.
  rewrite <- not_true_iff_false, mem_nat_In. split; intros H; repeat split; try tauto; lia.
Qed.

(* unknowns handed to the solver = all endogenous minus exogenized plus endogenized; of a block's quantities the
   LEVEL is an unknown unless fixed, the CHANGE is an unknown unless fixed or the quantity is an endogenized parameter *)
Theorem unknowns_of_plan kinds p bq q :
  (In q (fst (fst (resolve_wrt kinds p))) <->
     (q < length kinds)%nat /\
     ((is_endog (kind_of kinds q) = true /\ ~ In q (p_exogenized p)) \/ In q (p_endogenized p))) /\
  (In q (level_unknowns kinds p bq) <-> (q < length kinds)%nat /\ In q bq /\ ~ In q (p_fixed_level p)) /\
  (In q (change_unknowns kinds p bq) <->
     (q < length kinds)%nat /\ In q bq /\ ~ In q (p_fixed_change p) /\ ~ In q (p_endogenized p)).
Proof.
  unfold level_unknowns, change_unknowns, resolve_wrt. cbn [fst snd].
  split; [|split].
  - rewrite filter_In, in_seq. split.
    + intros [H1 H2]. split; [lia|]. apply orb_prop in H2. destruct H2 as [H2|H2].
      * left. apply andb_prop in H2. destruct H2 as [A B]. split; auto. apply negb_true_iff in B.
        rewrite <- mem_nat_In, B. discriminate.
      * right. apply mem_nat_In; exact H2.
    + intros (Hq & [[A B]|B]); (split; [lia|]).
      * rewrite A. cbn [andb]. apply orb_true_iff. left. apply negb_true_iff.
        apply not_true_iff_false. rewrite mem_nat_In. exact B.
      * apply orb_true_iff. right. apply mem_nat_In; exact B.
  - rewrite sorted_minus_In. split; intros (A & B & C); repeat split; auto.
    + intros D. apply C. apply filter_In. split; [apply in_seq; lia | apply mem_nat_In; exact D].
    + intros D. apply filter_In in D. apply C. apply mem_nat_In. tauto.
  - rewrite sorted_minus_In. split.
    + intros (A & B & C). repeat split; auto; intros D; apply C; apply filter_In; (split; [apply in_seq; lia|]);
        apply orb_true_iff; [left|right]; apply mem_nat_In; exact D.
    + intros (A & B & C & D). repeat split; auto. intros E. apply filter_In in E. destruct E as [_ E].
      apply orb_prop in E. destruct E as [E|E]; apply mem_nat_In in E; tauto.
Qed.

(* a quantity switched on in the fixed-level (fixed-change) register is among the fixed qids the loop receives *)
Lemma fixed_qids_of_plan kinds (pf : splan) q : (q < length kinds)%nat ->
  (is_on (sp_fixl pf) q = true -> In q (snd (fst (resolve_wrt kinds (plan_view (Some pf)))))) /\
  (is_on (sp_fixc pf) q = true -> In q (snd (resolve_wrt kinds (plan_view (Some pf))))).
Proof.
  intros Hq. unfold resolve_wrt. cbn [fst snd]. split; intros H.
  - assert (E : plan_is_empty pf = false).
    { unfold plan_is_empty. rewrite (is_on_any _ _ H). rewrite !orb_true_r. reflexivity. }
    cbn [plan_view]. rewrite E. cbn [p_fixed_level]. apply filter_In. split; [apply in_seq; lia|].
    apply mem_nat_In. apply names_on_is_on; exact H.
  - assert (E : plan_is_empty pf = false).
    { unfold plan_is_empty. rewrite (is_on_any _ _ H). rewrite !orb_true_r. reflexivity. }
    cbn [plan_view]. rewrite E. cbn [p_fixed_change p_endogenized]. apply filter_In. split; [apply in_seq; lia|].
    apply orb_true_iff. left. apply mem_nat_In. apply names_on_is_on; exact H.
Qed.

(* ------------------------------------------------------------------ THEOREM: through the WHOLE loop of
   _steady_nonlinear (all blocks, any oracle outputs that are well formed) a quantity among the fixed-level qids keeps
   its stored level, and - in growth mode - a quantity among the fixed-change qids keeps its stored change *)
Section KeepsFixed.
Variables (flat : bool) (lg : list (option bool)) (kinds : list qkind) (tol : R) (nq : nat).

Lemma mb_step_level_kept b v q : vinv flat lg nq v -> mb_ok flat lg kinds tol nq b v -> ~ In q (mb_lq b) ->
  vget RA (v_levels RA (mb_step flat lg kinds b v)) q = vget RA (v_levels RA v) q.
Proof.
  intros (Hl & Hc & Hf) (ND & Hlt & Hg & Hlog & Htok & _) Hq. unfold mb_step.
  apply levels_untouched. tauto.
Qed.

Lemma mb_step_change_kept b v q : flat = false -> vinv flat lg nq v -> mb_ok flat lg kinds tol nq b v -> ~ In q (mb_cq b) ->
  vget RA (v_changes RA (mb_step flat lg kinds b v)) q = vget RA (v_changes RA v) q.
Proof.
  intros F (Hl & Hc & Hf) (ND & Hlt & Hg & Hlog & Htok & _) Hq. unfold mb_step.
  assert (Hc' : length (v_changes RA v) = length (v_levels RA v)) by lia.
  rewrite <- Hl in Hlt.
  rewrite changes_untouched by (auto; tauto). rewrite v1_eq, F. reflexivity.
Qed.

Lemma run_mblocks_keeps bs v q : vinv flat lg nq v -> all_ok flat lg kinds tol nq bs v ->
  ((forall b, In b bs -> ~ In q (mb_lq b)) ->
     vget RA (v_levels RA (run_mblocks flat lg kinds bs v)) q = vget RA (v_levels RA v) q) /\
  (flat = false -> (forall b, In b bs -> ~ In q (mb_cq b)) ->
     vget RA (v_changes RA (run_mblocks flat lg kinds bs v)) q = vget RA (v_changes RA v) q).
Proof.
  revert v; induction bs as [|b r IH]; intros v Hv Hok; [split; reflexivity|].
  destruct Hok as [Hb Hr]. cbn [run_mblocks fold_left].
  assert (Hv' : vinv flat lg nq (mb_step flat lg kinds b v)) by (eapply mb_step_inv; eauto).
  destruct (IH _ Hv' Hr) as [IL IC]. split.
  - intros H. unfold run_mblocks in IL. rewrite IL by (intros b' Hb'; apply H; right; exact Hb').
    apply mb_step_level_kept; auto. apply H; left; reflexivity.
  - intros F H. unfold run_mblocks in IC. rewrite IC by (auto; intros b' Hb'; apply H; right; exact Hb').
    apply mb_step_change_kept; auto. apply H; left; reflexivity.
Qed.
End KeepsFixed.

Lemma pair_blocks_lq kinds eqs fixl fixc bs orcs b :
  In b (pair_blocks kinds eqs fixl fixc bs orcs) ->
  exists b0, mb_lq b = blk_lq kinds fixl b0 /\ mb_cq b = blk_cq kinds fixc b0.
Proof.
  revert orcs; induction bs as [|b0 r IH]; intros orcs H; [destruct H|]. cbn [pair_blocks] in H.
  destruct (skipped kinds eqs fixl fixc b0); [eapply IH; eauto|].
  destruct orcs as [|[w g] orcs']; [eapply IH; eauto|].
  destruct H as [H|H]; [|eapply IH; eauto]. subst b. exists b0. split; reflexivity.
Qed.

Theorem steady_nonlinear_keeps_fixed flat lg kinds eqs p split blocks orcs v tol :
  let res := steady_nonlinear RA nobad flat lg kinds eqs p split blocks orcs v in
  let wrt := fst (fst (resolve_wrt kinds p)) in
  let fixl := snd (fst (resolve_wrt kinds p)) in
  let fixc := snd (resolve_wrt kinds p) in
  let blocks1 := if split then blocks else [mkBlock (seq 0 (length eqs)) wrt] in
  let mbs := pair_blocks kinds eqs fixl fixc blocks1 orcs in
  vinv flat lg (length kinds) v -> all_ok flat lg kinds tol (length kinds) mbs v ->
  forall q,
    (In q fixl -> vget RA (r_levels RA res) q = vget RA (v_levels RA v) q) /\
    (flat = false -> In q fixc -> vget RA (r_changes RA res) q = vget RA (v_changes RA v) q).
Proof.
  intros res wrt fixl fixc blocks1 mbs Hv Hok q.
  assert (E : mkVariant RA (r_levels RA res) (r_changes RA res) = run_mblocks flat lg kinds mbs v).
  { unfold res, steady_nonlinear, mbs, blocks1, fixl, fixc, wrt. destruct (resolve_wrt kinds p) as [[w fl] fc] eqn:Ew.
    cbn [fst snd] in *.
    pose proof (solve_blocks_run flat lg kinds eqs fl fc (if split then blocks else [mkBlock (seq 0 (length eqs)) w]) orcs v []) as R.
    destruct (fold_left _ _ _) as [[v' o] obs]. cbn [fst] in R. cbn [r_levels r_changes]. rewrite variant_eta. exact R. }
  assert (EL : r_levels RA res = v_levels RA (run_mblocks flat lg kinds mbs v)) by (rewrite <- E; reflexivity).
  assert (EC : r_changes RA res = v_changes RA (run_mblocks flat lg kinds mbs v)) by (rewrite <- E; reflexivity).
  destruct (run_mblocks_keeps flat lg kinds tol (length kinds) mbs v q Hv Hok) as [KL KC].
  rewrite EL, EC. split.
  - intros Hq. apply KL. intros b Hb. destruct (pair_blocks_lq _ _ _ _ _ _ _ Hb) as (b0 & A & _). rewrite A.
    unfold blk_lq. rewrite sorted_minus_In. tauto.
  - intros F Hq. apply KC; auto. intros b Hb. destruct (pair_blocks_lq _ _ _ _ _ _ _ Hb) as (b0 & _ & A). rewrite A.
    unfold blk_cq. rewrite sorted_minus_In. tauto.
Qed.

(* END TO END: a quantity fixed by plan.fix(names) after any history of calls (and not named by the later calls) keeps
   its assigned level - and in growth mode its assigned change - through solve_steady's nonlinear loop *)
Theorem fix_keeps_assigned_path endog params flat h1 s h2 n lg kinds eqs split blocks orcs v tol :
  let p0 := run (init_plan endog params flat) h1 in
  let pf := run (init_plan endog params flat) (h1 ++ OFix s :: h2) in
  let pl := plan_view (Some pf) in
  let res := steady_nonlinear RA nobad flat lg kinds eqs pl split blocks orcs v in
  let blocks1 := if split then blocks else [mkBlock (seq 0 (length eqs)) (fst (fst (resolve_wrt kinds pl)))] in
  let mbs := pair_blocks kinds eqs (snd (fst (resolve_wrt kinds pl))) (snd (resolve_wrt kinds pl)) blocks1 orcs in
  snd (step p0 (OFix s)) = true -> sel_covers (sp_fixl p0) s n = true -> (n < length kinds)%nat ->
  forallb (fun o => negb (touches o RFixL n)) h2 = true -> forallb (fun o => negb (touches o RFixC n)) h2 = true ->
  vinv flat lg (length kinds) v -> all_ok flat lg kinds tol (length kinds) mbs v ->
  vget RA (r_levels RA res) n = vget RA (v_levels RA v) n /\
  (flat = false -> vget RA (r_changes RA res) n = vget RA (v_changes RA v) n).
Proof.
  intros p0 pf pl res blocks1 mbs OK Hc Hn T1 T2 Hv Hok.
  destruct (fixed_until_named_again endog params flat h1 s h2 n OK Hc T1 T2) as [A B]. fold pf in A, B.
  pose proof (fixed_qids_of_plan kinds pf n Hn) as Q. fold pl in Q.
  destruct (steady_nonlinear_keeps_fixed flat lg kinds eqs pl split blocks orcs v tol Hv Hok n) as [KL KC].
  destruct Q as [QL QC].
  split; [apply KL; auto|]. intros F. apply KC; auto.
Qed.

(* ------------------------------------------------------------------ linear steady state: the descriptor.
   _steady_linear solves the stacked system of the STEADY descriptor (the `!!` versions of the equations) and reads the
   positions of the solution vector off the same descriptor; so what theorems C05_linear_* say about "the system" is
   about the steady-state equations *)
Theorem linear_steady_uses_steady_descriptor : forall (S T : Type) (sys_of : descriptor -> S) (toks_of : descriptor -> T),
  linear_system sys_of = sys_of DSteady /\ linear_tokens toks_of = toks_of DSteady.
Proof. intros. split; reflexivity. Qed.

(* ------------------------------------------------------------------ non-vacuity *)
Example ex_plan_growth :
  let p0 := init_plan [0; 1]%nat [2]%nat false in
  let h := [OCall MExogenize (SNames [1%nat]); OFix (SNames [0%nat]); OCall MEndogenize (SNames [2%nat]);
            OCall MUnexogenize SAll] in
  map snd (run_trace p0 h) = [true; true; true; true] /\
  run p0 h = mkSP [(0, false); (1, false)]%nat [(2%nat, true)] [(0, true); (1, false)]%nat [(0, true); (1, false)]%nat /\
  resolve_wrt [KEndog; KEndog; KParam] (plan_view (Some (run p0 h))) = ([0; 1; 2], [0], [0; 2])%nat /\
  level_unknowns [KEndog; KEndog; KParam] (plan_view (Some (run p0 h))) [0; 1; 2]%nat = [1; 2]%nat /\
  change_unknowns [KEndog; KEndog; KParam] (plan_view (Some (run p0 h))) [0; 1; 2]%nat = [1]%nat.
Proof. repeat split; reflexivity. Qed.

Example ex_plan_flat_and_invalid :
  let p0 := init_plan [0; 1]%nat [2]%nat true in
  let h := [OFix (SNames [0%nat]); OCall MFixChange (SNames [0%nat]); OSwap [(1, 2); (2, 2)]%nat] in
  map snd (run_trace p0 h) = [true; false; false] /\
  run p0 h = mkSP [(0, false); (1, true)]%nat [(2%nat, true)] [(0, true); (1, false)]%nat [].
Proof. repeat split; reflexivity. Qed.
