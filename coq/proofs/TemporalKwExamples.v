(* Non-vacuity examples for proofs/TemporalKwProofs.v *)
From Coq Require Import ZArith List Bool Lia Reals Lra.
From Verif Require Import lib.Calendar lib.Arith lib.PyRange lib.Period model.Series gen.TemporalGen gen.DatesGen
     model.Temporal model.TemporalKw proofs.SeriesProofs proofs.TemporalProofs proofs.TemporalKwProofs.
Import ListNotations.
Open Scope Z_scope.

(* ------------------------------------------------------------------ E. non-vacuity: a daily series over the turn of the leap year 2024 *)
Section ExamplesKw.
Notation RA := RArith.

(* 738884 = 2023-12-30, 738885 = 2023-12-31, 738886 = 2024-01-01, 739251 = 2024-12-31 (2024 is a leap year) *)
Lemma daily_reference_days_example :
  in_cal 739251 /\ ymd_of_ord 739251 = (2024, 12, 31) /\ ymd_of_ord 738886 = (2024, 1, 1) /\
  kw_ref 365 Soy 739251 = Some (Some 738886) /\ kw_ref 365 Eopy 739251 = Some (Some 738885) /\
  kw_ref 365 Tty 739251 = Some (Some 739250) /\ kw_ref 365 Tty 738886 = Some None /\
  kw_ref 365 Yoy 739251 = Some (Some 738886) /\ kw_ref 365 Eopy 300 = None.
Proof. split; [unfold in_cal, max_ordinal; lia|]. repeat split; vm_compute; reflexivity. Qed.

Definition ex_daily : series RA :=
  mkSeries (A:=RA) 365 (Some 738884) 1 [[1%R]; [2%R]; [4%R]; [8%R]; [16%R]].

Lemma kw_hypotheses_satisfiable :
  let x := ex_daily in
  WF RA x /\ s_start x = Some 738884 /\ cells_in RA (dom_of CumRoc) x 738884 (738884 + 5 - 1) /\
  (738884 <= 738886 <= 738888) /\ (738888 <= 738884 + 5 - 1) /\
  (forall t q, 738886 <= t <= 738888 -> kw_ref 365 Tty t = Some (Some q) -> 738884 <= q <= t) /\
  (kw_ref 365 Tty 738886 = Some None /\ kw_ref 365 Tty (738886 + 1) = Some (Some 738886)) /\
  exists c r, change_kw RA KRoc Tty x = Ok c /\ s_freq c = 365 /\
              temporal_cumulation_kw RA CumRoc Tty (InitSeries RA x) (SpanFromTo 738886 738888 1) c = Ok r.
Proof.
  intros x. split; [split; [repeat constructor|discriminate]|]. split; [reflexivity|]. split.
  { intros t c Ht Hc. simpl in Hc. assert (c = 0%nat) by lia. subst c.
    assert (Hcases : t = 738884 \/ t = 738885 \/ t = 738886 \/ t = 738887 \/ t = 738888) by lia.
    destruct Hcases as [E|[E|[E|[E|E]]]]; subst t; unfold cell, row_at, x, ex_daily; simpl; lra. }
  split; [lia|]. split; [lia|]. split.
  { intros t q Ht H. assert (Hcases : t = 738886 \/ t = 738887 \/ t = 738888) by lia.
    destruct Hcases as [E|[E|E]]; subst t.
    - assert (E : kw_ref 365 Tty 738886 = Some None) by (vm_compute; reflexivity). rewrite E in H. discriminate.
    - assert (E : kw_ref 365 Tty 738887 = Some (Some 738886)) by (vm_compute; reflexivity). rewrite E in H. inversion H. lia.
    - assert (E : kw_ref 365 Tty 738888 = Some (Some 738887)) by (vm_compute; reflexivity). rewrite E in H. inversion H. lia. }
  split; [split; vm_compute; reflexivity|].
  remember (change_kw RA KRoc Tty x) as cc eqn:Ec.
  unfold x, ex_daily in Ec. lazy -[Rdiv Rmult Rminus Rplus Rinv Ropp IZR Rpower Rpower.ln Rtrigo_def.exp] in Ec.
  match type of Ec with _ = Ok ?v => exists v end.
  remember (temporal_cumulation_kw RA CumRoc Tty (InitSeries RA x) (SpanFromTo 738886 738888 1) _) as rr eqn:Er.
  unfold x, ex_daily in Er. lazy -[Rdiv Rmult Rminus Rplus Rinv Ropp IZR Rpower Rpower.ln Rtrigo_def.exp] in Er.
  match type of Er with _ = Ok ?v => exists v end.
  split; [exact Ec|]. split; [reflexivity|exact Er].
Qed.

End ExamplesKw.
