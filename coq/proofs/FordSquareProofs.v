(* C01  The square solution and the simulated recursion satisfy the model equations.
   Continues proofs/FordProofs.v (MathComp instance, arbitrary field, arbitrary block sizes). *)
From Verif Require Import lib.MxC01 gen.FordGen model.Ford proofs.FordProofs.
From mathcomp Require Import all_ssreflect all_algebra.
From mathcomp Require Import ring.
Set Implicit Arguments.
Unset Strict Implicit.
Unset Printing Implicit Defensive.
Import GRing.Theory.
Local Open Scope ring_scope.

(* ================================================================== *)
(* 2a. detach_stable_from_unit_roots and _square_from_triangular, abstractly:
       with an orthogonal Schur factor u (Tg = u Ta u') the square solution is the triangular
       one seen through Ug = Z21:   T = Z21 Tg Z21^-1, P = Z21 Rg, K = Z21 Kg, X = Z21 Xg       *)
Section SquareAlg.
Variable F : fieldType.
Variables nb : nat.
Variables (Z21 Tg u Ta : 'M[F]_nb).
Hypothesis uZ21 : Z21 \in unitmx.
Hypothesis uu : u *m u^T = 1%:M.
Hypothesis schur : Tg = u *m Ta *m u^T.

Lemma invmx_orth : invmx u = u^T. Proof. exact: invmx_uniq. Qed.
Lemma unit_orth : u \in unitmx. Proof. by have [] := mulmx1_unit uu. Qed.

Lemma invmx_mul n (A B : 'M[F]_n) : A \in unitmx -> B \in unitmx -> invmx (A *m B) = invmx B *m invmx A.
Proof. by move=> uA uB; apply: invmx_uniq; rewrite mulmxA mulmxK // mulmxV. Qed.

(* T = Ua @ right_div(Ta, Ua),  right_div(B, A) = lstsq(A.T, B.T).T *)
Lemma square_T_alg :
  (Z21 *m u) *m (invmx ((Z21 *m u)^T) *m Ta^T)^T = Z21 *m Tg *m invmx Z21.
Proof.
rewrite trmx_mul trmxK -trmx_inv trmxK invmx_mul ?unit_orth // invmx_orth schur.
by rewrite !mulmxA.
Qed.

Lemma square_R_alg p (M : 'M[F]_(nb, p)) : (Z21 *m u) *m (u^T *m M) = Z21 *m M.
Proof. by rewrite mulmxA -(mulmxA Z21) uu mulmx1. Qed.

End SquareAlg.

(* one step of the square recursion is one step of the gamma recursion, seen through Z21 *)
Section StepAlg.
Variable F : fieldType.
Variables nb nf ne : nat.
Variables (Z21 Tg Tsq : 'M[F]_nb) (Rg P : 'M[F]_(nb, ne)) (Kg K : 'cV[F]_nb) (Xg X : 'M[F]_(nb, nf)).
Hypothesis uZ21 : Z21 \in unitmx.
Hypothesis T_def : Tsq = Z21 *m Tg *m invmx Z21.
Hypothesis P_def : P = Z21 *m Rg.
Hypothesis K_def : K = Z21 *m Kg.
Hypothesis X_def : X = Z21 *m Xg.

Lemma step_gamma (xi0 : 'cV[F]_nb) (e : 'cV[F]_ne) (a : 'cV[F]_nf) :
  invmx Z21 *m (Tsq *m xi0 + K + P *m e - X *m a)
  = Tg *m (invmx Z21 *m xi0) + Kg + Rg *m e - Xg *m a.
Proof.
rewrite T_def P_def K_def X_def !mulmxDr mulmxN !mulmxA !(mulVmx uZ21) !mul1mx.
by rewrite -!mulmxA.
Qed.

End StepAlg.

(* ================================================================== *)
(* 2b. The square solution satisfies  A xi+[t] + B xi+[t-1|t] + C + D e[t] = 0              *)
Section Square.
Variable F : fieldType.
Variables nb nf ne : nat.
(* the unsolved system: rows = equations (nb+nf of them), columns = system vector (nf leads, then nb) *)
Variables (A B : 'M[F]_(nb + nf, nf + nb)) (C : 'cV[F]_(nb + nf)) (D : 'M[F]_(nb + nf, ne)).
(* oracle outputs: ordered QZ (Q already transposed as in _solve_ordqz) and the Schur factors *)
Variables (S T Q : 'M[F]_(nb + nf)) (Z : 'M[F]_(nf + nb, nb + nf)) (Ta u : 'M[F]_nb).

Notation O := (MCOps F).
Let p := @solve_transition O nb nf ne S T Q Z C D.
Let tri := @detach O nb nf ne p Ta u.
Let sq := @square_from_triangular O nb nf ne tri.

Let Z21 : 'M[F]_nb := dlsubmx Z.
Let G : 'M[F]_(nb, nf) := ts_G p.   Let Ku : 'cV[F]_nf := ts_Ku p.   Let Ru : 'M[F]_(nf, ne) := ts_Ru p.
Let Tg : 'M[F]_nb := ts_Tg p.       Let Rg : 'M[F]_(nb, ne) := ts_Rg p. Let Kg : 'cV[F]_nb := ts_Kg p.
Let J : 'M[F]_nf := ts_J p.         Let Xg : 'M[F]_(nb, nf) := ts_Xg p.
Let Tsq : 'M[F]_nb := sq_T sq.      Let P : 'M[F]_(nb, ne) := sq_P sq.
Let K : 'cV[F]_nb := sq_K sq.       Let X : 'M[F]_(nb, nf) := sq_X sq.

(* contract of the ordered QZ decomposition *)
Hypothesis QAZ : Q *m A *m Z = S.
Hypothesis QBZ : Q *m B *m Z = T.
Hypothesis uQ : Q \in unitmx.
Hypothesis S21_0 : dlsubmx S = 0.
Hypothesis T21_0 : dlsubmx T = 0.
Hypothesis uS11 : ulsubmx S \in unitmx.
Hypothesis uT22 : drsubmx T \in unitmx.
Hypothesis uST22 : drsubmx S + drsubmx T \in unitmx.
Hypothesis uZ21 : Z21 \in unitmx.
(* contract of the Schur decomposition of Tg *)
Hypothesis uu : u *m u^T = 1%:M.
Hypothesis schur : Tg = u *m Ta *m u^T.

Lemma Tsq_eq : Tsq = Z21 *m Tg *m invmx Z21.
Proof. exact: (square_T_alg uZ21 uu schur). Qed.
Lemma P_eq : P = Z21 *m Rg. Proof. exact: (square_R_alg Z21 uu). Qed.
Lemma K_eq : K = Z21 *m Kg. Proof. exact: (square_R_alg Z21 uu). Qed.
Lemma X_eq : X = Z21 *m Xg. Proof. exact: (square_R_alg Z21 uu). Qed.

(* the stacked system vector (leads on top) implied by a state xi and an anticipation term a *)
Definition full (xi : 'cV[F]_nb) (a : 'cV[F]_nf) : 'cV[F]_(nf + nb) :=
  Z *m col_mx (invmx Z21 *m xi + G *m (Ku + a)) (Ku + a).

(* its backward rows are the state itself *)
Lemma full_bottom xi a : dsubmx (full xi a) = xi.
Proof.
rewrite /full (@Zw_bottom F nb nf ne S T Q Z C D uZ21) -/Z21.
by rewrite mulKVmx.
Qed.

(* one simulated period: xi1 = T xi0 + K + P e - X a *)
Theorem square_step (xi0 : 'cV[F]_nb) (e : 'cV[F]_ne) (a : 'cV[F]_nf) :
  let xi1 := Tsq *m xi0 + K + P *m e - X *m a in
  A *m full xi1 a + B *m full xi0 (Ru *m e + J *m a) + C + D *m e = 0.
Proof.
move=> xi1.
have E : Q *m (A *m full xi1 a + B *m full xi0 (Ru *m e + J *m a) + C + D *m e) = 0.
  rewrite !mulmxDr /full !mulmxA QAZ QBZ /xi1.
  rewrite (step_gamma uZ21 Tsq_eq P_eq K_eq X_eq).
  exact: (@triangular_solves_system F nb nf ne S T Q Z C D S21_0 T21_0 uS11 uT22 uST22).
by rewrite -[LHS](mulKmx uQ) E mulmx0.
Qed.

End Square.
