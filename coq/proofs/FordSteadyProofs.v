(* C01  The steady state of a linear, non-flat model (fords/steadiers.py::solve_steady_linear_nonflat, model/FordSteady.v
   over the blocks regenerated in gen/FordSteadyGen.v) is a steady-state PATH: whatever lstsq returns, if it solves the two
   stacked systems then levels + t * changes satisfy the transition and the measurement equations at EVERY date t
   (affine in t; stated for every scalar s of the field, hence for every integer date).  MathComp instance, arbitrary field
   and sizes. *)
From Verif Require Import lib.MxC01 lib.MxScale gen.FordGen gen.FordSteadyGen model.Ford model.FordSteady proofs.FordProofs
     proofs.FordPathProofs.
From mathcomp Require Import all_ssreflect all_algebra.
From mathcomp Require Import ring.
Set Implicit Arguments.
Unset Strict Implicit.
Unset Printing Implicit Defensive.
Import GRing.Theory.
Local Open Scope ring_scope.

Section Steady.
Variable F : fieldType.
Notation O := (MCOps F).

Lemma mnatE m n k (A : 'M[F]_(m, n)) : @mnat O m n k A = A *+ k.
Proof. by elim: k => [|k IH] /=; [rewrite mulr0n | rewrite IH mulrS]. Qed.

Variables (m n p : nat).
Variables (A B : 'M[F]_(m, n)) (C : 'cV[F]_m) (Fm : 'M[F]_p) (G : 'M[F]_(p, n)) (H : 'cV[F]_p).
Variables (Xi dXi : 'cV[F]_n) (Y dY : 'cV[F]_p).

(* the contract of left_div(-AB, CC) and left_div(-FF, GG @ Xi_dXi + HH): the results solve the stacked systems *)
Hypothesis tr_rows : @nonflat_transition_rows O m n A B C Xi dXi = (0, 0).
Hypothesis ms_rows : @nonflat_measurement_rows O p n Fm G H Xi dXi Y dY = (0, 0).

Theorem nonflat_transition_path (s : F) : A *m (Xi + (s + 1) *: dXi) + B *m (Xi + s *: dXi) + C = 0.
Proof.
move: tr_rows; rewrite /nonflat_transition_rows /nonflat_AB_11 /nonflat_AB_12 /nonflat_AB_21 /nonflat_AB_22 /nonflat_k /mscale /=.
rewrite ?addr0 ?add0r => -[].
rewrite !mulmxDr -!scalemxAr !mulmxDl ?mulNmx.
move: (A *m Xi) (B *m Xi) (A *m dXi) (B *m dXi) => a b c d r1 r2.
have cd : c + d = 0.
  have -> : c + d = (a + b + c + C) - (a + b - d + C) by mx_abel.
  by rewrite r1 r2 subr0.
have -> : a + (s + 1) *: c + (b + s *: d) + C = (a + b + c + C) + s *: (c + d) by mx_abel.
by rewrite r2 cd scaler0 addr0.
Qed.

Theorem nonflat_measurement_path (s : F) : Fm *m (Y + s *: dY) + G *m (Xi + s *: dXi) + H = 0.
Proof.
move: ms_rows; rewrite /nonflat_measurement_rows /nonflat_FF_11 /nonflat_FF_12 /nonflat_FF_21 /nonflat_FF_22
  /nonflat_GG_11 /nonflat_GG_12 /nonflat_GG_21 /nonflat_GG_22 /nonflat_k /mscale /=.
rewrite ?addr0 ?add0r ?mul0mx ?addr0 => -[].
rewrite !mulmxDr -!scalemxAr.
move: (Fm *m Y) (Fm *m dY) (G *m Xi) (G *m dXi) => a b c d r1 r2.
have bd : b + d = 0.
  have -> : b + d = (a + b + (c + d + H)) - (a + (c + H)) by mx_abel.
  by rewrite r1 r2 subr0.
have -> : a + s *: b + (c + s *: d) + H = (a + (c + H)) + s *: (b + d) by mx_abel.
by rewrite r1 bd scaler0 addr0.
Qed.

(* the same in terms of the model's own path (level + t * change by repeated addition), at every date t = 0, 1, 2, ... *)
Corollary nonflat_residuals_vanish (t : nat) :
  @transition_residual_at O m n A B C Xi dXi t = 0 /\ @measurement_residual_at O p n Fm G H Xi dXi Y dY t = 0.
Proof.
rewrite /transition_residual_at /measurement_residual_at /steady_at !mnatE -!scaler_nat (mulrSr 1 t).
by split; [exact: nonflat_transition_path | exact: nonflat_measurement_path].
Qed.

End Steady.

Theorem nonflat_is_path (F : fieldType) (m n p : nat) (A B : 'M[F]_(m, n)) (C : 'cV[F]_m) (Fm : 'M[F]_p)
    (G : 'M[F]_(p, n)) (H : 'cV[F]_p) (Xi dXi : 'cV[F]_n) (Y dY : 'cV[F]_p) :
  @nonflat_transition_rows (MCOps F) m n A B C Xi dXi = (0, 0) ->
  @nonflat_measurement_rows (MCOps F) p n Fm G H Xi dXi Y dY = (0, 0) ->
  forall s : F,
  A *m (Xi + (s + 1) *: dXi) + B *m (Xi + s *: dXi) + C = 0 /\
  Fm *m (Y + s *: dY) + G *m (Xi + s *: dXi) + H = 0.
Proof. by move=> tr ms s; split; [exact: nonflat_transition_path | exact: nonflat_measurement_path]. Qed.

(* A point of a steady-state path that satisfies the measurement equations is reproduced by the solved measurement block:
   ybar = Z xbar + D.  Hence the level simulation of a measurement variable (Z xi + H w + D with xi = xbar + d) equals its
   steady-state value plus the deviation simulation (Z d + H w), also when the steady state grows. *)
Section MeasurementLevel.
Variable F : fieldType.
Variables nb nf ny nw : nat.
Notation O := (MCOps F).
Variables (Fm : 'M[F]_ny) (Gm : 'M[F]_(ny, nf + nb)) (Hc : 'cV[F]_ny) (Jm : 'M[F]_(ny, nw)) (Ua : 'M[F]_nb).
Let ms := @solve_measurement O nb nf ny nw Fm Gm Hc Jm Ua.
Hypothesis uF : Fm \in unitmx.
Hypothesis no_leads : lsubmx Gm = 0.

Theorem measurement_steady_point (f : 'cV[F]_nf) (xbar : 'cV[F]_nb) (ybar : 'cV[F]_ny) :
  Fm *m ybar + Gm *m col_mx f xbar + Hc = 0 -> ms_Z ms *m xbar + ms_D ms = ybar.
Proof.
move=> st.
have blk := @measurement_block F nb nf ny nw Fm Gm Hc Jm Ua uF no_leads f xbar 0.
move: blk; rewrite -/ms !mulmx0 !addr0 => blk.
have e : Fm *m (ms_Z ms *m xbar + ms_D ms) = Fm *m ybar.
  apply/eqP; rewrite -subr_eq0; apply/eqP.
  have -> : Fm *m (ms_Z ms *m xbar + ms_D ms) - Fm *m ybar
            = (Fm *m (ms_Z ms *m xbar + ms_D ms) + Gm *m col_mx f xbar + Hc) - (Fm *m ybar + Gm *m col_mx f xbar + Hc).
    move: (Fm *m (ms_Z ms *m xbar + ms_D ms)) (Fm *m ybar) (Gm *m col_mx f xbar) => a b c; mx_abel.
  by rewrite blk st subr0.
by rewrite -[LHS](mulKmx uF) e mulKmx.
Qed.

Corollary measurement_level_is_steady_plus_deviation (f : 'cV[F]_nf) (xbar d : 'cV[F]_nb) (ybar : 'cV[F]_ny) (w : 'cV[F]_nw) :
  Fm *m ybar + Gm *m col_mx f xbar + Hc = 0 ->
  ms_Z ms *m (xbar + d) + ms_H ms *m w + ms_D ms = ybar + (ms_Z ms *m d + ms_H ms *m w).
Proof.
move=> st; rewrite -(measurement_steady_point st) mulmxDr.
move: (ms_Z ms *m xbar) (ms_Z ms *m d) (ms_H ms *m w) (ms_D ms) => a b c e; mx_abel.
Qed.

End MeasurementLevel.
