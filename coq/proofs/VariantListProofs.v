(* C01  The list of parameter variants never holds one Variant object twice, whatever the history of alter_num_variants /
   assign calls; therefore a per-variant assignment gives every variant ITS OWN value (and the steady state and the
   first-order solution computed per variant belong to that variant's parameters).  Induction over the history; the
   list-filling statement is the one regenerated from has_variants.py (gen/VariantListGen.v). *)
From Coq Require Import List ZArith Bool Arith Lia.
From Verif Require Import lib.VarStmt gen.VariantListGen model.VariantList.
Import ListNotations.

(* statements that evaluate a COPYING element expression once per new variant *)
Definition alias_free (s : vstmt) : bool :=
  match s with SForAppend ECopyLast => true | _ => false end.

Definition wf (st : vstate) : Prop :=
  NoDup (vars st) /\ Forall (fun l => l < next st) (vars st) /\ vars st <> [].

(* ------------------------------------------------------------------ lists *)
Lemma NoDup_snoc (l : list nat) x : NoDup l -> ~ In x l -> NoDup (l ++ [x]).
Proof.
induction l as [|a l IH]; simpl; intros nd ni.
- constructor; [intros [] | constructor].
- inversion nd as [|? ? na nd']; subst. constructor.
  + rewrite in_app_iff; simpl. intros [h | [h | []]]; [tauto | subst; tauto].
  + apply IH; tauto.
Qed.

Lemma In_firstn (l : list nat) : forall n x, In x (firstn n l) -> In x l.
Proof.
induction l as [|a l IH]; intros [|n] x; simpl; try tauto.
intros [h | h]; [left; assumption | right; eapply IH; eassumption].
Qed.

Lemma NoDup_firstn (l : list nat) : forall n, NoDup l -> NoDup (firstn n l).
Proof.
induction l as [|a l IH]; intros [|n] nd; simpl; try constructor.
- inversion nd; subst. intro h; apply In_firstn in h; tauto.
- inversion nd; subst. apply IH; assumption.
Qed.

(* ------------------------------------------------------------------ expansion *)
Lemma append_one_copy_wf st : wf st -> wf (append_one ECopyLast st).
Proof.
intros (nd & lt & ne). unfold append_one; cbn. repeat split; cbn.
- apply NoDup_snoc; [assumption|]. intro h. rewrite Forall_forall in lt. apply lt in h. lia.
- apply Forall_forall. intros x h. apply in_app_or in h. rewrite Forall_forall in lt.
  destruct h as [h | [h | []]]; [apply lt in h; lia | subst; lia].
- destruct (vars st); simpl; discriminate.
Qed.

Lemma iter_append_wf k : forall st, wf st -> wf (iter_append k ECopyLast st).
Proof. induction k as [|k IH]; simpl; intros st h; [assumption | apply IH, append_one_copy_wf, h]. Qed.

Lemma exec_expand_wf s n st : alias_free s = true -> wf st -> wf (exec_expand s n st).
Proof. destruct s as [[|]|[|]]; simpl; try discriminate. intros _ h. apply iter_append_wf, h. Qed.

Lemma exec_shrink_wf s n st : n <> 0 -> wf st -> wf (exec_shrink s n st).
Proof.
intros n0 (nd & lt & ne). destruct s. unfold exec_shrink; repeat split; cbn.
- apply NoDup_firstn, nd.
- apply Forall_forall. intros x h. apply In_firstn in h. rewrite Forall_forall in lt. apply lt, h.
- destruct (vars st); [tauto|]. destruct n; [tauto | simpl; discriminate].
Qed.

Lemma alter_wf n st : alias_free expand_stmt = true -> wf st -> wf (alter n st).
Proof.
intros af h. unfold alter.
destruct (Nat.eqb_spec n 0); [assumption|].
destruct (Nat.ltb n (length (vars st))); [apply exec_shrink_wf; assumption|].
destruct (Nat.ltb (length (vars st)) n); [apply exec_expand_wf; assumption | assumption].
Qed.

(* ------------------------------------------------------------------ assignment *)
Section Assign.
Variables (name : nat) (vals : list Z).

Lemma write_frame l v st : vars (write l name v st) = vars st /\ next (write l name v st) = next st.
Proof. split; reflexivity. Qed.

Lemma assign_from_frame : forall ls i st,
  vars (assign_from i ls name vals st) = vars st /\ next (assign_from i ls name vals st) = next st.
Proof.
induction ls as [|l ls IH]; simpl; intros i st; [split; reflexivity|].
destruct (IH (S i) (match value_for vals i with Some v => write l name v st | None => st end)) as [e1 e2].
rewrite e1, e2. destruct (value_for vals i); split; reflexivity.
Qed.

Lemma assign_from_notin : forall ls i st l, ~ In l ls -> heap (assign_from i ls name vals st) l = heap st l.
Proof.
induction ls as [|a ls IH]; simpl; intros i st l ni; [reflexivity|].
rewrite IH by tauto. destruct (value_for vals i); [|reflexivity].
cbn. destruct (Nat.eqb_spec l a); [subst; tauto | reflexivity].
Qed.

Lemma assign_from_hit : forall ls i st j v, NoDup ls -> j < length ls -> value_for vals (i + j) = Some v ->
  heap (assign_from i ls name vals st) (nth j ls 0) name = v.
Proof.
induction ls as [|a ls IH]; simpl; intros i st j v nd lt hv; [lia|].
inversion nd as [|? ? na nd']; subst. destruct j as [|j].
- rewrite assign_from_notin by assumption. rewrite Nat.add_0_r in hv. rewrite hv. cbn.
  rewrite !Nat.eqb_refl. reflexivity.
- apply IH; [assumption | lia |]. replace (S i + j) with (i + S j) by lia. assumption.
Qed.

Lemma assign_from_other_name : forall ls i st l nm, nm <> name ->
  heap (assign_from i ls name vals st) l nm = heap st l nm.
Proof.
induction ls as [|a ls IH]; simpl; intros i st l nm ne; [reflexivity|].
rewrite IH by assumption. destruct (value_for vals i); [|reflexivity].
cbn. destruct (Nat.eqb_spec l a); [subst|reflexivity].
destruct (Nat.eqb_spec nm name); [tauto | reflexivity].
Qed.

Lemma assign_wf st : wf st -> wf (assign name vals st).
Proof.
unfold wf, assign. destruct (assign_from_frame (vars st) 0 st) as [e1 e2]. rewrite e1, e2. tauto.
Qed.

(* every variant reads back ITS value of a per-variant assignment *)
Theorem assign_reads_own st i v : wf st -> i < length (vars st) -> value_for vals i = Some v ->
  read (assign name vals st) i name = v.
Proof.
intros (nd & _ & _) lt hv. unfold read, assign.
destruct (assign_from_frame (vars st) 0 st) as [e1 _]. rewrite e1.
apply assign_from_hit; assumption.
Qed.

Theorem assign_keeps_other_names st i nm : nm <> name -> read (assign name vals st) i nm = read st i nm.
Proof.
intros ne. unfold read, assign.
destruct (assign_from_frame (vars st) 0 st) as [e1 _]. rewrite e1.
apply assign_from_other_name, ne.
Qed.

End Assign.

Lemma value_for_exact vals i : i < length vals -> value_for vals i = Some (nth i vals 0%Z).
Proof.
destruct vals as [|a r]; simpl; intros lt; [lia|].
f_equal. replace (Nat.min i (length r - 0)) with i by lia. reflexivity.
Qed.

(* ------------------------------------------------------------------ histories *)
Lemma step_wf st o : alias_free expand_stmt = true -> wf st -> wf (step st o).
Proof. intros af h. destruct o; simpl; [apply alter_wf | apply assign_wf]; assumption. Qed.

Lemma run_wf ops : forall st, alias_free expand_stmt = true -> wf st -> wf (run ops st).
Proof.
unfold run. induction ops as [|o ops IH]; simpl; intros st af h; [assumption|].
apply IH; [assumption | apply step_wf; assumption].
Qed.

Lemma init_wf : wf init.
Proof.
unfold wf, init; cbn. repeat split.
- constructor; [intros [] | constructor].
- constructor; [lia | constructor].
- discriminate.
Qed.

(* the statement found in the CURRENT source copies once per new variant *)
Lemma expand_stmt_alias_free : alias_free expand_stmt = true.
Proof. reflexivity. Qed.

Theorem variants_never_alias (ops : list vop) : NoDup (vars (run ops init)).
Proof. apply (run_wf ops init expand_stmt_alias_free init_wf). Qed.

Theorem variants_nonempty (ops : list vop) : vars (run ops init) <> [].
Proof. apply (run_wf ops init expand_stmt_alias_free init_wf). Qed.

(* after ANY history, a per-variant assignment  assign(name=[v0, v1, ...])  leaves variant i with v_i, for every i, and
   does not touch any other name of any variant *)
Theorem history_then_assign (ops : list vop) (name : nat) (vals : list Z) (i : nat) :
  let st := run ops init in
  i < length (vars st) -> i < length vals ->
  read (assign name vals st) i name = nth i vals 0%Z /\
  (forall nm j, nm <> name -> read (assign name vals st) j nm = read st j nm).
Proof.
intros st lt lv. split.
- apply assign_reads_own; [apply (run_wf ops init expand_stmt_alias_free init_wf) | assumption | apply value_for_exact, lv].
- intros nm j ne. apply assign_keeps_other_names, ne.
Qed.

(* ------------------------------------------------------------------ the guard cannot be dropped / non-vacuity *)
(* `self._variants += [self._variants[-1].copy()] * count` puts ONE object into the list count times ... *)
Theorem extend_repeat_aliases : ~ NoDup (vars (exec_expand (SExtendRepeat ECopyLast) 3 init)).
Proof.
cbn. intro h. inversion h as [|? ? _ h2]; subst. inversion h2 as [|? ? ni _]; subst. apply ni. left. reflexivity.
Qed.

(* ... and the value assigned to the last variant then shows up in the middle one *)
Example extend_repeat_last_wins :
  read (assign 0 [5; 6; 7]%Z (exec_expand (SExtendRepeat ECopyLast) 3 init)) 1 0 = 7%Z.
Proof. reflexivity. Qed.

Example history_nonvacuous :
  let st := run [OAssign 0 [4%Z]; OAlter 4; OAssign 0 [5; 6; 7; 8]%Z; OAlter 3; OAlter 5; OAssign 1 [1; 2]%Z] init in
  (length (vars st) = 5 /\ map (fun i => read st i 0) [0; 1; 2; 3; 4] = [5; 6; 7; 7; 7]%Z
   /\ map (fun i => read st i 1) [0; 1; 2; 3; 4] = [1; 2; 2; 2; 2]%Z).
Proof. cbn. repeat split. Qed.
