(* C19, round 6: merge with the strategies error / critical (and silent / warning) over ANY list of databoxes:
   raises iff some key occurs twice among the keys of the target and of the merged databoxes; the result when it does
   not raise; the state of the target when it does (new keys are added up to the end (error) or up to the first
   duplicate (critical); no existing item is ever changed). *)
From Coq Require Import String Ascii ZArith List Bool Lia.
From Verif Require Import lib.Arith model.Series model.SeriesOps model.Databox model.Merge6 proofs.DataboxProofs.
Import ListNotations.

Section Merge6P.
Variable A : Arith.
Notation databox := (databox A).
Notation item := (item A).

Lemma dset_fresh (d : databox) k v : dget A d k = None -> dset A d k v = d ++ [(k, v)].
Proof.
  induction d as [|[k0 v0] r IH]; simpl; [reflexivity|].
  destruct (String.eqb k0 k); [discriminate|]. intros H. now rewrite IH.
Qed.

Lemma names_app (a b : databox) : names A (a ++ b) = names A a ++ names A b.
Proof. unfold names. apply map_app. Qed.

Lemma names_concat (others : list databox) : flat_map (names A) others = map fst (concat others).
Proof. unfold names. rewrite flat_map_concat_map, concat_map. reflexivity. Qed.

(* the loop of d_merge for a reporting strategy is [report_run false] *)
Lemma report_fold r kvs : forall d dup,
  fold_left (merge_step A (MReport r)) kvs (Ok (d, dup))
  = Ok (fst (report_run A false d kvs), dup || snd (report_run A false d kvs)).
Proof.
  induction kvs as [|kv tl IH]; intros d dup; cbn [fold_left report_run].
  - cbn [fst snd]. now rewrite orb_false_r.
  - unfold merge_step at 2. destruct (dget A d (fst kv)).
    + rewrite IH. cbn [fst snd]. now rewrite orb_true_r.
    + rewrite IH. reflexivity.
Qed.

Lemma report_dup_iff c kvs : forall d, ND A d ->
  (snd (report_run A c d kvs) = true <-> ~ NoDup (names A d ++ map fst kvs)).
Proof.
  induction kvs as [|kv tl IH]; intros d Hnd; cbn [report_run map].
  - rewrite app_nil_r. cbn [snd]. split; [discriminate|intros H; contradiction].
  - destruct (dget A d (fst kv)) eqn:E.
    + assert (Hin : In (fst kv) (names A d)) by (eapply dget_Some_In; eauto).
      assert (Hn : ~ NoDup (names A d ++ fst kv :: map fst tl)).
      { intros Hn. apply NoDup_remove_2 in Hn. apply Hn. apply in_or_app. now left. }
      destruct c; cbn [snd]; tauto.
    + rewrite IH by (apply ND_dset; assumption). rewrite names_dset. unfold dhas. rewrite E.
      rewrite <- app_assoc. reflexivity.
Qed.

Lemma report_nodup c kvs : forall d, NoDup (names A d ++ map fst kvs) -> report_run A c d kvs = (d ++ kvs, false).
Proof.
  induction kvs as [|kv tl IH]; intros d H; cbn [report_run].
  - now rewrite app_nil_r.
  - cbn [map] in H.
    assert (E : dget A d (fst kv) = None).
    { apply dget_None. intros Hi. apply NoDup_remove_2 in H. apply H. apply in_or_app. now left. }
    rewrite E. rewrite (dset_fresh _ _ _ E). rewrite IH.
    + rewrite <- app_assoc. destruct kv. reflexivity.
    + rewrite names_app. cbn [names map app]. now rewrite <- app_assoc.
Qed.

Definition all_keys (db : databox) (others : list databox) : list string := names A db ++ flat_map (names A) others.

(* error / critical: raises iff some key occurs twice; otherwise the target followed by all items of the merged
   databoxes, in their order *)
Theorem merge_error_spec (db : databox) others : ND A db ->
  (NoDup (all_keys db others) -> d_merge A db others (MReport true) = Ok (db ++ concat others)) /\
  (~ NoDup (all_keys db others) -> d_merge A db others (MReport true) = Err 2%nat).
Proof.
  intros Hnd. unfold all_keys, d_merge. rewrite names_concat, report_fold. cbn [orb]. split; intros H.
  - rewrite (report_nodup false _ _ H). reflexivity.
  - apply (report_dup_iff false) in H; [|assumption]. now rewrite H.
Qed.

Corollary merge_error_raises_iff (db : databox) others : ND A db ->
  (d_merge A db others (MReport true) = Err 2%nat <-> ~ NoDup (all_keys db others)).
Proof.
  intros Hnd. destruct (merge_error_spec db others Hnd) as [H1 H2]. split; [|exact H2].
  intros He Hn. rewrite (H1 Hn) in He. discriminate.
Qed.

(* d_merge (the value returned / the exception) in terms of the in-place run *)
Theorem merge_report_run (db : databox) others r :
  d_merge A db others (MReport r)
  = let '(d, dup) := merge_report_state A false db others in if r && dup then Err 2%nat else Ok d.
Proof.
  unfold d_merge, merge_report_state. rewrite report_fold. cbn [orb].
  destruct (report_run A false db (concat others)) as [d dup]. cbn [fst snd].
  destruct r; [destruct dup|]; reflexivity.
Qed.

(* the target after a merge with silent / warning / error, also when error raised: existing keys keep their items,
   a new key holds its FIRST occurrence in the merged databoxes *)
Lemma report_state_get kvs : forall (d : databox) k,
  dget A (fst (report_run A false d kvs)) k = match dget A d k with Some v => Some v | None => dget A kvs k end.
Proof.
  induction kvs as [|[k0 v0] tl IH]; intros d k; cbn [report_run fst snd].
  - cbn [dget]. destruct (dget A d k); reflexivity.
  - cbn [dget]. destruct (dget A d k0) eqn:E.
    + cbn [fst]. rewrite IH. destruct (dget A d k) eqn:Ek; [reflexivity|].
      destruct (String.eqb_spec k0 k) as [->|Hne]; [congruence|reflexivity].
    + rewrite IH, dget_dset. destruct (String.eqb_spec k0 k) as [->|Hne]; [now rewrite E|reflexivity].
Qed.

Theorem merge_error_state (db : databox) others k :
  dget A (fst (merge_report_state A false db others)) k
  = match dget A db k with Some v => Some v | None => dget A (concat others) k end.
Proof. apply report_state_get. Qed.

(* critical: the loop stops at the first duplicate key; the items before it have been added *)
Fixpoint fresh_prefix (seen : list string) (kvs : list (string * item)) : list (string * item) :=
  match kvs with
  | [] => []
  | kv :: r => if smem (fst kv) seen then [] else kv :: fresh_prefix (fst kv :: seen) r
  end.

Lemma report_critical_state kvs : forall (d : databox) seen, (forall x, In x seen <-> In x (names A d)) ->
  fst (report_run A true d kvs) = d ++ fresh_prefix seen kvs.
Proof.
  induction kvs as [|kv tl IH]; intros d seen H; cbn [report_run fresh_prefix].
  - cbn [fst]. now rewrite app_nil_r.
  - destruct (dget A d (fst kv)) eqn:E.
    + assert (Hs : smem (fst kv) seen = true) by (apply smem_In, H; eapply dget_Some_In; eauto).
      rewrite Hs. cbn [fst]. now rewrite app_nil_r.
    + assert (Hs : smem (fst kv) seen = false) by (apply smem_false; intros Hi; apply H in Hi; now apply dget_None in E).
      rewrite Hs. rewrite (dset_fresh _ _ _ E). rewrite (IH _ (fst kv :: seen)).
      * rewrite <- app_assoc. destruct kv. reflexivity.
      * intros x. rewrite names_app, in_app_iff. cbn [names map In fst]. rewrite H. tauto.
Qed.

Theorem merge_critical_state (db : databox) others :
  fst (merge_report_state A true db others) = db ++ fresh_prefix (names A db) (concat others).
Proof. apply report_critical_state. intros x. reflexivity. Qed.

Lemma dget_app_some (a b : databox) k v : dget A a k = Some v -> dget A (a ++ b) k = Some v.
Proof.
  induction a as [|[k0 v0] r IH]; cbn [dget app]; [discriminate|].
  destruct (String.eqb k0 k); [trivial|exact IH].
Qed.

(* whatever the reporting strategy and whether or not it raises: no item of the target is changed or removed *)
Theorem merge_report_keeps_existing c (db : databox) others k v :
  dget A db k = Some v -> dget A (fst (merge_report_state A c db others)) k = Some v.
Proof.
  intros H. destruct c.
  - rewrite merge_critical_state. now apply dget_app_some.
  - rewrite merge_error_state. now rewrite H.
Qed.

(* both strategies meet a duplicate (raise) in exactly the same cases *)
Theorem merge_report_dup_iff c (db : databox) others : ND A db ->
  (snd (merge_report_state A c db others) = true <-> ~ NoDup (all_keys db others)).
Proof. intros Hnd. unfold merge_report_state, all_keys. rewrite names_concat. now apply report_dup_iff. Qed.

End Merge6P.

(* non-vacuity *)
From Verif Require Import lib.ArithOptZ.
Module Merge6Examples.
Definition sc (z : Z) : Databox.item OZArith := INon (@EScal OZArith (Some z)).
Definition T : Databox.databox OZArith := [("a"%string, sc 1)].
Definition B : Databox.databox OZArith := [("x"%string, sc 2); ("a"%string, sc 3); ("y"%string, sc 4)].
Definition C : Databox.databox OZArith := [("y"%string, sc 5); ("z"%string, sc 6)].
Example error_state : merge_report_state OZArith false T [B; C]
  = ([("a"%string, sc 1); ("x"%string, sc 2); ("y"%string, sc 4); ("z"%string, sc 6)], true).
Proof. vm_compute. reflexivity. Qed.
Example critical_state : merge_report_state OZArith true T [B; C] = ([("a"%string, sc 1); ("x"%string, sc 2)], true).
Proof. vm_compute. reflexivity. Qed.
Example error_raises : d_merge OZArith T [B; C] (MReport true) = Err 2%nat.
Proof. vm_compute. reflexivity. Qed.
Example no_duplicate : NoDup (all_keys OZArith T [C]) /\ d_merge OZArith T [C] (MReport true) = Ok (T ++ C).
Proof. split; [repeat constructor; simpl; intuition discriminate|vm_compute; reflexivity]. Qed.
End Merge6Examples.
