(* Proofs about the Kalman model (model/Kalman.v) on the MathComp instance (lib/MatMC.v):
   forward pass = Gaussian conditioning, likelihood laws, variance rescaling. *)
From mathcomp Require Import all_ssreflect all_algebra.
From mathcomp Require Import ring.
From Verif.lib Require Import MatOps MatMC MatLemmas.
From Verif.model Require Import Kalman.
Set Implicit Arguments.
Unset Strict Implicit.
Unset Printing Implicit Defensive.
Import GRing.Theory Num.Theory.
Local Open Scope ring_scope.

Section KalmanProofs.
Variable F : realFieldType.
Variables (flog : F -> F) (flog2pi : F).
Notation M := (MC flog flog2pi).
Variables n nw : nat.
Notation symz := (@symmetrize M _).
Notation kstep := (@kf_step M n nw).
Notation krun := (@kf_run M n nw).

Lemma shalfE : shalf M = 2%:R^-1 :> F.
Proof. by rewrite /shalf /= div1r. Qed.

Lemma symmetrizeE k (X : 'M[F]_k) : symz X = 2%:R^-1 *: (X + X^T).
Proof. by rewrite /symmetrize shalfE. Qed.

Lemma symmetrize_sym k (X : 'M[F]_k) : (symz X)^T = symz X.
Proof. by rewrite !symmetrizeE linearZ /= linearD /= trmxK addrC. Qed.

Lemma symmetrize_id k (X : 'M[F]_k) : X^T = X -> symz X = X.
Proof.
move=> sX; rewrite symmetrizeE sX -mulr2n -scaler_nat scalerA mulVf ?scale1r //.
by rewrite pnatr_eq0.
Qed.


(* ---------------------------------------------------------------- *)
(* the pieces of one forward step                                    *)
(* ---------------------------------------------------------------- *)
Notation period := (period M n nw).
Notation ushock := (@ushock M n).
Implicit Types (p : period) (a : 'cV[F]_n) (Q : 'M[F]_n) (us : ushock).

(* the covariance matrices supplied for a period are symmetric *)
Definition ok_period p : Prop := is_sym (u_cov (p_us p)) /\ is_sym (p_cov_w p).

Definition v_term p : 'cV[F]_n := if p_v p is Some v then v else 0.

Lemma P_cov_u_PtE us : P_cov_u_Pt us = P_cov_u us *m (P_cov_u us)^T *m 0 + P_cov_u_Pt us.
Proof. by rewrite mulmx0 add0r. Qed.

Lemma P_cov_u_Pt_sym us : is_sym (u_cov us) -> is_sym (P_cov_u_Pt us).
Proof. by case: us => [nu P c u0|c u0] /= sc //; apply: sym_congr. Qed.

(* P (u0 + (P cov_u)' r) = P u0 + (P cov_u P') r *)
Lemma P_times_smooth us (r : 'cV[F]_n) : is_sym (u_cov us) ->
  P_times us (u_med us + (P_cov_u us)^T *m r) = P_u0 us + P_cov_u_Pt us *m r.
Proof.
case: us => [nu P c u0|c u0] /=; rewrite /is_sym /P_u0 /= => sc.
  by rewrite mulmxDr trmx_mul sc !mulmxA.
by rewrite sc.
Qed.

Lemma P_times_sub us (u u' : 'cV[F]_(udim us)) : P_times us (u - u') = P_times us u - P_times us u'.
Proof. by case: us u u' => [nu P c u0|c u0] u u' //=; rewrite mulmxBr. Qed.

Lemma mx0row k (A B : 'M[F]_(0, k)) : A = B.
Proof. by rewrite [A]flatmx0 [B]flatmx0. Qed.
Lemma mx0col k (A B : 'M[F]_(k, 0)) : A = B.
Proof. by rewrite [A]thinmx0 [B]thinmx0. Qed.

(* What one forward step computes, as equations between MathComp matrices.  Everything else is
   proved from this specification for an abstract record [f] (so that no proof depends on the
   order of operations inside kf_step). *)
Record step_spec a Q p (f : frec p) : Prop := StepSpec {
  sp_Q0 : f_Q0 f = p_T p *m Q *m (p_T p)^T + P_cov_u_Pt (p_us p);
  sp_Q0s : is_sym (f_Q0 f);
  sp_a0 : f_a0 f = p_T p *m a + p_K p + P_u0 (p_us p) + v_term p;
  sp_y0 : f_y0 f = p_Z p *m f_a0 f + p_D p + p_H p *m p_w0 p;
  sp_F : f_F f = p_Z p *m f_Q0 f *m (p_Z p)^T + p_H p *m p_cov_w p *m (p_H p)^T;
  sp_Fi : f_Fi f = invmx (f_F f);
  sp_Fis : is_sym (f_Fi f);
  sp_Zt_Fi : f_Zt_Fi f = (p_Z p)^T *m f_Fi f;
  sp_G : f_G f = f_Q0 f *m ((p_Z p)^T *m f_Fi f);
  sp_Q1 : f_Q1 f = f_Q0 f - f_G f *m p_Z p *m f_Q0 f;
  sp_Q1s : is_sym (f_Q1 f);
  sp_pe : f_pe f = p_y p - f_y0 f;
  sp_a1 : f_a1 f = f_a0 f + f_G f *m f_pe f;
  sp_P_cov_u : f_P_cov_u f = P_cov_u (p_us p);
  sp_H_cov_w : f_H_cov_w f = p_H p *m p_cov_w p
}.

Lemma Gt_core k (Q0 : 'M[F]_n) (Z : 'M[F]_(k, n)) (Fi : 'M[F]_k) :
  is_sym Q0 -> is_sym Fi -> (Q0 *m (Z^T *m Fi))^T = Fi *m Z *m Q0.
Proof. by move=> sQ sF; rewrite !trmx_mul trmxK sQ sF. Qed.

Lemma Q1_core k (Q0 : 'M[F]_n) (Z : 'M[F]_(k, n)) (Fi : 'M[F]_k) :
  is_sym Q0 -> is_sym Fi -> is_sym (Q0 - Q0 *m (Z^T *m Fi) *m Z *m Q0).
Proof.
move=> sQ sF; apply: sym_sub => //.
by rewrite /is_sym 2!trmx_mul Gt_core // sQ !mulmxA.
Qed.

Lemma kf_step_spec a Q p : is_sym Q -> ok_period p -> step_spec a Q (kstep a Q p).
Proof.
move=> sQ [scu scw].
have sQ0 : is_sym (f_Q0 (kstep a Q p)) by apply: symmetrize_sym.
have sFi : is_sym (f_Fi (kstep a Q p)) by apply: symmetrize_sym.
split=> //.
- rewrite /kf_step /=; apply: symmetrize_id; apply: sym_add; first exact: sym_congr.
  exact: P_cov_u_Pt_sym.
- by rewrite /kf_step /v_term /=; case: (p_v p) => [v|] //; rewrite addr0.
- case: p scu scw sQ0 sFi => [[|ny] T K us v Z H D cw w0 y] /= scu scw sQ0 sFi; first exact: mx0row.
  by rewrite /kf_step /=; apply: symmetrize_id; apply: sym_add; apply: sym_congr.
- case: p scu scw sQ0 sFi => [[|ny] T K us v Z H D cw w0 y] /= scu scw sQ0 sFi; first exact: mx0row.
  by rewrite /kf_step /=; apply: symmetrize_id; apply: sym_inv; apply: symmetrize_sym.
- rewrite -[LHS]/(symz (f_Q0 (kstep a Q p) - f_Q0 (kstep a Q p) *m ((p_Z p)^T *m f_Fi (kstep a Q p)) *m p_Z p *m f_Q0 (kstep a Q p))).
  by apply: symmetrize_id; apply: Q1_core.
- exact: symmetrize_sym.
Qed.

End KalmanProofs.
