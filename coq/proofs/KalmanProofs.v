(* Proofs about the Kalman model (model/Kalman.v) on the MathComp instance (lib/MatMC.v):
   forward pass = Gaussian conditioning, likelihood laws, variance rescaling. *)
From mathcomp Require Import all_ssreflect all_algebra.
From mathcomp Require Import ring.
From Verif.lib Require Import MatOps MatMC MatLemmas.
From Verif.model Require Import Kalman.
Set Implicit Arguments.
Unset Strict Implicit.
Unset Printing Implicit Defensive.
Import GRing.Theory Num.Theory.
Local Open Scope ring_scope.

Section KalmanProofs.
Variable F : realFieldType.
Variables (flog : F -> F) (flog2pi : F).
Notation M := (MC flog flog2pi).
Variables n nw : nat.
Notation symz := (@symmetrize M _).
Notation kstep := (@kf_step M n nw).
Notation krun := (@kf_run M n nw).

Lemma shalfE : shalf M = 2%:R^-1 :> F.
Proof. by rewrite /shalf /= div1r. Qed.

Lemma symmetrizeE k (X : 'M[F]_k) : symz X = 2%:R^-1 *: (X + X^T).
Proof. by rewrite /symmetrize shalfE. Qed.

Lemma symmetrize_sym k (X : 'M[F]_k) : (symz X)^T = symz X.
Proof. by rewrite !symmetrizeE linearZ /= linearD /= trmxK addrC. Qed.

Lemma symmetrize_id k (X : 'M[F]_k) : X^T = X -> symz X = X.
Proof.
move=> sX; rewrite symmetrizeE sX -mulr2n -scaler_nat scalerA mulVf ?scale1r //.
by rewrite pnatr_eq0.
Qed.


(* ---------------------------------------------------------------- *)
(* the pieces of one forward step                                    *)
(* ---------------------------------------------------------------- *)
Notation period := (period M n nw).
Notation ushock := (@ushock M n).
Implicit Types (p : period) (a : 'cV[F]_n) (Q : 'M[F]_n) (us : ushock).

(* the covariance matrices supplied for a period are symmetric *)
Definition ok_period p : Prop := is_sym (u_cov (p_us p)) /\ is_sym (p_cov_w p).

Definition v_term p : 'cV[F]_n := if p_v p is Some v then v else 0.

Lemma P_cov_u_PtE us : P_cov_u_Pt us = P_cov_u us *m (P_cov_u us)^T *m 0 + P_cov_u_Pt us.
Proof. by rewrite mulmx0 add0r. Qed.

Lemma P_cov_u_Pt_sym us : is_sym (u_cov us) -> is_sym (P_cov_u_Pt us).
Proof. by case: us => [nu P c u0|c u0] /= sc //; apply: sym_congr. Qed.

(* P (u0 + (P cov_u)' r) = P u0 + (P cov_u P') r *)
Lemma P_times_smooth us (r : 'cV[F]_n) : is_sym (u_cov us) ->
  P_times us (u_med us + (P_cov_u us)^T *m r) = P_u0 us + P_cov_u_Pt us *m r.
Proof.
case: us => [nu P c u0|c u0] /=; rewrite /is_sym /P_u0 /= => sc.
  by rewrite mulmxDr trmx_mul sc !mulmxA.
by rewrite sc.
Qed.

Lemma P_times_sub us (u u' : 'cV[F]_(udim us)) : P_times us (u - u') = P_times us u - P_times us u'.
Proof. by case: us u u' => [nu P c u0|c u0] u u' //=; rewrite mulmxBr. Qed.

Lemma mx0row k (A B : 'M[F]_(0, k)) : A = B.
Proof. by rewrite [A]flatmx0 [B]flatmx0. Qed.
Lemma mul_thin_flat m k (A : 'M[F]_(m, 0)) (B : 'M[F]_(0, k)) : A *m B = 0.
Proof. by rewrite [A]thinmx0 mul0mx. Qed.
Lemma mx0col k (A B : 'M[F]_(k, 0)) : A = B.
Proof. by rewrite [A]thinmx0 [B]thinmx0. Qed.

(* What one forward step computes, as equations between MathComp matrices.  Everything else is
   proved from this specification for an abstract record [f] (so that no proof depends on the
   order of operations inside kf_step). *)
Record step_spec a Q p (f : frec p) : Prop := StepSpec {
  sp_Q0 : f_Q0 f = p_T p *m Q *m (p_T p)^T + P_cov_u_Pt (p_us p);
  sp_Q0s : is_sym (f_Q0 f);
  sp_a0 : f_a0 f = p_T p *m a + p_K p + P_u0 (p_us p) + v_term p;
  sp_y0 : f_y0 f = p_Z p *m f_a0 f + p_D p + p_H p *m p_w0 p;
  sp_F : f_F f = p_Z p *m f_Q0 f *m (p_Z p)^T + p_H p *m p_cov_w p *m (p_H p)^T;
  sp_Fi : f_Fi f = invmx (f_F f);
  sp_Fis : is_sym (f_Fi f);
  sp_Zt_Fi : f_Zt_Fi f = (p_Z p)^T *m f_Fi f;
  sp_G : f_G f = f_Q0 f *m ((p_Z p)^T *m f_Fi f);
  sp_Q1 : f_Q1 f = f_Q0 f - f_G f *m p_Z p *m f_Q0 f;
  sp_Q1s : is_sym (f_Q1 f);
  sp_pe : f_pe f = p_y p - f_y0 f;
  sp_a1 : f_a1 f = f_a0 f + f_G f *m f_pe f;
  sp_P_cov_u : f_P_cov_u f = P_cov_u (p_us p);
  sp_H_cov_w : f_H_cov_w f = p_H p *m p_cov_w p
}.

Lemma Gt_core k (Q0 : 'M[F]_n) (Z : 'M[F]_(k, n)) (Fi : 'M[F]_k) :
  is_sym Q0 -> is_sym Fi -> (Q0 *m (Z^T *m Fi))^T = Fi *m Z *m Q0.
Proof. by move=> sQ sF; rewrite !trmx_mul trmxK sQ sF. Qed.

Lemma Q1_core k (Q0 : 'M[F]_n) (Z : 'M[F]_(k, n)) (Fi : 'M[F]_k) :
  is_sym Q0 -> is_sym Fi -> is_sym (Q0 - Q0 *m (Z^T *m Fi) *m Z *m Q0).
Proof.
move=> sQ sF; apply: sym_sub => //.
by rewrite /is_sym 2!trmx_mul Gt_core // sQ !mulmxA.
Qed.

Lemma kf_step_spec a Q p : is_sym Q -> ok_period p -> step_spec a Q (kstep a Q p).
Proof.
move=> sQ [scu scw].
have sQ0 : is_sym (f_Q0 (kstep a Q p)) by apply: symmetrize_sym.
have sFi : is_sym (f_Fi (kstep a Q p)) by apply: symmetrize_sym.
split=> //.
- rewrite /kf_step /=; apply: symmetrize_id; apply: sym_add; first exact: sym_congr.
  exact: P_cov_u_Pt_sym.
- by rewrite /kf_step /v_term /=; case: (p_v p) => [v|] //; rewrite addr0.
- case: p scu scw sQ0 sFi => [[|ny] T K us v Z H D cw w0 y] /= scu scw sQ0 sFi; first exact: mx0row.
  by rewrite /kf_step /=; apply: symmetrize_id; apply: sym_add; apply: sym_congr.
- case: p scu scw sQ0 sFi => [[|ny] T K us v Z H D cw w0 y] /= scu scw sQ0 sFi; first exact: mx0row.
  by rewrite /kf_step /=; apply: symmetrize_id; apply: sym_inv; apply: symmetrize_sym.
- rewrite -[LHS]/(symz (f_Q0 (kstep a Q p) - f_Q0 (kstep a Q p) *m ((p_Z p)^T *m f_Fi (kstep a Q p)) *m p_Z p *m f_Q0 (kstep a Q p))).
  by apply: symmetrize_id; apply: Q1_core.
- exact: symmetrize_sym.
Qed.


(* ---------------------------------------------------------------- *)
(* whole runs                                                        *)
(* ---------------------------------------------------------------- *)
Notation fper := (fper M n nw).

Fixpoint all_ok (ps : seq period) : Prop :=
  if ps is p :: ps' then ok_period p /\ all_ok ps' else True.

(* every period with observations has an invertible prediction-error covariance *)
Fixpoint all_unit (fs : seq fper) : Prop :=
  if fs is x :: fs' then f_F (ff x) \in unitmx /\ all_unit fs' else True.

Lemma krun_cons a Q p ps :
  krun a Q (p :: ps) = mkFper p (kstep a Q p) :: krun (f_a1 (kstep a Q p)) (f_Q1 (kstep a Q p)) ps.
Proof. by []. Qed.

(* each period's record is the forward step from the previous period's updated moments *)
Fixpoint step_chain a Q (fs : seq fper) : Prop :=
  if fs is x :: fs' then step_spec a Q (ff x) /\ step_chain (f_a1 (ff x)) (f_Q1 (ff x)) fs' else True.

Lemma krun_chain a Q ps : is_sym Q -> all_ok ps -> step_chain a Q (krun a Q ps).
Proof.
elim: ps a Q => [|p ps IH] a Q sQ; first by [].
case=> okp okps; rewrite krun_cons /=; have sp := kf_step_spec a sQ okp.
by split=> //; apply: IH => //; exact: sp_Q1s sp.
Qed.

(* ---------------------------------------------------------------- *)
(* C03: one step = exact Gaussian conditioning                       *)
(* ---------------------------------------------------------------- *)

(* Prediction: the moments of alpha_t = T alpha_{t-1} + K + P u_t + v given alpha_{t-1} ~ (a, Q),
   u_t ~ (u0, cov_u) independent.  Joint law of (alpha_t, y_t), y_t = Z alpha_t + D + H w_t with
   w_t ~ (w0, cov_w) independent: means (a0, y0), covariances Q0, Q0 Z', F = Z Q0 Z' + H cov_w H'.
   Update: (a1, Q1) are the conditional mean and covariance of alpha_t given y_t. *)
Theorem step_is_conditioning a Q p (f : frec p) : step_spec a Q f ->
  [/\ f_a0 f = p_T p *m a + p_K p + P_u0 (p_us p) + v_term p,
      f_Q0 f = p_T p *m Q *m (p_T p)^T + P_cov_u_Pt (p_us p),
      f_y0 f = p_Z p *m f_a0 f + p_D p + p_H p *m p_w0 p /\
      f_F f = p_Z p *m f_Q0 f *m (p_Z p)^T + p_H p *m p_cov_w p *m (p_H p)^T,
      f_a1 f = cond_mean (f_a0 f) (f_y0 f) (f_Q0 f *m (p_Z p)^T) (f_F f) (p_y p) &
      f_Q1 f = cond_cov (f_Q0 f) (f_Q0 f *m (p_Z p)^T) (f_F f)].
Proof.
move=> sp; split; [exact: sp_a0 sp | exact: sp_Q0 sp | by split; [exact: sp_y0 sp | exact: sp_F sp] | |].
- by rewrite /cond_mean (sp_a1 sp) (sp_G sp) (sp_pe sp) -(sp_Fi sp) !mulmxA.
- by rewrite /cond_cov (sp_Q1 sp) (sp_G sp) -(sp_Fi sp) trmx_mul trmxK (sp_Q0s sp) !mulmxA.
Qed.

(* P cov_u P' is the covariance of the shock term P u (block form of the prediction covariance) *)
Lemma predict_cov_block nu (T : 'M[F]_n) (P : 'M[F]_(n, nu)) (Q : 'M[F]_n) (C : 'M[F]_nu) :
  row_mx T P *m block_mx Q 0 0 C *m (row_mx T P)^T = T *m Q *m T^T + P *m C *m P^T.
Proof. by rewrite mul_row_block !mulmx0 addr0 add0r tr_row_mx mul_row_col. Qed.

(* ---------------------------------------------------------------- *)
(* likelihood                                                         *)
(* ---------------------------------------------------------------- *)
Hypothesis flogM : forall x y : F, x != 0 -> y != 0 -> flog (x * y) = flog x + flog y.

Lemma flog1 : flog 1 = 0.
Proof.
have E := flogM (oner_neq0 F) (oner_neq0 F); rewrite mulr1 in E.
by apply: (addrI (flog 1)); rewrite addr0 -E.
Qed.

Lemma flogV x : x != 0 -> flog x^-1 = - flog x.
Proof.
move=> nz; have E := flogM nz (invr_neq0 nz); rewrite mulfV // flog1 in E.
by apply: (addrI (flog x)); rewrite -E subrr.
Qed.

(* the three pieces of a contribution, as field elements *)
Definition ld (x : fper) : F := log_det_F x.
Definition qf (x : fper) : F := pe_Fi_pe x.

Lemma foldl_addE (l : seq F) (z : F) : List.fold_left +%R l z = z + \sum_(y <- l) y.
Proof. by elim: l z => [|y l IH] z /=; rewrite ?big_nil ?addr0 // big_cons IH addrA. Qed.

Lemma sum_scE (l : seq F) : sum_sc M l = \sum_(y <- l) y.
Proof. by rewrite /sum_sc foldl_addE add0r. Qed.

Lemma sum_lgE (l : seq F) : sum_lg M l = \sum_(y <- l) y.
Proof. by rewrite /sum_lg foldl_addE add0r. Qed.

Lemma foldl_addnE (l : seq nat) (z : nat) : List.fold_left Nat.add l z = (z + \sum_(y <- l) y)%N.
Proof. by rewrite plusE; elim: l z => [|y l IH] z /=; rewrite ?big_nil ?addn0 // big_cons IH addnA. Qed.

Lemma sum_natE (l : seq nat) : sum_nat l = (\sum_(y <- l) y)%N.
Proof. by rewrite /sum_nat foldl_addnE add0n. Qed.

Lemma Lmap_map A B (g : A -> B) (l : seq A) : List.map g l = [seq g y | y <- l].
Proof. by elim: l => [|y l IH] //=; rewrite IH. Qed.

(* a period without observations contributes nothing and leaves the state as predicted *)
Theorem empty_period a Q p (f : frec p) : step_spec a Q f -> p_ny p = 0%N ->
  [/\ forall vs, contribution vs (mkFper p f) = 0, qf (mkFper p f) = 0, ld (mkFper p f) = 0,
      f_a1 f = f_a0 f & f_Q1 f = f_Q0 f].
Proof.
move=> sp; case: p f sp => [ny T K us v Z H D cw w0 y] f sp /= E; move: Z H D y f sp; rewrite E => Z H D y f sp.
split.
- by [].
- by rewrite /qf /pe_Fi_pe /= [f_pe f]flatmx0 mulmx0 mxE.
- by rewrite /ld /log_det_F /det_Fi /= det_mx00 flog1 mulr0.
- by rewrite (sp_a1 sp) /= [f_pe f]flatmx0 mulmx0 addr0.
- by rewrite (sp_Q1 sp) /= mul_thin_flat mul0mx subr0.
Qed.


(* a contribution in closed form (for a period without observations every term vanishes) *)
Lemma contributionE vs (x : fper) :
  contribution vs x
  = 2%:R^-1 * (ld x + (num_obs x)%:R * flog vs + qf x / vs + (num_obs x)%:R * flog2pi).
Proof.
case: x => p f; case: p f => [[|ny] T K us v Z H D cw w0 y] f; rewrite /contribution /num_obs /=.
  rewrite /ld /qf /log_det_F /pe_Fi_pe /det_Fi /= det_mx00 flog1 mulr0 [f_pe f]flatmx0 mulmx0 mxE.
  by rewrite !mul0r !addr0 mulr0.
by rewrite /ld /qf /log_det_F /pe_Fi_pe /det_Fi /= div1r.
Qed.

Lemma ld_empty (x : fper) : num_obs x = 0%N -> ld x = 0.
Proof.
case: x => p f; case: p f => [ny T K us v Z H D cw w0 y] f; rewrite /num_obs /= => E.
by move: Z H D y f; rewrite E => Z H D y f; rewrite /ld /log_det_F /det_Fi /= det_mx00 flog1 mulr0.
Qed.

Lemma qf_empty (x : fper) : num_obs x = 0%N -> qf x = 0.
Proof.
case: x => p f; case: p f => [ny T K us v Z H D cw w0 y] f; rewrite /num_obs /= => E.
by move: Z H D y f; rewrite E => Z H D y f; rewrite /qf /pe_Fi_pe /= [f_pe f]flatmx0 mulmx0 mxE.
Qed.

Lemma eqb0 k : Nat.eqb k 0 = (k == 0%N).
Proof. by case: k. Qed.

Definition N_of (fs : seq fper) : nat := (\sum_(x <- fs) num_obs x)%N.
Definition LD_of (fs : seq fper) : F := \sum_(x <- fs) ld x.
Definition QF_of (fs : seq fper) : F := \sum_(x <- fs) qf x.

Lemma likelihood_sums (b : bool) (fs : seq fper) :
  [/\ sum_nat (List.map num_obs fs) = N_of fs,
      sum_lg M (List.map log_det_F fs) = LD_of fs &
      sum_sc M (List.map pe_Fi_pe fs) = QF_of fs].
Proof. by rewrite sum_natE sum_lgE sum_scE !Lmap_map !big_map. Qed.

Lemma QF_empty (fs : seq fper) : N_of fs = 0%N -> QF_of fs = 0.
Proof.
rewrite /N_of /QF_of; elim: fs => [|x fs IH]; first by rewrite !big_nil.
rewrite !big_cons => /eqP; rewrite addn_eq0 => /andP [/eqP Ex /eqP Efs].
by rewrite (qf_empty Ex) IH // add0r.
Qed.

(* the total in closed form *)
Lemma nll_false (fs : seq fper) :
  l_var_scale (likelihood false fs) = 1 /\
  l_nll (likelihood false fs) = 2%:R^-1 * ((N_of fs)%:R * flog2pi + LD_of fs + QF_of fs).
Proof. by have [EN EL EQ] := likelihood_sums false fs; rewrite /likelihood EN EL EQ /= div1r. Qed.

Lemma nll_true (fs : seq fper) : N_of fs != 0%N ->
  let vs := QF_of fs / (N_of fs)%:R in
  l_var_scale (likelihood true fs) = vs /\
  l_nll (likelihood true fs)
    = 2%:R^-1 * ((N_of fs)%:R * flog2pi + (LD_of fs + (N_of fs)%:R * flog vs) + QF_of fs / vs).
Proof.
move=> Nnz vs; have [EN EL EQ] := likelihood_sums true fs.
by rewrite /likelihood EN EL EQ /= eqb0 (negbTE Nnz) /= div1r.
Qed.

Lemma nll_true0 (fs : seq fper) : N_of fs = 0%N ->
  l_var_scale (likelihood true fs) = 1 /\ l_nll (likelihood true fs) = 2%:R^-1 * LD_of fs.
Proof.
move=> N0; have [EN EL EQ] := likelihood_sums true fs.
by rewrite /likelihood EN EL EQ N0 /= div1r mul0r add0r addr0.
Qed.

Lemma sum_contributions vs (fs : seq fper) :
  sum_lg M (contributions vs fs)
  = 2%:R^-1 * (LD_of fs + (N_of fs)%:R * flog vs + QF_of fs / vs + (N_of fs)%:R * flog2pi).
Proof.
rewrite /contributions sum_lgE Lmap_map big_map.
rewrite (eq_bigr _ (fun x _ => contributionE vs x)) -mulr_sumr !big_split /= -!mulr_suml.
by rewrite /N_of /LD_of /QF_of natr_sum.
Qed.

(* C03: the per-period contributions sum to the total, with and without variance rescaling *)
Theorem contributions_sum (b : bool) (fs : seq fper) :
  sum_lg M (contributions (l_var_scale (likelihood b fs)) fs) = l_nll (likelihood b fs).
Proof.
case: b.
  case: (eqVneq (N_of fs) 0%N) => [N0|Nnz].
    have [-> ->] := nll_true0 N0; rewrite sum_contributions N0 flog1 !mul0r divr1 !addr0.
    by rewrite (QF_empty N0) addr0.
  by have [-> ->] := nll_true Nnz; rewrite sum_contributions; congr (_ * _); rewrite addrC addrA.
have [-> ->] := nll_false fs; rewrite sum_contributions flog1 mulr0 divr1 addr0.
by congr (_ * _); ring.
Qed.

(* the prediction-error decomposition in closed form, and the concentrated likelihood *)
Theorem likelihood_closed_form (fs : seq fper) :
  l_nll (likelihood false fs) = 2%:R^-1 * ((N_of fs)%:R * flog2pi + LD_of fs + QF_of fs).
Proof. by have [] := nll_false fs. Qed.

(* C03: with rescale_variance the variance scale is sum pe'F^-1 pe / sum n_t and the reported total is the
   likelihood concentrated with respect to a common variance factor *)
Theorem rescaled_likelihood (fs : seq fper) :
  N_of fs != 0%N -> QF_of fs != 0 ->
  let vs := QF_of fs / (N_of fs)%:R in
  l_var_scale (likelihood true fs) = vs /\
  l_nll (likelihood true fs)
    = 2%:R^-1 * ((N_of fs)%:R * flog2pi + (LD_of fs + (N_of fs)%:R * flog vs) + (N_of fs)%:R).
Proof.
move=> Nnz Qnz vs; have [-> ->] := nll_true Nnz; split=> //.
have Nr : (N_of fs)%:R != 0 :> F by rewrite pnatr_eq0.
by rewrite -/vs /vs invf_div mulrCA mulfV // mulr1.
Qed.

(* a data set without any observation: nothing to rescale *)
Theorem rescaled_likelihood_no_obs (fs : seq fper) :
  N_of fs = 0%N ->
  l_var_scale (likelihood true fs) = 1 /\ l_nll (likelihood true fs) = 2%:R^-1 * LD_of fs.
Proof. exact: nll_true0. Qed.

(* C03: each contribution is the negative log density of the period's observations under the
   predictive Gaussian N(y0_t, F_t) *)
Theorem contribution_is_nll a Q p (f : frec p) : step_spec a Q f -> f_F f \in unitmx ->
  @contribution M n nw 1 (mkFper p f) = nll_gauss flog flog2pi (f_y0 f) (f_F f) (p_y p).
Proof.
move=> sp uF; rewrite contributionE flog1 mulr0 addr0 divr1.
rewrite /nll_gauss /ld /qf /log_det_F /pe_Fi_pe /det_Fi /num_obs /=.
rewrite (sp_Fi sp) det_inv flogV; last by move: uF; rewrite unitmxE unitfE.
rewrite mulN1r opprK /maha -(sp_pe sp).
by rewrite [X in _ * X]addrC addrA.
Qed.


(* C03, for whole runs: in every period the update is the Gaussian conditioning of the prediction on
   that period's observations, and the total likelihood is the sum over the periods of the negative
   log densities of the observations under their predictive distributions N(y0_t, F_t)
   (prediction-error decomposition) *)
Fixpoint cond_chain a Q (fs : seq fper) : Prop :=
  if fs is x :: fs' then
    let p := fp x in let f := ff x in
    [/\ f_a0 f = p_T p *m a + p_K p + P_u0 (p_us p) + v_term p,
        f_Q0 f = p_T p *m Q *m (p_T p)^T + P_cov_u_Pt (p_us p),
        f_a1 f = cond_mean (f_a0 f) (p_Z p *m f_a0 f + p_D p + p_H p *m p_w0 p) (f_Q0 f *m (p_Z p)^T)
                           (p_Z p *m f_Q0 f *m (p_Z p)^T + p_H p *m p_cov_w p *m (p_H p)^T) (p_y p) &
        f_Q1 f = cond_cov (f_Q0 f) (f_Q0 f *m (p_Z p)^T)
                          (p_Z p *m f_Q0 f *m (p_Z p)^T + p_H p *m p_cov_w p *m (p_H p)^T)]
    /\ cond_chain (f_a1 f) (f_Q1 f) fs'
  else True.

Theorem run_is_sequential_conditioning a Q ps : is_sym Q -> all_ok ps -> cond_chain a Q (krun a Q ps).
Proof.
move=> sQ ok; move: (krun_chain a sQ ok); move: (krun a Q ps) => fs {sQ ok}.
elim: fs a Q => [|x fs IH] a Q //= [sp ch].
split; last exact: IH.
have [E0 EQ [Ey EF] E1 EQ1] := step_is_conditioning sp.
by split=> //; rewrite -?Ey -?EF.
Qed.

Theorem prediction_error_decomposition a Q ps :
  is_sym Q -> all_ok ps -> all_unit (krun a Q ps) ->
  l_nll (likelihood false (krun a Q ps))
  = \sum_(x <- krun a Q ps) nll_gauss flog flog2pi (f_y0 (ff x)) (f_F (ff x)) (p_y (fp x)).
Proof.
move=> sQ ok uF; rewrite -(contributions_sum false) (proj1 (nll_false _)).
rewrite /contributions sum_lgE Lmap_map big_map.
move: uF (krun_chain a sQ ok); move: (krun a Q ps) => fs {sQ ok}.
elim: fs a Q => [|x fs IH] a Q /=; first by rewrite !big_nil.
case=> uFx uFs [sp ch]; rewrite !big_cons (IH _ _ uFs ch); congr (_ + _).
by case: x sp uFx {ch uFs} => p f /= sp uFx; apply: contribution_is_nll sp uFx.
Qed.


(* ---------------------------------------------------------------- *)
(* C03: variance rescaling = the same model with every covariance     *)
(* multiplied by the scale                                            *)
(* ---------------------------------------------------------------- *)
Definition scale_us (c : F) us : ushock :=
  match us with
  | UP nu P cv u0 => @UP M n nu P (c *: cv) u0
  | UNone cv u0 => @UNone M n (c *: cv) u0
  end.
Definition scale_period (c : F) p : period :=
  @mkPeriod M n nw (p_ny p) (p_T p) (p_K p) (scale_us c (p_us p)) (p_v p) (p_Z p) (p_H p) (p_D p)
            (c *: p_cov_w p) (p_w0 p) (p_y p).

Lemma scale_P_u0 c us : P_u0 (scale_us c us) = P_u0 us.
Proof. by case: us. Qed.
Lemma scale_P_cov_u_Pt c us : P_cov_u_Pt (scale_us c us) = c *: P_cov_u_Pt us.
Proof. by case: us => [nu P cv u0|cv u0] //=; rewrite -scalemxAr -scalemxAl. Qed.
Lemma scale_ok c p : ok_period p -> ok_period (scale_period c p).
Proof.
case: p => ny T K us v Z H D cw w0 y [/= su sw]; split; rewrite /is_sym /=; last by rewrite linearZ /= sw.
by case: us su => [nu P cv u0|cv u0] /=; rewrite /is_sym linearZ /= => ->.
Qed.

(* what the two runs share / how they differ, period by period *)
Record scaled_fields (c : F) p (f : frec p) (f' : frec (scale_period c p)) : Prop := ScaledFields {
  sc_a0 : f_a0 f' = f_a0 f;
  sc_a1 : f_a1 f' = f_a1 f;
  sc_pe : f_pe f' = f_pe f;
  sc_y0 : f_y0 f' = f_y0 f;
  sc_Q0 : f_Q0 f' = c *: f_Q0 f;
  sc_Q1 : f_Q1 f' = c *: f_Q1 f;
  sc_F : f_F f' = c *: f_F f;
  sc_Fi : f_Fi f' = c^-1 *: f_Fi f;
  sc_G : f_G f' = f_G f
}.

Lemma scale_step c a Q p (f : frec p) (f' : frec (scale_period c p)) :
  c != 0 -> step_spec a Q f -> step_spec a (c *: Q) f' -> f_F f \in unitmx -> @scaled_fields c p f f'.
Proof.
move=> c0 sp sp' uF.
have E0 : f_a0 f' = f_a0 f by rewrite (sp_a0 sp') (sp_a0 sp) /= scale_P_u0.
have EQ0 : f_Q0 f' = c *: f_Q0 f.
  by rewrite (sp_Q0 sp') (sp_Q0 sp) /= scale_P_cov_u_Pt -scalemxAr -scalemxAl scalerDr.
have Ey : f_y0 f' = f_y0 f by rewrite (sp_y0 sp') (sp_y0 sp) /= E0.
have EF : f_F f' = c *: f_F f.
  by rewrite (sp_F sp') (sp_F sp) /= EQ0 -!scalemxAr -!scalemxAl scalerDr.
have EFi : f_Fi f' = c^-1 *: f_Fi f.
  rewrite (sp_Fi sp') (sp_Fi sp) EF invmxZ // unitmxE detZ unitrM unitrX ?unitfE //=.
  by move: uF; rewrite unitmxE unitfE.
have EG : f_G f' = f_G f.
  rewrite (sp_G sp') (sp_G sp) /= EQ0 EFi -!scalemxAr -!scalemxAl scalerA mulVf // scale1r.
  by [].
have Epe : f_pe f' = f_pe f by rewrite (sp_pe sp') (sp_pe sp) /= Ey.
split=> //.
- by rewrite (sp_a1 sp') (sp_a1 sp) E0 EG Epe.
- by rewrite (sp_Q1 sp') (sp_Q1 sp) /= EQ0 EG -scalemxAr scalerBr.
Qed.

Lemma flogX x k : x != 0 -> flog (x ^+ k) = k%:R * flog x.
Proof.
move=> x0; elim: k => [|k IH]; first by rewrite expr0 flog1 mul0r.
by rewrite exprS flogM ?expf_neq0 // IH -add1n natrD mulrDl mul1r.
Qed.

(* the likelihood pieces of a period of the rescaled model *)
Lemma scaled_pieces c a Q p (f : frec p) (f' : frec (scale_period c p)) :
  c != 0 -> step_spec a Q f -> f_F f \in unitmx -> @scaled_fields c p f f' ->
  [/\ num_obs (mkFper _ f') = num_obs (mkFper p f),
      qf (mkFper _ f') = qf (mkFper p f) / c &
      ld (mkFper _ f') = ld (mkFper p f) + (p_ny p)%:R * flog c].
Proof.
move=> c0 sp uF sf; split=> //.
- by rewrite /qf /pe_Fi_pe /= (sc_pe sf) (sc_Fi sf) -scalemxAr -scalemxAl mxE mulrC.
- have dFi : \det (f_Fi f) != 0.
    by rewrite (sp_Fi sp) det_inv invr_eq0; move: uF; rewrite unitmxE unitfE.
  rewrite /ld /log_det_F /det_Fi /= (sc_Fi sf) detZ flogM ?expf_neq0 ?invr_eq0 //.
  rewrite flogX ?invr_eq0 // flogV //.
  by rewrite mulrDr mulrN !mulN1r opprK addrC.
Qed.

Definition QFs (fs : seq fper) := QF_of fs.

(* whole runs of the original and of the rescaled model, related period by period *)
Fixpoint scaled_runs (c : F) (fs fs' : seq fper) : Prop :=
  match fs, fs' with
  | [::], [::] => True
  | x :: r, x' :: r' =>
      (exists (f' : frec (scale_period c (fp x))),
          x' = mkFper (scale_period c (fp x)) f' /\ @scaled_fields c (fp x) (ff x) f')
      /\ scaled_runs c r r'
  | _, _ => False
  end.

Lemma krun_scaled c a Q ps : c != 0 -> is_sym Q -> all_ok ps -> all_unit (krun a Q ps) ->
  scaled_runs c (krun a Q ps) (krun a (c *: Q) [seq scale_period c p | p <- ps]).
Proof.
move=> c0; elim: ps a Q => [|p ps IH] a Q sQ; first by [].
case=> okp okps; rewrite map_cons !krun_cons; case=> uF uFs.
have sp := kf_step_spec a sQ okp.
have scQ : is_sym (c *: Q) by rewrite /is_sym linearZ /= sQ.
have sp' := kf_step_spec a scQ (scale_ok c okp).
have sf := scale_step c0 sp sp' uF.
split; first by exists (kstep a (c *: Q) (scale_period c p)).
by rewrite (sc_a1 sf) (sc_Q1 sf); apply: IH => //; exact: sp_Q1s sp.
Qed.

Lemma scaled_sums c (fs fs' : seq fper) a Q :
  c != 0 -> step_chain a Q fs -> all_unit fs -> scaled_runs c fs fs' ->
  [/\ N_of fs' = N_of fs, QF_of fs' = QF_of fs / c & LD_of fs' = LD_of fs + (N_of fs)%:R * flog c].
Proof.
move=> c0; rewrite /N_of /QF_of /LD_of.
elim: fs fs' a Q => [|x fs IH] [|x' fs'] a Q //=; first by rewrite !big_nil mul0r mul0r addr0.
case=> sp ch [uF uFs] [[f' [-> sf]] sr].
have [E1 E2 E3] := IH _ _ _ ch uFs sr.
have [P1 P2 P3] := scaled_pieces c0 sp uF sf.
rewrite !big_cons E1 E2 E3 P1 P2 P3 -!/(num_obs _) natrD.
split=> //; first by rewrite mulrDl.
have -> : {| fp := fp x; ff := ff x |} = x by case: (x).
by rewrite /num_obs mulrDl addrACA.
Qed.

(* C03: the likelihood reported with rescale_variance=True is the plain likelihood of the model whose
   covariances (initial MSE, transition and measurement shock covariances) are all multiplied by
   var_scale = sum pe'F^-1 pe / sum n_t; the means, gains and prediction errors of the two runs
   coincide and every MSE of the rescaled run is var_scale times the original one (scaled_runs) *)
Theorem rescale_is_scaled_model a Q ps :
  is_sym Q -> all_ok ps -> all_unit (krun a Q ps) ->
  let fs := krun a Q ps in
  N_of fs != 0%N -> QF_of fs != 0 ->
  let vs := l_var_scale (likelihood true fs) in
  let fs' := krun a (vs *: Q) [seq scale_period vs p | p <- ps] in
  scaled_runs vs fs fs' /\ l_nll (likelihood true fs) = l_nll (likelihood false fs').
Proof.
move=> sQ ok uF fs Nnz Qnz vs fs'.
have [Evs Enll] := nll_true Nnz.
have vs0 : vs != 0.
  by rewrite /vs Evs mulf_neq0 // invr_eq0 pnatr_eq0.
have sr : scaled_runs vs fs fs' by apply: krun_scaled.
split=> //.
have [E1 E2 E3] := scaled_sums vs0 (krun_chain a sQ ok) uF sr.
rewrite (proj2 (nll_false fs')) E1 E2 E3 Enll -Evs -/vs.
by congr (_ * _); ring.
Qed.

End KalmanProofs.
