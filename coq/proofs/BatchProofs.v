(* C03, stretch: the filter equals batch conditioning.
   The joint Gaussian law of (alpha_t, Y_t), Y_t the stacked observations of periods 1..t, is built by
   the two textbook rules of linear-Gaussian models (push-forward through the transition equation,
   augmentation by a new linear observation); by induction over the periods, the filter's updated
   moments are the conditional moments of alpha_t given Y_t under that joint law, and the
   prediction-error likelihood is the negative log density of Y_t. *)
From mathcomp Require Import all_ssreflect all_algebra.
From mathcomp Require Import ring.
From Verif.lib Require Import MatOps MatMC MatLemmas.
From Verif.model Require Import Kalman.
From Verif.proofs Require Import KalmanProofs.
Set Implicit Arguments.
Unset Strict Implicit.
Unset Printing Implicit Defensive.
Import GRing.Theory Num.Theory.
Local Open Scope ring_scope.

Section Batch.
Variable F : realFieldType.
Variables (flog : F -> F) (flog2pi : F).
Notation M := (MC flog flog2pi).
Variables n nw : nat.
Notation period := (period M n nw).
Notation fper := (fper M n nw).
Notation kstep := (@kf_step M n nw).
Notation krun := (@kf_run M n nw).
Notation step_spec := (@step_spec F flog flog2pi n nw).
Notation ok_period := (@ok_period F flog flog2pi n nw).
Notation all_ok := (@all_ok F flog flog2pi n nw).
Notation all_unit := (@all_unit F flog flog2pi n nw).
Notation v_term := (@v_term F flog flog2pi n nw).
Hypothesis flogM : forall x y : F, x != 0 -> y != 0 -> flog (x * y) = flog x + flog y.

(* joint moments of (alpha, Y): means, Cov(alpha), Cov(alpha, Y), Cov(Y), and the observed value of Y *)
Record joint (N : nat) : Type := Joint {
  j_ma : 'cV[F]_n; j_mY : 'cV[F]_N;
  j_Caa : 'M[F]_n; j_CaY : 'M[F]_(n, N); j_CYY : 'M[F]_N;
  j_Y : 'cV[F]_N
}.

(* alpha_t = T alpha_{t-1} + K + P u_t + v, u_t independent of (alpha_{t-1}, Y) *)
Definition jpredict (p : period) N (j : joint N) : joint N :=
  Joint (p_T p *m j_ma j + p_K p + P_u0 (p_us p) + v_term p) (j_mY j)
        (p_T p *m j_Caa j *m (p_T p)^T + P_cov_u_Pt (p_us p)) (p_T p *m j_CaY j) (j_CYY j) (j_Y j).

(* y_t = Z alpha_t + D + H w_t appended to Y, w_t independent of (alpha_t, Y) *)
Definition jobserve (p : period) N (j : joint N) : joint (N + p_ny p) :=
  let CYy := (j_CaY j)^T *m (p_Z p)^T in
  Joint (j_ma j) (col_mx (j_mY j) (p_Z p *m j_ma j + p_D p + p_H p *m p_w0 p))
        (j_Caa j) (row_mx (j_CaY j) (j_Caa j *m (p_Z p)^T))
        (block_mx (j_CYY j) CYy CYy^T (p_Z p *m j_Caa j *m (p_Z p)^T + p_H p *m p_cov_w p *m (p_H p)^T))
        (col_mx (j_Y j) (p_y p)).

Definition jstep (p : period) N (j : joint N) : joint (N + p_ny p) := jobserve p (jpredict p j).

Fixpoint jrun N (j : joint N) (ps : seq period) : {N' : nat & joint N'} :=
  if ps is p :: ps' then jrun (jstep p j) ps' else existT _ N j.

(* before any observation *)
Definition j0 (a : 'cV[F]_n) (Q : 'M[F]_n) : joint 0 := Joint a 0 Q 0 0 0.

(* the filter state (a, Q) is the conditional law of alpha given Y = j_Y under the joint j *)
Definition filtered N (j : joint N) (a : 'cV[F]_n) (Q : 'M[F]_n) : Prop :=
  [/\ a = cond_mean (j_ma j) (j_mY j) (j_CaY j) (j_CYY j) (j_Y j),
      Q = cond_cov (j_Caa j) (j_CaY j) (j_CYY j),
      is_sym (j_Caa j), is_sym (j_CYY j) & j_CYY j \in unitmx].

Lemma filtered0 a Q : is_sym Q -> filtered (j0 a Q) a Q.
Proof.
move=> sQ; split=> //=.
- by rewrite /cond_mean mul_thin_flat ?mul0mx addr0.
- by rewrite /cond_cov mul_thin_flat ?mul0mx subr0.
- exact: sym0.
- by rewrite unitmxE det_mx00 unitr1.
Qed.

Lemma sym_block n1 n2 (A : 'M[F]_n1) (B : 'M[F]_(n1, n2)) (D : 'M[F]_n2) :
  is_sym A -> is_sym D -> is_sym (block_mx A B B^T D).
Proof. by rewrite /is_sym => sA sD; rewrite tr_block_mx trmxK sA sD. Qed.

Section Step.
Variables (N : nat) (j : joint N) (a : 'cV[F]_n) (Q : 'M[F]_n) (p : period) (f : frec p).
Hypothesis fj : filtered j a Q.
Hypothesis sp : step_spec a Q f.
Hypothesis okp : ok_period p.
Hypothesis uF : f_F f \in unitmx.

Let j' := jpredict p j.
Let Ci := invmx (j_CYY j).
Let e := j_Y j - j_mY j.

Lemma pred_mean : f_a0 f = cond_mean (j_ma j') (j_mY j') (j_CaY j') (j_CYY j') (j_Y j').
Proof.
have [Ea _ _ _ _] := fj; rewrite (sp_a0 sp) {1}Ea /cond_mean /=.
by mx_expand; mx_abel.
Qed.

Lemma pred_cov : f_Q0 f = cond_cov (j_Caa j') (j_CaY j') (j_CYY j').
Proof.
have [_ EQ _ _ _] := fj; rewrite (sp_Q0 sp) {1}EQ /cond_cov /= trmx_mul.
by mx_expand; mx_abel.
Qed.

Lemma pred_sym : is_sym (j_Caa j').
Proof.
have [_ _ sC _ _] := fj; apply: sym_add; first exact: sym_congr.
by apply: P_cov_u_Pt_sym; case: okp.
Qed.


(* the pieces of the tower law for x = alpha_t, y1 = Y (past data), y2 = y_t *)
Let m2 := p_Z p *m j_ma j' + p_D p + p_H p *m p_w0 p.
Let S12 := (j_CaY j')^T *m (p_Z p)^T.
Let S22 := p_Z p *m j_Caa j' *m (p_Z p)^T + p_H p *m p_cov_w p *m (p_H p)^T.

Lemma S12t : S12^T = p_Z p *m j_CaY j'.
Proof. by rewrite /S12 trmx_mul !trmxK. Qed.

Lemma obs_mean : cond_mean m2 (j_mY j) S12^T (j_CYY j) (j_Y j) = f_y0 f.
Proof.
rewrite S12t (sp_y0 sp) pred_mean /cond_mean /m2 /=.
by mx_expand; mx_abel.
Qed.

Lemma obs_cross : cond_cross (j_Caa j' *m (p_Z p)^T) (j_CaY j') (j_CYY j) S12^T = f_Q0 f *m (p_Z p)^T.
Proof.
rewrite pred_cov /cond_cross /cond_cov S12t trmx_mul /=.
by mx_expand; mx_abel.
Qed.

Lemma obs_cov : cond_cov S22 S12^T (j_CYY j) = f_F f.
Proof.
rewrite (sp_F sp) pred_cov /cond_cov /S22 S12t trmx_mul /=.
by mx_expand; mx_abel.
Qed.

Let j'' := jstep p j.

Lemma CYY_unit : j_CYY j \in unitmx. Proof. by case: fj. Qed.
Lemma CYY_sym : is_sym (j_CYY j). Proof. by case: fj. Qed.

Lemma S221_unit : cond_cov S22 S12^T (j_CYY j) \in unitmx.
Proof. by rewrite obs_cov. Qed.

(* the filter's update = conditioning on the stacked data (Y, y_t) *)
Theorem step_filtered : filtered j'' (f_a1 f) (f_Q1 f).
Proof.
have [_ _ [_ _] Ea1 EQ1] := step_is_conditioning sp.
split.
- rewrite Ea1 -obs_mean -obs_cross -obs_cov pred_mean.
  exact: (tower_mean _ _ _ _ _ _ _ CYY_unit S221_unit).
- rewrite EQ1 -obs_cross -obs_cov pred_cov.
  exact: (tower_cov _ _ _ CYY_unit S221_unit CYY_sym).
- exact: pred_sym.
- apply: sym_block; first exact: CYY_sym.
  apply: sym_add; first by apply: sym_congr; exact: pred_sym.
  by apply: sym_congr; case: okp.
- exact: (tower_unit CYY_unit S221_unit).
Qed.

(* ... and the density of the stacked data factorises: nll(Y, y_t) = nll(Y) + contribution_t *)
Theorem step_nll :
  nll_gauss flog flog2pi (j_mY j'') (j_CYY j'') (j_Y j'')
  = nll_gauss flog flog2pi (j_mY j) (j_CYY j) (j_Y j) + @contribution M n nw 1 (mkFper p f).
Proof.
rewrite (contribution_is_nll flogM sp uF) -obs_mean -obs_cov.
exact: (tower_nll _ _ _ _ _ flogM CYY_sym CYY_unit S221_unit).
Qed.

End Step.

Lemma prediction_is_batch N (j : joint N) a Q p (f : frec p) :
  filtered j a Q -> step_spec a Q f ->
  let j' := jpredict p j in
  f_a0 f = cond_mean (j_ma j') (j_mY j') (j_CaY j') (j_CYY j') (j_Y j')
  /\ f_Q0 f = cond_cov (j_Caa j') (j_CaY j') (j_CYY j').
Proof. by move=> fj sp; split; [exact: (pred_mean fj sp) | exact: (pred_cov fj sp)]. Qed.

Lemma filtered_sym N (j : joint N) a Q : filtered j a Q -> is_sym Q.
Proof.
case=> _ -> sC sY _; apply: sym_sub => //.
by apply: sym_congr; apply: sym_inv.
Qed.

(* the updated moments after the last period of a run *)
Fixpoint last_state (a : 'cV[F]_n) (Q : 'M[F]_n) (fs : seq fper) : 'cV[F]_n * 'M[F]_n :=
  if fs is x :: fs' then last_state (f_a1 (ff x)) (f_Q1 (ff x)) fs' else (a, Q).

Theorem filter_is_batch_from N (j : joint N) a Q ps :
  filtered j a Q -> all_ok ps -> all_unit (krun a Q ps) ->
  let j' := tagged (jrun j ps) in
  filtered j' (last_state a Q (krun a Q ps)).1 (last_state a Q (krun a Q ps)).2
  /\ nll_gauss flog flog2pi (j_mY j') (j_CYY j') (j_Y j')
     = nll_gauss flog flog2pi (j_mY j) (j_CYY j) (j_Y j)
       + \sum_(x <- krun a Q ps) @contribution M n nw 1 x.
Proof.
elim: ps N j a Q => [|p ps IH] N j a Q fj; first by rewrite /= big_nil addr0.
case=> okp okps; rewrite krun_cons; case=> uF uFs.
have sp := kf_step_spec a (filtered_sym fj) okp.
have fj' := step_filtered fj sp okp uF.
have [IH1 IH2] := IH _ _ _ _ fj' okps uFs.
split; first exact: IH1.
by rewrite [LHS]IH2 (step_nll fj sp uF) big_cons addrA.
Qed.

(* C03 stretch: from the initial law (a, Q): after any number of periods, the filter's updated moments
   are the conditional moments of the state given all data so far under the model's joint Gaussian
   law, and the likelihood the filter reports is the negative log density of the stacked data *)
Theorem filter_is_batch a Q ps :
  is_sym Q -> all_ok ps -> all_unit (krun a Q ps) ->
  let j := tagged (jrun (j0 a Q) ps) in
  filtered j (last_state a Q (krun a Q ps)).1 (last_state a Q (krun a Q ps)).2
  /\ l_nll (likelihood false (krun a Q ps)) = nll_gauss flog flog2pi (j_mY j) (j_CYY j) (j_Y j).
Proof.
move=> sQ ok uF; have [H1 H2] := filter_is_batch_from (filtered0 a sQ) ok uF.
split; first exact: H1.
rewrite H2 -(contributions_sum flogM false) (proj1 (nll_false _)).
rewrite /contributions sum_lgE Lmap_map big_map.
by rewrite /nll_gauss /= det_mx00 (flog1 flogM) /maha mul_thin_flat ?mul0mx mxE mul0r !addr0 mulr0 add0r.
Qed.


(* ---------------------------------------------------------------- *)
(* non-vacuity: a concrete one-dimensional period meets every        *)
(* hypothesis used above (symmetric Q, ok periods, invertible F)     *)
(* ---------------------------------------------------------------- *)
End Batch.

Section NonVacuity.
Variable F : realFieldType.
Variables (flog : F -> F) (flog2pi : F).
Notation M := (MC flog flog2pi).

Definition ex_period (y : F) : period M 1 1 :=
  @mkPeriod M 1 1 1 1%:M 0 (@UP M 1 1 1%:M 1%:M 0) None 1%:M 1%:M 0 1%:M 0 y%:M.

Local Opaque kf_step.

Lemma ex_hypotheses (y1 y2 : F) :
  let ps := [:: ex_period y1; ex_period y2] in
  let Q : 'M[F]_1 := 1%:M in
  [/\ is_sym Q, all_ok ps & all_unit (@kf_run M 1 1 0 Q ps)].
Proof.
have s1 : is_sym (1%:M : 'M[F]_1) by rewrite /is_sym tr_scalar_mx.
have okp y : ok_period (ex_period y) by split.
split=> //.
have unit_of (a : 'cV[F]_1) (Q : 'M[F]_1) y (c : F) : 0 < c -> Q = c%:M ->
    f_F (@kf_step M 1 1 a Q (ex_period y)) \in unitmx
    /\ exists2 c', 0 < c' & f_Q1 (@kf_step M 1 1 a Q (ex_period y)) = c'%:M.
  move=> c0 EQ; have sQ : is_sym Q by rewrite EQ /is_sym tr_scalar_mx.
  have sp := kf_step_spec a sQ (okp y).
  have E0 : f_Q0 (@kf_step M 1 1 a Q (ex_period y)) = (c + 1)%:M.
    by rewrite (sp_Q0 sp) /= EQ tr_scalar_mx !mul1mx !mulmx1 -raddfD.
  have EF : f_F (@kf_step M 1 1 a Q (ex_period y)) = (c + 1 + 1)%:M.
    by rewrite (sp_F sp) E0 /= tr_scalar_mx !mul1mx !mulmx1 -raddfD.
  have pos1 : 0 < c + 1 by rewrite addr_gt0 ?ltr01.
  have pos : 0 < c + 1 + 1 by rewrite addr_gt0 ?ltr01.
  split; first by rewrite EF unitmxE det_scalar1 unitfE lt0r_neq0.
  exists ((c + 1) - (c + 1) * (c + 1 + 1)^-1 * (c + 1)).
    have -> : c + 1 - (c + 1) * (c + 1 + 1)^-1 * (c + 1) = (c + 1) / (c + 1 + 1).
      by field; rewrite lt0r_neq0.
    by rewrite divr_gt0.
  rewrite (sp_Q1 sp) (sp_G sp) (sp_Fi sp) EF E0 /= tr_scalar_mx mul1mx mulmx1.
  have -> : invmx ((c + 1 + 1)%:M : 'M[F]_1) = ((c + 1 + 1)^-1)%:M.
    by apply: inv_from_mul; rewrite -scalar_mxM mulfV // lt0r_neq0.
  by rewrite -!scalar_mxM -raddfB.
rewrite 2!krun_cons.
have [u1 [c1 c1pos E1]] := unit_of 0 1%:M y1 1 ltr01 erefl.
have [u2 _] := unit_of (f_a1 (@kf_step M 1 1 0 1%:M (ex_period y1))) _ y2 c1 c1pos E1.
by split; [exact: u1 | split; [exact: u2 | ]].
Qed.

End NonVacuity.
