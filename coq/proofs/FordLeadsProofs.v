(* C01  (i) the dynamic identities of the stacked vector link the leads of xi+ to the model-consistent
        continuation of the same path; (ii) the recursion matrix is similar to the stable QZ block:
        its eigenvalues are exactly the generalised eigenvalues of the pencil block (S11, T11) that the
        QZ oracle ordered first ("non-explosive", partial: boundedness of the powers is not proved).
   Continues proofs/FordPathProofs.v. *)
From Verif Require Import lib.MxC01 gen.FordGen model.Ford proofs.FordProofs proofs.FordSquareProofs
     proofs.FordSimProofs proofs.FordPathProofs.
From mathcomp Require Import all_ssreflect all_algebra.
From mathcomp Require Import ring.
Set Implicit Arguments.
Unset Strict Implicit.
Unset Printing Implicit Defensive.
Import GRing.Theory.
Local Open Scope ring_scope.

(* ================================================================== *)
Section DynId.
Variable F : fieldType.
Variables nb nf ne : nat.
Variables (A B : 'M[F]_(nb + nf, nf + nb)) (C : 'cV[F]_(nb + nf)) (D : 'M[F]_(nb + nf, ne)).

(* row r of the system is the dynamic identity  x[i](t) - x[j](t-1) = 0
   (_create_dynid_matrices: dynid_A[r, i] = 1, dynid_B[r, j] = -1, zero rows in C and D) *)
Definition dynid_row (r : 'I_(nb + nf)) (i j : 'I_(nf + nb)) : Prop :=
  [/\ row r A = delta_mx 0 i, row r B = - delta_mx 0 j, row r C = 0 & row r D = 0].

Lemma dynid_link r i j (x y : 'cV[F]_(nf + nb)) (e : 'cV[F]_ne) :
  dynid_row r i j -> A *m x + B *m y + C + D *m e = 0 -> x i 0 = y j 0.
Proof.
move=> [rA rB rC rD] /(congr1 (row r)).
rewrite !linearD /= !row_mul rA rB rC rD mulNmx -!rowE mul0mx linear0 !addr0.
by move/eqP; rewrite subr_eq0 => /eqP /(congr1 (fun v : 'rV_1 => v 0 0)); rewrite !mxE.
Qed.

(* an abstract solved model: a stacked vector xp(state, anticipation) whose backward rows are the state and
   which satisfies the system along the recursion (instantiated below with Theorem square_step) *)
Variables (Tsq : 'M[F]_nb) (K : 'cV[F]_nb) (P : 'M[F]_(nb, ne)) (X : 'M[F]_(nb, nf)) (J : 'M[F]_nf) (Ru : 'M[F]_(nf, ne)).
Variable xp : 'cV[F]_nb -> 'cV[F]_nf -> 'cV[F]_(nf + nb).
Hypothesis xp_bottom : forall xi a, dsubmx (xp xi a) = xi.
Hypothesis xp_step : forall xi0 e a,
  A *m xp (Tsq *m xi0 + K + P *m e - X *m a) a + B *m xp xi0 (Ru *m e + J *m a) + C + D *m e = 0.

(* the model-consistent continuation from some period on: no unanticipated shocks any more;
   v m = the shock anticipated for m periods ahead, a m = its discounted effect *)
Variables (c : nat -> 'cV[F]_nb) (a : nat -> 'cV[F]_nf) (v : nat -> 'cV[F]_ne).
Hypothesis c_step : forall m, c m.+1 = Tsq *m c m + K + P *m v m.+1 - X *m a m.+1.
Hypothesis a_step : forall m, a m = Ru *m v m.+1 + J *m a m.+1.

(* Theorem (leads are read from the continuation): along a chain of tokens x{0}, x{+1}, ..., x{+n} of one
   variable, linked by dynamic identities, the entry of xi+ for x{+n} today equals the entry for x{0}
   n periods ahead on the continuation *)
Theorem leads_from_continuation (idx : nat -> 'I_(nf + nb)) n :
  (forall k, (k < n)%N -> exists r, dynid_row r (idx k) (idx k.+1)) ->
  forall m, xp (c m) (a m) (idx n) 0 = xp (c (m + n)%N) (a (m + n)%N) (idx 0%N) 0.
Proof.
elim: n => [|n IH] links m; first by rewrite addn0.
have [r dr] := links n (ltnSn n).
have st := xp_step (c m) (v m.+1) (a m.+1).
rewrite -c_step -a_step in st.
rewrite -(dynid_link dr st) addnS -addSn.
by apply: IH => k lt; apply: links; rewrite ltnS ltnW.
Qed.

(* when x{0} is a backward (solution-vector) row, that entry is the simulated state itself *)
Corollary leads_are_future_states (idx : nat -> 'I_(nf + nb)) n (j0 : 'I_nb) :
  idx 0%N = rshift nf j0 ->
  (forall k, (k < n)%N -> exists r, dynid_row r (idx k) (idx k.+1)) ->
  forall m, xp (c m) (a m) (idx n) 0 = c (m + n)%N j0 0.
Proof.
move=> i0 links m; rewrite (leads_from_continuation links) i0.
by rewrite -[in RHS](xp_bottom (c (m + n)%N) (a (m + n)%N)) mxE.
Qed.

End DynId.

(* the same statement for the solved model of Theorem square_solves_system *)
Section LeadsOfFull.
Variable F : fieldType.
Variables nb nf ne : nat.
Variables (A B : 'M[F]_(nb + nf, nf + nb)) (C : 'cV[F]_(nb + nf)) (D : 'M[F]_(nb + nf, ne)).
Variables (S T Q : 'M[F]_(nb + nf)) (Z : 'M[F]_(nf + nb, nb + nf)) (Ta u : 'M[F]_nb).
Notation O := (MCOps F).
Let p := @solve_transition O nb nf ne S T Q Z C D.
Let sq := @square_from_triangular O nb nf ne (@detach O nb nf ne p Ta u).

Hypothesis QAZ : Q *m A *m Z = S.
Hypothesis QBZ : Q *m B *m Z = T.
Hypothesis uQ : Q \in unitmx.
Hypothesis S21_0 : dlsubmx S = 0.
Hypothesis T21_0 : dlsubmx T = 0.
Hypothesis uS11 : ulsubmx S \in unitmx.
Hypothesis uT22 : drsubmx T \in unitmx.
Hypothesis uST22 : drsubmx S + drsubmx T \in unitmx.
Hypothesis uZ21 : dlsubmx Z \in unitmx.
Hypothesis uu : u *m u^T = 1%:M.
Hypothesis schur : ts_Tg p = u *m Ta *m u^T.

Variables (c : nat -> 'cV[F]_nb) (a : nat -> 'cV[F]_nf) (v : nat -> 'cV[F]_ne).
Hypothesis c_step : forall m, c m.+1 = sq_T sq *m c m + sq_K sq + sq_P sq *m v m.+1 - sq_X sq *m a m.+1.
Hypothesis a_step : forall m, a m = ts_Ru p *m v m.+1 + ts_J p *m a m.+1.

Theorem leads_of_full (idx : nat -> 'I_(nf + nb)) n (j0 : 'I_nb) :
  idx 0%N = rshift nf j0 ->
  (forall k, (k < n)%N -> exists r, dynid_row A B C D r (idx k) (idx k.+1)) ->
  forall m, full C D S T Q Z (c m) (a m) (idx n) 0 = c (m + n)%N j0 0.
Proof.
apply: (@leads_are_future_states F nb nf ne A B C D (sq_T sq) (sq_K sq) (sq_P sq) (sq_X sq) (ts_J p) (ts_Ru p)
          (full C D S T Q Z) _ _ c a v c_step a_step).
- by move=> xi a0; exact: full_bottom.
- move=> xi0 e a0.
  exact: (@square_step F nb nf ne A B C D S T Q Z Ta u QAZ QBZ uQ S21_0 T21_0 uS11 uT22 uST22 uZ21 uu schur).
Qed.

End LeadsOfFull.

(* ================================================================== *)
Section Spectrum.
Variable F : fieldType.
Variables nb nf ne : nat.
Variables (C : 'cV[F]_(nb + nf)) (D : 'M[F]_(nb + nf, ne)).
Variables (S T Q : 'M[F]_(nb + nf)) (Z : 'M[F]_(nf + nb, nb + nf)) (Ta u : 'M[F]_nb).
Notation O := (MCOps F).
Let p := @solve_transition O nb nf ne S T Q Z C D.
Let sq := @square_from_triangular O nb nf ne (@detach O nb nf ne p Ta u).
Let S11 := ulsubmx S. Let T11 := ulsubmx T. Let Z21 := dlsubmx Z.

Hypothesis uS11 : S11 \in unitmx.
Hypothesis uZ21 : Z21 \in unitmx.
Hypothesis uu : u *m u^T = 1%:M.
Hypothesis schur : ts_Tg p = u *m Ta *m u^T.

Lemma eigenvalue_det n (M : 'M[F]_n) a : eigenvalue M a = (\det (a%:M - M) == 0).
Proof.
apply/eigenvalueP/det0P=> [[w Mw w_nz] | [w w_nz Mw]]; exists w => //.
  by rewrite mulmxBr Mw mul_mx_scalar subrr.
by apply/eqP; rewrite -mul_mx_scalar eq_sym -subr_eq0 -mulmxBr Mw.
Qed.

Theorem recursion_spectrum_partial :
  [/\ sq_T sq *m Z21 = Z21 *m ts_Tg p,
      S11 *m ts_Tg p + T11 = 0,
      ts_Tg p *m u = u *m Ta
    & forall a, eigenvalue (sq_T sq) a = (\det (a *: S11 + T11) == 0)].
Proof.
have TE := @Tsq_eq F nb nf ne C D S T Q Z Ta u uZ21 uu schur.
have STg : S11 *m ts_Tg p = - T11.
  exact: (@S11Tg F nb S11 T11 (ts_Tg p) uS11 erefl).
split.
- by rewrite -/sq in TE; rewrite TE -mulmxA mulVmx // mulmx1.
- by rewrite STg addNr.
- by rewrite schur -mulmxA (mulmx1C uu) mulmx1.
- move=> a; rewrite eigenvalue_det; rewrite -/sq in TE; rewrite TE.
  have -> : a%:M - Z21 *m ts_Tg p *m invmx Z21 = Z21 *m (a%:M - ts_Tg p) *m invmx Z21.
    by rewrite mulmxBr mulmxBl scalar_mxC mulmxK.
  rewrite !det_mulmx det_inv mulrAC divff ?mul1r; last by rewrite -unitfE -unitmxE.
  have <- : S11 *m (a%:M - ts_Tg p) = a *: S11 + T11.
    by rewrite mulmxBr STg opprK scalar_mxC mul_scalar_mx.
  have nz : \det S11 != 0 by rewrite -unitfE -unitmxE.
  by rewrite det_mulmx mulf_eq0 (negbTE nz).
Qed.

End Spectrum.
