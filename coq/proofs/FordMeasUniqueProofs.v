(* C01  The measurement clause DETERMINES the measurement solution: with F invertible, the matrices (Z, H, D) computed by
   _solve_measurement_equations (model/Ford.v solve_measurement: -F \ G, -F \ J, -F \ H~) are the ONLY ones for which
   F y + G [f; xi] + H~ + J w = 0 holds with y = Z xi + H w + D for every state and every measurement shock.  Any other way
   of solving the block (a transposed F, a dropped column, a wrong sign) that changes one of the three matrices therefore
   violates the clause for some (xi, w) -- for ANY F, in particular a non-diagonal, non-symmetric, non-triangular one
   (measurement equations that refer to other measurement variables).  The transposed solve is refuted for every
   non-symmetric invertible F.  Continues proofs/FordPathProofs.v (section Measurement). *)
From Verif Require Import lib.MxC01 model.Ford proofs.FordProofs proofs.FordPathProofs.
From mathcomp Require Import all_ssreflect all_algebra.
From mathcomp Require Import ring.
Set Implicit Arguments.
Unset Strict Implicit.
Unset Printing Implicit Defensive.
Import GRing.Theory.
Local Open Scope ring_scope.

Section Cols.
Variable F : fieldType.
(* a matrix that annihilates every column vector is zero *)
Lemma mulmx_cols0 m n (A : 'M[F]_(m, n)) : (forall x : 'cV[F]_n, A *m x = 0) -> A = 0.
Proof.
move=> h; apply/matrixP => i j.
by move: (h (delta_mx j 0)); rewrite -colE => /matrixP /(_ i 0); rewrite !mxE.
Qed.
End Cols.

Section MeasurementUnique.
Variable F : fieldType.
Variables nb nf ny nw : nat.
Notation O := (MCOps F).
Variables (Fm : 'M[F]_ny) (Gm : 'M[F]_(ny, nf + nb)) (Hc : 'cV[F]_ny) (Jm : 'M[F]_(ny, nw)) (Ua : 'M[F]_nb).
Let ms := @solve_measurement O nb nf ny nw Fm Gm Hc Jm Ua.

Hypothesis uF : Fm \in unitmx.
Hypothesis no_leads : lsubmx Gm = 0.

Theorem measurement_solution_unique (Z' : 'M[F]_(ny, nb)) (H' : 'M[F]_(ny, nw)) (D' : 'cV[F]_ny) :
  (forall (f : 'cV[F]_nf) (xi : 'cV[F]_nb) (w : 'cV[F]_nw),
     Fm *m (Z' *m xi + H' *m w + D') + Gm *m col_mx f xi + Hc + Jm *m w = 0) ->
  [/\ Z' = ms_Z ms, H' = ms_H ms & D' = ms_D ms].
Proof.
move=> h.
have key xi w : (Z' - ms_Z ms) *m xi + (H' - ms_H ms) *m w + (D' - ms_D ms) = 0.
  have e1 := h 0 xi w.
  have e2 := @measurement_block F nb nf ny nw Fm Gm Hc Jm Ua uF no_leads 0 xi w.
  rewrite -/ms in e2.
  have e3 : Fm *m ((Z' - ms_Z ms) *m xi + (H' - ms_H ms) *m w + (D' - ms_D ms)) = 0.
    rewrite !mulmxBl.
    have -> : Z' *m xi - ms_Z ms *m xi + (H' *m w - ms_H ms *m w) + (D' - ms_D ms)
              = (Z' *m xi + H' *m w + D') - (ms_Z ms *m xi + ms_H ms *m w + ms_D ms).
      move: (Z' *m xi) (H' *m w) (ms_Z ms *m xi) (ms_H ms *m w) => a b c d; mx_abel.
    rewrite mulmxBr; apply/eqP; rewrite subr_eq0; apply/eqP.
    move: e1 e2; move: (Fm *m (Z' *m xi + H' *m w + D')) (Fm *m (ms_Z ms *m xi + ms_H ms *m w + ms_D ms))
                       (Gm *m col_mx 0 xi) (Jm *m w) => a b c d ea eb.
    have -> : a = - (c + Hc + d) by apply/eqP; rewrite -subr_eq0 opprK -ea; apply/eqP; mx_abel.
    by apply/eqP; rewrite eq_sym -subr_eq0 opprK -eb; apply/eqP; mx_abel.
  by rewrite -[LHS](mulKmx uF) e3 mulmx0.
have eD : D' = ms_D ms.
  by move: (key 0 0); rewrite !mulmx0 !add0r => /eqP; rewrite subr_eq0 => /eqP.
have eZ : Z' = ms_Z ms.
  apply/eqP; rewrite -subr_eq0; apply/eqP; apply: mulmx_cols0 => xi.
  by move: (key xi 0); rewrite mulmx0 addr0 eD subrr addr0.
have eH : H' = ms_H ms.
  apply/eqP; rewrite -subr_eq0; apply/eqP; apply: mulmx_cols0 => w.
  by move: (key 0 w); rewrite mulmx0 add0r eD subrr addr0.
by split.
Qed.

End MeasurementUnique.

(* The transposed solve (Z = -F^T \ G) breaks the measurement clause for EVERY invertible F that is not symmetric: on the
   measurement block  F y - F xi = 0  (i.e. y = xi, G = -F, no shocks, no constant) it fails for some state xi. *)
Section Transposed.
Variable F : fieldType.
Variable ny : nat.
Notation O := (MCOps F).
Variable Fm : 'M[F]_ny.
Hypothesis uF : Fm \in unitmx.
Hypothesis nonsym : Fm^T != Fm.

Theorem measurement_transposed_solve_refuted :
  let Gm : 'M[F]_(ny, 0 + ny) := row_mx 0 (- Fm) in
  let Zt : 'M[F]_(ny, ny) := invmx (- Fm^T) *m rsubmx Gm in
  ~ (forall xi : 'cV[F]_ny, Fm *m (Zt *m xi) + Gm *m col_mx (0 : 'cV[F]_0) xi = 0).
Proof.
move=> Gm Zt h.
have uFt : Fm^T \in unitmx by rewrite unitmx_tr.
have rG : rsubmx Gm = - Fm by rewrite /Gm row_mxKr.
have e0 : Fm *m Zt - Fm = 0.
  apply: mulmx_cols0 => xi.
  rewrite mulmxBl -mulmxA -[RHS](h xi); congr (_ + _).
  by rewrite -[Gm]hsubmxK mul_row_col rG mulmx0 add0r mulNmx.
have Zt1 : Zt = 1%:M.
  by rewrite -[LHS](mulKmx uF); move/eqP: e0; rewrite subr_eq0 => /eqP ->; rewrite mulVmx.
have e1 : Fm^T *m Zt = Fm by rewrite /Zt rG mulmx_ldivN // opprK.
by move: nonsym; rewrite -{2}e1 Zt1 mulmx1 eqxx.
Qed.

End Transposed.

(* non-vacuity: an invertible, non-symmetric F exists (o1 = ... + o2, o2 = ...: F = [[1, 1], [0, 1]]) *)
Section NonVacuity.
Variable F : fieldType.
Example nonsymmetric_unit_exists : exists Fm : 'M[F]_(1 + 1), Fm \in unitmx /\ Fm^T != Fm.
Proof.
exists (block_mx 1%:M 1%:M 0 1%:M); split.
  by rewrite unitmxE det_ublock !det1 mulr1 unitr1.
rewrite tr_block_mx !trmx1 trmx0; apply/eqP => /eq_block_mx [_ /matrixP /(_ 0 0)].
by rewrite !mxE /= => /eqP; rewrite eq_sym oner_eq0.
Qed.
End NonVacuity.
