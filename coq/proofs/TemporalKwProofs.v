(* Proofs about model/TemporalKw.v: the reference day of the daily keyword shifts, the change
   formulas with these references, the start-of-year value with tty, and forward cumulation
   with a keyword shift inverting the change on a span. *)
From Coq Require Import ZArith List Bool Lia Reals Lra.
From Verif Require Import lib.Calendar lib.Arith lib.PyRange lib.Period model.Series gen.TemporalGen gen.DatesGen
     model.Temporal model.TemporalKw proofs.SeriesProofs proofs.TemporalProofs.
Import ListNotations.
Open Scope Z_scope.

(* ------------------------------------------------------------------ A. the daily reference days *)
Definition in_cal (t : Z) : Prop := 1 <= t <= max_ordinal.

Lemma ord_ok_true t : in_cal t -> ord_ok t = true.
Proof. unfold in_cal, ord_ok. intros H. apply andb_true_iff. split; apply Z.leb_le; lia. Qed.

Lemma jan1_valid y : 1 <= y -> valid_ymd y 1 1.
Proof. intros H. unfold valid_ymd. change (days_in_month y 1) with 31. lia. Qed.

Lemma dec31_valid y : 1 <= y -> valid_ymd y 12 31.
Proof. intros H. unfold valid_ymd. change (days_in_month y 12) with 31. lia. Qed.

Lemma jan1_ok y : 1 <= y <= MAXYEAR -> date_ok y 1 1 = true.
Proof.
  intros H. unfold date_ok. apply andb_true_iff. split; [apply valid_ymdb_spec, jan1_valid; lia|apply Z.leb_le; lia].
Qed.

Lemma dec31_ok y : 1 <= y <= MAXYEAR -> date_ok y 12 31 = true.
Proof.
  intros H. unfold date_ok. apply andb_true_iff. split; [apply valid_ymdb_spec, dec31_valid; lia|apply Z.leb_le; lia].
Qed.

Lemma year_ok t : in_cal t -> 1 <= year_of_ord t <= MAXYEAR.
Proof. intros H. apply (year_in_range t H). Qed.

Lemma jan1_le t : ord_of_ymd (year_of_ord t) 1 1 <= t.
Proof. rewrite ord_jan1. pose proof (year_of_ord_spec t). lia. Qed.

(* soy: 1 January of the year of t *)
Lemma daily_soy t : in_cal t ->
  let y := year_of_ord t in
  kw_ref 365 Soy t = Some (Some (ord_of_ymd y 1 1)) /\
  ymd_of_ord (ord_of_ymd y 1 1) = (y, 1, 1) /\ ord_of_ymd y 1 1 <= t.
Proof.
  intros H y. split; [|split; [apply ymd_of_ord_of_ymd, jan1_valid; apply (year_ok t H)|apply jan1_le]].
  unfold kw_ref. change (365 =? freq_DAILY) with true. cbv iota.
  unfold gen_daily_create_soy. rewrite (ord_ok_true t H), (jan1_ok _ (year_ok t H)). reflexivity.
Qed.

(* eopy: 31 December of the previous year = the day before 1 January of the year of t *)
Lemma daily_eopy t : in_cal t -> 2 <= year_of_ord t ->
  let y := year_of_ord t in
  kw_ref 365 Eopy t = Some (Some (ord_of_ymd (y - 1) 12 31)) /\
  ymd_of_ord (ord_of_ymd (y - 1) 12 31) = (y - 1, 12, 31) /\
  ord_of_ymd (y - 1) 12 31 = ord_of_ymd y 1 1 - 1 /\ ord_of_ymd (y - 1) 12 31 < t.
Proof.
  intros H H2 y. pose proof (year_ok t H) as Hy. fold y in Hy.
  assert (E : ord_of_ymd (y - 1) 12 31 = ord_of_ymd y 1 1 - 1).
  { pose proof (year_boundary (y - 1)) as B. replace (y - 1 + 1) with y in B by lia. lia. }
  split; [|split; [apply ymd_of_ord_of_ymd, dec31_valid; fold y in H2; lia|split; [exact E|]]].
  - unfold kw_ref. change (365 =? freq_DAILY) with true. cbv iota.
    unfold gen_daily_create_eopy. fold y. rewrite (ord_ok_true t H), (dec31_ok (y - 1)) by (fold y in H2; lia). reflexivity.
  - pose proof (jan1_le t). fold y in H0. lia.
Qed.

(* eopy of a day of year 1: the code raises (datetime.date(0, 12, 31)) *)
Lemma daily_eopy_year1 t : in_cal t -> year_of_ord t = 1 -> kw_ref 365 Eopy t = None.
Proof.
  intros H E. unfold kw_ref. change (365 =? freq_DAILY) with true. cbv iota.
  unfold gen_daily_create_eopy. rewrite E, (ord_ok_true t H). reflexivity.
Qed.

(* tty: the previous day, except on 1 January (no reference) *)
Lemma daily_tty t : in_cal t ->
  kw_ref 365 Tty t = Some (if t =? ord_of_ymd (year_of_ord t) 1 1 then None else Some (t - 1)).
Proof.
  intros H. unfold kw_ref. change (365 =? freq_DAILY) with true. cbv iota.
  unfold gen_daily_create_tty. rewrite (ord_ok_true t H), (jan1_ok _ (year_ok t H)). cbn [andb].
  pose proof (jan1_le t) as L. f_equal.
  destruct (Z.eqb_spec t (ord_of_ymd (year_of_ord t) 1 1)) as [E|E].
  - rewrite <- E. replace (t - t + 1) with 1 by lia. reflexivity.
  - destruct (Z.gtb_spec (t - ord_of_ymd (year_of_ord t) 1 1 + 1) 1) as [G|G]; [f_equal; lia|lia].
Qed.

(* yoy as coded: 365 days back (Frequency.DAILY.value), whatever the length of the year *)
Lemma daily_yoy t : kw_ref 365 Yoy t = Some (Some (t - 365)).
Proof. unfold kw_ref. change (365 =? freq_DAILY) with true. cbv iota. unfold gen_shift_arm_yoy. do 2 f_equal. Qed.

Lemma daily_int t k : kw_ref 365 (ByInt k) t = Some (Some (t + k)).
Proof. reflexivity. Qed.

Theorem daily_reference_days t : in_cal t ->
  let y := year_of_ord t in
  let jan1 := ord_of_ymd y 1 1 in
  ymd_of_ord jan1 = (y, 1, 1) /\ jan1 <= t /\
  kw_ref 365 Soy t = Some (Some jan1) /\
  (2 <= y -> kw_ref 365 Eopy t = Some (Some (jan1 - 1)) /\ ymd_of_ord (jan1 - 1) = (y - 1, 12, 31)) /\
  (y = 1 -> kw_ref 365 Eopy t = None) /\
  kw_ref 365 Tty t = Some (if t =? jan1 then None else Some (t - 1)) /\
  kw_ref 365 Yoy t = Some (Some (t - 365)).
Proof.
  intros H y jan1. destruct (daily_soy t H) as (S1 & S2 & S3).
  split; [exact S2|]. split; [exact S3|]. split; [exact S1|]. split; [|split; [|split]].
  - intros Hy. destruct (daily_eopy t H Hy) as (E1 & E2 & E3 & _). fold y in E1, E2, E3. fold jan1 in E3.
    rewrite <- E3. split; assumption.
  - intros Hy. now apply daily_eopy_year1.
  - now apply daily_tty.
  - apply daily_yoy.
Qed.

(* the regular classes keep lib/Period.v *)
Lemma regular_kw_ref fr by_ t : fr <> 365 -> kw_ref fr by_ t = Some (period_shift fr by_ t).
Proof. intros H. unfold kw_ref. destruct (Z.eqb_spec fr freq_DAILY) as [E|E]; [contradiction|reflexivity]. Qed.

(* ------------------------------------------------------------------ C. forward cumulation over a reference function *)
Section LiftKw.
Variable A : Arith.
Notation V := (car A).
Notation series := (series A).
Hypothesis miss_law : forall x : V, is_miss A x = true -> x = miss A.
Variables (chg cumf : V -> V -> V) (dom : V -> Prop).
Hypothesis step_law : forall a p, dom a -> dom p -> cumf p (chg a p) = a.

Definition zipped_of (rf : Z -> option Z) (span : list Z) : list (Z * Z) :=
  flat_map (fun t => match rf t with Some sh => [(t, sh)] | None => [] end) span.

(* the first period of the initial condition (min_period of _cumulate_forward) *)
Definition min_period_of (rf : Z -> option Z) (span : list Z) (a : Z) : Z :=
  match map snd (zipped_of rf span) with [] => a | sh0 :: r => minl sh0 r end.

Lemma In_zipped rf span t sh : In (t, sh) (zipped_of rf span) <-> In t span /\ rf t = Some sh.
Proof.
  unfold zipped_of. rewrite in_flat_map. split.
  - intros (u & Hu & Hin). destruct (rf u) eqn:E; [|destruct Hin].
    destruct Hin as [Hin|[]]. inversion Hin; subst. split; assumption.
  - intros [Hs Hr]. exists t. split; [assumption|]. rewrite Hr. now left.
Qed.

Lemma min_period_le rf span a t sh : In (t, sh) (zipped_of rf span) -> min_period_of rf span a <= sh.
Proof.
  intros Hin. unfold min_period_of. apply (in_map snd) in Hin. simpl in Hin.
  destruct (map snd (zipped_of rf span)) as [|s0 r]; [destruct Hin|].
  destruct (minl_le s0 r) as [H0 Hr]. destruct Hin as [<-|Hin]; [assumption|now apply Hr].
Qed.

Theorem cum_forward_rf_inverts (x c : series) (rf : Z -> option Z) st a b :
  let en := st + Z.of_nat (length (s_data x)) - 1 in
  WF A x -> s_start x = Some st -> cells_in A dom x st en ->
  WF A c -> s_nv c = s_nv x ->
  st <= a -> b <= en ->
  (forall t r, a <= t <= b -> rf t = Some r ->
     st <= r <= t /\ row_at A c t = zip_bcast A chg (row_at A x t) (row_at A x r)) ->
  let r := cumulate_forward_rf A cumf rf (get_data A x) (py_range a (b + 1) 1) a b c in
  forall t, min_period_of rf (py_range a (b + 1) 1) a <= t <= b -> st <= t -> row_at A r t = row_at A x t.
Proof.
  intros en Hwf Hst Hdom Hwfc Hnvc Ha Hb Href r.
  subst r. unfold cumulate_forward_rf. rewrite !py_range_step1.
  fold (zipped_of rf (zrange a (b + 1))).
  change (match map snd (zipped_of rf (zrange a (b + 1))) with [] => a | sh0 :: r => minl sh0 r end)
    with (min_period_of rf (zrange a (b + 1)) a).
  set (minp := min_period_of rf (zrange a (b + 1)) a).
  set (s0 := set_data A (s_freq c) (mkSeries (s_freq c) (s_start c) (s_nv c) []) (zrange minp (b + 1))
                      (get_data A x (zrange minp (b + 1))) None).
  assert (Hwf0 : WF A (mkSeries (s_freq c) (s_start c) (s_nv c) ([] : list (list V)))).
  { split; simpl; [constructor|reflexivity]. }
  set (Inv := fun s : series => WF A s /\ s_nv s = s_nv x /\
                                forall u, minp <= u <= b -> st <= u -> row_at A s u = row_at A x u).
  assert (H0 : Inv s0).
  { subst s0. split; [now apply set_data_WF|]. split; [rewrite set_data_nv; simpl; exact Hnvc|].
    intros u Hu _. rewrite row_at_set_data by assumption. unfold get_data.
    rewrite last_assoc_map by (apply In_zrange; lia). simpl. rewrite Hnvc.
    apply bcast_row_id. now apply row_at_length. }
  assert (Hz : forall p, In p (zipped_of rf (zrange a (b + 1))) ->
                         a <= fst p <= b /\ minp <= snd p /\ rf (fst p) = Some (snd p)).
  { intros [t0 sh] Hp. simpl. pose proof (min_period_le rf _ a t0 sh Hp) as Hm.
    apply In_zipped in Hp as [Ht0 Hr]. apply In_zrange in Ht0. fold minp in Hm. repeat split; try lia; assumption. }
  clearbody s0. generalize dependent s0.
  induction (zipped_of rf (zrange a (b + 1))) as [|[t0 sh] l IH]; intros s0 H0; cbn [fold_left].
  - intros t Ht Hst'. now apply H0.
  - apply IH; [intros p Hp; apply Hz; now right|].
    destruct H0 as (Hw & Hn & Hag). destruct (Hz (t0, sh) (or_introl eq_refl)) as (Ht0 & Hm & Hr). simpl in Ht0, Hm, Hr.
    destruct (Href t0 sh Ht0 Hr) as [Hsh Hrow].
    split; [now apply set_data_WF|]. split; [now rewrite set_data_nv|].
    intros u Hu Hu'. rewrite row_at_set_data by assumption. simpl.
    destruct (Z.eqb_spec t0 u) as [->|Hne]; [|now apply Hag].
    rewrite Hag by lia. rewrite Hrow. unfold zip_rows.
    rewrite (row_step A chg cumf dom step_law x st en u sh) by (auto; lia).
    rewrite Hn. apply bcast_row_id. now apply row_at_length.
Qed.

(* the initial condition reaches back to the first period of the span in the cases that occur *)
Lemma min_period_head rf a b r : a <= b -> rf a = Some r -> r <= a -> min_period_of rf (py_range a (b + 1) 1) a <= a.
Proof.
  intros Hab Hr Hle. rewrite py_range_step1.
  assert (In (a, r) (zipped_of rf (zrange a (b + 1)))) by (apply In_zipped; split; [apply In_zrange; lia|assumption]).
  pose proof (min_period_le rf _ a a r H). lia.
Qed.

Lemma min_period_second rf a b : a + 1 <= b -> rf (a + 1) = Some a -> min_period_of rf (py_range a (b + 1) 1) a <= a.
Proof.
  intros Hab Hr. rewrite py_range_step1.
  assert (In (a + 1, a) (zipped_of rf (zrange a (b + 1)))) by (apply In_zipped; split; [apply In_zrange; lia|assumption]).
  pose proof (min_period_le rf _ a (a + 1) a H). lia.
Qed.

(* ------------------------------------------------------------------ B. the shifted copy and the change series *)
Definition nval (neutral : option Z) : V := match neutral with Some z => ofZ A z | None => miss A end.

Lemma span_of_some (x : series) st : s_start x = Some st ->
  span_of A x = zrange st (st + Z.of_nat (length (s_data x)) - 1 + 1).
Proof. intros Hst. unfold span_of, s_end. rewrite Hst. reflexivity. Qed.

Lemma shift_rf_soy (rf : Z -> option Z) by_ neutral (x : series) st :
  by_ = Soy \/ by_ = Eopy -> s_start x = Some st ->
  series_shift_rf A rf by_ neutral x
  = build A (s_freq x) (s_nv x) st (st + Z.of_nat (length (s_data x)) - 1)
      (fun u => row_at A x (match rf u with Some r => r | None => u end)).
Proof.
  intros Hby Hst. unfold series_shift_rf, build. rewrite (span_of_some x st Hst).
  destruct Hby as [-> | ->]; rewrite Hst; unfold get_data; rewrite map_map; reflexivity.
Qed.

Lemma shift_rf_tty_WF rf neutral (x : series) : WF A x ->
  WF A (series_shift_rf A rf Tty neutral x) /\ s_nv (series_shift_rf A rf Tty neutral x) = s_nv x.
Proof.
  intros Hwf. unfold series_shift_rf. split.
  - apply set_data_WF; [assumption|]. apply set_data_WF; assumption.
  - rewrite !set_data_nv. reflexivity.
Qed.

Lemma shift_rf_tty_row rf neutral (x : series) st t :
  let en := st + Z.of_nat (length (s_data x)) - 1 in
  WF A x -> s_start x = Some st -> st <= t <= en ->
  row_at A (series_shift_rf A rf Tty neutral x) t
  = match rf t with Some r => row_at A x r | None => bcast_row A (s_nv x) [nval neutral] end.
Proof.
  intros en Hwf Hst Ht. unfold series_shift_rf. rewrite (span_of_some x st Hst). fold en.
  set (sp := zrange st (en + 1)).
  assert (Hin : In t sp) by (apply In_zrange; lia).
  set (wt := filter (fun t => match rf t with Some _ => true | None => false end) sp).
  set (np := filter (fun t => match rf t with Some _ => false | None => true end) sp).
  set (refd := fun u => match rf u with Some r => r | None => u end).
  assert (W1 : WF A (set_data A (s_freq x) x wt (get_data A x (map refd wt)) None)) by (now apply set_data_WF).
  rewrite row_at_set_data by (assumption || exact W1). rewrite set_data_nv.
  destruct (rf t) as [r0|] eqn:E.
  - rewrite last_assoc_notin by (subst np; rewrite filter_In, E; intros [_ H]; discriminate H).
    rewrite row_at_set_data by assumption. unfold get_data. rewrite map_map.
    rewrite last_assoc_map with (g := fun u => row_at A x (refd u)) by (subst wt; rewrite filter_In, E; split; [assumption|reflexivity]).
    unfold refd. rewrite E. apply bcast_row_id. now apply row_at_length.
  - rewrite last_assoc_map with (g := fun _ : Z => [nval neutral]) by (subst np; rewrite filter_In, E; split; [assumption|reflexivity]).
    reflexivity.
Qed.

Lemma kw_ref_soy_not_none fr by_ t : by_ = Soy \/ by_ = Eopy -> kw_ref fr by_ t <> Some None.
Proof.
  intros [-> | ->]; unfold kw_ref; destruct (fr =? freq_DAILY); try discriminate.
  - destruct (gen_daily_create_soy t); discriminate.
  - destruct (gen_daily_create_eopy t); discriminate.
Qed.

(* the copy shifted by [by_]: the row of its reference period, the neutral value where create_tty returns None *)
Lemma shift_kw_spec by_ neutral (x : series) st :
  let en := st + Z.of_nat (length (s_data x)) - 1 in
  WF A x -> s_start x = Some st ->
  WF A (series_shift_kw A by_ neutral x) /\ s_nv (series_shift_kw A by_ neutral x) = s_nv x /\
  forall t, st <= t <= en ->
    match kw_ref (s_freq x) by_ t with
    | Some (Some r) => row_at A (series_shift_kw A by_ neutral x) t = row_at A x r
    | Some None => row_at A (series_shift_kw A by_ neutral x) t = bcast_row A (s_nv x) [nval neutral]
    | None => True
    end.
Proof.
  intros en Hwf Hst. unfold series_shift_kw. destruct by_ as [k| | | |].
  - cbn [series_shift_rf]. split; [now apply shift_by_WF|]. split; [unfold shift_by; rewrite Hst; reflexivity|].
    intros t Ht. rewrite row_at_shift. unfold kw_ref. destruct (s_freq x =? freq_DAILY); reflexivity.
  - cbn [series_shift_rf]. split; [now apply shift_by_WF|]. split; [unfold shift_by; rewrite Hst; reflexivity|].
    intros t Ht. rewrite row_at_shift. unfold kw_ref. destruct (s_freq x =? freq_DAILY); [reflexivity|].
    cbn [period_shift]. unfold p_yoy. f_equal; lia.
  - rewrite (shift_rf_soy _ Soy neutral x st) by auto.
    assert (Hlen : forall u, length (row_at A x (match kw_ref_tot (s_freq x) Soy u with Some r => r | None => u end)) = s_nv x)
      by (intros; now apply row_at_length).
    split; [now apply build_WF|]. split.
    { unfold build, trim; simpl. destruct (drop_leading A _) as [n r1]. destruct (rev (snd (drop_leading A (rev r1)))); reflexivity. }
    intros t Ht. destruct (kw_ref (s_freq x) Soy t) as [[r|]|] eqn:E; [| |exact I].
    + rewrite row_at_build by assumption. fold en.
      replace ((st <=? t) && (t <=? en)) with true by (symmetry; apply andb_true_iff; split; apply Z.leb_le; lia).
      unfold kw_ref_tot. rewrite E. reflexivity.
    + exfalso. now apply (kw_ref_soy_not_none (s_freq x) Soy t (or_introl eq_refl)).
  - rewrite (shift_rf_soy _ Eopy neutral x st) by auto.
    assert (Hlen : forall u, length (row_at A x (match kw_ref_tot (s_freq x) Eopy u with Some r => r | None => u end)) = s_nv x)
      by (intros; now apply row_at_length).
    split; [now apply build_WF|]. split.
    { unfold build, trim; simpl. destruct (drop_leading A _) as [n r1]. destruct (rev (snd (drop_leading A (rev r1)))); reflexivity. }
    intros t Ht. destruct (kw_ref (s_freq x) Eopy t) as [[r|]|] eqn:E; [| |exact I].
    + rewrite row_at_build by assumption. fold en.
      replace ((st <=? t) && (t <=? en)) with true by (symmetry; apply andb_true_iff; split; apply Z.leb_le; lia).
      unfold kw_ref_tot. rewrite E. reflexivity.
    + exfalso. now apply (kw_ref_soy_not_none (s_freq x) Eopy t (or_intror eq_refl)).
  - destruct (shift_rf_tty_WF (kw_ref_tot (s_freq x) Tty) neutral x Hwf) as [W N].
    split; [exact W|]. split; [exact N|].
    intros t Ht. rewrite (shift_rf_tty_row _ neutral x st t Hwf Hst Ht). unfold kw_ref_tot.
    destruct (kw_ref (s_freq x) Tty t) as [[r|]|]; [reflexivity|reflexivity|exact I].
Qed.

Lemma omin_le a o lo : omin (Some a) o = Some lo -> lo <= a.
Proof. destruct o; simpl; intros H; inversion H; lia. Qed.
Lemma omax_ge a o hi : omax (Some a) o = Some hi -> a <= hi.
Proof. destruct o; simpl; intros H; inversion H; lia. Qed.

Lemma kw_raises_false fr by_ sp t : kw_raises fr by_ sp = false -> In t sp -> kw_ref fr by_ t <> None.
Proof.
  intros H Hin E. unfold kw_raises in H.
  assert (existsb (fun t => match kw_ref fr by_ t with None => true | Some _ => false end) sp = true)
    by (apply existsb_exists; exists t; split; [assumption|now rewrite E]).
  congruence.
Qed.

(* the change series: f(x_t, x_ref(t)) period by period, f(x_t, neutral) where there is no reference *)
Theorem change_kw_rows (f : V -> V -> V) by_ neutral (x c : series) st :
  let en := st + Z.of_nat (length (s_data x)) - 1 in
  WF A x -> s_start x = Some st ->
  temporal_change_kw A f by_ neutral x = Ok c ->
  WF A c /\ s_nv c = s_nv x /\
  forall t, st <= t <= en ->
    match kw_ref (s_freq x) by_ t with
    | Some (Some r) => row_at A c t = zip_bcast A f (row_at A x t) (row_at A x r)
    | Some None => row_at A c t = zip_bcast A f (row_at A x t) (bcast_row A (s_nv x) [nval neutral])
    | None => False
    end.
Proof.
  intros en Hwf Hst Hc. unfold temporal_change_kw in Hc.
  destruct (shift_invalid by_); [discriminate|].
  destruct (kw_raises (s_freq x) by_ (span_of A x)) eqn:Hr; [discriminate|].
  destruct (shift_kw_spec by_ neutral x st Hwf Hst) as (W & N & Hrow).
  assert (Hne0 : s_start x = None -> s_start (series_shift_kw A by_ neutral x) = None -> False) by (rewrite Hst; discriminate).
  destruct (row_at_binop A miss_law f x _ c Hwf W (eq_sym N) Hne0 Hc) as (lo & hi & Hlo & Hhi & Hwfc & Hnvc & Hrowc).
  rewrite Hst in Hlo. apply omin_le in Hlo.
  assert (Hen : s_end A x = Some en) by (unfold s_end; rewrite Hst; reflexivity).
  rewrite Hen in Hhi. apply omax_ge in Hhi.
  split; [exact Hwfc|]. split; [exact Hnvc|].
  intros t Ht. specialize (Hrow t Ht).
  assert (Hnn : kw_ref (s_freq x) by_ t <> None).
  { apply (kw_raises_false _ _ _ _ Hr). rewrite (span_of_some x st Hst). apply In_zrange. fold en. lia. }
  rewrite Hrowc.
  replace ((lo <=? t) && (t <=? hi)) with true by (symmetry; apply andb_true_iff; split; apply Z.leb_le; lia).
  destruct (kw_ref (s_freq x) by_ t) as [[r|]|]; [now rewrite Hrow|now rewrite Hrow|now apply Hnn].
Qed.

End LiftKw.

(* ------------------------------------------------------------------ D. the public statements over the reals *)
Section PublicKw.
Notation RA := RArith.

Lemma zipped_nil rf span : (forall t, In t span -> rf t = None) -> zipped_of rf span = [].
Proof.
  induction span as [|u l IH]; intros H; [reflexivity|]. unfold zipped_of. cbn [flat_map].
  rewrite (H u (or_introl eq_refl)). simpl. apply IH. intros t Ht. apply H. now right.
Qed.

Lemma min_period_single rf a : rf a = None -> min_period_of rf (py_range a (a + 1) 1) a <= a.
Proof.
  intros H. unfold min_period_of. rewrite zipped_nil; [simpl; lia|].
  intros t Ht. rewrite py_range_step1 in Ht. apply In_zrange in Ht. replace t with a by lia. exact H.
Qed.

(* 1. the change with a keyword shift, period by period, for every frequency class *)
Theorem kw_change_formula k by_ (x c : series RA) st :
  let en := st + Z.of_nat (length (s_data x)) - 1 in
  WF RA x -> s_start x = Some st -> change_fixed_shift k = None ->
  change_kw RA k by_ x = Ok c ->
  forall t, st <= t <= en ->
    match kw_ref (s_freq x) by_ t with
    | Some (Some r) => row_at RA c t = zip_bcast RA (change_fun RA k (factor_of RA x)) (row_at RA x t) (row_at RA x r)
    | Some None => row_at RA c t = zip_bcast RA (change_fun RA k (factor_of RA x)) (row_at RA x t)
                                     (bcast_row RA (s_nv x) [nval RA (change_neutral k)])
    | None => False
    end.
Proof.
  intros en Hwf Hst Hfix Hc. unfold change_kw in Hc. rewrite Hfix in Hc.
  destruct (change_kw_rows RA RA_miss_law _ by_ _ x c st Hwf Hst Hc) as (_ & _ & H). exact H.
Qed.

Lemma bcast_single_nth nv (v : R) i : (i < nv)%nat -> nth i (bcast_row RA nv [v]) (miss RA) = v.
Proof.
  intros Hi. unfold bcast_row. rewrite nth_map_in with (d' := 0%nat) by (rewrite seq_length; lia).
  cbn [length]. rewrite Nat.sub_diag, Nat.min_0_r. reflexivity.
Qed.

Lemma zip_neutral_row (f : R -> R -> R) (v : R) (row : list R) nv :
  length row = nv -> (forall a, f a v = a) -> zip_bcast RA f row (bcast_row RA nv [v]) = row.
Proof.
  intros Hl Hf. subst nv. assert (Lb := bcast_row_length RA (length row) [v]).
  apply nth_ext with (d := miss RA) (d' := miss RA).
  - rewrite zip_bcast_length, Lb. apply Nat.max_id.
  - intros i Hi. rewrite zip_bcast_length, Lb, Nat.max_id in Hi.
    rewrite zip_bcast_nth by (rewrite ?Lb; auto). rewrite bcast_single_nth by assumption. apply Hf.
Qed.

(* 2. documented start-of-year value with tty: diff and roc leave the value unchanged there (every frequency class) *)
Theorem tty_start_of_year_unchanged k (x c : series RA) st :
  let en := st + Z.of_nat (length (s_data x)) - 1 in
  k = KDiff \/ k = KRoc ->
  WF RA x -> s_start x = Some st ->
  change_kw RA k Tty x = Ok c ->
  forall t, st <= t <= en -> kw_ref (s_freq x) Tty t = Some None -> row_at RA c t = row_at RA x t.
Proof.
  intros en Hk Hwf Hst Hc t Ht Hnone.
  assert (Hfix : change_fixed_shift k = None) by (destruct Hk as [-> | ->]; reflexivity).
  pose proof (kw_change_formula k Tty x c st Hwf Hst Hfix Hc t Ht) as H. rewrite Hnone in H. rewrite H.
  apply zip_neutral_row; [apply (row_at_length RA); solve [assumption | exact RA_miss_law]|].
  destruct Hk as [-> | ->]; intros a; cbv [change_fun change_neutral nval change_diff_neutral change_roc_neutral].
  - rewrite diff_formula. change (ofZ RA 0) with (IZR 0). lra.
  - rewrite roc_formula. change (ofZ RA 1) with (IZR 1). field.
Qed.

(* the start-of-year periods: segment 1 of a regular year, 1 January of a daily year *)
Lemma tty_none_regular fr t : fr <> 365 -> t mod fr = 0 -> kw_ref fr Tty t = Some None.
Proof.
  intros Hfr Hm. rewrite regular_kw_ref by assumption. cbn [period_shift]. unfold p_tty, serial_seg. rewrite Hm. reflexivity.
Qed.
Lemma tty_none_daily t : in_cal t -> t = ord_of_ymd (year_of_ord t) 1 1 -> kw_ref 365 Tty t = Some None.
Proof. intros H E. rewrite daily_tty by assumption. rewrite <- E, Z.eqb_refl. reflexivity. Qed.

Lemma change_kw_valid k by_ (x c : series RA) : change_fixed_shift k = None -> change_kw RA k by_ x = Ok c -> shift_invalid by_ = false.
Proof.
  intros Hfix Hc. unfold change_kw, temporal_change_kw in Hc. rewrite Hfix in Hc. destruct (shift_invalid by_); [discriminate|reflexivity].
Qed.

(* 3. forward cumulation with the same (keyword or integer) shift and the original series as initial condition
      reproduces the series on the span a..b, whatever the number of years (leap or common) the span covers *)
Theorem kw_cum_forward_inverts ck by_ (x c r : series RA) st a b :
  let en := st + Z.of_nat (length (s_data x)) - 1 in
  let fr := s_freq x in
  WF RA x -> s_start x = Some st -> cells_in RA (dom_of ck) x st en ->
  st <= a <= b -> b <= en ->
  (* every reference period of the span lies in the sample, not after its period *)
  (forall t q, a <= t <= b -> kw_ref fr by_ t = Some (Some q) -> st <= q <= t) ->
  (* the first period of the span has a reference, or it is a start-of-year period followed by an ordinary one *)
  ((exists q, kw_ref fr by_ a = Some (Some q)) \/
   (kw_ref fr by_ a = Some None /\ (a = b \/ kw_ref fr by_ (a + 1) = Some (Some a)))) ->
  change_kw RA (chg_of ck) by_ x = Ok c ->
  s_freq c = fr ->
  temporal_cumulation_kw RA ck by_ (InitSeries RA x) (SpanFromTo a b 1) c = Ok r ->
  forall t, a <= t <= b -> row_at RA r t = row_at RA x t.
Proof.
  intros en fr Hwf Hst Hdom Hab Hb Href Hfirst Hc Hfr Hr t Ht.
  assert (Hfix : change_fixed_shift (chg_of ck) = None) by (destruct ck; reflexivity).
  pose proof (change_kw_valid _ _ _ _ Hfix Hc) as Hval.
  pose proof (kw_change_formula _ by_ x c st Hwf Hst Hfix Hc) as Hform.
  unfold change_kw in Hc. rewrite Hfix in Hc.
  destruct (change_kw_rows RA RA_miss_law _ by_ _ x c st Hwf Hst Hc) as (Hwfc & Hnvc & _).
  unfold temporal_cumulation_kw in Hr. rewrite Hval in Hr.
  cbn [sgn] in Hr. change (1 >? 0) with true in Hr. cbv iota beta in Hr.
  rewrite Hfr in Hr. change (sgn 1) with 1 in Hr.
  destruct (kw_raises fr by_ (py_range a (b + 1) 1)) eqn:Hraise; [discriminate|].
  inversion Hr as [Hr']. clear Hr. cbn [initial_rows].
  assert (Hnn : forall u, a <= u <= b -> kw_ref fr by_ u <> None).
  { intros u Hu. apply (kw_raises_false _ _ _ _ Hraise). rewrite py_range_step1. apply In_zrange. lia. }
  set (rf := kw_ref_tot fr by_).
  assert (Hrf : forall u q, rf u = Some q <-> kw_ref fr by_ u = Some (Some q)).
  { intros u q. unfold rf, kw_ref_tot. destruct (kw_ref fr by_ u) as [[q'|]|]; split; intros H; try discriminate; congruence. }
  assert (Hmin : min_period_of rf (py_range a (b + 1) 1) a <= a).
  { destruct Hfirst as [[q Hq]|[Hn [->|Hn1]]].
    - apply (min_period_head rf a b q); [lia|now apply Hrf|]. destruct (Href a q) as [_ H]; [lia|exact Hq|lia].
    - apply min_period_single. unfold rf, kw_ref_tot. now rewrite Hn.
    - destruct (Z.eq_dec a b) as [->|Hne].
      + apply min_period_single. unfold rf, kw_ref_tot. now rewrite Hn.
      + apply min_period_second; [lia|now apply Hrf]. }
  apply (cum_forward_rf_inverts RA RA_miss_law _ _ (dom_of ck) (fwd_law ck (factor_of RA x)) x c rf st a b);
    try assumption; try lia.
  intros u q Hu Hq. apply Hrf in Hq. split; [now apply (Href u q)|].
  specialize (Hform u). fold fr in Hform. rewrite Hq in Hform. apply Hform. lia.
Qed.

End PublicKw.

