(* Unknown initial condition (unit roots, diffuse_method="fixed_unknown"): correcting the cached filter
   run for an estimate delta of the unknown part of the initial state (correct_for_unknown_init with the
   Xi recursion of predict) gives exactly the filter run started from the initial mean a + Xi_init delta.
   Hence every theorem about runs (C03: conditioning, likelihood; C08: smoother identities) applies to the
   corrected run.  The estimate itself solves the GLS normal equations. *)
From mathcomp Require Import all_ssreflect all_algebra.
From mathcomp Require Import ring.
From Verif.lib Require Import MatOps MatMC MatLemmas.
From Verif.model Require Import Kalman.
From Verif.proofs Require Import KalmanProofs.
Set Implicit Arguments.
Unset Strict Implicit.
Unset Printing Implicit Defensive.
Import GRing.Theory Num.Theory.
Local Open Scope ring_scope.

Section UnknownInit.
Variable F : realFieldType.
Variables (flog : F -> F) (flog2pi : F).
Notation M := (MC flog flog2pi).
Variables n nw k : nat.
Notation period := (period M n nw).
Notation fper := (fper M n nw).
Notation kstep := (@kf_step M n nw).
Notation krun := (@kf_run M n nw).
Implicit Types (p : period) (a d : 'cV[F]_n) (Q : 'M[F]_n) (Xi : 'M[F]_(n, k)) (delta : 'cV[F]_k).

Lemma shift_step a d Q p Xi delta : p_T p *m d = Xi *m delta ->
  mkFper p (kstep (a + d) Q p) = @correct_step M n nw k delta (mkFper p (kstep a Q p)) Xi.
Proof.
move=> Hd.
have E0 : f_a0 (kstep (a + d) Q p) = f_a0 (kstep a Q p) + Xi *m delta.
  by rewrite /kf_step /=; case: (p_v p) => [v|]; rewrite mulmxDr Hd; mx_abel.
have Ey : f_y0 (kstep (a + d) Q p) = f_y0 (kstep a Q p) + p_Z p *m Xi *m delta.
  rewrite -[LHS]/(p_Z p *m f_a0 (kstep (a + d) Q p) + p_D p + p_H p *m p_w0 p) E0.
  rewrite -[f_y0 (kstep a Q p)]/(p_Z p *m f_a0 (kstep a Q p) + p_D p + p_H p *m p_w0 p) mulmxDr mulmxA.
  by mx_abel.
have Ep : f_pe (kstep (a + d) Q p) = f_pe (kstep a Q p) - p_Z p *m Xi *m delta.
  rewrite -[LHS]/(p_y p - f_y0 (kstep (a + d) Q p)) Ey -[f_pe (kstep a Q p)]/(p_y p - f_y0 (kstep a Q p)).
  by rewrite opprD addrA.
by rewrite /correct_step /= -E0 -Ey -Ep.
Qed.


Lemma a1E a Q p : f_a1 (kstep a Q p) = f_a0 (kstep a Q p) + f_G (kstep a Q p) *m f_pe (kstep a Q p).
Proof. by []. Qed.

Local Opaque kf_step.

(* what the correction adds to the updated mean of the previous period, in terms of the Xi recursion *)
Definition prev_shift (prev : option fper) Xi delta : 'cV[F]_n :=
  match prev with
  | None => Xi *m delta
  | Some y => (Xi - f_G (ff y) *m p_Z (fp y) *m Xi) *m delta
  end.

Lemma map2_cons A B C (g : A -> B -> C) x l y r : map2 g (x :: l) (y :: r) = g x y :: map2 g l r.
Proof. by []. Qed.

Lemma correct_is_rerun_from a Q ps prev Xi delta :
  map2 (@correct_step M n nw k delta) (krun a Q ps) (@xi_run M n nw k Xi prev (krun a Q ps))
  = krun (a + prev_shift prev Xi delta) Q ps.
Proof.
elim: ps a Q prev Xi => [|p ps IH] a Q prev Xi; first by [].
rewrite !krun_cons.
set x := mkFper p (kstep a Q p).
set Xi' := match prev with
           | None => p_T p *m Xi
           | Some y => (p_T p - p_T p *m f_G (ff y) *m p_Z (fp y)) *m Xi
           end.
have -> : @xi_run M n nw k Xi prev (x :: krun (f_a1 (ff x)) (f_Q1 (ff x)) ps)
          = Xi' :: @xi_run M n nw k Xi' (Some x) (krun (f_a1 (ff x)) (f_Q1 (ff x)) ps) by [].
have Hd : p_T p *m prev_shift prev Xi delta = Xi' *m delta.
  rewrite /prev_shift /Xi'; case: (prev) => [y|]; last by rewrite mulmxA.
  by rewrite !(mulmxBr, mulmxBl) !mulmxA.
have Es := shift_step a Q Hd.
have Ea : f_a1 (kstep (a + prev_shift prev Xi delta) Q p)
          = f_a1 (ff x) + prev_shift (Some x) Xi' delta.
  have -> : f_a1 (kstep (a + prev_shift prev Xi delta) Q p)
            = f_a1 (ff (mkFper p (kstep (a + prev_shift prev Xi delta) Q p))) by [].
  rewrite Es /correct_step /prev_shift /= a1E.
  by mx_expand; mx_abel.
have EQ : f_Q1 (kstep (a + prev_shift prev Xi delta) Q p) = f_Q1 (ff x).
  have -> : f_Q1 (kstep (a + prev_shift prev Xi delta) Q p)
            = f_Q1 (ff (mkFper p (kstep (a + prev_shift prev Xi delta) Q p))) by [].
  by rewrite Es.
by rewrite map2_cons -Es IH Ea EQ.
Qed.

(* C08 / C03 for unit-root models: the corrected cache is the filter run from the corrected initial mean *)
Theorem correct_is_rerun a Q ps Xi delta :
  map2 (@correct_step M n nw k delta) (krun a Q ps) (@xi_run M n nw k Xi None (krun a Q ps))
  = krun (a + Xi *m delta) Q ps.
Proof. exact: (correct_is_rerun_from a Q ps None Xi delta). Qed.

Theorem correct_for_unknown_init_is_rerun a Q ps Xi :
  @correct_for_unknown_init M n nw k Xi (krun a Q ps)
  = krun (a + Xi *m @estimate_unknown_init M n nw k (krun a Q ps) (@xi_run M n nw k Xi None (krun a Q ps))) Q ps.
Proof. by rewrite /correct_for_unknown_init correct_is_rerun. Qed.


(* estimate_unknown_init solves the GLS normal equations  (sum M_t' F_t^-1 M_t) delta = sum M_t' F_t^-1 pe_t,
   M_t = Z_t Xi_t, whenever that system is non-singular *)
Definition gls_terms (fs : seq fper) (Xis : seq 'M[F]_(n, k)) :=
  map2 (fun (x : fper) (Xi : 'M[F]_(n, k)) =>
          let Mt := p_Z (fp x) *m Xi in let Mt_Fi := Mt^T *m f_Fi (ff x) in
          (Mt_Fi *m Mt, Mt_Fi *m f_pe (ff x))) fs Xis.
Definition gls_S fs Xis : 'M[F]_k := @symmetrize M k (@sum_mx M k k (List.map fst (gls_terms fs Xis))).
Definition gls_b fs Xis : 'cV[F]_k := @sum_mx M k 1 (List.map snd (gls_terms fs Xis)).

Theorem estimate_solves_normal_equations fs Xis :
  gls_S fs Xis \in unitmx ->
  gls_S fs Xis *m @estimate_unknown_init M n nw k fs Xis = gls_b fs Xis.
Proof. by move=> uS; rewrite /estimate_unknown_init -/(gls_terms fs Xis) -/(gls_S fs Xis) /= mulKVmx. Qed.

End UnknownInit.
