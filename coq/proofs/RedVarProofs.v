(* C18: theorems about the algebra layer of model/RedVar.v, proved on the MathComp instance of the
   matrix interface (lib/MxC18MC.v) over an arbitrary real field F.
   numpy.linalg.solve enters only through its contract [solve_spec]. *)
From Verif Require Import lib.MxC18 lib.MxC18MC gen.RedVarGen model.RedVar.
From mathcomp Require Import all_ssreflect all_algebra.
From mathcomp Require Import ring.

Set Implicit Arguments.
Unset Strict Implicit.
Unset Printing Implicit Defensive.

Import GRing.Theory.
Local Open Scope ring_scope.

(* contract of numpy.linalg.solve: on an invertible matrix the returned X satisfies M X = N *)
Definition solve_contract (F : fieldType) (solve : forall n p : nat, 'M[F]_n -> 'M[F]_(n, p) -> 'M[F]_(n, p)) : Prop :=
  forall (n p : nat) (M : 'M[F]_n) (N : 'M[F]_(n, p)), M \in unitmx -> M *m solve n p M N = N.

Section RedVarTheory.
Variable F : fieldType.
Variable solve : forall n p : nat, 'M[F]_n -> 'M[F]_(n, p) -> 'M[F]_(n, p).
Hypothesis solve_spec : solve_contract solve.

Notation MCF := (MC solve).

(* ------------------------------------------------------------------ *)
(* OLS: normal equations, orthogonality, noise-free recovery            *)
(* ------------------------------------------------------------------ *)
Section OLS.
Variables n r N : nat.
Implicit Types (L : 'M[F]_(n, N)) (R : 'M[F]_(r, N)).

Lemma ols_normal_equations L R :
  R *m R^T \in unitmx -> ols (M := MCF) L R *m (R *m R^T) = L *m R^T.
Proof.
move=> u; rewrite /ols /gen_ols /=.
have := @solve_spec _ _ (R *m R^T) (R *m L^T) u.
move/(congr1 trmx); rewrite !trmx_mul !trmxK => <-.
by [].
Qed.

Lemma ols_orthogonal L R :
  R *m R^T \in unitmx -> (L - ols (M := MCF) L R *m R) *m R^T = 0.
Proof. by move=> u; rewrite mulmxBl -mulmxA ols_normal_equations // subrr. Qed.

Lemma ols_unique L R (b : 'M[F]_(n, r)) :
  R *m R^T \in unitmx -> b *m (R *m R^T) = L *m R^T -> ols (M := MCF) L R = b.
Proof.
move=> u e; have := ols_normal_equations L u; rewrite -e.
by move/(congr1 (mulmx^~ (invmx (R *m R^T)))); rewrite !mulmxK.
Qed.

Lemma ols_noise_free (b : 'M[F]_(n, r)) R :
  R *m R^T \in unitmx -> ols (M := MCF) (b *m R) R = b.
Proof. by move=> u; apply: ols_unique => //; rewrite mulmxA. Qed.

End OLS.

Lemma fit_res_id (m n : nat) (y a b d : 'M[F]_(m, n)) : a + b + d + (y - a - b - d) = y.
Proof. by apply/matrixP=> i j; rewrite !mxE; ring. Qed.

(* ------------------------------------------------------------------ *)
(* column selection (X[:, where]) commutes with the algebra             *)
(* ------------------------------------------------------------------ *)
Section ColSel.
Variables (k N : nat) (f : 'I_k -> 'I_N).

Lemma colsel_mul m p (A : 'M[F]_(m, p)) (B : 'M[F]_(p, N)) : colsel f (A *m B) = A *m colsel f B.
Proof. by apply/matrixP=> i j; rewrite !mxE; apply: eq_bigr => l _; rewrite !mxE. Qed.

Lemma colsel_sub m (A B : 'M[F]_(m, N)) : colsel f (A - B) = colsel f A - colsel f B.
Proof. by apply/matrixP=> i j; rewrite !mxE. Qed.

Lemma colsel_add m (A B : 'M[F]_(m, N)) : colsel f (A + B) = colsel f A + colsel f B.
Proof. by apply/matrixP=> i j; rewrite !mxE. Qed.

Lemma colsel_col m (A : 'M[F]_(m, N)) j : col j (colsel f A) = col (f j) A.
Proof. by apply/matrixP=> i j'; rewrite !mxE. Qed.
End ColSel.

Lemma col_mulmx m p N (A : 'M[F]_(m, p)) (B : 'M[F]_(p, N)) j : col j (A *m B) = A *m col j B.
Proof. by apply/matrixP=> i j'; rewrite !mxE; apply: eq_bigr => l _; rewrite !mxE. Qed.


(* ---- covariance ---- *)
Lemma dof_count_intercept n q m k dof : (k <= 1)%N -> dof_count n q m k dof = if dof then (m + k)%N else 0%N.
Proof. by case: k => [|[|k]] //; case: dof. Qed.

Lemma second_moment_sym n Nw d (Uw : 'M[F]_(n, Nw)) :
  (second_moment (M := MCF) d Uw)^T = second_moment (M := MCF) d Uw.
Proof. by rewrite /second_moment /gen_symmetrize /gen_cov_residuals /= linearZ /= linearD /= trmxK addrC. Qed.

Lemma second_moment_eq n Nw d (Uw : 'M[F]_(n, Nw)) : (2%:R : F) != 0 ->
  second_moment (M := MCF) d Uw = (Nw%:R - d%:R)^-1 *: (Uw *m Uw^T).
Proof.
move=> two; rewrite /second_moment /gen_symmetrize /gen_cov_residuals /=.
set S := _ *: (Uw *m Uw^T).
have -> : S^T = S by rewrite /S linearZ /= trmx_mul trmxK.
by rewrite -mulr2n -scaler_nat scalerA mulVf // scale1r.
Qed.


(* ------------------------------------------------------------------ *)
(* rectangular identities and stacks of lags                            *)
(* ------------------------------------------------------------------ *)
Lemma eyeR1 a : eyeR F a a = 1%:M.
Proof. by apply/matrixP=> i j; rewrite !mxE. Qed.

Lemma eyeR_block a b d : eyeR F (a + b) (a + d) = block_mx 1%:M 0 0 (eyeR F b d).
Proof.
apply/matrixP=> i j; rewrite mxE.
case: (split_ordP i) => i' ->; case: (split_ordP j) => j' ->.
- by rewrite block_mxEul !mxE.
- rewrite block_mxEur !mxE /=.
  by have /ltn_eqF -> // : (i' < a + j')%N by rewrite (leq_trans (ltn_ord i')) // leq_addr.
- rewrite block_mxEdl !mxE /=.
  by have /gtn_eqF -> // : (j' < a + i')%N by rewrite (leq_trans (ltn_ord j')) // leq_addr.
- by rewrite block_mxEdr !mxE /= eqn_add2l.
Qed.

Lemma eyeR_col a b : eyeR F (a + b) a = col_mx 1%:M 0.
Proof.
apply/matrixP=> i j; rewrite mxE.
case: (split_ordP i) => i' ->; first by rewrite col_mxEu !mxE.
rewrite col_mxEd !mxE /=.
by have /gtn_eqF -> // : (j < a + i')%N by rewrite (leq_trans (ltn_ord j)) // leq_addr.
Qed.

Section Stack.
Variable n : nat.

(* vstack of the column vectors f 0, f 1, ..., f (j-1) *)
Fixpoint stackf (j : nat) (f : nat -> 'cV[F]_n) : 'cV[F]_(j * n) :=
  match j return 'cV[F]_(j * n) with
  | 0%N => 0
  | j'.+1 => col_mx (f 0%N) (stackf j' (fun i => f i.+1))
  end.

Definition hcons (y : 'cV[F]_n) (h : nat -> 'cV[F]_n) : nat -> 'cV[F]_n :=
  fun i => if i is i'.+1 then h i' else y.

Lemma stackf_inj j f g : stackf j f = stackf j g <-> (forall i, (i < j)%N -> f i = g i).
Proof.
elim: j f g => [|j IH] f g /=; first by split.
split=> [/eq_col_mx [e0 /IH e] [|i] //|e]; first by move=> /e.
by rewrite (e 0%N) //; congr col_mx; apply/IH => i lt; apply: e.
Qed.

Lemma stackf_ext j f g : f =1 g -> stackf j f = stackf j g.
Proof. by move=> e; apply/stackf_inj => i _. Qed.

Lemma stackf_cons j y h : stackf j.+1 (hcons y h) = col_mx y (stackf j h).
Proof. by []. Qed.

Lemma stackfS j f : stackf j.+1 f = col_mx (f 0%N) (stackf j (fun i => f i.+1)).
Proof. by []. Qed.

Lemma stackf_scale j a f : a *: stackf j f = stackf j (fun i => a *: f i).
Proof. by elim: j f => [|j IH] f /=; rewrite ?scaler0 // scale_col_mx IH. Qed.

Lemma stackf_surj j (v : 'cV[F]_(j * n)) : exists f, v = stackf j f.
Proof.
elim: j v => [|j IH] v; first by exists (fun _ => 0); rewrite [v]flatmx0.
have [f ef] := IH (dsubmx (v : 'cV[F]_(n + j * n))).
by exists (hcons (usubmx (v : 'cV[F]_(n + j * n))) f); rewrite stackf_cons -ef vsubmxK.
Qed.

(* numpy.eye(j n, n + j n) drops the last block of a stack *)
Lemma eyeR_stackf j f : eyeR F (j * n) (n + j * n) *m stackf j.+1 f = stackf j f.
Proof.
elim: j f => [|j IH] f; first by rewrite [LHS]flatmx0 [RHS]flatmx0.
rewrite [eyeR _ _ _](eyeR_block n (j * n) (n + j * n)).
rewrite [stackf j.+2 f]/(col_mx (f 0%N) (stackf j.+1 (fun i => f i.+1))).
by rewrite mul_block_col mul1mx !mul0mx addr0 add0r IH.
Qed.
End Stack.
Arguments stackf : simpl never.


(* pure abelian-group identities used below *)
Lemma resid_id (m n : nat) (y a b d : 'M[F]_(m, n)) : a + d + (y - (a + b + d)) + b = y.
Proof. by apply/matrixP=> i j; rewrite !mxE; ring. Qed.

Lemma rest_id (m n : nat) (s mu d : 'M[F]_(m, n)) : mu - s = d -> s + d + 0 + 0 = mu.
Proof. by move=> <-; apply/matrixP=> i j; rewrite !mxE; ring. Qed.

(* ------------------------------------------------------------------ *)
(* companion form, simulation, mean, eigen-structure, autocovariances   *)
(* ------------------------------------------------------------------ *)
Section Companion.
Variables n q m k : nat.
Notation np := (n + q * n)%N.
Variables (A : 'M[F]_(n, np)) (B : 'M[F]_(n, m)) (c : 'M[F]_(n, k)).

Let T : 'M[F]_(np, np) := companion_T (M := MCF) (n := n) (q := q) A.
Let cv : 'cV[F]_n := cvec (M := MCF) c.

(* the companion matrix acts on a stack of lags as the stacked recursion *)
Lemma companion_T_stack f :
  T *m stackf q.+1 f = col_mx (A *m stackf q.+1 f) (stackf q f).
Proof. by rewrite /T /companion_T /= mul_col_mx eyeR_stackf. Qed.

(* one period of simulate_flat: the new state is the stack of the new observation and the old lags *)
Theorem sim_step_stack h (u : 'cV[F]_n) (x : 'cV[F]_m) :
  sim_step (M := MCF) (n := n) (q := q) (m := m) (k := k) A B c (stackf q.+1 h) u x
  = stackf q.+1 (hcons (A *m stackf q.+1 h + cv + u + B *m x) h).
Proof.
rewrite stackf_cons /sim_step /companion_K /companion_P /exo_impact /= -/T -/cv companion_T_stack.
by rewrite eyeR_col mul_col_mx mul1mx mul0mx !add_col_mx !addr0.
Qed.

Lemma sim_obs_stack h : sim_obs (M := MCF) (n := n) (q := q) (stackf q.+1 h) = h 0%N.
Proof. by rewrite /sim_obs /= col_mxKu. Qed.

Lemma simulate_cons xi u x rest :
  simulate (M := MCF) (n := n) (q := q) (m := m) (k := k) A B c xi ((u, x) :: rest)
  = sim_obs (M := MCF) (n := n) (q := q) (sim_step (M := MCF) (n := n) (q := q) (m := m) (k := k) A B c xi u x)
    :: simulate (M := MCF) (n := n) (q := q) (m := m) (k := k) A B c
         (sim_step (M := MCF) (n := n) (q := q) (m := m) (k := k) A B c xi u x) rest.
Proof. by []. Qed.

(* ---- simulate(estimate) = data ---- *)
Section RoundTrip.
Variables (yd : nat -> 'cV[F]_n) (xd : nat -> 'cV[F]_m) (h0 : nat -> 'cV[F]_n).
(* lags available when period t is simulated: the data of periods t-1, t-2, ..., then the initial condition *)
Fixpoint hist (t : nat) : nat -> 'cV[F]_n := if t is t'.+1 then hcons (yd t') (hist t') else h0.
Definition resid (t : nat) : 'cV[F]_n := yd t - (A *m stackf q.+1 (hist t) + B *m xd t + cv).

Theorem simulate_roundtrip_path (N t0 : nat) :
  simulate (M := MCF) (n := n) (q := q) (m := m) (k := k) A B c (stackf q.+1 (hist t0))
    [seq (resid t, xd t) | t <- iota t0 N] = [seq yd t | t <- iota t0 N].
Proof.
elim: N t0 => [|N IH] t0 //.
rewrite [iota _ _]/= !map_cons simulate_cons sim_step_stack sim_obs_stack [hcons _ _ _]/=.
have -> : A *m stackf q.+1 (hist t0) + cv + resid t0 + B *m xd t0 = yd t0 by rewrite /resid resid_id.
by congr (_ :: _); rewrite -[stackf q.+1 (hcons _ _)]/(stackf q.+1 (hist t0.+1)) IH.
Qed.

(* the same with the data as matrices (one column per period) and the residuals computed by the model's
   [residuals], i.e. exactly what estimate stores and simulate reads *)
Variable N : nat.
Let Y0 : 'M[F]_(n, N) := \matrix_(i, t) yd t i 0.
Let Y1 : 'M[F]_(np, N) := \matrix_(i, t) stackf q.+1 (hist t) i 0.
Let X : 'M[F]_(m, N) := \matrix_(i, t) xd t i 0.
Let U : 'M[F]_(n, N) := residuals (M := MCF) (n := n) (q := q) (m := m) (k := k) A B c Y0 Y1 X (mones MCF k N).

Lemma col_of_cols r (f : nat -> 'cV[F]_r) (t : 'I_N) : col t (\matrix_(i, t') f t' i 0 : 'M[F]_(r, N)) = f t.
Proof. by apply/matrixP=> i j; rewrite !mxE ord1. Qed.

Lemma col_U (t : 'I_N) : col t U = resid t.
Proof.
rewrite /U /residuals /gen_residuals /= !linearB /= !col_mulmx !col_of_cols /resid.
have -> : col t (const_mx 1 : 'M[F]_(k, N)) = const_mx 1 by apply/matrixP=> i j; rewrite !mxE.
have -> : col t Y1 = stackf q.+1 (hist t) by exact: (col_of_cols (fun t' => stackf q.+1 (hist t'))).
by rewrite /cv /cvec /= !opprD !addrA.
Qed.

Theorem simulate_estimate_roundtrip :
  simulate (M := MCF) (n := n) (q := q) (m := m) (k := k) A B c (stackf q.+1 h0)
    [seq (col t U, col t X) | t <- enum 'I_N] = [seq col t Y0 | t <- enum 'I_N].
Proof.
have e1 : [seq (col t U, col t X) | t <- enum 'I_N] = [seq (resid t, xd t) | t <- iota 0 N].
  rewrite -val_enum_ord -[RHS]map_comp; apply: eq_map => t /=.
  by rewrite col_U col_of_cols.
have e2 : [seq col t Y0 | t <- enum 'I_N] = [seq yd t | t <- iota 0 N].
  by rewrite -val_enum_ord -[RHS]map_comp; apply: eq_map => t /=; rewrite col_of_cols.
by rewrite e1 e2 -[h0]/(hist 0); exact: simulate_roundtrip_path.
Qed.
End RoundTrip.

(* ---- mean ---- *)
Lemma tileI_mul j (mu : 'cV[F]_n) : tileI (M := MCF) n j *m mu = stackf j (fun _ => mu).
Proof. by elim: j => [|j IH] /=; rewrite ?mul0mx // stackfS mul_col_mx eyeR1 mul1mx IH. Qed.

Lemma sumA_const (mu : 'cV[F]_n) : A *m stackf q.+1 (fun _ => mu) = sumA (M := MCF) A *m mu.
Proof. by rewrite -tileI_mul mulmxA. Qed.

Theorem companion_mean :
  (1%:M - sumA (M := MCF) A) \in unitmx ->
  (1%:M - sumA (M := MCF) A) *m var_mean (M := MCF) (n := n) (q := q) (k := k) A c = cv.
Proof.
move=> u; rewrite /var_mean /cv /cvec /=.
case: eqP => [->|_]; first by rewrite mulmx0.
by rewrite [X in solve (X - _)]eyeR1; exact: (solve_spec _ u).
Qed.

(* the mean is the rest point of the recursion (no residuals, no exogenous input) *)
Theorem mean_rest_point (mu : 'cV[F]_n) :
  (1%:M - sumA (M := MCF) A) *m mu = cv ->
  sim_step (M := MCF) (n := n) (q := q) (m := m) (k := k) A B c (stackf q.+1 (fun _ => mu)) 0 0
  = stackf q.+1 (fun _ => mu).
Proof.
move=> e; rewrite sim_step_stack mulmx0 sumA_const.
rewrite (@rest_id _ _ (sumA (M := MCF) A *m mu) mu cv); last by rewrite -e mulmxBl mul1mx.
by apply/(@stackf_inj n q.+1) => -[|i].
Qed.

(* ---- eigen-structure: eigenvectors of the companion matrix are exactly the geometric lag stacks ---- *)
Theorem companion_eigen (lam : F) f :
  T *m stackf q.+1 f = lam *: stackf q.+1 f
  <-> (A *m stackf q.+1 f = lam *: f 0%N /\ forall i, (i < q)%N -> f i = lam *: f i.+1).
Proof.
rewrite companion_T_stack /= scale_col_mx stackf_scale; split.
  by case/eq_col_mx => e1 /stackf_inj e2.
by case=> -> /stackf_inj ->.
Qed.

(* ---- autocovariances ---- *)
Lemma topleft_T (Z : 'M[F]_(np, np)) : topleft (M := MCF) (n := n) (q := q) (T *m Z) = A *m lsubmx Z.
Proof.
rewrite /topleft /T /companion_T /= mul_col_mx col_mxKu.
by apply/matrixP=> i j; rewrite !mxE; apply: eq_bigr => l _; rewrite !mxE.
Qed.

Theorem acov0_yule_walker (S : 'M[F]_n) (Om : 'M[F]_(np, np)) :
  lyap_residual (M := MCF) (n := n) (q := q) T (companion_sigma (M := MCF) (n := n) (q := q) S) Om = 0 ->
  topleft (M := MCF) (n := n) (q := q) Om = A *m Om *m A^T + S.
Proof.
rewrite /lyap_residual /= => /eqP; rewrite subr_eq0 => /eqP e.
rewrite {1}e /topleft /T /companion_T /companion_sigma /=.
rewrite tr_col_mx mul_col_mx mul_col_row -/(block_mx _ _ _ _) -/(block_mx S _ _ _) add_block_mx.
by rewrite -/(ulsubmx _) block_mxKul.
Qed.

Theorem acov_from_nth (Om : 'M[F]_(np, np)) (upto j : nat) : (j <= upto)%N ->
  nth 0 (acov_from (M := MCF) (n := n) (q := q) T Om upto) j
  = topleft (M := MCF) (n := n) (q := q) (iter j (mulmx T) Om).
Proof.
elim: upto j Om => [|upto IH] [|j] Om //= lt.
by rewrite IH // -iterSr.
Qed.
End Companion.

(* ------------------------------------------------------------------ *)
(* _estimate_variant on stacked data                                    *)
(* ------------------------------------------------------------------ *)
Section Estimate.
Variables n q m k N Nw Nd : nat.
Notation np := (n + q * n)%N.
Notation nr := (np + (m + k))%N.
Variables (w : 'I_Nw -> 'I_N) (dof : bool).
Variables (Y0 : 'M[F]_(n, N)) (Y1 : 'M[F]_(np, N)) (X : 'M[F]_(m, N)) (Kc : 'M[F]_(k, N)).
Variables (Ld : 'M[F]_(n, Nd)) (Rd : 'M[F]_(nr, Nd)).

Let est := estimate_core (M := MCF) (n := n) (q := q) (m := m) (k := k) w dof Y0 Y1 X Kc Ld Rd.
Let L : 'M[F]_(n, Nw + Nd) := est.1.1.
Let R : 'M[F]_(nr, Nw + Nd) := est.1.2.
Let beta : 'M[F]_(n, nr) := est.2.1.1.
Let U : 'M[F]_(n, N) := est.2.1.2.
Let cov : 'M[F]_n := est.2.2.
Let Rall : 'M[F]_(nr, N) := rhs_stack (M := MCF) (n := n) (q := q) Y1 X Kc.
Let A : 'M[F]_(n, np) := coef_A (M := MCF) (n := n) (q := q) (m := m) (k := k) beta.
Let B : 'M[F]_(n, m) := coef_B (M := MCF) (n := n) (q := q) (m := m) (k := k) beta.
Let c : 'M[F]_(n, k) := coef_c (M := MCF) (n := n) (q := q) (m := m) (k := k) beta.

(* what is handed to ordinary_least_squares: fitted columns followed by the dummy observations *)
Lemma est_inputs : L = row_mx (colsel w Y0) Ld /\ R = row_mx (colsel w Rall) Rd.
Proof. by []. Qed.

Lemma est_beta_is_ols : beta = ols (M := MCF) L R.
Proof. by []. Qed.

Lemma beta_split : beta = row_mx A (row_mx B c).
Proof. by rewrite /A /B /c /coef_A /coef_B /coef_c /= !hsubmxK. Qed.

Lemma beta_mul_rhs p (Z1 : 'M[F]_(np, p)) (Z2 : 'M[F]_(m, p)) (Z3 : 'M[F]_(k, p)) :
  beta *m rhs_stack (M := MCF) (n := n) (q := q) Z1 Z2 Z3 = A *m Z1 + B *m Z2 + c *m Z3.
Proof. by rewrite {1}beta_split /rhs_stack /= !mul_row_col addrA. Qed.

Lemma est_residual_def : U = Y0 - A *m Y1 - B *m X - c *m Kc.
Proof. by []. Qed.

(* fitted equation + stored residual = data, on EVERY column (fitted or not) *)
Theorem est_fit_plus_residual : A *m Y1 + B *m X + c *m Kc + U = Y0.
Proof.
by rewrite est_residual_def fit_res_id.
Qed.

Lemma est_residual_beta : U = Y0 - beta *m Rall.
Proof. by rewrite /Rall beta_mul_rhs est_residual_def !opprD !addrA. Qed.

(* ... in particular on every fitted observation, column by column *)
Theorem est_fit_plus_residual_col (j : 'I_Nw) :
  A *m col (w j) Y1 + B *m col (w j) X + c *m col (w j) Kc + col (w j) U = col (w j) Y0.
Proof. by rewrite -!col_mulmx -!linearD /= est_fit_plus_residual. Qed.

Hypothesis full_rank : R *m R^T \in unitmx.

(* the estimate solves the normal equations of the fitted (+ dummy) observations *)
Theorem est_normal_equations : beta *m (R *m R^T) = L *m R^T.
Proof. exact: ols_normal_equations. Qed.

(* residuals are orthogonal to the regressors on the fitted columns (and the dummy observations) *)
Theorem est_residual_orthogonal :
  colsel w U *m (colsel w Rall)^T + (Ld - beta *m Rd) *m Rd^T = 0.
Proof.
have := ols_orthogonal L full_rank; rewrite -est_beta_is_ols.
have [-> ->] := est_inputs.
rewrite mul_mx_row opp_row_mx add_row_mx tr_row_mx mul_row_col.
by rewrite est_residual_beta colsel_sub colsel_mul.
Qed.


(* residual covariance = (optionally dof-corrected) second moment of the residuals on the fitted columns *)
Theorem est_cov : (2%:R : F) != 0 ->
  cov = (Nw%:R - (dof_count n q m k dof)%:R)^-1 *: (colsel w U *m (colsel w U)^T) /\ cov^T = cov.
Proof. by move=> two; split; [exact: second_moment_eq | exact: second_moment_sym]. Qed.

(* noise-free data generated by a VAR (and dummy observations consistent with it) return that VAR *)
Theorem est_noise_free (b : 'M[F]_(n, nr)) :
  colsel w Y0 = b *m colsel w Rall -> Ld = b *m Rd ->
  beta = b /\ colsel w U = 0 /\ cov = 0.
Proof.
move=> eY eL.
have eb : beta = b.
  rewrite est_beta_is_ols; have [-> ->] := est_inputs.
  rewrite eY eL -mul_mx_row; apply: ols_noise_free.
  by have [_ <-] := est_inputs.
have eU : colsel w U = 0 by rewrite est_residual_beta colsel_sub colsel_mul eb eY subrr.
split=> //; split=> //.
rewrite /cov /est /estimate_core /= -/est.
have -> : colsel w (residuals (M := MCF) (n := n) (q := q) (m := m) (k := k)
            (coef_A (M := MCF) (n := n) (q := q) (m := m) (k := k) beta)
            (coef_B (M := MCF) (n := n) (q := q) (m := m) (k := k) beta)
            (coef_c (M := MCF) (n := n) (q := q) (m := m) (k := k) beta) Y0 Y1 X Kc) = 0 by exact: eU.
by rewrite /second_moment /gen_symmetrize /gen_cov_residuals /= mul0mx scaler0 trmx0 addr0 scaler0.
Qed.

End Estimate.

End RedVarTheory.

(* without prior observations (no dummy columns) the orthogonality is the plain one *)
Theorem est_residual_orthogonal_no_prior (F : fieldType) (solve : forall n p : nat, 'M[F]_n -> 'M[F]_(n, p) -> 'M[F]_(n, p))
    (n q m k N Nw : nat) (w : 'I_Nw -> 'I_N) (dof : bool)
    (Y0 : 'M[F]_(n, N)) (Y1 : 'M[F]_(n + q * n, N)) (X : 'M[F]_(m, N)) (Kc : 'M[F]_(k, N))
    (Ld : 'M[F]_(n, 0)) (Rd : 'M[F]_(n + q * n + (m + k), 0)) :
  solve_contract solve ->
  let est := estimate_core (M := MC solve) (n := n) (q := q) (m := m) (k := k) w dof Y0 Y1 X Kc Ld Rd in
  let Rw : 'M[F]_(n + q * n + (m + k), Nw) := colsel w (col_mx Y1 (col_mx X Kc)) in
  let U : 'M[F]_(n, N) := est.2.1.2 in
  Rw *m Rw^T \in unitmx -> colsel w U *m Rw^T = 0.
Proof.
move=> sc; rewrite [Rd]thinmx0 => est Rw U u.
have := @est_residual_orthogonal F solve sc n q m k N Nw 0%N w dof Y0 Y1 X Kc Ld 0.
rewrite trmx0 mulmx0 addr0; apply.
by rewrite /= tr_row_mx mul_row_col trmx0 mulmx0 addr0.
Qed.

(* ------------------------------------------------------------------ *)
(* non-vacuity: the contract and the full-rank hypothesis are satisfiable *)
(* ------------------------------------------------------------------ *)
Lemma solve_by_inverse_contract (F : fieldType) :
  solve_contract (fun (n p : nat) (M : 'M[F]_n) (N : 'M[F]_(n, p)) => invmx M *m N).
Proof. by move=> n p M N u; rewrite mulKVmx. Qed.

(* a concrete regressor matrix over the rationals with R R' invertible, and OLS recovering the coefficients *)
Definition R_example : 'M[rat]_2 := (2%:R)%:M.

Example full_rank_example : R_example *m R_example^T \in unitmx.
Proof. by rewrite unitmx_mul unitmx_tr andbb unitmxE det_scalar unitfE expf_neq0 // pnatr_eq0. Qed.

Example noise_free_example (b : 'M[rat]_(1, 2)) :
  ols (M := MC (fun (n p : nat) (M : 'M[rat]_n) (N : 'M[rat]_(n, p)) => invmx M *m N)) (b *m R_example) R_example = b.
Proof. by apply: ols_noise_free; [exact: solve_by_inverse_contract | exact: full_rank_example]. Qed.
