(* Proofs about model/Frames.v and model/Stacked.v (C06). *)
From Coq Require Import ZArith List Bool Lia Sorted Permutation.
From Verif Require Import gen.FramesGen model.Frames model.Stacked.
Import ListNotations.
Open Scope Z_scope.

(* ------------------------------------------------------------------ ranges *)

Lemma zrange_from_length : forall n a, length (zrange_from a n) = n.
Proof. induction n; intros; simpl; auto. Qed.

Lemma zrange_from_app : forall n m a,
  zrange_from a (n + m) = zrange_from a n ++ zrange_from (a + Z.of_nat n) m.
Proof.
  induction n; intros; simpl.
  - f_equal. lia.
  - f_equal. rewrite IHn. f_equal. f_equal. lia.
Qed.

Lemma zrange_app : forall a b c, a <= b <= c -> zrange a b ++ zrange b c = zrange a c.
Proof.
  intros. unfold zrange.
  replace (Z.to_nat (c - a)) with (Z.to_nat (b - a) + Z.to_nat (c - b))%nat by lia.
  rewrite zrange_from_app. f_equal. f_equal. lia.
Qed.

Lemma zrange_from_In : forall n a x, In x (zrange_from a n) <-> a <= x < a + Z.of_nat n.
Proof.
  induction n; intros; simpl.
  - lia.
  - rewrite IHn. lia.
Qed.

Lemma zrange_In : forall a b x, In x (zrange a b) <-> a <= x < b.
Proof. intros. unfold zrange. rewrite zrange_from_In. lia. Qed.

Lemma zrange_from_last : forall n a d, (0 < n)%nat -> last (zrange_from a n) d = a + Z.of_nat n - 1.
Proof.
  induction n; intros. lia.
  destruct n.
  - simpl. lia.
  - change (zrange_from a (S (S n))) with (a :: zrange_from (a + 1) (S n)).
    assert (E : forall x l, l <> [] -> last (x :: l) d = last l d).
    { intros x l Hl. destruct l; [congruence | reflexivity]. }
    rewrite E by (simpl; congruence). rewrite IHn by lia. lia.
Qed.

Lemma zrange_from_single : forall a, zrange a (a + 1) = [a].
Proof. intros. unfold zrange. replace (a + 1 - a) with 1 by lia. reflexivity. Qed.

(* ------------------------------------------------------------------ periods of the dataslate *)

(* every cell an equation can read -- a base period shifted by any lag/lead between the deepest lag and the deepest
   lead of ANY quantity -- is a period of the dataslate, and its column is a valid non-negative index
   (no wrap-around to the end of the array) *)
Theorem extended_periods_cover : forall b0 b1 lo hi p s,
  b0 <= p <= b1 -> lo <= s <= hi ->
  let ps := extended_periods b0 b1 lo hi in
  In (p + s) ps
  /\ 0 <= column_of (b0 + lo) (p + s) < Z.of_nat (length ps)
  /\ nth (Z.to_nat (column_of (b0 + lo) (p + s))) ps 0 = p + s.
Proof.
  intros b0 b1 lo hi p s Hp Hs ps. unfold ps, extended_periods, column_of.
  split; [apply zrange_In; lia |].
  unfold zrange. rewrite zrange_from_length. split; [lia |].
  assert (G : forall n a k, (k < n)%nat -> nth k (zrange_from a n) 0 = a + Z.of_nat k).
  { induction n; intros a k Hk; [lia |]. destruct k; simpl; [lia |]. rewrite IHn by lia. lia. }
  rewrite G by lia. lia.
Qed.

(* ... and the base periods sit at the columns -lo, -lo+1, ... *)
Theorem base_columns_spec : forall b0 lo p, column_of (b0 + lo) p = p - b0 - lo.
Proof. intros. unfold column_of. lia. Qed.

(* ------------------------------------------------------------------ break periods *)

(* strictly increasing, inside [lo, hi) *)
Definition inc_in (lo hi : Z) (l : list Z) : Prop :=
  StronglySorted Z.lt l /\ Forall (fun x => lo <= x < hi) l.

Lemma inc_in_weaken : forall lo lo' hi l, lo' <= lo -> inc_in lo hi l -> inc_in lo' hi l.
Proof.
  intros lo lo' hi l H [S F]. split; auto.
  eapply Forall_impl; [| exact F]. simpl. intros. lia.
Qed.

Lemma inc_in_head : forall lo hi y r, inc_in lo hi (y :: r) -> inc_in y hi (y :: r).
Proof.
  intros lo hi y r [S F]. split; auto.
  inversion S as [| ? ? S' Hy]; subst. inversion F as [| ? ? Fy F']; subst.
  constructor. lia.
  rewrite Forall_forall in *. intros z Hz. specialize (Hy z Hz). specialize (F' z Hz). lia.
Qed.

Lemma break_periods_cons : forall b bp a ps,
  break_periods (b :: bp) (a :: ps) = if b then a :: break_periods bp ps else break_periods bp ps.
Proof. intros. unfold break_periods. simpl. destruct b; reflexivity. Qed.

Lemma break_periods_inc : forall n a bp, length bp = n ->
  inc_in a (a + Z.of_nat n) (break_periods bp (zrange_from a n)).
Proof.
  induction n; intros a bp L.
  - destruct bp; [| discriminate]. unfold break_periods. simpl. split; constructor.
  - destruct bp as [| b bp]; [discriminate |]. simpl in L. injection L as L.
    change (zrange_from a (S n)) with (a :: zrange_from (a + 1) n).
    rewrite break_periods_cons.
    specialize (IHn (a + 1) bp L).
    replace (a + 1 + Z.of_nat n) with (a + Z.of_nat (S n)) in IHn by lia.
    destruct b.
    + destruct IHn as [S F]. split.
      * constructor; auto. eapply Forall_impl; [| exact F]. simpl. intros. lia.
      * constructor. lia. eapply Forall_impl; [| exact F]. simpl. intros. lia.
    + eapply inc_in_weaken; [| exact IHn]. lia.
Qed.

Lemma break_periods_In : forall n a bp x, length bp = n ->
  (In x (break_periods bp (zrange_from a n)) <->
   a <= x < a + Z.of_nat n /\ nth (Z.to_nat (x - a)) bp false = true).
Proof.
  induction n; intros a bp x L.
  - destruct bp; [| discriminate]. unfold break_periods. simpl. lia.
  - destruct bp as [| b bp]; [discriminate |]. simpl in L. injection L as L.
    change (zrange_from a (S n)) with (a :: zrange_from (a + 1) n).
    rewrite break_periods_cons.
    specialize (IHn (a + 1) bp x L).
    destruct (Z.eq_dec x a) as [-> | N].
    + replace (a - a) with 0 by lia. simpl nth.
      destruct b; simpl.
      * split; [intros _; split; [lia | reflexivity] | intros _; left; reflexivity].
      * rewrite IHn. split; [lia | intros [_ H]; discriminate].
    + assert (E : a <= x -> Z.to_nat (x - a) = S (Z.to_nat (x - (a + 1)))) by lia.
      destruct b; simpl; rewrite IHn.
      * split.
        -- intros [H | [H1 H2]]; [lia |]. split; [lia |]. rewrite E by lia. exact H2.
        -- intros [H1 H2]. right. split; [lia |]. rewrite E in H2 by lia. exact H2.
      * split.
        -- intros [H1 H2]. split; [lia |]. rewrite E by lia. exact H2.
        -- intros [H1 H2]. split; [lia |]. rewrite E in H2 by lia. exact H2.
Qed.

(* ------------------------------------------------------------------ frames tile the base span *)

(* consecutive pairs (l_i, l_{i+1}), the last one closed by e *)
Definition pairs (l : list Z) (e : Z) : list (Z * Z) := combine l (tl l ++ [e]).

Lemma pairs_cons2 : forall x y r e, pairs (x :: y :: r) e = (x, y) :: pairs (y :: r) e.
Proof. reflexivity. Qed.

Lemma pairs_fst : forall l e, map fst (pairs l e) = l.
Proof.
  induction l as [| x [| y r] IH]; intros; try reflexivity.
  rewrite pairs_cons2. simpl map. f_equal. apply IH.
Qed.

Lemma pairs_tile : forall l x e, inc_in x e (x :: l) ->
  concat (map (fun sn => zrange (fst sn) (snd sn)) (pairs (x :: l) e)) = zrange x e
  /\ Forall (fun sn => fst sn < snd sn) (pairs (x :: l) e).
Proof.
  induction l as [| y r IH]; intros x e [S F].
  - simpl. rewrite app_nil_r. split; auto. constructor; [| constructor]. simpl.
    inversion F; subst. lia.
  - rewrite pairs_cons2. simpl map. simpl concat.
    inversion S as [| ? ? S' Hx]; subst. inversion F as [| ? ? Fx F']; subst.
    inversion Hx as [| ? ? Hxy _]; subst. inversion F' as [| ? ? Fy _]; subst.
    destruct (IH y e) as [T P].
    { apply (inc_in_head x). split; auto. }
    simpl fst; simpl snd. rewrite T. split.
    + apply zrange_app. lia.
    + constructor; auto.
Qed.

Definition frame_cover (f : frame) : list Z := zrange (f_start f) (f_end f + 1).

Lemma split_frames_eq : forall se bp ps,
  split_frames se bp ps =
  map (fun sn => mkFrame (fst sn) (snd sn - 1) (se (fst sn) (snd sn - 1)))
      (pairs (break_periods bp ps) (last ps 0 + 1)).
Proof. reflexivity. Qed.

(* frames partition the base span, in order; each frame is non-empty and starts at a break point;
   the first frame starts at the first base period *)
Theorem frames_tile : forall se n a bp,
  (0 < n)%nat -> length bp = n -> hd false bp = true ->
  let ps := zrange_from a n in
  let frs := split_frames se bp ps in
  concat (map frame_cover frs) = ps
  /\ map f_start frs = break_periods bp ps
  /\ Forall (fun f => f_start f <= f_end f
                      /\ a <= f_start f < a + Z.of_nat n
                      /\ nth (Z.to_nat (f_start f - a)) bp false = true
                      /\ f_sim_end f = se (f_start f) (f_end f)) frs
  /\ hd_error (map f_start frs) = Some a.
Proof.
  intros se n a bp Hn L Hhd ps frs.
  assert (HB := break_periods_inc n a bp L).
  destruct bp as [| b bp']; [simpl in L; lia |]. simpl in Hhd. subst b.
  destruct n as [| n']; [lia |].
  assert (Ebp : break_periods (true :: bp') (zrange_from a (S n')) =
                a :: break_periods bp' (zrange_from (a + 1) n')).
  { change (zrange_from a (S n')) with (a :: zrange_from (a + 1) n'). apply break_periods_cons. }
  assert (El : last ps 0 + 1 = a + Z.of_nat (S n')).
  { unfold ps. rewrite zrange_from_last by lia. lia. }
  unfold frs. rewrite split_frames_eq. fold ps. rewrite El.
  fold ps in HB, Ebp. rewrite Ebp in *.
  destruct (pairs_tile _ _ _ HB) as [T P].
  repeat split.
  - rewrite map_map.
    erewrite map_ext; [| intros sn; unfold frame_cover; simpl;
                        replace (snd sn - 1 + 1) with (snd sn) by lia; reflexivity].
    rewrite T. unfold ps, zrange. f_equal. lia.
  - rewrite map_map. simpl. apply pairs_fst.
  - rewrite Forall_map. rewrite Forall_forall. intros sn Hin. simpl.
    rewrite Forall_forall in P. specialize (P sn Hin).
    assert (Hs : In (fst sn) (a :: break_periods bp' (zrange_from (a + 1) n'))).
    { rewrite <- (pairs_fst _ (a + Z.of_nat (S n'))). apply in_map. exact Hin. }
    rewrite <- Ebp in Hs. unfold ps in Hs.
    rewrite (break_periods_In (S n') a (true :: bp') (fst sn) L) in Hs.
    destruct Hs as [H1 H2]. repeat split; try lia. exact H2.
  - rewrite map_map. simpl. rewrite pairs_fst. reflexivity.
Qed.

(* ------------------------------------------------------------------ break points from data and plan *)

Lemma map2_orb_length : forall a b n, length a = n -> length b = n -> length (map2 orb a b) = n.
Proof.
  induction a; intros b n Ha Hb; destruct b; simpl in *; try lia.
  destruct n; [lia |]. f_equal. apply IHa; lia.
Qed.

Lemma map2_orb_nth : forall a b k, length a = length b ->
  nth k (map2 orb a b) false = nth k a false || nth k b false.
Proof.
  induction a; intros b k H; destruct b; simpl in *; try lia.
  - destruct k; reflexivity.
  - destruct k; auto.
Qed.

Lemma col_any_fold : forall n rows acc,
  length acc = n -> Forall (fun r => length r = n) rows ->
  length (fold_left (fun acc r => map2 orb acc r) rows acc) = n
  /\ forall k, nth k (fold_left (fun acc r => map2 orb acc r) rows acc) false
               = nth k acc false || existsb (fun r => nth k r false) rows.
Proof.
  induction rows as [| r rows IH]; intros acc Ha HF; simpl.
  - split; auto. intros. rewrite orb_false_r. reflexivity.
  - inversion HF as [| ? ? Hr HF']; subst.
    destruct (IH (map2 orb acc r)) as [L N]; auto.
    { apply map2_orb_length; auto. }
    split; auto. intros k. rewrite N, map2_orb_nth by lia. rewrite orb_assoc. reflexivity.
Qed.

Lemma nth_repeat_false : forall n k, nth k (repeat false n) false = false.
Proof. induction n; destruct k; simpl; auto. Qed.

(* _update_break_points: a column becomes a break point when it already is one or some row has a finite non-zero
   value (a set flag, for the plan register) there *)
Theorem update_break_points_spec : forall V (nz : V -> bool) bp arr,
  Forall (fun r => length r = length bp) arr ->
  length (update_break_points nz bp arr) = length bp
  /\ forall k, nth k (update_break_points nz bp arr) false
               = nth k bp false || existsb (fun r => nth k (map nz r) false) arr.
Proof.
  intros V nz bp arr HF. unfold update_break_points, col_any.
  destruct (col_any_fold (length bp) (map (map nz) arr) (repeat false (length bp))) as [L N].
  { apply repeat_length. }
  { rewrite Forall_map. eapply Forall_impl; [| exact HF]. intros r Hr. simpl. rewrite map_length. exact Hr. }
  split.
  - apply map2_orb_length; auto.
  - intros k. rewrite map2_orb_nth by lia. rewrite N, nth_repeat_false. simpl.
    f_equal. clear. induction arr; simpl; auto. rewrite IHarr. reflexivity.
Qed.

Lemma initial_break_points_spec : forall n, (0 < n)%nat ->
  length (initial_break_points n) = n /\ hd false (initial_break_points n) = true.
Proof. intros. destruct n; [lia |]. simpl. rewrite repeat_length. auto. Qed.

Lemma hd_nth0 : forall (l : list bool), hd false l = nth 0 l false.
Proof. destruct l; reflexivity. Qed.

(* the break-point vector the stacked-time simulator builds always has the length of the base span and its
   first entry set, so [frames_tile] applies to it *)
Theorem populate_base_break_points_wf : forall V (nz : V -> bool) n ucut pcut,
  (0 < n)%nat ->
  match ucut with Some a => Forall (fun r => length r = n) a | None => True end ->
  match pcut with Some a => Forall (fun r => length r = n) a | None => True end ->
  length (populate_base_break_points nz n ucut pcut) = n
  /\ hd false (populate_base_break_points nz n ucut pcut) = true.
Proof.
  intros V nz n ucut pcut Hn Hu Hp. unfold populate_base_break_points.
  destruct (initial_break_points_spec n Hn) as [L0 H0].
  set (bp0 := initial_break_points n) in *.
  assert (B1 : length (match ucut with Some a => update_break_points nz bp0 a | None => bp0 end) = n
               /\ hd false (match ucut with Some a => update_break_points nz bp0 a | None => bp0 end) = true).
  { destruct ucut as [a |]; auto.
    destruct (update_break_points_spec V nz bp0 a) as [L N]; [rewrite L0; auto |].
    split; [lia |]. rewrite hd_nth0, N, <- hd_nth0, H0. reflexivity. }
  destruct B1 as [L1 H1].
  set (bp1 := match ucut with Some a => update_break_points nz bp0 a | None => bp0 end) in *.
  destruct pcut as [a |]; auto.
  destruct (update_break_points_spec bool (fun b => b) bp1 a) as [L N]; [rewrite L1; auto |].
  split; [lia |]. rewrite hd_nth0, N, <- hd_nth0, H1. reflexivity.
Qed.

(* ------------------------------------------------------------------ period by period = single-period frames *)

Lemma break_periods_all : forall n a, break_periods (all_break_points n) (zrange_from a n) = zrange_from a n.
Proof.
  induction n; intros. reflexivity.
  change (all_break_points (S n)) with (true :: all_break_points n).
  change (zrange_from a (S n)) with (a :: zrange_from (a + 1) n).
  rewrite break_periods_cons. f_equal. apply IHn.
Qed.

Lemma pairs_zrange : forall n a,
  pairs (zrange_from a n) (a + Z.of_nat n) = map (fun p => (p, p + 1)) (zrange_from a n).
Proof.
  induction n; intros. reflexivity.
  destruct n.
  - reflexivity.
  - change (zrange_from a (S (S n))) with (a :: (a + 1) :: zrange_from (a + 1 + 1) n).
    rewrite pairs_cons2. simpl map. f_equal.
    change ((a + 1) :: zrange_from (a + 1 + 1) n) with (zrange_from (a + 1) (S n)).
    replace (a + Z.of_nat (S (S n))) with (a + 1 + Z.of_nat (S n)) by lia.
    apply IHn.
Qed.

Theorem pbp_is_single_period_frames : forall n a, (0 < n)%nat ->
  pbp_frames (zrange_from a n) = map (fun p => mkFrame p p p) (zrange_from a n).
Proof.
  intros. unfold pbp_frames. rewrite split_frames_eq, zrange_from_length, break_periods_all.
  rewrite zrange_from_last by lia.
  replace (a + Z.of_nat n - 1 + 1) with (a + Z.of_nat n) by lia.
  rewrite pairs_zrange, map_map. apply map_ext. intros p. simpl.
  replace (p + 1 - 1) with p by lia. reflexivity.
Qed.

(* a single-period frame: one column to run, nothing pruned *)
Theorem single_period_frame : forall {V} (zero : V) uq fcp p d,
  let f := mkFrame p p p in
  columns_to_run fcp f = [p - fcp]
  /\ f_first fcp f = f_last fcp f /\ f_last fcp f = f_sim_last fcp f
  /\ prune zero uq fcp f d = d.
Proof.
  intros. unfold columns_to_run, f_first, f_last, f_sim_last, prune, f,
    fr_first, fr_last, fr_simulation_last, prune_skipped. simpl.
  rewrite Z.eqb_refl. repeat split; auto.
  apply zrange_from_single.
Qed.

(* ------------------------------------------------------------------ spots: order, membership *)

Definition slt (a b : spot) : Prop := fst a < fst b \/ (fst a = fst b /\ snd a < snd b).

Lemma spot_eqb_eq : forall a b, spot_eqb a b = true <-> a = b.
Proof.
  intros [a1 a2] [b1 b2]. unfold spot_eqb. simpl. rewrite andb_true_iff, !Z.eqb_eq.
  split; [intros [-> ->]; reflexivity | intros H; inversion H; auto].
Qed.

Lemma spot_eqb_refl : forall a, spot_eqb a a = true.
Proof. intros. apply spot_eqb_eq. reflexivity. Qed.

Lemma spot_ltb_slt : forall a b, spot_ltb a b = true <-> slt a b.
Proof.
  intros [a1 a2] [b1 b2]. unfold spot_ltb, slt. simpl.
  rewrite orb_true_iff, andb_true_iff, !Z.ltb_lt, Z.eqb_eq. tauto.
Qed.

Lemma slt_irrefl : forall a, ~ slt a a.
Proof. intros a [H | [_ H]]; lia. Qed.

Lemma slt_trans : forall a b c, slt a b -> slt b c -> slt a c.
Proof. unfold slt. intros. lia. Qed.

Lemma slt_total : forall a b, slt a b \/ a = b \/ slt b a.
Proof.
  intros [a1 a2] [b1 b2]. unfold slt. simpl.
  destruct (Z.lt_trichotomy a1 b1) as [H | [H | H]]; [left; lia | | right; right; lia].
  destruct (Z.lt_trichotomy a2 b2) as [K | [K | K]]; [left; lia | right; left; congruence | right; right; lia].
Qed.

Lemma smem_In : forall s l, smem s l = true <-> In s l.
Proof.
  intros. unfold smem. rewrite existsb_exists. split.
  - intros [x [H E]]. apply spot_eqb_eq in E. subst. exact H.
  - intros H. exists s. split; auto. apply spot_eqb_refl.
Qed.

Lemma smem_false : forall s l, smem s l = false <-> ~ In s l.
Proof. intros. rewrite <- smem_In. destruct (smem s l); split; congruence. Qed.

Lemma zmem_In : forall x l, zmem x l = true <-> In x l.
Proof.
  intros. unfold zmem. rewrite existsb_exists. split.
  - intros [y [H E]]. apply Z.eqb_eq in E. subst. exact H.
  - intros H. exists x. split; auto. apply Z.eqb_refl.
Qed.

(* ------------------------------------------------------------------ sorted(set(...)) *)

Lemma sinsert_In : forall s l x, In x (sinsert s l) <-> x = s \/ In x l.
Proof.
  induction l as [| y r IH]; intros x; simpl.
  - intuition.
  - destruct (spot_ltb s y) eqn:L.
    + simpl. intuition.
    + destruct (spot_eqb s y) eqn:E.
      * apply spot_eqb_eq in E. subst. simpl. intuition.
      * simpl. rewrite IH. intuition.
Qed.

Lemma sinsert_sorted : forall s l, StronglySorted slt l -> StronglySorted slt (sinsert s l).
Proof.
  induction l as [| y r IH]; intros S; simpl.
  - constructor; constructor.
  - inversion S as [| ? ? S' Hy]; subst.
    destruct (spot_ltb s y) eqn:L.
    + apply spot_ltb_slt in L. constructor; auto. constructor; auto.
      eapply Forall_impl; [| exact Hy]. intros z Hz. eapply slt_trans; eauto.
    + destruct (spot_eqb s y) eqn:E; auto.
      constructor; auto.
      rewrite Forall_forall. intros z Hz. apply sinsert_In in Hz. destruct Hz as [-> | Hz].
      * destruct (slt_total s y) as [H | [H | H]]; auto.
        -- apply spot_ltb_slt in H. congruence.
        -- subst. rewrite spot_eqb_refl in E. discriminate.
      * rewrite Forall_forall in Hy. auto.
Qed.

Lemma sort_spots_In : forall l x, In x (sort_spots l) <-> In x l.
Proof.
  induction l; intros; simpl. tauto.
  rewrite sinsert_In, IHl. intuition.
Qed.

Lemma sort_spots_sorted : forall l, StronglySorted slt (sort_spots l).
Proof. induction l; simpl. constructor. apply sinsert_sorted. auto. Qed.

Lemma sorted_NoDup : forall l, StronglySorted slt l -> NoDup l.
Proof.
  induction l; intros S. constructor.
  inversion S as [| ? ? S' H]; subst. constructor; auto.
  intros Hin. rewrite Forall_forall in H. apply (slt_irrefl a). auto.
Qed.

Lemma sort_spots_NoDup : forall l, NoDup (sort_spots l).
Proof. intros. apply sorted_NoDup, sort_spots_sorted. Qed.

(* two duplicate-free lists with the same elements have the same length *)
Lemma NoDup_same_length : forall (A : Type) (l1 l2 : list A),
  NoDup l1 -> NoDup l2 -> (forall x, In x l1 <-> In x l2) -> length l1 = length l2.
Proof. intros. apply Permutation_length. apply NoDup_Permutation; auto. Qed.

Lemma NoDup_app_disj : forall (A : Type) (l1 l2 : list A),
  NoDup l1 -> NoDup l2 -> (forall x, In x l1 -> In x l2 -> False) -> NoDup (l1 ++ l2).
Proof.
  induction l1; intros l2 N1 N2 D; simpl; auto.
  inversion N1; subst. constructor.
  - rewrite in_app_iff. intros [H | H]; [contradiction | eapply D; [left; reflexivity | exact H]].
  - apply IHl1; auto. intros x H1' H2'. eapply D; [right; exact H1' | exact H2'].
Qed.

Lemma filter_split_length : forall (A : Type) (f : A -> bool) l,
  (length (filter f l) + length (filter (fun x => negb (f x)) l))%nat = length l.
Proof. induction l; simpl; auto. destruct (f a); simpl; lia. Qed.

(* ------------------------------------------------------------------ wrt_spots: set algebra and cardinality *)

Theorem swap_spots_In : forall base exog endog s,
  In s (swap_spots base exog endog) <-> (In s base /\ ~ In s exog) \/ In s endog.
Proof.
  intros. unfold swap_spots. rewrite sort_spots_In, in_app_iff, filter_In, negb_true_iff, smem_false. tauto.
Qed.

Theorem swap_spots_sorted : forall base exog endog, StronglySorted slt (swap_spots base exog endog).
Proof. intros. apply sort_spots_sorted. Qed.

(* cardinality: |unknowns| + |exogenized| = |endogenous cells| + |endogenized|, counting each cell once,
   when the exogenized cells are endogenous cells and the endogenized cells are not *)
Theorem swap_spots_length : forall base exog endog,
  NoDup base -> incl exog base -> (forall s, In s endog -> ~ In s base) ->
  (length (swap_spots base exog endog) + length (sort_spots exog))%nat
  = (length base + length (sort_spots endog))%nat.
Proof.
  intros base exog endog ND Hex Hen.
  set (keep := filter (fun s => negb (smem s exog)) base).
  set (drop := filter (fun s => negb (negb (smem s exog))) base).
  assert (L1 : length (swap_spots base exog endog) = (length keep + length (sort_spots endog))%nat).
  { rewrite <- app_length. apply NoDup_same_length.
    - apply sort_spots_NoDup.
    - apply NoDup_app_disj; [apply NoDup_filter; auto | apply sort_spots_NoDup |].
      intros x Hk Hn. apply filter_In in Hk. rewrite sort_spots_In in Hn. destruct Hk. eapply Hen; eauto.
    - intros x. unfold swap_spots. rewrite sort_spots_In, !in_app_iff, sort_spots_In. tauto. }
  assert (L2 : length drop = length (sort_spots exog)).
  { apply NoDup_same_length.
    - apply NoDup_filter; auto.
    - apply sort_spots_NoDup.
    - intros x. unfold drop. rewrite filter_In, negb_involutive, smem_In, sort_spots_In.
      split; [tauto | intros H; split; auto]. }
  assert (L3 : (length keep + length drop)%nat = length base)
    by exact (filter_split_length _ (fun s => negb (smem s exog)) base).
  lia.
Qed.

Lemma base_spots_In : forall cols qids q c, In (q, c) (base_spots cols qids) <-> In c cols /\ In q qids.
Proof.
  intros. unfold base_spots. rewrite in_flat_map. split.
  - intros [c' [Hc Hin]]. apply in_map_iff in Hin. destruct Hin as [q' [E Hq]]. inversion E; subst. auto.
  - intros [Hc Hq]. exists c. split; auto. apply in_map_iff. exists q. auto.
Qed.

Lemma base_spots_length : forall cols qids, length (base_spots cols qids) = (length cols * length qids)%nat.
Proof.
  intros cols qids. unfold base_spots. induction cols; [reflexivity |].
  cbn [flat_map]. rewrite app_length, map_length.
  etransitivity; [apply f_equal; exact IHcols | reflexivity].
Qed.

Lemma base_spots_NoDup : forall cols qids, NoDup cols -> NoDup qids -> NoDup (base_spots cols qids).
Proof.
  induction cols as [| c cols IH]; intros qids Nc Nq; simpl. constructor.
  inversion Nc; subst. apply NoDup_app_disj.
  - apply FinFun.Injective_map_NoDup; auto. intros x y E. inversion E; auto.
  - apply IH; auto.
  - intros [q' c'] H1' H2'. apply in_map_iff in H1'. destruct H1' as [q0 [E _]]. inversion E; subst.
    fold (base_spots cols qids) in H2'. apply base_spots_In in H2'. tauto.
Qed.

(* the unknown cells of a frame:  endogenous x columns  minus exogenized  plus endogenized *)
Theorem wrt_spots_algebra : forall p cols qids,
  let base := base_spots cols qids in
  let exog := exogenized_spots p cols in
  let endog := endogenized_spots p cols in
  let wrt := wrt_spots (Some p) cols qids in
  (forall s, In s wrt <-> (In s base /\ ~ In s exog) \/ In s endog)
  /\ StronglySorted slt wrt /\ NoDup wrt
  /\ (NoDup cols -> NoDup qids -> incl exog base -> (forall s, In s endog -> ~ In s base) ->
      forall neq, length qids = neq ->
      (length wrt = (neq * length cols)%nat <-> length (sort_spots exog) = length (sort_spots endog))).
Proof.
  intros. unfold wrt, wrt_spots. fold base exog endog. repeat split.
  - apply swap_spots_In.
  - apply swap_spots_In.
  - apply swap_spots_sorted.
  - apply sorted_NoDup, swap_spots_sorted.
  - intros E.
    assert (L := swap_spots_length base exog endog (base_spots_NoDup _ _ H H0) H1 H2).
    unfold base in L at 2. rewrite base_spots_length in L. subst neq. lia.
  - intros E.
    assert (L := swap_spots_length base exog endog (base_spots_NoDup _ _ H H0) H1 H2).
    unfold base in L at 2. rewrite base_spots_length in L. subst neq. lia.
Qed.

(* without a plan the unknown cells are all endogenous cells, column by column *)
Theorem wrt_spots_no_plan : forall cols qids,
  wrt_spots None cols qids = base_spots cols qids
  /\ length (wrt_spots None cols qids) = (length qids * length cols)%nat.
Proof. intros. split; auto. simpl. rewrite base_spots_length. lia. Qed.

(* ------------------------------------------------------------------ data arrays *)

Section DataLemmas.
Context {V : Type}.
Variable dflt : V.

Lemma mapi_from_length : forall A B (f : Z -> A -> B) l i, length (mapi_from f i l) = length l.
Proof. induction l; intros; simpl; auto. Qed.

Lemma nth_mapi_from : forall A B (f : Z -> A -> B) l i k da db, (k < length l)%nat ->
  nth k (mapi_from f i l) db = f (i + Z.of_nat k) (nth k l da).
Proof.
  induction l; intros i k da db H; simpl in *. lia.
  destruct k.
  - f_equal. lia.
  - rewrite (IHl (i + 1) k da db) by lia. f_equal. lia.
Qed.

Lemma nth_mapi_from_out : forall A B (f : Z -> A -> B) l i k db, (length l <= k)%nat ->
  nth k (mapi_from f i l) db = db.
Proof. intros. apply nth_overflow. rewrite mapi_from_length. auto. Qed.

(* (q, c) addresses a cell of the array *)
Definition inb (d : list (list V)) (q c : Z) : bool :=
  (0 <=? q) && (0 <=? c) && (Z.to_nat q <? length d)%nat && (Z.to_nat c <? length (nth (Z.to_nat q) d []))%nat.

Lemma get_out : forall d q c, inb d q c = false -> get dflt d q c = dflt.
Proof.
  intros d q c H. unfold get, inb in *.
  destruct (Z.ltb_spec q 0); simpl; auto. destruct (Z.ltb_spec c 0); simpl; auto.
  destruct (Z.leb_spec 0 q); [| lia]. destruct (Z.leb_spec 0 c); [| lia]. simpl in H.
  destruct (Nat.ltb_spec (Z.to_nat q) (length d)); simpl in H.
  - destruct (Nat.ltb_spec (Z.to_nat c) (length (nth (Z.to_nat q) d []))); [discriminate |].
    apply nth_overflow. auto.
  - rewrite (nth_overflow d) by auto. destruct (Z.to_nat c); reflexivity.
Qed.

Lemma get_mapi2 : forall f d q c,
  get dflt (mapi2 f d) q c = if inb d q c then f q c (get dflt d q c) else dflt.
Proof.
  intros f d q c. unfold get, inb, mapi2.
  destruct (Z.ltb_spec q 0); simpl.
  { destruct (Z.leb_spec 0 q); [lia |]. reflexivity. }
  destruct (Z.ltb_spec c 0); simpl.
  { destruct (Z.leb_spec 0 c); [lia |]. rewrite andb_false_r. reflexivity. }
  destruct (Z.leb_spec 0 q); [| lia]. destruct (Z.leb_spec 0 c); [| lia]. simpl.
  destruct (Nat.ltb_spec (Z.to_nat q) (length d)); simpl.
  - rewrite (nth_mapi_from _ _ _ d 0 (Z.to_nat q) [] []) by auto.
    destruct (Nat.ltb_spec (Z.to_nat c) (length (nth (Z.to_nat q) d []))).
    + rewrite (nth_mapi_from _ _ _ _ 0 (Z.to_nat c) dflt dflt) by auto. f_equal; lia.
    + apply nth_mapi_from_out. auto.
  - rewrite nth_mapi_from_out by auto. destruct (Z.to_nat c); reflexivity.
Qed.

(* an update that keeps the old value where [g] is false leaves those cells unchanged (in or out of range) *)
Lemma get_mapi2_keep : forall (g : Z -> Z -> bool) (h : Z -> Z -> V -> V) d q c,
  g q c = false ->
  get dflt (mapi2 (fun q c v => if g q c then h q c v else v) d) q c = get dflt d q c.
Proof.
  intros. rewrite get_mapi2. rewrite H. destruct (inb d q c) eqn:E; auto.
  symmetry. apply get_out. auto.
Qed.

Lemma inb_mapi2 : forall f d q c, inb (mapi2 f d) q c = inb d q c.
Proof.
  intros. unfold inb, mapi2. rewrite mapi_from_length.
  destruct (Nat.ltb_spec (Z.to_nat q) (length d)).
  - rewrite (nth_mapi_from _ _ _ d 0 (Z.to_nat q) [] []) by auto. rewrite mapi_from_length. reflexivity.
  - rewrite nth_mapi_from_out by auto. rewrite (nth_overflow d) by auto. reflexivity.
Qed.

(* ---------- pruning ---------- *)

Theorem prune_spec : forall zero uq fcp f d q c,
  get dflt (prune zero uq fcp f d) q c =
  if negb (f_start f =? f_sim_end f) && zmem q uq && (f_first fcp f + 1 <=? c) && inb d q c
  then zero else get dflt d q c.
Proof.
  intros. unfold prune, prune_skipped.
  destruct (f_start f =? f_sim_end f); simpl; auto.
  rewrite get_mapi2. unfold in_slice, f_zero_slice, fr_zero_unanticipated_slice, f_first. simpl.
  rewrite andb_true_r.
  destruct (inb d q c) eqn:E.
  - rewrite andb_true_r. reflexivity.
  - rewrite andb_false_r. symmetry. apply get_out. auto.
Qed.

(* ---------- write-back of a frame ---------- *)

Theorem write_back_spec : forall uq fcp f main fdata q c,
  get dflt (write_back dflt uq fcp f main fdata) q c =
  if written_back uq fcp f q c && inb main q c then get dflt fdata q c else get dflt main q c.
Proof.
  intros. unfold write_back. rewrite get_mapi2.
  destruct (inb main q c) eqn:E.
  - rewrite andb_true_r. reflexivity.
  - rewrite andb_false_r. symmetry. apply get_out. auto.
Qed.

(* which cells a write-back may touch: regular rows on the columns first..last of the frame,
   unanticipated-shock rows on the first column only *)
Lemma written_back_columns : forall uq fcp f q c,
  written_back uq fcp f q c = true ->
  f_first fcp f <= c <= f_last fcp f \/ (zmem q uq = true /\ c = f_first fcp f).
Proof.
  intros uq fcp f q c. unfold written_back.
  destruct (zmem q uq).
  - rewrite Z.eqb_eq. auto.
  - unfold in_slice, f_slice, fr_slice, f_first, f_last. simpl.
    rewrite andb_true_iff, Z.leb_le, Z.ltb_lt. lia.
Qed.

(* cells outside the frame slice are unchanged by the write-back *)
Theorem writeback_frame : forall uq fcp f main fdata q c,
  f_first fcp f <= f_last fcp f ->
  (c < f_first fcp f \/ f_last fcp f < c) ->
  get dflt (write_back dflt uq fcp f main fdata) q c = get dflt main q c.
Proof.
  intros. rewrite write_back_spec.
  destruct (written_back uq fcp f q c) eqn:E; auto.
  apply written_back_columns in E. lia.
Qed.

(* unanticipated-shock rows keep their values after the first column of the frame *)
Theorem writeback_unanticipated_rows : forall uq fcp f main fdata q c,
  zmem q uq = true -> c <> f_first fcp f ->
  get dflt (write_back dflt uq fcp f main fdata) q c = get dflt main q c.
Proof.
  intros. rewrite write_back_spec. unfold written_back. rewrite H.
  destruct (Z.eqb_spec c (f_first fcp f)); [contradiction | reflexivity].
Qed.

(* ---------- what simulate_frame may change ---------- *)

Theorem frame_after_untouched : forall pre oracle wrt term q c,
  touched wrt term q c = false ->
  get dflt (frame_after dflt pre oracle wrt term) q c = get dflt pre q c.
Proof. intros. unfold frame_after. apply (get_mapi2_keep (touched wrt term)). auto. Qed.

Theorem frame_after_touched : forall pre oracle wrt term q c,
  touched wrt term q c = true -> inb pre q c = true ->
  get dflt (frame_after dflt pre oracle wrt term) q c = get dflt oracle q c.
Proof. intros. unfold frame_after. rewrite get_mapi2, H0, H. reflexivity. Qed.

Lemma copy_exogenized_spec : forall d input exog q c,
  get dflt (copy_exogenized dflt d input exog) q c =
  if smem (q, c) exog && inb d q c then get dflt input q c else get dflt d q c.
Proof.
  intros. unfold copy_exogenized. rewrite get_mapi2.
  destruct (inb d q c) eqn:E.
  - rewrite andb_true_r. reflexivity.
  - rewrite andb_false_r. symmetry. apply get_out. auto.
Qed.

(* an exogenized cell that the solver does not own carries its input value after the frame is simulated *)
Theorem exogenized_untouched : forall zero S input main f oracle q c,
  In (q, c) (frame_exog S f) ->
  touched (frame_wrt S f) (frame_term S f) q c = false ->
  inb main q c = true ->
  get dflt (fst (step_frame dflt zero S input main f oracle)) q c = get dflt input q c.
Proof.
  intros. unfold step_frame. simpl.
  rewrite frame_after_untouched by auto.
  rewrite copy_exogenized_spec.
  apply smem_In in H. rewrite H.
  unfold prune. destruct (prune_skipped _ _ _); [rewrite H1; reflexivity |].
  rewrite inb_mapi2, H1. reflexivity.
Qed.

(* with a plan, exogenized endogenous cells are never among the unknowns *)
Lemma exogenized_not_wrt : forall p cols qids s,
  In s (exogenized_spots p cols) -> ~ In s (endogenized_spots p cols) ->
  ~ In s (wrt_spots (Some p) cols qids).
Proof.
  intros p cols qids s He Hn Hw. unfold wrt_spots in Hw. apply swap_spots_In in Hw. tauto.
Qed.

(* ---------- the frame loop: cells outside the base columns never change ---------- *)

Theorem step_frame_outside : forall zero S input main f oracle q c,
  f_first (s_fcp S) f <= f_last (s_fcp S) f ->
  (c < f_first (s_fcp S) f \/ f_last (s_fcp S) f < c) ->
  get dflt (snd (step_frame dflt zero S input main f oracle)) q c = get dflt main q c.
Proof. intros. unfold step_frame. simpl. apply writeback_frame; auto. Qed.

Theorem run_frames_outside : forall zero S input frames oracles main b0 b1 q c,
  Forall (fun f => b0 <= f_first (s_fcp S) f /\ f_first (s_fcp S) f <= f_last (s_fcp S) f
                   /\ f_last (s_fcp S) f <= b1) frames ->
  (c < b0 \/ b1 < c) ->
  get dflt (snd (run_frames dflt zero S input main frames oracles)) q c = get dflt main q c.
Proof.
  induction frames as [| f fs IH]; intros oracles main b0 b1 q c HF Hc; simpl; auto.
  destruct oracles as [| o os]; simpl; auto.
  inversion HF as [| ? ? Hf HF']; subst.
  rewrite (IH os _ b0 b1) by auto.
  apply step_frame_outside; lia.
Qed.

(* writing a guess into the data touches the unknown cells only *)
Theorem update_cells_outside : forall spots vals d q c,
  ~ In (q, c) spots -> get dflt (update_cells d spots vals) q c = get dflt d q c.
Proof.
  induction spots as [| s ss IH]; intros vals d q c Hn; simpl; auto.
  destruct vals as [| v vs]; auto.
  rewrite IH by (intros H; apply Hn; right; auto).
  unfold set_cell.
  apply (get_mapi2_keep (fun q c => spot_eqb (q, c) s) (fun _ _ _ => v)).
  destruct (spot_eqb (q, c) s) eqn:E; auto.
  apply spot_eqb_eq in E. subst. exfalso. apply Hn. left. reflexivity.
Qed.

Lemma get_set_cell_same : forall d q c v, inb d q c = true -> get dflt (set_cell d (q, c) v) q c = v.
Proof. intros. unfold set_cell. rewrite get_mapi2, H, spot_eqb_refl. reflexivity. Qed.

Lemma inb_update_cells : forall spots vals d q c, inb (update_cells d spots vals) q c = inb d q c.
Proof.
  induction spots; intros; simpl; auto. destruct vals; auto.
  rewrite IHspots. unfold set_cell. apply inb_mapi2.
Qed.

(* ... and the k-th unknown cell receives the k-th component of the guess (the executable counterpart of [upd]) *)
Theorem update_cells_at : forall spots vals d k q c,
  NoDup spots -> length vals = length spots -> nth_error spots k = Some (q, c) -> inb d q c = true ->
  get dflt (update_cells d spots vals) q c = nth k vals dflt.
Proof.
  induction spots as [| s ss IH]; intros vals d k q c ND L Hk Hin.
  - destruct k; discriminate.
  - destruct vals as [| v vs]; [discriminate |]. simpl in L. inversion ND; subst.
    destruct k; simpl in Hk |- *.
    + inversion Hk; subst. rewrite update_cells_outside by auto. apply get_set_cell_same. auto.
    + apply IH; auto. unfold set_cell. rewrite inb_mapi2. auto.
Qed.

End DataLemmas.

(* a row that no frame's solver owns, that is not exogenized and is not an unanticipated-shock row keeps its input
   values through the whole frame loop (measurement variables, exogenous variables, parameters) *)
Section RowUntouched.
Context {V : Type}.
Variable dflt : V.

Theorem step_frame_row_untouched : forall zero S input main f oracle q c,
  zmem q (s_uqids S) = false ->
  (forall c', touched (frame_wrt S f) (frame_term S f) q c' = false) ->
  (forall c', ~ In (q, c') (frame_exog S f)) ->
  get dflt (snd (step_frame dflt zero S input main f oracle)) q c = get dflt main q c.
Proof.
  intros zero S input main f oracle q c Hu Ht He. unfold step_frame. simpl.
  rewrite write_back_spec.
  destruct (written_back (s_uqids S) (s_fcp S) f q c && inb main q c); auto.
  rewrite frame_after_untouched by auto.
  rewrite copy_exogenized_spec.
  assert (E : smem (q, c) (frame_exog S f) = false) by (apply smem_false; auto).
  rewrite E. simpl.
  rewrite prune_spec, Hu. rewrite andb_false_r. reflexivity.
Qed.

Theorem run_frames_row_untouched : forall zero S input frames oracles main q c,
  zmem q (s_uqids S) = false ->
  Forall (fun f => (forall c', touched (frame_wrt S f) (frame_term S f) q c' = false)
                   /\ (forall c', ~ In (q, c') (frame_exog S f))) frames ->
  get dflt (snd (run_frames dflt zero S input main frames oracles)) q c = get dflt main q c.
Proof.
  induction frames as [| f fs IH]; intros oracles main q c Hu HF; simpl; auto.
  destruct oracles as [| o os]; simpl; auto.
  inversion HF as [| ? ? [Ht He] HF']; subst.
  rewrite IH by auto. apply step_frame_row_untouched; auto.
Qed.

End RowUntouched.

(* ------------------------------------------------------------------ Jacobian map *)

Lemma index_last_from_spec : forall s l i acc r,
  index_last_from s l i acc = Some r ->
  (acc = Some r /\ ~ In s l) \/ (i <= r < i + Z.of_nat (length l) /\ nth (Z.to_nat (r - i)) l (r, r) = s).
Proof.
  induction l as [| x l IH]; intros i acc r H; simpl in *.
  - left. split; auto.
  - apply IH in H. destruct H as [[H1 H2] | [H1 H2]].
    + destruct (spot_eqb s x) eqn:E.
      * inversion H1; subst. apply spot_eqb_eq in E. subst. right. split; [lia |].
        replace (r - r) with 0 by lia. reflexivity.
      * left. split; auto. intros [K | K]; [| contradiction].
        subst. rewrite spot_eqb_refl in E. discriminate.
    + right. split; [lia |].
      replace (Z.to_nat (r - i)) with (S (Z.to_nat (r - (i + 1)))) by lia. exact H2.
Qed.

(* the column found for a token is a position of that token among the unknowns *)
Lemma index_last_spec : forall s l r, index_last s l = Some r ->
  0 <= r < Z.of_nat (length l) /\ nth (Z.to_nat r) l (r, r) = s.
Proof.
  intros s l r H. unfold index_last in H. apply index_last_from_spec in H.
  destruct H as [[H _] | [H1 H2]]; [discriminate |].
  rewrite Z.sub_0_r in H2. split; [lia | exact H2].
Qed.

Lemma In_enumerate_from : forall A (l : list A) i k x,
  In (k, x) (enumerate_from i l) -> exists n, nth_error l n = Some x /\ k = i + Z.of_nat n.
Proof.
  induction l; intros i k x H; simpl in H. contradiction.
  destruct H as [H | H].
  - inversion H; subst. exists 0%nat. split; [reflexivity | lia].
  - apply IHl in H. destruct H as [n [H1 H2]]. exists (S n). split; [exact H1 | lia].
Qed.

(* every entry of the Jacobian map sits in the stacked row of (its equation, its column index) -- the same row as
   the residual of that equation in that column -- and in the column of the unknown Token(qid, shift + column) *)
Theorem jac_map_from_spec : forall neq wrt_tokens e0 off cols lhs r c rr rc,
  In (r, c, rr, rc) (jac_map_from neq e0 off wrt_tokens cols lhs) ->
  exists de toks tok col,
    nth_error wrt_tokens de = Some toks /\ In tok toks /\ nth_error cols (Z.to_nat rc) = Some col /\ 0 <= rc
    /\ r = stack_index neq (e0 + Z.of_nat de) rc
    /\ index_last (fst tok, snd tok + col) lhs = Some c.
Proof.
  induction wrt_tokens as [| toks rest IH]; intros e0 off cols lhs r c rr rc H; simpl in H. contradiction.
  apply in_app_or in H. destruct H as [H | H].
  - apply in_flat_map in H. destruct H as [[k tok] [Hk H]].
    apply in_flat_map in H. destruct H as [[j col] [Hj H]].
    simpl in H. destruct (index_last (fst tok, snd tok + col) lhs) eqn:I; [| contradiction].
    destruct H as [H | []]. inversion H; subst.
    apply In_enumerate_from in Hk. destruct Hk as [n [Hn _]].
    apply In_enumerate_from in Hj. destruct Hj as [m [Hm Ej]]. subst rc.
    exists 0%nat, toks, tok, col. repeat split; auto.
    + eapply nth_error_In; eauto.
    + rewrite Z.add_0_l, Nat2Z.id. exact Hm.
    + lia.
    + f_equal. lia.
  - apply IH in H. destruct H as [de [toks' [tok [col [H1 [H2 [H3 [H4 [H5 H6]]]]]]]]].
    exists (S de), toks', tok, col. repeat split; auto.
    rewrite H5. f_equal. lia.
Qed.

(* ------------------------------------------------------------------ stacking map *)

Lemma stack_index_spec : forall neq e j, stack_index neq e j = e + neq * j.
Proof. intros. unfold stack_index, jac_lhs_row. ring. Qed.

(* equation x column index  <->  position in the stacked residual: a bijection *)
Theorem stack_index_bijection : forall neq ncols, 0 < neq ->
  (forall e j, 0 <= e < neq -> 0 <= j < ncols ->
     0 <= stack_index neq e j < neq * ncols
     /\ stack_index neq e j mod neq = e /\ stack_index neq e j / neq = j)
  /\ (forall i, 0 <= i < neq * ncols ->
        0 <= i mod neq < neq /\ 0 <= i / neq < ncols /\ stack_index neq (i mod neq) (i / neq) = i).
Proof.
  intros neq ncols Hn. split.
  - intros e j He Hj. rewrite stack_index_spec. repeat split.
    + nia.
    + nia.
    + rewrite Z.mul_comm, Z_mod_plus_full. apply Z.mod_small. lia.
    + rewrite Z.mul_comm, Z_div_plus_full by lia. rewrite Z.div_small by lia. lia.
  - intros i Hi. rewrite stack_index_spec.
    assert (H1 := Z.mod_pos_bound i neq Hn).
    assert (H2 := Z.div_mod i neq ltac:(lia)).
    repeat split; try lia.
    + apply Z.div_pos; lia.
    + apply Z.div_lt_upper_bound; lia.
Qed.

Lemma stack_length : forall V (F : nat -> nat -> V) neq ncols, length (stack F neq ncols) = (neq * ncols)%nat.
Proof.
  intros. unfold stack. destruct stack_equation_fastest; rewrite map_length, seq_length; reflexivity.
Qed.

(* the stacked residual carries equation e at column index j at position e + neq*j
   (the order regenerated from _evaluators.py: flatten(order="F") of the equations x columns array) *)
Theorem stack_nth : forall V (F : nat -> nat -> V) neq ncols e j d,
  (e < neq)%nat -> (j < ncols)%nat ->
  nth (e + neq * j) (stack F neq ncols) d = F e j.
Proof.
  intros V F neq ncols e j d He Hj. unfold stack.
  change stack_equation_fastest with true. cbv iota.
  assert (Hlt : (e + neq * j < neq * ncols)%nat) by nia.
  set (g := fun i : nat => F (i mod neq)%nat (i / neq)%nat).
  rewrite (nth_indep _ d (g 0%nat)) by (rewrite map_length, seq_length; exact Hlt).
  rewrite (map_nth g (seq 0 (neq * ncols)) 0%nat).
  rewrite seq_nth by exact Hlt. unfold g. simpl.
  f_equal.
  - rewrite Nat.mul_comm, Nat.mod_add by lia. apply Nat.mod_small. lia.
  - rewrite Nat.mul_comm, Nat.div_add by lia. rewrite Nat.div_small by lia. lia.
Qed.

Lemma stack_In : forall V (F : nat -> nat -> V) neq ncols x,
  In x (stack F neq ncols) <-> exists e j, (e < neq)%nat /\ (j < ncols)%nat /\ x = F e j.
Proof.
  intros V F neq ncols x. unfold stack. change stack_equation_fastest with true. cbv iota.
  rewrite in_map_iff. split.
  - intros [i [E Hi]]. apply in_seq in Hi.
    destruct neq as [| n']; [simpl in Hi; lia |].
    exists (i mod S n')%nat, (i / S n')%nat. repeat split; auto.
    + apply Nat.mod_upper_bound. lia.
    + apply Nat.div_lt_upper_bound; lia.
  - intros [e [j [He [Hj E]]]]. exists (e + neq * j)%nat. split.
    + subst x. f_equal.
      * rewrite Nat.mul_comm, Nat.mod_add by lia. apply Nat.mod_small. lia.
      * rewrite Nat.mul_comm, Nat.div_add by lia. rewrite Nat.div_small by lia. lia.
    + apply in_seq. nia.
Qed.

(* ================================================================== semantics over the reals *)

From Coq Require Import Reals Lra.
Open Scope R_scope.

(* max-norm (norm_order = inf) *)
Definition max_norm (l : list R) : R := fold_right (fun x m => Rmax (Rabs x) m) 0 l.

Lemma max_norm_lt : forall l tol, 0 < tol -> (max_norm l < tol <-> Forall (fun x => Rabs x < tol) l).
Proof.
  induction l; intros tol Ht; simpl.
  - split; [constructor | auto].
  - split.
    + intros H. assert (H1 := Rmax_l (Rabs a) (max_norm l)). assert (H2 := Rmax_r (Rabs a) (max_norm l)).
      constructor; [lra |]. apply IHl; auto. lra.
    + intros H. inversion H; subst. apply Rmax_lub_lt; auto. apply IHl; auto.
Qed.

(* the solver's success test on the stacked vector holds iff every equation in every column passes it *)
Theorem stacked_norm_iff_each : forall (F : nat -> nat -> R) neq ncols tol, 0 < tol ->
  (max_norm (stack F neq ncols) < tol <->
   forall e j, (e < neq)%nat -> (j < ncols)%nat -> Rabs (F e j) < tol).
Proof.
  intros F neq ncols tol Ht. rewrite max_norm_lt by auto. rewrite Forall_forall. split.
  - intros H e j He Hj. apply H. apply stack_In. exists e, j. auto.
  - intros H x Hx. apply stack_In in Hx. destruct Hx as [e [j [He [Hj ->]]]]. auto.
Qed.

(* ---------- data arrays as total maps, equations, terminal operator ---------- *)

Definition darr := Z -> Z -> R.

(* first position of a cell among the unknowns *)
Fixpoint index_of (s : spot) (l : list spot) : option nat :=
  match l with
  | [] => None
  | x :: r => if spot_eqb s x then Some 0%nat else option_map S (index_of s r)
  end.

(* evaluator.update: the guess x is written on the unknown cells, everything else is the frame's data *)
Definition upd (D : darr) (spots : list spot) (x : nat -> R) : darr :=
  fun q c => match index_of (q, c) spots with Some k => x k | None => D q c end.

Lemma index_of_In : forall s l, index_of s l = None <-> ~ In s l.
Proof.
  induction l; simpl. tauto.
  destruct (spot_eqb s a) eqn:E.
  - apply spot_eqb_eq in E. subst. split; [discriminate | intros H; exfalso; apply H; auto].
  - assert (Ne : a <> s). { intros ->. rewrite spot_eqb_refl in E. discriminate. }
    destruct (index_of s l) eqn:I; simpl.
    + split; [discriminate |]. intros H. exfalso.
      assert (H0 : ~ In s l) by tauto. apply IHl in H0. discriminate.
    + split; auto. intros _ [H | H]; [contradiction | apply IHl in H; auto].
Qed.

Lemma index_of_nth : forall s l k, index_of s l = Some k -> (k < length l)%nat /\ nth k l (0%Z, 0%Z) = s.
Proof.
  induction l; simpl; intros k H. discriminate.
  destruct (spot_eqb s a) eqn:E.
  - inversion H; subst. apply spot_eqb_eq in E. subst. split; [lia | reflexivity].
  - destruct (index_of s l) eqn:I; simpl in H; [| discriminate]. inversion H; subst.
    destruct (IHl n eq_refl). split; [lia | auto].
Qed.

Lemma upd_outside : forall D spots x q c, ~ In (q, c) spots -> upd D spots x q c = D q c.
Proof. intros. unfold upd. apply index_of_In in H. rewrite H. reflexivity. Qed.

(* an equation evaluated at a column of a data array; the terminal operator in force rewrites the array
   before the equations read it (identity for terminal="data") *)
Definition equation := darr -> Z -> R.

Definition residual (eqs : list equation) (term : darr -> darr) (cols : list Z)
           (D : darr) (spots : list spot) (x : nat -> R) : nat -> nat -> R :=
  fun e j => nth e eqs (fun _ _ => 0) (term (upd D spots x)) (nth j cols 0%Z).

Definition stacked_residual eqs term cols D spots x : list R :=
  stack (residual eqs term cols D spots x) (length eqs) (length cols).

(* success of the max-norm test = every transition equation in every simulated column is within tolerance,
   evaluated on the frame's data with the unknown cells replaced by the solution and with the cells beyond the
   last simulated column as produced by the terminal operator in force *)
Theorem stacked_zero_iff_all_zero : forall eqs term cols D spots x tol, 0 < tol ->
  (max_norm (stacked_residual eqs term cols D spots x) < tol <->
   forall e j, (e < length eqs)%nat -> (j < length cols)%nat ->
     Rabs (nth e eqs (fun _ _ => 0) (term (upd D spots x)) (nth j cols 0%Z)) < tol).
Proof. intros. unfold stacked_residual. apply stacked_norm_iff_each. auto. Qed.

(* ... and position e + neq*j of the stacked vector is equation e at column index j *)
Theorem stacked_residual_nth : forall eqs term cols D spots x e j,
  (e < length eqs)%nat -> (j < length cols)%nat ->
  nth (e + length eqs * j) (stacked_residual eqs term cols D spots x) 0 =
  nth e eqs (fun _ _ => 0) (term (upd D spots x)) (nth j cols 0%Z).
Proof. intros. unfold stacked_residual. rewrite stack_nth by auto. reflexivity. Qed.

(* ---------- terminal operators ---------- *)

(* terminal="data": the cells beyond the last column are whatever the frame's data hold *)
Definition term_data : darr -> darr := fun D => D.

(* weighted sum of absolute cells *)
Definition abs_comb (w : list (spot * R)) (A : darr) : R :=
  fold_right (fun t acc => snd t * A (fst (fst t)) (snd (fst t)) + acc) 0 w.

(* terminal="first_order": the cells (q, c), q a current-dated solution variable, c a terminal column, hold the
   first-order continuation, an affine function (rows of [T;TT;...] and [K;TK+K;...]: C01) of the cells
   Token(qid, last + shift) of the solution vector; every other cell is untouched *)
Record affine_terminal := mkAffTerm {
  at_cell : Z -> Z -> bool;
  at_weights : Z -> Z -> list (spot * R);
  at_const : Z -> Z -> R }.

Definition term_affine (T : affine_terminal) : darr -> darr :=
  fun A q c => if at_cell T q c then abs_comb (at_weights T q c) A + at_const T q c else A q c.
Definition term_linear (T : affine_terminal) : darr -> darr :=
  fun A q c => if at_cell T q c then abs_comb (at_weights T q c) A else A q c.

Definition data_terminal : affine_terminal := mkAffTerm (fun _ _ => false) (fun _ _ => []) (fun _ _ => 0).

Lemma term_affine_data : forall A q c, term_affine data_terminal A q c = term_data A q c.
Proof. reflexivity. Qed.

(* the model's first-order terminal cells: current-dated solution rows x terminal columns *)
Definition fo_cells (qids : list Z) (last max_lead : Z) : Z -> Z -> bool :=
  fun q c => zmem q qids && zmem c (terminal_columns last max_lead).

Lemma fo_cells_beyond_last : forall qids last max_lead q c,
  fo_cells qids last max_lead q c = true -> (last < c <= last + max_lead)%Z /\ In q qids.
Proof.
  intros. unfold fo_cells in H. apply andb_true_iff in H. destruct H as [Hq Hc].
  apply zmem_In in Hq. apply zmem_In in Hc.
  unfold terminal_columns, term_columns_range, term_first_terminal in Hc. simpl in Hc.
  apply zrange_In in Hc. split; auto. lia.
Qed.

Definition dsub (A B : darr) : darr := fun q c => A q c - B q c.

Lemma abs_comb_sub : forall w A B, abs_comb w A - abs_comb w B = abs_comb w (dsub A B).
Proof. induction w; simpl; intros. lra. rewrite <- IHw. unfold dsub. lra. Qed.

Lemma term_affine_sub : forall T A B q c,
  term_affine T A q c - term_affine T B q c = term_linear T (dsub A B) q c.
Proof.
  intros. unfold term_affine, term_linear. destruct (at_cell T q c).
  - rewrite <- abs_comb_sub. lra.
  - reflexivity.
Qed.

(* ---------- affine equations ---------- *)

(* sum of coef * A(q, t + shift) + constant; shocks, exogenous variables and parameters are rows of A as well *)
Definition lin_comb (terms : list (spot * R)) (A : darr) (t : Z) : R :=
  fold_right (fun tm acc => snd tm * A (fst (fst tm)) (t + snd (fst tm))%Z + acc) 0 terms.

Definition affine_equation := (list (spot * R) * R)%type.
Definition eval_affine (e : affine_equation) : equation := fun A t => lin_comb (fst e) A t + snd e.

Lemma lin_comb_sub : forall terms A B t, lin_comb terms A t - lin_comb terms B t = lin_comb terms (dsub A B) t.
Proof. induction terms; simpl; intros. lra. rewrite <- IHterms. unfold dsub. lra. Qed.

Lemma lin_comb_ext : forall terms A B t, (forall q c, A q c = B q c) -> lin_comb terms A t = lin_comb terms B t.
Proof. induction terms; simpl; intros; auto. rewrite H, (IHterms A B t H). reflexivity. Qed.

Lemma abs_comb_ext : forall w A B, (forall q c, A q c = B q c) -> abs_comb w A = abs_comb w B.
Proof. induction w; simpl; intros; auto. rewrite H, (IHw A B H). reflexivity. Qed.

Section LinearAgrees.

Variable aeqs : list affine_equation.
Variable T : affine_terminal.
Variable cols : list Z.
Variable spots : list spot.
Variable D : darr.                  (* the frame's data: initial conditions, shocks, exogenous, terminal data *)

Let eqs : list equation := map eval_affine aeqs.
Let neq := length aeqs.

Definition zero_arr : darr := fun _ _ => 0.

(* linear part of the stacked system (the stacked Jacobian as a linear map on the unknowns) *)
Definition stacked_linear (dx : nat -> R) : nat -> nat -> R :=
  fun e j => lin_comb (fst (nth e aeqs ([], 0))) (term_linear T (upd zero_arr spots dx)) (nth j cols 0%Z).

Lemma nth_eqs : forall e A t, (e < neq)%nat ->
  nth e eqs (fun _ _ => 0) A t = eval_affine (nth e aeqs ([], 0)) A t.
Proof.
  intros. unfold eqs.
  rewrite (nth_indep _ (fun _ _ => 0) (eval_affine ([], 0))) by (rewrite map_length; exact H).
  rewrite map_nth. reflexivity.
Qed.

Lemma upd_sub : forall x y q c,
  dsub (upd D spots x) (upd D spots y) q c = upd zero_arr spots (fun k => x k - y k) q c.
Proof. intros. unfold dsub, upd, zero_arr. destruct (index_of (q, c) spots); lra. Qed.

(* the stacked system of affine equations with an affine terminal operator is affine in the unknowns *)
Lemma residual_affine : forall x y e j, (e < neq)%nat ->
  residual eqs (term_affine T) cols D spots x e j - residual eqs (term_affine T) cols D spots y e j
  = stacked_linear (fun k => x k - y k) e j.
Proof.
  intros. unfold residual, stacked_linear. rewrite !nth_eqs by auto. unfold eval_affine.
  match goal with |- ?a + ?c - (?b + ?c) = _ => replace (a + c - (b + c)) with (a - b) by lra end.
  rewrite lin_comb_sub. apply lin_comb_ext. intros q c.
  unfold dsub at 1. rewrite term_affine_sub.
  unfold term_linear. destruct (at_cell T q c).
  - apply abs_comb_ext. intros. apply upd_sub.
  - apply upd_sub.
Qed.

(* the first-order path, as a data array on the frame's columns and beyond *)
Variable P : darr.

(* contract (C01): the first-order path satisfies every model equation in every simulated column, with the leads
   beyond the last column read through the terminal operator (its own first-order continuation) *)
Hypothesis P_solves : forall e j, (e < neq)%nat -> (j < length cols)%nat ->
  eval_affine (nth e aeqs ([], 0)) (term_affine T P) (nth j cols 0%Z) = 0.

(* same inputs: off the unknown cells the path carries the frame's data *)
Hypothesis P_inputs : forall q c, ~ In (q, c) spots -> P q c = D q c.

Definition x_first_order : nat -> R := fun k => P (fst (nth k spots (0%Z, 0%Z))) (snd (nth k spots (0%Z, 0%Z))).

Lemma upd_first_order : forall q c, upd D spots x_first_order q c = P q c.
Proof.
  intros. unfold upd, x_first_order. destruct (index_of (q, c) spots) eqn:I.
  - apply index_of_nth in I. destruct I as [_ E]. rewrite E. reflexivity.
  - apply index_of_In in I. symmetry. apply P_inputs. auto.
Qed.

(* (a) the first-order path is a zero of the stacked system *)
Theorem first_order_is_zero : forall e j, (e < neq)%nat -> (j < length cols)%nat ->
  residual eqs (term_affine T) cols D spots x_first_order e j = 0.
Proof.
  intros. unfold residual. rewrite nth_eqs by auto.
  etransitivity; [| exact (P_solves e j H H0)]. unfold eval_affine. f_equal.
  apply lin_comb_ext. intros q c. unfold term_affine. destruct (at_cell T q c).
  - f_equal. apply abs_comb_ext. apply upd_first_order.
  - apply upd_first_order.
Qed.

Corollary first_order_passes_test : forall tol, 0 < tol ->
  max_norm (stacked_residual eqs (term_affine T) cols D spots x_first_order) < tol.
Proof.
  intros. apply stacked_zero_iff_all_zero; auto. intros e j He Hj.
  unfold eqs in He. rewrite map_length in He.
  assert (H0 := first_order_is_zero e j He Hj). unfold residual in H0. rewrite H0, Rabs_R0. auto.
Qed.

(* (b) it is the only zero when the stacked Jacobian is non-singular, so the results coincide *)
Hypothesis jacobian_nonsingular : forall dx : nat -> R,
  (forall e j, (e < neq)%nat -> (j < length cols)%nat -> stacked_linear dx e j = 0) ->
  forall k, (k < length spots)%nat -> dx k = 0.

Theorem linear_agrees : forall x,
  (forall e j, (e < neq)%nat -> (j < length cols)%nat ->
     residual eqs (term_affine T) cols D spots x e j = 0) ->
  (forall k, (k < length spots)%nat -> x k = x_first_order k)
  /\ (forall q c, upd D spots x q c = P q c).
Proof.
  intros x Hx.
  assert (K : forall k, (k < length spots)%nat -> x k = x_first_order k).
  { intros k Hk.
    assert (Z0 : x k - x_first_order k = 0).
    { apply (jacobian_nonsingular (fun k => x k - x_first_order k)); auto.
      intros e j He Hj. rewrite <- residual_affine by auto.
      rewrite (Hx e j He Hj), (first_order_is_zero e j He Hj). lra. }
    lra. }
  split; auto.
  intros q c. rewrite <- upd_first_order. unfold upd.
  destruct (index_of (q, c) spots) eqn:I; auto.
  apply index_of_nth in I. destruct I as [Hk _]. auto.
Qed.

End LinearAgrees.

(* ------------------------------------------------------------------ non-vacuity *)

(* x_t = (1/4) x_{t+1} + e_t on one simulated column (column 1), first-order terminal x_{T+1} = 0 * x_T:
   the hypotheses of [linear_agrees] are met *)
Definition ex_aeqs : list affine_equation :=
  [([((0, 0)%Z, -1); ((0, 1)%Z, 1 / 4); ((1, 0)%Z, 1)], 0)].
Definition ex_T : affine_terminal :=
  mkAffTerm (fun q c => (q =? 0)%Z && (c =? 2)%Z) (fun _ _ => [((0, 1)%Z, 0)]) (fun _ _ => 0).
Definition ex_P : darr := fun q c => if ((q =? 0) && (c =? 1))%Z then 3 else if ((q =? 1) && (c =? 1))%Z then 3 else 0.
Definition ex_D : darr := fun q c => if ((q =? 1) && (c =? 1))%Z then 3 else 0.

Lemma linear_agrees_hypotheses_satisfiable :
  (forall e j, (e < length ex_aeqs)%nat -> (j < length [1%Z])%nat ->
     eval_affine (nth e ex_aeqs ([], 0)) (term_affine ex_T ex_P) (nth j [1%Z] 0%Z) = 0)
  /\ (forall q c, ~ In (q, c) [(0, 1)%Z] -> ex_P q c = ex_D q c)
  /\ (forall dx : nat -> R,
        (forall e j, (e < length ex_aeqs)%nat -> (j < length [1%Z])%nat ->
           stacked_linear ex_aeqs ex_T [1%Z] [(0, 1)%Z] dx e j = 0) ->
        forall k, (k < length [(0, 1)%Z])%nat -> dx k = 0).
Proof.
  repeat split.
  - intros e j He Hj. simpl in He, Hj.
    assert (e = 0%nat) by lia. assert (j = 0%nat) by lia. subst.
    unfold eval_affine, term_affine, ex_T, ex_P, ex_aeqs, lin_comb, abs_comb. simpl. lra.
  - intros q c Hn. unfold ex_P, ex_D.
    destruct ((q =? 0)%Z && (c =? 1)%Z) eqn:E; auto.
    apply andb_true_iff in E. destruct E as [E1 E2]. apply Z.eqb_eq in E1, E2. subst.
    exfalso. apply Hn. left. reflexivity.
  - intros dx H k Hk. simpl in Hk. assert (k = 0%nat) by lia. subst.
    specialize (H 0%nat 0%nat ltac:(simpl; lia) ltac:(simpl; lia)).
    unfold stacked_linear, term_linear, ex_T, ex_aeqs, lin_comb, abs_comb, upd, zero_arr in H. simpl in H. lra.
Qed.

Open Scope Z_scope.

(* frames: a span of five periods with break points at the first and the fourth period *)
Lemma frames_example :
  stacked_frames [true; false; false; true; false] (zrange_from 100 5)
  = [mkFrame 100 102 104; mkFrame 103 104 104]
  /\ pbp_frames (zrange_from 100 3) = [mkFrame 100 100 100; mkFrame 101 101 101; mkFrame 102 102 102].
Proof. split; reflexivity. Qed.

(* unknown cells: x (row 0) exogenized at column 3, shock (row 5) endogenized at column 2 *)
Lemma wrt_spots_example :
  let p := mkPlan [(0, [false; true; false])] [(5, [true; false; false])] [] [] in
  wrt_spots (Some p) [2; 3; 4] [0; 1]
  = [(0, 2); (0, 4); (1, 2); (1, 3); (1, 4); (5, 2)]
  /\ incl (exogenized_spots p [2; 3; 4]) (base_spots [2; 3; 4] [0; 1])
  /\ (forall s, In s (endogenized_spots p [2; 3; 4]) -> ~ In s (base_spots [2; 3; 4] [0; 1])).
Proof.
  cbv zeta. split; [reflexivity |]. split.
  - intros s H. simpl in H. destruct H as [<- | []]. simpl. tauto.
  - intros s H. simpl in H. destruct H as [<- | []]. simpl. intuition congruence.
Qed.
