(* Proofs about model/Frames.v and model/Stacked.v (C06). *)
From Coq Require Import ZArith List Bool Lia Sorted Permutation.
From Verif Require Import gen.FramesGen model.Frames model.Stacked.
Import ListNotations.
Open Scope Z_scope.

(* ------------------------------------------------------------------ ranges *)

Lemma zrange_from_length : forall n a, length (zrange_from a n) = n.
Proof. induction n; intros; simpl; auto. Qed.

Lemma zrange_from_app : forall n m a,
  zrange_from a (n + m) = zrange_from a n ++ zrange_from (a + Z.of_nat n) m.
Proof.
  induction n; intros; simpl.
  - f_equal. lia.
  - f_equal. rewrite IHn. f_equal. f_equal. lia.
Qed.

Lemma zrange_app : forall a b c, a <= b <= c -> zrange a b ++ zrange b c = zrange a c.
Proof.
  intros. unfold zrange.
  replace (Z.to_nat (c - a)) with (Z.to_nat (b - a) + Z.to_nat (c - b))%nat by lia.
  rewrite zrange_from_app. f_equal. f_equal. lia.
Qed.

Lemma zrange_from_In : forall n a x, In x (zrange_from a n) <-> a <= x < a + Z.of_nat n.
Proof.
  induction n; intros; simpl.
  - lia.
  - rewrite IHn. lia.
Qed.

Lemma zrange_In : forall a b x, In x (zrange a b) <-> a <= x < b.
Proof. intros. unfold zrange. rewrite zrange_from_In. lia. Qed.

Lemma zrange_from_last : forall n a d, (0 < n)%nat -> last (zrange_from a n) d = a + Z.of_nat n - 1.
Proof.
  induction n; intros. lia.
  destruct n.
  - simpl. lia.
  - change (zrange_from a (S (S n))) with (a :: zrange_from (a + 1) (S n)).
    assert (E : forall x l, l <> [] -> last (x :: l) d = last l d).
    { intros x l Hl. destruct l; [congruence | reflexivity]. }
    rewrite E by (simpl; congruence). rewrite IHn by lia. lia.
Qed.

Lemma zrange_from_single : forall a, zrange a (a + 1) = [a].
Proof. intros. unfold zrange. replace (a + 1 - a) with 1 by lia. reflexivity. Qed.

(* ------------------------------------------------------------------ break periods *)

(* strictly increasing, inside [lo, hi) *)
Definition inc_in (lo hi : Z) (l : list Z) : Prop :=
  StronglySorted Z.lt l /\ Forall (fun x => lo <= x < hi) l.

Lemma inc_in_weaken : forall lo lo' hi l, lo' <= lo -> inc_in lo hi l -> inc_in lo' hi l.
Proof.
  intros lo lo' hi l H [S F]. split; auto.
  eapply Forall_impl; [| exact F]. simpl. intros. lia.
Qed.

Lemma inc_in_head : forall lo hi y r, inc_in lo hi (y :: r) -> inc_in y hi (y :: r).
Proof.
  intros lo hi y r [S F]. split; auto.
  inversion S as [| ? ? S' Hy]; subst. inversion F as [| ? ? Fy F']; subst.
  constructor. lia.
  rewrite Forall_forall in *. intros z Hz. specialize (Hy z Hz). specialize (F' z Hz). lia.
Qed.

Lemma break_periods_cons : forall b bp a ps,
  break_periods (b :: bp) (a :: ps) = if b then a :: break_periods bp ps else break_periods bp ps.
Proof. intros. unfold break_periods. simpl. destruct b; reflexivity. Qed.

Lemma break_periods_inc : forall n a bp, length bp = n ->
  inc_in a (a + Z.of_nat n) (break_periods bp (zrange_from a n)).
Proof.
  induction n; intros a bp L.
  - destruct bp; [| discriminate]. unfold break_periods. simpl. split; constructor.
  - destruct bp as [| b bp]; [discriminate |]. simpl in L. injection L as L.
    change (zrange_from a (S n)) with (a :: zrange_from (a + 1) n).
    rewrite break_periods_cons.
    specialize (IHn (a + 1) bp L).
    replace (a + 1 + Z.of_nat n) with (a + Z.of_nat (S n)) in IHn by lia.
    destruct b.
    + destruct IHn as [S F]. split.
      * constructor; auto. eapply Forall_impl; [| exact F]. simpl. intros. lia.
      * constructor. lia. eapply Forall_impl; [| exact F]. simpl. intros. lia.
    + eapply inc_in_weaken; [| exact IHn]. lia.
Qed.

Lemma break_periods_In : forall n a bp x, length bp = n ->
  (In x (break_periods bp (zrange_from a n)) <->
   a <= x < a + Z.of_nat n /\ nth (Z.to_nat (x - a)) bp false = true).
Proof.
  induction n; intros a bp x L.
  - destruct bp; [| discriminate]. unfold break_periods. simpl. lia.
  - destruct bp as [| b bp]; [discriminate |]. simpl in L. injection L as L.
    change (zrange_from a (S n)) with (a :: zrange_from (a + 1) n).
    rewrite break_periods_cons.
    specialize (IHn (a + 1) bp x L).
    destruct (Z.eq_dec x a) as [-> | N].
    + replace (a - a) with 0 by lia. simpl nth.
      destruct b; simpl.
      * split; [intros _; split; [lia | reflexivity] | intros _; left; reflexivity].
      * rewrite IHn. split; [lia | intros [_ H]; discriminate].
    + assert (E : a <= x -> Z.to_nat (x - a) = S (Z.to_nat (x - (a + 1)))) by lia.
      destruct b; simpl; rewrite IHn.
      * split.
        -- intros [H | [H1 H2]]; [lia |]. split; [lia |]. rewrite E by lia. exact H2.
        -- intros [H1 H2]. right. split; [lia |]. rewrite E in H2 by lia. exact H2.
      * split.
        -- intros [H1 H2]. split; [lia |]. rewrite E by lia. exact H2.
        -- intros [H1 H2]. split; [lia |]. rewrite E in H2 by lia. exact H2.
Qed.

(* ------------------------------------------------------------------ frames tile the base span *)

(* consecutive pairs (l_i, l_{i+1}), the last one closed by e *)
Definition pairs (l : list Z) (e : Z) : list (Z * Z) := combine l (tl l ++ [e]).

Lemma pairs_cons2 : forall x y r e, pairs (x :: y :: r) e = (x, y) :: pairs (y :: r) e.
Proof. reflexivity. Qed.

Lemma pairs_fst : forall l e, map fst (pairs l e) = l.
Proof.
  induction l as [| x [| y r] IH]; intros; try reflexivity.
  rewrite pairs_cons2. simpl map. f_equal. apply IH.
Qed.

Lemma pairs_tile : forall l x e, inc_in x e (x :: l) ->
  concat (map (fun sn => zrange (fst sn) (snd sn)) (pairs (x :: l) e)) = zrange x e
  /\ Forall (fun sn => fst sn < snd sn) (pairs (x :: l) e).
Proof.
  induction l as [| y r IH]; intros x e [S F].
  - simpl. rewrite app_nil_r. split; auto. constructor; [| constructor]. simpl.
    inversion F; subst. lia.
  - rewrite pairs_cons2. simpl map. simpl concat.
    inversion S as [| ? ? S' Hx]; subst. inversion F as [| ? ? Fx F']; subst.
    inversion Hx as [| ? ? Hxy _]; subst. inversion F' as [| ? ? Fy _]; subst.
    destruct (IH y e) as [T P].
    { apply (inc_in_head x). split; auto. }
    simpl fst; simpl snd. rewrite T. split.
    + apply zrange_app. lia.
    + constructor; auto.
Qed.

Definition frame_cover (f : frame) : list Z := zrange (f_start f) (f_end f + 1).

Lemma split_frames_eq : forall se bp ps,
  split_frames se bp ps =
  map (fun sn => mkFrame (fst sn) (snd sn - 1) (se (fst sn) (snd sn - 1)))
      (pairs (break_periods bp ps) (last ps 0 + 1)).
Proof. reflexivity. Qed.

(* frames partition the base span, in order; each frame is non-empty and starts at a break point;
   the first frame starts at the first base period *)
Theorem frames_tile : forall se n a bp,
  (0 < n)%nat -> length bp = n -> hd false bp = true ->
  let ps := zrange_from a n in
  let frs := split_frames se bp ps in
  concat (map frame_cover frs) = ps
  /\ map f_start frs = break_periods bp ps
  /\ Forall (fun f => f_start f <= f_end f
                      /\ a <= f_start f < a + Z.of_nat n
                      /\ nth (Z.to_nat (f_start f - a)) bp false = true
                      /\ f_sim_end f = se (f_start f) (f_end f)) frs
  /\ hd_error (map f_start frs) = Some a.
Proof.
  intros se n a bp Hn L Hhd ps frs.
  assert (HB := break_periods_inc n a bp L).
  destruct bp as [| b bp']; [simpl in L; lia |]. simpl in Hhd. subst b.
  destruct n as [| n']; [lia |].
  assert (Ebp : break_periods (true :: bp') (zrange_from a (S n')) =
                a :: break_periods bp' (zrange_from (a + 1) n')).
  { change (zrange_from a (S n')) with (a :: zrange_from (a + 1) n'). apply break_periods_cons. }
  assert (El : last ps 0 + 1 = a + Z.of_nat (S n')).
  { unfold ps. rewrite zrange_from_last by lia. lia. }
  unfold frs. rewrite split_frames_eq. fold ps. rewrite El.
  fold ps in HB, Ebp. rewrite Ebp in *.
  destruct (pairs_tile _ _ _ HB) as [T P].
  repeat split.
  - rewrite map_map.
    erewrite map_ext; [| intros sn; unfold frame_cover; simpl;
                        replace (snd sn - 1 + 1) with (snd sn) by lia; reflexivity].
    rewrite T. unfold ps, zrange. f_equal. lia.
  - rewrite map_map. simpl. apply pairs_fst.
  - rewrite Forall_map. rewrite Forall_forall. intros sn Hin. simpl.
    rewrite Forall_forall in P. specialize (P sn Hin).
    assert (Hs : In (fst sn) (a :: break_periods bp' (zrange_from (a + 1) n'))).
    { rewrite <- (pairs_fst _ (a + Z.of_nat (S n'))). apply in_map. exact Hin. }
    rewrite <- Ebp in Hs. unfold ps in Hs.
    rewrite (break_periods_In (S n') a (true :: bp') (fst sn) L) in Hs.
    destruct Hs as [H1 H2]. repeat split; try lia. exact H2.
  - rewrite map_map. simpl. rewrite pairs_fst. reflexivity.
Qed.

(* ------------------------------------------------------------------ period by period = single-period frames *)

Lemma break_periods_all : forall n a, break_periods (all_break_points n) (zrange_from a n) = zrange_from a n.
Proof.
  induction n; intros. reflexivity.
  change (all_break_points (S n)) with (true :: all_break_points n).
  change (zrange_from a (S n)) with (a :: zrange_from (a + 1) n).
  rewrite break_periods_cons. f_equal. apply IHn.
Qed.

Lemma pairs_zrange : forall n a,
  pairs (zrange_from a n) (a + Z.of_nat n) = map (fun p => (p, p + 1)) (zrange_from a n).
Proof.
  induction n; intros. reflexivity.
  destruct n.
  - reflexivity.
  - change (zrange_from a (S (S n))) with (a :: (a + 1) :: zrange_from (a + 1 + 1) n).
    rewrite pairs_cons2. simpl map. f_equal.
    change ((a + 1) :: zrange_from (a + 1 + 1) n) with (zrange_from (a + 1) (S n)).
    replace (a + Z.of_nat (S (S n))) with (a + 1 + Z.of_nat (S n)) by lia.
    apply IHn.
Qed.

Theorem pbp_is_single_period_frames : forall n a, (0 < n)%nat ->
  pbp_frames (zrange_from a n) = map (fun p => mkFrame p p p) (zrange_from a n).
Proof.
  intros. unfold pbp_frames. rewrite split_frames_eq, zrange_from_length, break_periods_all.
  rewrite zrange_from_last by lia.
  replace (a + Z.of_nat n - 1 + 1) with (a + Z.of_nat n) by lia.
  rewrite pairs_zrange, map_map. apply map_ext. intros p. simpl.
  replace (p + 1 - 1) with p by lia. reflexivity.
Qed.

(* a single-period frame: one column to run, nothing pruned *)
Theorem single_period_frame : forall {V} (zero : V) uq fcp p d,
  let f := mkFrame p p p in
  columns_to_run fcp f = [p - fcp]
  /\ f_first fcp f = f_last fcp f /\ f_last fcp f = f_sim_last fcp f
  /\ prune zero uq fcp f d = d.
Proof.
  intros. unfold columns_to_run, f_first, f_last, f_sim_last, prune, f,
    fr_first, fr_last, fr_simulation_last, prune_skipped. simpl.
  rewrite Z.eqb_refl. repeat split; auto.
  apply zrange_from_single.
Qed.
