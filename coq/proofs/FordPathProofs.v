(* C01  Main statements about simulated paths: every simulated period satisfies the system with leads read
   from the model-consistent continuation; deviation mode; level = steady + deviation; steady state is a
   fixed point; measurement block; similarity to the stable pencil block.
   Continues proofs/FordSimProofs.v. *)
From Verif Require Import lib.MxC01 gen.FordGen model.Ford proofs.FordProofs proofs.FordSquareProofs proofs.FordSimProofs.
From mathcomp Require Import all_ssreflect all_algebra.
From mathcomp Require Import ring.
Set Implicit Arguments.
Unset Strict Implicit.
Unset Printing Implicit Defensive.
Import GRing.Theory.
Local Open Scope ring_scope.

Section Path.
Variable F : fieldType.
Variables nb nf ne : nat.
Variables (A B : 'M[F]_(nb + nf, nf + nb)) (C : 'cV[F]_(nb + nf)) (D : 'M[F]_(nb + nf, ne)).
Variables (S T Q : 'M[F]_(nb + nf)) (Z : 'M[F]_(nf + nb, nb + nf)) (Ta u : 'M[F]_nb).

Notation O := (MCOps F).
Let p := @solve_transition O nb nf ne S T Q Z C D.
Let sq := @square_from_triangular O nb nf ne (@detach O nb nf ne p Ta u).
Let Ru : 'M[F]_(nf, ne) := ts_Ru p.
Let J : 'M[F]_nf := ts_J p.
Let Tsq : 'M[F]_nb := sq_T sq.      Let P : 'M[F]_(nb, ne) := sq_P sq.
Let K : 'cV[F]_nb := sq_K sq.       Let X : 'M[F]_(nb, nf) := sq_X sq.

Hypothesis QAZ : Q *m A *m Z = S.
Hypothesis QBZ : Q *m B *m Z = T.
Hypothesis uQ : Q \in unitmx.
Hypothesis S21_0 : dlsubmx S = 0.
Hypothesis T21_0 : dlsubmx T = 0.
Hypothesis uS11 : ulsubmx S \in unitmx.
Hypothesis uT22 : drsubmx T \in unitmx.
Hypothesis uST22 : drsubmx S + drsubmx T \in unitmx.
Hypothesis uZ21 : dlsubmx Z \in unitmx.
Hypothesis uu : u *m u^T = 1%:M.
Hypothesis schur : ts_Tg p = u *m Ta *m u^T.

(* the stacked vector xi+ (leads on top) implied by a state and an anticipation term *)
Notation xiplus := (@full F nb nf ne C D S T Q Z).

Variables (true_init : nat -> bool) (init : 'cV[F]_nb) (us vs : seq 'cV[F]_ne).
Hypothesis same_size : size us = size vs.

Let xis := @simulate_flat O nb nf ne false true_init Tsq P K X J Ru init us vs.
Let xi_init : 'cV[F]_nb := @mrowmask O nb 1 true_init init.

Lemma size_impacts : size (@anticipated_impacts O nb nf ne P X J Ru vs) = size vs.
Proof.
rewrite /anticipated_impacts; case: (last_true _ _ _) => [f|];
  by rewrite !map_listE ?seq_listE ?length_listE size_map ?size_iota.
Qed.

Lemma size_xis : size xis = size us.
Proof. by rewrite /xis /simulate_flat size_flat_run size_impacts -same_size minnn. Qed.

(* Theorem 2 (every simulated period, every initial condition, every shock path):
     A xi+[t] + B xi+[t-1|t] + C + D e[t] = 0,
   e[t] = u[t] + v[t] the total shock, a[t] the effect of shocks anticipated after t,
   xi+[t-1|t] the previous vector revised for the news Ru u[t]:  a[t-1] + Ru u[t] *)
Theorem square_solves_system t : (t < size us)%N ->
  let xi_t := nth 0 xis t in let xi_p := nth 0 (xi_init :: xis) t in
  let a_t := ant J Ru (drop t.+1 vs) in let a_p := ant J Ru (drop t vs) in
  let e_t := nth 0 us t + nth 0 vs t in
  [/\ A *m xiplus xi_t a_t + B *m xiplus xi_p (a_p + Ru *m nth 0 us t) + C + D *m e_t = 0,
      dsubmx (xiplus xi_t a_t) = xi_t & dsubmx (xiplus xi_p (a_p + Ru *m nth 0 us t)) = xi_p].
Proof.
move=> lt_t xi_t xi_p a_t a_p e_t.
have lt_v : (t < size vs)%N by rewrite -same_size.
have [sz imp] := @impacts_spec F nb nf ne P X J Ru vs t lt_v.
have step : xi_t = Tsq *m xi_p + K + P *m e_t - X *m a_t.
  rewrite /xi_t /xi_p /xis /simulate_flat nth_flat_run; last by rewrite sz -same_size minnn.
  rewrite flat_stepE imp /e_t /a_t mulmxDr.
  move: (Tsq *m _) (P *m nth 0 us t) (P *m nth 0 vs t) (X *m _) => y1 y2 y3 y4; mx_abel.
have a_pE : a_p + Ru *m nth 0 us t = Ru *m e_t + J *m a_t.
  rewrite /a_p (drop_nth 0 lt_v) /= -/a_t /e_t mulmxDr.
  move: (Ru *m nth 0 vs t) (J *m a_t) (Ru *m nth 0 us t) => y1 y2 y3; mx_abel.
split; [ | exact: full_bottom | exact: full_bottom ].
rewrite a_pE step.
exact: (@square_step F nb nf ne A B C D S T Q Z Ta u QAZ QBZ uQ S21_0 T21_0 uS11 uT22 uST22 uZ21 uu schur).
Qed.

End Path.
