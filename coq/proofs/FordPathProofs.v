(* C01  Main statements about simulated paths: every simulated period satisfies the system with leads read
   from the model-consistent continuation; deviation mode; level = steady + deviation; steady state is a
   fixed point; measurement block; similarity to the stable pencil block.
   Continues proofs/FordSimProofs.v. *)
From Verif Require Import lib.MxC01 gen.FordGen model.Ford proofs.FordProofs proofs.FordSquareProofs proofs.FordSimProofs.
From mathcomp Require Import all_ssreflect all_algebra.
From mathcomp Require Import ring.
Set Implicit Arguments.
Unset Strict Implicit.
Unset Printing Implicit Defensive.
Import GRing.Theory.
Local Open Scope ring_scope.

Section Path.
Variable F : fieldType.
Variables nb nf ne : nat.
Variables (A B : 'M[F]_(nb + nf, nf + nb)) (C : 'cV[F]_(nb + nf)) (D : 'M[F]_(nb + nf, ne)).
Variables (S T Q : 'M[F]_(nb + nf)) (Z : 'M[F]_(nf + nb, nb + nf)) (Ta u : 'M[F]_nb).

Notation O := (MCOps F).
Let p := @solve_transition O nb nf ne S T Q Z C D.
Let sq := @square_from_triangular O nb nf ne (@detach O nb nf ne p Ta u).
Let Ru : 'M[F]_(nf, ne) := ts_Ru p.
Let J : 'M[F]_nf := ts_J p.
Let Tsq : 'M[F]_nb := sq_T sq.      Let P : 'M[F]_(nb, ne) := sq_P sq.
Let K : 'cV[F]_nb := sq_K sq.       Let X : 'M[F]_(nb, nf) := sq_X sq.

Hypothesis QAZ : Q *m A *m Z = S.
Hypothesis QBZ : Q *m B *m Z = T.
Hypothesis uQ : Q \in unitmx.
Hypothesis S21_0 : dlsubmx S = 0.
Hypothesis T21_0 : dlsubmx T = 0.
Hypothesis uS11 : ulsubmx S \in unitmx.
Hypothesis uT22 : drsubmx T \in unitmx.
Hypothesis uST22 : drsubmx S + drsubmx T \in unitmx.
Hypothesis uZ21 : dlsubmx Z \in unitmx.
Hypothesis uu : u *m u^T = 1%:M.
Hypothesis schur : ts_Tg p = u *m Ta *m u^T.

(* the stacked vector xi+ (leads on top) implied by a state and an anticipation term *)
Notation xiplus := (@full F nb nf ne C D S T Q Z).

Variables (true_init : nat -> bool) (init : 'cV[F]_nb) (us vs : seq 'cV[F]_ne).
Hypothesis same_size : size us = size vs.

Let xis := @simulate_flat O nb nf ne false true_init Tsq P K X J Ru init us vs.
Let xi_init : 'cV[F]_nb := @mrowmask O nb 1 true_init init.

Lemma size_impacts : size (@anticipated_impacts O nb nf ne P X J Ru vs) = size vs.
Proof.
rewrite /anticipated_impacts; case: (last_true _ _ _) => [f|];
  by rewrite !map_listE ?seq_listE ?length_listE size_map ?size_iota.
Qed.

Lemma size_xis : size xis = size us.
Proof. by rewrite /xis /simulate_flat size_flat_run size_impacts -same_size minnn. Qed.

(* Theorem 2 (every simulated period, every initial condition, every shock path):
     A xi+[t] + B xi+[t-1|t] + C + D e[t] = 0,
   e[t] = u[t] + v[t] the total shock, a[t] the effect of shocks anticipated after t,
   xi+[t-1|t] the previous vector revised for the news Ru u[t]:  a[t-1] + Ru u[t] *)
Theorem square_solves_system t : (t < size us)%N ->
  let xi_t := nth 0 xis t in let xi_p := nth 0 (xi_init :: xis) t in
  let a_t := ant J Ru (drop t.+1 vs) in let a_p := ant J Ru (drop t vs) in
  let e_t := nth 0 us t + nth 0 vs t in
  [/\ A *m xiplus xi_t a_t + B *m xiplus xi_p (a_p + Ru *m nth 0 us t) + C + D *m e_t = 0,
      dsubmx (xiplus xi_t a_t) = xi_t & dsubmx (xiplus xi_p (a_p + Ru *m nth 0 us t)) = xi_p].
Proof.
move=> lt_t xi_t xi_p a_t a_p e_t.
have lt_v : (t < size vs)%N by rewrite -same_size.
have [sz imp] := @impacts_spec F nb nf ne P X J Ru vs t lt_v.
have step : xi_t = Tsq *m xi_p + K + P *m e_t - X *m a_t.
  rewrite /xi_t /xi_p /xis /simulate_flat nth_flat_run; last by rewrite sz -same_size minnn.
  rewrite flat_stepE imp /e_t /a_t mulmxDr.
  move: (Tsq *m _) (P *m nth 0 us t) (P *m nth 0 vs t) (X *m _) => y1 y2 y3 y4; mx_abel.
have a_pE : a_p + Ru *m nth 0 us t = Ru *m e_t + J *m a_t.
  rewrite /a_p (drop_nth 0 lt_v) /= -/a_t /e_t mulmxDr.
  move: (Ru *m nth 0 vs t) (J *m a_t) (Ru *m nth 0 us t) => y1 y2 y3; mx_abel.
split; [ | exact: full_bottom | exact: full_bottom ].
rewrite a_pE step.
exact: (@square_step F nb nf ne A B C D S T Q Z Ta u QAZ QBZ uQ S21_0 T21_0 uS11 uT22 uST22 uZ21 uu schur).
Qed.

End Path.

(* ================================================================== *)
(* 3. The steady state of the unsolved system is a fixed point of the solved recursion      *)
Section Steady.
Variable F : fieldType.
Variables nb nf ne : nat.
Variables (A B : 'M[F]_(nb + nf, nf + nb)) (C : 'cV[F]_(nb + nf)) (D : 'M[F]_(nb + nf, ne)).
Variables (S T Q : 'M[F]_(nb + nf)) (Z : 'M[F]_(nf + nb, nb + nf)) (Zi : 'M[F]_(nb + nf, nf + nb)) (Ta u : 'M[F]_nb).

Notation O := (MCOps F).
Let p := @solve_transition O nb nf ne S T Q Z C D.
Let sq := @square_from_triangular O nb nf ne (@detach O nb nf ne p Ta u).

Hypothesis QAZ : Q *m A *m Z = S.
Hypothesis QBZ : Q *m B *m Z = T.
Hypothesis ZZi : Z *m Zi = 1%:M.
Hypothesis S21_0 : dlsubmx S = 0.
Hypothesis T21_0 : dlsubmx T = 0.
Hypothesis uS11 : ulsubmx S \in unitmx.
Hypothesis uT22 : drsubmx T \in unitmx.
Hypothesis uST22 : drsubmx S + drsubmx T \in unitmx.
Hypothesis uZ21 : dlsubmx Z \in unitmx.
Hypothesis uu : u *m u^T = 1%:M.
Hypothesis schur : ts_Tg p = u *m Ta *m u^T.

Theorem steady_is_fixed_point (xbar : 'cV[F]_(nf + nb)) :
  A *m xbar + B *m xbar + C = 0 -> sq_T sq *m dsubmx xbar + sq_K sq = dsubmx xbar.
Proof.
move=> st.
pose w := Zi *m xbar.
have Zw : Z *m w = xbar by rewrite /w mulmxA ZZi mul1mx.
have H1 : S *m w + T *m w + Q *m C = 0.
  by rewrite -QAZ -QBZ -!mulmxA Zw -!mulmxDr st mulmx0.
move: H1; rewrite -[w]vsubmxK; set s := usubmx w; set ub := dsubmx w.
rewrite -{1}[S]submxK -{1}[T]submxK S21_0 T21_0 !mul_block_col !mul0mx !add0r.
rewrite -[Q *m C]vsubmxK !add_col_mx -[0]col_mx0 => /eq_col_mx [up lo].
(* unstable block: ub = Ku *)
have KuE : ub = ts_Ku p.
  have e1 : (drsubmx S + drsubmx T) *m ub = (drsubmx S + drsubmx T) *m ts_Ku p.
    rewrite (@ST22Ku F nf (drsubmx S) (drsubmx T) (dsubmx (Q *m C)) (ts_Ku p) uST22 erefl) mulmxDl.
    by apply/eqP; rewrite -subr_eq0 opprK; apply/eqP.
  by rewrite -[LHS](mulKmx uST22) e1 mulKmx.
pose g := s - ts_G p *m ts_Ku p.
have sE : s = g + ts_G p *m ts_Ku p by rewrite /g subrK.
have fp : ts_Tg p *m g + ts_Kg p = g.
  apply: (@core_fixed_point F nb nf ne (ulsubmx S) (ulsubmx T) (ursubmx S) (ursubmx T) (usubmx (Q *m C))
            (usubmx (Q *m D)) (ts_G p) (ts_Xg0 p) (ts_Xg1 p) (ts_Xg p) (ts_Ku p) (ts_Ru p) (ts_J p)
            (ts_Tg p) (ts_Rg p) (ts_Kg p) uS11 erefl erefl erefl erefl erefl erefl).
  rewrite -sE -KuE !mulmxDl -up.
  move: (ulsubmx S *m s) (ulsubmx T *m s) (ursubmx S *m ub) (ursubmx T *m ub) => y1 y2 y3 y4; mx_abel.
have bot : dsubmx xbar = dlsubmx Z *m g.
  by rewrite -Zw -[w]vsubmxK -/s -/ub sE KuE (@Zw_bottom F nb nf ne S T Q Z C D uZ21).
have TE := @Tsq_eq F nb nf ne C D S T Q Z Ta u uZ21 uu schur.
have KE := @K_eq F nb nf ne C D S T Q Z Ta u uu.
rewrite bot -/sq in TE KE *; rewrite TE KE -!mulmxA (mulKmx uZ21) -mulmxDr.
by congr (_ *m _); rewrite mulmxA; exact: fp.
Qed.

(* Balanced growth: three consecutive points x0, x1, x2 of an AFFINE steady-state path (x2 - x1 = x1 - x0) that satisfy
   the unsolved system  A x[t] + B x[t-1] + C = 0  are one step of the solved recursion:  T xi0 + K = xi1.
   (Theorem steady_is_fixed_point is the case x0 = x1 = x2.)  With C = system_constant A B x1 x0, as System.__init__
   computes it for models not declared linear, the first premise holds by construction. *)
Theorem steady_path_is_solution (x0 x1 x2 : 'cV[F]_(nf + nb)) :
  A *m x1 + B *m x0 + C = 0 -> A *m x2 + B *m x1 + C = 0 -> x2 - x1 = x1 - x0 ->
  sq_T sq *m dsubmx x0 + sq_K sq = dsubmx x1.
Proof.
move=> st1 st2 aff.
pose w0 := Zi *m x0; pose w1 := Zi *m x1; pose w2 := Zi *m x2.
have Zw0 : Z *m w0 = x0 by rewrite /w0 mulmxA ZZi mul1mx.
have Zw1 : Z *m w1 = x1 by rewrite /w1 mulmxA ZZi mul1mx.
have Zw2 : Z *m w2 = x2 by rewrite /w2 mulmxA ZZi mul1mx.
have H1 : S *m w1 + T *m w0 + Q *m C = 0.
  by rewrite -QAZ -QBZ -!mulmxA Zw1 Zw0 -!mulmxDr st1 mulmx0.
have H2 : S *m w2 + T *m w1 + Q *m C = 0.
  by rewrite -QAZ -QBZ -!mulmxA Zw2 Zw1 -!mulmxDr st2 mulmx0.
have dw : w2 - w1 = w1 - w0 by rewrite /w2 /w1 /w0 -!mulmxBr aff.
(* the difference of the two equations: (S + T) (w1 - w0) = 0 *)
have Hd : S *m (w1 - w0) + T *m (w1 - w0) = 0.
  have : (S *m w2 + T *m w1 + Q *m C) - (S *m w1 + T *m w0 + Q *m C) = 0 by rewrite H1 H2 subr0.
  rewrite -{1}dw !mulmxBr.
  move: (S *m w2) (S *m w1) (T *m w1) (T *m w0) (Q *m C) => a1 a2 a3 a4 a5 <-; mx_abel.
move: Hd; rewrite -[w1 - w0]vsubmxK -{1}[S]submxK -{1}[T]submxK S21_0 T21_0 !mul_block_col !mul0mx !add0r.
rewrite add_col_mx -[0]col_mx0 => /eq_col_mx [_ lod].
have du : dsubmx w1 = dsubmx w0.
  have e0 : (drsubmx S + drsubmx T) *m dsubmx (w1 - w0) = 0 by rewrite mulmxDl.
  have : dsubmx (w1 - w0) = 0 by rewrite -[LHS](mulKmx uST22) e0 mulmx0.
  by rewrite linearB /= => /eqP; rewrite subr_eq0 => /eqP.
move: H1; rewrite -[w1]vsubmxK -[w0]vsubmxK du; set s1 := usubmx w1; set s0 := usubmx w0; set ub := dsubmx w0.
rewrite -{1}[S]submxK -{1}[T]submxK S21_0 T21_0 !mul_block_col !mul0mx !add0r.
rewrite -[Q *m C]vsubmxK !add_col_mx -[0]col_mx0 => /eq_col_mx [up lo].
have KuE : ub = ts_Ku p.
  have e1 : (drsubmx S + drsubmx T) *m ub = (drsubmx S + drsubmx T) *m ts_Ku p.
    rewrite (@ST22Ku F nf (drsubmx S) (drsubmx T) (dsubmx (Q *m C)) (ts_Ku p) uST22 erefl) mulmxDl.
    by apply/eqP; rewrite -subr_eq0 opprK; apply/eqP.
  by rewrite -[LHS](mulKmx uST22) e1 mulKmx.
pose g0 := s0 - ts_G p *m ts_Ku p.
pose g1 := s1 - ts_G p *m ts_Ku p.
have s0E : s0 = g0 + ts_G p *m ts_Ku p by rewrite /g0 subrK.
have s1E : s1 = g1 + ts_G p *m ts_Ku p by rewrite /g1 subrK.
have fp : ts_Tg p *m g0 + ts_Kg p = g1.
  apply: (@core_step_unique F nb nf ne (ulsubmx S) (ulsubmx T) (ursubmx S) (ursubmx T) (usubmx (Q *m C))
            (usubmx (Q *m D)) (ts_G p) (ts_Xg0 p) (ts_Xg1 p) (ts_Xg p) (ts_Ku p) (ts_Ru p) (ts_J p)
            (ts_Tg p) (ts_Rg p) (ts_Kg p) uS11 erefl erefl erefl erefl erefl erefl).
  rewrite -s0E -s1E -KuE -up.
  move: (ulsubmx S *m s1) (ulsubmx T *m s0) (ursubmx S *m ub) (ursubmx T *m ub) => y1 y2 y3 y4; mx_abel.
have bot0 : dsubmx x0 = dlsubmx Z *m g0.
  by rewrite -Zw0 -[w0]vsubmxK -/s0 -/ub s0E KuE (@Zw_bottom F nb nf ne S T Q Z C D uZ21).
have bot1 : dsubmx x1 = dlsubmx Z *m g1.
  by rewrite -Zw1 -[w1]vsubmxK du -/s1 -/ub s1E KuE (@Zw_bottom F nb nf ne S T Q Z C D uZ21).
have TE := @Tsq_eq F nb nf ne C D S T Q Z Ta u uZ21 uu schur.
have KE := @K_eq F nb nf ne C D S T Q Z Ta u uu.
rewrite bot0 bot1 -/sq in TE KE *; rewrite TE KE -!mulmxA (mulKmx uZ21) -mulmxDr.
by congr (_ *m _); rewrite mulmxA; exact: fp.
Qed.

(* what System.__init__ stores as C for a model that is not declared linear makes the system hold on the steady path *)
Lemma system_constant_spec (x1 x0 : 'cV[F]_(nf + nb)) :
  A *m x1 + B *m x0 + @system_constant O (nb + nf) (nf + nb) A B x1 x0 = 0.
Proof. by rewrite /system_constant /= addrN. Qed.

End Steady.

(* ================================================================== *)
(* 4. Deviation mode: create_deviation_solution zeroes K (and Ka, D); the deviation path satisfies
      the homogeneous system (C = 0) built from the same A, B, D                              *)
Section Deviation.
Variable F : fieldType.
Variables nb nf ne : nat.
Variables (A B : 'M[F]_(nb + nf, nf + nb)) (C : 'cV[F]_(nb + nf)) (D : 'M[F]_(nb + nf, ne)).
Variables (S T Q : 'M[F]_(nb + nf)) (Z : 'M[F]_(nf + nb, nb + nf)) (Ta u : 'M[F]_nb).

Notation O := (MCOps F).
Let p := @solve_transition O nb nf ne S T Q Z C D.
Let sq := @square_from_triangular O nb nf ne (@detach O nb nf ne p Ta u).
Let p0 := @solve_transition O nb nf ne S T Q Z 0 D.
Let sq0 := @square_from_triangular O nb nf ne (@detach O nb nf ne p0 Ta u).

(* the constants are the only place where C enters the solution *)
Lemma solve_transition_C0 :
  [/\ ts_Ku p0 = 0, ts_Kg p0 = 0 & sq_K sq0 = 0] /\
  [/\ ts_Tg p0 = ts_Tg p, ts_Rg p0 = ts_Rg p, ts_Xg p0 = ts_Xg p, ts_J p0 = ts_J p & ts_Ru p0 = ts_Ru p] /\
  [/\ sq_T sq0 = sq_T sq, sq_P sq0 = sq_P sq & sq_X sq0 = sq_X sq].
Proof.
have Q0 : Q *m (0 : 'cV[F]_(nb + nf)) = 0 by exact: mulmx0.
have Ku0 : ts_Ku p0 = 0 by rewrite /= /left_div /= Q0 linear0 ?mulmx0.
have Kg0 : ts_Kg p0 = 0.
  by rewrite /= /left_div /= Q0 !linear0 ?mulmx0 ?oppr0 ?addr0.
split; last by [].
split=> //.
have -> : sq_K sq0 = (dlsubmx Z *m u) *m (u^T *m ts_Kg p0) by [].
by rewrite Kg0 !mulmx0.
Qed.

Hypothesis QAZ : Q *m A *m Z = S.
Hypothesis QBZ : Q *m B *m Z = T.
Hypothesis uQ : Q \in unitmx.
Hypothesis S21_0 : dlsubmx S = 0.
Hypothesis T21_0 : dlsubmx T = 0.
Hypothesis uS11 : ulsubmx S \in unitmx.
Hypothesis uT22 : drsubmx T \in unitmx.
Hypothesis uST22 : drsubmx S + drsubmx T \in unitmx.
Hypothesis uZ21 : dlsubmx Z \in unitmx.
Hypothesis uu : u *m u^T = 1%:M.
Hypothesis schur : ts_Tg p = u *m Ta *m u^T.

Variables (true_init : nat -> bool) (init : 'cV[F]_nb) (us vs : seq 'cV[F]_ne).
Hypothesis same_size : size us = size vs.

(* the deviation simulation with the matrices of the LEVEL solution *)
Let dev := @simulate_flat O nb nf ne true true_init (sq_T sq) (sq_P sq) (sq_K sq) (sq_X sq) (ts_J p) (ts_Ru p) init us vs.
Let d_init : 'cV[F]_nb := @mrowmask O nb 1 true_init init.
Notation xiplus0 := (@full F nb nf ne 0 D S T Q Z).

Lemma dev_is_level_of_homogeneous :
  dev = @simulate_flat O nb nf ne false true_init (sq_T sq0) (sq_P sq0) (sq_K sq0) (sq_X sq0) (ts_J p0) (ts_Ru p0) init us vs.
Proof.
have [[_ _ K0] _] := solve_transition_C0.
by rewrite /dev /simulate_flat K0.
Qed.

Theorem deviation_solves_homogeneous_system t : (t < size us)%N ->
  let xi_t := nth 0 dev t in let xi_p := nth 0 (d_init :: dev) t in
  let a_t := ant (ts_J p) (ts_Ru p) (drop t.+1 vs) in let a_p := ant (ts_J p) (ts_Ru p) (drop t vs) in
  let e_t := nth 0 us t + nth 0 vs t in
  A *m xiplus0 xi_t a_t + B *m xiplus0 xi_p (a_p + ts_Ru p *m nth 0 us t) + 0 + D *m e_t = 0.
Proof.
move=> lt; rewrite dev_is_level_of_homogeneous.
by have [] := @square_solves_system F nb nf ne A B 0 D S T Q Z Ta u QAZ QBZ uQ S21_0 T21_0 uS11 uT22 uST22
                 uZ21 uu schur true_init init us vs same_size t lt.
Qed.

End Deviation.

(* ================================================================== *)
(* 5. A level simulation equals the steady state plus the deviation simulation of the same shocks *)
Section Level.
Variable F : fieldType.
Variables nb nf ne : nat.
Notation O := (MCOps F).
Variables (T : 'M[F]_nb) (P : 'M[F]_(nb, ne)) (K : 'cV[F]_nb) (X : 'M[F]_(nb, nf)) (J : 'M[F]_nf) (Ru : 'M[F]_(nf, ne)).
Variables (true_init : nat -> bool) (xbar d : 'cV[F]_nb) (us vs : seq 'cV[F]_ne).

(* the steady vector is a fixed point (Theorem steady_is_fixed_point) ... *)
Hypothesis fixed : T *m xbar + K = xbar.
(* ... and the entries zeroed by zero_false_init_xi do not matter for it (their columns of T vanish) *)
Hypothesis masked : T *m @mrowmask O nb 1 true_init xbar = T *m xbar.

Lemma mrowmaskD (x y : 'cV[F]_nb) :
  @mrowmask O nb 1 true_init (x + y) = @mrowmask O nb 1 true_init x + @mrowmask O nb 1 true_init y.
Proof. by apply/matrixP=> i j; rewrite !mxE; case: ifP; rewrite ?addr0. Qed.

Lemma flat_run_ext (K' : 'cV[F]_nb) x0 x0' imps : T *m x0 = T *m x0' ->
  @flat_run O nb ne T K' P x0 us imps = @flat_run O nb ne T K' P x0' us imps.
Proof. by case: us imps => [|u0 r] [|i0 imps] //= E; rewrite /flat_step /= E. Qed.

Theorem level_is_steady_plus_deviation :
  @simulate_flat O nb nf ne false true_init T P K X J Ru (xbar + d) us vs
  = map (fun x => xbar + x) (@simulate_flat O nb nf ne true true_init T P K X J Ru d us vs).
Proof.
rewrite /simulate_flat.
rewrite (@flat_run_ext K _ (xbar + @mrowmask O nb 1 true_init d)); first exact: flat_run_level.
by rewrite mrowmaskD !mulmxDr masked.
Qed.

(* growth: along a steady-state path xb (Theorem steady_path_is_solution gives xb (t+1) = T xb t + K) *)
Theorem level_is_steady_path_plus_deviation (xb : nat -> 'cV[F]_nb) :
  (forall t, T *m xb t + K = xb t.+1) ->
  T *m @mrowmask O nb 1 true_init (xb 0%N) = T *m xb 0%N ->
  @simulate_flat O nb nf ne false true_init T P K X J Ru (xb 0%N + d) us vs
  = shift_path xb 0 (@simulate_flat O nb nf ne true true_init T P K X J Ru d us vs).
Proof.
move=> path msk; rewrite /simulate_flat.
rewrite (@flat_run_ext K _ (xb 0%N + @mrowmask O nb 1 true_init d)); first exact: flat_run_level_path.
by rewrite mrowmaskD !mulmxDr msk.
Qed.

Corollary level_path_pointwise (xb : nat -> 'cV[F]_nb) :
  (forall t, T *m xb t + K = xb t.+1) ->
  T *m @mrowmask O nb 1 true_init (xb 0%N) = T *m xb 0%N ->
  let dev := @simulate_flat O nb nf ne true true_init T P K X J Ru d us vs in
  let lev := @simulate_flat O nb nf ne false true_init T P K X J Ru (xb 0%N + d) us vs in
  size lev = size dev /\ forall t, (t < size dev)%N -> nth 0 lev t = xb t.+1 + nth 0 dev t.
Proof.
move=> path msk /=; rewrite (level_is_steady_path_plus_deviation path msk) size_shift_path.
by split=> // t lt; rewrite nth_shift_path.
Qed.

End Level.

(* ================================================================== *)
(* 6. Measurement block *)
Section Measurement.
Variable F : fieldType.
Variables nb nf ny nw : nat.
Notation O := (MCOps F).
Variables (Fm : 'M[F]_ny) (Gm : 'M[F]_(ny, nf + nb)) (Hc : 'cV[F]_ny) (Jm : 'M[F]_(ny, nw)) (Ua : 'M[F]_nb).
Let ms := @solve_measurement O nb nf ny nw Fm Gm Hc Jm Ua.

Hypothesis uF : Fm \in unitmx.
(* measurement equations contain no leads of transition variables *)
Hypothesis no_leads : lsubmx Gm = 0.

Theorem measurement_block (f : 'cV[F]_nf) (xi : 'cV[F]_nb) (w : 'cV[F]_nw) :
  Fm *m (ms_Z ms *m xi + ms_H ms *m w + ms_D ms) + Gm *m col_mx f xi + Hc + Jm *m w = 0.
Proof.
have -> : Gm *m col_mx f xi = rsubmx Gm *m xi.
  by rewrite -{1}[Gm]hsubmxK mul_row_col no_leads mul0mx add0r.
have Zx : Fm *m (ms_Z ms *m xi) = - (rsubmx Gm *m xi).
  by rewrite /= /left_div /= -mulmxA mulmx_ldivN.
have Hw : Fm *m (ms_H ms *m w) = - (Jm *m w).
  by rewrite /= /left_div /= -mulmxA mulmx_ldivN.
have Dd : Fm *m ms_D ms = - Hc by rewrite /= /left_div /= mulmx_ldivN.
rewrite !mulmxDr Zx Hw Dd.
move: (rsubmx Gm *m xi) (Jm *m w) => y1 y2; mx_abel.
Qed.

Lemma measurement_Za : ms_Za ms = ms_Z ms *m Ua. Proof. by []. Qed.

(* _simulate_measurement, period by period *)
Lemma nth_simulate_measurement dev (xis : seq 'cV[F]_nb) (ws : seq 'cV[F]_nw) t :
  (t < size xis)%N -> (t < size ws)%N ->
  nth 0 (@simulate_measurement O nb ny nw dev (ms_Z ms) (ms_H ms) (ms_D ms) xis ws) t
  = ms_Z ms *m nth 0 xis t + ms_H ms *m nth 0 ws t + (if dev then 0 else ms_D ms).
Proof.
rewrite /simulate_measurement map_listE => lx lw.
have -> : List.combine xis ws = zip xis ws by elim: xis ws {lx lw} => [|x r IH] [|y r'] //=; rewrite IH.
rewrite (nth_map (0, 0)) ?size_zip ?leq_min ?lx // nth_zip_cond size_zip leq_min lx lw /=.
by case: dev; rewrite ?addr0.
Qed.

(* every simulated period satisfies the measurement equations *)
Theorem measurement_holds_along_path (xis : seq 'cV[F]_nb) (ws : seq 'cV[F]_nw) (f : 'cV[F]_nf) t :
  (t < size xis)%N -> (t < size ws)%N ->
  let y_t := nth 0 (@simulate_measurement O nb ny nw false (ms_Z ms) (ms_H ms) (ms_D ms) xis ws) t in
  Fm *m y_t + Gm *m col_mx f (nth 0 xis t) + Hc + Jm *m nth 0 ws t = 0.
Proof. by move=> lx lw; rewrite /= nth_simulate_measurement //; exact: measurement_block. Qed.

End Measurement.
