(* C01  Main statements about simulated paths: every simulated period satisfies the system with leads read
   from the model-consistent continuation; deviation mode; level = steady + deviation; steady state is a
   fixed point; measurement block; similarity to the stable pencil block.
   Continues proofs/FordSimProofs.v. *)
From Verif Require Import lib.MxC01 gen.FordGen model.Ford proofs.FordProofs proofs.FordSquareProofs proofs.FordSimProofs.
From mathcomp Require Import all_ssreflect all_algebra.
From mathcomp Require Import ring.
Set Implicit Arguments.
Unset Strict Implicit.
Unset Printing Implicit Defensive.
Import GRing.Theory.
Local Open Scope ring_scope.

Section Path.
Variable F : fieldType.
Variables nb nf ne : nat.
Variables (A B : 'M[F]_(nb + nf, nf + nb)) (C : 'cV[F]_(nb + nf)) (D : 'M[F]_(nb + nf, ne)).
Variables (S T Q : 'M[F]_(nb + nf)) (Z : 'M[F]_(nf + nb, nb + nf)) (Ta u : 'M[F]_nb).

Notation O := (MCOps F).
Let p := @solve_transition O nb nf ne S T Q Z C D.
Let sq := @square_from_triangular O nb nf ne (@detach O nb nf ne p Ta u).
Let Ru : 'M[F]_(nf, ne) := ts_Ru p.
Let J : 'M[F]_nf := ts_J p.
Let Tsq : 'M[F]_nb := sq_T sq.      Let P : 'M[F]_(nb, ne) := sq_P sq.
Let K : 'cV[F]_nb := sq_K sq.       Let X : 'M[F]_(nb, nf) := sq_X sq.

Hypothesis QAZ : Q *m A *m Z = S.
Hypothesis QBZ : Q *m B *m Z = T.
Hypothesis uQ : Q \in unitmx.
Hypothesis S21_0 : dlsubmx S = 0.
Hypothesis T21_0 : dlsubmx T = 0.
Hypothesis uS11 : ulsubmx S \in unitmx.
Hypothesis uT22 : drsubmx T \in unitmx.
Hypothesis uST22 : drsubmx S + drsubmx T \in unitmx.
Hypothesis uZ21 : dlsubmx Z \in unitmx.
Hypothesis uu : u *m u^T = 1%:M.
Hypothesis schur : ts_Tg p = u *m Ta *m u^T.

(* the stacked vector xi+ (leads on top) implied by a state and an anticipation term *)
Notation xiplus := (@full F nb nf ne C D S T Q Z).

Variables (true_init : nat -> bool) (init : 'cV[F]_nb) (us vs : seq 'cV[F]_ne).
Hypothesis same_size : size us = size vs.

Let xis := @simulate_flat O nb nf ne false true_init Tsq P K X J Ru init us vs.
Let xi_init : 'cV[F]_nb := @mrowmask O nb 1 true_init init.

Lemma size_impacts : size (@anticipated_impacts O nb nf ne P X J Ru vs) = size vs.
Proof.
rewrite /anticipated_impacts; case: (last_true _ _ _) => [f|];
  by rewrite !map_listE ?seq_listE ?length_listE size_map ?size_iota.
Qed.

Lemma size_xis : size xis = size us.
Proof. by rewrite /xis /simulate_flat size_flat_run size_impacts -same_size minnn. Qed.

(* Theorem 2 (every simulated period, every initial condition, every shock path):
     A xi+[t] + B xi+[t-1|t] + C + D e[t] = 0,
   e[t] = u[t] + v[t] the total shock, a[t] the effect of shocks anticipated after t,
   xi+[t-1|t] the previous vector revised for the news Ru u[t]:  a[t-1] + Ru u[t] *)
Theorem square_solves_system t : (t < size us)%N ->
  let xi_t := nth 0 xis t in let xi_p := nth 0 (xi_init :: xis) t in
  let a_t := ant J Ru (drop t.+1 vs) in let a_p := ant J Ru (drop t vs) in
  let e_t := nth 0 us t + nth 0 vs t in
  [/\ A *m xiplus xi_t a_t + B *m xiplus xi_p (a_p + Ru *m nth 0 us t) + C + D *m e_t = 0,
      dsubmx (xiplus xi_t a_t) = xi_t & dsubmx (xiplus xi_p (a_p + Ru *m nth 0 us t)) = xi_p].
Proof.
move=> lt_t xi_t xi_p a_t a_p e_t.
have lt_v : (t < size vs)%N by rewrite -same_size.
have [sz imp] := @impacts_spec F nb nf ne P X J Ru vs t lt_v.
have step : xi_t = Tsq *m xi_p + K + P *m e_t - X *m a_t.
  rewrite /xi_t /xi_p /xis /simulate_flat nth_flat_run; last by rewrite sz -same_size minnn.
  rewrite flat_stepE imp /e_t /a_t mulmxDr.
  move: (Tsq *m _) (P *m nth 0 us t) (P *m nth 0 vs t) (X *m _) => y1 y2 y3 y4; mx_abel.
have a_pE : a_p + Ru *m nth 0 us t = Ru *m e_t + J *m a_t.
  rewrite /a_p (drop_nth 0 lt_v) /= -/a_t /e_t mulmxDr.
  move: (Ru *m nth 0 vs t) (J *m a_t) (Ru *m nth 0 us t) => y1 y2 y3; mx_abel.
split; [ | exact: full_bottom | exact: full_bottom ].
rewrite a_pE step.
exact: (@square_step F nb nf ne A B C D S T Q Z Ta u QAZ QBZ uQ S21_0 T21_0 uS11 uT22 uST22 uZ21 uu schur).
Qed.

End Path.

(* ================================================================== *)
(* 3. The steady state of the unsolved system is a fixed point of the solved recursion      *)
Section Steady.
Variable F : fieldType.
Variables nb nf ne : nat.
Variables (A B : 'M[F]_(nb + nf, nf + nb)) (C : 'cV[F]_(nb + nf)) (D : 'M[F]_(nb + nf, ne)).
Variables (S T Q : 'M[F]_(nb + nf)) (Z : 'M[F]_(nf + nb, nb + nf)) (Zi : 'M[F]_(nb + nf, nf + nb)) (Ta u : 'M[F]_nb).

Notation O := (MCOps F).
Let p := @solve_transition O nb nf ne S T Q Z C D.
Let sq := @square_from_triangular O nb nf ne (@detach O nb nf ne p Ta u).

Hypothesis QAZ : Q *m A *m Z = S.
Hypothesis QBZ : Q *m B *m Z = T.
Hypothesis ZZi : Z *m Zi = 1%:M.
Hypothesis S21_0 : dlsubmx S = 0.
Hypothesis T21_0 : dlsubmx T = 0.
Hypothesis uS11 : ulsubmx S \in unitmx.
Hypothesis uT22 : drsubmx T \in unitmx.
Hypothesis uST22 : drsubmx S + drsubmx T \in unitmx.
Hypothesis uZ21 : dlsubmx Z \in unitmx.
Hypothesis uu : u *m u^T = 1%:M.
Hypothesis schur : ts_Tg p = u *m Ta *m u^T.

Theorem steady_is_fixed_point (xbar : 'cV[F]_(nf + nb)) :
  A *m xbar + B *m xbar + C = 0 -> sq_T sq *m dsubmx xbar + sq_K sq = dsubmx xbar.
Proof.
move=> st.
pose w := Zi *m xbar.
have Zw : Z *m w = xbar by rewrite /w mulmxA ZZi mul1mx.
have H1 : S *m w + T *m w + Q *m C = 0.
  by rewrite -QAZ -QBZ -!mulmxA Zw -!mulmxDr st mulmx0.
move: H1; rewrite -[w]vsubmxK; set s := usubmx w; set ub := dsubmx w.
rewrite -{1}[S]submxK -{1}[T]submxK S21_0 T21_0 !mul_block_col !mul0mx !add0r.
rewrite -[Q *m C]vsubmxK !add_col_mx -[0]col_mx0 => /eq_col_mx [up lo].
(* unstable block: ub = Ku *)
have KuE : ub = ts_Ku p.
  have e1 : (drsubmx S + drsubmx T) *m ub = (drsubmx S + drsubmx T) *m ts_Ku p.
    rewrite (@ST22Ku F nf (drsubmx S) (drsubmx T) (dsubmx (Q *m C)) (ts_Ku p) uST22 erefl) mulmxDl.
    by apply/eqP; rewrite -subr_eq0 opprK; apply/eqP.
  by rewrite -[LHS](mulKmx uST22) e1 mulKmx.
pose g := s - ts_G p *m ts_Ku p.
have sE : s = g + ts_G p *m ts_Ku p by rewrite /g subrK.
have fp : ts_Tg p *m g + ts_Kg p = g.
  apply: (@core_fixed_point F nb nf ne (ulsubmx S) (ulsubmx T) (ursubmx S) (ursubmx T) (usubmx (Q *m C))
            (usubmx (Q *m D)) (ts_G p) (ts_Xg0 p) (ts_Xg1 p) (ts_Xg p) (ts_Ku p) (ts_Ru p) (ts_J p)
            (ts_Tg p) (ts_Rg p) (ts_Kg p) uS11 erefl erefl erefl erefl erefl erefl).
  rewrite -sE -KuE !mulmxDl -up.
  move: (ulsubmx S *m s) (ulsubmx T *m s) (ursubmx S *m ub) (ursubmx T *m ub) => y1 y2 y3 y4; mx_abel.
have bot : dsubmx xbar = dlsubmx Z *m g.
  by rewrite -Zw -[w]vsubmxK -/s -/ub sE KuE (@Zw_bottom F nb nf ne S T Q Z C D uZ21).
have TE := @Tsq_eq F nb nf ne C D S T Q Z Ta u uZ21 uu schur.
have KE := @K_eq F nb nf ne C D S T Q Z Ta u uu.
rewrite bot -/sq in TE KE *; rewrite TE KE -!mulmxA (mulKmx uZ21) -mulmxDr.
by congr (_ *m _); rewrite mulmxA; exact: fp.
Qed.

End Steady.
