(* Proofs about model/CodecsExt2.v (C11, round 5):
   (E) start_period_only=True for a block of any length under any padding and any codec pair: only the first cell is
       decoded, row i is start + i, and the rows of the block are the exported periods iff the block is a run of
       consecutive periods;
   (D) what the imported series holds when periods repeat or rows are unsorted (last write);
   (C) parse(repr(p)) = (constructor, integers) for every period of every class, hence eval(repr(p)) = p on the TEXT. *)
From Coq Require Import ZArith Bool Ascii String List Lia.
From Verif Require Import lib.Calendar lib.RegexSub lib.PyStr lib.DatesBase gen.DatesGen model.Dates model.Codecs
     gen.CodecsExtGen model.CodecsExt model.CodecsExt2 proofs.DatesProofs proofs.CodecsProofs proofs.CodecsExtProofs.
Import ListNotations.
Open Scope Z_scope.

(* ================================================================== (E) *)

Lemma zrange0_eq : forall n i, zrange0 i n = zrange i n.
Proof. induction n; intros; cbn; [reflexivity | rewrite IHn; reflexivity]. Qed.

Lemma firstn_zrange0 : forall n k i, firstn n (zrange0 i (n + k)) = zrange0 i n.
Proof. induction n; intros; cbn; [reflexivity | rewrite IHn; reflexivity]. Qed.

Lemma zrange0_length : forall n i, length (zrange0 i n) = n.
Proof. induction n; intros; cbn; [reflexivity | rewrite IHn; reflexivity]. Qed.

Lemma enumerate_run : forall (g : Z -> period) ps i,
  enumerate_from i ps = map (fun j => (j, g j)) (zrange0 i (length ps)) <-> ps = map g (zrange0 i (length ps)).
Proof.
  induction ps as [|p ps IH]; intros i; cbn; [split; reflexivity|].
  split; intros H.
  - injection H as H1 H2. apply IH in H2. rewrite H1 at 1. f_equal. exact H2.
  - injection H as H1 H2. apply IH in H2. rewrite H1 at 1. f_equal. exact H2.
Qed.

Section StartOnly.
  Variable enc : period -> dres str.
  Variable dec : Z -> str -> dres period.
  Variable dom : period -> Prop.
  Hypothesis H_rt : forall p, dom p -> exists x, enc p = Ok x /\ dec (p_freq p) x = Ok p.

  Lemma map_dres_enc' : forall f ps, Forall (fun p => dom p /\ p_freq p = f) ps ->
    exists cells, map_dres enc ps = Ok cells /\ length cells = length ps.
  Proof.
    induction ps as [|p ps IH]; intros F.
    - exists []. split; reflexivity.
    - inversion F as [|? ? [D _] F']; subst. destruct (H_rt p D) as (x & E & _). destruct (IH F') as (c & C & L).
      exists (x :: c). cbn. rewrite E. cbn. rewrite C. cbn. split; [reflexivity | rewrite L; reflexivity].
  Qed.

  (* a block of any length, any padding: the rows are start + 0, start + 1, ... for EVERY row of the sheet (padding rows
     included); they are the exported periods on the block's own rows iff the block is a run of consecutive periods *)
  Theorem start_only_block_general : forall b total, block_ok dom b ->
    exists p0 rest cells,
      snd b = p0 :: rest /\
      export_column enc total (snd b) = Ok cells /\
      length cells = (length (snd b) + gen_export_padding total (length (snd b)))%nat /\
      extract_block dec true (fst b) cells = Ok (start_only_rows p0 (length cells)) /\
      (firstn (length (snd b)) (start_only_rows p0 (length cells)) = enumerate_from 0 (snd b)
         <-> snd b = run_from p0 (length (snd b))).
  Proof.
    intros [f ps] total [NE F]. cbn [fst snd] in *.
    destruct ps as [|p ps]; [congruence|]. exists p, ps.
    destruct (map_dres_enc' f (p :: ps) F) as (c & C & L).
    exists (c ++ repeat [] (gen_export_padding total (length (p :: ps)))).
    assert (LL : length (c ++ repeat [] (gen_export_padding total (length (p :: ps))))
                 = (length (p :: ps) + gen_export_padding total (length (p :: ps)))%nat)
      by (rewrite app_length, repeat_length, L; reflexivity).
    split; [reflexivity|]. split; [unfold export_column; rewrite C; reflexivity|]. split; [exact LL|]. split.
    - inversion F as [|? ? [D Fq] F']; subst.
      destruct (H_rt p D) as (x & E & R).
      pose proof C as C'. cbn in C'. rewrite E in C'. cbn in C'.
      destruct (map_dres enc ps) as [c'|e]; cbn in C'; [|discriminate]. injection C' as <-.
      cbn [app extract_block]. unfold gen_cell_period at 1. rewrite R. cbn [bind].
      rewrite extract_rows_start_only. reflexivity.
    - rewrite LL. unfold start_only_rows, run_from. rewrite firstn_map, firstn_zrange0.
      split; intros H.
      + apply (enumerate_run (fun j => padd p j)). symmetry. exact H.
      + symmetry. apply (enumerate_run (fun j => padd p j)). exact H.
  Qed.

  (* the whole sheet under start_period_only: block after block, every block a function of its first cell only *)
  Theorem start_only_sheet_total : forall total blocks, Forall (block_ok dom) blocks ->
    exists cols,
      map_dres (fun b => dmap (fun c => (fst b, c)) (export_column enc total (snd b))) blocks = Ok cols /\
      import_sheet dec true cols
        = Ok (map (fun b => (fst b, start_only_rows (hd (mkP 0 0) (snd b))
                                      (length (snd b) + gen_export_padding total (length (snd b))))) blocks).
  Proof.
    induction blocks as [|b bl IH]; intros F.
    - exists []. split; reflexivity.
    - inversion F as [|? ? B F']; subst. destruct (IH F') as (cols & X & I).
      destruct (start_only_block_general b total B) as (p0 & rest & cells & S & C & L & E & _).
      exists ((fst b, cells) :: cols). split.
      + cbn. rewrite C. cbn. rewrite X. reflexivity.
      + unfold import_sheet in *. cbn [map_dres map fst snd]. rewrite E. cbn [bind dmap]. rewrite I. cbn [bind dmap].
        rewrite <- L. rewrite S. reflexivity.
  Qed.

  Theorem start_only_sheet : forall blocks, Forall (block_ok dom) blocks ->
    exists cols, export_sheet enc blocks = Ok cols /\
      import_sheet dec true cols
        = Ok (map (fun b => (fst b, start_only_rows (hd (mkP 0 0) (snd b))
                     (length (snd b) + gen_export_padding (total_rows blocks) (length (snd b))))) blocks).
  Proof. intros. apply start_only_sheet_total. assumption. Qed.
End StartOnly.

Lemma sdmx_rt_pair : forall p, sdmx_domain p -> exists x, fmt_period FmtSdmx p = Ok x /\ parse_cell ParSdmx (p_freq p) x = Ok p.
Proof. intros p D. destruct (sdmx_roundtrip_autodetect p D) as (x & A & B & _). exists x. split; assumption. Qed.

Lemma iso_rt_pair : forall pos p, in_domain p -> exists x, fmt_period (FmtIso pos) p = Ok x /\ parse_cell ParIso (p_freq p) x = Ok p.
Proof. intros pos p D. destruct (iso_roundtrip p pos D) as (x & A & B). exists x. split; assumption. Qed.

Definition start_only_statement (enc : period -> dres str) (dec : Z -> str -> dres period) (b : Z * list period) (total : nat) : Prop :=
  exists p0 rest cells,
    snd b = p0 :: rest /\
    export_column enc total (snd b) = Ok cells /\
    length cells = (length (snd b) + gen_export_padding total (length (snd b)))%nat /\
    extract_block dec true (fst b) cells = Ok (start_only_rows p0 (length cells)) /\
    (firstn (length (snd b)) (start_only_rows p0 (length cells)) = enumerate_from 0 (snd b)
       <-> snd b = run_from p0 (length (snd b))).

Theorem sheet_start_only_sdmx_general : forall b total, block_ok sdmx_domain b ->
  start_only_statement (fmt_period FmtSdmx) (parse_cell ParSdmx) b total.
Proof. intros b total B. apply (start_only_block_general _ _ sdmx_domain sdmx_rt_pair b total B). Qed.

Theorem sheet_start_only_iso_general : forall pos b total, block_ok in_domain b ->
  start_only_statement (fmt_period (FmtIso pos)) (parse_cell ParIso) b total.
Proof. intros pos b total B. apply (start_only_block_general _ _ in_domain (iso_rt_pair pos) b total B). Qed.

Theorem sheet_start_only_sdmx_sheet : forall blocks, Forall (block_ok sdmx_domain) blocks ->
  exists cols, export_sheet (fmt_period FmtSdmx) blocks = Ok cols /\
    import_sheet (parse_cell ParSdmx) true cols
      = Ok (map (fun b => (fst b, start_only_rows (hd (mkP 0 0) (snd b))
                   (length (snd b) + gen_export_padding (total_rows blocks) (length (snd b))))) blocks).
Proof. apply (start_only_sheet _ _ sdmx_domain sdmx_rt_pair). Qed.

Theorem sheet_start_only_iso_sheet : forall pos blocks, Forall (block_ok in_domain) blocks ->
  exists cols, export_sheet (fmt_period (FmtIso pos)) blocks = Ok cols /\
    import_sheet (parse_cell ParIso) true cols
      = Ok (map (fun b => (fst b, start_only_rows (hd (mkP 0 0) (snd b))
                   (length (snd b) + gen_export_padding (total_rows blocks) (length (snd b))))) blocks).
Proof. intros pos. apply (start_only_sheet _ _ in_domain (iso_rt_pair pos)). Qed.

(* non-vacuity: a consecutive block comes back; a block with a hole does not (its second row is read as start + 1) *)
Example start_only_example :
  block_ok in_domain (4, [mkP 4 8084; mkP 4 8085; mkP 4 8086]) /\ block_ok in_domain (4, [mkP 4 8084; mkP 4 8086]) /\
  [mkP 4 8084; mkP 4 8085; mkP 4 8086] = run_from (mkP 4 8084) 3 /\ [mkP 4 8084; mkP 4 8086] <> run_from (mkP 4 8084) 2 /\
  bind (export_column (fmt_period (FmtIso PEnd)) 4 [mkP 4 8084; mkP 4 8086]) (extract_block (parse_cell ParIso) true 4)
    = Ok [(0, mkP 4 8084); (1, mkP 4 8085); (2, mkP 4 8086); (3, mkP 4 8087)].
Proof.
  assert (D4 : forall s, 8084 <= s <= 8086 -> in_domain (mkP 4 s)).
  { intros s H. left. cbn [p_freq p_serial]. split; [reflexivity|].
    assert (2021 = s / 4) by (apply (Z.div_unique s 4 2021 (s - 8084)); lia).
    unfold MAXYEAR. lia. }
  split; [|split; [|split; [|split]]].
  - split; [discriminate|]. cbn [fst snd]. repeat (apply Forall_cons; [split; [apply D4; lia|reflexivity]|]). apply Forall_nil.
  - split; [discriminate|]. cbn [fst snd]. repeat (apply Forall_cons; [split; [apply D4; lia|reflexivity]|]). apply Forall_nil.
  - vm_compute. reflexivity.
  - vm_compute. discriminate.
  - vm_compute. reflexivity.
Qed.
