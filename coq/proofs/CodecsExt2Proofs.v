(* Proofs about model/CodecsExt2.v (C11, round 5):
   (E) start_period_only=True for a block of any length under any padding and any codec pair: only the first cell is
       decoded, row i is start + i, and the rows of the block are the exported periods iff the block is a run of
       consecutive periods;
   (D) what the imported series holds when periods repeat or rows are unsorted (last write);
   (C) parse(repr(p)) = (constructor, integers) for every period of every class, hence eval(repr(p)) = p on the TEXT. *)
From Coq Require Import ZArith Bool Ascii String List Lia.
From Verif Require Import lib.Calendar lib.RegexSub lib.PyStr lib.DatesBase gen.DatesGen model.Dates model.Codecs
     gen.CodecsExtGen model.CodecsExt model.CodecsExt2 proofs.DatesProofs proofs.CodecsProofs proofs.CodecsExtProofs.
Import ListNotations.
Open Scope Z_scope.

(* ================================================================== (E) *)

Lemma zrange0_eq : forall n i, zrange0 i n = zrange i n.
Proof. induction n; intros; cbn; [reflexivity | rewrite IHn; reflexivity]. Qed.

Lemma firstn_zrange0 : forall n k i, firstn n (zrange0 i (n + k)) = zrange0 i n.
Proof. induction n; intros; cbn; [reflexivity | rewrite IHn; reflexivity]. Qed.

Lemma zrange0_length : forall n i, length (zrange0 i n) = n.
Proof. induction n; intros; cbn; [reflexivity | rewrite IHn; reflexivity]. Qed.

Lemma enumerate_run : forall (g : Z -> period) ps i,
  enumerate_from i ps = map (fun j => (j, g j)) (zrange0 i (length ps)) <-> ps = map g (zrange0 i (length ps)).
Proof.
  induction ps as [|p ps IH]; intros i; cbn; [split; reflexivity|].
  split; intros H.
  - injection H as H1 H2. apply IH in H2. rewrite H1 at 1. f_equal. exact H2.
  - injection H as H1 H2. apply IH in H2. rewrite H1 at 1. f_equal. exact H2.
Qed.

Section StartOnly.
  Variable enc : period -> dres str.
  Variable dec : Z -> str -> dres period.
  Variable dom : period -> Prop.
  Hypothesis H_rt : forall p, dom p -> exists x, enc p = Ok x /\ dec (p_freq p) x = Ok p.

  Lemma map_dres_enc' : forall f ps, Forall (fun p => dom p /\ p_freq p = f) ps ->
    exists cells, map_dres enc ps = Ok cells /\ length cells = length ps.
  Proof.
    induction ps as [|p ps IH]; intros F.
    - exists []. split; reflexivity.
    - inversion F as [|? ? [D _] F']; subst. destruct (H_rt p D) as (x & E & _). destruct (IH F') as (c & C & L).
      exists (x :: c). cbn. rewrite E. cbn. rewrite C. cbn. split; [reflexivity | rewrite L; reflexivity].
  Qed.

  (* a block of any length, any padding: the rows are start + 0, start + 1, ... for EVERY row of the sheet (padding rows
     included); they are the exported periods on the block's own rows iff the block is a run of consecutive periods *)
  Theorem start_only_block_general : forall b total, block_ok dom b ->
    exists p0 rest cells,
      snd b = p0 :: rest /\
      export_column enc total (snd b) = Ok cells /\
      length cells = (length (snd b) + gen_export_padding total (length (snd b)))%nat /\
      extract_block dec true (fst b) cells = Ok (start_only_rows p0 (length cells)) /\
      (firstn (length (snd b)) (start_only_rows p0 (length cells)) = enumerate_from 0 (snd b)
         <-> snd b = run_from p0 (length (snd b))).
  Proof.
    intros [f ps] total [NE F]. cbn [fst snd] in *.
    destruct ps as [|p ps]; [congruence|]. exists p, ps.
    destruct (map_dres_enc' f (p :: ps) F) as (c & C & L).
    exists (c ++ repeat [] (gen_export_padding total (length (p :: ps)))).
    assert (LL : length (c ++ repeat [] (gen_export_padding total (length (p :: ps))))
                 = (length (p :: ps) + gen_export_padding total (length (p :: ps)))%nat)
      by (rewrite app_length, repeat_length, L; reflexivity).
    split; [reflexivity|]. split; [unfold export_column; rewrite C; reflexivity|]. split; [exact LL|]. split.
    - inversion F as [|? ? [D Fq] F']; subst.
      destruct (H_rt p D) as (x & E & R).
      pose proof C as C'. cbn in C'. rewrite E in C'. cbn in C'.
      destruct (map_dres enc ps) as [c'|e]; cbn in C'; [|discriminate]. injection C' as <-.
      cbn [app extract_block]. unfold gen_cell_period at 1. rewrite R. cbn [bind].
      rewrite extract_rows_start_only. reflexivity.
    - rewrite LL. unfold start_only_rows, run_from. rewrite firstn_map, firstn_zrange0.
      split; intros H.
      + apply (enumerate_run (fun j => padd p j)). symmetry. exact H.
      + symmetry. apply (enumerate_run (fun j => padd p j)). exact H.
  Qed.

  (* the whole sheet under start_period_only: block after block, every block a function of its first cell only *)
  Theorem start_only_sheet_total : forall total blocks, Forall (block_ok dom) blocks ->
    exists cols,
      map_dres (fun b => dmap (fun c => (fst b, c)) (export_column enc total (snd b))) blocks = Ok cols /\
      import_sheet dec true cols
        = Ok (map (fun b => (fst b, start_only_rows (hd (mkP 0 0) (snd b))
                                      (length (snd b) + gen_export_padding total (length (snd b))))) blocks).
  Proof.
    induction blocks as [|b bl IH]; intros F.
    - exists []. split; reflexivity.
    - inversion F as [|? ? B F']; subst. destruct (IH F') as (cols & X & I).
      destruct (start_only_block_general b total B) as (p0 & rest & cells & S & C & L & E & _).
      exists ((fst b, cells) :: cols). split.
      + cbn. rewrite C. cbn. rewrite X. reflexivity.
      + unfold import_sheet in *. cbn [map_dres map fst snd]. rewrite E. cbn [bind dmap]. rewrite I. cbn [bind dmap].
        rewrite <- L. rewrite S. reflexivity.
  Qed.

  Theorem start_only_sheet : forall blocks, Forall (block_ok dom) blocks ->
    exists cols, export_sheet enc blocks = Ok cols /\
      import_sheet dec true cols
        = Ok (map (fun b => (fst b, start_only_rows (hd (mkP 0 0) (snd b))
                     (length (snd b) + gen_export_padding (total_rows blocks) (length (snd b))))) blocks).
  Proof. intros. apply start_only_sheet_total. assumption. Qed.
End StartOnly.

Lemma sdmx_rt_pair : forall p, sdmx_domain p -> exists x, fmt_period FmtSdmx p = Ok x /\ parse_cell ParSdmx (p_freq p) x = Ok p.
Proof. intros p D. destruct (sdmx_roundtrip_autodetect p D) as (x & A & B & _). exists x. split; assumption. Qed.

Lemma iso_rt_pair : forall pos p, in_domain p -> exists x, fmt_period (FmtIso pos) p = Ok x /\ parse_cell ParIso (p_freq p) x = Ok p.
Proof. intros pos p D. destruct (iso_roundtrip p pos D) as (x & A & B). exists x. split; assumption. Qed.

Definition start_only_statement (enc : period -> dres str) (dec : Z -> str -> dres period) (b : Z * list period) (total : nat) : Prop :=
  exists p0 rest cells,
    snd b = p0 :: rest /\
    export_column enc total (snd b) = Ok cells /\
    length cells = (length (snd b) + gen_export_padding total (length (snd b)))%nat /\
    extract_block dec true (fst b) cells = Ok (start_only_rows p0 (length cells)) /\
    (firstn (length (snd b)) (start_only_rows p0 (length cells)) = enumerate_from 0 (snd b)
       <-> snd b = run_from p0 (length (snd b))).

Theorem sheet_start_only_sdmx_general : forall b total, block_ok sdmx_domain b ->
  start_only_statement (fmt_period FmtSdmx) (parse_cell ParSdmx) b total.
Proof. intros b total B. apply (start_only_block_general _ _ sdmx_domain sdmx_rt_pair b total B). Qed.

Theorem sheet_start_only_iso_general : forall pos b total, block_ok in_domain b ->
  start_only_statement (fmt_period (FmtIso pos)) (parse_cell ParIso) b total.
Proof. intros pos b total B. apply (start_only_block_general _ _ in_domain (iso_rt_pair pos) b total B). Qed.

Theorem sheet_start_only_sdmx_sheet : forall blocks, Forall (block_ok sdmx_domain) blocks ->
  exists cols, export_sheet (fmt_period FmtSdmx) blocks = Ok cols /\
    import_sheet (parse_cell ParSdmx) true cols
      = Ok (map (fun b => (fst b, start_only_rows (hd (mkP 0 0) (snd b))
                   (length (snd b) + gen_export_padding (total_rows blocks) (length (snd b))))) blocks).
Proof. apply (start_only_sheet _ _ sdmx_domain sdmx_rt_pair). Qed.

Theorem sheet_start_only_iso_sheet : forall pos blocks, Forall (block_ok in_domain) blocks ->
  exists cols, export_sheet (fmt_period (FmtIso pos)) blocks = Ok cols /\
    import_sheet (parse_cell ParIso) true cols
      = Ok (map (fun b => (fst b, start_only_rows (hd (mkP 0 0) (snd b))
                   (length (snd b) + gen_export_padding (total_rows blocks) (length (snd b))))) blocks).
Proof. intros pos. apply (start_only_sheet _ _ in_domain (iso_rt_pair pos)). Qed.

(* non-vacuity: a consecutive block comes back; a block with a hole does not (its second row is read as start + 1) *)
Example start_only_example :
  block_ok in_domain (4, [mkP 4 8084; mkP 4 8085; mkP 4 8086]) /\ block_ok in_domain (4, [mkP 4 8084; mkP 4 8086]) /\
  [mkP 4 8084; mkP 4 8085; mkP 4 8086] = run_from (mkP 4 8084) 3 /\ [mkP 4 8084; mkP 4 8086] <> run_from (mkP 4 8084) 2 /\
  bind (export_column (fmt_period (FmtIso PEnd)) 4 [mkP 4 8084; mkP 4 8086]) (extract_block (parse_cell ParIso) true 4)
    = Ok [(0, mkP 4 8084); (1, mkP 4 8085); (2, mkP 4 8086); (3, mkP 4 8087)].
Proof.
  assert (D4 : forall s, 8084 <= s <= 8086 -> in_domain (mkP 4 s)).
  { intros s H. left. cbn [p_freq p_serial]. split; [reflexivity|].
    assert (2021 = s / 4) by (apply (Z.div_unique s 4 2021 (s - 8084)); lia).
    unfold MAXYEAR. lia. }
  split; [|split; [|split; [|split]]].
  - split; [discriminate|]. cbn [fst snd]. repeat (apply Forall_cons; [split; [apply D4; lia|reflexivity]|]). apply Forall_nil.
  - split; [discriminate|]. cbn [fst snd]. repeat (apply Forall_cons; [split; [apply D4; lia|reflexivity]|]). apply Forall_nil.
  - vm_compute. reflexivity.
  - vm_compute. discriminate.
  - vm_compute. reflexivity.
Qed.

(* ================================================================== (C) the repr grammar *)

Definition argchar (c : ascii) : bool := is_digit c || Ascii.eqb c "-".

Lemma argchar_not_sep : forall c, argchar c = true ->
  Ascii.eqb c ")" = false /\ Ascii.eqb c "," = false /\ Ascii.eqb c " " = false.
Proof.
  intros c. destruct c as [[] [] [] [] [] [] [] []]; vm_compute; intros H; try discriminate H; repeat split; reflexivity.
Qed.

Lemma forallb_digits_argchars : forall s, all_digits s = true -> forallb argchar s = true.
Proof.
  induction s as [|c s IH]; intros H; [reflexivity|]. cbn in H. apply andb_true_iff in H. destruct H as [A B].
  cbn. unfold argchar at 1. rewrite A. cbn. apply IH. exact B.
Qed.

Lemma dec_int_argchars : forall n, forallb argchar (dec_int n) = true.
Proof.
  intros n. unfold dec_int. destruct (Z.ltb_spec n 0).
  - cbn [forallb]. apply andb_true_iff. split; [reflexivity|].
    apply forallb_digits_argchars. apply dec_nat_digits. lia.
  - apply forallb_digits_argchars. apply dec_nat_digits. lia.
Qed.

Lemma split_args_comma : forall t cur, split_args (","%char :: t) cur = option_map (cons cur) (split_args t []).
Proof. reflexivity. Qed.
Lemma split_args_close : forall cur, split_args [")"%char] cur = Some [cur].
Proof. reflexivity. Qed.

Lemma split_args_skip : forall a s cur, forallb argchar a = true -> split_args (a ++ s) cur = split_args s (cur ++ a).
Proof.
  induction a as [|c a IH]; intros s cur H; cbn [app].
  - rewrite app_nil_r. reflexivity.
  - cbn in H. apply andb_true_iff in H. destruct H as [Hc Ha]. destruct (argchar_not_sep c Hc) as (E1 & E2 & _).
    cbn [split_args]. rewrite E1, E2. rewrite IH by assumption. rewrite <- app_assoc. reflexivity.
Qed.

Lemma split_args_join : forall r x cur, forallb argchar x = true -> Forall (fun y => forallb argchar y = true) r ->
  split_args (join_tight x r ++ [")"%char]) cur = Some ((cur ++ x) :: r).
Proof.
  induction r as [|y r IH]; intros x cur Hx Hr; cbn [join_tight].
  - rewrite split_args_skip by assumption. apply split_args_close.
  - inversion Hr as [|? ? Hy Hr']; subst. rewrite <- app_assoc, <- app_comm_cons.
    rewrite split_args_skip by assumption. rewrite split_args_comma. rewrite IH by assumption. reflexivity.
Qed.

Lemma take_letters_call : forall name c t, forallb is_letter name = true -> is_letter c = false ->
  take_letters (name ++ c :: t) = name.
Proof.
  induction name as [|a name IH]; intros c t H Hc; cbn [app take_letters].
  - rewrite Hc. reflexivity.
  - cbn in H. apply andb_true_iff in H. destruct H as [Ha Hn]. rewrite Ha. rewrite IH by assumption. reflexivity.
Qed.

(* the parser reads back any call text: name(a,b,...) -> (name, [a; b; ...]) for all integers, negative ones included *)
Theorem parse_call : forall name a r, forallb is_letter name = true -> parse_repr (call_text name a r) = Some (name, a :: r).
Proof.
  intros name a r H. unfold parse_repr, call_text.
  rewrite take_letters_call by (assumption || reflexivity).
  rewrite skipn_app, skipn_all, Nat.sub_diag. cbn [skipn app].
  change (Ascii.eqb "(" "(") with true. cbv iota.
  rewrite split_args_join.
  - cbn [app]. change (dec_int a :: map dec_int r) with (map dec_int (a :: r)). rewrite map_map.
    rewrite (map_ext _ Some) by (intros; apply parse_int_dec_int). rewrite all_some_map_some. reflexivity.
  - apply dec_int_argchars.
  - apply Forall_forall. intros y Hy. apply in_map_iff in Hy. destruct Hy as (z & <- & _). apply dec_int_argchars.
Qed.

Lemma rb_cons : forall c s, Ascii.eqb c " " = false -> remove_blanks (c :: s) = c :: remove_blanks s.
Proof. intros c s H. unfold remove_blanks. cbn [filter]. rewrite H. reflexivity. Qed.
Lemma rb_blank : forall s, remove_blanks (" "%char :: s) = remove_blanks s.
Proof. reflexivity. Qed.
Lemma rb_app : forall a b, remove_blanks (a ++ b) = remove_blanks a ++ remove_blanks b.
Proof. intros. apply filter_app. Qed.
Lemma rb_nil : remove_blanks [] = [].
Proof. reflexivity. Qed.
Lemma rb_args : forall s, forallb argchar s = true -> remove_blanks s = s.
Proof.
  induction s as [|c s IH]; intros H; [reflexivity|]. cbn in H. apply andb_true_iff in H. destruct H as [Hc Hs].
  destruct (argchar_not_sep c Hc) as (_ & _ & E). rewrite rb_cons by assumption. rewrite IH by assumption. reflexivity.
Qed.

Ltac gen_dec_int :=
  repeat match goal with
         | |- context [dec_int ?x] =>
             let A := fresh "A" in let HA := fresh "HA" in
             pose proof (dec_int_argchars x) as HA; set (A := dec_int x) in *; clearbody A
         end.

Ltac rb_norm :=
  repeat (rewrite rb_app || rewrite rb_nil || rewrite rb_blank || (rewrite rb_cons by reflexivity)
          || match goal with H : forallb argchar ?A = true |- context [remove_blanks ?A] => rewrite (rb_args A H) end);
  repeat rewrite <- app_assoc; cbn [app]; rewrite ?app_nil_r.

(* the text of repr(p) is the call text of its structured term, for every class *)
Ltac solve_term O :=
  unfold repr_term, repr_pieces; cbn [p_freq p_serial]; freq_tests; try (unfold gen_repr_DAILY; rewrite O); reflexivity.
Ltac solve_text O :=
  unfold repr_str, repr_pieces; cbn [p_freq p_serial]; freq_tests;
  unfold gen_repr_YEARLY, gen_repr_HALFYEARLY, gen_repr_QUARTERLY, gen_repr_MONTHLY, gen_repr_INTEGER, gen_repr_DAILY,
    gen_repr_YEARLY_remove_blanks, gen_repr_HALFYEARLY_remove_blanks, gen_repr_QUARTERLY_remove_blanks,
    gen_repr_MONTHLY_remove_blanks, gen_repr_INTEGER_remove_blanks, gen_repr_DAILY_remove_blanks;
  try rewrite O; cbv iota;
  cbn [dmap of_opt bind render render_piece tuple_repr map join_comma s2l list_ascii_of_string app];
  unfold call_text; cbn [map join_tight s2l list_ascii_of_string app];
  gen_dec_int; cbv iota; f_equal; rb_norm; reflexivity.

Theorem repr_text : forall p, sdmx_domain p ->
  exists name a r, forallb is_letter name = true /\ repr_term p = Ok (name, a :: r) /\ repr_str p = Ok (call_text name a r).
Proof.
  intros [f s] D. destruct D as [[[R Y] | [E C]] | E]; cbn [p_freq p_serial] in *.
  - assert (O : True) by exact I.
    destruct (regular_cases f R) as [-> | [-> | [-> | ->]]].
    + exists (s2l "yy"), (s / freq_YEARLY), []. split; [reflexivity|]. split; [solve_term O | solve_text O].
    + exists (s2l "hh"), (s / freq_HALFYEARLY), [s mod freq_HALFYEARLY + 1]. split; [reflexivity|]. split; [solve_term O | solve_text O].
    + exists (s2l "qq"), (s / freq_QUARTERLY), [s mod freq_QUARTERLY + 1]. split; [reflexivity|]. split; [solve_term O | solve_text O].
    + exists (s2l "mm"), (s / freq_MONTHLY), [s mod freq_MONTHLY + 1]. split; [reflexivity|]. split; [solve_term O | solve_text O].
  - subst f. pose proof (ord_ok_true s C) as O.
    exists (s2l "dd"), (year_of_ord s), [month_of_ord s; day_of_ord s]. split; [reflexivity|]. split; [solve_term O | solve_text O].
  - subst f. assert (O : True) by exact I.
    exists (s2l "ii"), s, []. split; [reflexivity|]. split; [solve_term O | solve_text O].
Qed.

(* eval(repr(p)) = p on the TEXT: the text written by repr parses to the constructor call whose evaluation is p *)
Theorem repr_text_roundtrip : forall p, sdmx_domain p ->
  exists x t, repr_str p = Ok x /\ parse_repr x = Some t /\ repr_term p = Ok t /\ eval_term t = Ok p /\
              eval_repr_text x = Ok p.
Proof.
  intros p D. destruct (repr_text p D) as (name & a & r & L & T & S).
  destruct (repr_roundtrip p D) as (t & T' & Ev). rewrite T in T'. injection T' as <-.
  exists (call_text name a r), (name, a :: r).
  pose proof (parse_call name a r L) as P.
  repeat split; try assumption. unfold eval_repr_text. rewrite P. exact Ev.
Qed.

Example repr_text_example :
  sdmx_domain (mkP freq_INTEGER (-5)) /\ repr_str (mkP freq_INTEGER (-5)) = Ok (s2l "ii(-5)") /\
  parse_repr (s2l "ii(-5)") = Some (s2l "ii", [-5]) /\ eval_repr_text (s2l "ii(-5)") = Ok (mkP freq_INTEGER (-5)) /\
  parse_repr (s2l "dd(2021,7,29)") = Some (s2l "dd", [2021; 7; 29]) /\
  eval_repr_text (s2l "dd(2021,7,29)") = Ok (mkP freq_DAILY 738000) /\
  parse_repr (s2l "qq(2021,1") = None /\ parse_repr (s2l "qq(2021,,1)") = None /\ parse_repr (s2l "qq(2021,1))") = None.
Proof. split; [right; reflexivity|]. vm_compute. repeat split; reflexivity. Qed.

(* ================================================================== (D) duplicate periods, unsorted rows: last write *)

Lemma period_eqb_eq : forall p q, period_eqb p q = true <-> p = q.
Proof.
  intros [f s] [g t]. unfold period_eqb. cbn [p_freq p_serial]. rewrite andb_true_iff, !Z.eqb_eq.
  split; [intros [-> ->]; reflexivity | intros H; injection H; auto].
Qed.

(* the series holds nothing at q iff no row carries q *)
Theorem series_lookup_none : forall rows q,
  series_lookup rows q = None <-> (forall j p, In (j, p) rows -> period_eqb p q = false).
Proof.
  induction rows as [|[i0 p0] r IH]; intros q; cbn [series_lookup].
  - split; [intros _ j p []|reflexivity].
  - destruct (series_lookup r q) as [j|] eqn:E.
    + split; [discriminate|]. intros H. exfalso.
      assert (N : series_lookup r q = None) by (apply IH; intros j' p' I; apply (H j' p'); right; exact I).
      congruence.
    + destruct (period_eqb p0 q) eqn:Pe.
      * split; [discriminate|]. intros H. rewrite (H i0 p0 (or_introl eq_refl)) in Pe. discriminate.
      * split; [|reflexivity]. intros _ j p [I|I]; [injection I as <- <-; exact Pe|].
        apply (proj1 (IH q) E j p I).
Qed.

(* the series holds row i at q iff row i carries q and no LATER row does (rows in any order, periods may repeat) *)
Theorem series_lookup_some : forall rows q i,
  series_lookup rows q = Some i <->
  exists r1 p r2, rows = r1 ++ (i, p) :: r2 /\ period_eqb p q = true /\ (forall j p', In (j, p') r2 -> period_eqb p' q = false).
Proof.
  induction rows as [|[i0 p0] r IH]; intros q i; cbn [series_lookup].
  - split; [discriminate|]. intros (r1 & p & r2 & H & _). destruct r1; discriminate.
  - split.
    + intros H. destruct (series_lookup r q) as [j|] eqn:E.
      * injection H as ->. apply IH in E. destruct E as (r1 & p & r2 & -> & A & B).
        exists ((i0, p0) :: r1), p, r2. split; [reflexivity|]. split; assumption.
      * destruct (period_eqb p0 q) eqn:Pe; [|discriminate]. injection H as <-.
        exists [], p0, r. split; [reflexivity|]. split; [assumption|]. apply series_lookup_none. exact E.
    + intros (r1 & p & r2 & H & A & B). destruct r1 as [|x r1]; cbn [app] in H; inversion H; subst.
      * rewrite (proj2 (series_lookup_none r2 q) B). rewrite A. reflexivity.
      * rewrite (proj2 (IH q i)); [reflexivity|]. exists r1, p, r2. split; [reflexivity|]. split; assumption.
Qed.

Lemma filter_all : forall (T : Type) (f : T -> bool) l, (forall x, In x l -> f x = true) -> filter f l = l.
Proof.
  induction l as [|x l IH]; intros H; [reflexivity|]. cbn [filter]. rewrite (H x (or_introl eq_refl)).
  rewrite IH; [reflexivity|]. intros y I. apply H. right. exact I.
Qed.

(* no period repeats (rows in ANY order): every row written is visible in the series *)
Theorem surviving_rows_nodup : forall rows, NoDup (map snd rows) -> surviving_rows rows = rows.
Proof.
  intros rows N. unfold surviving_rows. apply filter_all. intros [i p] I.
  destruct (in_split _ _ I) as (r1 & r2 & E).
  assert (L : series_lookup rows p = Some i).
  { apply series_lookup_some. exists r1, p, r2. split; [exact E|]. split; [apply period_eqb_eq; reflexivity|].
    intros j p' I'. destruct (period_eqb p' p) eqn:Pe; [|reflexivity]. exfalso.
    apply period_eqb_eq in Pe. subst p'. rewrite E, map_app in N. cbn [map snd] in N.
    apply NoDup_remove_2 in N. apply N. apply in_or_app. right. apply (in_map snd _ _ I'). }
  rewrite L. apply Z.eqb_refl.
Qed.

Lemma snd_enumerate_from : forall (T : Type) (l : list T) i, map snd (enumerate_from i l) = l.
Proof. induction l; intros; cbn; [reflexivity | rewrite IHl; reflexivity]. Qed.

Section LastWrite.
  Variable enc : period -> dres str.
  Variable dec : Z -> str -> dres period.
  Variable dom : period -> Prop.
  Hypothesis H_rt : forall p, dom p -> exists x, enc p = Ok x /\ dec (p_freq p) x = Ok p.
  Hypothesis H_ne : forall p, dom p -> enc p <> Ok [].

  (* a block whose periods are in any order and may repeat: the rows read are (i, period written in row i); the series
     holds at q the last row that carries q; without repeats every row is visible whatever the order *)
  Theorem block_last_write : forall b total, block_ok dom b ->
    exists cells, export_column enc total (snd b) = Ok cells /\
      extract_block dec false (fst b) cells = Ok (enumerate_from 0 (snd b)) /\
      (forall q, series_lookup (enumerate_from 0 (snd b)) q = None <-> ~ In q (snd b)) /\
      (forall q i, series_lookup (enumerate_from 0 (snd b)) q = Some i <->
         exists r1 r2, enumerate_from 0 (snd b) = r1 ++ (i, q) :: r2 /\ ~ In q (map snd r2)) /\
      (NoDup (snd b) -> surviving_rows (enumerate_from 0 (snd b)) = enumerate_from 0 (snd b)).
  Proof.
    intros b total B. destruct (extract_block_enc enc dec dom H_rt H_ne b total B) as (cells & C & E).
    exists cells. split; [exact C|]. split; [exact E|]. split; [|split].
    - intros q. rewrite series_lookup_none. split.
      + intros H I. rewrite <- (snd_enumerate_from _ (snd b) 0) in I. apply in_map_iff in I.
        destruct I as ([j p] & Ep & I). cbn in Ep. subst p. specialize (H j q I).
        rewrite (proj2 (period_eqb_eq q q) eq_refl) in H. discriminate.
      + intros H j p I. destruct (period_eqb p q) eqn:Pe; [|reflexivity]. exfalso. apply period_eqb_eq in Pe. subst p.
        apply H. rewrite <- (snd_enumerate_from _ (snd b) 0). apply (in_map snd _ _ I).
    - intros q i. rewrite series_lookup_some. split.
      + intros (r1 & p & r2 & Eq & A & Bq). apply period_eqb_eq in A. subst p. exists r1, r2. split; [exact Eq|].
        intros I. apply in_map_iff in I. destruct I as ([j p] & Ep & I). cbn in Ep. subst p.
        specialize (Bq j q I). rewrite (proj2 (period_eqb_eq q q) eq_refl) in Bq. discriminate.
      + intros (r1 & r2 & Eq & N). exists r1, q, r2. split; [exact Eq|]. split; [apply period_eqb_eq; reflexivity|].
        intros j p' I. destruct (period_eqb p' q) eqn:Pe; [|reflexivity]. exfalso. apply period_eqb_eq in Pe. subst p'.
        apply N. apply (in_map snd _ _ I).
    - intros N. apply surviving_rows_nodup. rewrite snd_enumerate_from. exact N.
  Qed.
End LastWrite.

Theorem sheet_block_last_write_sdmx : forall b total, block_ok sdmx_domain b ->
  exists cells, export_column (fmt_period FmtSdmx) total (snd b) = Ok cells /\
    extract_block (parse_cell ParSdmx) false (fst b) cells = Ok (enumerate_from 0 (snd b)) /\
    (forall q, series_lookup (enumerate_from 0 (snd b)) q = None <-> ~ In q (snd b)) /\
    (forall q i, series_lookup (enumerate_from 0 (snd b)) q = Some i <->
       exists r1 r2, enumerate_from 0 (snd b) = r1 ++ (i, q) :: r2 /\ ~ In q (map snd r2)) /\
    (NoDup (snd b) -> surviving_rows (enumerate_from 0 (snd b)) = enumerate_from 0 (snd b)).
Proof.
  apply (block_last_write _ _ sdmx_domain sdmx_rt_pair).
  intros p D E. destruct (sdmx_roundtrip_autodetect p D) as (x & A & B & _).
  cbn [fmt_period] in E. rewrite E in A. injection A as <-. exact (from_sdmx_as_empty p D B).
Qed.

Theorem sheet_block_last_write_iso : forall pos b total, block_ok in_domain b ->
  exists cells, export_column (fmt_period (FmtIso pos)) total (snd b) = Ok cells /\
    extract_block (parse_cell ParIso) false (fst b) cells = Ok (enumerate_from 0 (snd b)) /\
    (forall q, series_lookup (enumerate_from 0 (snd b)) q = None <-> ~ In q (snd b)) /\
    (forall q i, series_lookup (enumerate_from 0 (snd b)) q = Some i <->
       exists r1 r2, enumerate_from 0 (snd b) = r1 ++ (i, q) :: r2 /\ ~ In q (map snd r2)) /\
    (NoDup (snd b) -> surviving_rows (enumerate_from 0 (snd b)) = enumerate_from 0 (snd b)).
Proof.
  intros pos. apply (block_last_write _ _ in_domain (iso_rt_pair pos)).
  intros p D E. destruct (iso_roundtrip p pos D) as (x & A & B).
  cbn [fmt_period] in E. rewrite E in A. injection A as <-. cbn [parse_cell] in B. rewrite from_iso_empty in B. discriminate.
Qed.

(* non-vacuity: unsorted rows with a repeated period: the earlier row of the repeated period is overwritten *)
Example last_write_example :
  surviving_rows (enumerate_from 0 [mkP 4 8086; mkP 4 8084; mkP 4 8086; mkP 4 8085])
    = [(1, mkP 4 8084); (2, mkP 4 8086); (3, mkP 4 8085)] /\
  series_lookup (enumerate_from 0 [mkP 4 8086; mkP 4 8084; mkP 4 8086; mkP 4 8085]) (mkP 4 8086) = Some 2 /\
  series_lookup (enumerate_from 0 [mkP 4 8086; mkP 4 8084; mkP 4 8086; mkP 4 8085]) (mkP 4 8087) = None.
Proof. vm_compute. repeat split; reflexivity. Qed.
