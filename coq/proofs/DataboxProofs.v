(* C19: the databox as a finite map; frame and selected-name specifications of the
   databox operations; induction over operation histories; dataslate round trip. *)
From Coq Require Import String Ascii ZArith List Bool Lia.
From Verif Require Import lib.Arith model.Series model.SeriesOps model.Databox model.Slate
  proofs.SeriesProofs proofs.SeriesOpsProofs.
Import ListNotations.
Open Scope Z_scope.

Section DataboxProofs.
Variable A : Arith.
Notation V := (car A).
Notation series := (series A).
Notation databox := (databox A).
Notation item := (item A).

(* ------------------------------------------------------------------ the finite map *)
Definition ND (db : databox) : Prop := NoDup (names A db).

Lemma smem_In k l : smem k l = true <-> In k l.
Proof.
  unfold smem. rewrite existsb_exists. split.
  - intros (x & Hx & E). apply String.eqb_eq in E. now subst.
  - intros H. exists k. split; [assumption|apply String.eqb_refl].
Qed.

Lemma smem_cons k n l : smem k (n :: l) = String.eqb k n || smem k l.
Proof. reflexivity. Qed.

Lemma smem_false k l : smem k l = false <-> ~ In k l.
Proof.
  rewrite <- smem_In. destruct (smem k l); split; intros H.
  - discriminate.
  - exfalso. now apply H.
  - discriminate.
  - reflexivity.
Qed.

Lemma dget_None (db : databox) k : dget A db k = None <-> ~ In k (names A db).
Proof.
  induction db as [|[k' v] r IH]; simpl; [tauto|].
  destruct (String.eqb_spec k' k) as [->|Hne].
  - split; [discriminate|]. intros H. exfalso. apply H. now left.
  - rewrite IH. split; [intros H [E|E]; [congruence|now apply H]|intros H E; apply H; now right].
Qed.

Lemma dget_Some_In (db : databox) k v : dget A db k = Some v -> In k (names A db).
Proof.
  intros H. destruct (in_dec string_dec k (names A db)) as [Hi|Hn]; [assumption|].
  apply dget_None in Hn. congruence.
Qed.

Lemma dhas_In (db : databox) k : dhas A db k = true <-> In k (names A db).
Proof.
  unfold dhas. destruct (dget A db k) eqn:E.
  - split; [intros _; eapply dget_Some_In; eauto|reflexivity].
  - split; [discriminate|]. intros H. apply dget_None in E. contradiction.
Qed.

Lemma dget_dset_same (db : databox) k v : dget A (dset A db k v) k = Some v.
Proof.
  induction db as [|[k' v'] r IH]; simpl.
  - now rewrite String.eqb_refl.
  - destruct (String.eqb_spec k' k) as [->|Hne]; simpl.
    + now rewrite String.eqb_refl.
    + destruct (String.eqb_spec k' k); [contradiction|assumption].
Qed.

Lemma dget_dset_other (db : databox) k k' v : k <> k' -> dget A (dset A db k v) k' = dget A db k'.
Proof.
  intros Hne. induction db as [|[k0 v0] r IH]; simpl.
  - destruct (String.eqb_spec k k'); [contradiction|reflexivity].
  - destruct (String.eqb_spec k0 k) as [->|H0]; simpl.
    + destruct (String.eqb_spec k k'); [contradiction|reflexivity].
    + destruct (String.eqb_spec k0 k'); [reflexivity|assumption].
Qed.

Lemma dget_dset (db : databox) k k' v :
  dget A (dset A db k v) k' = if String.eqb k k' then Some v else dget A db k'.
Proof.
  destruct (String.eqb_spec k k') as [->|Hne]; [apply dget_dset_same|now apply dget_dset_other].
Qed.

Lemma names_dset (db : databox) k v :
  names A (dset A db k v) = if dhas A db k then names A db else names A db ++ [k].
Proof.
  unfold dhas. induction db as [|[k0 v0] r IH]; simpl; [reflexivity|].
  destruct (String.eqb_spec k0 k) as [->|H0]; simpl; [reflexivity|].
  unfold names in *. rewrite IH. now destruct (dget A r k).
Qed.

Lemma In_names_dset (db : databox) k v x : In x (names A (dset A db k v)) <-> x = k \/ In x (names A db).
Proof.
  rewrite names_dset. destruct (dhas A db k) eqn:E.
  - apply dhas_In in E. split; [now right|intros [->|H]; assumption].
  - rewrite in_app_iff. simpl. split; [intros [H|[H|[]]]; auto|intros [->|H]; auto].
Qed.

Lemma NoDup_snoc {T} (l : list T) x : NoDup l -> ~ In x l -> NoDup (l ++ [x]).
Proof.
  induction l as [|y l IH]; simpl; intros H Hn.
  - constructor; [intros []|constructor].
  - inversion H; subst. constructor.
    + rewrite in_app_iff. intros [H1|[H1|[]]]; [contradiction|subst; apply Hn; now left].
    + apply IH; [assumption|]. intros Hx. apply Hn. now right.
Qed.

Lemma ND_dset (db : databox) k v : ND db -> ND (dset A db k v).
Proof.
  unfold ND. rewrite names_dset. destruct (dhas A db k) eqn:E; [auto|].
  intros H. apply NoDup_snoc; [assumption|]. intros Hx. apply dhas_In in Hx. congruence.
Qed.

Lemma names_ddel_incl (db : databox) k x : In x (names A (ddel A db k)) -> In x (names A db).
Proof.
  induction db as [|[k0 v0] r IH]; simpl; [tauto|].
  destruct (String.eqb k0 k); simpl; [now right|]. intros [H|H]; [now left|right; now apply IH].
Qed.

Lemma ND_ddel (db : databox) k : ND db -> ND (ddel A db k).
Proof.
  unfold ND. induction db as [|[k0 v0] r IH]; simpl; [auto|].
  intros H. inversion H; subst. destruct (String.eqb k0 k); [assumption|].
  simpl. constructor; [|now apply IH]. intros Hin. apply H2. eapply names_ddel_incl; eauto.
Qed.

Lemma dget_ddel_other (db : databox) k k' : k <> k' -> dget A (ddel A db k) k' = dget A db k'.
Proof.
  intros Hne. induction db as [|[k0 v0] r IH]; simpl; [reflexivity|].
  destruct (String.eqb_spec k0 k) as [->|H0]; simpl.
  - destruct (String.eqb_spec k k'); [contradiction|reflexivity].
  - destruct (String.eqb_spec k0 k'); [reflexivity|assumption].
Qed.

Lemma dget_ddel_same (db : databox) k : ND db -> dget A (ddel A db k) k = None.
Proof.
  unfold ND. induction db as [|[k0 v0] r IH]; simpl; [reflexivity|].
  intros H. inversion H; subst. destruct (String.eqb_spec k0 k) as [->|H0]; simpl.
  - now apply dget_None.
  - destruct (String.eqb_spec k0 k); [contradiction|now apply IH].
Qed.

Lemma dget_ddel (db : databox) k k' : ND db ->
  dget A (ddel A db k) k' = if String.eqb k k' then None else dget A db k'.
Proof.
  intros H. destruct (String.eqb_spec k k') as [->|Hne]; [now apply dget_ddel_same|now apply dget_ddel_other].
Qed.

Lemma dget_filter (db : databox) (p : string -> bool) k :
  dget A (filter (fun q => p (fst q)) db) k = if p k then dget A db k else None.
Proof.
  induction db as [|[k0 v0] r IH]; simpl; [now destruct (p k)|].
  destruct (String.eqb_spec k0 k) as [E|E].
  - subst k0. destruct (p k) eqn:Ep; simpl.
    + now rewrite String.eqb_refl.
    + exact IH.
  - destruct (p k0); simpl; [destruct (String.eqb_spec k0 k); [contradiction|]|]; exact IH.
Qed.

Lemma ND_filter (db : databox) (p : string * item -> bool) : ND db -> ND (filter p db).
Proof.
  unfold ND. induction db as [|[k0 v0] r IH]; simpl; [auto|].
  intros H. inversion H; subst. destruct (p (k0, v0)); simpl; [|now apply IH].
  constructor; [|now apply IH]. intros Hin. apply H2.
  unfold names in *. apply in_map_iff in Hin as ([k1 v1] & E & Hin). simpl in E. subst.
  apply filter_In in Hin as [Hin _]. apply in_map_iff. now exists (k0, v1).
Qed.

Lemma dget_mapv (db : databox) (g : item -> item) k :
  dget A (map (fun p => (fst p, g (snd p))) db) k = option_map g (dget A db k).
Proof.
  induction db as [|[k0 v0] r IH]; simpl; [reflexivity|].
  destruct (String.eqb k0 k); [reflexivity|assumption].
Qed.

Lemma names_mapv (db : databox) (g : item -> item) : names A (map (fun p => (fst p, g (snd p))) db) = names A db.
Proof. unfold names. rewrite map_map. reflexivity. Qed.

(* ------------------------------------------------------------------ remove *)
Lemma fold_remove_err l e : fold_left (remove_step A) l (Err e) = Err e.
Proof. induction l; simpl; auto. Qed.

Lemma remove_fold_spec l : forall db db', ND db ->
  fold_left (remove_step A) l (Ok db) = Ok db' ->
  ND db' /\ forall k, dget A db' k = if smem k l then None else dget A db k.
Proof.
  induction l as [|n l IH]; intros db db' Hnd H; simpl in *.
  - inversion H; subst. split; [assumption|reflexivity].
  - destruct (dhas A db n) eqn:E; [|rewrite fold_remove_err in H; discriminate].
    apply IH in H as [Hnd' H]; [|now apply ND_ddel]. split; [assumption|].
    intros k. rewrite H. destruct (smem k l) eqn:Ek.
    + now rewrite orb_true_r.
    + rewrite orb_false_r. rewrite dget_ddel by assumption.
      rewrite String.eqb_sym. reflexivity.
Qed.

Definition sel_resolved (db : databox) (s : sel) : list string := map fst (resolve (names A db) s TgtSame).

Theorem remove_spec (db db' : databox) (s : sel) : ND db -> d_remove A db s = Ok db' ->
  ND db' /\ forall k, dget A db' k =
    match s with
    | SelAll => dget A db k
    | _ => if smem k (sel_resolved db s) then None else dget A db k
    end.
Proof.
  intros Hnd H. unfold d_remove in H.
  destruct s; [inversion H; subst; split; [assumption|reflexivity]| |];
    apply remove_fold_spec in H; assumption.
Qed.

(* ------------------------------------------------------------------ keep *)
Theorem keep_spec (db : databox) (s : sel) : ND db ->
  ND (d_keep A db s) /\ forall k, dget A (d_keep A db s) k =
    match s with
    | SelAll => dget A db k
    | _ => if smem k (sel_resolved db s) then dget A db k else None
    end.
Proof.
  intros Hnd. unfold d_keep. destruct s; (split; [try assumption; now apply ND_filter|]); try reflexivity;
    intros k; apply (dget_filter db (fun x => smem x _) k).
Qed.

(* ------------------------------------------------------------------ clip *)
Theorem clip_spec19 (db : databox) f a b : ND db ->
  ND (d_clip A db f a b) /\ forall k, dget A (d_clip A db f a b) k =
    match a, b with
    | None, None => dget A db k
    | _, _ => option_map (clip_item A f a b) (dget A db k)
    end.
Proof.
  intros Hnd. unfold d_clip.
  destruct a, b; (split; [unfold ND; try rewrite names_mapv; assumption|]); intros k; try apply dget_mapv; reflexivity.
Qed.

(* ------------------------------------------------------------------ overlay / underlay *)
Lemma fold_lay_err under other l e : fold_left (lay_step A under other) l (Err e) = Err e.
Proof. induction l; simpl; auto. Qed.

(* what one selected name becomes *)
Definition lay_result (under : bool) (db other : databox) (n : string) : res (option item) :=
  match dget A db n with
  | Some (INon (ESer ds s)) =>
      if sfreq A s =? -1 then Ok None else
      match dget A other n with
      | Some (INon (ESer _ o)) =>
          if negb (sfreq A s =? sfreq A o) then Ok None else
          match (if under then underlay A s o else overlay A s o) with
          | Ok r => Ok (Some (ISer A (lay_desc A under r ds) r))
          | Err _ => Err 2
          end
      | _ => Err 2
      end
  | _ => Err 2
  end.

Lemma lay_step_result under other d n :
  lay_step A under other (Ok d) n =
    match lay_result under d other n with
    | Ok None => Ok d
    | Ok (Some it) => Ok (dset A d n it)
    | Err e => Err e
    end.
Proof.
  unfold lay_step, lay_result. destruct (dget A d n) as [[[v|ds s]|l]|]; try reflexivity.
  destruct (sfreq A s =? -1); [reflexivity|].
  destruct (dget A other n) as [[[v|d2 o]|l]|]; try reflexivity.
  destruct (negb (sfreq A s =? sfreq A o)); [reflexivity|].
  destruct (if under then underlay A s o else overlay A s o); reflexivity.
Qed.

Lemma lay_fold_spec under other l : forall db db', ND db -> NoDup l ->
  fold_left (lay_step A under other) l (Ok db) = Ok db' ->
  ND db' /\ names A db' = names A db /\
  forall k, dget A db' k =
    if smem k l then match lay_result under db other k with
                     | Ok (Some it) => Some it
                     | _ => dget A db k
                     end
    else dget A db k.
Proof.
  induction l as [|n l IH]; intros db db' Hnd Hl H; cbn [fold_left] in H.
  - inversion H; subst. repeat split; auto.
  - inversion Hl; subst. rewrite lay_step_result in H.
    destruct (lay_result under db other n) as [[it|]|e] eqn:E; [| |rewrite fold_lay_err in H; discriminate].
    + assert (Hin : dhas A db n = true).
      { unfold lay_result in E. unfold dhas. destruct (dget A db n); [reflexivity|discriminate]. }
      apply IH in H as (Hnd' & Hnm & H); [|now apply ND_dset|assumption].
      split; [assumption|]. split; [rewrite Hnm, names_dset, Hin; reflexivity|].
      intros k. rewrite H, smem_cons. destruct (String.eqb_spec k n) as [->|Hne]; simpl.
      * apply smem_false in H2. rewrite H2, E. apply dget_dset_same.
      * destruct (smem k l) eqn:Ek; [|now apply dget_dset_other; congruence].
        unfold lay_result. rewrite dget_dset_other by congruence. reflexivity.
    + apply IH in H as (Hnd' & Hnm & H); [|assumption|assumption].
      split; [assumption|]. split; [assumption|].
      intros k. rewrite H, smem_cons. destruct (String.eqb_spec k n) as [->|Hne]; simpl; [|reflexivity].
      apply smem_false in H2. now rewrite H2, E.
Qed.

Lemma lay_names_NoDup (db other : databox) ns : ND db -> NoDup (lay_names A db other ns).
Proof.
  intros Hnd. unfold lay_names. destruct ns as [l|]; apply NoDup_filter; [apply NoDup_nodup|assumption].
Qed.

Theorem lay_spec (under : bool) (db other db' : databox) ns : ND db ->
  d_lay A under db other ns = Ok db' ->
  ND db' /\ names A db' = names A db /\
  forall k, dget A db' k =
    if smem k (lay_names A db other ns)
    then match lay_result under db other k with Ok (Some it) => Some it | _ => dget A db k end
    else dget A db k.
Proof. intros Hnd H. eapply lay_fold_spec; eauto. now apply lay_names_NoDup. Qed.

(* prepend is underlay with the other databox clipped at the end period *)
Lemma prepend_def (db other : databox) f e :
  d_prepend A db other f e = d_lay A true db (d_clip A other f None (Some e)) None.
Proof. reflexivity. Qed.


(* ------------------------------------------------------------------ rename *)
Lemma fold_rename_err l e : fold_left (rename_step A) l (Err e) = Err e.
Proof. induction l; simpl; auto. Qed.

Lemma In_names_dget (db : databox) k : In k (names A db) <-> dget A db k <> None.
Proof.
  split.
  - intros H E. apply dget_None in E. contradiction.
  - intros H. destruct (in_dec string_dec k (names A db)) as [Hi|Hn]; [assumption|].
    apply dget_None in Hn. contradiction.
Qed.

(* the source renamed to k, if any *)
Fixpoint tgt_src (ps : list (string * string)) (k : string) : option string :=
  match ps with
  | [] => None
  | (s, t) :: r => if String.eqb t k then Some s else tgt_src r k
  end.

Lemma tgt_src_None ps k : ~ In k (map snd ps) -> tgt_src ps k = None.
Proof.
  induction ps as [|[s t] r IH]; simpl; [reflexivity|]. intros H.
  destruct (String.eqb_spec t k) as [->|Hne]; [exfalso; apply H; now left|]. apply IH. intros Hx. apply H. now right.
Qed.

Lemma tgt_src_Some ps k s : tgt_src ps k = Some s -> In (s, k) ps.
Proof.
  induction ps as [|[s0 t0] r IH]; simpl; [discriminate|].
  destruct (String.eqb_spec t0 k) as [->|Hne]; [intros E; inversion E; now left|intros E; right; now apply IH].
Qed.

Lemma rename_pairs_ND ps : forall db db', ND db -> rename_pairs A db ps = Ok db' -> ND db'.
Proof.
  unfold rename_pairs. induction ps as [|[s t] r IH]; intros db db' Hnd H; cbn [fold_left] in H.
  - now inversion H; subst.
  - unfold rename_step at 2 in H. cbn [fst snd] in H.
    destruct (dget A db s) as [v|]; [|rewrite fold_rename_err in H; discriminate].
    eapply IH; [|exact H]. apply ND_dset. now apply ND_ddel.
Qed.

(* names outside the sources and the targets are never touched (no hypothesis on the pairs) *)
Lemma rename_pairs_frame ps : forall db db' k, rename_pairs A db ps = Ok db' ->
  ~ In k (map fst ps) -> ~ In k (map snd ps) -> dget A db' k = dget A db k.
Proof.
  unfold rename_pairs. induction ps as [|[s t] r IH]; intros db db' k H Hs Ht; cbn [fold_left] in H.
  - now inversion H; subst.
  - unfold rename_step at 2 in H. cbn [fst snd] in H.
    destruct (dget A db s) as [v|]; [|rewrite fold_rename_err in H; discriminate].
    simpl in Hs, Ht. rewrite (IH _ _ k H) by tauto.
    rewrite dget_dset_other by (intros E; apply Ht; now left).
    apply dget_ddel_other. intros E; apply Hs; now left.
Qed.

(* injective renaming onto names that are not sources: every target holds its source's item,
   the sources disappear, everything else is untouched *)
Lemma rename_pairs_spec ps : forall db, ND db ->
  NoDup (map fst ps) -> NoDup (map snd ps) ->
  (forall x, In x (map snd ps) -> ~ In x (map fst ps)) ->
  (forall x, In x (map fst ps) -> In x (names A db)) ->
  exists db', rename_pairs A db ps = Ok db' /\
    forall k, dget A db' k = match tgt_src ps k with
                             | Some s => dget A db s
                             | None => if smem k (map fst ps) then None else dget A db k
                             end.
Proof.
  unfold rename_pairs. induction ps as [|[s t] r IH]; intros db Hnd Hs Ht Hdis Hin; cbn [fold_left].
  - exists db. split; reflexivity.
  - unfold rename_step at 2. cbn [fst snd]. cbn [map fst snd] in *.
    inversion Hs as [|? ? Hs1 Hs2]; subst. inversion Ht as [|? ? Ht1 Ht2]; subst.
    assert (Hsin : In s (names A db)) by (apply Hin; now left).
    apply In_names_dget in Hsin. destruct (dget A db s) as [v|] eqn:Ev; [|congruence].
    assert (Hts : t <> s) by (intros ->; apply (Hdis s); now left).
    set (db1 := dset A (ddel A db s) t v).
    assert (Hnd1 : ND db1) by (apply ND_dset; now apply ND_ddel).
    assert (G1 : forall x, dget A db1 x = if String.eqb t x then Some v else if String.eqb s x then None else dget A db x).
    { intros x. unfold db1. rewrite dget_dset, dget_ddel by assumption. reflexivity. }
    destruct (IH db1 Hnd1 Hs2 Ht2) as (db' & E & G).
    + intros x Hx Hx2. apply (Hdis x); [now right|now right].
    + intros x Hx. apply In_names_dget. rewrite G1.
      destruct (String.eqb_spec t x) as [->|]; [discriminate|].
      destruct (String.eqb_spec s x) as [->|]; [contradiction|].
      apply In_names_dget. apply Hin. now right.
    + exists db'. split; [exact E|]. intros k. rewrite G. cbn [tgt_src].
      destruct (String.eqb_spec t k) as [->|Htk].
      * rewrite tgt_src_None by assumption.
        assert (Hk : smem k (map fst r) = false).
        { apply smem_false. intros Hx. apply (Hdis k); [now left|now right]. }
        rewrite Hk, G1, String.eqb_refl. congruence.
      * destruct (tgt_src r k) as [s'|] eqn:Es.
        -- apply tgt_src_Some in Es. rewrite G1.
           assert (In s' (map fst r)) by (apply in_map_iff; now exists (s', k)).
           assert (In k (map snd r)) by (apply in_map_iff; now exists (s', k)).
           destruct (String.eqb_spec t s') as [->|]; [exfalso; apply (Hdis s'); [now left|now right]|].
           destruct (String.eqb_spec s s') as [->|]; [contradiction|reflexivity].
        -- rewrite smem_cons. destruct (String.eqb_spec k s) as [->|Hks]; simpl.
           ++ assert (Hk : smem s (map fst r) = false) by now apply smem_false.
              rewrite Hk, G1. destruct (String.eqb_spec t s); [contradiction|]. now rewrite String.eqb_refl.
           ++ destruct (smem k (map fst r)); [reflexivity|]. rewrite G1.
              destruct (String.eqb_spec t k); [contradiction|].
              destruct (String.eqb_spec s k); [congruence|reflexivity].
Qed.

Lemma resolve_sources_in ctx s t x : In x (map fst (resolve ctx s t)) -> In x ctx.
Proof.
  unfold resolve. intros H. apply in_map_iff in H as ([a b] & <- & H).
  apply filter_In in H as [_ H]. now apply smem_In in H.
Qed.

Theorem rename_spec (db : databox) (s : sel) (t : tgt) : ND db ->
  let ps := resolve (names A db) s t in
  NoDup (map fst ps) -> NoDup (map snd ps) -> (forall x, In x (map snd ps) -> ~ In x (map fst ps)) ->
  exists db', d_rename A db s t = Ok db' /\ ND db' /\
    forall k, dget A db' k = match tgt_src ps k with
                             | Some src => dget A db src
                             | None => if smem k (map fst ps) then None else dget A db k
                             end.
Proof.
  intros Hnd ps Hs Ht Hdis. unfold d_rename. fold ps.
  destruct (rename_pairs_spec ps db Hnd Hs Ht Hdis) as (db' & E & G).
  - intros x Hx. eapply resolve_sources_in; eauto.
  - exists db'. split; [assumption|]. split; [eapply rename_pairs_ND; eauto|assumption].
Qed.

(* ------------------------------------------------------------------ copy *)
Lemma combine_fst_snd {X Y} (l : list (X * Y)) : combine (map fst l) (map snd l) = l.
Proof. induction l as [|[a b] r IH]; simpl; [reflexivity|now rewrite IH]. Qed.

Lemma filter_all {X} (p : X -> bool) l : (forall x, In x l -> p x = true) -> filter p l = l.
Proof.
  induction l as [|a r IH]; simpl; intros H; [reflexivity|].
  rewrite (H a) by now left. f_equal. apply IH. intros x Hx. apply H. now right.
Qed.

Lemma resolve_lists ctx (ps : list (string * string)) : (forall x, In x (map fst ps) -> In x ctx) ->
  resolve ctx (SelList (map fst ps)) (TgtList (map snd ps)) = ps.
Proof.
  intros H. unfold resolve. cbn [sel_names]. rewrite combine_fst_snd. apply filter_all.
  intros [a b] Hin. apply smem_In. apply H. apply in_map_iff. now exists (a, b).
Qed.

Theorem copy_spec (db : databox) (s : sel) (t : tgt) : ND db ->
  (s <> SelAll \/ t <> TgtSame) ->
  let ps := resolve (names A db) s t in
  NoDup (map fst ps) -> NoDup (map snd ps) -> (forall x, In x (map snd ps) -> ~ In x (map fst ps)) ->
  exists db', d_copy A db s t = Ok db' /\ ND db' /\
    forall k, dget A db' k = match tgt_src ps k with Some src => dget A db src | None => None end.
Proof.
  intros Hnd Hst ps Hs Ht Hdis.
  assert (Hin : forall x, In x (map fst ps) -> In x (names A db)) by (intros x Hx; eapply resolve_sources_in; eauto).
  assert (E0 : d_copy A db s t =
               match d_rename A db (SelList (map fst ps)) (TgtList (map snd ps)) with
               | Err e => Err e
               | Ok d1 => Ok (d_keep A d1 (SelList (map snd ps)))
               end).
  { unfold d_copy. fold ps. destruct s; try reflexivity. destruct t; try reflexivity. destruct Hst; congruence. }
  rewrite E0.
  destruct (rename_spec db (SelList (map fst ps)) (TgtList (map snd ps)) Hnd) as (d1 & E1 & Hnd1 & G1);
    try (rewrite resolve_lists by assumption; assumption).
  rewrite resolve_lists in G1 by assumption.
  rewrite E1. eexists. split; [reflexivity|].
  destruct (keep_spec d1 (SelList (map snd ps)) Hnd1) as [Hnd2 G2]. split; [assumption|].
  intros k. rewrite G2. unfold sel_resolved.
  destruct (tgt_src ps k) as [src|] eqn:Ek.
  - assert (Hk : In k (map snd ps)) by (apply tgt_src_Some in Ek; apply in_map_iff; now exists (src, k)).
    assert (Hk1 : In k (names A d1)).
    { apply In_names_dget. rewrite G1, Ek. apply In_names_dget. apply Hin.
      apply tgt_src_Some in Ek. apply in_map_iff. now exists (src, k). }
    assert (Hm : smem k (map fst (resolve (names A d1) (SelList (map snd ps)) TgtSame)) = true).
    { apply smem_In. unfold resolve. cbn [sel_names]. apply in_map_iff. exists (k, k). split; [reflexivity|].
      apply filter_In. split; [|now apply smem_In].
      clear -Hk. induction (map snd ps) as [|a r IH]; [destruct Hk|]. simpl. destruct Hk as [->|Hk]; [now left|right; now apply IH]. }
    rewrite Hm, G1, Ek. reflexivity.
  - destruct (smem k _) eqn:Hm; [|reflexivity].
    apply smem_In in Hm. apply in_map_iff in Hm as ([a b] & <- & Hm). unfold resolve in Hm. cbn [sel_names] in Hm.
    apply filter_In in Hm as [Hm _]. apply in_combine_l in Hm. cbn [fst] in *.
    rewrite G1, Ek.
    destruct (smem a (map fst ps)) eqn:Ea; [reflexivity|].
    exfalso. apply in_map_iff in Hm as ([s0 t0] & <- & Hm). cbn [snd] in *.
    clear -Ek Hm. induction ps as [|[s1 t1] r IH]; [destruct Hm|]. simpl in Ek.
    destruct (String.eqb_spec t1 t0); [discriminate|]. destruct Hm as [E|Hm]; [inversion E; congruence|now apply IH].
Qed.

(* ------------------------------------------------------------------ merge *)
Definition merge_val (st : strategy) (cur v : item) : res item :=
  match st with
  | MStack => merge_stack A cur v
  | MReplace => Ok v
  | MDiscard | MReport _ => Ok cur
  end.

Lemma fold_merge_err st l e : fold_left (merge_step A st) l (Err e) = Err e.
Proof. induction l; simpl; auto. Qed.

Lemma merge_step_val st d dup k v :
  merge_step A st (Ok (d, dup)) (k, v) =
    match dget A d k with
    | None => Ok (dset A d k v, dup)
    | Some cur => match merge_val st cur v with
                  | Ok it => Ok (match st with MDiscard | MReport _ => d | _ => dset A d k it end,
                                 match st with MReport _ => true | _ => dup end)
                  | Err e => Err e
                  end
    end.
Proof.
  unfold merge_step, merge_val. cbn [fst snd]. destruct (dget A d k); [|reflexivity].
  destruct st; reflexivity.
Qed.

Lemma merge_fold_ND st l : forall db dup db' dup', ND db ->
  fold_left (merge_step A st) l (Ok (db, dup)) = Ok (db', dup') -> ND db'.
Proof.
  induction l as [|[k v] r IH]; intros db dup db' dup' Hnd H; cbn [fold_left] in H.
  - inversion H; now subst.
  - rewrite merge_step_val in H. destruct (dget A db k) as [cur|].
    + destruct (merge_val st cur v) as [it|e]; [|rewrite fold_merge_err in H; discriminate].
      eapply IH; [|exact H]. destruct st; try assumption; now apply ND_dset.
    + eapply IH; [|exact H]. now apply ND_dset.
Qed.

Lemma merge_fold_frame st l : forall db dup db' dup' k,
  fold_left (merge_step A st) l (Ok (db, dup)) = Ok (db', dup') -> ~ In k (map fst l) -> dget A db' k = dget A db k.
Proof.
  induction l as [|[k0 v] r IH]; intros db dup db' dup' k H Hk; cbn [fold_left] in H.
  - inversion H; now subst.
  - rewrite merge_step_val in H. simpl in Hk.
    assert (Hne : k0 <> k) by (intros E; apply Hk; now left).
    destruct (dget A db k0) as [cur|].
    + destruct (merge_val st cur v) as [it|e]; [|rewrite fold_merge_err in H; discriminate].
      rewrite (IH _ _ _ _ k H) by tauto. destruct st; try reflexivity; now apply dget_dset_other.
    + rewrite (IH _ _ _ _ k H) by tauto. now apply dget_dset_other.
Qed.

(* what key k holds after merging one databox [other] into [db] *)
Definition merged (st : strategy) (db other : databox) (k : string) (after : option item) : Prop :=
  match dget A other k, dget A db k with
  | None, _ => after = dget A db k
  | Some v, None => after = Some v
  | Some v, Some cur => exists it, merge_val st cur v = Ok it /\ after = Some it
  end.

Lemma merge_fold_spec st (other : databox) : forall db dup db' dup', NoDup (names A other) ->
  fold_left (merge_step A st) other (Ok (db, dup)) = Ok (db', dup') ->
  forall k, merged st db other k (dget A db' k).
Proof.
  induction other as [|[k0 v] r IH]; intros db dup db' dup' Hnd H k; cbn [fold_left] in H.
  - inversion H; subst. unfold merged. reflexivity.
  - inversion Hnd as [|? ? Hn1 Hn2]; subst. rewrite merge_step_val in H.
    unfold merged. cbn [dget]. destruct (String.eqb_spec k0 k) as [->|Hne].
    + (* this key: later steps do not touch it *)
      destruct (dget A db k) as [cur|] eqn:Ec.
      * destruct (merge_val st cur v) as [it|e] eqn:Em; [|rewrite fold_merge_err in H; discriminate].
        exists it. split; [reflexivity|].
        erewrite merge_fold_frame; [|exact H|exact Hn1].
        destruct st; try apply dget_dset_same; unfold merge_val in Em; inversion Em; subst; assumption.
      * erewrite merge_fold_frame; [|exact H|exact Hn1]. apply dget_dset_same.
    + (* another key *)
      destruct (dget A db k0) as [cur|] eqn:Ec.
      * destruct (merge_val st cur v) as [it|e]; [|rewrite fold_merge_err in H; discriminate].
        specialize (IH _ _ _ _ Hn2 H k). unfold merged in IH.
        replace (dget A (match st with MDiscard | MReport _ => db | _ => dset A db k0 it end) k) with (dget A db k) in IH
          by (destruct st; try reflexivity; symmetry; now apply dget_dset_other).
        exact IH.
      * specialize (IH _ _ _ _ Hn2 H k). unfold merged in IH.
        rewrite dget_dset_other in IH by assumption. exact IH.
Qed.

Theorem merge_spec (db other db' : databox) (st : strategy) : ND db -> ND other ->
  d_merge A db [other] st = Ok db' ->
  ND db' /\ forall k, merged st db other k (dget A db' k).
Proof.
  intros Hnd Hno H. unfold d_merge in H. cbn [List.concat] in H. rewrite app_nil_r in H.
  destruct (fold_left (merge_step A st) other (Ok (db, false))) as [[d dup]|e] eqn:E; [|discriminate].
  assert (d = db').
  { destruct st; try (inversion H; reflexivity). destruct raises; [destruct dup; [discriminate|]|]; now inversion H. }
  subst d. split; [exact (merge_fold_ND st other db false db' dup Hnd E)|]. intros k. exact (merge_fold_spec st other db false db' dup Hno E k).
Qed.

(* ------------------------------------------------------------------ frame of one operation *)
Definition touches (rs : dregs A) (o : dop) (n : string) : Prop :=
  match o with
  | DCopy _ _ _ _ => True                       (* the destination is a new databox: copy_spec *)
  | DRename d s t => let ps := resolve (names A (getd A rs d)) s t in In n (map fst ps) \/ In n (map snd ps)
  | DRemove d s => s <> SelAll /\ In n (sel_resolved (getd A rs d) s)
  | DKeep d s => s <> SelAll /\ ~ In n (sel_resolved (getd A rs d) s)
  | DLay d src _ ns => In n (lay_names A (getd A rs d) (getd A rs src) ns)
  | DClip d f a b => exists ds s, dget A (getd A rs d) n = Some (ISer A ds s) /\ sfreq A s = f
  | DPrepend d src f e => In n (lay_names A (getd A rs d) (d_clip A (getd A rs src) f None (Some e)) None)
  | DMerge d srcs st => In n (map fst (List.concat (map (getd A rs) srcs)))
  end.

Lemma remove_fold_frame l : forall db db' k, fold_left (remove_step A) l (Ok db) = Ok db' -> ~ In k l ->
  dget A db' k = dget A db k.
Proof.
  induction l as [|n l IH]; intros db db' k H Hk; cbn [fold_left] in H.
  - now inversion H; subst.
  - unfold remove_step at 2 in H. destruct (dhas A db n); [|rewrite fold_remove_err in H; discriminate].
    simpl in Hk. rewrite (IH _ _ k H) by tauto. apply dget_ddel_other. intros E. apply Hk. now left.
Qed.

Lemma lay_fold_frame under other l : forall db db' k, fold_left (lay_step A under other) l (Ok db) = Ok db' ->
  ~ In k l -> dget A db' k = dget A db k.
Proof.
  induction l as [|n l IH]; intros db db' k H Hk; cbn [fold_left] in H.
  - now inversion H; subst.
  - rewrite lay_step_result in H. simpl in Hk.
    destruct (lay_result under db other n) as [[it|]|e]; [| |rewrite fold_lay_err in H; discriminate].
    + rewrite (IH _ _ k H) by tauto. apply dget_dset_other. intros E. apply Hk. now left.
    + apply (IH _ _ k H). tauto.
Qed.

Theorem dexec_frame (rs : dregs A) (o : dop) (db' : databox) (n : string) :
  dexec A rs o = Ok db' -> ~ touches rs o n -> dget A db' n = dget A (getd A rs (op_dst o)) n.
Proof.
  destruct o; cbn [dexec op_dst touches]; intros H Hn.
  - exfalso. now apply Hn.
  - eapply rename_pairs_frame; [exact H| |]; intros Hx; apply Hn; [now left|now right].
  - unfold d_remove in H. destruct s; [now inversion H; subst| |];
      (eapply remove_fold_frame; [exact H|]; intros Hx; apply Hn; split; [discriminate|exact Hx]).
  - inversion H; subst. unfold d_keep. destruct s; [reflexivity| |];
      (rewrite (dget_filter _ (fun x => smem x _) n);
       match goal with |- (if ?c then _ else _) = _ => destruct c eqn:E end; [reflexivity|];
       exfalso; apply Hn; split; [discriminate|]; intros Hx; apply smem_In in Hx; unfold sel_resolved in Hx; congruence).
  - eapply lay_fold_frame; eauto.
  - inversion H; subst. unfold d_clip. destruct a, b; try reflexivity; rewrite dget_mapv;
      (destruct (dget A (getd A rs dst) n) as [[[v|ds s]|l]|] eqn:E; try reflexivity; cbn [option_map clip_item];
       destruct (Z.eqb_spec (sfreq A s) f) as [Ef|]; [|reflexivity]; exfalso; apply Hn; now exists ds, s).
  - eapply lay_fold_frame; eauto.
  - unfold d_merge in H.
    destruct (fold_left (merge_step A st) _ (Ok (getd A rs dst, false))) as [[d dup]|e] eqn:E; [|discriminate].
    assert (d = db').
    { destruct st; try (inversion H; reflexivity). destruct raises; [destruct dup; [discriminate|]|]; now inversion H. }
    subst d. eapply merge_fold_frame; eauto.
Qed.

(* ------------------------------------------------------------------ histories *)
Definition AllND (rs : dregs A) : Prop := Forall ND rs.

Lemma getd_ND rs i : AllND rs -> ND (getd A rs i).
Proof.
  intros H. unfold getd. destruct (Nat.ltb_spec i (length rs)).
  - apply Forall_forall with (x := nth i rs []) in H; [assumption|now apply nth_In].
  - rewrite nth_overflow by assumption. constructor.
Qed.

Lemma setd_ND rs i d : AllND rs -> ND d -> AllND (setd A rs i d).
Proof.
  intros H Hd. revert i. unfold AllND in *. induction H as [|x r Hx Hr IH]; intros i; simpl; [constructor|].
  destruct i; constructor; try assumption. apply IH.
Qed.

Lemma concat_ND_fold st l : forall db dup db' dup', ND db ->
  fold_left (merge_step A st) l (Ok (db, dup)) = Ok (db', dup') -> ND db'.
Proof. apply merge_fold_ND. Qed.

Lemma lay_fold_ND under other l : forall db db', ND db -> fold_left (lay_step A under other) l (Ok db) = Ok db' -> ND db'.
Proof.
  induction l as [|n l IH]; intros db db' Hnd H; cbn [fold_left] in H.
  - now inversion H; subst.
  - rewrite lay_step_result in H.
    destruct (lay_result under db other n) as [[it|]|e]; [| |rewrite fold_lay_err in H; discriminate];
      eapply IH; try exact H; try assumption. now apply ND_dset.
Qed.

Lemma remove_fold_ND l : forall db db', ND db -> fold_left (remove_step A) l (Ok db) = Ok db' -> ND db'.
Proof.
  induction l as [|n l IH]; intros db db' Hnd H; cbn [fold_left] in H.
  - now inversion H; subst.
  - unfold remove_step at 2 in H. destruct (dhas A db n); [|rewrite fold_remove_err in H; discriminate].
    eapply IH; [|exact H]. now apply ND_ddel.
Qed.

Theorem dexec_ND (rs : dregs A) (o : dop) (d : databox) : AllND rs -> dexec A rs o = Ok d -> ND d.
Proof.
  intros Hall. destruct o; cbn [dexec]; intros H.
  - unfold d_copy in H. pose proof (getd_ND rs src Hall) as Hs.
    assert (G : forall l1 l2 d', d_rename A (getd A rs src) (SelList l1) (TgtList l2) = Ok d' -> ND (d_keep A d' (SelList l2))).
    { intros l1 l2 d' E. apply keep_spec. eapply rename_pairs_ND; eauto. }
    destruct s; destruct t; try (inversion H; subst; assumption);
      match type of H with match ?r with _ => _ end = _ => destruct r eqn:E; [|discriminate] end;
      inversion H; subst; eapply G; eauto.
  - eapply rename_pairs_ND; [|exact H]. now apply getd_ND.
  - unfold d_remove in H. pose proof (getd_ND rs dst Hall).
    destruct s; [now inversion H; subst| |]; eapply remove_fold_ND; eauto.
  - inversion H; subst. apply keep_spec. now apply getd_ND.
  - eapply lay_fold_ND; [|exact H]. now apply getd_ND.
  - inversion H; subst. apply clip_spec19. now apply getd_ND.
  - eapply lay_fold_ND; [|exact H]. now apply getd_ND.
  - unfold d_merge in H.
    destruct (fold_left (merge_step A st) _ (Ok (getd A rs dst, false))) as [[d0 dup]|e] eqn:E; [|discriminate].
    assert (d0 = d).
    { destruct st; try (inversion H; reflexivity). destruct raises; [destruct dup; [discriminate|]|]; now inversion H. }
    subst d0. eapply merge_fold_ND; [|exact E]. now apply getd_ND.
Qed.

Theorem drun_ND (ops : list dop) : forall rs, AllND rs -> AllND (fst (drun A rs ops)).
Proof.
  induction ops as [|o r IH]; intros rs H; cbn [drun]; [assumption|].
  destruct (dexec A rs o) as [d|e] eqn:E; [|assumption].
  specialize (IH (setd A rs (op_dst o) d)).
  destruct (drun A (setd A rs (op_dst o) d) r) as [rs2 outs]. apply IH.
  apply setd_ND; [assumption|]. eapply dexec_ND; eauto.
Qed.

Lemma getd_setd_same rs i d : (i < length rs)%nat -> getd A (setd A rs i d) i = d.
Proof.
  revert i. induction rs as [|x r IH]; intros i Hi; simpl in *; [lia|].
  destruct i; [reflexivity|]. unfold getd in *. simpl. apply IH. lia.
Qed.

Lemma getd_setd_other rs i j d : i <> j -> getd A (setd A rs i d) j = getd A rs j.
Proof.
  revert i j. induction rs as [|x r IH]; intros i j Hne; simpl; [reflexivity|].
  destruct i, j; try reflexivity; try congruence. unfold getd in *. simpl. apply IH. congruence.
Qed.

Lemma setd_length rs i d : length (setd A rs i d) = length rs.
Proof. revert i. induction rs as [|x r IH]; intros i; simpl; [reflexivity|]. destruct i; simpl; auto. Qed.

(* name n of register r is outside the selection of every operation of the history *)
Fixpoint untouched (rs : dregs A) (ops : list dop) (r : nat) (n : string) : Prop :=
  match ops with
  | [] => True
  | o :: tl => (op_dst o = r -> ~ touches rs o n) /\
               match dexec A rs o with
               | Ok d => untouched (setd A rs (op_dst o) d) tl r n
               | Err _ => True
               end
  end.

Theorem drun_frame (ops : list dop) : forall rs r n, (r < length rs)%nat -> untouched rs ops r n ->
  dget A (getd A (fst (drun A rs ops)) r) n = dget A (getd A rs r) n.
Proof.
  induction ops as [|o tl IH]; intros rs r n Hr Hu; cbn [drun]; [reflexivity|].
  cbn [untouched] in Hu. destruct Hu as [Hu1 Hu2].
  destruct (dexec A rs o) as [d|e] eqn:E; [|reflexivity].
  specialize (IH (setd A rs (op_dst o) d) r n).
  destruct (drun A (setd A rs (op_dst o) d) tl) as [rs2 outs]. cbn [fst] in *.
  rewrite IH by (try rewrite setd_length; assumption).
  destruct (Nat.eq_dec (op_dst o) r) as [Er|Er].
  - rewrite Er, getd_setd_same by assumption. rewrite <- Er. apply dexec_frame; [assumption|]. now apply Hu1.
  - now rewrite getd_setd_other.
Qed.

End DataboxProofs.

(* ====================================================================== dataslate round trip *)
Section SlateProofs.
Variable A : Arith.
Notation V := (car A).
Notation series := (series A).
Notation databox := (databox A).
Notation item := (item A).
Hypothesis miss_law : forall x : V, is_miss A x = true -> x = miss A.

(* the value of variant k of a databox item at period t: series by period, numbers constant,
   lists and series variants consumed exhaust-then-last; missing when there is nothing *)
Definition raw_value (it : option item) (k : nat) (t : Z) : V :=
  match it with
  | None => miss A
  | Some (INon (EScal v)) => v
  | Some (INon (ESer _ s)) => ser_val A s k t
  | Some (IList []) => miss A
  | Some (IList l) => match etl l k (EScal (miss A)) with EScal v => v | ESer _ _ => miss A end
  end.

(* what the round trip must return for name nm, variant k, period t of the span starting at from:
   the input value, cleared outside the base columns when clipping is requested, replaced by the declared
   fallback only where it is missing, and by the declared overwrite everywhere *)
Definition expected (db : databox) (o : sopts A) (nm : string) (k : nat) (from t : Z) : V :=
  let v0 := raw_value (dget A db nm) k t in
  let v1 := if o_clip_base o then (if nmem (Z.to_nat (t - from)) (o_base o) then v0 else miss A) else v0 in
  let v2 := match flookup A (o_fallbacks o) nm with
            | Some f => if is_miss A v1 then fb_at A f k else v1
            | None => v1
            end in
  match flookup A (o_overwrites o) nm with Some f => fb_at A f k | None => v2 end.

Lemma nth_repeat_same {T} (x : T) n j : nth j (repeat x n) x = x.
Proof. revert j. induction n; intros [|j]; simpl; auto. Qed.

Lemma all_ok_spec {T} (l : list (res T)) : forall xs, all_ok l = Ok xs ->
  length xs = length l /\ forall i d, (i < length l)%nat -> nth i l (Err 0) = Ok (nth i xs d).
Proof.
  induction l as [|[x|e] r IH]; intros xs H; simpl in H.
  - inversion H; subst. split; [reflexivity|]. intros i d Hi. simpl in Hi. lia.
  - destruct (all_ok r) as [ys|e] eqn:E; [|discriminate]. inversion H; subst.
    destruct (IH ys eq_refl) as [Hl Hn]. split; [simpl; now rewrite Hl|].
    intros [|i] d Hi; simpl; [reflexivity|]. apply Hn. simpl in Hi. lia.
  - discriminate.
Qed.

Lemma item_vec_spec (db : databox) fr from n k nm vec :
  item_vec A fr from n k (dget A db nm) = Ok vec ->
  length vec = n /\ forall j, (j < n)%nat -> nth j vec (miss A) = raw_value (dget A db nm) k (from + Z.of_nat j).
Proof.
  unfold item_vec, raw_value. destruct (dget A db nm) as [[[v|ds s]|l]|]; cbn [elem_vec].
  - intros H; inversion H; subst. split; [apply repeat_length|]. intros j Hj.
    rewrite <- (nth_repeat_same v n j) at 2. apply nth_indep. now rewrite repeat_length.
  - destruct (s_start s) as [st|] eqn:Es.
    + destruct (s_freq s =? fr); [|discriminate]. intros H; inversion H; subst.
      split; [rewrite map_length, zrange_length; lia|]. intros j Hj.
      rewrite nth_map_in with (d' := 0) by (rewrite zrange_length; lia).
      rewrite zrange_nth by lia. reflexivity.
    + intros H; inversion H; subst. split; [apply repeat_length|]. intros j Hj.
      rewrite nth_repeat_same. unfold ser_val. rewrite (row_at_empty A s _ Es). unfold missrow.
      now rewrite nth_repeat_same.
  - destruct l as [|e0 l0]; [intros H; inversion H; subst; split; [apply repeat_length|intros; apply nth_repeat_same]|].
    destruct (etl (e0 :: l0) k (EScal (miss A))) as [v|ds s]; [|discriminate].
    intros H; inversion H; subst. split; [apply repeat_length|]. intros j Hj.
    rewrite <- (nth_repeat_same v n j) at 2. apply nth_indep. now rewrite repeat_length.
  - intros H; inversion H; subst. split; [apply repeat_length|intros; apply nth_repeat_same].
Qed.

Lemma post_vec_length (o : sopts A) nm k vec : length (post_vec A o nm k vec) = length vec.
Proof.
  unfold post_vec.
  destruct (flookup A (o_overwrites o) nm); destruct (flookup A (o_fallbacks o) nm); destruct (o_clip_base o);
    repeat rewrite map_length; try rewrite combine_length, seq_length; try lia; reflexivity.
Qed.

Lemma post_vec_nth (o : sopts A) nm k vec j : (j < length vec)%nat ->
  nth j (post_vec A o nm k vec) (miss A) =
    (let v0 := nth j vec (miss A) in
     let v1 := if o_clip_base o then (if nmem j (o_base o) then v0 else miss A) else v0 in
     let v2 := match flookup A (o_fallbacks o) nm with
               | Some f => if is_miss A v1 then fb_at A f k else v1
               | None => v1
               end in
     match flookup A (o_overwrites o) nm with Some f => fb_at A f k | None => v2 end).
Proof.
  intros Hj. unfold post_vec. cbv zeta.
  set (v1l := if o_clip_base o then _ else vec).
  assert (L1 : length v1l = length vec).
  { unfold v1l. destruct (o_clip_base o); [|reflexivity]. rewrite map_length, combine_length, seq_length. lia. }
  assert (N1 : nth j v1l (miss A) = if o_clip_base o then (if nmem j (o_base o) then nth j vec (miss A) else miss A)
                                    else nth j vec (miss A)).
  { unfold v1l. destruct (o_clip_base o); [|reflexivity].
    rewrite nth_map_in with (d' := (O, miss A)) by (rewrite combine_length, seq_length; lia).
    rewrite combine_nth by now rewrite seq_length. rewrite seq_nth by assumption. reflexivity. }
  set (v2l := match flookup A (o_fallbacks o) nm with Some f => _ | None => v1l end).
  assert (L2 : length v2l = length vec).
  { unfold v2l. destruct (flookup A (o_fallbacks o) nm); [rewrite map_length|]; assumption. }
  assert (N2 : nth j v2l (miss A) = match flookup A (o_fallbacks o) nm with
                                    | Some f => if is_miss A (nth j v1l (miss A)) then fb_at A f k else nth j v1l (miss A)
                                    | None => nth j v1l (miss A)
                                    end).
  { unfold v2l. destruct (flookup A (o_fallbacks o) nm); [|reflexivity].
    now rewrite nth_map_in with (d' := miss A) by lia. }
  destruct (flookup A (o_overwrites o) nm) as [f|].
  - now rewrite nth_map_in with (d' := miss A) by lia.
  - rewrite N2, N1. reflexivity.
Qed.

Lemma slate_cell_spec (db : databox) nms fr from n (o : sopts A) sl k q j :
  from_databox A db (Some nms) fr from n o = Ok sl ->
  (k < o_nvar o)%nat -> (q < length nms)%nat -> (j < n)%nat ->
  slate_cell A sl k q j = expected db o (nth q nms ""%string) k from (from + Z.of_nat j).
Proof.
  unfold from_databox. destruct nms as [|n0 nr] eqn:En; [simpl; lia|]. rewrite <- En. clear En n0 nr.
  intros H Hk Hq Hj.
  destruct (all_ok_spec _ _ H) as [Hl Hn].
  specialize (Hn k [] ltac:(now rewrite map_length, seq_length)).
  rewrite nth_map_in with (d' := O) in Hn by now rewrite seq_length.
  rewrite seq_nth in Hn by assumption. cbn [Nat.add] in Hn. unfold slate_variant in Hn.
  destruct (all_ok_spec _ _ Hn) as [Hl2 Hn2].
  specialize (Hn2 q [] ltac:(now rewrite map_length)).
  rewrite nth_map_in with (d' := ""%string) in Hn2 by assumption.
  destruct (item_vec A fr from n k (dget A db (nth q nms ""%string))) as [vec|e] eqn:Ev; [|discriminate].
  inversion Hn2 as [Hrow]. clear Hn2.
  destruct (item_vec_spec _ _ _ _ _ _ _ Ev) as [Lv Nv].
  unfold slate_cell. rewrite <- Hrow. rewrite post_vec_nth by lia. rewrite Nv by assumption.
  unfold expected. replace (Z.to_nat (from + Z.of_nat j - from)) with j by lia. reflexivity.
Qed.

Lemma to_databox_fold sl fr from n nvar trimmed (l : list string) : forall a (acc : databox) nm,
  let res := fold_left (fun acc p => dset A acc (snd p) (ISer A ""%string (slate_series A sl fr from n nvar trimmed (fst p))))
                       (combine (seq a (length l)) l) acc in
  (In nm l -> exists q, (a <= q < a + length l)%nat /\ nth (q - a) l ""%string = nm /\
                        dget A res nm = Some (ISer A ""%string (slate_series A sl fr from n nvar trimmed q))) /\
  (~ In nm l -> dget A res nm = dget A acc nm).
Proof.
  induction l as [|x r IH]; intros a acc nm; cbn [length seq combine fold_left].
  - split; [intros []|reflexivity].
  - cbn [fst snd]. specialize (IH (S a) (dset A acc x (ISer A ""%string (slate_series A sl fr from n nvar trimmed a))) nm).
    cbv zeta in IH. destruct IH as [IH1 IH2].
    destruct (in_dec string_dec nm r) as [Hr|Hr].
    + split; [|intros Hn; exfalso; apply Hn; now right]. intros _.
      destruct (IH1 Hr) as (q & Hq & Hnth & Hget). exists q. split; [simpl; lia|]. split; [|assumption].
      replace (q - a)%nat with (S (q - S a)) by lia. exact Hnth.
    + split.
      * intros [->|Hx]; [|contradiction]. exists a. split; [simpl; lia|]. split; [now rewrite Nat.sub_diag|].
        rewrite IH2 by assumption. apply dget_dset_same.
      * intros Hn. rewrite IH2 by assumption. apply dget_dset_other. intros ->. apply Hn. now left.
Qed.

Lemma slate_series_cell sl fr from n nvar trimmed q t k : (k < nvar)%nat ->
  cell A (slate_series A sl fr from n nvar trimmed q) t k =
    if (from <=? t) && (t <? from + Z.of_nat n) then slate_cell A sl k q (Z.to_nat (t - from)) else miss A.
Proof.
  intros Hk. unfold slate_series.
  set (rows := map (fun t0 => map (fun k0 => slate_cell A sl k0 q t0) (seq 0 nvar)) (seq 0 n)).
  set (s0 := mkSeries fr (Some from) nvar rows).
  assert (Hwf : WF A s0).
  { split; [|discriminate]. apply Forall_forall. intros r Hr. unfold rows in Hr.
    apply in_map_iff in Hr as (j & <- & _). now rewrite map_length, seq_length. }
  assert (E : cell A (if trimmed then trim A s0 else s0) t k = cell A s0 t k).
  { destruct trimmed; [|reflexivity]. unfold cell. now rewrite row_at_trim. }
  rewrite E. unfold cell, row_at, s0. cbn [s_start s_data s_nv].
  destruct (Z.ltb_spec t from) as [Hlt|Hge].
  - destruct (Z.leb_spec from t); [lia|]. simpl. unfold missrow. apply nth_repeat_same.
  - destruct (Z.leb_spec from t); [|lia]. simpl.
    destruct (Z.ltb_spec t (from + Z.of_nat n)) as [Hin|Hout].
    + unfold rows. rewrite nth_map_in with (d' := O) by (rewrite seq_length; lia).
      rewrite seq_nth by lia. rewrite nth_map_in with (d' := O) by now rewrite seq_length.
      rewrite seq_nth by assumption. reflexivity.
    + rewrite (nth_overflow rows) by (unfold rows; rewrite map_length, seq_length; lia).
      unfold missrow. apply nth_repeat_same.
Qed.

Lemma slate_series_shape sl fr from n nvar trimmed q :
  let s := slate_series A sl fr from n nvar trimmed q in
  WF A s /\ s_nv s = nvar /\ (trimmed = true -> Trimmed A s).
Proof.
  unfold slate_series.
  set (rows := map (fun t0 => map (fun k0 => slate_cell A sl k0 q t0) (seq 0 nvar)) (seq 0 n)).
  set (s0 := mkSeries fr (Some from) nvar rows).
  assert (Hwf : WF A s0).
  { split; [|discriminate]. apply Forall_forall. intros r Hr. unfold rows in Hr.
    apply in_map_iff in Hr as (j & <- & _). now rewrite map_length, seq_length. }
  cbv zeta. destruct trimmed.
  - split; [now apply trim_WF|]. split; [|intros _; now apply trim_Trimmed].
    unfold trim, s0. cbn [s_start s_data s_nv s_freq]. destruct (drop_leading A rows) as [m r1].
    destruct (rev (snd (drop_leading A (rev r1)))); reflexivity.
  - split; [assumption|]. split; [reflexivity|discriminate].
Qed.

Theorem slate_roundtrip_spec (db : databox) nms fr from n (o : sopts A) trimmed db' :
  slate_roundtrip A db (Some nms) fr from n o trimmed = Ok db' ->
  (forall nm, In nm nms ->
     exists s, dget A db' nm = Some (ISer A ""%string s) /\ WF A s /\ s_nv s = o_nvar o /\
               (trimmed = true -> Trimmed A s) /\
               forall t k, (k < o_nvar o)%nat ->
                 cell A s t k = if (from <=? t) && (t <? from + Z.of_nat n) then expected db o nm k from t else miss A)
  /\ (forall nm, ~ In nm nms -> dget A db' nm = None).
Proof.
  unfold slate_roundtrip. destruct (from_databox A db (Some nms) fr from n o) as [sl|e] eqn:E; [|discriminate].
  intros H; inversion H; subst. clear H. unfold to_databox.
  split.
  - intros nm Hin.
    destruct (to_databox_fold sl fr from n (o_nvar o) trimmed nms O [] nm) as [H1 _].
    destruct (H1 Hin) as (q & Hq & Hnth & Hget). rewrite Nat.sub_0_r in Hnth.
    eexists. split; [exact Hget|].
    destruct (slate_series_shape sl fr from n (o_nvar o) trimmed q) as (Hwf & Hnv & Htr).
    split; [assumption|]. split; [assumption|]. split; [assumption|].
    intros t k Hk. rewrite slate_series_cell by assumption.
    destruct ((from <=? t) && (t <? from + Z.of_nat n)) eqn:Ein; [|reflexivity].
    apply andb_true_iff in Ein as [E1 E2]. apply Z.leb_le in E1. apply Z.ltb_lt in E2.
    rewrite (slate_cell_spec db nms fr from n o sl k q (Z.to_nat (t - from)) E) by lia.
    rewrite Hnth. f_equal. lia.
  - intros nm Hn. destruct (to_databox_fold sl fr from n (o_nvar o) trimmed nms O [] nm) as [_ H2].
    now rewrite H2.
Qed.

(* names=None is the same as naming every key of the databox *)
Lemma slate_roundtrip_all_names (db : databox) fr from n (o : sopts A) trimmed :
  slate_roundtrip A db None fr from n o trimmed = slate_roundtrip A db (Some (names A db)) fr from n o trimmed.
Proof. reflexivity. Qed.

(* ---------------------------------------------------------------- the dataslate as an object *)
Lemma nth_skipn' {T} (l : list T) j i d : nth i (skipn j l) d = nth (j + i) l d.
Proof.
  revert l. induction j as [|j IH]; intros l; [reflexivity|]. destruct l as [|x r]; [now destruct i|]. apply IH.
Qed.

Lemma nth_firstn' {T} (l : list T) m i d : (i < m)%nat -> nth i (firstn m l) d = nth i l d.
Proof.
  revert l i. induction m as [|m IH]; intros l i Hi; [lia|]. destruct l as [|x r]; [reflexivity|].
  destruct i; [reflexivity|]. simpl. apply IH. lia.
Qed.

Lemma slate_cell_map (g : list V -> list V) sl k q t :
  g [] = [] -> slate_cell A (map (map g) sl) k q t = nth t (g (nth q (nth k sl []) [])) (miss A).
Proof.
  intros Hg. unfold slate_cell.
  change (@nil (list V)) with (map g (@nil (list V))) at 1. rewrite map_nth.
  rewrite <- Hg at 1. now rewrite map_nth.
Qed.

(* removing j periods from the start: column t of the result is column j + t of the original (no value moves to
   another period), the periods are the remaining ones, and the base periods are exactly the original base periods
   that remain -- in particular a base column sitting exactly at the cut stays a base column *)
Theorem ds_remove_start_spec (d d' : dslate A) (k : Z) : 0 <= k -> ds_remove_start A d k = Ok d' ->
  let j := Z.to_nat k in
  ds_names A d' = ds_names A d /\
  ds_periods A d' = skipn j (ds_periods A d) /\
  map (fun i => nth i (ds_periods A d') 0) (ds_base A d')
    = map (fun i => nth i (ds_periods A d) 0) (filter (fun i => Nat.leb j i) (ds_base A d)) /\
  forall kv q t, slate_cell A (ds_data A d') kv q t = slate_cell A (ds_data A d) kv q (j + t).
Proof.
  intros Hk H j. unfold ds_remove_start in H. destruct (Z.ltb_spec k 0); [lia|]. fold j in H.
  destruct (Nat.eqb_spec j 0) as [E|E].
  - inversion H; subst d'. rewrite E. cbn [skipn Nat.add]. repeat split; try reflexivity.
    f_equal. symmetry. apply filter_all. reflexivity.
  - inversion H; subst d'. cbn [ds_names ds_periods ds_base ds_data]. repeat split; try reflexivity.
    + rewrite map_map. apply map_ext_in. intros i Hi. apply filter_In in Hi as [_ Hi]. apply Nat.leb_le in Hi.
      rewrite nth_skipn'. f_equal. lia.
    + intros kv q t. rewrite slate_cell_map by (now destruct j). apply nth_skipn'.
Qed.

(* removing j > 0 periods from the end keeps every remaining column in place and exactly the base columns that
   still address a period; removing 0 periods changes nothing *)
Theorem ds_remove_end_spec (d d' : dslate A) (k : Z) : 0 <= k -> ds_remove_end A d k = Ok d' ->
  let j := Z.to_nat k in
  (j = 0%nat -> d' = d) /\
  (j <> 0%nat ->
     ds_names A d' = ds_names A d /\
     ds_periods A d' = firstn (length (ds_periods A d) - j) (ds_periods A d) /\
     ds_base A d' = filter (fun i => Nat.ltb i (length (ds_periods A d'))) (ds_base A d) /\
     forall kv q t, (t < length (nth q (nth kv (ds_data A d) []) []) - j)%nat ->
       slate_cell A (ds_data A d') kv q t = slate_cell A (ds_data A d) kv q t).
Proof.
  intros Hk H j. unfold ds_remove_end in H. destruct (Z.ltb_spec k 0); [lia|]. fold j in H.
  destruct (Nat.eqb_spec j 0) as [E|E]; (split; [intros E'|intros E']); try contradiction; try (now inversion H).
  inversion H; subst d'. cbn [ds_names ds_periods ds_base ds_data]. repeat split; try reflexivity.
  intros kv q t Ht. rewrite (slate_cell_map (fun v => firstn (length v - j) v)) by reflexivity.
  now apply nth_firstn'.
Qed.

(* to_databox(span="base"): every name comes back as a series starting at the first base period whose value at the
   base period number i (counted from the first base column b0) is column b0 + i of the dataslate; missing elsewhere *)
Theorem ds_to_databox_base_spec (d : dslate A) fr trimmed db' b0 rest :
  ds_base A d = b0 :: rest ->
  ds_to_databox A d fr true trimmed = Ok db' ->
  let p0 := nth b0 (ds_periods A d) 0 in
  let w := (Nat.min (S (last (ds_base A d) b0)) (ds_ncols A d) - b0)%nat in
  forall nm, In nm (ds_names A d) ->
    exists s q, nth q (ds_names A d) ""%string = nm /\ (q < length (ds_names A d))%nat /\
      dget A db' nm = Some (ISer A ""%string s) /\ WF A s /\ s_nv s = length (ds_data A d) /\
      forall t k, (k < length (ds_data A d))%nat ->
        cell A s t k = if (p0 <=? t) && (t <? p0 + Z.of_nat w)
                       then slate_cell A (ds_data A d) k q (b0 + Z.to_nat (t - p0)) else miss A.
Proof.
  intros Hb H p0 w nm Hin. unfold ds_to_databox in H. rewrite Hb in H. rewrite <- Hb in H.
  destruct (Nat.leb (length (ds_periods A d)) b0); [discriminate|]. inversion H; subst db'. clear H.
  fold p0 w. unfold to_databox.
  set (sl' := map (map (fun v : list V => firstn w (skipn b0 v))) (ds_data A d)).
  destruct (to_databox_fold sl' fr p0 w (length (ds_data A d)) trimmed (ds_names A d) O [] nm) as [H1 _].
  destruct (H1 Hin) as (q & Hq & Hnth & Hget). rewrite Nat.sub_0_r in Hnth.
  destruct (slate_series_shape sl' fr p0 w (length (ds_data A d)) trimmed q) as (Hwf & Hnv & _).
  eexists. exists q. split; [exact Hnth|]. split; [lia|]. split; [exact Hget|]. split; [assumption|]. split; [assumption|].
  intros t k Hk. rewrite slate_series_cell by assumption.
  destruct ((p0 <=? t) && (t <? p0 + Z.of_nat w)) eqn:Ein; [|reflexivity].
  apply andb_true_iff in Ein as [E1 E2]. apply Z.leb_le in E1. apply Z.ltb_lt in E2.
  unfold sl'. rewrite (slate_cell_map (fun v => firstn w (skipn b0 v))) by (now rewrite skipn_nil, firstn_nil).
  rewrite nth_firstn' by lia. apply nth_skipn'.
Qed.

End SlateProofs.
