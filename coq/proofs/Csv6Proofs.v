(* C19, round 6: an explicit period list (span= / frequency_span=) with REPEATED periods.
   The sheet holds one row per position of the list: the rows written for two positions holding the same period are
   identical.  The import reads dated rows with last-wins semantics (Series.set_data: last_assoc), so the series that
   comes back depends only on the SET of selected periods: repeats and order change nothing. *)
From Coq Require Import String Ascii ZArith List Bool Lia.
From Verif Require Import lib.Arith model.Series model.SeriesOps model.Databox model.Csv gen.CsvGen
  proofs.SeriesProofs proofs.CsvProofs gen.Csv5Gen model.Csv5 proofs.Csv5Proofs.
Import ListNotations.
Open Scope Z_scope.

Section Csv6.
Variable A : Arith.
Hypothesis miss_law : forall x : car A, is_miss A x = true -> x = miss A.
Hypothesis miss_is_miss : is_miss A (miss A) = true.
Variable rnd : car A -> car A.

Lemma series_eq (a b : series A) :
  s_freq a = s_freq b -> s_start a = s_start b -> s_nv a = s_nv b -> s_data a = s_data b -> a = b.
Proof. destruct a, b; cbn; intros; subst; reflexivity. Qed.

Lemma imp_series_freq_none f ps (s : series A) :
  s_start (imp_series A rnd f ps s) = None -> s_freq (imp_series A rnd f ps s) = 0.
Proof.
  unfold imp_series, set_data. destruct ps as [|d0 r]; [reflexivity|].
  unfold build, trim. cbn [s_start s_data s_freq s_nv].
  match goal with |- context [let '(n, rows1) := ?x in _] => destruct x as [n rows1] end.
  cbv beta iota.
  match goal with |- context [match ?x with [] => _ | _ :: _ => _ end] => destruct x end; cbn; [reflexivity|discriminate].
Qed.

Theorem imp_series_periods_as_set f ps ps' (s : series A) : WF A s -> (forall t, In t ps <-> In t ps') ->
  imp_series A rnd f ps s = imp_series A rnd f ps' s.
Proof.
  intros Hwf Hset.
  destruct (imp_series_spec A miss_law rnd f ps s Hwf) as (W1 & T1 & N1 & R1 & F1).
  destruct (imp_series_spec A miss_law rnd f ps' s Hwf) as (W2 & T2 & N2 & R2 & F2).
  assert (Hrow : forall t, row_at A (imp_series A rnd f ps s) t = row_at A (imp_series A rnd f ps' s) t).
  { intros t. rewrite R1, R2.
    destruct (in_dec Z.eq_dec t ps) as [i1|n1], (in_dec Z.eq_dec t ps') as [i2|n2]; try reflexivity; exfalso.
    - apply n2, Hset, i1.
    - apply n1, Hset, i2. }
  assert (Hsd : s_start (imp_series A rnd f ps s) = s_start (imp_series A rnd f ps' s)
                /\ s_data (imp_series A rnd f ps s) = s_data (imp_series A rnd f ps' s)).
  { eapply trimmed_ext; first [eassumption | congruence]. }
  destruct Hsd as [Hs Hd].
  apply series_eq; [|assumption|congruence|assumption].
  destruct (s_start (imp_series A rnd f ps s)) as [a|] eqn:E1.
  - rewrite F1 by discriminate. symmetry. apply F2. rewrite <- Hs. discriminate.
  - rewrite (imp_series_freq_none f ps s E1). symmetry. apply imp_series_freq_none. now rewrite <- Hs.
Qed.

(* repeats change nothing: the list without its repeated entries gives the same series *)
Corollary imp_series_nodup f ps (s : series A) : WF A s ->
  imp_series A rnd f ps s = imp_series A rnd f (nodup Z.eq_dec ps) s.
Proof. intros Hwf. apply imp_series_periods_as_set; [assumption|]. intros t. symmetry. apply nodup_In. Qed.

Corollary imp_series_repeat_last f ps t (s : series A) : WF A s -> In t ps ->
  imp_series A rnd f (ps ++ [t]) s = imp_series A rnd f ps s.
Proof.
  intros Hwf Hin. apply imp_series_periods_as_set; [assumption|]. intros x. rewrite in_app_iff. cbn [In].
  split; [intros [H|[<-|[]]]; assumption|intros H; now left].
Qed.

End Csv6.

(* the sheet: two positions of the selected list holding the same period get identical rows (date cell and values) *)
Theorem block_rows_of_repeated_period A fmt_period fmt_val rnd (o : wopts) total f ps
  (its : list (string * (string * series A))) i j :
  (i < length ps)%nat -> (j < length ps)%nat -> nth i ps 0 = nth j ps 0 ->
  nth ((if w_desc o then 2 else 1) + i) (block_grid_src A fmt_period fmt_val rnd o total f ps its) []
  = nth ((if w_desc o then 2 else 1) + j) (block_grid_src A fmt_period fmt_val rnd o total f ps its) [].
Proof. intros Hi Hj E. rewrite !block_row_at_its_period by assumption. now rewrite E. Qed.

(* non-vacuity: periods [10; 11; 10] *)
From Verif Require Import lib.ArithOptZ.
Module Csv6Examples.
Example repeated_period_same_series :
  imp_series OZArith (fun x => x) 1 [10; 11; 10] s5 = imp_series OZArith (fun x => x) 1 [10; 11] s5
  /\ ~ NoDup [10; 11; 10].
Proof. split; [vm_compute; reflexivity|]. intros H. inversion H as [|? ? Hn _]; subst. apply Hn. cbn. auto. Qed.
End Csv6Examples.
