(* Proofs for the Hodrick-Prescott part of C14.

   [MCOps F] instantiates the matrix interface of lib/MxC14.v on MathComp
   matrices over an arbitrary [realFieldType]; the model text of model/HP.v,
   read at this instance, is what the theorems are about.  Everything is exact
   algebra over the field: no axioms. *)
(* ================================================================== *)
(* Part A (plain Coq, any carrier): the Series plumbing of _data_hpf    *)
(* ================================================================== *)
From Coq Require Import ZArith List Bool Lia.
From Verif Require Import MxC14 HPGen HP.
Import ListNotations.

Lemma nth_map_seq {A : Type} (f : nat -> A) (d : A) (n i : nat) :
  (i < n)%nat -> nth i (map f (seq 0 n)) d = f i.
Proof.
intros H. rewrite (nth_indep _ d (f 0%nat)) by (rewrite map_length, seq_length; exact H).
rewrite map_nth, seq_nth by exact H. reflexivity.
Qed.

Section Plumbing.
Variable O : MatOps.
Variable solve : forall n, mx O n n -> mx O n 1 -> mx O n 1.
Variables lg ex : sc O -> sc O.
Notation S := (sc O).
Notation args := (hp_args O).
Local Notation in_span := (HP.in_span O).
Local Notation enc_start := (HP.enc_start O).
Local Notation enc_end := (HP.enc_end O).
Local Notation enc_len := (HP.enc_len O).
Local Notation enc_data := (HP.enc_data O).
Local Notation at_period := (HP.at_period O).
Local Notation span_of := (HP.span_of O).
Local Notation series_len := (HP.series_len O).
Local Notation opt_min := (HP.opt_min O).
Local Notation opt_max := (HP.opt_max O).
Local Notation prepare := (HP.prepare O).
Local Notation drop_first_date := (HP.drop_first_date O).
Local Notation smooth_of := (HP.smooth_of O).
Local Notation obs_at := (HP.obs_at O).
Local Notation val_at := (HP.val_at O).
Local Notation log_data := (HP.log_data O).
Local Notation log_cs := (HP.log_cs O).
Local Notation mode_data := (HP.mode_data O).
Local Notation mode_cs := (HP.mode_cs O).
Local Notation post := (HP.post O).
Local Notation hp_trend := (HP.hp_trend O).
Local Notation hp_gap := (HP.hp_gap O).
Local Notation hp_trend_mode := (HP.hp_trend_mode O).
Local Notation hp_gap_mode := (HP.hp_gap_mode O).
Local Notation hpf_trend_at := (HP.hpf_trend_at O).
Local Notation hpf_gap_at := (HP.hpf_gap_at O).
Local Notation hpf_model := (HP.hpf_model O).
Local Notation hpf_variant := (HP.hpf_variant O).
Local Notation mkHpArgs := (HP.mkHpArgs O).
Local Notation a_freq := (HP.a_freq O).
Local Notation a_start := (HP.a_start O).
Local Notation a_vars := (HP.a_vars O).
Local Notation a_level := (HP.a_level O).
Local Notation a_change := (HP.a_change O).
Local Notation a_span := (HP.a_span O).
Local Notation a_smooth := (HP.a_smooth O).
Local Notation a_log := (HP.a_log O).
Local Notation hp_trend_vec := (HP.hp_trend_vec O).

Lemma enc_bounds (a : args) (t : Z) :
  in_span a t = true -> (enc_start a <= t <= enc_end a)%Z.
Proof.
unfold in_span, enc_start, enc_end, opt_min, opt_max. intros H.
apply andb_prop in H. destruct H as [H1 H2]. apply Z.leb_le in H1. apply Z.leb_le in H2.
destruct (a_level a) as [[ls lv]|]; destruct (a_change a) as [[cs cv]|]; lia.
Qed.

Lemma enc_index (a : args) (t : Z) :
  in_span a t = true -> (Z.to_nat (t - enc_start a) < enc_len a)%nat.
Proof. intros H. apply enc_bounds in H. unfold enc_len. lia. Qed.

(* the data handed to the filter at the row of period t are the series' values at t *)
Lemma enc_data_nth (a : args) (v : list (option S)) (t : Z) :
  in_span a t = true ->
  nth (Z.to_nat (t - enc_start a)) (enc_data a v) None = at_period (a_start a) v t.
Proof.
intros H. unfold enc_data. rewrite nth_map_seq by (apply enc_index; exact H).
apply enc_bounds in H. f_equal. lia.
Qed.

Lemma nth_log (d : list (option S)) (i : nat) :
  nth i (map (option_map lg) d) None = option_map lg (nth i d None).
Proof. exact (map_nth (option_map lg) d None i). Qed.

Lemma obs_at_log (d : list (option S)) (i : nat) : obs_at (log_data lg d) i = obs_at d i.
Proof.
unfold HP.obs_at, HP.log_data. rewrite nth_log.
destruct (nth i d None); reflexivity.
Qed.

Lemma val_at_log (d : list (option S)) (i : nat) :
  obs_at d i = true -> val_at (log_data lg d) i = lg (val_at d i).
Proof.
unfold HP.obs_at, HP.val_at, HP.log_data. rewrite nth_log.
destruct (nth i d None); simpl; [reflexivity | discriminate].
Qed.

(* trend: a value on every period of the requested span, nothing outside *)
Theorem hpf_trend_defined (a : args) (v : list (option S)) (t : Z) :
  hpf_trend_at solve lg ex a v t = None <-> in_span a t = false.
Proof. unfold hpf_trend_at. destruct (in_span a t); split; intros H; congruence. Qed.

(* gap: missing exactly where the data are missing (or outside the requested span) *)
Theorem hpf_gap_defined (a : args) (v : list (option S)) (t : Z) :
  hpf_gap_at solve lg ex a v t = None <-> (in_span a t = false \/ at_period (a_start a) v t = None).
Proof.
unfold hpf_gap_at. destruct (in_span a t) eqn:Hs.
- unfold hp_gap_mode, hp_gap.
  assert (Ho : obs_at (mode_data lg (a_log a) (enc_data a v)) (Z.to_nat (t - enc_start a))
               = obs_at (enc_data a v) (Z.to_nat (t - enc_start a))).
  { unfold mode_data. destruct (a_log a); [apply obs_at_log | reflexivity]. }
  rewrite Ho. unfold obs_at. rewrite enc_data_nth by exact Hs.
  destruct (at_period (a_start a) v t); simpl; split; intros H; try congruence; try (right; reflexivity).
  destruct H; congruence.
- split; intros _; [left; reflexivity | reflexivity].
Qed.

(* log=False: gap = data - trend, entry by entry *)
Theorem hpf_gap_value (a : args) (v : list (option S)) (t : Z) (g : S) :
  a_log a = false -> hpf_gap_at solve lg ex a v t = Some g ->
  exists y tr, at_period (a_start a) v t = Some y /\ hpf_trend_at solve lg ex a v t = Some tr /\
               g = s_sub O y tr.
Proof.
intros Hl. unfold hpf_gap_at, hpf_trend_at. destruct (in_span a t) eqn:Hs; [|discriminate].
unfold hp_gap_mode, hp_trend_mode, hp_gap. rewrite Hl. simpl.
unfold obs_at, val_at. rewrite enc_data_nth by exact Hs.
destruct (at_period (a_start a) v t) as [y|]; simpl; [|discriminate].
intros H. injection H as <-. exists y. eexists. repeat split.
Qed.

(* log=True: gap = exp(log data - log-trend), trend = exp(log-trend), where log-trend is the
   filter applied to the logarithms of the data and of the constraint values *)
Theorem hpf_gap_value_log (a : args) (v : list (option S)) (t : Z) (g : S) :
  a_log a = true -> hpf_gap_at solve lg ex a v t = Some g ->
  exists y ltr, at_period (a_start a) v t = Some y /\
                hpf_trend_at solve lg ex a v t = Some (ex ltr) /\
                ltr = hp_trend solve (enc_len a) (smooth_of a) (log_data lg (enc_data a v))
                               (log_cs lg (prepare a (a_level a)))
                               (log_cs lg (drop_first_date (prepare a (a_change a))))
                               (Z.to_nat (t - enc_start a)) /\
                g = ex (s_sub O (lg y) ltr).
Proof.
intros Hl. unfold hpf_gap_at, hpf_trend_at. destruct (in_span a t) eqn:Hs; [|discriminate].
unfold hp_gap_mode, hp_trend_mode, hp_gap. rewrite Hl. simpl.
rewrite obs_at_log.
destruct (obs_at (enc_data a v) (Z.to_nat (t - enc_start a))) eqn:Ho; simpl; [|discriminate].
rewrite val_at_log by exact Ho.
revert Ho. unfold obs_at, val_at. rewrite enc_data_nth by exact Hs.
destruct (at_period (a_start a) v t) as [y|]; simpl; [|discriminate].
intros _ H. injection H as <-. exists y. eexists. repeat split.
Qed.

(* hpf_model (what the case files evaluate, one solve per variant) is hpf_trend_at / hpf_gap_at *)
Theorem hpf_model_pointwise (a : args) (w : Z) (len : nat) :
  hpf_model solve lg ex a w len =
  map (fun v => (map (hpf_trend_at solve lg ex a v) (window w len),
                 map (hpf_gap_at solve lg ex a v) (window w len))) (a_vars a).
Proof.
unfold hpf_model. apply map_ext. intros v. unfold hpf_variant. f_equal.
apply map_ext. intros t. unfold hpf_gap_at, hp_gap_mode, hp_gap, hp_trend.
destruct (in_span a t); [|reflexivity].
destruct (obs_at _ _); reflexivity.
Qed.

(* ---- the requested span only selects rows ---- *)
Definition with_span (a : args) (s : option (Z * Z)) : args :=
  mkHpArgs (a_freq a) (a_start a) (a_vars a) (a_level a) (a_change a) s (a_smooth a) (a_log a).

(* a requested span inside the span covered by the data and the constraints *)
Definition span_inside (a : args) (s : Z * Z) : Prop :=
  (enc_start (with_span a None) <= fst s)%Z /\ (snd s <= enc_end (with_span a None))%Z /\ (fst s <= snd s)%Z.

Lemma enc_inside (a : args) (s : Z * Z) :
  span_inside a s ->
  enc_start (with_span a (Some s)) = enc_start (with_span a None) /\
  enc_end (with_span a (Some s)) = enc_end (with_span a None).
Proof.
unfold span_inside, enc_start, enc_end, opt_min, opt_max, span_of, series_len, with_span. simpl.
destruct (a_level a) as [[ls lv]|]; destruct (a_change a) as [[cs cv]|]; lia.
Qed.

Theorem hpf_clip_only (a : args) (s : Z * Z) (v : list (option S)) (t : Z) :
  span_inside a s ->
  hpf_trend_at solve lg ex (with_span a (Some s)) v t =
    (if (fst s <=? t)%Z && (t <=? snd s)%Z
     then Some (hp_trend_mode solve lg ex (a_log a) (enc_len (with_span a None)) (smooth_of (with_span a None))
                  (enc_data (with_span a None) v)
                  (prepare (with_span a None) (a_level a))
                  (drop_first_date (prepare (with_span a None) (a_change a)))
                  (Z.to_nat (t - enc_start (with_span a None))))
     else None) /\
  hpf_gap_at solve lg ex (with_span a (Some s)) v t =
    (if (fst s <=? t)%Z && (t <=? snd s)%Z
     then hp_gap_mode solve lg ex (a_log a) (enc_len (with_span a None)) (smooth_of (with_span a None))
                  (enc_data (with_span a None) v)
                  (prepare (with_span a None) (a_level a))
                  (drop_first_date (prepare (with_span a None) (a_change a)))
                  (Z.to_nat (t - enc_start (with_span a None)))
     else None).
Proof.
intros Hin. destruct (enc_inside a s Hin) as [E1 E2].
unfold hpf_trend_at, hpf_gap_at, in_span, enc_data, prepare, enc_len.
rewrite !E1, !E2. simpl. split; reflexivity.
Qed.

End Plumbing.

(* ================================================================== *)
(* Part B (MathComp): the algebra                                       *)
(* ================================================================== *)
From Coq Require Import ZArith List.
From mathcomp Require Import all_ssreflect all_algebra.
From mathcomp Require Import ring zify.

Set Implicit Arguments.
Unset Strict Implicit.
Unset Printing Implicit Defensive.
Import Order.TTheory GRing.Theory Num.Theory.
Local Open Scope ring_scope.

(* ------------------------------------------------------------------ *)
(* the MathComp instance of the interface                               *)
(* ------------------------------------------------------------------ *)
Section Instance.
Variable F : realFieldType.

Definition zF (z : Z) : F :=
  match z with
  | Z0 => 0
  | Zpos p => (Pos.to_nat p)%:R
  | Zneg p => - (Pos.to_nat p)%:R
  end.

Definition mc_get (m n : nat) (A : 'M[F]_(m, n)) (i j : nat) : F :=
  match insub i, insub j with
  | Some i', Some j' => A i' j'
  | _, _ => 0
  end.

Definition MCOps : MatOps := {|
  sc := F; s_ofZ := zF; s_add := +%R; s_sub := fun a b => a - b; s_mul := *%R;
  s_leb := fun a b => a <= b;
  mx := fun m n => 'M[F]_(m, n);
  m_fun := fun m n f => \matrix_(i < m, j < n) f (nat_of_ord i) (nat_of_ord j);
  m_get := mc_get;
  m_mul := fun m n p A B => A *m B;
  m_add := fun m n A B => A + B;
  m_sub := fun m n A B => A - B;
  m_scale := fun m n a A => a *: A;
  m_tr := fun m n A => A^T;
  m_block := fun m1 m2 n1 n2 A B C D => block_mx A B C D;
  m_col := fun m1 m2 n A B => col_mx A B;
  m_up := fun m1 m2 n A => usubmx A;
  m_down := fun m1 m2 n A => dsubmx A
|}.

Lemma mc_getE m n (A : 'M[F]_(m, n)) (i : 'I_m) (j : 'I_n) : mc_get A i j = A i j.
Proof.
rewrite /mc_get; case: insubP => [i' _ /= Hi|]; last by rewrite ltn_ord.
case: insubP => [j' _ /= Hj|]; last by rewrite ltn_ord.
by congr (A _ _); apply: val_inj.
Qed.

Lemma mc_get_out_row m n (A : 'M[F]_(m, n)) i j : (m <= i)%N -> mc_get A i j = 0.
Proof. by move=> Hi; rewrite /mc_get insubF // ltnNge Hi. Qed.

Lemma trmx11 (A : 'M[F]_1) : A^T = A.
Proof. by apply/matrixP=> i j; rewrite mxE !ord1. Qed.

Lemma quad_sum m (v : 'cV[F]_m) : (v^T *m v) 0 0 = \sum_i (v i 0) ^+ 2.
Proof. by rewrite mxE; apply: eq_bigr => i _; rewrite mxE expr2. Qed.

Lemma quad_ge0 m (v : 'cV[F]_m) : 0 <= (v^T *m v) 0 0.
Proof. by rewrite quad_sum; apply: sumr_ge0 => i _; apply: sqr_ge0. Qed.

Lemma quad_eq0 m (v : 'cV[F]_m) : (v^T *m v) 0 0 = 0 -> v = 0.
Proof.
rewrite quad_sum => H; apply/colP => i; rewrite mxE.
have /(_ i isT) := psumr_eq0P (fun i _ => sqr_ge0 (v i 0)) H.
by move/eqP; rewrite sqrf_eq0 => /eqP.
Qed.

(* a square matrix with a trivial (right) kernel is invertible *)
Lemma unit_of_ker m (A : 'M[F]_m) : (forall x : 'cV[F]_m, A *m x = 0 -> x = 0) -> A \in unitmx.
Proof.
move=> H; rewrite -unitmx_tr -row_free_unit -kermx_eq0; apply/eqP.
apply/row_matrixP => i; rewrite row0.
have H0 : row i (kermx A^T) *m A^T = 0 by rewrite -row_mul mulmx_ker row0.
have H1 : A *m (row i (kermx A^T))^T = 0.
  have -> : A *m (row i (kermx A^T))^T = (row i (kermx A^T) *m A^T)^T by rewrite trmx_mul trmxK.
  by rewrite H0 trmx0.
by rewrite -[LHS]trmxK (H _ H1) trmx0.
Qed.

(* ------------------------------------------------------------------ *)
(* abstract optimality: any K, any 0/1 observation pattern, any C       *)
(* ------------------------------------------------------------------ *)
Section Abstract.
Variables (n p k : nat) (lam : F) (K : 'M[F]_(p, n)) (obs : 'I_n -> bool)
          (C : 'M[F]_(k, n)) (y : 'cV[F]_n) (c : 'cV[F]_k).

Definition Eobs : 'M[F]_n := diag_mx (\row_i (obs i)%:R).
Definition Fmat : 'M[F]_n := lam *: (K^T *m K).
Definition Mbord : 'M[F]_(n + k) := block_mx (Fmat + Eobs) C^T C 0.
Definition rhsb : 'cV[F]_(n + k) := col_mx (Eobs *m y) c.

(* the Hodrick-Prescott objective and the quadratic form of a difference *)
Definition Jabs (t : 'cV[F]_n) : F :=
  \sum_(i < n | obs i) (y i 0 - t i 0) ^+ 2 + lam * \sum_(j < p) ((K *m t) j 0) ^+ 2.
Definition Qabs (d : 'cV[F]_n) : F :=
  \sum_(i < n | obs i) (d i 0) ^+ 2 + lam * \sum_(j < p) ((K *m d) j 0) ^+ 2.

Lemma Eobs_sym : Eobs^T = Eobs.
Proof. exact: tr_diag_mx. Qed.

Lemma EobsE (v : 'cV[F]_n) i : (Eobs *m v) i 0 = (obs i)%:R * v i 0.
Proof. by rewrite /Eobs mul_diag_mx !mxE. Qed.

Lemma sum_obs (v : 'cV[F]_n) : \sum_(i < n | obs i) (v i 0) ^+ 2 = (v^T *m Eobs *m v) 0 0.
Proof.
rewrite -mulmxA mxE big_mkcond /=; apply: eq_bigr => i _.
by rewrite EobsE mxE; case: (obs i); rewrite ?mul1r ?mul0r ?mulr0 ?expr2.
Qed.

Lemma Eobs_eq0 (v : 'cV[F]_n) : \sum_(i < n | obs i) (v i 0) ^+ 2 = 0 -> Eobs *m v = 0.
Proof.
move=> H; apply/colP => i; rewrite EobsE mxE.
case Ho: (obs i); last by rewrite mul0r.
have /(_ i Ho) := psumr_eq0P (P := fun i => obs i) (fun i _ => sqr_ge0 (v i 0)) H.
by move/eqP; rewrite sqrf_eq0 => /eqP ->; rewrite mulr0.
Qed.

Lemma Qabs_ge0 d : 0 <= lam -> 0 <= Qabs d.
Proof.
move=> Hl; rewrite /Qabs; apply: addr_ge0; first by apply: sumr_ge0 => i _; apply: sqr_ge0.
by apply: mulr_ge0 => //; apply: sumr_ge0 => i _; apply: sqr_ge0.
Qed.

Lemma Jabs_mx t :
  Jabs t = ((y - t)^T *m Eobs *m (y - t) + lam *: ((K *m t)^T *m (K *m t))) 0 0.
Proof.
rewrite /Jabs mxE; congr (_ + _); last by rewrite mxE quad_sum.
by rewrite -sum_obs; apply: eq_bigr => i _; rewrite !mxE.
Qed.

Lemma Qabs_mx d :
  Qabs d = (d^T *m Eobs *m d + lam *: ((K *m d)^T *m (K *m d))) 0 0.
Proof. by rewrite /Qabs mxE; congr (_ + _); [rewrite -sum_obs | rewrite mxE quad_sum]. Qed.

(* the first-order conditions  (F + E) t + C' mu = E y  give the exact difference of objectives *)
Lemma J_diff t mu d :
  (Fmat + Eobs) *m t + C^T *m mu = Eobs *m y -> C *m d = 0 ->
  Jabs (t + d) - Jabs t = Qabs d.
Proof.
move=> N Cd.
have Er : Eobs *m (y - t) = Fmat *m t + C^T *m mu.
  by rewrite mulmxBr -N mulmxDl; apply/matrixP => i j; rewrite !mxE; ring.
(* a := d' E r is a 1x1 matrix equal to lam (Kd)'(Kt) *)
have Ha : d^T *m Eobs *m (y - t) = lam *: ((K *m d)^T *m (K *m t)).
  rewrite -mulmxA Er mulmxDr !mulmxA.
  have -> : d^T *m C^T *m mu = 0 by rewrite -trmx_mul Cd trmx0 mul0mx.
  by rewrite addr0 /Fmat -scalemxAr -scalemxAl trmx_mul !mulmxA.
have Ha' : (y - t)^T *m Eobs *m d = lam *: ((K *m d)^T *m (K *m t)).
  by rewrite -Ha -[LHS]trmx11 !trmx_mul trmxK Eobs_sym mulmxA.
have Hb : (K *m t)^T *m (K *m d) = (K *m d)^T *m (K *m t).
  by rewrite -[LHS]trmx11 trmx_mul trmxK.
rewrite !Jabs_mx Qabs_mx.
have -> : y - (t + d) = (y - t) - d by apply/matrixP => i j; rewrite !mxE; ring.
move: (y - t) Ha Ha' => r Ha Ha'.
rewrite mulmxDr !linearB !linearD /= ?mulmxBl ?mulmxBr ?mulmxDl ?mulmxDr ?mulmxBl ?mulmxBr.
rewrite Ha Ha' Hb.
set A1 := r^T *m Eobs *m r.
set A2 := (K *m d)^T *m (K *m t).
set A3 := d^T *m Eobs *m d.
set A4 := (K *m t)^T *m (K *m t).
set A5 := (K *m d)^T *m (K *m d).
clearbody A1 A2 A3 A4 A5.
rewrite !mxE.
move: (A1 0 0) (A2 0 0) (A3 0 0) (A4 0 0) (A5 0 0) => a1 a2 a3 a4 a5. ring.
Qed.

(* Theorem (abstract form): a solution of the bordered system meets the constraints and minimises J *)
Theorem hp_optimal_abs (x : 'cV[F]_(n + k)) :
  0 <= lam -> Mbord *m x = rhsb ->
  let t := usubmx x in
  C *m t = c /\
  forall t' : 'cV[F]_n, C *m t' = c ->
    Jabs t' - Jabs t = Qabs (t' - t) /\ 0 <= Qabs (t' - t) /\ Jabs t <= Jabs t'.
Proof.
move=> Hl; rewrite -[x]vsubmxK /Mbord /rhsb mul_block_col mul0mx addr0 col_mxKu.
move=> /eq_col_mx [N Ct]; split=> // t' Ct'.
have Cd : C *m (t' - usubmx x) = 0 by rewrite mulmxBr Ct Ct' subrr.
have H := J_diff N Cd.
have E : usubmx x + (t' - usubmx x) = t' by apply/matrixP => i j; rewrite !mxE; ring.
rewrite E in H; split=> //; split; first exact: Qabs_ge0.
by rewrite -subr_ge0 H; apply: Qabs_ge0.
Qed.

(* a zero of the quadratic form is annihilated by E and by K (lam > 0) *)
Lemma Qabs_eq0 d : 0 < lam -> Qabs d = 0 -> Eobs *m d = 0 /\ K *m d = 0.
Proof.
move=> Hl /eqP; rewrite /Qabs paddr_eq0; first last.
- by apply: mulr_ge0; [exact: ltW | apply: sumr_ge0 => i _; apply: sqr_ge0].
- by apply: sumr_ge0 => i _; apply: sqr_ge0.
case/andP => /eqP H1 /eqP H2; split; first exact: Eobs_eq0.
move/eqP: H2; rewrite mulf_eq0 (gt_eqF Hl) /= => /eqP H2.
by apply: quad_eq0; rewrite quad_sum.
Qed.

(* well-posedness: lam > 0, no non-zero vector killed by E, K and C together, independent constraint rows *)
Theorem hp_wellposed_abs :
  0 < lam ->
  (forall d : 'cV[F]_n, Eobs *m d = 0 -> K *m d = 0 -> C *m d = 0 -> d = 0) ->
  (forall mu : 'cV[F]_k, C^T *m mu = 0 -> mu = 0) ->
  Mbord \in unitmx.
Proof.
move=> Hl Hker Hrank; apply: unit_of_ker => x.
rewrite -[x]vsubmxK /Mbord mul_block_col mul0mx addr0.
set d := usubmx x; set mu := dsubmx x.
have -> : (0 : 'cV[F]_(n + k)) = col_mx 0 0 by rewrite col_mx0.
move=> /eq_col_mx [N Cd].
have N' : (Fmat + Eobs) *m 0 + C^T *m 0 = Eobs *m (0 : 'cV[F]_n) by rewrite !mulmx0 addr0.
(* d' (F+E) d = 0 *)
have Q0 : Qabs d = 0.
  rewrite Qabs_mx.
  have -> : d^T *m Eobs *m d + lam *: ((K *m d)^T *m (K *m d)) = d^T *m ((Fmat + Eobs) *m d).
    by rewrite mulmxDl mulmxDr /Fmat -!scalemxAl -scalemxAr trmx_mul !mulmxA addrC.
  have -> : (Fmat + Eobs) *m d = - (C^T *m mu) by apply/eqP; rewrite -addr_eq0 N.
  by rewrite mulmxN mulmxA -trmx_mul Cd trmx0 mul0mx oppr0 mxE.
have [Ed Kd] := Qabs_eq0 Hl Q0.
have d0 : d = 0 by apply: Hker.
have mu0 : mu = 0 by apply: Hrank; move: N; rewrite d0 mulmx0 add0r.
by rewrite d0 mu0 col_mx0.
Qed.

(* uniqueness: with an invertible bordered matrix every other feasible trend is strictly worse *)
Theorem hp_unique_abs (x : 'cV[F]_(n + k)) :
  0 < lam -> Mbord \in unitmx -> Mbord *m x = rhsb ->
  forall t' : 'cV[F]_n, C *m t' = c -> Jabs t' <= Jabs (usubmx x) -> t' = usubmx x.
Proof.
move=> Hl Hu Hx t' Ct' Hle.
have [Ct Hopt] := hp_optimal_abs (ltW Hl) Hx.
have [Hd [Hq Hj]] := Hopt t' Ct'.
have Q0 : Qabs (t' - usubmx x) = 0.
  by apply/eqP; rewrite eq_le Hq andbT -Hd subr_le0.
have [Ed Kd] := Qabs_eq0 Hl Q0.
set d := t' - usubmx x in Ed Kd Q0 *.
have Cd : C *m d = 0 by rewrite /d mulmxBr Ct Ct' subrr.
have M0 : Mbord *m col_mx d 0 = 0.
  rewrite /Mbord mul_block_col !mulmx0 !addr0 Cd mulmxDl Ed /Fmat -scalemxAl -mulmxA Kd mulmx0 scaler0 addr0.
  by rewrite col_mx0.
have : col_mx d (0 : 'cV[F]_k) = 0 by rewrite -[LHS](mulKmx Hu) M0 mulmx0.
rewrite -[0 in RHS]col_mx0 => /eq_col_mx [d0 _].
by apply/eqP; rewrite -subr_eq0 -/d d0.
Qed.

End Abstract.
End Instance.

(* ================================================================== *)
(* Part C: the model text of model/HP.v read at the MathComp instance   *)
(* ================================================================== *)
Section Model.
Variable F : realFieldType.
Notation O := (MCOps F).

Definition vget n (t : 'cV[F]_n) (i : nat) : F := mc_get t i 0.

Lemma vgetE n (t : 'cV[F]_n) (i : 'I_n) : vget t i = t i 0.
Proof. by rewrite /vget (mc_getE t i 0). Qed.

Lemma zF_0 : zF F Z0 = 0. Proof. by []. Qed.
Lemma zF_1 : zF F (Zpos 1) = 1. Proof. by []. Qed.
Lemma zF_m1 : zF F (Zneg 1) = -1. Proof. by []. Qed.
Lemma zF_m2 : zF F (Zneg 2) = - 2%:R. Proof. by []. Qed.

(* a sum whose terms vanish outside a duplicate-free list of indices *)
Lemma sum_support (g : nat -> F) (n : nat) (s : seq nat) :
  uniq s -> all (fun k => k < n)%N s -> (forall k, k \notin s -> g k = 0) ->
  \sum_(0 <= k < n) g k = \sum_(k <- s) g k.
Proof.
move=> Us Hs H0.
rewrite (bigID (mem s)) /= [X in _ + X]big1 ?addr0; last by move=> k /H0.
rewrite -big_filter; apply: perm_big.
apply: uniq_perm => //; first by rewrite filter_uniq // /index_iota iota_uniq.
move=> k; rewrite mem_filter /index_iota mem_iota subn0 add0n /=.
by case Hk: (k \in s) => //=; rewrite (allP Hs).
Qed.

(* the generated stencil of K is the second difference (1, -2, 1) *)
Lemma hp_stencilE (k j : nat) :
  stencil_coef hp_stencil (Z.sub (Z.of_nat k) (Z.of_nat j)) =
  if k == j then Zpos 1 else if k == j.+1 then Zneg 2 else if k == j.+2 then Zpos 1 else Z0.
Proof. by rewrite /hp_stencil /=; do !case: Z.eqb_spec => ?; do !case: eqP => ?; lia. Qed.

Lemma hp_K_row n (t : 'cV[F]_n) (j : 'I_(n - hp_rows_less)) :
  (hp_K O n *m t) j 0 = vget t j - 2%:R * vget t j.+1 + vget t j.+2.
Proof.
have Hj : (j + 2 < n)%N by have := ltn_ord j; rewrite /hp_rows_less; lia.
rewrite mxE.
transitivity (\sum_(0 <= k < n) zF F (stencil_coef hp_stencil (Z.sub (Z.of_nat k) (Z.of_nat j))) * vget t k).
  by rewrite big_mkord; apply: eq_bigr => k _; rewrite /hp_K /band !mxE vgetE.
rewrite (@sum_support _ n [:: nat_of_ord j; j.+1; j.+2]).
- rewrite !big_cons big_nil !hp_stencilE !eqxx.
  have -> : (j.+1 == j) = false by lia.
  have -> : (j.+2 == j) = false by lia.
  have -> : (j.+2 == j.+1) = false by lia.
  by rewrite zF_1 zF_m2; ring.
- by rewrite /= !inE; lia.
- by rewrite /=; lia.
- move=> k; rewrite !inE !negb_or => /andP[H1 /andP[H2 H3]].
  by rewrite hp_stencilE (negbTE H1) (negbTE H2) (negbTE H3) zF_0 mul0r.
Qed.

Section Fixed.
Variables (n : nat) (lam : F) (data : list (option F)) (lc cc : list (nat * F)).
Notation k := (length lc + length cc)%N.
Notation obsf := (fun i : 'I_n => obs_at O data i).
Notation Kn := (hp_K O n).
Notation Cn := (hp_C O n lc cc).
Notation cn := (hp_c O lc cc).
Notation y0 := (hp_y0 O n data).

(* the Hodrick-Prescott objective, written out: squared deviations on the observed periods
   plus lam times the squared second differences of the trend *)
Definition hp_J (t : 'cV[F]_n) : F :=
  \sum_(0 <= i < n | obs_at O data i) (val_at O data i - vget t i) ^+ 2
  + lam * \sum_(0 <= j < n - 2) (vget t j - 2%:R * vget t j.+1 + vget t j.+2) ^+ 2.
(* the quadratic form  d'(E + lam K'K) d *)
Definition hp_Q (d : 'cV[F]_n) : F :=
  \sum_(0 <= i < n | obs_at O data i) (vget d i) ^+ 2
  + lam * \sum_(0 <= j < n - 2) (vget d j - 2%:R * vget d j.+1 + vget d j.+2) ^+ 2.

Lemma hp_J_abs t : hp_J t = Jabs lam Kn obsf y0 t.
Proof.
rewrite /hp_J /Jabs !big_mkord; congr (_ + lam * _).
- by apply: eq_bigr => i _; rewrite vgetE /hp_y0 mxE.
- by apply: eq_bigr => j _; rewrite hp_K_row.
Qed.

Lemma hp_Q_abs d : hp_Q d = Qabs lam Kn obsf d.
Proof.
rewrite /hp_Q /Qabs !big_mkord; congr (_ + lam * _).
- by apply: eq_bigr => i _; rewrite vgetE.
- by apply: eq_bigr => j _; rewrite hp_K_row.
Qed.

Lemma hp_E_eq : hp_E O n data = @Eobs F n obsf.
Proof.
apply/matrixP => i j; rewrite /hp_E /Eobs !mxE.
have -> : Nat.eqb i j = (i == j) by apply/idP/eqP => [/Nat.eqb_eq /val_inj|->]; rewrite ?Nat.eqb_refl.
by case: eqP => [->|_]; case: (obs_at O data _); rewrite /= ?zF_1 ?zF_0 ?mulr1n ?mulr0n.
Qed.

Lemma hp_y0_obs : @Eobs F n obsf *m y0 = y0.
Proof.
apply/colP => i; rewrite EobsE /hp_y0 mxE /obs_at /val_at.
by case: (List.nth i data None) => [v|] /=; rewrite ?mul1r ?mul0r.
Qed.

Lemma hp_M_eq : hp_M O n lam data lc cc = Mbord lam Kn obsf Cn.
Proof.
rewrite /hp_M hp_E_eq.
have -> : m_fun O k k (fun _ _ => sZ O 0) = 0 :> 'M[F]_k by apply/matrixP => i j; rewrite !mxE.
by [].
Qed.

Lemma hp_rhs_eq : hp_rhs O n data lc cc = rhsb obsf y0 cn.
Proof. by rewrite /hp_rhs /rhsb hp_y0_obs. Qed.

Section WithSolve.
Variable solve : forall m, 'M[F]_m -> 'cV[F]_m -> 'cV[F]_m.
(* contract of numpy.linalg.solve on the call the model makes *)
Hypothesis solve_ok :
  hp_M O n lam data lc cc *m solve (hp_M O n lam data lc cc) (hp_rhs O n data lc cc) = hp_rhs O n data lc cc.
Notation tv := (hp_trend_vec O solve n lam data lc cc).

(* Theorem: the returned trend meets the constraints exactly and minimises the objective
   among all trends that meet them; the difference of objectives is the quadratic form *)
Theorem hp_optimal :
  0 <= lam ->
  Cn *m tv = cn /\
  forall t' : 'cV[F]_n, Cn *m t' = cn ->
    hp_J t' - hp_J tv = hp_Q (t' - tv) /\ 0 <= hp_Q (t' - tv) /\ hp_J tv <= hp_J t'.
Proof.
move=> Hl; rewrite /hp_trend_vec; move: solve_ok; rewrite hp_M_eq hp_rhs_eq => Hs.
have [H1 H2] := hp_optimal_abs Hl Hs; split; first exact: H1.
by move=> t' Ht'; rewrite !hp_J_abs hp_Q_abs; exact: H2.
Qed.

(* Theorem: with an invertible bordered matrix the returned trend is the unique minimiser *)
Theorem hp_unique :
  0 < lam -> hp_M O n lam data lc cc \in unitmx ->
  forall t' : 'cV[F]_n, Cn *m t' = cn -> hp_J t' <= hp_J tv -> t' = tv.
Proof.
move=> Hl; rewrite /hp_trend_vec; move: solve_ok; rewrite hp_M_eq hp_rhs_eq => Hs Hu t' Ht'.
by rewrite !hp_J_abs; exact: (hp_unique_abs Hl Hu Hs).
Qed.

(* trend + gap = data on observed rows; the gap is missing exactly where the data are *)
Theorem hp_trend_plus_gap (i : nat) :
  match hp_gap O solve n lam data lc cc i with
  | Some g => List.nth i data None = Some (hp_trend O solve n lam data lc cc i + g)
  | None => List.nth i data None = None
  end.
Proof.
rewrite /hp_gap /obs_at /val_at; case: (List.nth i data None) => [v|] //=.
by congr Some; ring.
Qed.

End WithSolve.

(* ---- second differences: kernel = affine sequences ---- *)
Lemma second_diff_affine (d : 'cV[F]_n) :
  Kn *m d = 0 ->
  forall i, (i < n)%N -> vget d i = vget d 0 + i%:R * (vget d 1 - vget d 0).
Proof.
move=> Kd; elim/ltn_ind => [[|[|i]]] IH Hi.
- by rewrite mul0r addr0.
- by rewrite mul1r; ring.
- have Hj : (i < n - hp_rows_less)%N by rewrite /hp_rows_less; lia.
  have := hp_K_row d (Ordinal Hj); rewrite Kd mxE /=.
  rewrite (IH i) ?(IH i.+1) //; try lia.
  move=> /eqP; rewrite eq_sym addrC addr_eq0 => /eqP ->.
  rewrite -[i.+2]addn2 -[i.+1]addn1 !natrD; ring.
Qed.

Lemma affine_second_diff (a b : F) (t : 'cV[F]_n) :
  (forall i, (i < n)%N -> vget t i = a + b * i%:R) -> Kn *m t = 0.
Proof.
move=> Ht; apply/colP => j; rewrite hp_K_row mxE.
have Hj : (j + 2 < n)%N by have := ltn_ord j; rewrite /hp_rows_less; lia.
have H0 : (j < n)%N by lia.
have H1 : (j.+1 < n)%N by lia.
have H2 : (j.+2 < n)%N by lia.
rewrite (Ht _ H0) (Ht _ H1) (Ht _ H2).
have -> : (j.+1)%:R = (j%:R + 1 : F) by rewrite -addn1 natrD.
have -> : (j.+2)%:R = (j%:R + 2%:R : F) by rewrite -addn2 natrD.
move: (j%:R : F) => x; ring.
Qed.

(* two observations pin an affine sequence down *)
Lemma kernel_trivial (d : 'cV[F]_n) (i1 i2 : nat) :
  (i1 < i2 < n)%N -> obs_at O data i1 -> obs_at O data i2 ->
  @Eobs F n obsf *m d = 0 -> Kn *m d = 0 -> d = 0.
Proof.
move=> /andP[H12 H2n] O1 O2 Ed Kd.
have H1n : (i1 < n)%N by lia.
have Z1 : vget d i1 = 0.
  have := congr1 (fun A : 'cV[F]_n => A (Ordinal H1n) 0) Ed.
  by rewrite EobsE /= O1 mul1r mxE -(vgetE d (Ordinal H1n)).
have Z2 : vget d i2 = 0.
  have := congr1 (fun A : 'cV[F]_n => A (Ordinal H2n) 0) Ed.
  by rewrite EobsE /= O2 mul1r mxE -(vgetE d (Ordinal H2n)).
have A := second_diff_affine Kd.
move: (A i1 H1n) (A i2 H2n); rewrite Z1 Z2.
set a := vget d 0; set b := vget d 1 - vget d 0 => E1 E2.
have Hb : b = 0.
  have Hx : (i2%:R - i1%:R) * b = 0.
    have -> : (i2%:R - i1%:R) * b = (a + i2%:R * b) - (a + i1%:R * b).
      by move: (i1%:R : F) (i2%:R : F) => x1 x2; ring.
    by rewrite -E1 -E2 subrr.
  move/eqP: Hx; rewrite mulf_eq0 subr_eq0 eqr_nat => /orP[|/eqP //].
  by rewrite eqn_leq leqNgt H12.
have Ha : a = 0 by move: E1; rewrite Hb mulr0 addr0.
apply/colP => i; rewrite mxE -vgetE (A i (ltn_ord i)) -/a -/b Ha Hb; ring.
Qed.

(* Theorem: lam > 0, two observations, independent constraint rows => the bordered matrix is invertible *)
Theorem hp_wellposed (i1 i2 : nat) :
  0 < lam -> (i1 < i2 < n)%N -> obs_at O data i1 -> obs_at O data i2 ->
  (forall mu : 'cV[F]_k, Cn^T *m mu = 0 -> mu = 0) ->
  hp_M O n lam data lc cc \in unitmx.
Proof.
move=> Hl Hi O1 O2 Hrank; rewrite hp_M_eq; apply: hp_wellposed_abs => // d Ed Kd _.
exact: (kernel_trivial Hi O1 O2 Ed Kd).
Qed.

(* Theorem: observed data on a straight line (with or without gaps), constraints consistent with the
   line: the line itself is returned, also on the missing periods *)
Theorem hp_line_invariant (solve : forall m, 'M[F]_m -> 'cV[F]_m -> 'cV[F]_m) (a b : F) :
  let line := (\col_(i < n) (a + b * i%:R)) : 'cV[F]_n in
  (forall i, (i < n)%N -> obs_at O data i -> val_at O data i = a + b * i%:R) ->
  Cn *m line = cn ->
  hp_M O n lam data lc cc \in unitmx ->
  hp_M O n lam data lc cc *m solve _ (hp_M O n lam data lc cc) (hp_rhs O n data lc cc) = hp_rhs O n data lc cc ->
  hp_trend_vec O solve n lam data lc cc = line.
Proof.
move=> line Hdata Hc Hu Hs.
have Kl : Kn *m line = 0.
  by apply: (@affine_second_diff a b) => i Hi; rewrite (vgetE line (Ordinal Hi)) mxE.
have El : @Eobs F n obsf *m line = @Eobs F n obsf *m y0.
  apply/colP => i; rewrite !EobsE /hp_y0 !mxE.
  case Ho: (obs_at O data i); last by rewrite !mul0r.
  by rewrite (Hdata i (ltn_ord i) Ho).
have Hline : hp_M O n lam data lc cc *m col_mx line 0 = hp_rhs O n data lc cc.
  rewrite hp_M_eq hp_rhs_eq /Mbord /rhsb mul_block_col !mulmx0 !addr0 Hc mulmxDl El.
  by rewrite /Fmat -scalemxAl -mulmxA Kl mulmx0 scaler0 add0r.
rewrite /hp_trend_vec /=.
have -> : solve _ (hp_M O n lam data lc cc) (hp_rhs O n data lc cc) = col_mx line 0.
  by rewrite -[LHS](mulKmx Hu) Hs -Hline mulKmx.
by rewrite col_mxKu.
Qed.

End Fixed.
End Model.

(* ================================================================== *)
(* Part D: constraints in readable form; the Series-level statements    *)
(* ================================================================== *)
Section Readable.
Variable F : realFieldType.
Notation O := (MCOps F).

Lemma hp_level_rowE (k p : nat) :
  stencil_coef hp_level_row (Z.sub (Z.of_nat k) (Z.of_nat p)) = if k == p then Zpos 1 else Z0.
Proof. by rewrite /hp_level_row /=; do !case: Z.eqb_spec => ?; do !case: eqP => ?; lia. Qed.

Lemma hp_change_rowE (k p : nat) :
  stencil_coef hp_change_row (Z.sub (Z.of_nat k) (Z.of_nat p)) =
  if k.+1 == p then Zneg 1 else if k == p then Zpos 1 else Z0.
Proof. by rewrite /hp_change_row /=; do !case: Z.eqb_spec => ?; do !case: eqP => ?; lia. Qed.

Lemma level_row n (lc : list (nat * F)) (t : 'cV[F]_n) (i : 'I_(length lc)) :
  (cpos O lc i < n)%N -> (crows O hp_level_row n lc *m t) i 0 = vget t (cpos O lc i).
Proof.
move=> Hp; rewrite mxE.
transitivity (\sum_(0 <= k < n) zF F (stencil_coef hp_level_row (Z.sub (Z.of_nat k) (Z.of_nat (cpos O lc i)))) * vget t k).
  by rewrite big_mkord; apply: eq_bigr => k _; rewrite /crows !mxE vgetE.
rewrite (@sum_support _ _ n [:: cpos O lc i]).
- by rewrite big_cons big_nil hp_level_rowE eqxx zF_1 mul1r addr0.
- by [].
- by rewrite /= Hp.
- by move=> k; rewrite inE => H; rewrite hp_level_rowE (negbTE H) zF_0 mul0r.
Qed.

Lemma change_row n (cc : list (nat * F)) (t : 'cV[F]_n) (i : 'I_(length cc)) :
  (0 < cpos O cc i < n)%N ->
  (crows O hp_change_row n cc *m t) i 0 = vget t (cpos O cc i) - vget t (cpos O cc i).-1.
Proof.
move=> /andP[Hp0 Hp]; rewrite mxE.
set q := cpos O cc i in Hp0 Hp *.
transitivity (\sum_(0 <= k < n) zF F (stencil_coef hp_change_row (Z.sub (Z.of_nat k) (Z.of_nat q))) * vget t k).
  by rewrite big_mkord; apply: eq_bigr => k _; rewrite /crows !mxE vgetE.
rewrite (@sum_support _ _ n [:: q.-1; q]).
- rewrite !big_cons big_nil !hp_change_rowE prednK // !eqxx.
  have -> : (q.+1 == q) = false by lia.
  by rewrite zF_1 zF_m1; ring.
- by rewrite /= !inE; lia.
- by rewrite /=; lia.
- move=> k; rewrite !inE negb_or => /andP[H1 H2].
  rewrite hp_change_rowE (negbTE H2).
  have -> : (k.+1 == q) = false by lia.
  by rewrite zF_0 mul0r.
Qed.

(* Theorem: C t = c says: the trend equals every level constraint at its period, and the change of
   the trend into the period of every change constraint equals its value *)
Theorem hp_constraints_met n (lc cc : list (nat * F)) (t : 'cV[F]_n) :
  hp_C O n lc cc *m t = hp_c O lc cc ->
  (forall i, (i < length lc)%N -> (cpos O lc i < n)%N -> vget t (cpos O lc i) = cval O lc i) /\
  (forall i, (i < length cc)%N -> (0 < cpos O cc i < n)%N ->
             vget t (cpos O cc i) - vget t (cpos O cc i).-1 = cval O cc i).
Proof.
rewrite /hp_C /hp_c /= mul_col_mx => /eq_col_mx [HL HC]; split=> i Hi Hp.
- have := congr1 (fun A : 'cV[F]_(length lc) => A (Ordinal Hi) 0) HL.
  by rewrite (level_row t (i := Ordinal Hi)) // /cvec mxE.
- have := congr1 (fun A : 'cV[F]_(length cc) => A (Ordinal Hi) 0) HC.
  by rewrite (change_row t (i := Ordinal Hi)) // /cvec mxE.
Qed.

(* ---- Series level ---- *)
Variable solve : forall m, 'M[F]_m -> 'cV[F]_m -> 'cV[F]_m.
Variables lg ex : F -> F.

(* Theorem: log=False: wherever the returned gap has a value, the data have one and trend + gap = data *)
Theorem hpf_trend_plus_gap (a : hp_args O) (v : list (option F)) (t : Z) (g : F) :
  a_log O a = false -> hpf_gap_at O solve lg ex a v t = Some g ->
  exists y tr, at_period O (a_start O a) v t = Some y /\ hpf_trend_at O solve lg ex a v t = Some tr /\
               tr + g = y.
Proof.
move=> Hl Hg; have [y [tr [H1 [H2 H3]]]] := hpf_gap_value O solve lg ex a v t g Hl Hg.
by exists y, tr; split=> //; split=> //; rewrite H3 /= addrC subrK.
Qed.

(* Theorem: log=True: the trend is exp of the filter run on the logarithms (of data and constraint values),
   the gap is exp(log data - log-trend); with exp/log behaving as such, trend * gap = data *)
Theorem hpf_log_mode (a : hp_args O) (v : list (option F)) (t : Z) (g : F) :
  (forall x z, ex (x - z) = ex x / ex z) -> (forall x, ex x != 0) -> (forall x, 0 < x -> ex (lg x) = x) ->
  a_log O a = true -> hpf_gap_at O solve lg ex a v t = Some g ->
  exists y ltr, at_period O (a_start O a) v t = Some y /\
                hpf_trend_at O solve lg ex a v t = Some (ex ltr) /\
                ltr = hp_trend O solve (enc_len O a) (smooth_of O a) (log_data O lg (enc_data O a v))
                               (log_cs O lg (prepare O a (a_level O a)))
                               (log_cs O lg (drop_first_date O (prepare O a (a_change O a))))
                               (Z.to_nat (Z.sub t (enc_start O a))) /\
                (0 < y -> ex ltr * g = y).
Proof.
move=> Hsub Hnz Hel Hl Hg.
have [y [ltr [H1 [H2 [H3 H4]]]]] := hpf_gap_value_log O solve lg ex a v t g Hl Hg.
exists y, ltr; split=> //; split=> //; split=> // Hy.
by rewrite H4 /= Hsub (Hel _ Hy) mulrCA mulfV ?mulr1.
Qed.

End Readable.

(* ---- non-vacuity: the contract of the solve oracle is satisfiable whenever the system is well posed ---- *)
Section NonVacuity.
Variable F : realFieldType.
Notation O := (MCOps F).

Theorem hp_contract_satisfiable n (lam : F) (data : list (option F)) (lc cc : list (nat * F)) :
  hp_M O n lam data lc cc \in unitmx ->
  let solve := fun m (A : 'M[F]_m) (b : 'cV[F]_m) => invmx A *m b in
  hp_M O n lam data lc cc *m solve _ (hp_M O n lam data lc cc) (hp_rhs O n data lc cc) = hp_rhs O n data lc cc.
Proof. by move=> Hu /=; rewrite mulKVmx. Qed.

(* without constraints: lam > 0 and two observations are enough *)
Theorem hp_unconstrained_wellposed n (lam : F) (data : list (option F)) (i1 i2 : nat) :
  0 < lam -> (i1 < i2 < n)%N -> obs_at O data i1 -> obs_at O data i2 ->
  hp_M O n lam data [::] [::] \in unitmx.
Proof.
move=> Hl Hi O1 O2; apply: (hp_wellposed Hl Hi O1 O2) => mu _.
by apply/matrixP => i; case: i => i Hi0; exfalso; move: Hi0; rewrite /= ltn0.
Qed.

End NonVacuity.

(* ================================================================== *)
(* Part E: a filter span that reaches beyond the data (on the right)    *)
(* ================================================================== *)
Section Extend.
Variable F : realFieldType.
Notation O := (MCOps F).

Lemma vget_usub n (t : 'cV[F]_(n + 1)) (i : nat) : (i < n)%N -> vget (usubmx t) i = vget t i.
Proof.
move=> Hi; have Hi1 : (i < n + 1)%N by lia.
rewrite (vgetE (usubmx t) (Ordinal Hi)) (vgetE t (Ordinal Hi1)) mxE.
by congr (t _ _); apply: val_inj.
Qed.

Lemma vget_col_last n (t : 'cV[F]_n) (z : F) : vget (col_mx t (z%:M : 'cV[F]_1)) n = z.
Proof.
have Hn : (n < n + 1)%N by lia.
rewrite (vgetE _ (Ordinal Hn)).
have -> : Ordinal Hn = rshift n (ord0 : 'I_1) by apply: val_inj; rewrite /= addn0.
by rewrite col_mxEd mxE eqxx mulr1n.
Qed.

Section Fixed.
Variables (n : nat) (lam : F) (data : list (option F)) (lc cc : list (nat * F)).
Hypothesis n2 : (2 <= n)%N.
Hypothesis data_len : obs_at O data n = false.
Hypothesis lc_pos : forall i, (i < length lc)%N -> (cpos O lc i < n)%N.
Hypothesis cc_pos : forall i, (i < length cc)%N -> (cpos O cc i < n)%N.

(* the objective on n+1 periods = the objective on the first n periods + lam * (last second difference)^2 *)
Lemma hp_J_split (t : 'cV[F]_(n + 1)) :
  hp_J lam data t = hp_J lam data (usubmx t)
                    + lam * (vget t n.-2 - 2%:R * vget t n.-1 + vget t n) ^+ 2.
Proof.
rewrite /hp_J.
have -> : (n + 1 - 2 = (n - 2).+1)%N by lia.
have E : forall f : nat -> F, \sum_(0 <= i < n + 1) f i = \sum_(0 <= i < n) f i + f n.
  by move=> f; rewrite addn1 big_nat_recr.
rewrite big_mkcond [in RHS]big_mkcond /= E big_nat_recr //= data_len addr0.
have -> : (n - 2).+2 = n by lia.
have -> : (n - 2).+1 = n.-1 by lia.
have -> : (n - 2)%N = n.-2 by lia.
rewrite mulrDr addrA; congr (_ + lam * _ + _).
- by apply: eq_big_nat => i /andP[_ Hi]; rewrite vget_usub.
- by apply: eq_big_nat => j /andP[_ Hj]; rewrite !vget_usub //; lia.
Qed.

Lemma crows_extend (st : list (Z * Z)) (cs : list (nat * F)) (t : 'cV[F]_(n + 1)) :
  (forall i k, (i < length cs)%N -> (n <= k)%N ->
               stencil_coef st (Z.sub (Z.of_nat k) (Z.of_nat (cpos O cs i))) = Z0) ->
  crows O st (n + 1) cs *m t = crows O st n cs *m usubmx t.
Proof.
move=> H0; apply/matrixP => i j; rewrite !mxE big_split_ord /= [X in _ + X]big1 ?addr0.
- by apply: eq_bigr => k _; rewrite !mxE.
- by move=> k _; rewrite !mxE /= H0 ?mul0r // leq_addr.
Qed.

Lemma hp_C_extend (t : 'cV[F]_(n + 1)) : hp_C O (n + 1) lc cc *m t = hp_C O n lc cc *m usubmx t.
Proof.
rewrite /hp_C !mul_col_mx !crows_extend //.
- move=> i k Hi Hk; rewrite hp_change_rowE.
  have Hp := cc_pos Hi.
  have -> : (k.+1 == cpos O cc i) = false by lia.
  by have -> : (k == cpos O cc i) = false by lia.
- move=> i k Hi Hk; rewrite hp_level_rowE.
  have Hp := lc_pos Hi.
  by have -> : (k == cpos O lc i) = false by lia.
Qed.

(* linear extrapolation by one period *)
Definition extend1 (t : 'cV[F]_n) : 'cV[F]_(n + 1) :=
  col_mx t ((2%:R * vget t n.-1 - vget t n.-2)%:M : 'cV[F]_1).

Lemma vget_extend1 (t : 'cV[F]_n) i : (i < n)%N -> vget (extend1 t) i = vget t i.
Proof. by move=> Hi; rewrite -(@vget_usub n (extend1 t) i Hi) /extend1 col_mxKu. Qed.

Lemma hp_J_extend1 (t : 'cV[F]_n) : hp_J lam data (extend1 t) = hp_J lam data t.
Proof.
rewrite hp_J_split /extend1 col_mxKu vget_col_last -/(extend1 t) !vget_extend1; try lia.
have -> : vget t n.-2 - 2%:R * vget t n.-1 + (2%:R * vget t n.-1 - vget t n.-2) = 0 by ring.
by rewrite expr0n /= mulr0 addr0.
Qed.

(* Theorem: appending an unobserved, unconstrained period at the end of the filter span leaves the trend on the
   original periods unchanged and continues it by linear extrapolation *)
Theorem hp_extend_right (solve : forall m, 'M[F]_m -> 'cV[F]_m -> 'cV[F]_m) :
  0 < lam ->
  hp_M O n lam data lc cc *m solve _ (hp_M O n lam data lc cc) (hp_rhs O n data lc cc) = hp_rhs O n data lc cc ->
  hp_M O (n + 1) lam data lc cc *m solve _ (hp_M O (n + 1) lam data lc cc) (hp_rhs O (n + 1) data lc cc)
    = hp_rhs O (n + 1) data lc cc ->
  hp_M O (n + 1) lam data lc cc \in unitmx ->
  hp_trend_vec O solve (n + 1) lam data lc cc = extend1 (hp_trend_vec O solve n lam data lc cc).
Proof.
move=> Hl Hs Hs1 Hu.
set t := hp_trend_vec O solve n lam data lc cc.
set t1 := hp_trend_vec O solve (n + 1) lam data lc cc.
have [Ct Hopt] := hp_optimal Hs (ltW Hl).
have [Ct1 _] := hp_optimal Hs1 (ltW Hl).
symmetry; apply: (hp_unique Hs1 Hl Hu).
- by rewrite hp_C_extend /extend1 col_mxKu.
- rewrite hp_J_extend1.
  have Cu : hp_C O n lc cc *m usubmx t1 = hp_c O lc cc by rewrite -hp_C_extend.
  have [_ [_ Hle]] := Hopt _ Cu.
  apply: (le_trans Hle); rewrite (hp_J_split t1) ler_addl.
  by apply: mulr_ge0; [exact: ltW | exact: sqr_ge0].
Qed.

End Fixed.
End Extend.
