(* C19, round 4: merge of ANY list of databoxes in one call (databoxes/_merge.py: the loop
   `for t in other: for key, value in t.items(): if key in self: strategy(...) else: self[key] = value`,
   whose membership test is against the CURRENT keys), and independence of registers over histories
   (a copy is a databox of its own: later operations on other databoxes never change it). *)
From Coq Require Import String Ascii ZArith List Bool Lia.
From Verif Require Import lib.Arith model.Series model.SeriesOps model.Databox proofs.DataboxProofs.
Import ListNotations.
Open Scope Z_scope.

Section Merge4.
Variable A : Arith.
Notation databox := (databox A).
Notation item := (item A).

(* merging one databox, carrying the "duplicate reported" flag *)
Definition merge_one (st : strategy) (acc : res (databox * bool)) (o : databox) : res (databox * bool) :=
  fold_left (merge_step A st) o acc.

(* one call with several databoxes = the databoxes merged one after the other, each against the keys present
   at that moment *)
Lemma merge_concat st others : forall acc,
  fold_left (merge_step A st) (List.concat others) acc = fold_left (merge_one st) others acc.
Proof.
  induction others as [|o r IH]; intros acc; cbn [List.concat fold_left]; [reflexivity|].
  rewrite fold_left_app. apply IH.
Qed.

Lemma merge_one_err st others e : fold_left (merge_one st) others (Err e) = Err e.
Proof. induction others as [|o r IH]; cbn [fold_left]; [reflexivity|]. unfold merge_one at 2. now rewrite fold_merge_err. Qed.

(* db --o1--> d1 --o2--> ... --on--> db' : every link is a single-databox merge in the sense of [merged] *)
Inductive merge_chain (st : strategy) : databox -> list databox -> databox -> Prop :=
  | mc_nil db : merge_chain st db [] db
  | mc_cons db o os d1 db' : ND A d1 -> (forall k, merged A st db o k (dget A d1 k)) ->
                             merge_chain st d1 os db' -> merge_chain st db (o :: os) db'.

Lemma merge_many_fold st others : forall db dup db' dup', ND A db -> Forall (ND A) others ->
  fold_left (merge_one st) others (Ok (db, dup)) = Ok (db', dup') -> ND A db' /\ merge_chain st db others db'.
Proof.
  induction others as [|o r IH]; intros db dup db' dup' Hnd Hall H; cbn [fold_left] in H.
  - inversion H; subst. split; [assumption|constructor].
  - inversion Hall as [|? ? Ho Hr]; subst. unfold merge_one at 2 in H.
    destruct (fold_left (merge_step A st) o (Ok (db, dup))) as [[d1 dup1]|e] eqn:E.
    + pose proof (merge_fold_ND A st o db dup d1 dup1 Hnd E) as Hnd1.
      destruct (IH d1 dup1 db' dup' Hnd1 Hr H) as [Hnd' Hch]. split; [assumption|].
      econstructor; [exact Hnd1| |exact Hch]. intros k. exact (merge_fold_spec A st o db dup d1 dup1 Ho E k).
    + rewrite merge_one_err in H. discriminate.
Qed.

Lemma d_merge_inv (db : databox) others st db' : d_merge A db others st = Ok db' ->
  exists dup, fold_left (merge_step A st) (List.concat others) (Ok (db, false)) = Ok (db', dup).
Proof.
  unfold d_merge. destruct (fold_left (merge_step A st) (List.concat others) (Ok (db, false))) as [[d dup]|e]; [|discriminate].
  intros H. exists dup. f_equal.
  destruct st; try (inversion H; reflexivity). destruct raises; [destruct dup; [discriminate|]|]; now inversion H.
Qed.

(* merge of any list of databoxes: a chain of single-databox merges *)
Theorem merge_many_spec (db : databox) others db' st : ND A db -> Forall (ND A) others ->
  d_merge A db others st = Ok db' -> ND A db' /\ merge_chain st db others db'.
Proof.
  intros Hnd Hall H. apply d_merge_inv in H as [dup H]. rewrite merge_concat in H.
  eapply merge_many_fold; eauto.
Qed.

(* ... hence the item under every key is the strategy folded over ALL occurrences of the key, in the order of
   the databoxes, starting from the target's own item -- also for a key that is new to the target and occurs in
   two of the merged databoxes *)
Fixpoint merge_key (st : strategy) (cur : option item) (vs : list item) : res (option item) :=
  match vs with
  | [] => Ok cur
  | v :: r => match cur with
              | None => merge_key st (Some v) r
              | Some c => match merge_val A st c v with Ok it => merge_key st (Some it) r | Err e => Err e end
              end
  end.

Definition occurrences (others : list databox) (k : string) : list item :=
  flat_map (fun o => match dget A o k with Some v => [v] | None => [] end) others.

Lemma merge_chain_key st db others db' : merge_chain st db others db' ->
  forall k, merge_key st (dget A db k) (occurrences others k) = Ok (dget A db' k).
Proof.
  induction 1 as [db|db o os d1 db' Hnd Hm Hch IH]; intros k; [reflexivity|].
  unfold occurrences. cbn [flat_map]. fold (occurrences os k).
  specialize (Hm k). specialize (IH k). unfold merged in Hm.
  destruct (dget A o k) as [v|]; cbn [app].
  - destruct (dget A db k) as [cur|]; cbn [merge_key].
    + destruct Hm as (it & Em & Ed). rewrite Em. rewrite Ed in IH. exact IH.
    + rewrite Hm in IH. exact IH.
  - rewrite Hm in IH. exact IH.
Qed.

Theorem merge_many_key (db : databox) others db' st : ND A db -> Forall (ND A) others ->
  d_merge A db others st = Ok db' ->
  forall k, merge_key st (dget A db k) (occurrences others k) = Ok (dget A db' k).
Proof. intros Hnd Hall H. apply merge_chain_key. eapply merge_many_spec; eauto. Qed.

(* the instance the stale-snapshot defect breaks: a name that is new to the target and occurs in two merged databoxes *)
Corollary merge_two_new_key (db b c db' : databox) st k v1 v2 : ND A db -> ND A b -> ND A c ->
  d_merge A db [b; c] st = Ok db' -> dget A db k = None -> dget A b k = Some v1 -> dget A c k = Some v2 ->
  exists it, merge_val A st v1 v2 = Ok it /\ dget A db' k = Some it.
Proof.
  intros Hd Hb Hc H E0 E1 E2.
  pose proof (merge_many_key db [b; c] db' st Hd (Forall_cons _ Hb (Forall_cons _ Hc (Forall_nil _))) H k) as Hk.
  unfold occurrences in Hk. cbn [flat_map app] in Hk. rewrite E0, E1, E2 in Hk. cbn [app merge_key] in Hk.
  destruct (merge_val A st v1 v2) as [it|e]; [|discriminate]. exists it. split; [reflexivity|]. now inversion Hk.
Qed.

(* ---- registers: a databox that is not the destination of any operation of a history keeps its items, whatever
   is done to the others (a copy and its source are different registers) ---- *)
Theorem drun_other_register (ops : list dop) : forall (rs : dregs A) r,
  (forall o, In o ops -> op_dst o <> r) -> getd A (fst (drun A rs ops)) r = getd A rs r.
Proof.
  induction ops as [|o tl IH]; intros rs r Hr; cbn [drun]; [reflexivity|].
  destruct (dexec A rs o) as [d|e]; [|reflexivity].
  specialize (IH (setd A rs (op_dst o) d) r).
  destruct (drun A (setd A rs (op_dst o) d) tl) as [rs2 outs]. cbn [fst] in *.
  rewrite IH by (intros o' Ho'; apply Hr; now right).
  apply getd_setd_other. apply Hr. now left.
Qed.

End Merge4.

(* non-vacuity: three databoxes, key "k" new to the target and present in the 2nd and 3rd *)
From Verif Require Import lib.ArithOptZ.
Module Merge4Examples.
Definition es (z : Z) : elem OZArith := @EScal OZArith (Some z).
Definition sc (z : Z) : item OZArith := INon (es z).
Example stack_collects_all :
  d_merge OZArith [("a"%string, sc 1)] [[("k"%string, sc 2)]; [("k"%string, sc 3); ("a"%string, sc 4)]; [("k"%string, sc 5)]] MStack
  = Ok [("a"%string, IList [es 1; es 4]); ("k"%string, IList [es 2; es 3; es 5])].
Proof. vm_compute. reflexivity. Qed.
Example discard_keeps_first :
  d_merge OZArith [] [[("k"%string, sc 2)]; [("k"%string, sc 3)]] MDiscard = Ok [("k"%string, sc 2)].
Proof. vm_compute. reflexivity. Qed.
Example error_on_duplicate_among_others :
  d_merge OZArith [] [[("k"%string, sc 2)]; [("k"%string, sc 3)]] (MReport true) = Err 2%nat.
Proof. vm_compute. reflexivity. Qed.
End Merge4Examples.
