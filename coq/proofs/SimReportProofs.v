(* Proofs about model/SimReport.v:
   (a) simulate() reports success iff every frame of every variant reports success (any number of variants and
       frames), for every program shape with the report inside the frame loop and every reporting stream kind;
       instantiated to the generated shapes of the current source;
   (b) the rows of the dataslate for parameters / shocks / stds as decided by the three *_from_data flags. *)
From Coq Require Import List Bool Arith Lia.
From Verif Require Import lib.SimProg gen.SimReportGen model.SimReport.
Import ListNotations.

(* ================================================================== (a) *)

Lemma fstmt_eqb_eq : forall a b, fstmt_eqb a b = true -> a = b.
Proof. destruct a, b; simpl; intros; congruence. Qed.

Lemma list_fstmt_eqb_eq : forall a b, list_fstmt_eqb a b = true -> a = b.
Proof.
  induction a as [|x r IH]; destruct b as [|y t]; simpl; intros H; try congruence.
  apply andb_prop in H. destruct H as [H1 H2].
  apply fstmt_eqb_eq in H1. apply IH in H2. congruence.
Qed.

Section ReportProofs.
Variable add_of : wf_kind -> add_beh.
Variable fin_of : wf_kind -> fin_beh.
Variable k : wf_kind.
Variable status : nat -> nat -> bool.

Notation step := (step add_of k status).
Notation run_stmts := (run_stmts add_of k status).
Notation run_frames := (run_frames add_of k status).
Notation run_variant := (run_variant add_of k status).
Notation run_variants := (run_variants add_of k status).

Lemma run_stmts_strip : forall v f l s, run_stmts v f l s = run_stmts v f (strip l) s.
Proof.
  intros v f l. induction l as [|x r IH]; intros s; [reflexivity|].
  destruct x.
  - change (strip (FSimulate :: r)) with (FSimulate :: strip r). cbn [SimReport.run_stmts].
    destruct (SimReport.step add_of k status v f s FSimulate); auto.
  - change (strip (FReport :: r)) with (FReport :: strip r). cbn [SimReport.run_stmts].
    destruct (SimReport.step add_of k status v f s FReport); auto.
  - change (strip (FRecord :: r)) with (FRecord :: strip r). cbn [SimReport.run_stmts].
    destruct (SimReport.step add_of k status v f s FRecord); auto.
  - change (strip (FOther :: r)) with (strip r). cbn [SimReport.run_stmts SimReport.step]. apply IH.
Qed.

Lemma frames_dec : forall v l,
  (forall f, In f l -> status v f = true) \/ (exists f, In f l /\ status v f = false).
Proof.
  intros v l. induction l as [|f r IH].
  - left. intros f [].
  - destruct (status v f) eqn:E.
    + destruct IH as [IH|[g [Hg Hs]]].
      * left. intros g [Hg|Hg]; [subst; exact E | auto].
      * right. exists g. split; [right; exact Hg | exact Hs].
    + right. exists f. split; [left; reflexivity | exact E].
Qed.

Definition classic_frames (v nf : nat) := frames_dec v (seq 0 nf).

(* what one iteration of a well-shaped frame-loop body does *)
Definition body_spec (v f : nat) (s : rstate) : rres :=
  if status v f then Go (mkRs (Some (v, f, true)) (s_msgs s))
  else match add_of k with
       | AddRaise => Raised (mkRs (Some (v, f, false)) (s_msgs s ++ [(v, f)]))
       | AddAppend => Go (mkRs (Some (v, f, false)) (s_msgs s ++ [(v, f)]))
       | AddIgnore => Go (mkRs (Some (v, f, false)) (s_msgs s))
       end.

Lemma body_spec_ok : forall body v f s,
  (list_fstmt_eqb (strip body) [FSimulate; FReport; FRecord] || list_fstmt_eqb (strip body) [FSimulate; FReport]) = true ->
  run_stmts v f body s = body_spec v f s.
Proof.
  intros body v f s H. rewrite run_stmts_strip. unfold body_spec.
  apply orb_prop in H. destruct H as [H|H]; apply list_fstmt_eqb_eq in H; rewrite H; simpl;
    destruct (status v f); simpl; try reflexivity; destruct (add_of k); reflexivity.
Qed.

(* "a failure has been filed and will be reported at the end" *)
Definition filed (s : rstate) : Prop := s_msgs s <> [] /\ add_of k = AddAppend.
Definition flagged (r : rres) : Prop :=
  match r with Go s => filed s | Raised _ => True | Unbound => False end.
Definition clean_from (s : rstate) (r : rres) : Prop :=
  match r with Go s' => s_msgs s' = s_msgs s | _ => False end.

Section Body.
Variable body : list fstmt.
Hypothesis Hbody : forall v f s, run_stmts v f body s = body_spec v f s.

Lemma frames_clean : forall v fs s,
  (forall f, In f fs -> status v f = true) -> clean_from s (run_frames body v fs s).
Proof.
  intros v fs. induction fs as [|f r IH]; intros s H; simpl; [reflexivity|].
  rewrite Hbody. unfold body_spec. rewrite (H f (or_introl eq_refl)).
  specialize (IH (mkRs (Some (v, f, true)) (s_msgs s)) (fun g Hg => H g (or_intror Hg))).
  unfold clean_from in *. destruct (SimReport.run_frames add_of k status body v r _); auto.
Qed.

Lemma frames_flag : forall v fs s, add_of k <> AddIgnore ->
  (filed s \/ exists f, In f fs /\ status v f = false) -> flagged (run_frames body v fs s).
Proof.
  intros v fs. induction fs as [|f r IH]; intros s Hk H; simpl.
  - destruct H as [H|[f [[] _]]]. exact H.
  - rewrite Hbody. unfold body_spec. destruct (status v f) eqn:E.
    + apply IH; auto. destruct H as [H|[g [[Hg|Hg] Hs]]].
      * left. exact H.
      * subst g. congruence.
      * right. exists g. auto.
    + destruct (add_of k) eqn:Ea; simpl; auto.
      * apply IH; [congruence|]. left. split; simpl; [|exact Ea].
        intros C. apply app_eq_nil in C. destruct C; discriminate.
      * congruence.
Qed.
End Body.

Section Prog.
Variable p : sim_prog.
Hypothesis Hp : report_in_frame_loop p = true.

Lemma prog_body : forall v f s, run_stmts v f (p_frame_body p) s = body_spec v f s.
Proof.
  intros. apply body_spec_ok. unfold report_in_frame_loop in Hp.
  apply andb_prop in Hp. destruct Hp as [H _]. apply andb_prop in H. tauto.
Qed.

Lemma prog_after : forall v f s, run_stmts v f (p_after_frames p) s = Go s.
Proof.
  intros. rewrite run_stmts_strip. unfold report_in_frame_loop in Hp.
  apply andb_prop in Hp. destruct Hp as [H _]. apply andb_prop in H. destruct H as [_ H].
  apply list_fstmt_eqb_eq in H. rewrite H. reflexivity.
Qed.

Lemma prog_raise : p_final_raise p = true.
Proof. unfold report_in_frame_loop in Hp. apply andb_prop in Hp. tauto. Qed.

Definition vs_all (vs : list (nat * nat)) : Prop :=
  forall v nf f, In (v, nf) vs -> f < nf -> status v f = true.

Lemma variants_clean : forall vs s, vs_all vs -> clean_from s (run_variants p vs s).
Proof.
  induction vs as [|[v nf] r IH]; intros s H; simpl; [reflexivity|].
  unfold SimReport.run_variant.
  assert (C := frames_clean (p_frame_body p) prog_body v (seq 0 nf) s).
  assert (Hf : forall f, In f (seq 0 nf) -> status v f = true).
  { intros f Hf. apply in_seq in Hf. apply (H v nf f); [left; reflexivity | lia]. }
  specialize (C Hf). unfold clean_from in C.
  destruct (SimReport.run_frames add_of k status (p_frame_body p) v (seq 0 nf) s) as [s1| |]; try contradiction.
  rewrite prog_after.
  assert (IH' := IH s1 (fun v' nf' f' Hin Hlt => H v' nf' f' (or_intror Hin) Hlt)).
  unfold clean_from in *. destruct (SimReport.run_variants add_of k status p r s1); auto. congruence.
Qed.

Lemma variants_flag : forall vs s, add_of k <> AddIgnore ->
  (filed s \/ exists v nf f, In (v, nf) vs /\ f < nf /\ status v f = false) -> flagged (run_variants p vs s).
Proof.
  induction vs as [|[v nf] r IH]; intros s Hk H; simpl.
  - destruct H as [H|[v [nf [f [[] _]]]]]. exact H.
  - unfold SimReport.run_variant.
    destruct (classic_frames v nf) as [Hall|[f [Hf Hs]]].
    + (* this variant is clean: the state keeps its messages *)
      assert (C := frames_clean (p_frame_body p) prog_body v (seq 0 nf) s Hall). unfold clean_from in C.
      destruct (SimReport.run_frames add_of k status (p_frame_body p) v (seq 0 nf) s) as [s1| |]; try contradiction.
      rewrite prog_after. apply IH; auto.
      destruct H as [[H1 H2]|[v' [nf' [f' [[Hin|Hin] [Hlt Hs]]]]]].
      * left. split; congruence.
      * inversion Hin; subst. rewrite (Hall f') in Hs; [discriminate|]. apply in_seq. lia.
      * right. exists v', nf', f'. auto.
    + assert (F := frames_flag (p_frame_body p) prog_body v (seq 0 nf) s Hk
                     (or_intror (ex_intro _ f (conj Hf Hs)))).
      destruct (SimReport.run_frames add_of k status (p_frame_body p) v (seq 0 nf) s) as [s1| |]; simpl in F; auto.
      rewrite prog_after. apply IH; auto.
Qed.

Lemma vs_dec : forall vs, vs_all vs \/ (exists v nf f, In (v, nf) vs /\ f < nf /\ status v f = false).
Proof.
  induction vs as [|[v nf] r IH].
  - left. intros v nf f [].
  - destruct (classic_frames v nf) as [Hall|[f [Hf Hs]]].
    + destruct IH as [IH|[v' [nf' [f' [Hin [Hlt Hs]]]]]].
      * left. intros v' nf' f' [Hin|Hin] Hlt.
        -- inversion Hin; subst. apply Hall. apply in_seq. lia.
        -- apply (IH v' nf' f'); auto.
      * right. exists v', nf', f'. split; [right; exact Hin | auto].
    + right. exists v, nf, f. apply in_seq in Hf. split; [left; reflexivity | split; [lia | exact Hs]].
Qed.

Lemma in_combine_seq : forall (l : list nat) start v nf,
  In (v, nf) (combine (seq start (length l)) l) <-> (start <= v < start + length l /\ nth (v - start) l 0 = nf).
Proof.
  induction l as [|x r IH]; intros start v nf; simpl.
  - split; [intros [] | intros [H _]; lia].
  - split.
    + intros [H|H].
      * inversion H; subst. split; [lia|]. replace (v - v) with 0 by lia. reflexivity.
      * apply IH in H. destruct H as [H1 H2]. split; [lia|].
        destruct (v - start) as [|d] eqn:E; [lia|]. replace (v - S start) with d in H2 by lia. exact H2.
    + intros [H1 H2]. destruct (Nat.eq_dec v start) as [E|E].
      * left. subst v. replace (start - start) with 0 in H2 by lia. subst. reflexivity.
      * right. apply IH. split; [lia|].
        destruct (v - start) as [|d] eqn:E2; [lia|]. replace (v - S start) with d by lia. exact H2.
Qed.

Lemma vs_all_iff : forall nfs, vs_all (combine (seq 0 (length nfs)) nfs) <-> all_success status nfs.
Proof.
  intros nfs. unfold vs_all, all_success. split.
  - intros H v f Hv Hf. apply (H v (nth v nfs 0) f); [|exact Hf].
    apply in_combine_seq. split; [lia|]. replace (v - 0) with v by lia. reflexivity.
  - intros H v nf f Hin Hlt. apply in_combine_seq in Hin. destruct Hin as [H1 H2].
    replace (v - 0) with v in H2 by lia. subst nf. apply H; [lia | exact Hlt].
Qed.

(* simulate() reports success iff every frame of every variant is a success *)
Theorem report_iff_all_frames : forall nfs, reporting_kind add_of fin_of k = true ->
  reports_success (simulate_outcome add_of fin_of k status p nfs) = true <-> all_success status nfs.
Proof.
  intros nfs Hk. rewrite <- vs_all_iff. unfold simulate_outcome. rewrite prog_raise.
  set (vs := combine (seq 0 (length nfs)) nfs).
  assert (Hadd : add_of k <> AddIgnore).
  { unfold reporting_kind in Hk. destruct (add_of k); try discriminate; congruence. }
  destruct (vs_dec vs) as [Hall|Hex].
  - assert (C := variants_clean vs (mkRs None []) Hall). unfold clean_from in C.
    destruct (SimReport.run_variants add_of k status p vs (mkRs None [])) as [s1| |]; try contradiction.
    simpl in C. unfold finish. rewrite C. split; [intros _; exact Hall|intros _].
    destruct (fin_of k); reflexivity.
  - assert (F := variants_flag vs (mkRs None []) Hadd (or_intror Hex)).
    split.
    + intros H. exfalso.
      destruct (SimReport.run_variants add_of k status p vs (mkRs None [])) as [s1| |]; simpl in *; try discriminate.
      destruct F as [F1 F2]. unfold reporting_kind in Hk. rewrite F2 in Hk. unfold finish in H.
      destruct (fin_of k); try discriminate; destruct (s_msgs s1); try discriminate; congruence.
    + intros Hall. exfalso. destruct Hex as [v [nf [f [Hin [Hlt Hs]]]]].
      rewrite (Hall v nf f Hin Hlt) in Hs. discriminate.
Qed.

(* when it does not report success under a reporting kind, what the caller sees names a failed frame *)
Theorem report_sound_corollary : forall nfs (within : nat -> nat -> Prop),
  reporting_kind add_of fin_of k = true ->
  (forall v f, status v f = true -> within v f) ->
  reports_success (simulate_outcome add_of fin_of k status p nfs) = true ->
  forall v f, v < length nfs -> f < nth v nfs 0 -> within v f.
Proof.
  intros nfs within Hk Hc H v f Hv Hf. apply Hc. apply (proj1 (report_iff_all_frames nfs Hk) H); assumption.
Qed.

End Prog.
End ReportProofs.

(* ------------------------------------------------------------------ the current source *)

Lemma sim_program_shape : report_in_frame_loop sim_program = true.
Proof. vm_compute. reflexivity. Qed.

Lemma reporting_kinds_of_source : forall k, k <> WSilent -> reporting_kind stream_add stream_fin k = true.
Proof. intros k H. destruct k; try reflexivity. congruence. Qed.

Lemma default_kind_reports : reporting_kind stream_add stream_fin default_when_fails = true.
Proof. vm_compute. reflexivity. Qed.

Theorem simulate_reports_success_iff : forall k status nfs, k <> WSilent ->
  reports_success (simulate_report k status nfs) = true <-> all_success status nfs.
Proof.
  intros k status nfs Hk. unfold simulate_report.
  apply (report_iff_all_frames stream_add stream_fin k status sim_program sim_program_shape nfs).
  apply reporting_kinds_of_source. exact Hk.
Qed.

Theorem simulate_success_every_frame_within : forall k status nfs (within : nat -> nat -> Prop), k <> WSilent ->
  (forall v f, status v f = true -> within v f) ->
  reports_success (simulate_report k status nfs) = true ->
  forall v f, v < length nfs -> f < nth v nfs 0 -> within v f.
Proof.
  intros k status nfs within Hk Hc H. unfold simulate_report in H.
  apply (report_sound_corollary stream_add stream_fin k status sim_program sim_program_shape nfs within); auto.
  apply reporting_kinds_of_source. exact Hk.
Qed.

(* silent: nothing is ever reported (the per-frame statuses of return_info are then the only report) *)
Theorem silent_never_reports : forall status nfs,
  simulate_report WSilent status nfs = OReturned \/ simulate_report WSilent status nfs = ONameError.
Proof.
  intros. unfold simulate_report, simulate_outcome.
  destruct (run_variants stream_add WSilent status sim_program _ _) eqn:E.
  - left. destruct (p_final_raise sim_program); reflexivity.
  - exfalso. revert E. generalize (mkRs None []). generalize (combine (seq 0 (length nfs)) nfs).
    induction l as [|[v nf] r IH]; intros s0 E; simpl in E; [discriminate|].
    unfold run_variant in E.
    assert (Hfr : forall fs s1, run_frames stream_add WSilent status (p_frame_body sim_program) v fs s1
                               <> Raised s).
    { induction fs as [|f fr IHf]; intros s1; [simpl; discriminate|]. cbn [run_frames].
      rewrite (prog_body stream_add stream_fin WSilent status sim_program sim_program_shape). unfold body_spec.
      destruct (status v f); simpl; apply IHf. }
    destruct (run_frames stream_add WSilent status (p_frame_body sim_program) v (seq 0 nf) s0) eqn:E2.
    + rewrite (prog_after stream_add WSilent status sim_program sim_program_shape) in E. apply (IH _ E).
    + inversion E; subst. apply (Hfr _ _ E2).
    + discriminate.
  - right. reflexivity.
Qed.

(* non-vacuity: a concrete run with three frames of which the first fails, under each kind *)
Example report_example :
  let status := fun (v f : nat) => negb (Nat.eqb f 0) in
  simulate_report WCritical status [3] = OCritical [(0, 0)]
  /\ simulate_report WError status [3; 1] = OError [(0, 0); (1, 0)]
  /\ simulate_report WWarning status [3] = OWarned [(0, 0)]
  /\ simulate_report WSilent status [3] = OReturned
  /\ simulate_report WError (fun _ _ => true) [3; 2] = OReturned.
Proof. vm_compute. repeat split. Qed.

(* the shape with the report moved after the frame loop (only the last frame's status decides) is refuted *)
Example report_after_loop_refuted :
  exists status nfs,
    reports_success (simulate_outcome stream_add stream_fin WError status
                       (mkProg [FSimulate; FRecord] [FReport] true) nfs) = true
    /\ ~ all_success status nfs.
Proof.
  exists (fun _ f => negb (Nat.eqb f 0)), [2]. split; [vm_compute; reflexivity|].
  intros H. specialize (H 0 0 (Nat.lt_0_succ _) (Nat.lt_0_succ _)). discriminate.
Qed.

(* ================================================================== (b) *)

Section SlatableProofs.
Variable V : Type.
Variable is_nan : V -> bool.

Lemma dlookup_app : forall (a b : list (nat * V)) n,
  dlookup (a ++ b) n = match dlookup b n with Some w => Some w | None => dlookup a n end.
Proof.
  induction a as [|[m v] r IH]; intros b n; simpl.
  - destruct (dlookup b n); reflexivity.
  - rewrite IH. destruct (dlookup b n); reflexivity.
Qed.

Lemma dlookup_items_gen : forall (src : group -> nat -> option V) g l n, NoDup l ->
  dlookup (flat_map (fun n => match src g n with Some v => [(n, v)] | None => [] end) l) n
  = if existsb (Nat.eqb n) l then src g n else None.
Proof.
  intros src g l n. induction l as [|m r IH]; intros Hnd; simpl; [reflexivity|].
  inversion Hnd as [|? ? Hnotin Hr]; subst. specialize (IH Hr).
  destruct (src g m) eqn:Em; simpl.
  - rewrite IH. destruct (Nat.eqb n m) eqn:E.
    + apply Nat.eqb_eq in E. subst m. simpl.
      assert (Hx : existsb (Nat.eqb n) r = false).
      { destruct (existsb (Nat.eqb n) r) eqn:X; [|reflexivity]. apply existsb_exists in X.
        destruct X as [x [Hx1 Hx2]]. apply Nat.eqb_eq in Hx2. subst x. contradiction. }
      rewrite Hx. rewrite Nat.eqb_refl. symmetry. exact Em.
    + simpl. destruct (existsb (Nat.eqb n) r).
      * destruct (src g n); [reflexivity|]. rewrite Nat.eqb_sym, E. reflexivity.
      * rewrite Nat.eqb_sym, E. reflexivity.
  - rewrite IH. destruct (Nat.eqb n m) eqn:E; simpl; [|reflexivity].
    apply Nat.eqb_eq in E. subst m. rewrite Em. destruct (existsb (Nat.eqb n) r); reflexivity.
Qed.

Lemma dlookup_group_items : forall (src : group -> nat -> option V) nn g n, n < nn ->
  dlookup (group_items src nn g) n = src g n.
Proof.
  intros src nn g n H. unfold group_items. rewrite dlookup_items_gen by apply seq_NoDup.
  assert (E : existsb (Nat.eqb n) (seq 0 nn) = true).
  { apply existsb_exists. exists n. split; [apply in_seq; lia | apply Nat.eqb_refl]. }
  rewrite E. reflexivity.
Qed.

Section OneName.
Variable src : group -> nat -> option V.
Variable nn : nat.
Variable flags : group -> bool.
Variable g : group.
Variable n : nat.
Variable v : V.
Hypothesis Hn : n < nn.
Hypothesis Hsrc : src g n = Some v.
Hypothesis Honly : forall g', g' <> g -> src g' n = None.     (* the name belongs to one group *)

Lemma group_eqb_spec : forall a b, group_eqb a b = true <-> a = b.
Proof. destruct a, b; simpl; split; intros; congruence. Qed.

Lemma items_lookup : forall b : sl_block,
  dlookup (group_items src nn (fst b)) n = if group_eqb (fst b) g then Some v else None.
Proof.
  intros b. rewrite dlookup_group_items by exact Hn.
  destruct (group_eqb (fst b) g) eqn:E.
  - apply group_eqb_spec in E. rewrite E. exact Hsrc.
  - apply Honly. intros C. apply group_eqb_spec in C. congruence.
Qed.

Lemma fold_blocks_lookup : forall blocks fo,
  let r := fold_left (run_block src nn flags) blocks fo in
  dlookup (fst r) n = (if existsb (fun b => group_eqb (fst b) g && flags (snd b)) blocks
                       then Some v else dlookup (fst fo) n)
  /\ dlookup (snd r) n = (if existsb (fun b => group_eqb (fst b) g && negb (flags (snd b))) blocks
                          then Some v else dlookup (snd fo) n).
Proof.
  induction blocks as [|b r IH]; intros fo; simpl; [split; reflexivity|].
  destruct (IH (run_block src nn flags fo b)) as [IH1 IH2]. rewrite IH1, IH2. clear IH IH1 IH2.
  unfold run_block. destruct (flags (snd b)); simpl; rewrite ?andb_true_r, ?andb_false_r; simpl.
  - rewrite dlookup_app, items_lookup. split.
    + destruct (group_eqb (fst b) g); simpl; [|reflexivity].
      match goal with |- context [existsb ?ff r] => destruct (existsb ff r) end; reflexivity.
    + reflexivity.
  - rewrite dlookup_app, items_lookup. split.
    + reflexivity.
    + destruct (group_eqb (fst b) g); simpl; [|reflexivity].
      match goal with |- context [existsb ?ff r] => destruct (existsb ff r) end; reflexivity.
Qed.

(* every group is filed by its own flag, and is filed at all *)
Definition blocks_sound (blocks : list sl_block) : bool :=
  forallb (fun b => group_eqb (fst b) (snd b)) blocks
  && forallb (fun h => existsb (fun b => group_eqb (fst b) h) blocks) [GParameters; GShocks; GStds].

Lemma sound_exists : forall blocks (want : bool), blocks_sound blocks = true ->
  existsb (fun b => group_eqb (fst b) g && (if want then flags (snd b) else negb (flags (snd b)))) blocks
  = (if want then flags g else negb (flags g)).
Proof.
  intros blocks want H. unfold blocks_sound in H. apply andb_prop in H. destruct H as [H1 H2].
  assert (Hex : existsb (fun b => group_eqb (fst b) g) blocks = true).
  { rewrite forallb_forall in H2. apply H2. destruct g; simpl; auto. }
  rewrite forallb_forall in H1.
  destruct (existsb (fun b => group_eqb (fst b) g && (if want then flags (snd b) else negb (flags (snd b)))) blocks) eqn:E.
  - apply existsb_exists in E. destruct E as [b [Hb E]]. apply andb_prop in E. destruct E as [E1 E2].
    apply group_eqb_spec in E1. specialize (H1 b Hb). apply group_eqb_spec in H1. rewrite <- H1, E1 in E2.
    symmetry. exact E2.
  - apply existsb_exists in Hex. destruct Hex as [b [Hb Eb]].
    assert (E' := E). rewrite <- not_true_iff_false in E'.
    destruct (if want then flags g else negb (flags g)) eqn:W; [|reflexivity].
    exfalso. apply E'. apply existsb_exists. exists b. split; [exact Hb|]. rewrite Eb. simpl.
    specialize (H1 b Hb). apply group_eqb_spec in H1. apply group_eqb_spec in Eb. rewrite <- H1, Eb. exact W.
Qed.

Lemma assemble_lookup : forall blocks, blocks_sound blocks = true ->
  let fo := assemble_with blocks src nn flags in
  dlookup (fst fo) n = (if flags g then Some v else None)
  /\ dlookup (snd fo) n = (if flags g then None else Some v).
Proof.
  intros blocks H. unfold assemble_with. destruct (fold_blocks_lookup blocks ([], [])) as [A B].
  cbv zeta in *. rewrite A, B. simpl.
  rewrite (sound_exists blocks true H). rewrite (sound_exists blocks false H).
  destruct (flags g); split; reflexivity.
Qed.

(* the row of the dataslate: from data -> data with the model's value where the databox has nothing (NaN);
   not from data -> the model's value whatever the databox holds *)
Theorem row_by_flag_general : forall blocks row, blocks_sound blocks = true ->
  slate_row_with is_nan [PFallbacks; POverwrites] (assemble_with blocks src nn flags) n row
  = if flags g then map (fun x => if is_nan x then v else x) row else map (fun _ => v) row.
Proof.
  intros blocks row H. destruct (assemble_lookup blocks H) as [A B]. cbv zeta in *.
  unfold slate_row_with. simpl. rewrite A, B. destruct (flags g); reflexivity.
Qed.

End OneName.
End SlatableProofs.

(* ------------------------------------------------------------------ the current source *)

Lemma slatable_blocks_sound : blocks_sound slatable_blocks = true.
Proof. vm_compute. reflexivity. Qed.

Lemma variant_post_order : variant_post = [PFallbacks; POverwrites].
Proof. reflexivity. Qed.

Lemma sim_flag_wiring_id : forall g, sim_flag_wiring g = g.
Proof. destruct g; reflexivity. Qed.

(* Simultaneous.simulate: the dataslate row of a name of group g (parameter / shock / std) that the model has *)
Theorem simulate_row_by_flag : forall (V : Type) (is_nan : V -> bool) (src : group -> nat -> option V) nn sim_flags g n v row,
  n < nn -> src g n = Some v -> (forall g', g' <> g -> src g' n = None) ->
  simulate_row is_nan src nn sim_flags n row
  = if sim_flags g then map (fun x => if is_nan x then v else x) row else map (fun _ => v) row.
Proof.
  intros V is_nan src nn sim_flags g n v row Hn Hs Ho. unfold simulate_row, slate_row, assemble.
  rewrite variant_post_order.
  rewrite (row_by_flag_general V is_nan src nn (slatable_flags sim_flags) g n v Hn Hs Ho slatable_blocks row
             slatable_blocks_sound).
  unfold slatable_flags. rewrite sim_flag_wiring_id. reflexivity.
Qed.

(* with the defaults of simulate() (parameters_from_data=False) a parameter row carries the model's value in every
   column, whatever the input databox holds under that name *)
Theorem parameter_rows_ignore_databox : forall (V : Type) (is_nan : V -> bool) (src : group -> nat -> option V) nn sim_flags n v row row',
  n < nn -> src GParameters n = Some v -> (forall g', g' <> GParameters -> src g' n = None) ->
  sim_flags GParameters = false -> length row = length row' ->
  simulate_row is_nan src nn sim_flags n row = simulate_row is_nan src nn sim_flags n row'
  /\ (forall c, c < length row -> nth_error (simulate_row is_nan src nn sim_flags n row) c = Some v).
Proof.
  intros V is_nan src nn sim_flags n v row row' Hn Hs Ho Hf Hl.
  rewrite !(simulate_row_by_flag V is_nan src nn sim_flags GParameters n v) by assumption. rewrite Hf.
  split.
  - revert row' Hl. induction row as [|x r IH]; destruct row' as [|y t]; simpl; intros Hl; try discriminate; [reflexivity|].
    f_equal. apply IH. congruence.
  - intros c Hc. rewrite nth_error_map. destruct (nth_error row c) eqn:E; [reflexivity|].
    apply nth_error_None in E. lia.
Qed.

Lemma default_parameters_not_from_data : sim_default_from_data GParameters = false
  /\ sim_default_from_data GShocks = true /\ sim_default_from_data GStds = true.
Proof. vm_compute. repeat split. Qed.

(* non-vacuity: two parameters (names 0, 1), one shock (name 2), one std (name 3); the databox carries a stale value
   9 under parameter 0 and nothing (NaN, here 0) for the shock in the second column *)
Example slatable_example :
  let src := fun (g : group) (n : nat) =>
     match g, n with GParameters, 0 => Some 5 | GParameters, 1 => Some 6 | GShocks, 2 => Some 100 | GStds, 3 => Some 7
                   | _, _ => None end in
  let isn := Nat.eqb 0 in
  simulate_row isn src 4 sim_default_from_data 0 [9; 9; 9] = [5; 5; 5]
  /\ simulate_row isn src 4 sim_default_from_data 2 [3; 0; 4] = [3; 100; 4]
  /\ simulate_row isn src 4 (fun _ => true) 0 [9; 0; 9] = [9; 5; 9]
  /\ simulate_row isn src 4 (fun _ => false) 2 [3; 0; 4] = [100; 100; 100].
Proof. vm_compute. repeat split. Qed.

(* the shape with the parameters filed under the stds flag is refuted: the databox wins over the model's parameter *)
Example parameters_under_stds_flag_refuted :
  let src := fun (g : group) (n : nat) => match g, n with GParameters, 0 => Some 5 | _, _ => None end in
  slate_row_with (Nat.eqb 0) variant_post
    (assemble_with [(GParameters, GStds); (GShocks, GShocks); (GStds, GStds)] src 1 sim_default_from_data) 0 [9; 9]
  = [9; 9].
Proof. vm_compute. reflexivity. Qed.
