(* Proofs about the blazer model (coq/model/Blazer.v).  Plain stdlib style. *)
From Coq Require Import List Arith Bool PeanoNat Lia Permutation.
From Verif Require Import gen.BlazerGen model.Blazer.
Import ListNotations.

(* ------------------------------------------------------------------ generic list facts *)

Lemma mem_In : forall x l, mem x l = true <-> In x l.
Proof.
  intros x l. unfold mem. rewrite existsb_exists. split.
  - intros [y [Hy He]]. apply Nat.eqb_eq in He. subst. exact Hy.
  - intros H. exists x. split; [exact H | apply Nat.eqb_refl].
Qed.

Lemma mem_false : forall x l, mem x l = false <-> ~ In x l.
Proof.
  intros x l. rewrite <- mem_In. destruct (mem x l); split; intros H; try congruence.
Qed.

Lemma nat_list_eqb_eq : forall a b, nat_list_eqb a b = true <-> a = b.
Proof.
  induction a as [|x a IH]; destruct b as [|y b]; simpl; split; intros H; try congruence; try reflexivity.
  - apply andb_true_iff in H. destruct H as [H1 H2]. apply Nat.eqb_eq in H1. apply IH in H2. congruence.
  - inversion H; subst. rewrite Nat.eqb_refl. simpl. apply IH. reflexivity.
Qed.

Lemma Permutation_filter_ : forall {A} (f : A -> bool) l l',
  Permutation l l' -> Permutation (filter f l) (filter f l').
Proof.
  intros A f l l' H. induction H; simpl.
  - constructor.
  - destruct (f x); [constructor|]; assumption.
  - destruct (f x), (f y); try apply Permutation_refl. apply perm_swap.
  - eapply Permutation_trans; eassumption.
Qed.

Lemma filter_split_perm : forall {A} (f : A -> bool) l,
  Permutation l (filter f l ++ filter (fun x => negb (f x)) l).
Proof.
  intros A f l. induction l as [|x l IH]; simpl.
  - constructor.
  - destruct (f x); simpl.
    + constructor. exact IH.
    + apply Permutation_cons_app. exact IH.
Qed.

Lemma filter_all_true : forall {A} (f : A -> bool) l, (forall x, In x l -> f x = true) -> filter f l = l.
Proof.
  intros A f l. induction l as [|x l IH]; simpl; intros H; [reflexivity|].
  rewrite (H x (or_introl eq_refl)). f_equal. apply IH. intros y Hy. apply H. right. exact Hy.
Qed.

Lemma filter_all_false : forall {A} (f : A -> bool) l, (forall x, In x l -> f x = false) -> filter f l = [].
Proof.
  intros A f l. induction l as [|x l IH]; simpl; intros H; [reflexivity|].
  rewrite (H x (or_introl eq_refl)). apply IH. intros y Hy. apply H. right. exact Hy.
Qed.

Lemma count_perm : forall {A} (f : A -> bool) l l', Permutation l l' -> count f l = count f l'.
Proof. intros. unfold count. apply Permutation_length. apply Permutation_filter_. assumption. Qed.

Lemma NoDup_filter_ : forall {A} (f : A -> bool) l, NoDup l -> NoDup (filter f l).
Proof.
  intros A f l H. induction H; simpl; [constructor|].
  destruct (f x); [constructor|]; try assumption.
  intros Hin. apply filter_In in Hin. tauto.
Qed.

Lemma NoDup_map_filter : forall {A B} (g : A -> B) (f : A -> bool) l, NoDup (map g l) -> NoDup (map g (filter f l)).
Proof.
  intros A B g f l. induction l as [|x l IH]; simpl; intros H; [constructor|].
  inversion H; subst. destruct (f x); simpl.
  - constructor; [|apply IH; assumption].
    intros Hin. apply H2. apply in_map_iff in Hin. destruct Hin as [y [Hy Hin]].
    apply filter_In in Hin. apply in_map_iff. exists y. tauto.
  - apply IH. assumption.
Qed.

Lemma NoDup_map_inj_in : forall {A B} (g : A -> B) l x y,
  NoDup (map g l) -> In x l -> In y l -> g x = g y -> x = y.
Proof.
  intros A B g l. induction l as [|a l IH]; simpl; intros x y H Hx Hy E; [contradiction|].
  inversion H; subst.
  destruct Hx as [Hx|Hx], Hy as [Hy|Hy]; subst.
  - reflexivity.
  - exfalso. apply H2. rewrite E. apply in_map. exact Hy.
  - exfalso. apply H2. rewrite <- E. apply in_map. exact Hx.
  - apply IH; assumption.
Qed.

Lemma NoDup_app_l : forall {A} (a b : list A), NoDup (a ++ b) -> NoDup a.
Proof.
  intros A a b. induction a as [|x a IH]; simpl; intros H; [constructor|].
  inversion H; subst. constructor; [|apply IH; assumption].
  intros Hin. apply H2. apply in_or_app. left. exact Hin.
Qed.

Lemma NoDup_app_r : forall {A} (a b : list A), NoDup (a ++ b) -> NoDup b.
Proof.
  intros A a b. induction a as [|x a IH]; simpl; intros H; [assumption|].
  inversion H; subst. apply IH. assumption.
Qed.

Lemma NoDup_app_disj : forall {A} (a b : list A) x, NoDup (a ++ b) -> In x a -> In x b -> False.
Proof.
  intros A a b x. induction a as [|y a IH]; simpl; intros H Ha Hb; [contradiction|].
  inversion H; subst. destruct Ha as [Ha|Ha].
  - subst. apply H2. apply in_or_app. right. exact Hb.
  - apply IH; assumption.
Qed.

Lemma map_nth_seq : forall {A} (d : A) l, map (fun i => nth i l d) (seq 0 (length l)) = l.
Proof.
  intros A d l. apply nth_ext with (d := d) (d' := d).
  - rewrite map_length, seq_length. reflexivity.
  - intros n Hn. rewrite map_length, seq_length in Hn.
    rewrite (nth_indep _ d (nth 0 l d)) by (rewrite map_length, seq_length; exact Hn).
    rewrite (map_nth (fun i => nth i l d) (seq 0 (length l)) 0 n).
    rewrite seq_nth by exact Hn. reflexivity.
Qed.

Lemma permute_perm : forall {A} (d : A) p l, Permutation p (seq 0 (length l)) -> Permutation (permute d p l) l.
Proof.
  intros A d p l H. unfold permute.
  eapply Permutation_trans; [apply Permutation_map; exact H|].
  rewrite map_nth_seq. apply Permutation_refl.
Qed.

Lemma Permutation_concat_map : forall {A B} (f g : A -> list B) l,
  (forall x, In x l -> Permutation (f x) (g x)) -> Permutation (concat (map f l)) (concat (map g l)).
Proof.
  intros A B f g l. induction l as [|x l IH]; simpl; intros H; [constructor|].
  apply Permutation_app; [apply H; left; reflexivity | apply IH; intros y Hy; apply H; right; exact Hy].
Qed.

(* ------------------------------------------------------------------ sorted(...) *)

Lemma insert_perm : forall x l, Permutation (insert x l) (x :: l).
Proof.
  intros x l. induction l as [|y l IH]; simpl; [apply Permutation_refl|].
  destruct (x <=? y); [apply Permutation_refl|].
  eapply Permutation_trans; [apply perm_skip; exact IH | apply perm_swap].
Qed.

Lemma sortn_perm : forall l, Permutation (sortn l) l.
Proof.
  induction l as [|x l IH]; simpl; [constructor|].
  eapply Permutation_trans; [apply insert_perm | constructor; exact IH].
Qed.

Lemma insert_comm : forall a b l, insert a (insert b l) = insert b (insert a l).
Proof.
  intros a b l. induction l as [|y l IH]; simpl.
  - destruct (a <=? b) eqn:E1, (b <=? a) eqn:E2; try reflexivity.
    + apply Nat.leb_le in E1, E2. assert (a = b) by lia. subst. reflexivity.
    + apply Nat.leb_gt in E1, E2. lia.
  - destruct (b <=? y) eqn:Eb, (a <=? y) eqn:Ea; simpl; rewrite ?Eb, ?Ea.
    + destruct (a <=? b) eqn:E1, (b <=? a) eqn:E2; rewrite ?Ea, ?Eb; try reflexivity.
      * apply Nat.leb_le in E1, E2. assert (a = b) by lia. subst. reflexivity.
      * apply Nat.leb_gt in E1, E2. lia.
    + destruct (a <=? b) eqn:E1.
      * apply Nat.leb_le in E1, Eb. apply Nat.leb_gt in Ea. lia.
      * reflexivity.
    + destruct (b <=? a) eqn:E2.
      * apply Nat.leb_le in E2, Ea. apply Nat.leb_gt in Eb. lia.
      * reflexivity.
    + f_equal. exact IH.
Qed.

Lemma sortn_perm_eq : forall l l', Permutation l l' -> sortn l = sortn l'.
Proof.
  intros l l' H. induction H; simpl.
  - reflexivity.
  - f_equal. exact IHPermutation.
  - apply insert_comm.
  - congruence.
Qed.

Lemma sortn_seq : forall n a, sortn (seq a n) = seq a n.
Proof.
  induction n as [|n IH]; intros a; simpl; [reflexivity|].
  rewrite IH. destruct n; simpl; [reflexivity|].
  destruct (a <=? S a) eqn:E; [reflexivity|]. apply Nat.leb_gt in E. lia.
Qed.

Lemma sortn_is_range : forall l n, sortn l = seq 0 n <-> Permutation l (seq 0 n).
Proof.
  intros l n. split; intros H.
  - rewrite <- H. apply Permutation_sym. apply sortn_perm.
  - rewrite (sortn_perm_eq _ _ H). apply sortn_seq.
Qed.

(* ------------------------------------------------------------------ the core, over a fixed incidence *)

Section CoreProofs.
Variable inc : nat -> nat -> bool.

(* no incidence between the equations A and the quantities B: a zero corner of the matrix *)
Definition zero (A B : list nat) : Prop := forall e q, In e A -> In q B -> inc e q = false.

(* block lower triangular: no equation of a block involves a quantity of a LATER block *)
Fixpoint Tri (bs : list block) : Prop :=
  match bs with
  | [] => True
  | b :: r => zero (fst b) (bqids r) /\ Tri r
  end.

(* a perfect matching of the equations E with the quantities Q, as a function on ids *)
Definition PMf (s : nat -> nat) (E Q : list nat) : Prop :=
  Permutation (map s E) Q /\ forall e, In e E -> inc e (s e) = true.

(* triangularity of a sequence of 1x1 blocks (e, s e) *)
Fixpoint TriS (s : nat -> nat) (l : list nat) : Prop :=
  match l with
  | [] => True
  | e :: r => (forall e', In e' r -> inc e (s e') = false) /\ TriS s r
  end.

Definition square (b : block) : Prop := length (fst b) = length (snd b).

Lemma zero_incl : forall A B A' B', zero A B -> incl A' A -> incl B' B -> zero A' B'.
Proof. unfold zero, incl. intros. apply H; auto. Qed.

Lemma zero_app_l : forall A A' B, zero (A ++ A') B <-> zero A B /\ zero A' B.
Proof.
  unfold zero. intros. split.
  - intros H. split; intros; apply H; auto; apply in_or_app; auto.
  - intros [H1 H2] e q He Hq. apply in_app_or in He. destruct He; auto.
Qed.

Lemma zero_app_r : forall A B B', zero A (B ++ B') <-> zero A B /\ zero A B'.
Proof.
  unfold zero. intros. split.
  - intros H. split; intros; apply H; auto; apply in_or_app; auto.
  - intros [H1 H2] e q He Hq. apply in_app_or in Hq. destruct Hq; auto.
Qed.

Lemma beids_app : forall a b, beids (a ++ b) = beids a ++ beids b.
Proof. intros. unfold beids. rewrite map_app, concat_app. reflexivity. Qed.

Lemma bqids_app : forall a b, bqids (a ++ b) = bqids a ++ bqids b.
Proof. intros. unfold bqids. rewrite map_app, concat_app. reflexivity. Qed.

Lemma Tri_app : forall a b, Tri (a ++ b) <-> Tri a /\ Tri b /\ zero (beids a) (bqids b).
Proof.
  induction a as [|x a IH]; intros b; simpl.
  - split; [intros H; repeat split; auto; intros e q [] | tauto].
  - rewrite IH. rewrite bqids_app. rewrite zero_app_r.
    change (beids (x :: a)) with (fst x ++ beids a). rewrite zero_app_l. tauto.
Qed.

Lemma singles_map : forall s l, singles l (map s l) = map (fun e => ([e], [s e])) l.
Proof.
  intros s l. unfold singles. induction l as [|x l IH]; simpl; [reflexivity|]. f_equal. exact IH.
Qed.

Lemma beids_singles : forall s l, beids (singles l (map s l)) = l.
Proof.
  intros. rewrite singles_map. unfold beids. induction l as [|x l IH]; simpl; [reflexivity|]. f_equal. exact IH.
Qed.

Lemma bqids_singles : forall s l, bqids (singles l (map s l)) = map s l.
Proof.
  intros. rewrite singles_map. unfold bqids. induction l as [|x l IH]; simpl; [reflexivity|]. f_equal. exact IH.
Qed.

Lemma Tri_singles : forall s l, Tri (singles l (map s l)) <-> TriS s l.
Proof.
  intros s l. induction l as [|x l IH].
  - simpl. tauto.
  - change (singles (x :: l) (map s (x :: l))) with (([x], [s x]) :: singles l (map s l)).
    simpl. rewrite IH. rewrite bqids_singles. unfold zero. split.
    + intros [H1 H2]. split; [|exact H2]. intros e' He'. apply H1; [left; reflexivity | apply in_map; exact He'].
    + intros [H1 H2]. split; [|exact H2]. intros e q [He|[]] Hq. subst.
      apply in_map_iff in Hq. destruct Hq as [e' [E He']]. subst. apply H1. exact He'.
Qed.

Lemma square_singles : forall s l, Forall square (singles l (map s l)).
Proof.
  intros. rewrite singles_map. apply Forall_forall. intros b Hb. apply in_map_iff in Hb.
  destruct Hb as [e [E _]]. subst. reflexivity.
Qed.

Lemma TriS_app : forall s a b,
  TriS s (a ++ b) <-> TriS s a /\ TriS s b /\ (forall e e', In e a -> In e' b -> inc e (s e') = false).
Proof.
  intros s. induction a as [|x a IH]; intros b; simpl.
  - split; [intros H; repeat split; auto; intros e e' [] | tauto].
  - rewrite IH. split.
    + intros [H1 [H2 [H3 H4]]]. repeat split; auto.
      * intros e' He'. apply H1. apply in_or_app. left. exact He'.
      * intros e e' [He|He] He'; [subst; apply H1; apply in_or_app; right; exact He' | apply H4; assumption].
    + intros [[H1 H2] [H3 H4]]. repeat split; auto.
      intros e' He'. apply in_app_or in He'. destruct He' as [He'|He']; [apply H1; exact He' | apply H4; [left; reflexivity | exact He']].
Qed.

Lemma TriS_offdiag : forall s l, NoDup l ->
  (forall e e', In e l -> In e' l -> e <> e' -> inc e (s e') = false) -> TriS s l.
Proof.
  intros s l H. induction H as [|x l Hx Hnd IH]; simpl; intros Hoff; [exact I|]. split.
  - intros e' He'. apply Hoff; [left; reflexivity | right; exact He' |]. intros E. subst. contradiction.
  - apply IH. intros e e' He He' Hne. apply Hoff; [right; exact He | right; exact He' | exact Hne].
Qed.

Lemma PMf_length : forall s E Q, PMf s E Q -> length E = length Q.
Proof. intros s E Q [H _]. apply Permutation_length in H. rewrite map_length in H. exact H. Qed.

Lemma PMf_in : forall s E Q e, PMf s E Q -> In e E -> In (s e) Q.
Proof. intros s E Q e [H _] He. eapply Permutation_in; [exact H | apply in_map; exact He]. Qed.

Lemma PMf_NoDup_map : forall s E Q, PMf s E Q -> NoDup Q -> NoDup (map s E).
Proof. intros s E Q [H _] Hq. eapply Permutation_NoDup; [apply Permutation_sym; exact H | exact Hq]. Qed.

Lemma PMf_preimage : forall s E Q q, PMf s E Q -> In q Q -> exists e, In e E /\ s e = q.
Proof.
  intros s E Q q [H _] Hq. apply Permutation_sym in H. apply (Permutation_in _ H) in Hq.
  apply in_map_iff in Hq. destruct Hq as [e [E1 He]]. exists e. tauto.
Qed.

(* a list of booleans-filtered length 1 that contains x is [x] *)
Lemma single_filter : forall {A} (f : A -> bool) l x, count f l = 1 -> In x l -> f x = true -> filter f l = [x].
Proof.
  intros A f l x Hc Hin Hf. unfold count in Hc.
  assert (Hx : In x (filter f l)) by (apply filter_In; tauto).
  destruct (filter f l) as [|y [|z r]]; simpl in Hc; try discriminate.
  destruct Hx as [Hx|[]]. subst. reflexivity.
Qed.

Lemma single_filter_other : forall {A} (f : A -> bool) l x y,
  count f l = 1 -> In x l -> f x = true -> In y l -> y <> x -> f y = false.
Proof.
  intros A f l x y Hc Hx Hfx Hy Hne. destruct (f y) eqn:E; [|reflexivity].
  assert (Hin : In y (filter f l)) by (apply filter_In; tauto).
  rewrite (single_filter f l x Hc Hx Hfx) in Hin. destruct Hin as [Hin|[]]. congruence.
Qed.

(* ---------------------------------------------------------------- _prefetch_first *)

Lemma prefetch_first_spec : forall s E Q F QF E1 Q1,
  NoDup E -> NoDup Q -> PMf s E Q ->
  prefetch_first inc E Q = (F, QF, E1, Q1) ->
  QF = map s F /\
  Permutation E (F ++ E1) /\ Permutation Q (QF ++ Q1) /\
  (forall e q, In e F -> In q Q -> q <> s e -> inc e q = false) /\
  zero F Q1 /\
  PMf s E1 Q1 /\ NoDup E1 /\ NoDup Q1.
Proof.
  intros s E Q F QF E1 Q1 HE HQ HPM Hdef. unfold prefetch_first in Hdef.
  change singleton_row_count with 1 in Hdef.
  injection Hdef as HF HQF HE1 HQ1.
  set (single := fun e => rowsum inc Q e =? 1) in *.
  assert (HFin : forall e, In e F <-> In e E /\ rowsum inc Q e = 1).
  { intros e. rewrite <- HF. rewrite filter_In. unfold single. rewrite Nat.eqb_eq. tauto. }
  assert (Hinj := PMf_NoDup_map _ _ _ HPM HQ).
  (* the only incidence of a singleton row is its matched quantity *)
  assert (Hrow : forall e, In e F -> filter (inc e) Q = [s e]).
  { intros e He. apply HFin in He. destruct He as [He Hc].
    apply single_filter; [exact Hc | eapply PMf_in; eassumption | apply HPM; exact He]. }
  assert (Hoff : forall e q, In e F -> In q Q -> q <> s e -> inc e q = false).
  { intros e q He Hq Hne. apply HFin in He. destruct He as [He Hc].
    apply (single_filter_other (inc e) Q (s e) q); auto; [eapply PMf_in; eassumption | apply HPM; exact He]. }
  assert (HQFs : QF = map s F).
  { rewrite <- HQF. rewrite HF. apply map_ext_in. intros e He. rewrite (Hrow e He). reflexivity. }
  assert (HEperm : Permutation E (F ++ E1)).
  { rewrite <- HF, <- HE1. apply filter_split_perm. }
  assert (HE1in : forall e, In e E1 <-> In e E /\ rowsum inc Q e <> 1).
  { intros e. rewrite <- HE1. rewrite filter_In. unfold single. rewrite negb_true_iff, Nat.eqb_neq. tauto. }
  assert (HE1nd : NoDup E1) by (rewrite <- HE1; apply NoDup_filter_; exact HE).
  assert (HQ1nd : NoDup Q1) by (rewrite <- HQ1; apply NoDup_filter_; exact HQ).
  assert (HQ1in : forall q, In q Q1 <-> In q Q /\ ~ In q QF).
  { intros q. rewrite <- HQ1. rewrite filter_In, negb_true_iff, mem_false. rewrite HQF. tauto. }
  assert (HPM1 : Permutation (map s E1) Q1).
  { apply NoDup_Permutation.
    - rewrite <- HE1. apply NoDup_map_filter. exact Hinj.
    - exact HQ1nd.
    - intros q. rewrite HQ1in. rewrite in_map_iff. split.
      + intros [e [Eq He]]. subst q. apply HE1in in He. destruct He as [He Hc]. split.
        * eapply PMf_in; eassumption.
        * rewrite HQFs. rewrite in_map_iff. intros [e' [Eq He']].
          apply HFin in He'. destruct He' as [He' Hc'].
          assert (e' = e) by (eapply NoDup_map_inj_in; eauto). subst. contradiction.
      + intros [Hq Hn]. destruct (PMf_preimage _ _ _ _ HPM Hq) as [e [He Eq]]. exists e. split; [exact Eq|].
        apply HE1in. split; [exact He|]. intros Hc. apply Hn. rewrite HQFs. subst q. apply in_map. apply HFin. tauto. }
  assert (HPMf1 : PMf s E1 Q1).
  { split; [exact HPM1|]. intros e He. apply HPM. apply HE1in in He. tauto. }
  split; [exact HQFs|]. split; [exact HEperm|]. split; [|split; [exact Hoff|split; [|split; [exact HPMf1|split; assumption]]]].
  - (* Q ~ QF ++ Q1 *)
    rewrite HQFs. eapply Permutation_trans; [apply Permutation_sym; apply HPM|].
    eapply Permutation_trans; [apply Permutation_map; exact HEperm|].
    rewrite map_app. apply Permutation_app_head. exact HPM1.
  - (* zero F Q1 *)
    intros e q He Hq. apply HQ1in in Hq. destruct Hq as [Hq Hn]. apply Hoff; auto.
    intros Eq. apply Hn. rewrite HQFs. subst q. apply in_map. exact He.
Qed.

Lemma NoDup_app_intro : forall {A} (a b : list A),
  NoDup a -> NoDup b -> (forall x, In x a -> ~ In x b) -> NoDup (a ++ b).
Proof.
  intros A a b Ha. induction Ha as [|x a Hx Ha IH]; simpl; intros Hb Hd; [exact Hb|].
  constructor.
  - intros Hin. apply in_app_or in Hin. destruct Hin as [Hin|Hin]; [contradiction|].
    apply (Hd x); [left; reflexivity | exact Hin].
  - apply IH; [exact Hb|]. intros y Hy. apply Hd. right. exact Hy.
Qed.

(* ---------------------------------------------------------------- _prefetch_last *)

Lemma prefetch_last_spec : forall s E1 Q1 Le Lq E2 Q2,
  NoDup E1 -> NoDup Q1 -> PMf s E1 Q1 ->
  prefetch_last inc E1 Q1 = (Le, Lq, E2, Q2) ->
  Lq = map s Le /\
  Permutation E1 (E2 ++ Le) /\ Permutation Q1 (Q2 ++ Lq) /\
  (forall e e', In e' Le -> In e E1 -> e <> e' -> inc e (s e') = false) /\
  zero E2 Lq /\
  PMf s E2 Q2 /\ NoDup E2 /\ NoDup Q2 /\ NoDup Le.
Proof.
  intros s E1 Q1 Le Lq E2 Q2 HE HQ HPM Hdef. unfold prefetch_last in Hdef.
  change singleton_column_count with 1 in Hdef.
  injection Hdef as HLe HLq HE2 HQ2.
  set (single := fun q => colsum inc E1 q =? 1) in *.
  set (t := fun q => hd 0 (filter (fun e => inc e q) E1)) in *.
  assert (Hinj := PMf_NoDup_map _ _ _ HPM HQ).
  assert (HLqin : forall q, In q Lq <-> In q Q1 /\ colsum inc E1 q = 1).
  { intros q. rewrite <- HLq. rewrite filter_In. unfold single. rewrite Nat.eqb_eq. tauto. }
  assert (Ht : forall q, In q Lq -> In (t q) E1 /\ s (t q) = q /\ (forall e, In e E1 -> e <> t q -> inc e q = false)).
  { intros q Hq. apply HLqin in Hq. destruct Hq as [Hq Hc].
    destruct (PMf_preimage _ _ _ _ HPM Hq) as [e [He Eq]].
    assert (Hinc : inc e q = true) by (rewrite <- Eq; apply HPM; exact He).
    assert (Hf : filter (fun e' => inc e' q) E1 = [e]) by (apply single_filter; assumption).
    assert (Htq : t q = e) by (unfold t; rewrite Hf; reflexivity).
    rewrite Htq. split; [exact He|]. split; [exact Eq|].
    intros e' He' Hne. apply (single_filter_other (fun e' => inc e' q) E1 e e'); assumption. }
  assert (HLeq : Le = map t Lq) by (rewrite <- HLe, HLq; reflexivity).
  assert (HLqs : Lq = map s Le).
  { rewrite HLeq, map_map. rewrite <- (map_id Lq) at 1. apply map_ext_in. intros q Hq. symmetry. apply Ht. exact Hq. }
  assert (HLqnd : NoDup Lq) by (rewrite <- HLq; apply NoDup_filter_; exact HQ).
  assert (HLend : NoDup Le) by (apply (NoDup_map_inv s); rewrite <- HLqs; exact HLqnd).
  assert (HLein : forall e, In e Le <-> exists q, In q Lq /\ t q = e).
  { intros e. rewrite HLeq. rewrite in_map_iff. split; intros [q [H1 H2]]; exists q; tauto. }
  assert (HLesub : forall e, In e Le -> In e E1).
  { intros e He. apply HLein in He. destruct He as [q [Hq Eq]]. subst e. apply Ht. exact Hq. }
  assert (HE2in : forall e, In e E2 <-> In e E1 /\ ~ In e Le).
  { intros e. rewrite <- HE2. rewrite filter_In, negb_true_iff, mem_false. rewrite HLe. tauto. }
  assert (HQ2in : forall q, In q Q2 <-> In q Q1 /\ colsum inc E1 q <> 1).
  { intros q. rewrite <- HQ2. rewrite filter_In. unfold single. rewrite negb_true_iff, Nat.eqb_neq. tauto. }
  assert (HE2nd : NoDup E2) by (rewrite <- HE2; apply NoDup_filter_; exact HE).
  assert (HQ2nd : NoDup Q2) by (rewrite <- HQ2; apply NoDup_filter_; exact HQ).
  assert (HPM2 : Permutation (map s E2) Q2).
  { apply NoDup_Permutation.
    - rewrite <- HE2. apply NoDup_map_filter. exact Hinj.
    - exact HQ2nd.
    - intros q. rewrite HQ2in. rewrite in_map_iff. split.
      + intros [e [Eq He]]. subst q. apply HE2in in He. destruct He as [He Hn]. split.
        * eapply PMf_in; eassumption.
        * intros Hc. apply Hn. assert (Hq : In (s e) Lq) by (apply HLqin; split; [eapply PMf_in; eassumption | exact Hc]).
          apply HLein. exists (s e). split; [exact Hq|].
          destruct (Ht _ Hq) as [H1 [H2 _]]. eapply NoDup_map_inj_in; eauto.
      + intros [Hq Hn]. destruct (PMf_preimage _ _ _ _ HPM Hq) as [e [He Eq]]. exists e. split; [exact Eq|].
        apply HE2in. split; [exact He|]. intros HeL. apply Hn.
        apply HLein in HeL. destruct HeL as [q' [Hq' Eq']].
        destruct (Ht _ Hq') as [_ [H2 _]]. rewrite Eq' in H2. rewrite Eq in H2. subst q'. apply HLqin. exact Hq'. }
  split; [exact HLqs|]. split; [|split; [|split; [|split; [|split; [|split; [exact HE2nd|split; [exact HQ2nd|exact HLend]]]]]]].
  - apply NoDup_Permutation; [exact HE | |].
    + apply NoDup_app_intro; [exact HE2nd | exact HLend |]. intros x Hx. apply HE2in in Hx. tauto.
    + intros x. rewrite in_app_iff, HE2in. split.
      * intros Hx. destruct (in_dec Nat.eq_dec x Le); tauto.
      * intros [[Hx _]|Hx]; [exact Hx | apply HLesub; exact Hx].
  - rewrite <- HQ2, <- HLq. eapply Permutation_trans; [apply (filter_split_perm single)|]. apply Permutation_app_comm.
  - intros e e' He' He Hne. apply HLein in He'. destruct He' as [q [Hq Eq]]. subst e'.
    destruct (Ht _ Hq) as [_ [H2 H3]]. rewrite H2. apply H3; assumption.
  - intros e q He Hq. apply HE2in in He. destruct He as [He Hn]. apply (Ht _ Hq); [exact He|].
    intros Eq. apply Hn. apply HLein. exists q. split; [exact Hq | symmetry; exact Eq].
  - split; [exact HPM2|]. intros e He. apply HPM. apply HE2in in He. tauto.
Qed.

(* ---------------------------------------------------------------- prefetch (the recursion) *)

Record PreSpec (s : nat -> nat) (E Q : list nat) (r : prefetched) : Prop := mkPreSpec {
  ps_E : Permutation E (p_ef r ++ p_ei r ++ p_el r);
  ps_Q : Permutation Q (p_qf r ++ p_qi r ++ p_ql r);
  ps_qf : p_qf r = map s (p_ef r);
  ps_ql : p_ql r = map s (p_el r);
  ps_tf : TriS s (p_ef r);
  ps_tl : TriS s (p_el r);
  ps_zf : zero (p_ef r) (p_qi r ++ p_ql r);
  ps_zi : zero (p_ei r) (p_ql r);
  ps_pm : PMf s (p_ei r) (p_qi r);
  ps_ndE : NoDup (p_ei r);
  ps_ndQ : NoDup (p_qi r)
}.

Lemma PreSpec_stop : forall s E Q, NoDup E -> NoDup Q -> PMf s E Q -> PreSpec s E Q (mkPre [] [] [] [] E Q).
Proof.
  intros s E Q HE HQ HPM. constructor; simpl; try rewrite app_nil_r; auto; try apply Permutation_refl;
    try (intros e q []); try (intros e q ? []).
Qed.

Lemma prefetch_level : forall s E Q F QF E1 Q1 Le Lq E2 Q2 r,
  NoDup E -> NoDup Q -> PMf s E Q ->
  prefetch_first inc E Q = (F, QF, E1, Q1) ->
  prefetch_last inc E1 Q1 = (Le, Lq, E2, Q2) ->
  PreSpec s E2 Q2 r ->
  PreSpec s E Q (mkPre (F ++ p_ef r) (QF ++ p_qf r) (p_el r ++ Le) (p_ql r ++ Lq) (p_ei r) (p_qi r)).
Proof.
  intros s E Q F QF E1 Q1 Le Lq E2 Q2 r HE HQ HPM H1 H2 Hr.
  destruct (prefetch_first_spec _ _ _ _ _ _ _ HE HQ HPM H1)
    as [HQF [HEp [HQp [Hoff [HzF [HPM1 [HE1 HQ1]]]]]]].
  destruct (prefetch_last_spec _ _ _ _ _ _ _ HE1 HQ1 HPM1 H2)
    as [HLq [HE1p [HQ1p [Hcol [HzL [HPM2 [HE2 [HQ2 HLe]]]]]]]].
  destruct Hr as [rE rQ rqf rql rtf rtl rzf rzi rpm rndE rndQ].
  (* membership facts *)
  assert (inE2 : forall x, In x (p_ef r) \/ In x (p_ei r) \/ In x (p_el r) -> In x E2).
  { intros x Hx. eapply Permutation_in; [apply Permutation_sym; exact rE|]. rewrite !in_app_iff. exact Hx. }
  assert (inQ2 : forall x, In x (p_qf r) \/ In x (p_qi r) \/ In x (p_ql r) -> In x Q2).
  { intros x Hx. eapply Permutation_in; [apply Permutation_sym; exact rQ|]. rewrite !in_app_iff. exact Hx. }
  assert (E2E1 : forall x, In x E2 -> In x E1).
  { intros x Hx. eapply Permutation_in; [apply Permutation_sym; exact HE1p|]. apply in_or_app. left. exact Hx. }
  assert (LeE1 : forall x, In x Le -> In x E1).
  { intros x Hx. eapply Permutation_in; [apply Permutation_sym; exact HE1p|]. apply in_or_app. right. exact Hx. }
  assert (Q2Q1 : forall x, In x Q2 -> In x Q1).
  { intros x Hx. eapply Permutation_in; [apply Permutation_sym; exact HQ1p|]. apply in_or_app. left. exact Hx. }
  assert (LqQ1 : forall x, In x Lq -> In x Q1).
  { intros x Hx. eapply Permutation_in; [apply Permutation_sym; exact HQ1p|]. apply in_or_app. right. exact Hx. }
  assert (E1E : forall x, In x E1 -> In x E).
  { intros x Hx. eapply Permutation_in; [apply Permutation_sym; exact HEp|]. apply in_or_app. right. exact Hx. }
  assert (FE : forall x, In x F -> In x E).
  { intros x Hx. eapply Permutation_in; [apply Permutation_sym; exact HEp|]. apply in_or_app. left. exact Hx. }
  assert (Q1Q : forall x, In x Q1 -> In x Q).
  { intros x Hx. eapply Permutation_in; [apply Permutation_sym; exact HQp|]. apply in_or_app. right. exact Hx. }
  assert (HndFE1 : NoDup (F ++ E1)) by (eapply Permutation_NoDup; eassumption).
  assert (HndE2Le : NoDup (E2 ++ Le)) by (eapply Permutation_NoDup; eassumption).
  assert (Hinj := PMf_NoDup_map _ _ _ HPM HQ).
  constructor; simpl.
  - (* E *)
    eapply Permutation_trans; [exact HEp|]. rewrite <- !app_assoc. apply Permutation_app_head.
    eapply Permutation_trans; [exact HE1p|].
    eapply Permutation_trans; [apply Permutation_app_tail; exact rE|]. rewrite <- !app_assoc. apply Permutation_refl.
  - (* Q *)
    eapply Permutation_trans; [exact HQp|]. rewrite <- !app_assoc. apply Permutation_app_head.
    eapply Permutation_trans; [exact HQ1p|].
    eapply Permutation_trans; [apply Permutation_app_tail; exact rQ|]. rewrite <- !app_assoc. apply Permutation_refl.
  - rewrite map_app. congruence.
  - rewrite map_app. congruence.
  - (* TriS (F ++ ef') *)
    apply TriS_app. split; [|split; [exact rtf|]].
    + apply TriS_offdiag; [eapply NoDup_app_l; exact HndFE1|].
      intros e e' He He' Hne. apply Hoff; [exact He | eapply PMf_in; [exact HPM | apply FE; exact He'] |].
      intros Eq. apply Hne. symmetry. eapply NoDup_map_inj_in; eauto.
    + intros e e' He He'. assert (He'1 : In e' E1) by (apply E2E1, inE2; tauto).
      apply Hoff; [exact He | eapply PMf_in; [exact HPM | apply E1E; exact He'1] |].
      intros Eq. assert (e = e') by (eapply NoDup_map_inj_in; eauto). subst e'.
      eapply NoDup_app_disj; [exact HndFE1 | exact He | exact He'1].
  - (* TriS (el' ++ Le) *)
    apply TriS_app. split; [exact rtl|split].
    + apply TriS_offdiag; [exact HLe|]. intros e e' He He' Hne. apply Hcol; [exact He' | apply LeE1; exact He | exact Hne].
    + intros e e' He He'. assert (He2 : In e E2) by (apply inE2; tauto).
      apply Hcol; [exact He' | apply E2E1; exact He2 |].
      intros Eq. subst e'. eapply NoDup_app_disj; [exact HndE2Le | exact He2 | exact He'].
  - (* zero (F ++ ef') (qi ++ ql' ++ Lq) *)
    apply zero_app_l. split.
    + eapply zero_incl; [exact HzF | apply incl_refl |]. intros q Hq.
      rewrite !in_app_iff in Hq. destruct Hq as [Hq|[Hq|Hq]]; [apply Q2Q1, inQ2; tauto | apply Q2Q1, inQ2; tauto | apply LqQ1; exact Hq].
    + rewrite app_assoc. apply zero_app_r. split; [exact rzf|].
      eapply zero_incl; [exact HzL | | apply incl_refl]. intros e He. apply inE2. tauto.
  - (* zero ei (ql' ++ Lq) *)
    apply zero_app_r. split; [exact rzi|].
    eapply zero_incl; [exact HzL | | apply incl_refl]. intros e He. apply inE2. tauto.
  - exact rpm.
  - exact rndE.
  - exact rndQ.
Qed.

Lemma prefetch_unfold : forall fuel E Q,
  prefetch inc fuel E Q =
  let '(ef, qf, e1, q1) := prefetch_first inc E Q in
  let '(el, ql, e2, q2) := prefetch_last inc e1 q1 in
  let stop := mkPre ef qf el ql e2 q2 in
  if msize e2 q2 <? msize E Q then
    match fuel with
    | 0 => stop
    | S f => let r := prefetch inc f e2 q2 in
             mkPre (ef ++ p_ef r) (qf ++ p_qf r) (p_el r ++ el) (p_ql r ++ ql) (p_ei r) (p_qi r)
    end
  else stop.
Proof. destruct fuel; reflexivity. Qed.

Lemma prefetch_spec : forall s fuel E Q,
  NoDup E -> NoDup Q -> PMf s E Q -> PreSpec s E Q (prefetch inc fuel E Q).
Proof.
  intros s fuel. induction fuel as [|f IH]; intros E Q HE HQ HPM; rewrite prefetch_unfold;
    destruct (prefetch_first inc E Q) as [[[F QF] E1] Q1] eqn:H1;
    destruct (prefetch_last inc E1 Q1) as [[[Le Lq] E2] Q2] eqn:H2; cbv beta iota zeta;
    destruct (prefetch_first_spec _ _ _ _ _ _ _ HE HQ HPM H1) as [_ [_ [_ [_ [_ [HPM1 [HE1 HQ1]]]]]]];
    destruct (prefetch_last_spec _ _ _ _ _ _ _ HE1 HQ1 HPM1 H2) as [_ [_ [_ [_ [_ [HPM2 [HE2 [HQ2 _]]]]]]]];
    assert (Hstop : PreSpec s E Q (mkPre F QF Le Lq E2 Q2))
      by (generalize (prefetch_level s E Q F QF E1 Q1 Le Lq E2 Q2 _ HE HQ HPM H1 H2 (PreSpec_stop s E2 Q2 HE2 HQ2 HPM2));
          simpl; rewrite !app_nil_r; auto).
  - destruct (msize E2 Q2 <? msize E Q); exact Hstop.
  - destruct (msize E2 Q2 <? msize E Q); [|exact Hstop].
    apply (prefetch_level s E Q F QF E1 Q1 Le Lq E2 Q2 _ HE HQ HPM H1 H2). apply IH; assumption.
Qed.

(* the fuel given by the callers (the size of the matrix) is enough: more fuel changes nothing *)
Lemma prefetch_fuel_irrelevant : forall f1 f2 E Q,
  msize E Q <= f1 -> msize E Q <= f2 -> prefetch inc f1 E Q = prefetch inc f2 E Q.
Proof.
  induction f1 as [|f1 IH]; intros f2 E Q H1 H2; rewrite (prefetch_unfold f2), prefetch_unfold;
    destruct (prefetch_first inc E Q) as [[[F QF] E1] Q1];
    destruct (prefetch_last inc E1 Q1) as [[[Le Lq] E2] Q2]; cbv beta iota zeta.
  - destruct (msize E2 Q2 <? msize E Q) eqn:Hlt; [|reflexivity].
    apply Nat.ltb_lt in Hlt. lia.
  - destruct (msize E2 Q2 <? msize E Q) eqn:Hlt; [|reflexivity].
    apply Nat.ltb_lt in Hlt. destruct f2 as [|f2]; [lia|].
    rewrite (IH f2 E2 Q2) by lia. reflexivity.
Qed.

(* ---------------------------------------------------------------- triangularize_inner_block *)

Variable oracle : oracle_t.
Definition perm_oracle (o : oracle_t) : Prop := forall k v, Permutation (o k v) (seq 0 (length v)).
Hypothesis oracle_perm : perm_oracle oracle.

Lemma flip_if_perm : forall b p l, Permutation p l -> Permutation (flip_if b p) l.
Proof.
  intros b p l H. destruct b; simpl; [|exact H].
  eapply Permutation_trans; [apply Permutation_sym; apply Permutation_rev | exact H].
Qed.

Lemma triang_unfold : forall fuel cnt es qs,
  triang inc oracle fuel cnt es qs =
  match fuel with
  | 0 => (es, qs, cnt)
  | S f =>
      let pc := flip_if column_reordering_flips (oracle (2 * cnt) (map (colsum inc es) qs)) in
      let qs' := permute 0 pc qs in
      let pr := flip_if row_reordering_flips (oracle (2 * cnt + 1) (map (rowsum inc qs') es)) in
      let es' := permute 0 pr es in
      if nat_list_eqb es es' && nat_list_eqb qs qs' then (es', qs', S cnt)
      else triang inc oracle f (S cnt) es' qs'
  end.
Proof. destruct fuel; reflexivity. Qed.

Lemma triang_perm : forall fuel cnt es qs es' qs' it,
  triang inc oracle fuel cnt es qs = (es', qs', it) -> Permutation es' es /\ Permutation qs' qs.
Proof.
  induction fuel as [|f IH]; intros cnt es qs es' qs' it H; rewrite triang_unfold in H.
  - injection H as <- <- _. split; apply Permutation_refl.
  - cbv zeta in H.
    set (pc := flip_if column_reordering_flips (oracle (2 * cnt) (map (colsum inc es) qs))) in *.
    set (qs1 := permute 0 pc qs) in *.
    set (pr := flip_if row_reordering_flips (oracle (2 * cnt + 1) (map (rowsum inc qs1) es))) in *.
    set (es1 := permute 0 pr es) in *.
    assert (Hq : Permutation qs1 qs).
    { apply permute_perm. apply flip_if_perm. rewrite <- (map_length (colsum inc es) qs). apply oracle_perm. }
    assert (He : Permutation es1 es).
    { apply permute_perm. apply flip_if_perm. rewrite <- (map_length (rowsum inc qs1) es). apply oracle_perm. }
    destruct (nat_list_eqb es es1 && nat_list_eqb qs qs1).
    + injection H as <- <- _. split; assumption.
    + apply IH in H. destruct H as [H1 H2]. split; eapply Permutation_trans; eassumption.
Qed.

(* ---------------------------------------------------------------- _generate_inner_blocks *)

Lemma find_cut_spec : forall k i es qs b,
  find_cut inc k i es qs = Some b -> i <= b < i + k /\ corner_zero inc b es qs = true.
Proof.
  induction k as [|k IH]; intros i es qs b H; simpl in H; [discriminate|].
  destruct (corner_zero inc i es qs) eqn:Hc.
  - injection H as <-. split; [lia | exact Hc].
  - apply IH in H. destruct H as [H1 H2]. split; [lia | exact H2].
Qed.

Lemma find_cut_complete : forall k i es qs j,
  i <= j < i + k -> corner_zero inc j es qs = true -> find_cut inc k i es qs <> None.
Proof.
  induction k as [|k IH]; intros i es qs j Hj Hc; simpl; [lia|].
  destruct (corner_zero inc i es qs) eqn:Hci; [discriminate|].
  apply (IH (S i) es qs j); [|exact Hc].
  assert (i <> j) by (intros E; subst; congruence). lia.
Qed.

Lemma corner_zero_zero : forall b es qs, corner_zero inc b es qs = true -> zero (firstn b es) (skipn b qs).
Proof.
  intros b es qs H e q He Hq. unfold corner_zero in H. rewrite forallb_forall in H.
  specialize (H e He). rewrite forallb_forall in H. specialize (H q Hq). apply negb_true_iff in H. exact H.
Qed.

Lemma corner_zero_full : forall es qs, length qs <= length es -> corner_zero inc (length es) es qs = true.
Proof.
  intros es qs H. unfold corner_zero. rewrite (skipn_all2 qs) by exact H.
  apply forallb_forall. intros e _. reflexivity.
Qed.

Lemma gen_blocks_unfold : forall fuel es qs,
  gen_blocks inc fuel es qs =
  if msize es qs =? 0 then Some []
  else match fuel with
       | 0 => None
       | S f =>
           match find_cut inc (length es + 1 - first_block_size_candidate) first_block_size_candidate es qs with
           | None => None
           | Some bs =>
               match gen_blocks inc f (skipn bs es) (skipn bs qs) with
               | None => None
               | Some r => Some ((firstn bs es, firstn bs qs) :: r)
               end
           end
       end.
Proof. destruct fuel; reflexivity. Qed.

Lemma gen_blocks_spec : forall fuel es qs,
  length es = length qs -> length es <= fuel ->
  exists bs, gen_blocks inc fuel es qs = Some bs /\ beids bs = es /\ bqids bs = qs /\ Forall square bs /\ Tri bs.
Proof.
  induction fuel as [|f IH]; intros es qs Hlen Hfuel; rewrite gen_blocks_unfold; unfold msize.
  - assert (es = []) by (destruct es; [reflexivity | simpl in Hfuel; lia]). subst es.
    destruct qs; [|discriminate]. simpl. exists []. repeat split; constructor.
  - destruct (length es * length qs =? 0) eqn:Hz.
    + apply Nat.eqb_eq in Hz. assert (length es = 0) by nia.
      destruct es; [|discriminate]. destruct qs; [|discriminate].
      exists []. repeat split; constructor.
    + apply Nat.eqb_neq in Hz. assert (Hpos : 1 <= length es) by nia.
      change first_block_size_candidate with 1.
      destruct (find_cut inc (length es + 1 - 1) 1 es qs) as [b|] eqn:Hcut.
      * apply find_cut_spec in Hcut. destruct Hcut as [Hb Hc].
        destruct (IH (skipn b es) (skipn b qs)) as [r [Hr [He [Hq [Hsq Htri]]]]].
        { rewrite !skipn_length. lia. }
        { rewrite skipn_length. lia. }
        rewrite Hr. exists ((firstn b es, firstn b qs) :: r). split; [reflexivity|].
        split; [|split; [|split]].
        -- unfold beids in *. simpl. rewrite He. apply firstn_skipn.
        -- unfold bqids in *. simpl. rewrite Hq. apply firstn_skipn.
        -- constructor; [|exact Hsq]. unfold square. simpl. rewrite !firstn_length. lia.
        -- simpl. split; [|exact Htri]. rewrite Hq. apply corner_zero_zero. exact Hc.
      * exfalso. apply (find_cut_complete (length es + 1 - 1) 1 es qs (length es)) in Hcut; [exact Hcut | lia |].
        apply corner_zero_full. lia.
Qed.

(* ---------------------------------------------------------------- blaze (on positions) *)

Lemma blaze_core_spec : forall s E Q,
  NoDup E -> NoDup Q -> PMf s E Q ->
  exists bs pre calls,
    blaze_core inc oracle E Q = Some (bs, pre, calls) /\
    Permutation (beids bs) E /\ Permutation (bqids bs) Q /\ Forall square bs /\ Tri bs.
Proof.
  intros s E Q HE HQ HPM. unfold blaze_core.
  pose proof (prefetch_spec s (msize E Q) E Q HE HQ HPM) as Hs.
  set (pre := prefetch inc (msize E Q) E Q) in *.
  destruct Hs as [rE rQ rqf rql rtf rtl rzf rzi rpm rndE rndQ].
  assert (Hinner : exists ei qi it,
     (if msize (p_ei pre) (p_qi pre) =? 0 then (p_ei pre, p_qi pre, 0)
      else triang inc oracle max_iterations 0 (p_ei pre) (p_qi pre)) = (ei, qi, it)
     /\ Permutation ei (p_ei pre) /\ Permutation qi (p_qi pre)).
  { destruct (msize (p_ei pre) (p_qi pre) =? 0).
    - exists (p_ei pre), (p_qi pre), 0. split; [reflexivity | split; apply Permutation_refl].
    - destruct (triang inc oracle max_iterations 0 (p_ei pre) (p_qi pre)) as [[ei qi] it] eqn:Ht.
      exists ei, qi, it. split; [reflexivity|]. eapply triang_perm. exact Ht. }
  destruct Hinner as [ei [qi [it [Hin [Hpe Hpq]]]]]. rewrite Hin.
  assert (Hlen : length ei = length qi).
  { rewrite (Permutation_length Hpe), (Permutation_length Hpq). eapply PMf_length. exact rpm. }
  destruct (gen_blocks_spec (length ei) ei qi Hlen (le_n _)) as [inner [Hg [Hbe [Hbq [Hsq Htri]]]]].
  rewrite Hg. eexists. eexists. eexists. split; [reflexivity|].
  rewrite rqf, rql.
  split; [|split; [|split]].
  - rewrite !beids_app, !beids_singles, Hbe.
    eapply Permutation_trans; [|apply Permutation_sym; exact rE].
    apply Permutation_app_head. apply Permutation_app_tail. exact Hpe.
  - rewrite !bqids_app, !bqids_singles, Hbq.
    eapply Permutation_trans; [|apply Permutation_sym; exact rQ]. rewrite rqf, rql.
    apply Permutation_app_head. apply Permutation_app_tail. exact Hpq.
  - apply Forall_app. split; [apply square_singles | apply Forall_app; split; [exact Hsq | apply square_singles]].
  - apply Tri_app. split; [apply Tri_singles; exact rtf|]. split.
    + apply Tri_app. split; [exact Htri|]. split; [apply Tri_singles; exact rtl|].
      rewrite Hbe, bqids_singles, <- rql.
      eapply zero_incl; [exact rzi | | apply incl_refl]. intros e He. eapply Permutation_in; eassumption.
    + rewrite beids_singles, bqids_app, Hbq, bqids_singles, <- rql.
      eapply zero_incl; [exact rzf | apply incl_refl |]. intros q Hq.
      apply in_app_or in Hq. apply in_or_app. destruct Hq as [Hq|Hq]; [left; eapply Permutation_in; eassumption | right; exact Hq].
Qed.

(* ---------------------------------------------------------------- consequences of triangularity *)

(* positive form: an equation of block b involves only quantities of b and of earlier blocks *)
Lemma Tri_positive : forall bs Q, Permutation (bqids bs) Q -> Tri bs ->
  forall pre b post, bs = pre ++ b :: post ->
  forall e q, In e (fst b) -> In q Q -> inc e q = true -> In q (bqids (pre ++ [b])).
Proof.
  intros bs Q HQ Htri pre b post Hbs e q He Hq Hinc. subst bs.
  apply Tri_app in Htri. destruct Htri as [_ [Htri _]]. simpl in Htri. destruct Htri as [Hz _].
  apply Permutation_sym in HQ. apply (Permutation_in _ HQ) in Hq.
  rewrite bqids_app in Hq. change (bqids (b :: post)) with (snd b ++ bqids post) in Hq.
  rewrite bqids_app. change (bqids [b]) with (snd b ++ []). rewrite app_nil_r.
  rewrite !in_app_iff in Hq. rewrite in_app_iff. destruct Hq as [Hq|[Hq|Hq]]; [tauto | tauto |].
  rewrite (Hz e q He Hq) in Hinc. discriminate.
Qed.

(* structural non-singularity: a perfect matching of the whole matrix restricts to a perfect
   matching of every diagonal block *)
Lemma blocks_matched : forall s bs,
  NoDup (bqids bs) -> Permutation (map s (beids bs)) (bqids bs) ->
  (forall e, In e (beids bs) -> inc e (s e) = true) ->
  Forall square bs -> Tri bs ->
  Forall (fun b => PMf s (fst b) (snd b)) bs.
Proof.
  intros s bs. induction bs as [|b r IH]; intros Hnd Hperm Hinc Hsq Htri; [constructor|].
  change (beids (b :: r)) with (fst b ++ beids r) in *.
  change (bqids (b :: r)) with (snd b ++ bqids r) in *.
  simpl in Htri. destruct Htri as [Hz Htri]. inversion Hsq as [|? ? Hsqb Hsqr]; subst.
  rewrite map_app in Hperm.
  assert (Hsub : incl (map s (fst b)) (snd b)).
  { intros q Hq. apply in_map_iff in Hq. destruct Hq as [e [Eq He]]. subst q.
    assert (Hin : In (s e) (snd b ++ bqids r)).
    { eapply Permutation_in; [exact Hperm|]. apply in_or_app. left. apply in_map. exact He. }
    apply in_app_or in Hin. destruct Hin as [Hin|Hin]; [exact Hin|].
    assert (Hi : inc e (s e) = true) by (apply Hinc; apply in_or_app; left; exact He).
    rewrite (Hz e (s e) He Hin) in Hi. discriminate. }
  assert (Hnd1 : NoDup (map s (fst b))).
  { eapply NoDup_app_l. eapply Permutation_NoDup; [apply Permutation_sym; exact Hperm | exact Hnd]. }
  assert (Hpb : Permutation (map s (fst b)) (snd b)).
  { apply NoDup_Permutation_bis; [exact Hnd1 | rewrite map_length; unfold square in Hsqb; lia | exact Hsub]. }
  constructor.
  - split; [exact Hpb|]. intros e He. apply Hinc. apply in_or_app. left. exact He.
  - apply IH; [eapply NoDup_app_r; exact Hnd | | | exact Hsqr | exact Htri].
    + apply (Permutation_app_inv_l (snd b)).
      eapply Permutation_trans; [apply Permutation_app_tail; apply Permutation_sym; exact Hpb | exact Hperm].
    + intros e He. apply Hinc. apply in_or_app. right. exact He.
Qed.

(* ---------------------------------------------------------------- the diagonal case (Sequential models):
   the same ids label rows and columns and every row is incident to its own column *)

Definition diag (E : list nat) : Prop := forall e, In e E -> inc e e = true.

Lemma PMf_id : forall E, diag E -> PMf (fun x => x) E E.
Proof. intros E H. split; [rewrite map_id; apply Permutation_refl | exact H]. Qed.

Lemma prefetch_first_diag : forall E F QF E1 Q1, NoDup E -> diag E ->
  prefetch_first inc E E = (F, QF, E1, Q1) -> QF = F /\ Q1 = E1.
Proof.
  intros E F QF E1 Q1 HE Hd H.
  destruct (prefetch_first_spec _ _ _ _ _ _ _ HE HE (PMf_id E Hd) H) as [HQF _].
  rewrite map_id in HQF. split; [exact HQF|].
  unfold prefetch_first in H. injection H as HF HQF' HE1 HQ1.
  rewrite <- HQ1, <- HE1. rewrite HQF', HQF. apply filter_ext_in. intros q Hq. f_equal.
  rewrite <- HF. destruct (rowsum inc E q =? singleton_row_count) eqn:Es.
  - apply mem_In. apply filter_In. tauto.
  - apply mem_false. rewrite filter_In. intros [_ C]. congruence.
Qed.

Lemma prefetch_last_diag : forall E Le Lq E2 Q2, NoDup E -> diag E ->
  prefetch_last inc E E = (Le, Lq, E2, Q2) -> Lq = Le /\ Q2 = E2.
Proof.
  intros E Le Lq E2 Q2 HE Hd H.
  destruct (prefetch_last_spec _ _ _ _ _ _ _ HE HE (PMf_id E Hd) H) as [HLq _].
  rewrite map_id in HLq. split; [exact HLq|].
  unfold prefetch_last in H. injection H as HLe HLq' HE2 HQ2.
  rewrite <- HQ2, <- HE2. rewrite HLe, <- HLq. apply filter_ext_in. intros e He. f_equal.
  rewrite <- HLq'. destruct (colsum inc E e =? singleton_column_count) eqn:Es.
  - symmetry. apply mem_In. apply filter_In. tauto.
  - symmetry. apply mem_false. rewrite filter_In. intros [_ C]. congruence.
Qed.

Lemma diag_incl : forall E E', diag E -> incl E' E -> diag E'.
Proof. unfold diag, incl. auto. Qed.

(* one level of prefetch on a diagonal matrix: everything stays diagonal *)
Lemma prefetch_level_diag : forall E F QF E1 Q1 Le Lq E2 Q2, NoDup E -> diag E ->
  prefetch_first inc E E = (F, QF, E1, Q1) -> prefetch_last inc E1 Q1 = (Le, Lq, E2, Q2) ->
  QF = F /\ Q1 = E1 /\ Lq = Le /\ Q2 = E2 /\ NoDup E2 /\ diag E2 /\ incl E2 E /\ Permutation E (F ++ E2 ++ Le).
Proof.
  intros E F QF E1 Q1 Le Lq E2 Q2 HE Hd H1 H2.
  destruct (prefetch_first_diag _ _ _ _ _ HE Hd H1) as [-> ->].
  destruct (prefetch_first_spec _ _ _ _ _ _ _ HE HE (PMf_id E Hd) H1) as [_ [HEp [_ [_ [_ [HPM1 [HE1 _]]]]]]].
  assert (HinclE1 : incl E1 E).
  { intros x Hx. eapply Permutation_in; [apply Permutation_sym; exact HEp|]. apply in_or_app. right. exact Hx. }
  assert (Hd1 : diag E1) by exact (diag_incl E E1 Hd HinclE1).
  destruct (prefetch_last_diag _ _ _ _ _ HE1 Hd1 H2) as [-> ->].
  destruct (prefetch_last_spec _ _ _ _ _ _ _ HE1 HE1 (PMf_id E1 Hd1) H2) as [_ [HE1p [_ [_ [_ [_ [HE2 _]]]]]]].
  assert (HinclE2 : incl E2 E).
  { intros x Hx. apply HinclE1. eapply Permutation_in; [apply Permutation_sym; exact HE1p|]. apply in_or_app. left. exact Hx. }
  repeat split; auto.
  - exact (diag_incl E E2 Hd HinclE2).
  - eapply Permutation_trans; [exact HEp|]. apply Permutation_app_head. exact HE1p.
Qed.

Lemma prefetch_diag : forall fuel E, NoDup E -> diag E -> p_qi (prefetch inc fuel E E) = p_ei (prefetch inc fuel E E).
Proof.
  induction fuel as [|f IH]; intros E HE Hd; rewrite prefetch_unfold;
    destruct (prefetch_first inc E E) as [[[F QF] E1] Q1] eqn:H1;
    destruct (prefetch_last inc E1 Q1) as [[[Le Lq] E2] Q2] eqn:H2; cbv beta iota zeta;
    destruct (prefetch_level_diag _ _ _ _ _ _ _ _ _ HE Hd H1 H2) as [-> [-> [-> [-> [HE2 [Hd2 _]]]]]].
  - destruct (msize E2 E2 <? msize E E); reflexivity.
  - destruct (msize E2 E2 <? msize E E); [|reflexivity]. simpl. apply IH; assumption.
Qed.

(* causality of the order eids_first + eids_last whenever it covers all equations *)
Lemma strict_order_causal : forall fuel E, NoDup E -> diag E ->
  let r := prefetch inc fuel E E in
  Permutation (p_ef r ++ p_el r) E -> TriS (fun x => x) (p_ef r ++ p_el r).
Proof.
  intros fuel E HE Hd r Hp.
  destruct (prefetch_spec (fun x => x) fuel E E HE HE (PMf_id E Hd)) as [rE rQ rqf rql rtf rtl rzf rzi rpm rndE rndQ].
  fold r in rE, rQ, rqf, rql, rtf, rtl, rzf, rzi, rpm, rndE, rndQ.
  apply TriS_app. split; [exact rtf|]. split; [exact rtl|].
  intros e e' He He'. apply rzf; [exact He|]. apply in_or_app. right. rewrite rql, map_id. exact He'.
Qed.

Lemma TriS_filter : forall s f l, TriS s l -> TriS s (filter f l).
Proof.
  intros s f l. induction l as [|x l IH]; simpl; intros H; [exact I|].
  destruct H as [H1 H2]. destruct (f x); simpl.
  - split; [|apply IH; exact H2]. intros e' He'. apply H1. apply filter_In in He'. tauto.
  - apply IH. exact H2.
Qed.

(* completeness: when a causal order exists the peeling consumes every equation *)
Lemma prefetch_complete : forall fuel E, NoDup E -> diag E -> msize E E <= fuel ->
  (exists ord, Permutation ord E /\ TriS (fun x => x) ord) ->
  p_ei (prefetch inc fuel E E) = [].
Proof.
  induction fuel as [|f IH]; intros E HE Hd Hfuel [ord [Hperm Hord]]; rewrite prefetch_unfold;
    destruct (prefetch_first inc E E) as [[[F QF] E1] Q1] eqn:H1;
    destruct (prefetch_last inc E1 Q1) as [[[Le Lq] E2] Q2] eqn:H2; cbv beta iota zeta;
    destruct (prefetch_level_diag _ _ _ _ _ _ _ _ _ HE Hd H1 H2) as [EQF [EQ1 [ELq [EQ2 [HE2 [Hd2 [Hincl HEp]]]]]]];
    subst QF Q1 Lq Q2.
  - (* no fuel: the matrix is empty *)
    unfold msize in Hfuel. assert (length E = 0) by nia. destruct E; [|discriminate].
    assert (E2 = []) by (destruct E2 as [|x ?]; [reflexivity | exfalso; apply (Hincl x); left; reflexivity]).
    subst E2. destruct (msize [] [] <? msize [] []); reflexivity.
  - destruct ord as [|e0 rest].
    + (* E is empty *)
      apply Permutation_nil in Hperm. subst E.
      assert (E2 = []) by (destruct E2 as [|x ?]; [reflexivity | exfalso; apply (Hincl x); left; reflexivity]).
      subst E2. destruct (msize [] [] <? msize [] []); [|reflexivity]. simpl.
      apply IH; [constructor | intros ? [] | unfold msize; simpl; lia |].
      exists []. split; [constructor | exact I].
    + (* the first equation of the causal order is a singleton row *)
      assert (He0 : In e0 E) by (eapply Permutation_in; [exact Hperm | left; reflexivity]).
      assert (Hrow : rowsum inc E e0 = 1).
      { unfold rowsum. rewrite <- (count_perm (inc e0) _ _ Hperm). unfold count. simpl.
        rewrite (Hd e0 He0). simpl. f_equal.
        rewrite filter_all_false; [reflexivity|]. intros x Hx. apply (proj1 Hord). exact Hx. }
      assert (HF : In e0 F).
      { unfold prefetch_first in H1. injection H1 as HF _ _ _. rewrite <- HF. apply filter_In. split; [exact He0|].
        rewrite Hrow. reflexivity. }
      assert (Hlt : length E2 < length E).
      { apply Permutation_length in HEp. rewrite !app_length in HEp.
        destruct F; [destruct HF | simpl in HEp; lia]. }
      assert (Hm : msize E2 E2 < msize E E) by (unfold msize; nia).
      apply Nat.ltb_lt in Hm. rewrite Hm. simpl.
      apply IH; [exact HE2 | exact Hd2 | apply Nat.ltb_lt in Hm; lia |].
      exists (filter (fun x => mem x E2) (e0 :: rest)). split.
      * eapply Permutation_trans; [apply Permutation_filter_; exact Hperm|].
        apply NoDup_Permutation; [apply NoDup_filter_; exact HE | exact HE2 |].
        intros x. rewrite filter_In, mem_In. split; [tauto | intros Hx; split; [apply Hincl; exact Hx | exact Hx]].
      * apply TriS_filter. exact Hord.
Qed.

End CoreProofs.

(* ================================================================== matrices with id labels *)

Definition is_square (im : bmat) (n : nat) : Prop := length im = n /\ Forall (fun r => length r = n) im.

(* a perfect matching of a square boolean matrix: a permutation p with im[i][p[i]] = True for all i *)
Definition has_perfect_matching (im : bmat) : Prop :=
  exists p, Permutation p (seq 0 (length im)) /\ forall i, i < length im -> inc_pos im i (nth i p 0) = true.

(* equation e involves quantity q *)
Definition Inc (im : bmat) (eids qids : list nat) (e q : nat) : Prop :=
  exists i j, nth_error eids i = Some e /\ nth_error qids j = Some q /\ inc_pos im i j = true.

(* each block's equations involve only quantities of that block and of earlier blocks *)
Definition block_lower_triangular (im : bmat) (eids qids : list nat) (bs : list block) : Prop :=
  forall pre b post, bs = pre ++ b :: post ->
  forall e q, In e (fst b) -> Inc im eids qids e q -> In q (bqids (pre ++ [b])).

(* the block is structurally non-singular: its equations and quantities can be paired off along incidences *)
Definition block_matching (im : bmat) (eids qids : list nat) (b : block) : Prop :=
  exists ms : list (nat * nat),
    Permutation (map fst ms) (fst b) /\ Permutation (map snd ms) (snd b) /\
    Forall (fun m => Inc im eids qids (fst m) (snd m)) ms.

Lemma ncols_square : forall im n, is_square im n -> ncols im = n.
Proof.
  intros im n [Hl Hr]. unfold ncols. destruct im as [|r im]; simpl in *; [exact Hl|].
  inversion Hr; subst. assumption.
Qed.

Lemma lab_seq : forall ids, map (lab ids) (seq 0 (length ids)) = ids.
Proof. intros. unfold lab. apply map_nth_seq. Qed.

Lemma beids_relabel : forall eids qids bs,
  Permutation (beids (map (relabel_block eids qids) bs)) (map (lab eids) (beids bs)).
Proof.
  intros. unfold beids. rewrite concat_map, !map_map. apply Permutation_concat_map.
  intros b _. simpl. apply sortn_perm.
Qed.

Lemma bqids_relabel : forall eids qids bs,
  Permutation (bqids (map (relabel_block eids qids) bs)) (map (lab qids) (bqids bs)).
Proof.
  intros. unfold bqids. rewrite concat_map, !map_map. apply Permutation_concat_map.
  intros b _. simpl. apply sortn_perm.
Qed.

Lemma lab_nth_error : forall ids i, i < length ids -> nth_error ids i = Some (lab ids i).
Proof. intros. unfold lab. apply nth_error_nth'. assumption. Qed.

Lemma nth_error_lab_inj : forall ids i j e, NoDup ids -> i < length ids ->
  nth_error ids j = Some e -> lab ids i = e -> j = i.
Proof.
  intros ids i j e Hnd Hi Hj He.
  assert (Hjl : j < length ids) by (apply nth_error_Some; congruence).
  apply (proj1 (NoDup_nth ids 0) Hnd); [exact Hjl | exact Hi |].
  apply nth_error_nth with (d := 0) in Hj. unfold lab in He. congruence.
Qed.

Theorem blaze_valid : forall oracle im eids qids n,
  perm_oracle oracle ->
  is_square im n -> length eids = n -> length qids = n -> NoDup eids -> NoDup qids ->
  has_perfect_matching im ->
  exists out, blaze oracle im eids qids = Some out /\
    Permutation (beids (o_blocks out)) eids /\
    Permutation (bqids (o_blocks out)) qids /\
    Forall square (o_blocks out) /\
    block_lower_triangular im eids qids (o_blocks out) /\
    Forall (block_matching im eids qids) (o_blocks out).
Proof.
  intros oracle im eids qids n Hor Hsq Hle Hlq Hnde Hndq [p [Hp Hpm]].
  assert (Hrows : length im = n) by apply Hsq.
  assert (Hcols : ncols im = n) by (apply ncols_square; exact Hsq).
  set (inc := inc_pos im).
  set (s := fun i => nth i p 0).
  assert (Hplen : length p = n) by (rewrite (Permutation_length Hp), seq_length; exact Hrows).
  assert (Hsp : map s (seq 0 n) = p) by (unfold s; rewrite <- Hplen; apply map_nth_seq).
  assert (HPM : PMf inc s (seq 0 n) (seq 0 n)).
  { split; [rewrite Hsp, <- Hrows; exact Hp|]. intros e He. apply in_seq in He. apply Hpm. lia. }
  destruct (blaze_core_spec inc oracle Hor s (seq 0 n) (seq 0 n) (seq_NoDup _ _) (seq_NoDup _ _) HPM)
    as [bs [pre [calls [Hcore [HbE [HbQ [Hsqs Htri]]]]]]].
  unfold blaze. fold inc. rewrite Hrows, Hcols, Hcore.
  eexists. split; [reflexivity|]. simpl.
  assert (HinE : forall i, In i (beids bs) -> i < n).
  { intros i Hi. apply (Permutation_in _ HbE) in Hi. apply in_seq in Hi. lia. }
  assert (HinQ : forall j, In j (bqids bs) -> j < n).
  { intros j Hj. apply (Permutation_in _ HbQ) in Hj. apply in_seq in Hj. lia. }
  split; [|split; [|split; [|split]]].
  - eapply Permutation_trans; [apply beids_relabel|].
    eapply Permutation_trans; [apply Permutation_map; exact HbE|]. rewrite <- Hle. rewrite lab_seq. apply Permutation_refl.
  - eapply Permutation_trans; [apply bqids_relabel|].
    eapply Permutation_trans; [apply Permutation_map; exact HbQ|]. rewrite <- Hlq. rewrite lab_seq. apply Permutation_refl.
  - apply Forall_forall. intros b Hb. apply in_map_iff in Hb. destruct Hb as [b' [Eb Hb']]. subst b.
    rewrite Forall_forall in Hsqs. specialize (Hsqs b' Hb'). unfold square in *. simpl.
    rewrite (Permutation_length (sortn_perm _)), (Permutation_length (sortn_perm _)), !map_length. exact Hsqs.
  - (* block lower triangular *)
    intros pre0 b post Hsplit e q He [i2 [j [Hi2 [Hj Hinc]]]].
    apply map_eq_app in Hsplit. destruct Hsplit as [pre' [rest' [Hbs [Hpre Hrest]]]].
    apply map_eq_cons in Hrest. destruct Hrest as [b' [post' [Hrest' [Hb Hpost]]]]. subst rest'.
    subst b. simpl in He. apply (Permutation_in _ (sortn_perm _)) in He.
    apply in_map_iff in He. destruct He as [i [Ei Hi]].
    assert (Hib : In i (beids bs)).
    { rewrite Hbs. rewrite beids_app. apply in_or_app. right. unfold beids. simpl. apply in_or_app. left. exact Hi. }
    assert (Hin : i < n) by (apply HinE; exact Hib).
    assert (i2 = i) by (eapply nth_error_lab_inj; [exact Hnde | rewrite Hle; exact Hin | exact Hi2 | exact Ei]).
    subst i2.
    assert (Hjn : j < n) by (rewrite <- Hlq; apply nth_error_Some; congruence).
    assert (Hjpos : In j (bqids (pre' ++ [b']))).
    { apply (Tri_positive inc bs (seq 0 n) HbQ Htri pre' b' post' Hbs i j Hi); [apply in_seq; lia | exact Hinc]. }
    assert (Hq : q = lab qids j) by (apply nth_error_nth with (d := 0) in Hj; unfold lab; congruence).
    rewrite <- Hpre. change [relabel_block eids qids b'] with (map (relabel_block eids qids) [b']).
    rewrite <- map_app.
    eapply Permutation_in; [apply Permutation_sym; apply bqids_relabel|]. subst q. apply in_map. exact Hjpos.
  - (* every diagonal block has a perfect matching *)
    assert (Hmatched : Forall (fun b => PMf inc s (fst b) (snd b)) bs).
    { apply blocks_matched; [| | | exact Hsqs | exact Htri].
      - eapply Permutation_NoDup; [apply Permutation_sym; exact HbQ | apply seq_NoDup].
      - eapply Permutation_trans; [apply Permutation_map; exact HbE|]. rewrite Hsp.
        eapply Permutation_trans; [|apply Permutation_sym; exact HbQ]. rewrite <- Hrows. exact Hp.
      - intros e He. apply Hpm. rewrite Hrows. apply HinE. exact He. }
    apply Forall_forall. intros b Hb. apply in_map_iff in Hb. destruct Hb as [b' [Eb Hb']]. subst b.
    rewrite Forall_forall in Hmatched. destruct (Hmatched b' Hb') as [Hperm Hincs].
    exists (map (fun i => (lab eids i, lab qids (s i))) (fst b')). simpl. rewrite !map_map. simpl.
    split; [apply Permutation_sym; apply sortn_perm|]. split.
    + eapply Permutation_trans; [|apply Permutation_sym; apply sortn_perm].
      rewrite <- (map_map s (lab qids)). apply Permutation_map. exact Hperm.
    + apply Forall_forall. intros m Hm. apply in_map_iff in Hm. destruct Hm as [i [Em Hi]]. subst m. simpl.
      assert (Hib : In i (beids bs)) by (unfold beids; apply in_concat; exists (fst b'); split; [apply in_map; exact Hb' | exact Hi]).
      assert (Hsb : In (s i) (bqids bs)).
      { unfold bqids. apply in_concat. exists (snd b'). split; [apply in_map; exact Hb'|].
        eapply Permutation_in; [exact Hperm | apply in_map; exact Hi]. }
      exists i, (s i). split; [apply lab_nth_error; rewrite Hle; apply HinE; exact Hib|].
      split; [apply lab_nth_error; rewrite Hlq; apply HinQ; exact Hsb|]. apply Hincs. exact Hi.
Qed.

(* ================================================================== Sequential models *)

Definition lhs (M : list eqn) (i : nat) : nat := fst (nth i M (0, [])).
Definition occ (M : list eqn) (i : nat) : list nat := snd (nth i M (0, [])).

(* every equation has its own LHS name ... *)
Definition distinct_lhs (M : list eqn) : Prop := NoDup (map fst M).
(* ... which occurs (at zero shift) in the equation *)
Definition lhs_occurs (M : list eqn) : Prop := forall eq, In eq M -> In (fst eq) (snd eq).

(* `ord` lists equation positions.  Every LHS variable v of the model that the equation at place p
   uses at zero shift (other than its own LHS variable) has been determined by an equation at an
   earlier place p'. *)
Definition causal_order (M : list eqn) (ord : list nat) : Prop :=
  forall p i, nth_error ord p = Some i ->
  forall v, In v (occ M i) -> v <> lhs M i -> In v (map fst M) ->
  exists p' j, p' < p /\ nth_error ord p' = Some j /\ lhs M j = v.

Definition sequential_order (M : list eqn) (ord : list nat) : Prop :=
  Permutation ord (seq 0 (length M)) /\ causal_order M ord.

Lemma TriS_nth : forall inc s l p p' a b, TriS inc s l -> p < p' ->
  nth_error l p = Some a -> nth_error l p' = Some b -> inc a (s b) = false.
Proof.
  intros inc s l. induction l as [|x l IH]; intros p p' a b H Hlt Ha Hb; [destruct p; discriminate|].
  destruct H as [H1 H2]. destruct p' as [|p']; [lia|]. simpl in Hb.
  destruct p as [|p]; simpl in Ha.
  - injection Ha as <-. apply H1. eapply nth_error_In. exact Hb.
  - apply (IH p p' a b H2); [lia | exact Ha | exact Hb].
Qed.

Lemma TriS_of_nth : forall inc s l,
  (forall p p' a b, p < p' -> nth_error l p = Some a -> nth_error l p' = Some b -> inc a (s b) = false) ->
  TriS inc s l.
Proof.
  intros inc s l. induction l as [|x l IH]; intros H; simpl; [exact I|]. split.
  - intros e' He'. apply In_nth_error in He'. destruct He' as [k Hk].
    apply (H 0 (S k) x e'); [lia | reflexivity | exact Hk].
  - apply IH. intros p p' a b Hlt Ha Hb. apply (H (S p) (S p') a b); [lia | exact Ha | exact Hb].
Qed.

Lemma uniq_nodup : forall l seen, NoDup l -> (forall x, In x l -> ~ In x seen) -> uniq l seen = l.
Proof.
  induction l as [|x l IH]; intros seen Hnd Hdis; simpl; [reflexivity|].
  inversion Hnd; subst.
  assert (Hm : mem x seen = false) by (apply mem_false; apply Hdis; left; reflexivity).
  rewrite Hm. f_equal. apply IH; [assumption|].
  intros y Hy [Hs|Hs]; [subst; contradiction | apply (Hdis y); [right; exact Hy | exact Hs]].
Qed.

Lemma lhs_names_distinct : forall M, distinct_lhs M -> lhs_names M = map fst M.
Proof. intros M H. unfold lhs_names. apply uniq_nodup; [exact H | intros x _ []]. Qed.

Lemma seq_im_length : forall M, length (seq_im M) = length M.
Proof. intros. unfold seq_im. apply map_length. Qed.

Lemma seq_im_ncols : forall M, distinct_lhs M -> ncols (seq_im M) = length M.
Proof.
  intros M H. unfold ncols, seq_im. rewrite (lhs_names_distinct M H).
  destruct M as [|eq M]; simpl; [reflexivity|]. rewrite !map_length. reflexivity.
Qed.

Lemma seq_im_inc : forall M i j, distinct_lhs M -> i < length M -> j < length M ->
  inc_pos (seq_im M) i j = mem (lhs M j) (occ M i).
Proof.
  intros M i j H Hi Hj. unfold inc_pos, seq_im. rewrite (lhs_names_distinct M H).
  set (f := fun eq : eqn => map (fun v => mem v (snd eq)) (map fst M)).
  rewrite (nth_indep (map f M) [] (f (0, []))) by (rewrite map_length; exact Hi).
  rewrite map_nth. unfold f.
  set (g := fun v => mem v (snd (nth i M (0, [])))).
  rewrite (nth_indep (map g (map fst M)) false (g 0)) by (rewrite !map_length; exact Hj).
  rewrite map_nth. unfold g.
  change 0 with (fst (0, @nil nat)) at 1. rewrite map_nth. reflexivity.
Qed.

Lemma lhs_in : forall M j, j < length M -> In (lhs M j) (map fst M).
Proof. intros. unfold lhs. apply in_map. apply nth_In. assumption. Qed.

Lemma lhs_inj : forall M i j, distinct_lhs M -> i < length M -> j < length M -> lhs M i = lhs M j -> i = j.
Proof.
  intros M i j H Hi Hj E. unfold lhs in E.
  apply (proj1 (NoDup_nth (map fst M) 0) H); rewrite ?map_length; auto.
  change 0 with (fst (0, @nil nat)). rewrite !map_nth. exact E.
Qed.

Lemma seq_im_diag : forall M, distinct_lhs M -> lhs_occurs M -> diag (inc_pos (seq_im M)) (seq 0 (length M)).
Proof.
  intros M Hd Ho i Hi. apply in_seq in Hi. rewrite seq_im_inc by (auto; lia).
  apply mem_In. unfold lhs, occ. apply Ho. apply nth_In. lia.
Qed.

Lemma nth_error_seq : forall n p i, nth_error (seq 0 n) p = Some i -> i = p /\ p < n.
Proof.
  intros n p i H. assert (Hp : p < n).
  { rewrite <- (seq_length n 0). apply nth_error_Some. congruence. }
  apply nth_error_nth with (d := 0) in H. rewrite seq_nth in H by exact Hp. simpl in H. auto.
Qed.

(* the combinatorial statement on the incidence matrix is the statement about variables *)
Lemma causal_iff : forall M ord, distinct_lhs M -> Permutation ord (seq 0 (length M)) ->
  (TriS (inc_pos (seq_im M)) (fun x => x) ord <-> causal_order M ord).
Proof.
  intros M ord Hd Hperm.
  assert (Hlt : forall p i, nth_error ord p = Some i -> i < length M).
  { intros p i H. apply nth_error_In in H. apply (Permutation_in _ Hperm) in H. apply in_seq in H. lia. }
  assert (Hnd : NoDup ord) by (eapply Permutation_NoDup; [apply Permutation_sym; exact Hperm | apply seq_NoDup]).
  assert (Hpos : forall p p' i, nth_error ord p = Some i -> nth_error ord p' = Some i -> p = p').
  { intros p p' i H1 H2. apply (proj1 (NoDup_nth_error ord) Hnd); [apply nth_error_Some; congruence | congruence]. }
  split.
  - intros Htri p i Hp v Hv Hne Hin.
    apply in_map_iff in Hin. destruct Hin as [eq0 [Ev Heq]]. apply (In_nth (A := eqn)) with (d := (0, @nil nat)) in Heq.
    destruct Heq as [j [Hj Ej]]. assert (Hlj : lhs M j = v) by (unfold lhs, eqn in *; rewrite Ej; exact Ev).
    assert (Hjord : In j ord) by (eapply Permutation_in; [apply Permutation_sym; exact Hperm | apply in_seq; lia]).
    apply In_nth_error in Hjord. destruct Hjord as [p' Hp'].
    assert (Hi := Hlt _ _ Hp).
    assert (Hinc : inc_pos (seq_im M) i j = true).
    { rewrite seq_im_inc by auto. apply mem_In. rewrite Hlj. exact Hv. }
    exists p', j. split; [|split; [exact Hp' | exact Hlj]].
    destruct (Nat.lt_trichotomy p' p) as [H|[H|H]]; [exact H | |].
    + subst p'. assert (i = j) by congruence. subst j. congruence.
    + rewrite (TriS_nth _ _ _ _ _ _ _ Htri H Hp Hp') in Hinc. discriminate.
  - intros Hc. apply TriS_of_nth. intros p p' a b Hlt' Ha Hb.
    destruct (inc_pos (seq_im M) a b) eqn:Hinc; [|reflexivity]. exfalso.
    assert (Hal := Hlt _ _ Ha). assert (Hbl := Hlt _ _ Hb).
    rewrite seq_im_inc in Hinc by auto. apply mem_In in Hinc.
    assert (Hab : a <> b) by (intros E; subst b; assert (p = p') by (eapply Hpos; eauto); lia).
    destruct (Hc p a Ha (lhs M b) Hinc) as [p'' [j [Hlt'' [Hj Hlj]]]].
    + intros E. apply Hab. symmetry. apply (lhs_inj M); auto.
    + apply lhs_in. exact Hbl.
    + assert (j = b) by (apply (lhs_inj M); auto; eapply Hlt; eauto). subst j.
      assert (p'' = p') by (eapply Hpos; eauto). lia.
Qed.

Lemma is_sequential_TriS : forall M, distinct_lhs M -> is_sequential_im (seq_im M) = true ->
  TriS (inc_pos (seq_im M)) (fun x => x) (seq 0 (length M)).
Proof.
  intros M Hd H. apply TriS_of_nth. intros p p' a b Hlt Ha Hb.
  apply nth_error_seq in Ha, Hb. destruct Ha as [-> Hp], Hb as [-> Hp'].
  unfold is_sequential_im in H. rewrite seq_im_length, (seq_im_ncols M Hd) in H.
  change is_sequential_order with 1 in H.
  rewrite forallb_forall in H. specialize (H p). rewrite in_seq in H. specialize (H ltac:(lia)).
  rewrite forallb_forall in H. specialize (H p'). rewrite in_seq in H. specialize (H ltac:(lia)).
  apply negb_true_iff in H. exact H.
Qed.

Lemma permute_id : forall {A} (d : A) l, permute d (seq 0 (length l)) l = l.
Proof. intros. unfold permute. apply map_nth_seq. Qed.

(* --- the three statements about Sequential.sequentialize, for either value of `raises` *)

Lemma sequentialize_sound : forall raises M ord M',
  distinct_lhs M -> lhs_occurs M ->
  sequentialize_gen raises M = (SeqOk ord, M') ->
  sequential_order M ord /\ M' = permute (0, []) ord M.
Proof.
  intros raises M ord M' Hd Ho H. unfold sequentialize_gen in H.
  destruct (model_is_sequential M) eqn:Hseq.
  - injection H as <- <-. split; [|symmetry; apply permute_id].
    split; [apply Permutation_refl|]. apply causal_iff; [exact Hd | apply Permutation_refl|].
    unfold model_is_sequential in Hseq. destruct M as [|eq M]; [exact I|]. simpl in Hseq.
    apply is_sequential_TriS; assumption.
  - unfold sequentialize_strictly in H. rewrite seq_im_length, (seq_im_ncols M Hd) in H.
    set (E := seq 0 (length M)) in *. set (inc := inc_pos (seq_im M)) in *.
    set (r := prefetch inc (msize E E) E E) in *.
    match type of H with (if ?c && raises then _ else _) = _ => destruct (c && raises) end; [discriminate|].
    destruct (nat_list_eqb (sortn (p_ef r ++ p_el r)) E) eqn:Hs; simpl in H; [|discriminate].
    injection H as <- <-. split; [|reflexivity].
    apply nat_list_eqb_eq in Hs. apply sortn_is_range in Hs.
    split; [exact Hs|]. apply causal_iff; [exact Hd | exact Hs|].
    apply strict_order_causal; [apply seq_NoDup | apply seq_im_diag; assumption | exact Hs].
Qed.

Lemma sequentialize_failure_untouched : forall raises M code M',
  sequentialize_gen raises M = (SeqErr code, M') -> M' = M.
Proof.
  intros raises M code M' H. unfold sequentialize_gen in H.
  destruct (model_is_sequential M); [discriminate|].
  destruct (sequentialize_strictly (seq_im M)) as [ord fail].
  destruct (fail && raises); [injection H as _ <-; reflexivity|].
  destruct (negb (nat_list_eqb (sortn ord) (seq 0 (length M)))); [injection H as _ <-; reflexivity | discriminate].
Qed.

Lemma sequentialize_complete : forall raises M,
  distinct_lhs M -> lhs_occurs M ->
  (exists ord, sequential_order M ord) ->
  exists ord', fst (sequentialize_gen raises M) = SeqOk ord'.
Proof.
  intros raises M Hd Ho [ord [Hperm Hc]]. unfold sequentialize_gen.
  destruct (model_is_sequential M); [eexists; reflexivity|].
  unfold sequentialize_strictly. rewrite seq_im_length, (seq_im_ncols M Hd).
  set (E := seq 0 (length M)). set (inc := inc_pos (seq_im M)).
  set (r := prefetch inc (msize E E) E E).
  assert (HE : NoDup E) by apply seq_NoDup.
  assert (Hdg : diag inc E) by (apply seq_im_diag; assumption).
  assert (Hei : p_ei r = []).
  { apply prefetch_complete; [exact HE | exact Hdg | apply le_n |].
    exists ord. split; [exact Hperm | apply causal_iff; assumption]. }
  assert (Hqi : p_qi r = []) by (unfold r; rewrite prefetch_diag; [exact Hei | exact HE | exact Hdg]).
  destruct (prefetch_spec inc (fun x => x) (msize E E) E E HE HE (PMf_id inc E Hdg))
    as [rE _ rqf rql _ _ _ _ _ _ _]. fold r in rE, rqf, rql.
  rewrite map_id in rqf, rql.
  rewrite Hei, Hqi, rqf, rql. simpl.
  assert (Hrefl : forall l, nat_list_eqb l l = true) by (intros l; apply nat_list_eqb_eq; reflexivity).
  rewrite !Hrefl. simpl.
  rewrite Hei in rE. simpl in rE.
  assert (Hs : sortn (p_ef r ++ p_el r) = E) by (apply sortn_is_range; apply Permutation_sym; exact rE).
  rewrite Hs, Hrefl. simpl. eexists. reflexivity.
Qed.

(* ================================================================== instances and non-vacuity *)

(* the statements for the model as generated from the current source *)
Lemma sequentialize_sound_now : forall M ord M',
  distinct_lhs M -> lhs_occurs M ->
  sequentialize M = (SeqOk ord, M') -> sequential_order M ord /\ M' = permute (0, []) ord M.
Proof. intros M ord M'. apply sequentialize_sound. Qed.

Lemma sequentialize_complete_now : forall M,
  distinct_lhs M -> lhs_occurs M -> (exists ord, sequential_order M ord) ->
  exists ord', fst (sequentialize M) = SeqOk ord'.
Proof. intros M. apply sequentialize_complete. Qed.

Lemma sequentialize_failure_untouched_now : forall M code M',
  sequentialize M = (SeqErr code, M') -> M' = M.
Proof. intros M code M'. apply sequentialize_failure_untouched. Qed.

(* sequentialize raises exactly when no sequential order exists *)
Lemma sequentialize_raises_iff : forall M, distinct_lhs M -> lhs_occurs M ->
  ((exists code, fst (sequentialize M) = SeqErr code) <-> ~ exists ord, sequential_order M ord).
Proof.
  intros M Hd Ho. split.
  - intros [code Hc] Hex. destruct (sequentialize_complete_now M Hd Ho Hex) as [ord' H]. congruence.
  - intros Hn. destruct (sequentialize M) as [[ord|code] M'] eqn:Hs.
    + exfalso. apply Hn. exists ord. eapply sequentialize_sound_now; eassumption.
    + exists code. reflexivity.
Qed.

Definition id_oracle : oracle_t := fun _ v => seq 0 (length v).
Lemma id_oracle_perm : perm_oracle id_oracle.
Proof. intros k v. apply Permutation_refl. Qed.

(* a reversing ("non-sorting") oracle also satisfies the contract *)
Definition rev_oracle : oracle_t := fun _ v => rev (seq 0 (length v)).
Lemma rev_oracle_perm : perm_oracle rev_oracle.
Proof. intros k v. apply Permutation_sym. apply Permutation_rev. Qed.

(* a 6x6 matrix with a perfect matching off the diagonal; the implementation returns one 1x1 first
   block, two 2x2 inner blocks and one 1x1 last block for it *)
Definition ex_im : bmat :=
  [ [true;  true;  false; false; false; false];
    [false; true;  true;  true;  false; false];
    [false; false; false; false; true;  false];
    [true;  true;  false; false; false; false];
    [false; true;  false; false; false; true ];
    [false; false; true;  true;  false; false] ].
Definition ex_eids := [10; 11; 12; 13; 14; 15].
Definition ex_qids := [26; 25; 24; 23; 22; 21].

Lemma ex_hypotheses :
  is_square ex_im 6 /\ length ex_eids = 6 /\ length ex_qids = 6 /\ NoDup ex_eids /\ NoDup ex_qids /\
  has_perfect_matching ex_im.
Proof.
  split; [split; [reflexivity | repeat constructor]|].
  split; [reflexivity|]. split; [reflexivity|].
  split; [repeat constructor; simpl; intuition congruence|].
  split; [repeat constructor; simpl; intuition congruence|].
  exists [0; 2; 4; 1; 5; 3]. split.
  - apply NoDup_Permutation; [repeat constructor; simpl; intuition congruence | apply seq_NoDup |].
    intros x. simpl. intuition.
  - intros i Hi. simpl in Hi. do 6 (destruct i as [|i]; [reflexivity|]). lia.
Qed.

(* a sorting oracle: stable argsort (positions ordered by key, ties by position) *)
Fixpoint ins_idx (v : list nat) (i : nat) (l : list nat) : list nat :=
  match l with
  | [] => [i]
  | j :: r => if nth i v 0 <=? nth j v 0 then i :: l else j :: ins_idx v i r
  end.
Definition stable_argsort (v : list nat) : list nat := fold_right (ins_idx v) [] (seq 0 (length v)).
Definition sorting_oracle : oracle_t := fun _ v => stable_argsort v.

Lemma ins_idx_perm : forall v i l, Permutation (ins_idx v i l) (i :: l).
Proof.
  intros v i l. induction l as [|j l IH]; simpl; [apply Permutation_refl|].
  destruct (nth i v 0 <=? nth j v 0); [apply Permutation_refl|].
  eapply Permutation_trans; [apply perm_skip; exact IH | apply perm_swap].
Qed.

Lemma sorting_oracle_perm : perm_oracle sorting_oracle.
Proof.
  intros k v. unfold sorting_oracle, stable_argsort. induction (seq 0 (length v)) as [|i l IH]; simpl; [constructor|].
  eapply Permutation_trans; [apply ins_idx_perm | constructor; exact IH].
Qed.

(* with a sorting oracle the model finds the 2x2 blocks; with the identity ("non-sorting") oracle the
   decomposition is coarser but, as the theorem says, still valid *)
Lemma ex_blaze :
  option_map o_blocks (blaze sorting_oracle ex_im ex_eids ex_qids)
  = Some [([12], [22]); ([10; 13], [25; 26]); ([11; 15], [23; 24]); ([14], [21])] /\
  option_map o_blocks (blaze id_oracle ex_im ex_eids ex_qids)
  = Some [([12], [22]); ([10; 11; 13; 15], [23; 24; 25; 26]); ([14], [21])].
Proof. split; vm_compute; reflexivity. Qed.

(* Sequential examples: a = b + c[-1]; b = 0.5*d + 1; c = a + b; d = 0.8*d[-1]  (names 0..3) *)
Definition ex_model : list eqn := [(0, [0; 1]); (1, [1; 3]); (2, [2; 0; 1]); (3, [3])].
(* a = b; b = c; c = a *)
Definition ex_cycle : list eqn := [(0, [0; 1]); (1, [1; 2]); (2, [2; 0])].

Lemma ex_model_hypotheses : distinct_lhs ex_model /\ lhs_occurs ex_model /\ model_is_sequential ex_model = false.
Proof.
  split; [repeat constructor; simpl; intuition congruence|]. split; [|reflexivity].
  intros eq0 H. simpl in H. intuition; subst; simpl; auto.
Qed.

Lemma ex_model_sequentialize :
  sequentialize ex_model = (SeqOk [3; 1; 0; 2], [(3, [3]); (1, [1; 3]); (0, [0; 1]); (2, [2; 0; 1])]).
Proof. vm_compute. reflexivity. Qed.

Lemma ex_cycle_fails :
  distinct_lhs ex_cycle /\ lhs_occurs ex_cycle /\ sequentialize ex_cycle = (SeqErr ERR_VALUE, ex_cycle).
Proof.
  split; [repeat constructor; simpl; intuition congruence|]. split; [|vm_compute; reflexivity].
  intros eq0 H. simpl in H. intuition; subst; simpl; auto.
Qed.

Lemma sequentialize_either_way : forall (raises : bool) (M : list eqn),
  distinct_lhs M -> lhs_occurs M ->
  (forall ord M', sequentialize_gen raises M = (SeqOk ord, M') ->
                  sequential_order M ord /\ M' = permute (0, []) ord M) /\
  ((exists ord, sequential_order M ord) -> exists ord', fst (sequentialize_gen raises M) = SeqOk ord') /\
  (forall code M', sequentialize_gen raises M = (SeqErr code, M') -> M' = M).
Proof.
  intros raises M Hd Ho. split; [|split].
  - intros ord M'. apply sequentialize_sound; assumption.
  - apply sequentialize_complete; assumption.
  - intros code M'. apply sequentialize_failure_untouched.
Qed.

(* ---------------------------------------------------------------- Sequential.is_sequential *)

Lemma nth_error_seq_lt : forall n i, i < n -> nth_error (seq 0 n) i = Some i.
Proof.
  intros n i H. rewrite (nth_error_nth' (seq 0 n) 0) by (rewrite seq_length; exact H).
  rewrite seq_nth by exact H. reflexivity.
Qed.

Lemma TriS_is_sequential : forall M, distinct_lhs M ->
  TriS (inc_pos (seq_im M)) (fun x => x) (seq 0 (length M)) -> is_sequential_im (seq_im M) = true.
Proof.
  intros M Hd H. unfold is_sequential_im. rewrite seq_im_length, (seq_im_ncols M Hd).
  change is_sequential_order with 1.
  apply forallb_forall. intros i Hi. apply in_seq in Hi.
  apply forallb_forall. intros j Hj. apply in_seq in Hj.
  apply negb_true_iff.
  apply (TriS_nth _ _ _ i j i j H); [lia | apply nth_error_seq_lt; lia | apply nth_error_seq_lt; lia].
Qed.

(* is_sequential is True exactly when the current order of the equations is causal *)
Lemma is_sequential_iff : forall M, distinct_lhs M ->
  (model_is_sequential M = true <-> causal_order M (seq 0 (length M))).
Proof.
  intros M Hd. unfold model_is_sequential. destruct M as [|eq0 M'] eqn:EM.
  - simpl. split; [|reflexivity]. intros _ p i H. destruct p; discriminate.
  - rewrite <- EM in *. assert (Hnil : is_nil M = false) by (rewrite EM; reflexivity). rewrite Hnil.
    rewrite <- (causal_iff M (seq 0 (length M)) Hd (Permutation_refl _)). split.
    + apply is_sequential_TriS. exact Hd.
    + apply TriS_is_sequential. exact Hd.
Qed.
