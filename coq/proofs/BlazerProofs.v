(* Proofs about the blazer model (coq/model/Blazer.v).  Plain stdlib style. *)
From Coq Require Import List Arith Bool PeanoNat Lia Permutation.
From Verif Require Import gen.BlazerGen model.Blazer.
Import ListNotations.

(* ------------------------------------------------------------------ generic list facts *)

Lemma mem_In : forall x l, mem x l = true <-> In x l.
Proof.
  intros x l. unfold mem. rewrite existsb_exists. split.
  - intros [y [Hy He]]. apply Nat.eqb_eq in He. subst. exact Hy.
  - intros H. exists x. split; [exact H | apply Nat.eqb_refl].
Qed.

Lemma mem_false : forall x l, mem x l = false <-> ~ In x l.
Proof.
  intros x l. rewrite <- mem_In. destruct (mem x l); split; intros H; try congruence.
Qed.

Lemma nat_list_eqb_eq : forall a b, nat_list_eqb a b = true <-> a = b.
Proof.
  induction a as [|x a IH]; destruct b as [|y b]; simpl; split; intros H; try congruence; try reflexivity.
  - apply andb_true_iff in H. destruct H as [H1 H2]. apply Nat.eqb_eq in H1. apply IH in H2. congruence.
  - inversion H; subst. rewrite Nat.eqb_refl. simpl. apply IH. reflexivity.
Qed.

Lemma Permutation_filter_ : forall {A} (f : A -> bool) l l',
  Permutation l l' -> Permutation (filter f l) (filter f l').
Proof.
  intros A f l l' H. induction H; simpl.
  - constructor.
  - destruct (f x); [constructor|]; assumption.
  - destruct (f x), (f y); try apply Permutation_refl. apply perm_swap.
  - eapply Permutation_trans; eassumption.
Qed.

Lemma filter_split_perm : forall {A} (f : A -> bool) l,
  Permutation l (filter f l ++ filter (fun x => negb (f x)) l).
Proof.
  intros A f l. induction l as [|x l IH]; simpl.
  - constructor.
  - destruct (f x); simpl.
    + constructor. exact IH.
    + apply Permutation_cons_app. exact IH.
Qed.

Lemma filter_all_true : forall {A} (f : A -> bool) l, (forall x, In x l -> f x = true) -> filter f l = l.
Proof.
  intros A f l. induction l as [|x l IH]; simpl; intros H; [reflexivity|].
  rewrite (H x (or_introl eq_refl)). f_equal. apply IH. intros y Hy. apply H. right. exact Hy.
Qed.

Lemma filter_all_false : forall {A} (f : A -> bool) l, (forall x, In x l -> f x = false) -> filter f l = [].
Proof.
  intros A f l. induction l as [|x l IH]; simpl; intros H; [reflexivity|].
  rewrite (H x (or_introl eq_refl)). apply IH. intros y Hy. apply H. right. exact Hy.
Qed.

Lemma count_perm : forall {A} (f : A -> bool) l l', Permutation l l' -> count f l = count f l'.
Proof. intros. unfold count. apply Permutation_length. apply Permutation_filter_. assumption. Qed.

Lemma NoDup_filter_ : forall {A} (f : A -> bool) l, NoDup l -> NoDup (filter f l).
Proof.
  intros A f l H. induction H; simpl; [constructor|].
  destruct (f x); [constructor|]; try assumption.
  intros Hin. apply filter_In in Hin. tauto.
Qed.

Lemma NoDup_map_filter : forall {A B} (g : A -> B) (f : A -> bool) l, NoDup (map g l) -> NoDup (map g (filter f l)).
Proof.
  intros A B g f l. induction l as [|x l IH]; simpl; intros H; [constructor|].
  inversion H; subst. destruct (f x); simpl.
  - constructor; [|apply IH; assumption].
    intros Hin. apply H2. apply in_map_iff in Hin. destruct Hin as [y [Hy Hin]].
    apply filter_In in Hin. apply in_map_iff. exists y. tauto.
  - apply IH. assumption.
Qed.

Lemma NoDup_map_inj_in : forall {A B} (g : A -> B) l x y,
  NoDup (map g l) -> In x l -> In y l -> g x = g y -> x = y.
Proof.
  intros A B g l. induction l as [|a l IH]; simpl; intros x y H Hx Hy E; [contradiction|].
  inversion H; subst.
  destruct Hx as [Hx|Hx], Hy as [Hy|Hy]; subst.
  - reflexivity.
  - exfalso. apply H2. rewrite E. apply in_map. exact Hy.
  - exfalso. apply H2. rewrite <- E. apply in_map. exact Hx.
  - apply IH; assumption.
Qed.

Lemma NoDup_app_l : forall {A} (a b : list A), NoDup (a ++ b) -> NoDup a.
Proof.
  intros A a b. induction a as [|x a IH]; simpl; intros H; [constructor|].
  inversion H; subst. constructor; [|apply IH; assumption].
  intros Hin. apply H2. apply in_or_app. left. exact Hin.
Qed.

Lemma NoDup_app_r : forall {A} (a b : list A), NoDup (a ++ b) -> NoDup b.
Proof.
  intros A a b. induction a as [|x a IH]; simpl; intros H; [assumption|].
  inversion H; subst. apply IH. assumption.
Qed.

Lemma NoDup_app_disj : forall {A} (a b : list A) x, NoDup (a ++ b) -> In x a -> In x b -> False.
Proof.
  intros A a b x. induction a as [|y a IH]; simpl; intros H Ha Hb; [contradiction|].
  inversion H; subst. destruct Ha as [Ha|Ha].
  - subst. apply H2. apply in_or_app. right. exact Hb.
  - apply IH; assumption.
Qed.

Lemma map_nth_seq : forall {A} (d : A) l, map (fun i => nth i l d) (seq 0 (length l)) = l.
Proof.
  intros A d l. apply nth_ext with (d := d) (d' := d).
  - rewrite map_length, seq_length. reflexivity.
  - intros n Hn. rewrite map_length, seq_length in Hn.
    rewrite (nth_indep _ d (nth 0 l d)) by (rewrite map_length, seq_length; exact Hn).
    rewrite (map_nth (fun i => nth i l d) (seq 0 (length l)) 0 n).
    rewrite seq_nth by exact Hn. reflexivity.
Qed.

Lemma permute_perm : forall {A} (d : A) p l, Permutation p (seq 0 (length l)) -> Permutation (permute d p l) l.
Proof.
  intros A d p l H. unfold permute.
  eapply Permutation_trans; [apply Permutation_map; exact H|].
  rewrite map_nth_seq. apply Permutation_refl.
Qed.

Lemma Permutation_concat_map : forall {A B} (f g : A -> list B) l,
  (forall x, In x l -> Permutation (f x) (g x)) -> Permutation (concat (map f l)) (concat (map g l)).
Proof.
  intros A B f g l. induction l as [|x l IH]; simpl; intros H; [constructor|].
  apply Permutation_app; [apply H; left; reflexivity | apply IH; intros y Hy; apply H; right; exact Hy].
Qed.

(* ------------------------------------------------------------------ sorted(...) *)

Lemma insert_perm : forall x l, Permutation (insert x l) (x :: l).
Proof.
  intros x l. induction l as [|y l IH]; simpl; [apply Permutation_refl|].
  destruct (x <=? y); [apply Permutation_refl|].
  eapply Permutation_trans; [apply perm_skip; exact IH | apply perm_swap].
Qed.

Lemma sortn_perm : forall l, Permutation (sortn l) l.
Proof.
  induction l as [|x l IH]; simpl; [constructor|].
  eapply Permutation_trans; [apply insert_perm | constructor; exact IH].
Qed.

Lemma insert_comm : forall a b l, insert a (insert b l) = insert b (insert a l).
Proof.
  intros a b l. induction l as [|y l IH]; simpl.
  - destruct (a <=? b) eqn:E1, (b <=? a) eqn:E2; try reflexivity.
    + apply Nat.leb_le in E1, E2. assert (a = b) by lia. subst. reflexivity.
    + apply Nat.leb_gt in E1, E2. lia.
  - destruct (b <=? y) eqn:Eb, (a <=? y) eqn:Ea; simpl; rewrite ?Eb, ?Ea.
    + destruct (a <=? b) eqn:E1, (b <=? a) eqn:E2; rewrite ?Ea, ?Eb; try reflexivity.
      * apply Nat.leb_le in E1, E2. assert (a = b) by lia. subst. reflexivity.
      * apply Nat.leb_gt in E1, E2. lia.
    + destruct (a <=? b) eqn:E1.
      * apply Nat.leb_le in E1, Eb. apply Nat.leb_gt in Ea. lia.
      * reflexivity.
    + destruct (b <=? a) eqn:E2.
      * apply Nat.leb_le in E2, Ea. apply Nat.leb_gt in Eb. lia.
      * reflexivity.
    + f_equal. exact IH.
Qed.

Lemma sortn_perm_eq : forall l l', Permutation l l' -> sortn l = sortn l'.
Proof.
  intros l l' H. induction H; simpl.
  - reflexivity.
  - f_equal. exact IHPermutation.
  - apply insert_comm.
  - congruence.
Qed.

Lemma sortn_seq : forall n a, sortn (seq a n) = seq a n.
Proof.
  induction n as [|n IH]; intros a; simpl; [reflexivity|].
  rewrite IH. destruct n; simpl; [reflexivity|].
  destruct (a <=? S a) eqn:E; [reflexivity|]. apply Nat.leb_gt in E. lia.
Qed.

Lemma sortn_is_range : forall l n, sortn l = seq 0 n <-> Permutation l (seq 0 n).
Proof.
  intros l n. split; intros H.
  - rewrite <- H. apply Permutation_sym. apply sortn_perm.
  - rewrite (sortn_perm_eq _ _ H). apply sortn_seq.
Qed.

(* ------------------------------------------------------------------ the core, over a fixed incidence *)

Section CoreProofs.
Variable inc : nat -> nat -> bool.

(* no incidence between the equations A and the quantities B: a zero corner of the matrix *)
Definition zero (A B : list nat) : Prop := forall e q, In e A -> In q B -> inc e q = false.

(* block lower triangular: no equation of a block involves a quantity of a LATER block *)
Fixpoint Tri (bs : list block) : Prop :=
  match bs with
  | [] => True
  | b :: r => zero (fst b) (bqids r) /\ Tri r
  end.

(* a perfect matching of the equations E with the quantities Q, as a function on ids *)
Definition PMf (s : nat -> nat) (E Q : list nat) : Prop :=
  Permutation (map s E) Q /\ forall e, In e E -> inc e (s e) = true.

(* triangularity of a sequence of 1x1 blocks (e, s e) *)
Fixpoint TriS (s : nat -> nat) (l : list nat) : Prop :=
  match l with
  | [] => True
  | e :: r => (forall e', In e' r -> inc e (s e') = false) /\ TriS s r
  end.

Definition square (b : block) : Prop := length (fst b) = length (snd b).

Lemma zero_incl : forall A B A' B', zero A B -> incl A' A -> incl B' B -> zero A' B'.
Proof. unfold zero, incl. intros. apply H; auto. Qed.

Lemma zero_app_l : forall A A' B, zero (A ++ A') B <-> zero A B /\ zero A' B.
Proof.
  unfold zero. intros. split.
  - intros H. split; intros; apply H; auto; apply in_or_app; auto.
  - intros [H1 H2] e q He Hq. apply in_app_or in He. destruct He; auto.
Qed.

Lemma zero_app_r : forall A B B', zero A (B ++ B') <-> zero A B /\ zero A B'.
Proof.
  unfold zero. intros. split.
  - intros H. split; intros; apply H; auto; apply in_or_app; auto.
  - intros [H1 H2] e q He Hq. apply in_app_or in Hq. destruct Hq; auto.
Qed.

Lemma beids_app : forall a b, beids (a ++ b) = beids a ++ beids b.
Proof. intros. unfold beids. rewrite map_app, concat_app. reflexivity. Qed.

Lemma bqids_app : forall a b, bqids (a ++ b) = bqids a ++ bqids b.
Proof. intros. unfold bqids. rewrite map_app, concat_app. reflexivity. Qed.

Lemma Tri_app : forall a b, Tri (a ++ b) <-> Tri a /\ Tri b /\ zero (beids a) (bqids b).
Proof.
  induction a as [|x a IH]; intros b; simpl.
  - split; [intros H; repeat split; auto; intros e q [] | tauto].
  - rewrite IH. rewrite bqids_app. rewrite zero_app_r.
    change (beids (x :: a)) with (fst x ++ beids a). rewrite zero_app_l. tauto.
Qed.

Lemma singles_map : forall s l, singles l (map s l) = map (fun e => ([e], [s e])) l.
Proof.
  intros s l. unfold singles. induction l as [|x l IH]; simpl; [reflexivity|]. f_equal. exact IH.
Qed.

Lemma beids_singles : forall s l, beids (singles l (map s l)) = l.
Proof.
  intros. rewrite singles_map. unfold beids. induction l as [|x l IH]; simpl; [reflexivity|]. f_equal. exact IH.
Qed.

Lemma bqids_singles : forall s l, bqids (singles l (map s l)) = map s l.
Proof.
  intros. rewrite singles_map. unfold bqids. induction l as [|x l IH]; simpl; [reflexivity|]. f_equal. exact IH.
Qed.

Lemma Tri_singles : forall s l, Tri (singles l (map s l)) <-> TriS s l.
Proof.
  intros s l. induction l as [|x l IH].
  - simpl. tauto.
  - change (singles (x :: l) (map s (x :: l))) with (([x], [s x]) :: singles l (map s l)).
    simpl. rewrite IH. rewrite bqids_singles. unfold zero. split.
    + intros [H1 H2]. split; [|exact H2]. intros e' He'. apply H1; [left; reflexivity | apply in_map; exact He'].
    + intros [H1 H2]. split; [|exact H2]. intros e q [He|[]] Hq. subst.
      apply in_map_iff in Hq. destruct Hq as [e' [E He']]. subst. apply H1. exact He'.
Qed.

Lemma square_singles : forall s l, Forall square (singles l (map s l)).
Proof.
  intros. rewrite singles_map. apply Forall_forall. intros b Hb. apply in_map_iff in Hb.
  destruct Hb as [e [E _]]. subst. reflexivity.
Qed.

Lemma TriS_app : forall s a b,
  TriS s (a ++ b) <-> TriS s a /\ TriS s b /\ (forall e e', In e a -> In e' b -> inc e (s e') = false).
Proof.
  intros s. induction a as [|x a IH]; intros b; simpl.
  - split; [intros H; repeat split; auto; intros e e' [] | tauto].
  - rewrite IH. split.
    + intros [H1 [H2 [H3 H4]]]. repeat split; auto.
      * intros e' He'. apply H1. apply in_or_app. left. exact He'.
      * intros e e' [He|He] He'; [subst; apply H1; apply in_or_app; right; exact He' | apply H4; assumption].
    + intros [[H1 H2] [H3 H4]]. repeat split; auto.
      intros e' He'. apply in_app_or in He'. destruct He' as [He'|He']; [apply H1; exact He' | apply H4; [left; reflexivity | exact He']].
Qed.

Lemma TriS_offdiag : forall s l, NoDup l ->
  (forall e e', In e l -> In e' l -> e <> e' -> inc e (s e') = false) -> TriS s l.
Proof.
  intros s l H. induction H as [|x l Hx Hnd IH]; simpl; intros Hoff; [exact I|]. split.
  - intros e' He'. apply Hoff; [left; reflexivity | right; exact He' |]. intros E. subst. contradiction.
  - apply IH. intros e e' He He' Hne. apply Hoff; [right; exact He | right; exact He' | exact Hne].
Qed.

Lemma PMf_length : forall s E Q, PMf s E Q -> length E = length Q.
Proof. intros s E Q [H _]. apply Permutation_length in H. rewrite map_length in H. exact H. Qed.

Lemma PMf_in : forall s E Q e, PMf s E Q -> In e E -> In (s e) Q.
Proof. intros s E Q e [H _] He. eapply Permutation_in; [exact H | apply in_map; exact He]. Qed.

Lemma PMf_NoDup_map : forall s E Q, PMf s E Q -> NoDup Q -> NoDup (map s E).
Proof. intros s E Q [H _] Hq. eapply Permutation_NoDup; [apply Permutation_sym; exact H | exact Hq]. Qed.

Lemma PMf_preimage : forall s E Q q, PMf s E Q -> In q Q -> exists e, In e E /\ s e = q.
Proof.
  intros s E Q q [H _] Hq. apply Permutation_sym in H. apply (Permutation_in _ H) in Hq.
  apply in_map_iff in Hq. destruct Hq as [e [E1 He]]. exists e. tauto.
Qed.

(* a list of booleans-filtered length 1 that contains x is [x] *)
Lemma single_filter : forall {A} (f : A -> bool) l x, count f l = 1 -> In x l -> f x = true -> filter f l = [x].
Proof.
  intros A f l x Hc Hin Hf. unfold count in Hc.
  assert (Hx : In x (filter f l)) by (apply filter_In; tauto).
  destruct (filter f l) as [|y [|z r]]; simpl in Hc; try discriminate.
  destruct Hx as [Hx|[]]. subst. reflexivity.
Qed.

Lemma single_filter_other : forall {A} (f : A -> bool) l x y,
  count f l = 1 -> In x l -> f x = true -> In y l -> y <> x -> f y = false.
Proof.
  intros A f l x y Hc Hx Hfx Hy Hne. destruct (f y) eqn:E; [|reflexivity].
  assert (Hin : In y (filter f l)) by (apply filter_In; tauto).
  rewrite (single_filter f l x Hc Hx Hfx) in Hin. destruct Hin as [Hin|[]]. congruence.
Qed.

(* ---------------------------------------------------------------- _prefetch_first *)

Lemma prefetch_first_spec : forall s E Q F QF E1 Q1,
  NoDup E -> NoDup Q -> PMf s E Q ->
  prefetch_first inc E Q = (F, QF, E1, Q1) ->
  QF = map s F /\
  Permutation E (F ++ E1) /\ Permutation Q (QF ++ Q1) /\
  (forall e q, In e F -> In q Q -> q <> s e -> inc e q = false) /\
  zero F Q1 /\
  PMf s E1 Q1 /\ NoDup E1 /\ NoDup Q1.
Proof.
  intros s E Q F QF E1 Q1 HE HQ HPM Hdef. unfold prefetch_first in Hdef.
  change singleton_row_count with 1 in Hdef.
  injection Hdef as HF HQF HE1 HQ1.
  set (single := fun e => rowsum inc Q e =? 1) in *.
  assert (HFin : forall e, In e F <-> In e E /\ rowsum inc Q e = 1).
  { intros e. rewrite <- HF. rewrite filter_In. unfold single. rewrite Nat.eqb_eq. tauto. }
  assert (Hinj := PMf_NoDup_map _ _ _ HPM HQ).
  (* the only incidence of a singleton row is its matched quantity *)
  assert (Hrow : forall e, In e F -> filter (inc e) Q = [s e]).
  { intros e He. apply HFin in He. destruct He as [He Hc].
    apply single_filter; [exact Hc | eapply PMf_in; eassumption | apply HPM; exact He]. }
  assert (Hoff : forall e q, In e F -> In q Q -> q <> s e -> inc e q = false).
  { intros e q He Hq Hne. apply HFin in He. destruct He as [He Hc].
    apply (single_filter_other (inc e) Q (s e) q); auto; [eapply PMf_in; eassumption | apply HPM; exact He]. }
  assert (HQFs : QF = map s F).
  { rewrite <- HQF. rewrite HF. apply map_ext_in. intros e He. rewrite (Hrow e He). reflexivity. }
  assert (HEperm : Permutation E (F ++ E1)).
  { rewrite <- HF, <- HE1. apply filter_split_perm. }
  assert (HE1in : forall e, In e E1 <-> In e E /\ rowsum inc Q e <> 1).
  { intros e. rewrite <- HE1. rewrite filter_In. unfold single. rewrite negb_true_iff, Nat.eqb_neq. tauto. }
  assert (HE1nd : NoDup E1) by (rewrite <- HE1; apply NoDup_filter_; exact HE).
  assert (HQ1nd : NoDup Q1) by (rewrite <- HQ1; apply NoDup_filter_; exact HQ).
  assert (HQ1in : forall q, In q Q1 <-> In q Q /\ ~ In q QF).
  { intros q. rewrite <- HQ1. rewrite filter_In, negb_true_iff, mem_false. rewrite HQF. tauto. }
  assert (HPM1 : Permutation (map s E1) Q1).
  { apply NoDup_Permutation.
    - rewrite <- HE1. apply NoDup_map_filter. exact Hinj.
    - exact HQ1nd.
    - intros q. rewrite HQ1in. rewrite in_map_iff. split.
      + intros [e [Eq He]]. subst q. apply HE1in in He. destruct He as [He Hc]. split.
        * eapply PMf_in; eassumption.
        * rewrite HQFs. rewrite in_map_iff. intros [e' [Eq He']].
          apply HFin in He'. destruct He' as [He' Hc'].
          assert (e' = e) by (eapply NoDup_map_inj_in; eauto). subst. contradiction.
      + intros [Hq Hn]. destruct (PMf_preimage _ _ _ _ HPM Hq) as [e [He Eq]]. exists e. split; [exact Eq|].
        apply HE1in. split; [exact He|]. intros Hc. apply Hn. rewrite HQFs. subst q. apply in_map. apply HFin. tauto. }
  assert (HPMf1 : PMf s E1 Q1).
  { split; [exact HPM1|]. intros e He. apply HPM. apply HE1in in He. tauto. }
  split; [exact HQFs|]. split; [exact HEperm|]. split; [|split; [exact Hoff|split; [|split; [exact HPMf1|split; assumption]]]].
  - (* Q ~ QF ++ Q1 *)
    rewrite HQFs. eapply Permutation_trans; [apply Permutation_sym; apply HPM|].
    eapply Permutation_trans; [apply Permutation_map; exact HEperm|].
    rewrite map_app. apply Permutation_app_head. exact HPM1.
  - (* zero F Q1 *)
    intros e q He Hq. apply HQ1in in Hq. destruct Hq as [Hq Hn]. apply Hoff; auto.
    intros Eq. apply Hn. rewrite HQFs. subst q. apply in_map. exact He.
Qed.

Lemma NoDup_app_intro : forall {A} (a b : list A),
  NoDup a -> NoDup b -> (forall x, In x a -> ~ In x b) -> NoDup (a ++ b).
Proof.
  intros A a b Ha. induction Ha as [|x a Hx Ha IH]; simpl; intros Hb Hd; [exact Hb|].
  constructor.
  - intros Hin. apply in_app_or in Hin. destruct Hin as [Hin|Hin]; [contradiction|].
    apply (Hd x); [left; reflexivity | exact Hin].
  - apply IH; [exact Hb|]. intros y Hy. apply Hd. right. exact Hy.
Qed.

(* ---------------------------------------------------------------- _prefetch_last *)

Lemma prefetch_last_spec : forall s E1 Q1 Le Lq E2 Q2,
  NoDup E1 -> NoDup Q1 -> PMf s E1 Q1 ->
  prefetch_last inc E1 Q1 = (Le, Lq, E2, Q2) ->
  Lq = map s Le /\
  Permutation E1 (E2 ++ Le) /\ Permutation Q1 (Q2 ++ Lq) /\
  (forall e e', In e' Le -> In e E1 -> e <> e' -> inc e (s e') = false) /\
  zero E2 Lq /\
  PMf s E2 Q2 /\ NoDup E2 /\ NoDup Q2 /\ NoDup Le.
Proof.
  intros s E1 Q1 Le Lq E2 Q2 HE HQ HPM Hdef. unfold prefetch_last in Hdef.
  change singleton_column_count with 1 in Hdef.
  injection Hdef as HLe HLq HE2 HQ2.
  set (single := fun q => colsum inc E1 q =? 1) in *.
  set (t := fun q => hd 0 (filter (fun e => inc e q) E1)) in *.
  assert (Hinj := PMf_NoDup_map _ _ _ HPM HQ).
  assert (HLqin : forall q, In q Lq <-> In q Q1 /\ colsum inc E1 q = 1).
  { intros q. rewrite <- HLq. rewrite filter_In. unfold single. rewrite Nat.eqb_eq. tauto. }
  assert (Ht : forall q, In q Lq -> In (t q) E1 /\ s (t q) = q /\ (forall e, In e E1 -> e <> t q -> inc e q = false)).
  { intros q Hq. apply HLqin in Hq. destruct Hq as [Hq Hc].
    destruct (PMf_preimage _ _ _ _ HPM Hq) as [e [He Eq]].
    assert (Hinc : inc e q = true) by (rewrite <- Eq; apply HPM; exact He).
    assert (Hf : filter (fun e' => inc e' q) E1 = [e]) by (apply single_filter; assumption).
    assert (Htq : t q = e) by (unfold t; rewrite Hf; reflexivity).
    rewrite Htq. split; [exact He|]. split; [exact Eq|].
    intros e' He' Hne. apply (single_filter_other (fun e' => inc e' q) E1 e e'); assumption. }
  assert (HLeq : Le = map t Lq) by (rewrite <- HLe, HLq; reflexivity).
  assert (HLqs : Lq = map s Le).
  { rewrite HLeq, map_map. rewrite <- (map_id Lq) at 1. apply map_ext_in. intros q Hq. symmetry. apply Ht. exact Hq. }
  assert (HLqnd : NoDup Lq) by (rewrite <- HLq; apply NoDup_filter_; exact HQ).
  assert (HLend : NoDup Le) by (apply (NoDup_map_inv s); rewrite <- HLqs; exact HLqnd).
  assert (HLein : forall e, In e Le <-> exists q, In q Lq /\ t q = e).
  { intros e. rewrite HLeq. rewrite in_map_iff. split; intros [q [H1 H2]]; exists q; tauto. }
  assert (HLesub : forall e, In e Le -> In e E1).
  { intros e He. apply HLein in He. destruct He as [q [Hq Eq]]. subst e. apply Ht. exact Hq. }
  assert (HE2in : forall e, In e E2 <-> In e E1 /\ ~ In e Le).
  { intros e. rewrite <- HE2. rewrite filter_In, negb_true_iff, mem_false. rewrite HLe. tauto. }
  assert (HQ2in : forall q, In q Q2 <-> In q Q1 /\ colsum inc E1 q <> 1).
  { intros q. rewrite <- HQ2. rewrite filter_In. unfold single. rewrite negb_true_iff, Nat.eqb_neq. tauto. }
  assert (HE2nd : NoDup E2) by (rewrite <- HE2; apply NoDup_filter_; exact HE).
  assert (HQ2nd : NoDup Q2) by (rewrite <- HQ2; apply NoDup_filter_; exact HQ).
  assert (HPM2 : Permutation (map s E2) Q2).
  { apply NoDup_Permutation.
    - rewrite <- HE2. apply NoDup_map_filter. exact Hinj.
    - exact HQ2nd.
    - intros q. rewrite HQ2in. rewrite in_map_iff. split.
      + intros [e [Eq He]]. subst q. apply HE2in in He. destruct He as [He Hn]. split.
        * eapply PMf_in; eassumption.
        * intros Hc. apply Hn. assert (Hq : In (s e) Lq) by (apply HLqin; split; [eapply PMf_in; eassumption | exact Hc]).
          apply HLein. exists (s e). split; [exact Hq|].
          destruct (Ht _ Hq) as [H1 [H2 _]]. eapply NoDup_map_inj_in; eauto.
      + intros [Hq Hn]. destruct (PMf_preimage _ _ _ _ HPM Hq) as [e [He Eq]]. exists e. split; [exact Eq|].
        apply HE2in. split; [exact He|]. intros HeL. apply Hn.
        apply HLein in HeL. destruct HeL as [q' [Hq' Eq']].
        destruct (Ht _ Hq') as [_ [H2 _]]. rewrite Eq' in H2. rewrite Eq in H2. subst q'. apply HLqin. exact Hq'. }
  split; [exact HLqs|]. split; [|split; [|split; [|split; [|split; [|split; [exact HE2nd|split; [exact HQ2nd|exact HLend]]]]]]].
  - apply NoDup_Permutation; [exact HE | |].
    + apply NoDup_app_intro; [exact HE2nd | exact HLend |]. intros x Hx. apply HE2in in Hx. tauto.
    + intros x. rewrite in_app_iff, HE2in. split.
      * intros Hx. destruct (in_dec Nat.eq_dec x Le); tauto.
      * intros [[Hx _]|Hx]; [exact Hx | apply HLesub; exact Hx].
  - rewrite <- HQ2, <- HLq. eapply Permutation_trans; [apply (filter_split_perm single)|]. apply Permutation_app_comm.
  - intros e e' He' He Hne. apply HLein in He'. destruct He' as [q [Hq Eq]]. subst e'.
    destruct (Ht _ Hq) as [_ [H2 H3]]. rewrite H2. apply H3; assumption.
  - intros e q He Hq. apply HE2in in He. destruct He as [He Hn]. apply (Ht _ Hq); [exact He|].
    intros Eq. apply Hn. apply HLein. exists q. split; [exact Hq | symmetry; exact Eq].
  - split; [exact HPM2|]. intros e He. apply HPM. apply HE2in in He. tauto.
Qed.
