(* C20  The portable codec round-trips every well-formed model description. *)
From Coq Require Import String List Bool Ascii.
From Verif Require Import gen.PortableGen model.Portable.
Import ListNotations.
Open Scope string_scope.

Section Proofs.

Variable N : Type.

Notation json := (json N).
Notation mdesc := (mdesc N).
Notation value := (value N).

Lemma mapM_map : forall {A B} (g : A -> B) (f : B -> option A) (l : list A),
  (forall a, In a l -> f (g a) = Some a) -> mapM f (map g l) = Some l.
Proof.
  intros A B g f. induction l as [ | a l IH]; intros H; [reflexivity | ].
  cbn [map mapM]. rewrite (H a (or_introl eq_refl)). rewrite IH; [reflexivity | ].
  intros b Hb. apply H. right. assumption.
Qed.

Lemma qkind_roundtrip : forall k, qkind_of_code (qkind_code k) = Some k.
Proof. destruct k; reflexivity. Qed.

Lemma ekind_roundtrip : forall k, ekind_of_code (ekind_code k) = Some k.
Proof. destruct k; reflexivity. Qed.

(* the codes are pairwise distinct: decoding is injective on codes *)
Lemma qkind_code_inj : forall a b, qkind_code a = qkind_code b -> a = b.
Proof.
  intros a b H. assert (E : qkind_of_code (qkind_code a) = qkind_of_code (qkind_code b)) by (rewrite H; reflexivity).
  rewrite !qkind_roundtrip in E. injection E as E. exact E.
Qed.

Lemma quantity_roundtrip : forall q, dec_quantity N (enc_quantity N q) = Some q.
Proof.
  intros [k n l d a]. unfold dec_quantity, enc_quantity. cbn [q_kind q_name q_logly q_descr q_attr].
  rewrite qkind_roundtrip. destruct l as [b | ]; destruct d as [s | ]; reflexivity.
Qed.

Lemma equation_roundtrip : forall e, wf_equation e -> dec_equation N (enc_equation N e) = Some e.
Proof.
  intros [k dyn st d a] W. unfold wf_equation in W. cbn [e_steady e_dynamic] in W.
  unfold dec_equation, enc_equation. cbn [e_kind e_dynamic e_steady e_descr e_attr].
  rewrite ekind_roundtrip.
  destruct (String.eqb st dyn) eqn:E.
  - apply String.eqb_eq in E. subst st. destruct d; reflexivity.
  - cbn [dec_ostr].
    assert (Hne : String.eqb st "" = false).
    { apply String.eqb_neq. intros ->. destruct W as [W | W]; [congruence | ].
      subst dyn. rewrite String.eqb_refl in E. discriminate. }
    rewrite Hne. destruct d; reflexivity.
Qed.

(* without the guard the steady form is lost: "" is read back as "same as dynamic" *)
Lemma equation_roundtrip_needs_guard :
  exists e, dec_equation N (enc_equation N e) <> Some e.
Proof.
  exists (mkE ET "x=0" "" None ""). vm_compute. discriminate.
Qed.

Lemma value_roundtrip : forall v : value, dec_value N (enc_value N v) = Some v.
Proof. intros [[l | ] [c | ]]; reflexivity. Qed.

Lemma variant_roundtrip : forall vs, dec_variant N (enc_variant N vs) = Some vs.
Proof.
  intros vs. unfold dec_variant, enc_variant. apply mapM_map.
  intros [n v] _. cbn [fst snd]. rewrite value_roundtrip. reflexivity.
Qed.

Lemma context_roundtrip : forall ctx, dec_context N (JObj (map (fun k => (k, JNull)) ctx)) = Some ctx.
Proof.
  intros ctx. unfold dec_context. rewrite map_map. cbn [fst]. rewrite map_id. reflexivity.
Qed.

Theorem portable_roundtrip : forall m : mdesc, wf_mdesc N m -> decode N (encode N m) = Some m.
Proof.
  intros [d lin flat det qs es ctx vs] W. unfold wf_mdesc in W. cbn [d_equations] in W.
  unfold decode, encode.
  cbn [d_descr d_linear d_flat d_determ d_quantities d_equations d_context d_variants].
  unfold gen_key_format, gen_key_source, gen_key_variants, gen_key_description, gen_key_flags, gen_key_quantities,
    gen_key_equations, gen_key_context, gen_key_linear, gen_key_flat, gen_key_determ, gen_format.
  cbn [field lookup bind String.eqb Ascii.eqb Bool.eqb dec_bool dec_list].
  rewrite (mapM_map (enc_quantity N) (dec_quantity N) qs) by (intros q _; apply quantity_roundtrip).
  cbn [bind].
  rewrite (mapM_map (enc_equation N) (dec_equation N) es) by (intros e He; apply equation_roundtrip, W, He).
  cbn [bind]. rewrite context_roundtrip. cbn [bind].
  rewrite (mapM_map (enc_variant N) (dec_variant N) vs) by (intros v _; apply variant_roundtrip).
  reflexivity.
Qed.

(* a wrong format tag is rejected *)
Lemma decode_rejects_other_format : forall f src vars, f <> gen_format ->
  decode N (JObj [(gen_key_format, JStr f); (gen_key_source, src); (gen_key_variants, vars)]) = None.
Proof.
  intros f src vars H. unfold decode. cbn [field lookup]. rewrite String.eqb_refl. cbn [bind].
  apply String.eqb_neq in H. rewrite H. reflexivity.
Qed.

(* every kind is listed exactly once, whatever order the source uses *)
Lemma all_qkinds_complete : forall k, length (filter (qkind_eqb k) all_qkinds) = 1.
Proof. destruct k; reflexivity. Qed.

(* ------------------------------------------------------------------ order of quantities *)

Notation pk := (fun k => fun q : quantity => qkind_eqb (q_kind q) k).

Lemma qkind_eqb_eq : forall a b, qkind_eqb a b = true <-> a = b.
Proof. intros a b. split; [destruct a, b; (reflexivity || discriminate) | intros ->; destruct b; reflexivity]. Qed.

Lemma filter_filter_kind : forall k k' (qs : list quantity),
  filter (pk k) (filter (pk k') qs) = if qkind_eqb k' k then filter (pk k) qs else [].
Proof.
  intros k k'. induction qs as [ | q qs IH].
  - destruct (qkind_eqb k' k); reflexivity.
  - cbn [filter]. destruct (qkind_eqb (q_kind q) k') eqn:E1.
    + apply qkind_eqb_eq in E1. cbn [filter]. rewrite IH. rewrite E1.
      destruct (qkind_eqb k' k) eqn:E2; [reflexivity | reflexivity].
    + rewrite IH. destruct (qkind_eqb k' k) eqn:E2; [ | reflexivity].
      apply qkind_eqb_eq in E2. subst k'. rewrite E1. reflexivity.
Qed.

Lemma filter_by_kind : forall k qs, filter (pk k) (by_kind qs) = filter (pk k) qs.
Proof.
  intros k qs. unfold by_kind, all_qkinds. cbn [flat_map]. rewrite !filter_app, !filter_filter_kind.
  destruct k; cbn [qkind_eqb filter app]; rewrite ?app_nil_r; reflexivity.
Qed.

(* listing kind by kind is idempotent: a model rebuilt from its portable lists its quantities in the same order *)
Theorem by_kind_idempotent : forall qs, by_kind (by_kind qs) = by_kind qs.
Proof.
  intros qs. unfold by_kind at 1 3. unfold all_qkinds. cbn [flat_map].
  rewrite !filter_by_kind. reflexivity.
Qed.

Theorem by_kind_same_elements : forall qs q, In q (by_kind qs) <-> In q qs.
Proof.
  intros qs q. unfold by_kind. rewrite in_flat_map. split.
  - intros [k [_ H]]. apply filter_In in H. tauto.
  - intros H. exists (q_kind q). split.
    + unfold all_qkinds. destruct (q_kind q); cbn; tauto.
    + apply filter_In. split; [assumption | apply qkind_eqb_eq; reflexivity].
Qed.

End Proofs.

(* non-vacuity: a concrete description (numbers as strings) *)
Example portable_example :
  let m := mkD string "demo" true false false
             [mkQ QX "x" (Some false) (Some "level") ""; mkQ QU "ex" None None ""; mkQ QP "rho" None (Some "") ""]
             [mkE ET "x=rho*x[-1]+(ex+ant_ex)" "x=rho*x[-1]" (Some "") ""; mkE EM "ox=x" "ox=x" None ""]
             ["f"]
             [[("x", mkV string (Some "1.5") (Some "0")); ("rho", mkV string (Some "0.8") None)]] in
  decode string (encode string m) = Some m.
Proof. vm_compute. reflexivity. Qed.
