(* C10: pointwise (total-map) specifications of the moving-window functions, the statistics across
   variants and fill_missing of model/SeriesOps.v, for every carrier. *)
From Coq Require Import ZArith List Bool Lia.
From Verif Require Import lib.Arith model.Series model.SeriesOps proofs.SeriesProofs proofs.SeriesOpsProofs.
Import ListNotations.
Open Scope Z_scope.

Section WinProofs.
Variable A : Arith.
Notation V := (car A).
Notation series := (series A).
Hypothesis miss_law : forall x : V, is_miss A x = true -> x = miss A.
Variable X : ArithExt A.

(* t lies inside the stored span of s *)
Definition in_span (s : series) (t : Z) : bool :=
  match s_start s, s_end A s with Some a, Some b => (a <=? t) && (t <=? b) | _, _ => false end.

Lemma row_at_mk fr st nv (rows : list (list V)) t :
  row_at A (mkSeries fr (Some st) nv rows) t
  = if (st <=? t) && (t <=? st + Z.of_nat (length rows) - 1)
    then nth (Z.to_nat (t - st)) rows (missrow A nv) else missrow A nv.
Proof.
  unfold row_at; simpl.
  destruct (Z.ltb_spec t st); [destruct (Z.leb_spec st t); [lia|reflexivity]|].
  destruct (Z.leb_spec st t); [|lia]. simpl.
  destruct (Z.leb_spec t (st + Z.of_nat (length rows) - 1)); [reflexivity|].
  apply nth_overflow. lia.
Qed.

Lemma row_at_in_span (s : series) st t : s_start s = Some st -> in_span s t = true ->
  row_at A s t = nth (Z.to_nat (t - st)) (s_data s) (missrow A (s_nv s)) /\
  (Z.to_nat (t - st) < length (s_data s))%nat /\ st <= t.
Proof.
  intros Es. unfold in_span, s_end, row_at. rewrite Es. intros H.
  apply andb_true_iff in H as [H1 H2]. apply Z.leb_le in H1, H2.
  destruct (Z.ltb_spec t st); [lia|]. repeat split; lia.
Qed.

(* ---------------------------------------------------------------- statistics across variants *)
Theorem statistic_spec k (s : series) t : WF A s ->
  row_at A (statistic A X k s) t
  = if in_span s t then [stat_value A X k (row_at A s t)] else missrow A 1.
Proof.
  intros Hwf. unfold statistic. rewrite row_at_trim.
  2:{ assumption. }
  2:{ destruct Hwf as [H1 H2]. split; simpl.
      - apply Forall_forall. intros r Hr. apply in_map_iff in Hr as (r0 & <- & _). reflexivity.
      - intros E. now rewrite (H2 E). }
  destruct (s_start s) as [st|] eqn:Es.
  - rewrite row_at_mk, map_length.
    assert (Hsp : in_span s t = (st <=? t) && (t <=? st + Z.of_nat (length (s_data s)) - 1))
      by (unfold in_span, s_end; now rewrite Es).
    rewrite <- Hsp. destruct (in_span s t) eqn:E; [|reflexivity].
    destruct (row_at_in_span s st t Es E) as (Hr & Hi & _).
    rewrite nth_map_in with (d' := missrow A (s_nv s)) by assumption. now rewrite Hr.
  - unfold in_span. rewrite Es. unfold row_at. simpl. reflexivity.
Qed.

(* ---------------------------------------------------------------- moving windows *)
(* the window of k periods ending at t, oldest first: x(t-k+1), ..., x(t) of variant c *)
Definition window_at (s : series) (t : Z) (k : nat) (c : nat) : list V :=
  map (fun j => cell A s (t - Z.of_nat k + 1 + Z.of_nat j) c) (seq 0 k).

Lemma window_rows_as_map (s : series) st i k c : s_start s = Some st ->
  col_of A (window_rows A s i k) c = window_at s (st + Z.of_nat i) k c.
Proof.
  intros Es. unfold col_of, window_rows, window_at. rewrite map_map. apply map_ext. intros j.
  unfold cell, row_at. rewrite Es.
  destruct (Z.ltb_spec (Z.of_nat i - Z.of_nat k + 1 + Z.of_nat j) 0);
    destruct (Z.ltb_spec (st + Z.of_nat i - Z.of_nat k + 1 + Z.of_nat j) st); try lia; [reflexivity|].
  do 2 f_equal. lia.
Qed.

Theorem moving_spec m k (s r : series) t : WF A s -> moving A m k s = Ok r ->
  row_at A r t
  = if in_span s t then map (fun c => mov_value A m k (window_at s t k c)) (seq 0 (s_nv s))
    else missrow A (s_nv s).
Proof.
  intros Hwf. pose proof Hwf as [H1 H2]. unfold moving.
  destruct (s_data s) eqn:Ed; [discriminate|]. rewrite <- Ed.
  destruct (Nat.eqb k 0); [discriminate|]. intros H; injection H as <-.
  rewrite row_at_trim.
  2:{ assumption. }
  2:{ split; simpl.
      - apply Forall_forall. intros r Hr. apply in_map_iff in Hr as (i & <- & _). now rewrite map_length, seq_length.
      - intros E. specialize (H2 E). rewrite H2 in Ed. discriminate. }
  destruct (s_start s) as [st|] eqn:Es.
  - rewrite row_at_mk, map_length, seq_length.
    assert (Hsp : in_span s t = (st <=? t) && (t <=? st + Z.of_nat (length (s_data s)) - 1))
      by (unfold in_span, s_end; now rewrite Es).
    rewrite <- Hsp. destruct (in_span s t) eqn:E; [|reflexivity].
    destruct (row_at_in_span s st t Es E) as (_ & Hi & Hge).
    rewrite nth_map_in with (d' := O) by (now rewrite seq_length).
    rewrite seq_nth by assumption. simpl. apply map_ext. intros c.
    rewrite (window_rows_as_map s st) by assumption. do 2 f_equal. lia.
  - discriminate (H2 eq_refl).
Qed.

(* "missing if any member of the window is missing": for carriers whose + and * propagate the missing value *)
Section Absorb.
Variable f : V -> V -> V.
Hypothesis f_miss_l : forall x y, is_miss A x = true -> is_miss A (f x y) = true.
Hypothesis f_miss_r : forall x y, is_miss A y = true -> is_miss A (f x y) = true.

Lemma fold_left_miss_acc l a : is_miss A a = true -> is_miss A (fold_left f l a) = true.
Proof. revert a. induction l as [|x l IH]; simpl; intros a Ha; [assumption|]. apply IH. now apply f_miss_l. Qed.

Lemma fold_left_miss_in l a x : In x l -> is_miss A x = true -> is_miss A (fold_left f l a) = true.
Proof.
  revert a. induction l as [|y l IH]; simpl; intros a Hin Hx; [destruct Hin|].
  destruct Hin as [->|Hin]; [apply fold_left_miss_acc; now apply f_miss_r|now apply IH].
Qed.

Lemma fold1_miss_in l d x : In x l -> is_miss A x = true -> is_miss A (fold1 A f l d) = true.
Proof.
  destruct l as [|y l]; simpl; intros Hin Hx; [destruct Hin|].
  destruct Hin as [->|Hin]; [now apply fold_left_miss_acc|now apply (fold_left_miss_in l y x)].
Qed.
End Absorb.

Definition propagates (f : V -> V -> V) : Prop :=
  (forall x y, is_miss A x = true -> is_miss A (f x y) = true) /\
  (forall x y, is_miss A y = true -> is_miss A (f x y) = true).

Theorem mov_value_missing m k w x :
  propagates (add A) -> propagates (mul A) -> (forall a b, is_miss A a = true -> is_miss A (div A a b) = true) ->
  In x w -> is_miss A x = true -> is_miss A (mov_value A m k w) = true.
Proof.
  intros [Ha1 Ha2] [Hm1 Hm2] Hd Hin Hx. destruct m; simpl.
  - now apply (fold1_miss_in (add A) Ha1 Ha2 w _ x).
  - apply Hd. now apply (fold1_miss_in (add A) Ha1 Ha2 w _ x).
  - now apply (fold1_miss_in (mul A) Hm1 Hm2 w _ x).
Qed.

(* the window functions as sums / products of the window, written out *)
Lemma mov_value_sum k x w : mov_value A MovSum k (x :: w) = fold_left (add A) w x.
Proof. reflexivity. Qed.
Lemma mov_value_avg k x w : mov_value A MovAvg k (x :: w) = div A (fold_left (add A) w x) (ofZ A (Z.of_nat k)).
Proof. reflexivity. Qed.
Lemma mov_value_prod k x w : mov_value A MovProd k (x :: w) = fold_left (mul A) w x.
Proof. reflexivity. Qed.

End WinProofs.
