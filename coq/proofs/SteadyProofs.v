(* C05: proofs about the model of the steady-state solver plumbing (model/Steady.v), over Coq's reals. *)
From Coq Require Import ZArith List Bool Lia Reals Lra Psatz.
From Verif Require Import lib.Arith gen.SteadyGen model.Steady.
Import ListNotations.

Notation RA := RArith.
Notation Rln := Rpower.ln.
Notation Rexp := Rtrigo_def.exp.
(* over the reals nothing is NaN or infinite *)
Definition nobad : R -> bool := fun _ => false.

(* ------------------------------------------------------------------ lists (carrier independent) *)
Section Lists.
Context {T : Type}.
Implicit Types l init g : list T.

Lemma nth_set_nth_eq l n x d : (n < length l)%nat -> nth n (set_nth l n x) d = x.
Proof. revert n; induction l as [|h t IH]; intros [|n] H; simpl in *; try lia; auto. apply IH; lia. Qed.

Lemma nth_set_nth_neq l n m x d : n <> m -> nth m (set_nth l n x) d = nth m l d.
Proof. revert n m; induction l as [|h t IH]; intros [|n] [|m] H; simpl; auto; try congruence. Qed.

Lemma length_set_nth l n x : length (set_nth l n x) = length l.
Proof. revert n; induction l as [|h t IH]; intros [|n]; simpl; auto. Qed.

Lemma mask_select_assign init mask g :
  length init = length mask -> length g = count_true mask -> mask_select (mask_assign init mask g) mask = g.
Proof.
  unfold count_true. revert mask g; induction init as [|x i IH]; intros [|b m] g Hl Hg; simpl in *; try lia.
  - destruct g; simpl in *; [reflexivity|lia].
  - destruct b; simpl in *.
    + destruct g as [|y g]; simpl in *; [lia|]. f_equal. apply IH; lia.
    + apply IH; lia.
Qed.

Lemma length_mask_assign init mask g : length (mask_assign init mask g) = length init.
Proof.
  revert mask g; induction init as [|x i IH]; intros [|b m] g; simpl; auto.
  destruct b; [destruct g|]; simpl; f_equal; apply IH.
Qed.

(* cells outside the mask keep their value *)
Lemma nth_mask_assign_false init mask g i d :
  nth i mask false = false -> nth i (mask_assign init mask g) d = nth i init d.
Proof.
  revert mask g i; induction init as [|x it IH]; intros [|b m] g i H; simpl in *; auto.
  destruct b.
  - destruct i as [|i]; simpl in H; [discriminate|]. destruct g; simpl; apply IH; exact H.
  - destruct i as [|i]; simpl; auto.
Qed.

(* rank of position i among the True entries *)
Fixpoint rank (mask : list bool) (i : nat) : nat :=
  match mask, i with
  | _, O => O
  | [], _ => O
  | b :: m, S i' => (if b then 1 else 0) + rank m i'
  end.

Lemma nth_mask_assign_true init mask g i d :
  length init = length mask -> length g = count_true mask -> (i < length mask)%nat -> nth i mask false = true ->
  nth i (mask_assign init mask g) d = nth (rank mask i) g d.
Proof.
  unfold count_true. revert mask g i; induction init as [|x it IH]; intros [|b m] g i Hl Hg Hi H; simpl in *; try lia.
  destruct b; simpl in *.
  - destruct g as [|y g]; simpl in *; [lia|]. destruct i as [|i]; simpl; auto. apply IH; auto; lia.
  - destruct i as [|i]; simpl in *; [discriminate|]. apply IH; auto; lia.
Qed.

Lemma nth_mask_select (l : list T) mask i d :
  length l = length mask -> (i < length mask)%nat -> nth i mask false = true ->
  nth (rank mask i) (mask_select l mask) d = nth i l d.
Proof.
  revert mask i; induction l as [|x t IH]; intros [|b m] i Hl Hi H; simpl in *; try lia.
  destruct i as [|i]; simpl in *.
  - subst b. reflexivity.
  - destruct b; simpl; apply IH; auto; lia.
Qed.

Lemma rank_lt mask i : (i < length mask)%nat -> nth i mask false = true -> (rank mask i < count_true mask)%nat.
Proof.
  unfold count_true. revert i; induction mask as [|b m IH]; intros i Hi H; simpl in *; [lia|].
  destruct i as [|i]; simpl in *.
  - subst b; simpl; lia.
  - specialize (IH i ltac:(lia) H). destruct b; simpl; lia.
Qed.

Lemma In_mask_select (l : list T) mask x : In x (mask_select l mask) ->
  exists i, (i < length mask)%nat /\ (i < length l)%nat /\ nth i mask false = true /\ forall d, nth i l d = x.
Proof.
  revert mask; induction l as [|y t IH]; intros [|b m] H; simpl in *; try contradiction.
  destruct b; simpl in H.
  - destruct H as [->|H].
    + exists O; simpl; repeat split; auto; lia.
    + destruct (IH _ H) as (i & ? & ? & ? & ?). exists (S i); simpl; repeat split; auto; lia.
  - destruct (IH _ H) as (i & ? & ? & ? & ?). exists (S i); simpl; repeat split; auto; lia.
Qed.

Lemma mask_select_In (l : list T) mask i d : length l = length mask -> (i < length mask)%nat ->
  nth i mask false = true -> In (nth i l d) (mask_select l mask).
Proof.
  revert mask i; induction l as [|y t IH]; intros [|b m] i Hl Hi H; simpl in *; try lia.
  destruct i as [|i]; simpl in *.
  - subst b; simpl; auto.
  - destruct b; simpl; [right|]; apply IH; auto; lia.
Qed.

End Lists.

Lemma nth_map_seq {T} (f : nat -> T) n i d : (i < n)%nat -> nth i (map f (seq 0 n)) d = f i.
Proof.
  intros H. rewrite nth_indep with (d' := f O) by (rewrite map_length, seq_length; lia).
  rewrite map_nth. rewrite seq_nth by lia. reflexivity.
Qed.

Lemma nth_zrange_n first n j : (j < n)%nat -> nth j (zrange_n first n) 0%Z = (first + Z.of_nat j)%Z.
Proof. intros H. unfold zrange_n. now rewrite nth_map_seq. Qed.

Lemma length_zrange_n first n : length (zrange_n first n) = n.
Proof. unfold zrange_n. now rewrite map_length, seq_length. Qed.

Lemma mem_nat_In q l : mem_nat q l = true <-> In q l.
Proof.
  unfold mem_nat. rewrite existsb_exists. split.
  - intros (x & Hx & E). apply Nat.eqb_eq in E. now subst.
  - intros H. exists q. split; auto. apply Nat.eqb_refl.
Qed.

Lemma index_of_None q l : index_of q l = None <-> ~ In q l.
Proof.
  induction l as [|h t IH]; simpl; [tauto|].
  destruct (Nat.eqb_spec q h) as [->|N].
  - split; [discriminate|]. intros H; exfalso; apply H; auto.
  - destruct (index_of q t); simpl; split; try discriminate; intros H.
    + exfalso. destruct IH as [_ IH]. assert (X : Some n = None) by (apply IH; intros X; apply H; auto). discriminate.
    + intros [E|X]; [congruence|]. now apply IH.
    + reflexivity.
Qed.

Lemma index_of_Some q l i : index_of q l = Some i -> (i < length l)%nat /\ nth i l O = q.
Proof.
  revert i; induction l as [|h t IH]; simpl; intros i H; [discriminate|].
  destruct (Nat.eqb_spec q h) as [->|N].
  - inversion H; subst. split; simpl; auto; lia.
  - destruct (index_of q t) as [j|]; simpl in H; [|discriminate]. inversion H; subst.
    destruct (IH j eq_refl). split; simpl; auto; lia.
Qed.

Lemma index_of_nth l i : NoDup l -> (i < length l)%nat -> index_of (nth i l O) l = Some i.
Proof.
  revert i; induction l as [|h t IH]; intros i ND Hi; simpl in *; [lia|].
  inversion ND as [|? ? Hnin ND']; subst.
  destruct i as [|i]; simpl.
  - now rewrite Nat.eqb_refl.
  - destruct (Nat.eqb_spec (nth i t O) h) as [E|N].
    + exfalso. apply Hnin. rewrite <- E. apply nth_In; lia.
    + rewrite IH; auto; lia.
Qed.

(* ------------------------------------------------------------------ update_from_array (over R) *)
Section Update.
Open Scope R_scope.

Lemma none_if_nan_R (x : R) : none_if_nan RA x = x.
Proof. reflexivity. Qed.

Lemma update_from_array_length d vals qids : length (update_from_array RA d vals qids) = length d.
Proof.
  unfold update_from_array. revert d vals; induction qids as [|q qs IH]; intros d [|x vs]; simpl; auto.
  rewrite IH. apply length_set_nth.
Qed.

Lemma update_from_array_other d vals qids q :
  ~ In q qids -> vget RA (update_from_array RA d vals qids) q = vget RA d q.
Proof.
  unfold update_from_array, vget. revert d vals; induction qids as [|h qs IH]; intros d [|x vs] H; simpl in *; auto.
  rewrite IH by tauto. apply nth_set_nth_neq. intros E; apply H; auto.
Qed.

Lemma update_from_array_hit d vals qids i :
  NoDup qids -> length vals = length qids -> (i < length qids)%nat -> (nth i qids O < length d)%nat ->
  vget RA (update_from_array RA d vals qids) (nth i qids O) = nth i vals 0.
Proof.
  unfold update_from_array. revert d vals i; induction qids as [|h qs IH]; intros d [|x vs] i ND Hl Hi Hd; simpl in *; try lia.
  inversion ND as [|? ? Hnin ND']; subst.
  destruct i as [|i]; simpl in *.
  - change (fold_left _ (combine qs vs) (set_nth d h (none_if_nan RA x))) with
        (update_from_array RA (set_nth d h (none_if_nan RA x)) vs qs).
    rewrite update_from_array_other by exact Hnin. unfold vget. now rewrite nth_set_nth_eq.
  - apply IH; auto; try lia. now rewrite length_set_nth.
Qed.

End Update.

(* ------------------------------------------------------------------ equations *)
Section Equations.
Open Scope R_scope.
Notation expr := (expr RA).

(* an equation only reads the cells named by its tokens *)
Lemma eval_ext (x y : nat -> Z -> R) (e : expr) :
  (forall q s, In (q, s) (tokens RA e) -> x q s = y q s) -> eval RA x e = eval RA y e.
Proof.
  induction e; simpl; intros H; auto;
    try (rewrite IHe by auto; reflexivity);
    try (rewrite IHe1, IHe2 by (intros; apply H; apply in_or_app; auto); reflexivity).
Qed.

Lemma fold_min_le (l : list Z) (a : Z) : (fold_left Z.min l a <= a)%Z /\ forall x, In x l -> (fold_left Z.min l a <= x)%Z.
Proof.
  revert a; induction l as [|h t IH]; intros a; simpl; [split; [lia|tauto]|].
  destruct (IH (Z.min a h)) as [H1 H2]. split; [lia|].
  intros x [->|Hx]; [lia|auto].
Qed.
Lemma fold_max_ge (l : list Z) (a : Z) : (a <= fold_left Z.max l a)%Z /\ forall x, In x l -> (x <= fold_left Z.max l a)%Z.
Proof.
  revert a; induction l as [|h t IH]; intros a; simpl; [split; [lia|tauto]|].
  destruct (IH (Z.max a h)) as [H1 H2]. split; [lia|].
  intros x [->|Hx]; [lia|auto].
Qed.

Lemma token_shift_bounds (eqs : list expr) e q s :
  In e eqs -> In (q, s) (tokens RA e) -> (min_shift_of RA eqs <= s <= max_shift_of RA eqs)%Z.
Proof.
  intros He Ht.
  assert (Hin : In s (map snd (all_tokens RA eqs))).
  { apply in_map_iff. exists (q, s). split; auto. unfold all_tokens. apply in_flat_map. eauto. }
  unfold min_shift_of, max_shift_of. destruct (map snd (all_tokens RA eqs)) as [|a r]; [contradiction|].
  destruct (fold_min_le r a) as [m1 m2]. destruct (fold_max_ge r a) as [M1 M2].
  destruct Hin as [<-|Hin]; [lia|]. specialize (m2 _ Hin). specialize (M2 _ Hin). lia.
Qed.

End Equations.

(* ------------------------------------------------------------------ 1. path shape *)
Section PathShape.
Open Scope R_scope.

(* the steady path that stored level l and change c define for a quantity: date s is relative to "now" *)
Definition path_value (lgq : bool) (l c : R) (s : Z) : R :=
  if lgq then l * Rpower c (IZR s) else l + c * IZR s.

Lemma exp_ln_pos x : 0 < x -> Rexp (Rln x) = x.
Proof. apply exp_ln. Qed.

Lemma variant_cell_nonlog l c s : variant_cell RA nobad false l c s = l + c * IZR s.
Proof. reflexivity. Qed.

Lemma variant_cell_log l c s : 0 < l -> variant_cell RA nobad true l c s = l * Rpower c (IZR s).
Proof.
  intros Hl. unfold variant_cell, clean_level, clean_change, nobad. cbn.
  rewrite exp_plus, exp_ln by exact Hl. unfold Rpower. now rewrite (Rmult_comm (Rln c)).
Qed.

Lemma variant_cell_shape lgq l c s : (lgq = true -> 0 < l) -> variant_cell RA nobad lgq l c s = path_value lgq l c s.
Proof. destruct lgq; intros H; [apply variant_cell_log; auto|apply variant_cell_nonlog]. Qed.

(* cell (q, j) of the array that Variant.create_steady_array builds *)
Lemma steady_array_general_cell lg v ncols first q j :
  (q < length (v_levels RA v))%nat -> (j < ncols)%nat ->
  nth j (nth q (steady_array_general RA nobad lg v ncols first) []) 0 =
  variant_cell RA nobad (is_log lg q) (vget RA (v_levels RA v) q) (vget RA (v_changes RA v) q) (first + Z.of_nat j).
Proof.
  intros Hq Hj. unfold steady_array_general. rewrite nth_map_seq by exact Hq.
  rewrite nth_indep with (d' := variant_cell RA nobad (is_log lg q) (vget RA (v_levels RA v) q) (vget RA (v_changes RA v) q) 0%Z)
    by (rewrite map_length, length_zrange_n; exact Hj).
  rewrite map_nth. now rewrite nth_zrange_n.
Qed.

Lemma create_steady_array_general lg v ncols first : (2 <= ncols)%nat ->
  create_steady_array RA nobad lg v ncols first = steady_array_general RA nobad lg v ncols first.
Proof.
  intros H. unfold create_steady_array. destruct (Nat.eqb_spec ncols 1); [lia|]. reflexivity.
Qed.

Lemma aget_nat (arr : array RA) q j : aget RA arr q (Z.of_nat j) = nth j (nth q arr []) 0.
Proof.
  unfold aget. destruct (Z.ltb_spec (Z.of_nat j) 0); [lia|]. now rewrite Nat2Z.id.
Qed.

(* THEOREM path_shape: the row of quantity q is the arithmetic sequence level + change*k (any variable that is
   not a log-variable) or the geometric sequence level * change^k (log-variables), for EVERY column; hence it is
   constant when the change is 0 (resp. 1) *)
Theorem path_shape lg v ncols first q j :
  (q < length (v_levels RA v))%nat -> (j < ncols)%nat -> (2 <= ncols)%nat ->
  (is_log lg q = true -> 0 < vget RA (v_levels RA v) q) ->
  aget RA (create_steady_array RA nobad lg v ncols first) q (Z.of_nat j) =
  path_value (is_log lg q) (vget RA (v_levels RA v) q) (vget RA (v_changes RA v) q) (first + Z.of_nat j).
Proof.
  intros Hq Hj Hn Hpos. rewrite aget_nat, create_steady_array_general by exact Hn.
  rewrite steady_array_general_cell by assumption. now apply variant_cell_shape.
Qed.

Lemma path_value_arith l c s : path_value false l c (s + 1) = path_value false l c s + c.
Proof. unfold path_value. rewrite plus_IZR. ring. Qed.

Lemma path_value_geom l c s : 0 < c -> path_value true l c (s + 1) = path_value true l c s * c.
Proof.
  intros Hc. unfold path_value. rewrite plus_IZR, Rpower_plus, Rpower_1 by exact Hc. ring.
Qed.

Lemma path_value_const_nonlog l s : path_value false l 0 s = l.
Proof. unfold path_value. ring. Qed.

Lemma path_value_const_log l s : path_value true l 1 s = l.
Proof. unfold path_value, Rpower. rewrite ln_1, Rmult_0_r, exp_0. ring. Qed.

(* one-step recurrences of the rows of the array (the inductive reading of path_shape) *)
Corollary path_shape_step lg v ncols first q j :
  (q < length (v_levels RA v))%nat -> (S j < ncols)%nat ->
  (is_log lg q = true -> 0 < vget RA (v_levels RA v) q /\ 0 < vget RA (v_changes RA v) q) ->
  let a := create_steady_array RA nobad lg v ncols first in
  aget RA a q (Z.of_nat (S j)) =
  if is_log lg q then aget RA a q (Z.of_nat j) * vget RA (v_changes RA v) q
  else aget RA a q (Z.of_nat j) + vget RA (v_changes RA v) q.
Proof.
  intros Hq Hj Hpos a. subst a.
  rewrite !path_shape; try lia; try (intros H; apply Hpos; exact H).
  replace (first + Z.of_nat (S j))%Z with ((first + Z.of_nat j) + 1)%Z by lia.
  destruct (is_log lg q) eqn:E.
  - apply path_value_geom. now apply Hpos.
  - apply path_value_arith.
Qed.

End PathShape.

(* ------------------------------------------------------------------ more list facts *)
Lemma nth_map2 {T U W} (f : T -> U -> W) a b i da db dw :
  (i < length a)%nat -> (i < length b)%nat -> nth i (map2 f a b) dw = f (nth i a da) (nth i b db).
Proof.
  revert b i; induction a as [|x a IH]; intros [|y b] [|i] Ha Hb; simpl in *; try lia; auto. apply IH; lia.
Qed.

Lemma nth_map_d {T U} (f : T -> U) l i d d' : (i < length l)%nat -> nth i (map f l) d = f (nth i l d').
Proof. revert i; induction l as [|x l IH]; intros [|i] H; simpl in *; try lia; auto. apply IH; lia. Qed.

Lemma length_map2 {T U W} (f : T -> U -> W) a b : length (map2 f a b) = Nat.min (length a) (length b).
Proof. revert b; induction a as [|x a IH]; intros [|y b]; simpl; auto. Qed.

Lemma length_mask_select {T} (l : list T) mask : length l = length mask -> length (mask_select l mask) = count_true mask.
Proof.
  unfold count_true. revert mask; induction l as [|x t IH]; intros [|b m] H; simpl in *; try lia.
  destruct b; simpl; rewrite IH; auto.
Qed.

Lemma NoDup_mask_select (l : list nat) mask : NoDup l -> NoDup (mask_select l mask).
Proof.
  revert mask; induction l as [|x t IH]; intros [|b m] ND; simpl; try constructor.
  inversion ND as [|? ? Hn ND']; subst. destruct b; [constructor|]; auto.
  intros H. apply Hn. apply In_mask_select in H. destruct H as (i & _ & Hi & _ & Hx).
  rewrite <- (Hx O). apply nth_In. exact Hi.
Qed.

Lemma filter_all {T} (f : T -> bool) l : (forall x, In x l -> f x = true) -> filter f l = l.
Proof.
  induction l as [|h t IH]; simpl; intros H; auto. rewrite (H h) by auto. f_equal. apply IH. auto.
Qed.

Lemma map_fst_combine {T U} (a : list T) (b : list U) : length a = length b -> map fst (combine a b) = a.
Proof. revert b; induction a as [|x a IH]; intros [|y b] H; simpl in *; try lia; auto. f_equal. apply IH. lia. Qed.
Lemma map_snd_combine {T U} (a : list T) (b : list U) : length a = length b -> map snd (combine a b) = b.
Proof. revert b; induction a as [|x a IH]; intros [|y b] H; simpl in *; try lia; auto. f_equal. apply IH. lia. Qed.

Lemma count_true_le (m : list bool) : (count_true m <= length m)%nat.
Proof. unfold count_true. induction m as [|b m IH]; simpl; [lia|]. destruct b; simpl; lia. Qed.

(* ------------------------------------------------------------------ 2./3. the evaluator *)
Section Evaluator.
Open Scope R_scope.

Variables (flat : bool) (lg : list (option bool)) (kinds : list qkind) (v : variant RA).
Variables (wrt level_qids change_qids : list nat) (eqs : list (expr RA)) (g : list R).

Definition nq := length (v_levels RA v).
Hypothesis Hlen_changes : length (v_changes RA v) = nq.
Hypothesis Hnodup : NoDup wrt.
Hypothesis Hwrt_lt : forall q, In q wrt -> (q < nq)%nat.

Definition the_ev := snd (make_evaluator RA nobad flat lg v wrt level_qids change_qids eqs).
Definition the_v1 := fst (make_evaluator RA nobad flat lg v wrt level_qids change_qids eqs).
Notation ev := the_ev.
Notation v1 := the_v1.

Hypothesis Hg : length g = (count_true (ev_bl RA ev) + count_true (ev_bc RA ev))%nat.
(* only loggable variables carry a steady change: the solved change cells are variables
   (endogenized parameters are put among the fixed changes by _resolve_steady_wrt) *)
Hypothesis Hloggable : forall q, In q wrt -> In q change_qids -> is_loggable (kind_of kinds q) = true.

Definition the_v' := write_back RA kinds v1 ev g.
Notation v' := the_v'.

Definition bl := map (fun q => mem_nat q level_qids) wrt.
Definition bc := if flat then [] else map (fun q => mem_nat q change_qids) wrt.
Definition nl := count_true bl.

Lemma ev_wrt_eq : ev_wrt RA ev = wrt.            Proof. reflexivity. Qed.
Lemma ev_bl_eq : ev_bl RA ev = bl.               Proof. reflexivity. Qed.
Lemma ev_bc_eq : ev_bc RA ev = bc.               Proof. reflexivity. Qed.
Lemma ev_lg_eq : ev_lg RA ev = map (is_log lg) wrt. Proof. reflexivity. Qed.
Lemma ev_flat_eq : ev_flat RA ev = flat.         Proof. reflexivity. Qed.
Lemma ev_eqs_eq : ev_eqs RA ev = eqs.            Proof. reflexivity. Qed.
Lemma ev_min_shift_eq : ev_min_shift RA ev = min_shift_of RA eqs. Proof. reflexivity. Qed.
Lemma ev_init_levels_eq : ev_init_levels RA ev = map (maybelog_level RA lg v1) wrt.
Proof. reflexivity. Qed.
Lemma ev_init_changes_eq : ev_init_changes RA ev = map (maybelog_change RA lg v1) wrt.
Proof. reflexivity. Qed.
Lemma v1_eq : v1 = if flat then zero_changes RA lg v else v.
Proof. reflexivity. Qed.
Lemma v1_levels : v_levels RA v1 = v_levels RA v.
Proof. rewrite v1_eq. destruct flat; reflexivity. Qed.
Lemma v1_changes_length : length (v_changes RA v1) = nq.
Proof.
  rewrite v1_eq. destruct flat; simpl; auto. now rewrite map_length, seq_length.
Qed.

Lemma ev_ncols_eq : ev_ncols RA ev = Z.to_nat (max_shift_of RA eqs + 1 + 1 - min_shift_of RA eqs).
Proof. reflexivity. Qed.

Lemma length_bl : length bl = length wrt.  Proof. unfold bl. now rewrite map_length. Qed.

(* the part of the guess that holds levels / changes *)
Definition gl := if flat then g else firstn nl g.
Definition gc := skipn nl g.

Lemma bc_flat : flat = true -> bc = [].  Proof. unfold bc. now intros ->. Qed.
Lemma length_bc : flat = false -> length bc = length wrt.
Proof. unfold bc. intros ->. now rewrite map_length. Qed.

Lemma nth_bl i : (i < length wrt)%nat -> nth i bl false = mem_nat (nth i wrt O) level_qids.
Proof. intros Hi. unfold bl. now rewrite nth_map_d with (d' := O). Qed.
Lemma nth_bc i : flat = false -> (i < length wrt)%nat -> nth i bc false = mem_nat (nth i wrt O) change_qids.
Proof. intros F Hi. unfold bc. rewrite F. now rewrite nth_map_d with (d' := O). Qed.

Lemma length_gl : length gl = nl.
Proof.
  unfold gl. pose proof Hg as H. rewrite ev_bl_eq, ev_bc_eq in H. fold nl in H. destruct flat eqn:F.
  - rewrite bc_flat in H by assumption. change (count_true []) with O in H. lia.
  - rewrite firstn_length. lia.
Qed.
Lemma length_gc : length gc = count_true bc.
Proof.
  unfold gc. pose proof Hg as H. rewrite ev_bl_eq, ev_bc_eq in H. fold nl in H. rewrite skipn_length. lia.
Qed.

Lemma new_levels_eq : new_levels RA ev g = mask_assign (map (maybelog_level RA lg v1) wrt) bl gl.
Proof. unfold new_levels, gl. rewrite ev_flat_eq. destruct flat; reflexivity. Qed.

Lemma new_changes_eq : new_changes RA ev g =
  if flat then map (fun _ => 0) wrt else mask_assign (map (maybelog_change RA lg v1) wrt) bc gc.
Proof.
  unfold new_changes, gc. rewrite ev_flat_eq, ev_init_changes_eq, ev_bc_eq.
  change (ev_num_levels RA ev) with nl.
  destruct flat; [rewrite map_map|]; reflexivity.
Qed.

Lemma length_new_levels : length (new_levels RA ev g) = length wrt.
Proof. rewrite new_levels_eq, length_mask_assign. now rewrite map_length. Qed.
Lemma length_new_changes : length (new_changes RA ev g) = length wrt.
Proof. rewrite new_changes_eq. destruct flat; [|rewrite length_mask_assign]; now rewrite map_length. Qed.

(* the maybe-log level / change the evaluator uses for the i-th entry of wrt *)
Definition L (i : nat) : R := nth i (new_levels RA ev g) 0.
Definition C (i : nat) : R := nth i (new_changes RA ev g) 0.

(* ---- guess_roundtrip, index level: what is read back from the updated vectors at the solved positions is the guess *)
Theorem extract_update_levels : mask_select (new_levels RA ev g) (ev_bl RA ev) = gl.
Proof.
  rewrite new_levels_eq, ev_bl_eq. apply mask_select_assign.
  - now rewrite map_length, length_bl.
  - apply length_gl.
Qed.

Theorem extract_update_changes : flat = false -> mask_select (new_changes RA ev g) (ev_bc RA ev) = gc.
Proof.
  intros F. rewrite new_changes_eq, ev_bc_eq, F. apply mask_select_assign.
  - now rewrite map_length, length_bc.
  - apply length_gc.
Qed.

Theorem guess_split : flat = false -> g = gl ++ gc.
Proof. intros F. unfold gl, gc. rewrite F. symmetry. apply firstn_skipn. Qed.

(* positions that are not solved keep the value read from the variant *)
Lemma L_unsolved i : (i < length wrt)%nat -> nth i bl false = false -> L i = maybelog_level RA lg v1 (nth i wrt O).
Proof.
  intros Hi Hb. unfold L. rewrite new_levels_eq, nth_mask_assign_false by exact Hb.
  rewrite nth_indep with (d' := maybelog_level RA lg v1 O) by (now rewrite map_length).
  now rewrite map_nth.
Qed.
Lemma L_solved i : (i < length wrt)%nat -> nth i bl false = true -> L i = nth (rank bl i) gl 0.
Proof.
  intros Hi Hb. unfold L. rewrite new_levels_eq. apply nth_mask_assign_true; auto.
  - now rewrite map_length, length_bl.
  - apply length_gl.
  - now rewrite length_bl.
Qed.
Lemma C_flat i : flat = true -> (i < length wrt)%nat -> C i = 0.
Proof.
  intros F Hi. unfold C. rewrite new_changes_eq, F.
  now rewrite nth_map_d with (d' := O).
Qed.
Lemma C_unsolved i : flat = false -> (i < length wrt)%nat -> nth i bc false = false ->
  C i = maybelog_change RA lg v1 (nth i wrt O).
Proof.
  intros F Hi Hb. unfold C. rewrite new_changes_eq, F, nth_mask_assign_false by exact Hb.
  rewrite nth_indep with (d' := maybelog_change RA lg v1 O) by (now rewrite map_length).
  now rewrite map_nth.
Qed.
Lemma C_solved i : flat = false -> (i < length wrt)%nat -> nth i bc false = true -> C i = nth (rank bc i) gc 0.
Proof.
  intros F Hi Hb. unfold C. rewrite new_changes_eq, F. apply nth_mask_assign_true; auto.
  - now rewrite map_length, length_bc.
  - apply length_gc.
  - now rewrite length_bc.
Qed.

(* ---- write-back *)
Definition delog (lgi : bool) (x : R) : R := if lgi then Rexp x else x.

Definition ls' := map2 (fun (lgi : bool) x => if lgi then gen_extract_delog_levels RA x else x) (map (is_log lg) wrt) (new_levels RA ev g).
Definition cs' := map2 (fun (lgi : bool) x => if lgi then gen_extract_delog_changes RA x else x) (map (is_log lg) wrt) (new_changes RA ev g).

Lemma nth_ls' i : (i < length wrt)%nat -> nth i ls' 0 = delog (is_log lg (nth i wrt O)) (L i).
Proof.
  intros Hi. unfold ls'. rewrite nth_map2 with (da := false) (db := 0).
  - rewrite nth_indep with (d' := is_log lg O) by (now rewrite map_length). rewrite map_nth. reflexivity.
  - now rewrite map_length.
  - change (i < length (new_levels RA ev g))%nat. rewrite length_new_levels. exact Hi.
Qed.
Lemma nth_cs' i : (i < length wrt)%nat -> nth i cs' 0 = delog (is_log lg (nth i wrt O)) (C i).
Proof.
  intros Hi. unfold cs'. rewrite nth_map2 with (da := false) (db := 0).
  - rewrite nth_indep with (d' := is_log lg O) by (now rewrite map_length). rewrite map_nth. reflexivity.
  - now rewrite map_length.
  - change (i < length (new_changes RA ev g))%nat. rewrite length_new_changes. exact Hi.
Qed.
Lemma length_ls' : length ls' = length wrt.
Proof. unfold ls'. rewrite length_map2, map_length, length_new_levels. lia. Qed.
Lemma length_cs' : length cs' = length wrt.
Proof. unfold cs'. rewrite length_map2, map_length, length_new_changes. lia. Qed.

Lemma v'_levels : v_levels RA v' = update_from_array RA (v_levels RA v) (mask_select ls' bl) (mask_select wrt bl).
Proof. unfold the_v', write_back. cbn [extract_levels extract_changes]. cbn [v_levels]. rewrite v1_levels. reflexivity. Qed.

Lemma keep_all : filter (fun cq : R * nat => is_loggable (kind_of kinds (snd cq))) (combine (mask_select cs' bc) (mask_select wrt bc))
                 = combine (mask_select cs' bc) (mask_select wrt bc).
Proof.
  apply filter_all. intros [c q] H. simpl. apply in_combine_r in H.
  destruct flat eqn:F.
  - rewrite bc_flat in H by assumption. destruct wrt; simpl in H; contradiction.
  - apply In_mask_select in H. destruct H as (i & Hi & Hiw & Hb & Hq).
    rewrite length_bc in Hi by assumption. specialize (Hq O). subst q.
    apply Hloggable; [apply nth_In; exact Hiw|].
    rewrite nth_bc in Hb by assumption. now apply mem_nat_In.
Qed.

Lemma v'_changes : v_changes RA v' = update_from_array RA (v_changes RA v1) (mask_select cs' bc) (mask_select wrt bc).
Proof.
  unfold the_v', write_back. cbn [extract_levels extract_changes]. cbn [v_changes].
  set (K := filter _ _).
  assert (E : K = combine (mask_select cs' bc) (mask_select wrt bc)) by exact keep_all.
  rewrite E. clear E K.
  rewrite map_fst_combine, map_snd_combine; auto.
  all: destruct flat eqn:F.
  all: try (rewrite bc_flat by assumption; destruct cs', wrt; reflexivity).
  all: rewrite !length_mask_select; auto; try (now rewrite length_bc); now rewrite length_cs', length_bc.
Qed.

(* guess_roundtrip, cell level (a): cells that are not solved for are untouched *)
Theorem levels_untouched q : ~ (In q wrt /\ In q level_qids) -> vget RA (v_levels RA v') q = vget RA (v_levels RA v) q.
Proof.
  intros H. rewrite v'_levels. apply update_from_array_other. intros Hin.
  apply In_mask_select in Hin. destruct Hin as (i & Hi & Hiw & Hb & Hq). specialize (Hq O). subst q.
  apply H. split; [apply nth_In; exact Hiw|].
  rewrite nth_bl in Hb by assumption. now apply mem_nat_In.
Qed.

Theorem changes_untouched q : ~ (flat = false /\ In q wrt /\ In q change_qids) ->
  vget RA (v_changes RA v') q = vget RA (v_changes RA v1) q.
Proof.
  intros H. rewrite v'_changes. apply update_from_array_other. intros Hin.
  destruct flat eqn:F.
  - rewrite bc_flat in Hin by assumption. destruct wrt; simpl in Hin; contradiction.
  - apply In_mask_select in Hin. destruct Hin as (i & Hi & Hiw & Hb & Hq). specialize (Hq O). subst q.
    apply H. split; [reflexivity|]. split; [apply nth_In; exact Hiw|].
    rewrite nth_bc in Hb by assumption. now apply mem_nat_In.
Qed.

(* (b): the solved cells hold the delogarithmized guess *)
Lemma level_written i : (i < length wrt)%nat -> nth i bl false = true ->
  vget RA (v_levels RA v') (nth i wrt O) = delog (is_log lg (nth i wrt O)) (L i).
Proof.
  intros Hi Hb. rewrite v'_levels.
  assert (Hib : (i < length bl)%nat) by (now rewrite length_bl).
  rewrite <- (nth_mask_select wrt bl i O) at 1; auto; [|now rewrite length_bl].
  rewrite update_from_array_hit.
  - rewrite nth_mask_select; auto; [apply nth_ls'; exact Hi|now rewrite length_ls', length_bl].
  - now apply NoDup_mask_select.
  - rewrite !length_mask_select; auto; [now rewrite length_bl|now rewrite length_ls', length_bl].
  - rewrite length_mask_select by (now rewrite length_bl). now apply rank_lt.
  - rewrite nth_mask_select; auto; [|now rewrite length_bl]. apply Hwrt_lt. now apply nth_In.
Qed.

Lemma change_written i : flat = false -> (i < length wrt)%nat -> nth i bc false = true ->
  vget RA (v_changes RA v') (nth i wrt O) = delog (is_log lg (nth i wrt O)) (C i).
Proof.
  intros F Hi Hb. rewrite v'_changes.
  assert (Hlb : length bc = length wrt) by (now apply length_bc).
  assert (Hib : (i < length bc)%nat) by lia.
  rewrite <- (nth_mask_select wrt bc i O) at 1; auto.
  rewrite update_from_array_hit.
  - rewrite nth_mask_select; auto; [apply nth_cs'; exact Hi|now rewrite length_cs'].
  - now apply NoDup_mask_select.
  - rewrite !length_mask_select; auto. now rewrite length_cs'.
  - rewrite length_mask_select by auto. now apply rank_lt.
  - rewrite nth_mask_select; auto. rewrite v1_changes_length. apply Hwrt_lt. now apply nth_In.
Qed.

Lemma ln_delog (lgi : bool) x : (if lgi then Rln (delog lgi x) else delog lgi x) = x.
Proof. destruct lgi; simpl; auto. apply ln_exp. Qed.

(* reading the written variant back in maybe-log form returns what the evaluator used, for EVERY entry of wrt *)
Theorem maybelog_level_roundtrip i : (i < length wrt)%nat -> maybelog_level RA lg v' (nth i wrt O) = L i.
Proof.
  intros Hi. unfold maybelog_level. cbn [gen_retrieve_log_level ln RA].
  destruct (nth i bl false) eqn:Hb.
  - rewrite level_written by auto. apply ln_delog.
  - rewrite levels_untouched.
    + rewrite L_unsolved by auto. unfold maybelog_level. rewrite v1_levels. reflexivity.
    + intros [_ Hin]. apply mem_nat_In in Hin.
      rewrite nth_bl in Hb by assumption. congruence.
Qed.

Lemma zero_change_maybelog q : maybelog_change RA lg (zero_changes RA lg v) q = 0.
Proof.
  unfold maybelog_change, zero_changes, vget. cbn [v_changes].
  destruct (Nat.lt_ge_cases q (length (v_changes RA v))) as [Hq|Hq].
  - rewrite nth_map_seq by exact Hq. unfold is_log. destruct (nth q lg None) as [[|]|]; cbn; auto. apply ln_1.
  - rewrite nth_overflow by (now rewrite map_length, seq_length).
    unfold is_log. destruct (nth q lg None) as [[|]|]; cbn; auto.
    (* a log-variable without a stored change: ln 0 is 0 in Coq's reals *)
    unfold Rpower.ln. destruct (Rlt_dec 0 0) as [H|H]; [exfalso; lra|reflexivity].
Qed.

Theorem maybelog_change_roundtrip i : (i < length wrt)%nat -> maybelog_change RA lg v' (nth i wrt O) = C i.
Proof.
  intros Hi. destruct flat eqn:F.
  - rewrite C_flat by auto. unfold maybelog_change. rewrite changes_untouched by (intros [X _]; congruence).
    fold (maybelog_change RA lg v1 (nth i wrt O)). rewrite v1_eq, F. apply zero_change_maybelog.
  - unfold maybelog_change. cbn [gen_retrieve_log_change ln RA].
    destruct (nth i bc false) eqn:Hb.
    + rewrite change_written by auto. apply ln_delog.
    + rewrite changes_untouched.
      * rewrite C_unsolved by auto. reflexivity.
      * intros (_ & _ & Hin). apply mem_nat_In in Hin.
        rewrite nth_bc in Hb by assumption. congruence.
Qed.

(* guess_roundtrip, stated on the guess vector itself: the i-th solved level cell, read back from the written
   variant in maybe-log form, is the corresponding entry of the guess *)
Corollary guess_roundtrip_levels i : (i < length wrt)%nat -> In (nth i wrt O) level_qids ->
  maybelog_level RA lg v' (nth i wrt O) = nth (rank bl i) gl 0.
Proof.
  intros Hi Hin. rewrite maybelog_level_roundtrip by auto. apply L_solved; auto.
  rewrite nth_bl by assumption. now apply mem_nat_In.
Qed.
Corollary guess_roundtrip_changes i : flat = false -> (i < length wrt)%nat -> In (nth i wrt O) change_qids ->
  maybelog_change RA lg v' (nth i wrt O) = nth (rank bc i) gc 0.
Proof.
  intros F Hi Hin. rewrite maybelog_change_roundtrip by auto. apply C_solved; auto.
  rewrite nth_bc by assumption. now apply mem_nat_In.
Qed.

(* ---- 3. the array the residual is evaluated on is the steady array of the written variant *)
Definition ncols := ev_ncols RA ev.
Definition mn := min_shift_of RA eqs.
Definition off := gen_column_offset mn.

Lemma min_le_max : (min_shift_of RA eqs <= max_shift_of RA eqs)%Z.
Proof.
  unfold min_shift_of, max_shift_of. destruct (map snd (all_tokens RA eqs)) as [|a r]; [lia|].
  destruct (fold_min_le r a). destruct (fold_max_ge r a). lia.
Qed.

Lemma ncols_ge_2 : (2 <= ncols)%nat.
Proof. unfold ncols. rewrite ev_ncols_eq. pose proof min_le_max. lia. Qed.

Lemma ncols_Z : Z.of_nat ncols = (max_shift_of RA eqs + 2 - mn)%Z.
Proof. unfold ncols, mn. rewrite ev_ncols_eq. pose proof min_le_max. lia. Qed.

Lemma variant_cell_maybelog (lgq : bool) l c s :
  variant_cell RA nobad lgq l c s = delog lgq ((if lgq then Rln l else l) + (if lgq then Rln c else c) * IZR s).
Proof. destruct lgq; reflexivity. Qed.

Lemma maybelog_level_R lg0 (w : variant RA) q :
  maybelog_level RA lg0 w q = if is_log lg0 q then Rln (vget RA (v_levels RA w) q) else vget RA (v_levels RA w) q.
Proof. reflexivity. Qed.
Lemma maybelog_change_R lg0 (w : variant RA) q :
  maybelog_change RA lg0 w q = if is_log lg0 q then Rln (vget RA (v_changes RA w) q) else vget RA (v_changes RA w) q.
Proof. reflexivity. Qed.

Lemma ev_cell_R (fl lgi : bool) l c s : ev_cell RA fl lgi l c s = delog lgi (if fl then l else l + IZR s * c).
Proof. destruct fl, lgi; reflexivity. Qed.

Lemma length_create lg0 (w : variant RA) n f : length (create_steady_array RA nobad lg0 w n f) = length (v_levels RA w).
Proof.
  unfold create_steady_array, steady_array_general. destruct (_ && _); now rewrite map_length, seq_length.
Qed.

Lemma length_base : length (ev_base RA ev) = nq.
Proof. change (ev_base RA ev) with (create_steady_array RA nobad lg v1 ncols mn). rewrite length_create, v1_levels. reflexivity. Qed.

Lemma v'_levels_length : length (v_levels RA v') = nq.
Proof. rewrite v'_levels, update_from_array_length. reflexivity. Qed.

Lemma ev_array_row_wrt i j : (i < length wrt)%nat -> (j < ncols)%nat ->
  nth j (nth (nth i wrt O) (ev_array RA ev g) []) 0 =
  ev_cell RA flat (is_log lg (nth i wrt O)) (L i) (C i) (mn + Z.of_nat j).
Proof.
  intros Hi Hj. unfold ev_array. rewrite length_base.
  rewrite nth_map_seq by (apply Hwrt_lt; now apply nth_In).
  rewrite ev_wrt_eq, index_of_nth by assumption.
  rewrite nth_map_d with (d' := 0%Z) by (unfold ev_shifts; rewrite length_zrange_n; exact Hj).
  unfold ev_shifts. rewrite nth_zrange_n by exact Hj.
  rewrite ev_flat_eq, ev_lg_eq. rewrite nth_map_d with (d' := O) by exact Hi. reflexivity.
Qed.

Lemma ev_array_row_other q : (q < nq)%nat -> ~ In q wrt -> nth q (ev_array RA ev g) [] = nth q (ev_base RA ev) [].
Proof.
  intros Hq Hn. unfold ev_array. rewrite length_base, nth_map_seq by exact Hq.
  rewrite ev_wrt_eq. apply index_of_None in Hn. now rewrite Hn.
Qed.

Definition stored_array := create_steady_array RA nobad lg v' ncols mn.

Theorem stored_array_is_evaluated_array q j : (q < nq)%nat -> (j < ncols)%nat ->
  nth j (nth q (ev_array RA ev g) []) 0 = nth j (nth q stored_array []) 0.
Proof.
  intros Hq Hj. unfold stored_array. rewrite create_steady_array_general by apply ncols_ge_2.
  rewrite steady_array_general_cell by (try rewrite v'_levels_length; assumption).
  rewrite variant_cell_maybelog.
  destruct (in_dec Nat.eq_dec q wrt) as [Hin|Hnin].
  - destruct (In_nth _ _ O Hin) as (i & Hi & <-).
    rewrite ev_array_row_wrt by assumption. rewrite ev_cell_R.
    rewrite <- maybelog_level_R, <- maybelog_change_R.
    rewrite maybelog_level_roundtrip, maybelog_change_roundtrip by exact Hi.
    f_equal. destruct flat eqn:F.
    + rewrite C_flat by assumption. ring.
    + ring.
  - rewrite ev_array_row_other by assumption.
    change (ev_base RA ev) with (create_steady_array RA nobad lg v1 ncols mn).
    rewrite create_steady_array_general by apply ncols_ge_2.
    rewrite steady_array_general_cell by (try rewrite v1_levels; assumption).
    rewrite variant_cell_maybelog.
    rewrite levels_untouched by tauto. rewrite changes_untouched by tauto. rewrite v1_levels. reflexivity.
Qed.

(* all equations of the block mention existing quantities *)
Hypothesis Htok : forall e q s, In e eqs -> In (q, s) (tokens RA e) -> (q < nq)%nat.

Lemma eval_eqs_same t : (t = off \/ t = gen_time_k_column off) ->
  eval_eqs RA (ev_array RA ev g) t eqs = eval_eqs RA stored_array t eqs.
Proof.
  intros Ht. unfold eval_eqs. apply map_ext_in. intros e He. apply eval_ext. intros q s Hqs.
  pose proof (token_shift_bounds eqs e q s He Hqs) as Hb. pose proof ncols_Z as Hn. fold mn in Hb.
  assert (Hcol : (0 <= t + s < Z.of_nat ncols)%Z)
    by (unfold off, gen_column_offset, gen_time_k_column, gen_nonflat_steady_shift in Ht; lia).
  unfold env_at. rewrite <- (Z2Nat.id (t + s)) by lia. rewrite !aget_nat.
  apply stored_array_is_evaluated_array; [eapply Htok; eauto|lia].
Qed.

(* THEOREM residual_is_equations: the vector handed to the solver at guess g is exactly the block's steady
   equations evaluated on the steady array of the variant AFTER write-back, at column t (flat) / at columns t and
   t+k (non-flat) *)
Theorem residual_is_equations :
  ev_func RA ev g = eval_eqs RA stored_array off eqs ++
                    (if flat then [] else eval_eqs RA stored_array (gen_time_k_column off) eqs).
Proof.
  unfold ev_func. rewrite ev_flat_eq, ev_eqs_eq, ev_min_shift_eq. fold mn. fold off.
  destruct flat.
  - rewrite eval_eqs_same by auto. now rewrite app_nil_r.
  - rewrite !eval_eqs_same by auto. reflexivity.
Qed.

(* the closed-form steady path of the written variant *)
Definition stored_path (q : nat) (s : Z) : R :=
  variant_cell RA nobad (is_log lg q) (vget RA (v_levels RA v') q) (vget RA (v_changes RA v') q) s.

Definition at_date (P : nat -> Z -> R) (t : Z) : nat -> Z -> R := fun q s => P q (t + s)%Z.

Lemma eval_on_stored_array e (d : Z) : In e eqs -> (d = 0 \/ d = 1)%Z ->
  eval RA (env_at RA stored_array (off + d)) e = eval RA (at_date stored_path d) e.
Proof.
  intros He Hd. apply eval_ext. intros q s Hqs.
  pose proof (token_shift_bounds eqs e q s He Hqs) as Hb. pose proof ncols_Z as Hn. fold mn in Hb.
  assert (Hcol : (0 <= off + d + s < Z.of_nat ncols)%Z) by (unfold off, gen_column_offset; lia).
  unfold env_at, at_date. rewrite <- (Z2Nat.id (off + d + s)) by lia. rewrite aget_nat.
  unfold stored_array. rewrite create_steady_array_general by apply ncols_ge_2.
  rewrite steady_array_general_cell; [|rewrite v'_levels_length; eapply Htok; eauto|lia].
  unfold stored_path. f_equal. rewrite Z2Nat.id by lia. unfold off, gen_column_offset. lia.
Qed.

(* ... the same, on the closed-form path: residuals at date 0 (flat) / dates 0 and 1 (non-flat) *)
Theorem residual_on_stored_path :
  ev_func RA ev g = map (eval RA (at_date stored_path 0)) eqs ++
                    (if flat then [] else map (eval RA (at_date stored_path 1)) eqs).
Proof.
  rewrite residual_is_equations. unfold eval_eqs. f_equal.
  - apply map_ext_in. intros e He. rewrite <- (eval_on_stored_array e 0) by auto. now rewrite Z.add_0_r.
  - destruct flat; auto. apply map_ext_in. intros e He. rewrite <- (eval_on_stored_array e 1) by auto.
    reflexivity.
Qed.

(* success of the solver: max-norm of the residual vector below the tolerance => every equation of the block is
   within the tolerance on the stored path at the evaluated dates *)
Theorem success_means_equations_hold tol :
  Forall (fun r => Rabs r < tol) (ev_func RA ev g) ->
  forall e, In e eqs ->
    Rabs (eval RA (at_date stored_path 0) e) < tol /\
    (flat = false -> Rabs (eval RA (at_date stored_path 1) e) < tol).
Proof.
  rewrite residual_on_stored_path. intros H e He. rewrite Forall_app in H. destruct H as [H0 H1]. split.
  - rewrite Forall_forall in H0. apply H0. now apply in_map.
  - intros F. rewrite F in H1. rewrite Forall_forall in H1. apply H1. now apply in_map.
Qed.

End Evaluator.

(* ------------------------------------------------------------------ 4. every date *)
Section EveryDate.
Open Scope R_scope.
Ltac toR := change (car RA) with R in *;
  repeat match goal with
         | |- context [eval RA ?x ?e] =>
             let r := fresh "r" in let H := fresh "Hr" in remember (eval RA x e : R) as r eqn:H in *; clear H
         | _ : context [eval RA ?x ?e] |- _ =>
             let r := fresh "r" in let H := fresh "Hr" in remember (eval RA x e : R) as r eqn:H in *; clear H
         end.
Notation expr := (expr RA).
Variable P : nat -> Z -> R.                 (* a steady path: value of quantity q at date t *)

Definition flat_q (q : nat) : Prop := forall t, P q t = P q 0%Z.
Definition arith_q (q : nat) : Prop := exists l c, forall t, P q t = l + c * IZR t.
Definition geom_q (q : nat) : Prop := exists l c, 0 < l /\ 0 < c /\ forall t, P q t = l * Rpower c (IZR t).

(* (a) flat paths: every equation, every date *)
Theorem every_date_flat (e : expr) :
  (forall q s, In (q, s) (tokens RA e) -> flat_q q) ->
  forall t, eval RA (at_date P t) e = eval RA (at_date P 0) e.
Proof.
  intros H t. apply eval_ext. intros q s Hqs. unfold at_date. rewrite (H q s Hqs). symmetry. apply (H q s Hqs).
Qed.

(* (b) residuals affine in time *)
Definition time_const (e : expr) : Prop := forall q s, In (q, s) (tokens RA e) -> flat_q q.
Definition affine_fun (f : Z -> R) : Prop := exists a b, forall t, f t = a + b * IZR t.

Inductive affine_expr : expr -> Prop :=
| af_const e : time_const e -> affine_expr e
| af_var q s : arith_q q -> affine_expr (EVar q s)
| af_lnvar q s : geom_q q -> affine_expr (ELn (EVar q s))
| af_neg a : affine_expr a -> affine_expr (ENeg a)
| af_add a b : affine_expr a -> affine_expr b -> affine_expr (EAdd a b)
| af_sub a b : affine_expr a -> affine_expr b -> affine_expr (ESub a b)
| af_mul_l a b : time_const a -> affine_expr b -> affine_expr (EMul a b)
| af_mul_r a b : affine_expr a -> time_const b -> affine_expr (EMul a b)
| af_div a b : affine_expr a -> time_const b -> affine_expr (EDiv a b).

Lemma time_const_eval e : time_const e -> forall t, eval RA (at_date P t) e = eval RA (at_date P 0) e.
Proof. intros H. now apply every_date_flat. Qed.

Lemma affine_expr_affine e : affine_expr e -> affine_fun (fun t => eval RA (at_date P t) e).
Proof.
  induction 1 as [e H|q s (l & c & H)|q s (l & c & Hl & Hc & H)|a _ (x & y & IH)
                 |a b _ (x & y & IHa) _ (x' & y' & IHb)|a b _ (x & y & IHa) _ (x' & y' & IHb)
                 |a b Ha _ (x & y & IHb)|a b _ (x & y & IHa) Hb|a b _ (x & y & IHa) Hb].
  - exists (eval RA (at_date P 0) e), 0. intros t. rewrite time_const_eval by exact H. toR; ring.
  - exists (l + c * IZR s), c. intros t. cbn. unfold at_date. rewrite H, plus_IZR. toR; ring.
  - exists (Rln l + IZR s * Rln c), (Rln c). intros t. cbn. unfold at_date. rewrite H.
    rewrite ln_mult by (try apply exp_pos; assumption). unfold Rpower. rewrite ln_exp, plus_IZR. toR; ring.
  - exists (- x), (- y). intros t. cbn. rewrite IH. toR; ring.
  - exists (x + x'), (y + y'). intros t. cbn. rewrite IHa, IHb. toR; ring.
  - exists (x - x'), (y - y'). intros t. cbn. rewrite IHa, IHb. toR; ring.
  - exists (eval RA (at_date P 0) a * x), (eval RA (at_date P 0) a * y). intros t. cbn.
    rewrite IHb, (time_const_eval a Ha). toR; ring.
  - exists (x * eval RA (at_date P 0) b), (y * eval RA (at_date P 0) b). intros t. cbn.
    rewrite IHa, (time_const_eval b Hb). toR; ring.
  - exists (x / eval RA (at_date P 0) b), (y / eval RA (at_date P 0) b). intros t. cbn.
    rewrite IHa, (time_const_eval b Hb). unfold Rdiv. toR; ring.
Qed.

Lemma affine_two_dates_exact f : affine_fun f -> f 0%Z = 0 -> f 1%Z = 0 -> forall t, f t = 0.
Proof.
  intros (a & b & H) H0 H1 t. rewrite H in *. simpl in H0, H1. assert (a = 0) by lra. assert (b = 0) by lra. subst. toR; ring.
Qed.

Lemma affine_two_dates_tol f tol : affine_fun f -> Rabs (f 0%Z) <= tol -> Rabs (f 1%Z) <= tol ->
  forall t, Rabs (f t) <= (1 + 2 * Rabs (IZR t)) * tol.
Proof.
  intros (a & b & H) H0 H1 t. rewrite H in *. simpl in H0, H1.
  replace (a + b * 0) with a in H0 by ring. replace (a + b * 1) with (a + b) in H1 by ring.
  assert (Hb : Rabs b <= 2 * tol).
  { replace b with ((a + b) - a) by ring. eapply Rle_trans; [apply Rabs_triang|]. rewrite Rabs_Ropp. lra. }
  eapply Rle_trans; [apply Rabs_triang|]. rewrite Rabs_mult.
  pose proof (Rabs_pos (IZR t)). pose proof (Rabs_pos b).
  assert (Rabs b * Rabs (IZR t) <= 2 * tol * Rabs (IZR t)) by (apply Rmult_le_compat_r; lra). lra.
Qed.

(* THEOREM every_date (affine): an equation whose residual is affine in time on the path and which holds at the
   two dates the solver evaluates holds at every date (exactly; and with a tolerance growing linearly) *)
Theorem every_date_affine e : affine_expr e ->
  eval RA (at_date P 0) e = 0 -> eval RA (at_date P 1) e = 0 -> forall t, eval RA (at_date P t) e = 0.
Proof. intros H. apply (affine_two_dates_exact (fun t => eval RA (at_date P t) e)). now apply affine_expr_affine. Qed.

Theorem every_date_affine_tol e tol : affine_expr e ->
  Rabs (eval RA (at_date P 0) e) <= tol -> Rabs (eval RA (at_date P 1) e) <= tol ->
  forall t, Rabs (eval RA (at_date P t) e) <= (1 + 2 * Rabs (IZR t)) * tol.
Proof. intros H. apply (affine_two_dates_tol (fun t => eval RA (at_date P t) e)). now apply affine_expr_affine. Qed.

(* (c) log-affine: both sides are monomials in positive constants, flat positive quantities and log-variables *)
Definition geom_fun (f : Z -> R) : Prop := exists a b, forall t, f t = Rexp (a + b * IZR t).

Inductive mono_expr : expr -> Prop :=
| mo_const (c : R) : 0 < c -> mono_expr (@EConst RA c)
| mo_flat q s : flat_q q -> 0 < P q 0%Z -> mono_expr (EVar q s)
| mo_var q s : geom_q q -> mono_expr (EVar q s)
| mo_mul a b : mono_expr a -> mono_expr b -> mono_expr (EMul a b)
| mo_div a b : mono_expr a -> mono_expr b -> mono_expr (EDiv a b)
| mo_pow a b : mono_expr a -> time_const b -> mono_expr (EPow a b)
| mo_exp a : affine_expr a -> mono_expr (EExp a).

Lemma mono_expr_geom e : mono_expr e -> geom_fun (fun t => eval RA (at_date P t) e).
Proof.
  induction 1 as [c Hc|q s Hf Hp|q s (l & c & Hl & Hc & H)|a b _ (x & y & IHa) _ (x' & y' & IHb)
                 |a b _ (x & y & IHa) _ (x' & y' & IHb)|a b _ (x & y & IHa) Hb|a Ha].
  - exists (Rln c), 0. intros t. cbn. rewrite Rmult_0_l, Rplus_0_r. now rewrite exp_ln.
  - exists (Rln (P q 0%Z)), 0. intros t. cbn. unfold at_date. rewrite Hf, Rmult_0_l, Rplus_0_r. now rewrite exp_ln.
  - exists (Rln l + IZR s * Rln c), (Rln c). intros t. cbn. unfold at_date. rewrite H. unfold Rpower.
    rewrite <- (exp_ln l) at 1 by exact Hl. rewrite <- exp_plus. f_equal. rewrite plus_IZR. toR; ring.
  - exists (x + x'), (y + y'). intros t. cbn. rewrite IHa, IHb, <- exp_plus. f_equal. toR; ring.
  - exists (x - x'), (y - y'). intros t. cbn. rewrite IHa, IHb. unfold Rdiv. rewrite <- exp_Ropp, <- exp_plus. f_equal. toR; ring.
  - exists (eval RA (at_date P 0) b * x), (eval RA (at_date P 0) b * y). intros t. cbn.
    rewrite IHa, (time_const_eval b Hb). unfold Rpower. rewrite ln_exp. f_equal. toR; ring.
  - destruct (affine_expr_affine a Ha) as (x & y & H). exists x, y. intros t. cbn. now rewrite H.
Qed.

Lemma geom_two_dates f h : geom_fun f -> geom_fun h -> f 0%Z = h 0%Z -> f 1%Z = h 1%Z -> forall t, f t = h t.
Proof.
  intros (a & b & Hf) (a' & b' & Hh) H0 H1 t. rewrite Hf, Hh in *. simpl in H0, H1.
  apply exp_inv in H0. apply exp_inv in H1. assert (a = a') by lra. assert (b = b') by lra. subst. reflexivity.
Qed.

(* THEOREM every_date (log-affine): lhs = rhs with both sides monomials on geometric paths; irispie's residual of
   `lhs = rhs` is -(lhs) + rhs *)
Theorem every_date_log_affine a b : mono_expr a -> mono_expr b ->
  eval RA (at_date P 0) (EAdd (ENeg a) b) = 0 -> eval RA (at_date P 1) (EAdd (ENeg a) b) = 0 ->
  forall t, eval RA (at_date P t) (EAdd (ENeg a) b) = 0.
Proof.
  intros Ha Hb H0 H1 t. cbn in *.
  rewrite (geom_two_dates _ _ (mono_expr_geom a Ha) (mono_expr_geom b Hb)); [toR; ring|toR; lra|toR; lra].
Qed.

End EveryDate.

(* "at every date" is NOT a theorem of the algorithm for general nonlinear growth models: a residual that is a sum
   of three geometric terms can vanish at dates 0 and 1 and not at date 2 (so the general statement is only
   available for the two evaluated dates: every_date_partial below) *)
Lemma two_dates_do_not_suffice :
  exists f : Z -> R, (exists a b c : R, forall t, f t = (a * Rpower 1 (IZR t) + b * Rpower 2 (IZR t) + c * Rpower 4 (IZR t))%R)
                     /\ f 0%Z = 0%R /\ f 1%Z = 0%R /\ f 2%Z <> 0%R.
Proof.
  exists (fun t => 2 * Rpower 1 (IZR t) + (-3) * Rpower 2 (IZR t) + 1 * Rpower 4 (IZR t))%R.
  split; [exists 2%R, (-3)%R, 1%R; reflexivity|].
  assert (P0 : forall x, (0 < x)%R -> Rpower x 0 = 1%R) by (intros; apply Rpower_O; assumption).
  assert (P1 : forall x, (0 < x)%R -> Rpower x 1 = x) by (intros; apply Rpower_1; assumption).
  assert (P2 : forall x, (0 < x)%R -> Rpower x 2 = (x * x)%R).
  { intros x Hx. replace 2%R with (1 + 1)%R by ring. rewrite Rpower_plus, P1 by exact Hx. reflexivity. }
  repeat split.
  - rewrite !P0 by lra. ring.
  - rewrite !P1 by lra. ring.
  - rewrite !P2 by lra. lra.
Qed.

(* ------------------------------------------------------------------ 5. block by block = jointly *)
Section Blockwise.
Variables (state eqn : Type).
Variable holds : state -> eqn -> Prop.              (* equation e holds in state s *)
Variable same_on : state -> state -> nat -> Prop.   (* s and s' agree on quantity q *)
Variable qids_of : eqn -> list nat.                 (* the quantities an equation mentions *)
Variable inv : state -> Prop.                       (* an invariant of the loop (e.g. "changes are flat") *)
Hypothesis holds_ext : forall s s' e, (forall q, In q (qids_of e) -> same_on s s' q) -> holds s e -> holds s' e.

(* one block: its equations, the quantities it solves for, and what solving it does to the state (the solver's
   final guess is part of [bstep]) *)
Record blk := mkBlk { beqs : list eqn; bqids : list nat; bstep : state -> state }.

(* solving block b in state s only writes the block's own quantities, and afterwards the block's equations hold
   (this is what a successful solver run gives, see good_model_block below) *)
Definition good_at (b : blk) (s : state) : Prop :=
  inv (bstep b s) /\
  (forall q, ~ In q (bqids b) -> same_on s (bstep b s) q) /\
  (forall e, In e (beqs b) -> holds (bstep b s) e).

(* ... for every block, in the state in which it is actually run *)
Fixpoint all_good (bs : list blk) (s : state) : Prop :=
  match bs with
  | [] => True
  | b :: r => good_at b s /\ all_good r (bstep b s)
  end.

(* block-triangular order: no equation mentions a quantity that a LATER block solves for *)
Fixpoint triangular (bs : list blk) : Prop :=
  match bs with
  | [] => True
  | b :: r => (forall e, In e (beqs b) -> forall b', In b' r -> forall q, In q (bqids b') -> ~ In q (qids_of e))
              /\ triangular r
  end.

Definition run_blocks (bs : list blk) (s : state) : state := fold_left (fun s b => bstep b s) bs s.

Lemma later_blocks_preserve bs s e :
  all_good bs s ->
  (forall b', In b' bs -> forall q, In q (bqids b') -> ~ In q (qids_of e)) ->
  holds s e -> holds (run_blocks bs s) e.
Proof.
  revert s; induction bs as [|b r IH]; intros s G Hd H; simpl; auto.
  destruct G as ((Hi & Hloc & _) & G).
  apply IH; auto.
  - intros; eapply Hd; simpl; eauto.
  - apply holds_ext with s; auto. intros q Hq. apply Hloc. intros Hin. exact (Hd b (or_introl eq_refl) q Hin Hq).
Qed.

(* THEOREM blockwise_equals_joint: after solving the blocks one after another in a block-triangular order, writing
   the result back after each block, ALL equations of ALL blocks hold in the final state *)
Theorem blockwise_equals_joint bs s0 :
  all_good bs s0 -> triangular bs ->
  forall b e, In b bs -> In e (beqs b) -> holds (run_blocks bs s0) e.
Proof.
  revert s0; induction bs as [|b0 r IH]; intros s0 G T b e Hb He; simpl in *; [contradiction|].
  destruct T as [T0 T]. destruct G as ((Hi & _ & Hsolve) & G).
  destruct Hb as [<-|Hb].
  - apply later_blocks_preserve; auto.
    intros b' Hb' q Hq. exact (T0 e He b' Hb' q Hq).
  - apply IH with b; auto.
Qed.

End Blockwise.

(* ------------------------------------------------------------------ 6. linear steady state *)
Section Linear.
Open Scope R_scope.

Fixpoint rdot (r x : list R) : R :=
  match r, x with
  | a :: r', b :: x' => a * b + rdot r' x'
  | _, _ => 0
  end.

Lemma dot_acc r x acc :
  fold_left (fun (a : R) (ab : R * R) => a + fst ab * snd ab) (combine r x) acc = acc + rdot r x.
Proof.
  revert x acc; induction r as [|a r IH]; intros [|b x] acc; simpl; try ring.
  rewrite IH. ring.
Qed.

Lemma dot_rdot r x : dot RA r x = rdot r x.
Proof. unfold dot. cbn [add mul ofZ RA car]. rewrite dot_acc. simpl. ring. Qed.

Lemma rdot_app r1 r2 x1 x2 : length r1 = length x1 -> rdot (r1 ++ r2) (x1 ++ x2) = rdot r1 x1 + rdot r2 x2.
Proof.
  revert x1; induction r1 as [|a r IH]; intros [|b x] H; simpl in *; try lia; try ring.
  rewrite IH by lia. ring.
Qed.

Lemma rdot_map2_lin (f : R -> R -> R) ca cb ra rb x :
  (forall a b, f a b = ca * a + cb * b) -> length ra = length rb ->
  rdot (map2 f ra rb) x = ca * rdot ra x + cb * rdot rb x.
Proof.
  intros Hf. revert rb x; induction ra as [|a ra IH]; intros [|b rb] [|y x] H; simpl in *; try lia; try ring.
  rewrite IH, Hf by lia. ring.
Qed.

Lemma rdot_map_lin (f : R -> R) c r x : (forall a, f a = c * a) -> rdot (map f r) x = c * rdot r x.
Proof.
  intros Hf. revert x; induction r as [|a r IH]; intros [|y x]; simpl; try ring. rewrite IH, Hf. ring.
Qed.

Definition vaxpy (x d : list R) (t : R) : list R := map2 (fun a b => a + t * b) x d.

Lemma rdot_vaxpy r x d t : length x = length d -> rdot r (vaxpy x d t) = rdot r x + t * rdot r d.
Proof.
  unfold vaxpy. revert x d; induction r as [|a r IH]; intros [|y x] [|e d] H; simpl in *; try lia; try ring.
  rewrite IH by lia. ring.
Qed.

Lemma Forall_nth_R (Q : R -> Prop) l i : Forall Q l -> (i < length l)%nat -> Q (nth i l 0).
Proof. intros H Hi. rewrite Forall_forall in H. apply H. now apply nth_In. Qed.

(* the generated entries of the stacked systems are linear combinations *)
#[local] Hint Unfold gen_lin_AB11 gen_lin_AB12 gen_lin_AB21 gen_lin_AB22 gen_lin_FF11 gen_lin_FF12 gen_lin_FF21 gen_lin_FF22
  gen_lin_GG11 gen_lin_GG12 gen_lin_GG21 gen_lin_GG22 gen_lin_flat_lhs gen_lin_flat_rhs gen_lin_k : lingen.
Ltac lin := autounfold with lingen; cbn; change (car RA) with R; ring.
Lemma AB11_lin (a b : R) : gen_lin_AB11 RA a b = 1 * a + 1 * b.      Proof. lin. Qed.
Lemma AB12_lin (a b : R) : gen_lin_AB12 RA a b = 0 * a + (-1) * b.   Proof. lin. Qed.
Lemma AB21_lin (a b : R) : gen_lin_AB21 RA a b = 1 * a + 1 * b.      Proof. lin. Qed.
Lemma AB22_lin (a b : R) : gen_lin_AB22 RA a b = 1 * a + 0 * b.      Proof. lin. Qed.
Lemma FF11_lin (f : R) : gen_lin_FF11 RA f = 1 * f.  Proof. lin. Qed.
Lemma FF12_lin (f : R) : gen_lin_FF12 RA f = 0 * f.  Proof. lin. Qed.
Lemma FF21_lin (f : R) : gen_lin_FF21 RA f = 1 * f.  Proof. lin. Qed.
Lemma FF22_lin (f : R) : gen_lin_FF22 RA f = 1 * f.  Proof. lin. Qed.
Lemma GG11_lin (f : R) : gen_lin_GG11 RA f = 1 * f.  Proof. lin. Qed.
Lemma GG12_lin (f : R) : gen_lin_GG12 RA f = 0 * f.  Proof. lin. Qed.
Lemma GG21_lin (f : R) : gen_lin_GG21 RA f = 1 * f.  Proof. lin. Qed.
Lemma GG22_lin (f : R) : gen_lin_GG22 RA f = 1 * f.  Proof. lin. Qed.
Lemma flat_lhs_lin (a b : R) : gen_lin_flat_lhs RA a b = (-1) * a + (-1) * b.  Proof. lin. Qed.
Lemma flat_rhs_id (c : R) : gen_lin_flat_rhs RA c = c.  Proof. reflexivity. Qed.
(* the second block row is the system one period later *)
Lemma lin_k_is_shift : gen_lin_k = gen_nonflat_steady_shift.  Proof. reflexivity. Qed.

Definition zeros (l : list R) : Prop := Forall (fun r => r = 0) l.

(* entries of the residual vectors *)
Lemma nth_vsub a b i : (i < length a)%nat -> (i < length b)%nat -> nth i (vsub RA a b) 0 = nth i a 0 - nth i b 0.
Proof. intros. unfold vsub. now rewrite nth_map2 with (da := 0) (db := 0). Qed.
Lemma nth_vadd a b i : (i < length a)%nat -> (i < length b)%nat -> nth i (vadd RA a b) 0 = nth i a 0 + nth i b 0.
Proof. intros. unfold vadd. now rewrite nth_map2 with (da := 0) (db := 0). Qed.
Lemma nth_matvec M x i : (i < length M)%nat -> nth i (matvec RA M x) 0 = rdot (nth i M []) x.
Proof. intros. unfold matvec. rewrite nth_map_d with (d' := []) by assumption. apply dot_rdot. Qed.
Lemma nth_negm M i : (i < length M)%nat -> nth i (negm RA M) [] = map Ropp (nth i M []).
Proof. intros. unfold negm. now rewrite nth_map_d with (d' := []). Qed.
Lemma rdot_opp r x : rdot (map Ropp r) x = - rdot r x.
Proof. rewrite rdot_map_lin with (c := -1) by (intros; ring). ring. Qed.

Ltac cR := change (car RA) with R in *.
Ltac lia' := cR; lia.

Section Transition.
Variables (Am Bm : list (list R)) (Cv xi dxi : list R).
Let n := length Am.
Let m := length xi.
Hypothesis HB : length Bm = n.
Hypothesis HC : length Cv = n.
Hypothesis Hd : length dxi = m.
Hypothesis HrowsA : forall i, (i < n)%nat -> length (nth i Am []) = m.
Hypothesis HrowsB : forall i, (i < n)%nat -> length (nth i Bm []) = m.

Lemma length_stack2 f11 f12 f21 f22 : length (stack2 RA f11 f12 f21 f22 Am Bm) = (n + n)%nat.
Proof. unfold stack2. rewrite app_length, !length_map2. cR. cR. fold n. rewrite HB. lia. Qed.

Lemma nth_stack2_top f11 f12 f21 f22 i : (i < n)%nat ->
  nth i (stack2 RA f11 f12 f21 f22 Am Bm) [] = map2 f11 (nth i Am []) (nth i Bm []) ++ map2 f12 (nth i Am []) (nth i Bm []).
Proof.
  intros Hi. unfold stack2. rewrite app_nth1 by (rewrite length_map2; cR; fold n; lia).
  rewrite nth_map2 with (da := []) (db := []); auto; cR; fold n; lia.
Qed.
Lemma nth_stack2_bottom f11 f12 f21 f22 i : (i < n)%nat ->
  nth (n + i) (stack2 RA f11 f12 f21 f22 Am Bm) [] = map2 f21 (nth i Am []) (nth i Bm []) ++ map2 f22 (nth i Am []) (nth i Bm []).
Proof.
  intros Hi. unfold stack2. rewrite app_nth2 by (rewrite length_map2; cR; fold n; lia).
  rewrite length_map2. cR. fold n. rewrite HB. replace (n + i - Nat.min n n)%nat with i by lia'.
  rewrite nth_map2 with (da := []) (db := []); auto; cR; fold n; lia.
Qed.

(* THEOREM (linear, growth): if lstsq returned an exact solution of the stacked system then the transition
   equations  A xi_t + B xi_{t-1} + C = 0  hold on the path xi_t = Xi + t dXi at EVERY date t *)
Theorem linear_nonflat_transition :
  zeros (vsub RA (matvec RA (negm RA (lin_AB RA Am Bm)) (xi ++ dxi)) (Cv ++ Cv)) ->
  forall (t : Z) i, (i < n)%nat ->
    rdot (nth i Am []) (vaxpy xi dxi (IZR t)) + rdot (nth i Bm []) (vaxpy xi dxi (IZR t - 1)) + nth i Cv 0 = 0.
Proof.
  intros Hz t i Hi.
  assert (Lm : length (matvec RA (negm RA (lin_AB RA Am Bm)) (xi ++ dxi)) = (n + n)%nat).
  { unfold matvec, negm, lin_AB. now rewrite !map_length, length_stack2. }
  assert (Lc : length (Cv ++ Cv) = (n + n)%nat) by (rewrite app_length; lia').
  assert (Lv : length (vsub RA (matvec RA (negm RA (lin_AB RA Am Bm)) (xi ++ dxi)) (Cv ++ Cv)) = (n + n)%nat).
  { unfold vsub. rewrite length_map2. lia'. }
  pose proof (Forall_nth_R _ _ i Hz ltac:(lia')) as E0. pose proof (Forall_nth_R _ _ (n + i)%nat Hz ltac:(lia')) as E1.
  cbv beta in E0, E1.
  rewrite nth_vsub, nth_matvec, nth_negm in E0, E1
    by (try (unfold negm; rewrite map_length); try (unfold lin_AB; rewrite length_stack2); lia').
  unfold lin_AB in E0, E1. rewrite nth_stack2_top in E0 by exact Hi. rewrite nth_stack2_bottom in E1 by exact Hi.
  rewrite rdot_opp in E0, E1.
  assert (La : length (nth i Am []) = length (nth i Bm [])) by (rewrite HrowsA, HrowsB; auto).
  rewrite rdot_app in E0, E1 by (rewrite length_map2, HrowsA, HrowsB by exact Hi; fold m; lia').
  rewrite (rdot_map2_lin _ _ _ _ _ _ AB11_lin La), (rdot_map2_lin _ _ _ _ _ _ AB12_lin La) in E0.
  rewrite (rdot_map2_lin _ _ _ _ _ _ AB21_lin La), (rdot_map2_lin _ _ _ _ _ _ AB22_lin La) in E1.
  rewrite app_nth1 in E0 by lia'. rewrite app_nth2 in E1 by lia'. replace (n + i - length Cv)%nat with i in E1 by lia'.
  rewrite !rdot_vaxpy by (fold m; lia').
  set (p := rdot (nth i Am []) xi) in *. set (q := rdot (nth i Bm []) xi) in *.
  set (r := rdot (nth i Am []) dxi) in *. set (u := rdot (nth i Bm []) dxi) in *.
  set (c := nth i Cv 0) in *.
  assert (Hc : c = - (p + q) + u) by lra. assert (Hr : r = - u) by lra. rewrite Hc, Hr. ring.
Qed.

(* flat: (A + B) Xi = -C  means  A Xi + B Xi + C = 0 *)
Theorem linear_flat_transition :
  zeros (vsub RA (matvec RA (map2 (map2 (gen_lin_flat_lhs RA)) Am Bm) xi) (map (gen_lin_flat_rhs RA) Cv)) ->
  forall i, (i < n)%nat -> rdot (nth i Am []) xi + rdot (nth i Bm []) xi + nth i Cv 0 = 0.
Proof.
  intros Hz i Hi.
  assert (Lm : length (matvec RA (map2 (map2 (gen_lin_flat_lhs RA)) Am Bm) xi) = n).
  { unfold matvec. rewrite map_length, length_map2. fold n. lia'. }
  assert (Lv : length (vsub RA (matvec RA (map2 (map2 (gen_lin_flat_lhs RA)) Am Bm) xi) (map (gen_lin_flat_rhs RA) Cv)) = n).
  { unfold vsub. rewrite length_map2, map_length. lia'. }
  pose proof (Forall_nth_R _ _ i Hz ltac:(lia')) as E0. cbv beta in E0.
  rewrite nth_vsub, nth_matvec in E0 by (try rewrite map_length; try rewrite length_map2; cR; fold n; lia).
  rewrite nth_map2 with (da := []) (db := []) in E0 by (cR; fold n; lia).
  rewrite nth_map_d with (d' := 0) in E0 by lia'. rewrite flat_rhs_id in E0.
  assert (La : length (nth i Am []) = length (nth i Bm [])) by (rewrite HrowsA, HrowsB; auto).
  rewrite (rdot_map2_lin _ _ _ _ _ _ flat_lhs_lin La) in E0. lra.
Qed.

End Transition.

Section Measurement.
Variables (Fm Gm : list (list R)) (Hv xi dxi y dy : list R).
Let n := length Fm.
Hypothesis HG : length Gm = n.
Hypothesis HH : length Hv = n.
Hypothesis Hdx : length dxi = length xi.
Hypothesis Hdy : length dy = length y.
Hypothesis HrowsF : forall i, (i < n)%nat -> length (nth i Fm []) = length y.
Hypothesis HrowsG : forall i, (i < n)%nat -> length (nth i Gm []) = length xi.

Lemma length_stack1 (M : list (list R)) f11 f12 f21 f22 : length (stack1 RA f11 f12 f21 f22 M) = (length M + length M)%nat.
Proof. unfold stack1. now rewrite app_length, !map_length. Qed.
Lemma nth_stack1_top (M : list (list R)) f11 f12 f21 f22 i : (i < length M)%nat ->
  nth i (stack1 RA f11 f12 f21 f22 M) [] = map f11 (nth i M []) ++ map f12 (nth i M []).
Proof. intros Hi. unfold stack1. rewrite app_nth1 by (now rewrite map_length). now rewrite nth_map_d with (d' := []). Qed.
Lemma nth_stack1_bottom (M : list (list R)) f11 f12 f21 f22 i : (i < length M)%nat ->
  nth (length M + i) (stack1 RA f11 f12 f21 f22 M) [] = map f21 (nth i M []) ++ map f22 (nth i M []).
Proof.
  intros Hi. unfold stack1. rewrite app_nth2 by (rewrite map_length; lia'). rewrite map_length.
  cR. replace (length M + i - length M)%nat with i by lia. now rewrite nth_map_d with (d' := []).
Qed.

(* THEOREM (linear, growth): measurement equations F y_t + G xi_t + H = 0 at EVERY date *)
Theorem linear_nonflat_measurement :
  zeros (vsub RA (matvec RA (negm RA (lin_FF RA Fm)) (y ++ dy))
                 (vadd RA (matvec RA (lin_GG RA Gm) (xi ++ dxi)) (Hv ++ Hv))) ->
  forall (t : Z) i, (i < n)%nat ->
    rdot (nth i Fm []) (vaxpy y dy (IZR t)) + rdot (nth i Gm []) (vaxpy xi dxi (IZR t)) + nth i Hv 0 = 0.
Proof.
  intros Hz t i Hi.
  assert (L1 : length (matvec RA (negm RA (lin_FF RA Fm)) (y ++ dy)) = (n + n)%nat).
  { unfold matvec, negm, lin_FF. now rewrite !map_length, length_stack1. }
  assert (L2 : length (matvec RA (lin_GG RA Gm) (xi ++ dxi)) = (n + n)%nat).
  { unfold matvec, lin_GG. rewrite map_length, length_stack1. lia'. }
  assert (L3 : length (Hv ++ Hv) = (n + n)%nat) by (rewrite app_length; lia').
  assert (L4 : length (vadd RA (matvec RA (lin_GG RA Gm) (xi ++ dxi)) (Hv ++ Hv)) = (n + n)%nat).
  { unfold vadd. rewrite length_map2. lia'. }
  assert (L5 : length (vsub RA (matvec RA (negm RA (lin_FF RA Fm)) (y ++ dy))
                            (vadd RA (matvec RA (lin_GG RA Gm) (xi ++ dxi)) (Hv ++ Hv))) = (n + n)%nat).
  { unfold vsub. rewrite length_map2. lia'. }
  pose proof (Forall_nth_R _ _ i Hz ltac:(lia')) as E0. pose proof (Forall_nth_R _ _ (n + i)%nat Hz ltac:(lia')) as E1.
  cbv beta in E0, E1.
  rewrite nth_vsub, nth_vadd, !nth_matvec, nth_negm in E0, E1
    by (try (unfold negm; rewrite map_length); try (unfold lin_FF, lin_GG; rewrite length_stack1); lia').
  unfold lin_FF, lin_GG in E0, E1.
  rewrite !nth_stack1_top in E0 by (cR; fold n; lia).
  replace (n + i)%nat with (length Gm + i)%nat in E1 at 2 by lia'.
  unfold n in E1 at 1. rewrite !nth_stack1_bottom in E1 by (cR; fold n; lia).
  rewrite rdot_opp in E0, E1.
  rewrite !rdot_app in E0, E1 by (rewrite map_length; first [apply HrowsF|apply HrowsG]; exact Hi).
  rewrite (rdot_map_lin _ _ _ _ FF11_lin), (rdot_map_lin _ _ _ _ FF12_lin),
          (rdot_map_lin _ _ _ _ GG11_lin), (rdot_map_lin _ _ _ _ GG12_lin) in E0.
  rewrite (rdot_map_lin _ _ _ _ FF21_lin), (rdot_map_lin _ _ _ _ FF22_lin),
          (rdot_map_lin _ _ _ _ GG21_lin), (rdot_map_lin _ _ _ _ GG22_lin) in E1.
  rewrite app_nth1 in E0 by lia'. rewrite app_nth2 in E1 by lia'. replace (n + i - length Hv)%nat with i in E1 by lia'.
  rewrite !rdot_vaxpy by lia'.
  set (p := rdot (nth i Fm []) y) in *. set (r := rdot (nth i Fm []) dy) in *.
  set (q := rdot (nth i Gm []) xi) in *. set (u := rdot (nth i Gm []) dxi) in *.
  set (h := nth i Hv 0) in *.
  assert (Hh : h = - p - q) by lra. assert (Hr : r = - u) by lra. rewrite Hh, Hr. ring.
Qed.

Theorem linear_flat_measurement :
  zeros (vsub RA (matvec RA (negm RA Fm) y) (vadd RA (matvec RA Gm xi) Hv)) ->
  forall i, (i < n)%nat -> rdot (nth i Fm []) y + rdot (nth i Gm []) xi + nth i Hv 0 = 0.
Proof.
  intros Hz i Hi.
  assert (L1 : length (matvec RA (negm RA Fm) y) = n) by (unfold matvec, negm; now rewrite !map_length).
  assert (L2 : length (matvec RA Gm xi) = n) by (unfold matvec; now rewrite map_length).
  assert (L4 : length (vadd RA (matvec RA Gm xi) Hv) = n) by (unfold vadd; rewrite length_map2; lia').
  assert (L5 : length (vsub RA (matvec RA (negm RA Fm) y) (vadd RA (matvec RA Gm xi) Hv)) = n)
    by (unfold vsub; rewrite length_map2; lia').
  pose proof (Forall_nth_R _ _ i Hz ltac:(lia')) as E0. cbv beta in E0.
  rewrite nth_vsub, nth_vadd, !nth_matvec, nth_negm in E0 by (try (unfold negm; rewrite map_length); lia').
  rewrite rdot_opp in E0. cR. lra.
Qed.

End Measurement.
End Linear.

(* ------------------------------------------------------------------ 7. the loop of _steady_nonlinear *)
Section ModelBlocks.
Open Scope R_scope.
Variables (flat : bool) (lg : list (option bool)) (kinds : list qkind) (tol : R) (nq : nat).

(* the steady path that the levels and changes stored in a variant define *)
Definition vpath (v : variant RA) (q : nat) (s : Z) : R :=
  variant_cell RA nobad (is_log lg q) (vget RA (v_levels RA v) q) (vget RA (v_changes RA v) q) s.

(* equation e holds (within tol) on the path of v at the dates the solver evaluates *)
Definition eq_holds (v : variant RA) (e : expr RA) : Prop :=
  Rabs (eval RA (at_date (vpath v) 0) e) < tol /\ (flat = false -> Rabs (eval RA (at_date (vpath v) 1) e) < tol).

Definition same_cells (v v' : variant RA) (q : nat) : Prop :=
  vget RA (v_levels RA v) q = vget RA (v_levels RA v') q /\ vget RA (v_changes RA v) q = vget RA (v_changes RA v') q.

Definition qids_of_expr (e : expr RA) : list nat := map fst (tokens RA e).

Lemma eq_holds_ext v v' e : (forall q, In q (qids_of_expr e) -> same_cells v v' q) -> eq_holds v e -> eq_holds v' e.
Proof.
  intros H [H0 H1].
  assert (E : forall d, eval RA (at_date (vpath v') d) e = eval RA (at_date (vpath v) d) e).
  { intros d. apply eval_ext. intros q s Hqs. unfold at_date, vpath.
    destruct (H q) as [El Ec]; [unfold qids_of_expr; apply in_map_iff; exists (q, s); auto|]. now rewrite El, Ec. }
  split; [|intros F]; rewrite E; auto.
Qed.

Lemma stored_path_vpath v wrt lq cq eqs g :
  stored_path flat lg kinds v wrt lq cq eqs g = vpath (the_v' flat lg kinds v wrt lq cq eqs g).
Proof. reflexivity. Qed.

(* a block as the loop runs it: equations, solved level / change qids, the enumeration of its qids, the final guess *)
Record mblock := mkMB { mb_eqs : list (expr RA); mb_lq : list nat; mb_cq : list nat; mb_wrt : list nat; mb_g : list R }.

Definition mb_step (b : mblock) (v : variant RA) : variant RA :=
  the_v' flat lg kinds v (mb_wrt b) (mb_lq b) (mb_cq b) (mb_eqs b) (mb_g b).
Definition mb_resid (b : mblock) (v : variant RA) : list R :=
  ev_func RA (the_ev flat lg v (mb_wrt b) (mb_lq b) (mb_cq b) (mb_eqs b)) (mb_g b).

Definition flat_changes : list R := map (fun q => gen_zero_change RA (nth q lg None)) (seq 0 nq).

Definition vinv (v : variant RA) : Prop :=
  length (v_levels RA v) = nq /\ length (v_changes RA v) = nq /\ (flat = true -> v_changes RA v = flat_changes).

(* block b is well-formed and the solver succeeded on it when started from v *)
Definition mb_ok (b : mblock) (v : variant RA) : Prop :=
  NoDup (mb_wrt b) /\
  (forall q, In q (mb_wrt b) -> (q < nq)%nat) /\
  length (mb_g b) = (count_true (map (fun q => mem_nat q (mb_lq b)) (mb_wrt b)) +
                     count_true (if flat then [] else map (fun q => mem_nat q (mb_cq b)) (mb_wrt b)))%nat /\
  (forall q, In q (mb_wrt b) -> In q (mb_cq b) -> is_loggable (kind_of kinds q) = true) /\
  (forall e q s, In e (mb_eqs b) -> In (q, s) (tokens RA e) -> (q < nq)%nat) /\
  Forall (fun r => Rabs r < tol) (mb_resid b v).

Lemma mask_select_nil {T} (l : list T) : mask_select l [] = [].
Proof. destruct l; reflexivity. Qed.

Lemma mb_step_inv b v : vinv v -> mb_ok b v -> vinv (mb_step b v).
Proof.
  intros (Hl & Hc & Hf) (ND & Hlt & Hg & Hlog & Htok & _). unfold mb_step.
  assert (Hc' : length (v_changes RA v) = length (v_levels RA v)) by lia.
  rewrite <- Hl in Hlt.
  split; [|split].
  - rewrite v'_levels_length; auto.
  - rewrite v'_changes; auto. rewrite update_from_array_length. rewrite v1_changes_length; auto.
  - intros F. rewrite v'_changes; auto. unfold bc. rewrite F, !mask_select_nil.
    change (update_from_array RA ?d [] []) with d.
    rewrite v1_eq. cbn [zero_changes v_changes]. rewrite Hc. reflexivity.
Qed.

Lemma mb_step_local b v q : vinv v -> mb_ok b v -> ~ In q (mb_wrt b) -> same_cells v (mb_step b v) q.
Proof.
  intros (Hl & Hc & Hf) (ND & Hlt & Hg & Hlog & Htok & _) Hq. unfold mb_step, same_cells.
  assert (Hc' : length (v_changes RA v) = length (v_levels RA v)) by lia.
  rewrite <- Hl in Hlt.
  split.
  - symmetry. apply levels_untouched. tauto.
  - rewrite changes_untouched by (auto; tauto). rewrite v1_eq. destruct flat eqn:F; auto.
    simpl. rewrite (Hf eq_refl). unfold flat_changes. rewrite map_length, seq_length. reflexivity.
Qed.

Lemma mb_step_solves b v e : vinv v -> mb_ok b v -> In e (mb_eqs b) -> eq_holds (mb_step b v) e.
Proof.
  intros (Hl & Hc & Hf) (ND & Hlt & Hg & Hlog & Htok & Hs) He. unfold mb_step, eq_holds.
  assert (Hc' : length (v_changes RA v) = length (v_levels RA v)) by lia.
  rewrite <- Hl in Hlt, Htok.
  rewrite <- stored_path_vpath. apply success_means_equations_hold; auto.
Qed.

Definition to_blk (b : mblock) : blk (variant RA) (expr RA) := mkBlk _ _ (mb_eqs b) (mb_wrt b) (mb_step b).

(* every block is well-formed and solved successfully in the state in which it is run *)
Fixpoint all_ok (bs : list mblock) (v : variant RA) : Prop :=
  match bs with
  | [] => True
  | b :: r => mb_ok b v /\ all_ok r (mb_step b v)
  end.

Definition run_mblocks (bs : list mblock) (v : variant RA) : variant RA := fold_left (fun v b => mb_step b v) bs v.

Lemma run_mblocks_blk bs v : run_blocks _ _ (map to_blk bs) v = run_mblocks bs v.
Proof. revert v; induction bs as [|b r IH]; intros v; simpl; auto. Qed.

Lemma all_ok_good bs v : vinv v -> all_ok bs v -> all_good _ _ eq_holds same_cells vinv (map to_blk bs) v.
Proof.
  revert v; induction bs as [|b r IH]; intros v Hv H; simpl in *; auto.
  destruct H as [Hb Hr]. split.
  - unfold good_at. simpl. split; [now apply mb_step_inv|]. split.
    + intros q Hq. now apply mb_step_local.
    + intros e He. now apply mb_step_solves.
  - apply IH; auto. now apply mb_step_inv.
Qed.

(* no equation of a block mentions a quantity that a later block solves for *)
Fixpoint mtriangular (bs : list mblock) : Prop :=
  match bs with
  | [] => True
  | b :: r => (forall e, In e (mb_eqs b) -> forall b', In b' r -> forall q s, In q (mb_wrt b') -> ~ In (q, s) (tokens RA e))
              /\ mtriangular r
  end.

Lemma mtriangular_blk bs : mtriangular bs -> triangular _ _ qids_of_expr (map to_blk bs).
Proof.
  induction bs as [|b r IH]; simpl; auto. intros [T0 T]. split; auto.
  intros e He b' Hb' q Hq Hin. apply in_map_iff in Hb'. destruct Hb' as (mb & <- & Hmb).
  unfold qids_of_expr in Hin. apply in_map_iff in Hin. destruct Hin as ([q' s] & E & Hin). simpl in E. subst q'.
  exact (T0 e He mb Hmb q s Hq Hin).
Qed.

(* THEOREM: block by block in a block-triangular order, every equation of every block holds on the FINAL stored
   path (within tol at the evaluated dates) *)
Theorem model_blockwise bs v0 :
  vinv v0 -> all_ok bs v0 -> mtriangular bs ->
  forall b e, In b bs -> In e (mb_eqs b) -> eq_holds (run_mblocks bs v0) e.
Proof.
  intros Hv Hok Ht b e Hb He. rewrite <- run_mblocks_blk.
  apply (blockwise_equals_joint _ _ eq_holds same_cells qids_of_expr vinv eq_holds_ext (map to_blk bs) v0)
    with (b := to_blk b); auto.
  - now apply all_ok_good.
  - now apply mtriangular_blk.
  - now apply in_map.
Qed.

End ModelBlocks.

(* ------------------------------------------------------------------ 8. steady_nonlinear as a run of blocks *)
Section Loop.
Open Scope R_scope.
Variables (flat : bool) (lg : list (option bool)) (kinds : list qkind) (eqs : list (expr RA)) (fixl fixc : list nat).

Definition blk_lq (b : block) : list nat := sorted_minus (length kinds) (b_qids b) fixl.
Definition blk_cq (b : block) : list nat := sorted_minus (length kinds) (b_qids b) fixc.
Definition blk_eqs (b : block) : list (expr RA) := map (fun eid => nth eid eqs (EConst (miss RA))) (b_eids b).
(* has_no_qids or has_no_equations *)
Definition skipped (b : block) : bool :=
  (match blk_lq b, blk_cq b with [], [] => true | _, _ => false end) || (match blk_eqs b with [] => true | _ => false end).

(* the blocks that are actually handed to the solver, each with the oracle output it consumed *)
Fixpoint pair_blocks (bs : list block) (orcs : list (list nat * list R)) : list mblock :=
  match bs with
  | [] => []
  | b :: r =>
      if skipped b then pair_blocks r orcs
      else match orcs with
           | [] => pair_blocks r []
           | (wrt, g) :: orcs' => mkMB (blk_eqs b) (blk_lq b) (blk_cq b) wrt g :: pair_blocks r orcs'
           end
  end.

Lemma solve_blocks_run bs orcs v obs :
  fst (fst (fold_left (solve_block RA nobad flat lg kinds eqs fixl fixc) bs (v, orcs, obs))) =
  run_mblocks flat lg kinds (pair_blocks bs orcs) v.
Proof.
  revert orcs v obs; induction bs as [|b r IH]; intros orcs v obs; [reflexivity|].
  cbn [fold_left pair_blocks].
  unfold solve_block at 2. fold (blk_lq b). fold (blk_cq b). fold (blk_eqs b). fold (skipped b).
  destruct (skipped b).
  - apply IH.
  - destruct orcs as [|[wrt g] orcs'].
    + apply IH.
    + destruct (make_evaluator RA nobad flat lg v wrt (blk_lq b) (blk_cq b) (blk_eqs b)) as [v1 ev] eqn:E.
      rewrite IH. cbn [run_mblocks fold_left]. f_equal.
      unfold mb_step, the_v', the_v1, the_ev. cbn [mb_wrt mb_lq mb_cq mb_eqs mb_g]. now rewrite E.
Qed.

Lemma variant_eta (v : variant RA) : mkVariant RA (v_levels RA v) (v_changes RA v) = v.
Proof. destruct v; reflexivity. Qed.

End Loop.

(* THEOREM (the whole of _steady_nonlinear for one variant): if every block that was handed to the solver is
   well-formed and the solver's final guess has residual max-norm below tol in the state in which the block was
   run (all_ok), and the blocks are in a block-triangular order, then EVERY equation of EVERY solved block holds
   within tol on the path of the levels and changes that are finally stored, at date t (and t+1 when not flat) *)
Theorem steady_nonlinear_sound flat lg kinds eqs p split blocks orcs v tol :
  let res := steady_nonlinear RA nobad flat lg kinds eqs p split blocks orcs v in
  let wrt := fst (fst (resolve_wrt kinds p)) in
  let fixl := snd (fst (resolve_wrt kinds p)) in
  let fixc := snd (resolve_wrt kinds p) in
  let blocks1 := if split then blocks else [mkBlock (seq 0 (length eqs)) wrt] in
  let mbs := pair_blocks kinds eqs fixl fixc blocks1 orcs in
  vinv flat lg (length kinds) v -> all_ok flat lg kinds tol (length kinds) mbs v -> mtriangular mbs ->
  forall b e, In b mbs -> In e (mb_eqs b) ->
    eq_holds flat lg tol (mkVariant RA (r_levels RA res) (r_changes RA res)) e.
Proof.
  intros res wrt fixl fixc blocks1 mbs Hv Hok Ht b e Hb He.
  assert (E : mkVariant RA (r_levels RA res) (r_changes RA res) = run_mblocks flat lg kinds mbs v).
  { unfold res, steady_nonlinear. destruct (resolve_wrt kinds p) as [[w fl] fc] eqn:Ew.
    cbn [fst snd] in *.
    pose proof (solve_blocks_run flat lg kinds eqs fl fc (if split then blocks else [mkBlock (seq 0 (length eqs)) w]) orcs v []) as R.
    destruct (fold_left _ _ _) as [[v' o] obs]. cbn [fst] in R. cbn [r_levels r_changes]. rewrite variant_eta. exact R. }
  rewrite E. eapply model_blockwise; eauto.
Qed.

(* one block (split_into_blocks=False) is trivially triangular *)
Lemma mtriangular_single (b : mblock) : mtriangular [b].
Proof. simpl. split; [intros e _ b' Hb'; destruct Hb'|exact I]. Qed.

(* the residual vectors the harness observes (o_resid of r_blocks) are the residuals along the run *)
Section Trace.
Open Scope R_scope.
Variables (flat : bool) (lg : list (option bool)) (kinds : list qkind) (eqs : list (expr RA)) (fixl fixc : list nat).

Fixpoint resid_trace (bs : list mblock) (v : variant RA) : list (list R) :=
  match bs with
  | [] => []
  | b :: r => mb_resid flat lg b v :: resid_trace r (mb_step flat lg kinds b v)
  end.

Lemma solve_blocks_obs bs orcs v obs :
  map (o_resid RA) (snd (fold_left (solve_block RA nobad flat lg kinds eqs fixl fixc) bs (v, orcs, obs))) =
  map (o_resid RA) obs ++ resid_trace (pair_blocks kinds eqs fixl fixc bs orcs) v.
Proof.
  revert orcs v obs; induction bs as [|b r IH]; intros orcs v obs; [simpl; now rewrite app_nil_r|].
  cbn [fold_left pair_blocks].
  unfold solve_block at 2. fold (blk_lq kinds fixl b). fold (blk_cq kinds fixc b). fold (blk_eqs eqs b).
  fold (skipped kinds eqs fixl fixc b).
  destruct (skipped kinds eqs fixl fixc b).
  - apply IH.
  - destruct orcs as [|[wrt g] orcs'].
    + apply IH.
    + destruct (make_evaluator RA nobad flat lg v wrt (blk_lq kinds fixl b) (blk_cq kinds fixc b) (blk_eqs eqs b)) as [v1 ev] eqn:E.
      rewrite IH. rewrite map_app, <- app_assoc. f_equal. cbn [map app resid_trace o_resid]. f_equal.
      * unfold mb_resid, the_ev. cbn [mb_wrt mb_lq mb_cq mb_eqs mb_g]. now rewrite E.
      * f_equal. unfold mb_step, the_v', the_v1, the_ev. cbn [mb_wrt mb_lq mb_cq mb_eqs mb_g]. now rewrite E.
Qed.

(* well-formedness of a block (everything in mb_ok except the solver's success) *)
Definition mb_wf (nq : nat) (b : mblock) : Prop :=
  NoDup (mb_wrt b) /\
  (forall q, In q (mb_wrt b) -> (q < nq)%nat) /\
  length (mb_g b) = (count_true (map (fun q => mem_nat q (mb_lq b)) (mb_wrt b)) +
                     count_true (if flat then [] else map (fun q => mem_nat q (mb_cq b)) (mb_wrt b)))%nat /\
  (forall q, In q (mb_wrt b) -> In q (mb_cq b) -> is_loggable (kind_of kinds q) = true) /\
  (forall e q s, In e (mb_eqs b) -> In (q, s) (tokens RA e) -> (q < nq)%nat).

Lemma trace_all_ok tol nq bs v :
  Forall (mb_wf nq) bs -> Forall (Forall (fun r => Rabs r < tol)) (resid_trace bs v) ->
  all_ok flat lg kinds tol nq bs v.
Proof.
  revert v; induction bs as [|b r IH]; intros v Hw Ht; simpl in *; auto.
  inversion Hw as [|? ? (A & B & C & D & E) Hw']; subst. inversion Ht as [|? ? Hb Ht']; subst.
  split; [repeat split; auto|apply IH; auto].
Qed.

End Trace.

(* ... so the premise of steady_nonlinear_sound can be read off what is observed: the recorded residual vectors
   (the harness compares them bit for bit with the implementation's eval_func(final_guess) and checks them against
   the tolerance) *)
Theorem steady_nonlinear_sound_observed flat lg kinds eqs p split blocks orcs v tol :
  let res := steady_nonlinear RA nobad flat lg kinds eqs p split blocks orcs v in
  let wrt := fst (fst (resolve_wrt kinds p)) in
  let fixl := snd (fst (resolve_wrt kinds p)) in
  let fixc := snd (resolve_wrt kinds p) in
  let blocks1 := if split then blocks else [mkBlock (seq 0 (length eqs)) wrt] in
  let mbs := pair_blocks kinds eqs fixl fixc blocks1 orcs in
  vinv flat lg (length kinds) v -> Forall (mb_wf flat kinds (length kinds)) mbs -> mtriangular mbs ->
  Forall (fun o => Forall (fun r => (Rabs r < tol)%R) (o_resid RA o)) (r_blocks RA res) ->
  forall b e, In b mbs -> In e (mb_eqs b) ->
    eq_holds flat lg tol (mkVariant RA (r_levels RA res) (r_changes RA res)) e.
Proof.
  intros res wrt fixl fixc blocks1 mbs Hv Hw Ht Hobs.
  assert (E : map (o_resid RA) (r_blocks RA res) = resid_trace flat lg kinds mbs v).
  { unfold res, mbs, blocks1, fixl, fixc, wrt, steady_nonlinear.
    destruct (resolve_wrt kinds p) as [[w fl] fc] eqn:Ew. cbn [fst snd] in *.
    pose proof (solve_blocks_obs flat lg kinds eqs fl fc (if split then blocks else [mkBlock (seq 0 (length eqs)) w]) orcs v []) as R.
    destruct (fold_left _ _ _) as [[v' o] obs]. cbn [snd map app] in R. cbn [r_blocks]. exact R. }
  apply steady_nonlinear_sound; auto.
  apply trace_all_ok; auto.
  match goal with |- Forall _ ?t => replace t with (map (o_resid RA) (r_blocks RA res)) by exact E end.
  rewrite Forall_map. exact Hobs.
Qed.

(* ------------------------------------------------------------------ 9. flat mode: every date *)
Section FlatEveryDate.
Open Scope R_scope.
Variables (flat : bool) (lg : list (option bool)) (kinds : list qkind) (tol : R) (nq : nat).

Lemma run_mblocks_vinv bs v : vinv flat lg nq v -> all_ok flat lg kinds tol nq bs v -> vinv flat lg nq (run_mblocks flat lg kinds bs v).
Proof.
  revert v; induction bs as [|b r IH]; intros v Hv H; simpl in *; auto.
  destruct H as [Hb Hr]. apply IH; auto. eapply mb_step_inv; eauto.
Qed.

Lemma Rln_0 : Rln 0 = 0.
Proof. unfold Rpower.ln. destruct (Rlt_dec 0 0) as [H|H]; [exfalso; lra|reflexivity]. Qed.

(* with flat changes (1 for log-variables, 0 for other variables, none for the rest) the path is constant *)
Lemma vpath_flat v q s : v_changes RA v = flat_changes lg nq -> vpath lg v q s = vpath lg v q 0.
Proof.
  intros Hc. unfold vpath. rewrite Hc. rewrite !variant_cell_maybelog. f_equal.
  assert (E : (if is_log lg q then Rln (vget RA (flat_changes lg nq) q) else vget RA (flat_changes lg nq) q) = 0).
  { unfold flat_changes, vget. destruct (Nat.lt_ge_cases q nq) as [Hq|Hq].
    - rewrite nth_map_seq by exact Hq. unfold is_log. destruct (nth q lg None) as [[|]|]; cbn; auto. apply ln_1.
    - rewrite nth_overflow by (now rewrite map_length, seq_length). cbn. destruct (is_log lg q); auto. apply Rln_0. }
  rewrite E. ring.
Qed.

(* THEOREM every_date (flat): in flat mode every equation that holds at the evaluated date holds at EVERY date *)
Theorem eq_holds_flat_every_date v e : flat = true -> vinv flat lg nq v -> eq_holds flat lg tol v e ->
  forall t, Rabs (eval RA (at_date (vpath lg v) t) e) < tol.
Proof.
  intros F (_ & _ & Hc) [H0 _] t. rewrite every_date_flat; auto.
  intros q s _ u. apply vpath_flat. auto.
Qed.

End FlatEveryDate.

Theorem steady_nonlinear_flat_every_date lg kinds eqs p split blocks orcs v tol :
  let flat := true in
  let res := steady_nonlinear RA nobad flat lg kinds eqs p split blocks orcs v in
  let wrt := fst (fst (resolve_wrt kinds p)) in
  let fixl := snd (fst (resolve_wrt kinds p)) in
  let fixc := snd (resolve_wrt kinds p) in
  let blocks1 := if split then blocks else [mkBlock (seq 0 (length eqs)) wrt] in
  let mbs := pair_blocks kinds eqs fixl fixc blocks1 orcs in
  vinv flat lg (length kinds) v -> all_ok flat lg kinds tol (length kinds) mbs v -> mtriangular mbs ->
  forall b e, In b mbs -> In e (mb_eqs b) ->
  forall t : Z, (Rabs (eval RA (at_date (vpath lg (mkVariant RA (r_levels RA res) (r_changes RA res))) t) e) < tol)%R.
Proof.
  intros flat res wrt fixl fixc blocks1 mbs Hv Hok Ht b e Hb He t.
  apply eq_holds_flat_every_date with (flat := flat) (nq := length kinds); auto.
  - unfold res, steady_nonlinear, mbs, blocks1, fixl, fixc, wrt in *.
    destruct (resolve_wrt kinds p) as [[w fl] fc] eqn:Ew. cbn [fst snd] in *.
    pose proof (solve_blocks_run flat lg kinds eqs fl fc (if split then blocks else [mkBlock (seq 0 (length eqs)) w]) orcs v []) as R.
    destruct (fold_left _ _ _) as [[v' o] obs]. cbn [fst] in R. cbn [r_levels r_changes]. rewrite variant_eta, R.
    eapply run_mblocks_vinv; eauto.
  - eapply steady_nonlinear_sound; eauto.
Qed.

(* ------------------------------------------------------------------ 10. non-vacuity: concrete instances *)
Section Examples.
Open Scope R_scope.
Ltac rcompute := cbv -[Rplus Rmult Rminus Rdiv Ropp Rinv IZR Rabs Rlt Rle Rpower.ln Rtrigo_def.exp Rpower].

(* flat, stationary:  x = 1/2 x{-1} + 1 ; the solver's final guess is 2 *)
Definition ex_flat_eq : expr RA := EAdd (ENeg (EVar 0 0)) (EAdd (EMul (@EConst RA (1/2)) (EVar 0 (-1))) (@EConst RA 1)).
Definition ex_flat_v : variant RA := mkVariant RA [1] [0].
Definition ex_flat_res := steady_nonlinear RA nobad true [Some false] [KEndog] [ex_flat_eq] (mkPlan [] [] [] []) false []
                                           [([0%nat], [2])] ex_flat_v.
Definition ex_flat_mbs := pair_blocks [KEndog] [ex_flat_eq] [] [] [mkBlock [0%nat] [0%nat]] [([0%nat], [2])].

Lemma Rabs_small x : x = 0 -> Rabs x < 1 / 1000.
Proof. intros ->. rewrite Rabs_R0. lra. Qed.

Lemma example_flat :
  vinv true [Some false] 1 ex_flat_v /\ Forall (mb_wf true [KEndog] 1) ex_flat_mbs /\ mtriangular ex_flat_mbs /\
  Forall (fun o => Forall (fun r => Rabs r < 1 / 1000) (o_resid RA o)) (r_blocks RA ex_flat_res) /\
  ex_flat_mbs = [mkMB [ex_flat_eq] [0%nat] [0%nat] [0%nat] [2]] /\
  r_levels RA ex_flat_res = [2] /\ r_changes RA ex_flat_res = [0].
Proof.
  split; [|split; [|split; [|split; [|split; [|split]]]]].
  - repeat split; intros; reflexivity.
  - constructor; [|constructor]. unfold mb_wf. cbn. repeat split.
    + constructor; [intros []|constructor].
    + intros q [<-|[]]. lia.
    + intros q [<-|[]] _. reflexivity.
    + intros e q s [<-|[]] H. cbn in H. destruct H as [E|[E|[]]]; inversion E; lia.
  - apply mtriangular_single.
  - rcompute. constructor; [|constructor]. constructor; [|constructor]. apply Rabs_small. lra.
  - reflexivity.
  - rcompute. reflexivity.
  - rcompute. reflexivity.
Qed.

(* growth, unit root with drift:  u = u{-1} + g  with g = 3 ; final guess level 5, change 3 *)
Definition ex_rw_eq : expr RA := EAdd (ENeg (EVar 0 0)) (EAdd (EVar 0 (-1)) (EVar 1 0)).
Definition ex_rw_v : variant RA := mkVariant RA [1; 3] [0; 0].
Definition ex_rw_res := steady_nonlinear RA nobad false [Some false; None] [KEndog; KParam] [ex_rw_eq] (mkPlan [] [] [] []) false []
                                         [([0%nat], [5; 3])] ex_rw_v.
Definition ex_rw_mbs := pair_blocks [KEndog; KParam] [ex_rw_eq] [] [] [mkBlock [0%nat] [0%nat]] [([0%nat], [5; 3])].

Lemma example_growth :
  vinv false [Some false; None] 2 ex_rw_v /\ Forall (mb_wf false [KEndog; KParam] 2) ex_rw_mbs /\ mtriangular ex_rw_mbs /\
  Forall (fun o => Forall (fun r => Rabs r < 1 / 1000) (o_resid RA o)) (r_blocks RA ex_rw_res) /\
  ex_rw_mbs = [mkMB [ex_rw_eq] [0%nat] [0%nat] [0%nat] [5; 3]] /\
  r_levels RA ex_rw_res = [5; 3] /\ r_changes RA ex_rw_res = [3; 0].
Proof.
  split; [|split; [|split; [|split; [|split; [|split]]]]].
  - repeat split; try reflexivity; try (intros H; discriminate).
  - constructor; [|constructor]. unfold mb_wf. cbn. repeat split.
    + constructor; [intros []|constructor].
    + intros q [<-|[]]. lia.
    + intros q [<-|[]] _. reflexivity.
    + intros e q s [<-|[]] H. cbn in H. destruct H as [E|[E|[E|[]]]]; inversion E; lia.
  - apply mtriangular_single.
  - rcompute. constructor; [|constructor]. constructor; [|constructor; [|constructor]]; apply Rabs_small; lra.
  - reflexivity.
  - rcompute. reflexivity.
  - rcompute. reflexivity.
Qed.

End Examples.

(* ------------------------------------------------------------------ 11. statements restated in props/C05.v *)
Lemma c05_path_constant_stmt : forall l s, path_value false l 0 s = l /\ path_value true l 1 s = l.
Proof. intros l s. split; [apply path_value_const_nonlog|apply path_value_const_log]. Qed.

Lemma c05_guess_roundtrip_index_stmt : forall flat lg (v : variant RA) wrt level_qids change_qids eqs g,
  let ev := the_ev flat lg v wrt level_qids change_qids eqs in
  length (v_changes RA v) = length (v_levels RA v) ->
  length g = (count_true (ev_bl RA ev) + count_true (ev_bc RA ev))%nat ->
  mask_select (new_levels RA ev g) (ev_bl RA ev) = gl flat wrt level_qids g /\
  (flat = false -> mask_select (new_changes RA ev g) (ev_bc RA ev) = gc wrt level_qids g /\
                   g = gl flat wrt level_qids g ++ gc wrt level_qids g).
Proof.
  intros flat lg v wrt lq cq eqs g ev H1 H2. split; [now apply extract_update_levels|].
  intros F. split; [now apply extract_update_changes|now apply guess_split].
Qed.

Lemma c05_guess_roundtrip_cells_stmt : forall flat lg kinds (v : variant RA) wrt level_qids change_qids eqs g,
  let ev := the_ev flat lg v wrt level_qids change_qids eqs in
  let v' := the_v' flat lg kinds v wrt level_qids change_qids eqs g in
  length (v_changes RA v) = length (v_levels RA v) -> NoDup wrt ->
  (forall q, In q wrt -> (q < length (v_levels RA v))%nat) ->
  length g = (count_true (ev_bl RA ev) + count_true (ev_bc RA ev))%nat ->
  (forall q, In q wrt -> In q change_qids -> is_loggable (kind_of kinds q) = true) ->
  forall i, (i < length wrt)%nat ->
    (In (nth i wrt O) level_qids ->
       maybelog_level RA lg v' (nth i wrt O) = nth (rank (bl wrt level_qids) i) (gl flat wrt level_qids g) 0%R) /\
    (flat = false -> In (nth i wrt O) change_qids ->
       maybelog_change RA lg v' (nth i wrt O) = nth (rank (bc flat wrt change_qids) i) (gc wrt level_qids g) 0%R).
Proof.
  intros flat lg kinds v wrt lq cq eqs g ev v' H1 H2 H3 H4 H5 i Hi. split.
  - intros Hin. now apply guess_roundtrip_levels.
  - intros F Hin. now apply guess_roundtrip_changes.
Qed.

Lemma c05_other_cells_unchanged_stmt : forall flat lg kinds (v : variant RA) wrt level_qids change_qids eqs g,
  let ev := the_ev flat lg v wrt level_qids change_qids eqs in
  let v' := the_v' flat lg kinds v wrt level_qids change_qids eqs g in
  length (v_changes RA v) = length (v_levels RA v) -> NoDup wrt ->
  (forall q, In q wrt -> (q < length (v_levels RA v))%nat) ->
  length g = (count_true (ev_bl RA ev) + count_true (ev_bc RA ev))%nat ->
  (forall q, In q wrt -> In q change_qids -> is_loggable (kind_of kinds q) = true) ->
  forall q,
    (~ (In q wrt /\ In q level_qids) -> vget RA (v_levels RA v') q = vget RA (v_levels RA v) q) /\
    (~ (flat = false /\ In q wrt /\ In q change_qids) ->
       vget RA (v_changes RA v') q = vget RA (v_changes RA (if flat then zero_changes RA lg v else v)) q).
Proof.
  intros flat lg kinds v wrt lq cq eqs g ev v' H1 H2 H3 H4 H5 q. split.
  - apply levels_untouched.
  - intros H. unfold v'. rewrite changes_untouched by assumption. now rewrite v1_eq.
Qed.

Lemma c05_every_date_affine_stmt : forall (P : nat -> Z -> R) (e : expr RA), affine_expr P e ->
  (eval RA (at_date P 0) e = 0%R -> eval RA (at_date P 1) e = 0%R -> forall t, eval RA (at_date P t) e = 0%R) /\
  (forall tol, (Rabs (eval RA (at_date P 0) e) <= tol)%R -> (Rabs (eval RA (at_date P 1) e) <= tol)%R ->
     forall t, (Rabs (eval RA (at_date P t) e) <= (1 + 2 * Rabs (IZR t)) * tol)%R).
Proof. intros P e H. split; [now apply every_date_affine|intros tol; now apply every_date_affine_tol]. Qed.

Lemma c05_linear_flat_stmt : forall (Am Bm Fm Gm : list (list R)) (Cv Hv xi y : list R),
  length Bm = length Am -> length Cv = length Am ->
  (forall i, (i < length Am)%nat -> length (nth i Am []) = length xi) ->
  (forall i, (i < length Am)%nat -> length (nth i Bm []) = length xi) ->
  length Gm = length Fm -> length Hv = length Fm ->
  zeros (fst (lin_flat_residuals RA Am Bm Fm Gm Cv Hv xi y)) -> zeros (snd (lin_flat_residuals RA Am Bm Fm Gm Cv Hv xi y)) ->
  (forall i, (i < length Am)%nat -> (rdot (nth i Am []) xi + rdot (nth i Bm []) xi + nth i Cv 0 = 0)%R) /\
  (forall i, (i < length Fm)%nat -> (rdot (nth i Fm []) y + rdot (nth i Gm []) xi + nth i Hv 0 = 0)%R).
Proof.
  intros Am Bm Fm Gm Cv Hv xi y H1 H2 H3 H4 H5 H6 Z1 Z2. split.
  - apply linear_flat_transition with (dxi := xi); auto.
  - eapply linear_flat_measurement with (dxi := xi) (dy := y); eauto.
Qed.
