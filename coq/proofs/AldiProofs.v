(* C02: every differentiation rule regenerated from aldi/differentiators.py is the true
   derivative (Coquelicot [is_derive]); the tree evaluator that folds them computes the
   derivative of the residual along any differentiable curve of evaluation points. *)
From Coq Require Import Reals Lra Lia ZArith List String Bool FunctionalExtensionality.
From Coquelicot Require Import Coquelicot.
From Verif Require Import lib.Dual lib.DualR gen.AldiGen model.AldiTree model.AldiDen model.AldiMaps.
Import ListNotations.
Local Open Scope R_scope.

(* ------------------------------------------------------------------------------ *)
(* real-number helpers                                                             *)
(* ------------------------------------------------------------------------------ *)

Lemma up_IZR : forall n : Z, up (IZR n) = (n + 1)%Z.
Proof.
  intros n. symmetry. apply tech_up; rewrite plus_IZR; lra.
Qed.

Lemma as_int_IZR : forall n : Z, as_int (IZR n) = Some n.
Proof.
  intros n. unfold as_int. rewrite up_IZR.
  replace (n + 1 - 1)%Z with n by lia.
  destruct (Req_EM_T (IZR n) (IZR n)); congruence.
Qed.

Lemma as_int_Some : forall y n, as_int y = Some n -> y = IZR n.
Proof.
  unfold as_int. intros y n. destruct (Req_EM_T _ _); congruence.
Qed.

Lemma rpow_pos : forall x y, 0 < x -> rpow x y = Rpower x y.
Proof. intros x y H. unfold rpow. destruct (Rlt_dec 0 x); [reflexivity | contradiction]. Qed.

Lemma rpow_int : forall x n, rpow x (IZR n) = powerRZ x n.
Proof.
  intros x n. unfold rpow. destruct (Rlt_dec 0 x) as [H | H].
  - symmetry. now apply powerRZ_Rpower.
  - now rewrite as_int_IZR.
Qed.

Lemma rpow_2 : forall v, rpow v 2 = v * v.
Proof. intros v. rewrite (rpow_int v 2). simpl. ring. Qed.

Lemma Rltb_true : forall x y, x < y -> Rltb x y = true.
Proof. intros. unfold Rltb. destruct (Rlt_dec x y); [reflexivity | contradiction]. Qed.
Lemma Rltb_false : forall x y, ~ x < y -> Rltb x y = false.
Proof. intros. unfold Rltb. destruct (Rlt_dec x y); [contradiction | reflexivity]. Qed.
Lemma Reqb_true : forall x y, x = y -> Reqb x y = true.
Proof. intros. unfold Reqb. destruct (Req_EM_T x y); [reflexivity | contradiction]. Qed.
Lemma Reqb_false : forall x y, x <> y -> Reqb x y = false.
Proof. intros. unfold Reqb. destruct (Req_EM_T x y); [contradiction | reflexivity]. Qed.

Lemma is_derive_const_R : forall (c x : R), is_derive (fun _ : R => c) x 0.
Proof. intros c x. exact (@is_derive_const R_AbsRing R_NormedModule c x). Qed.

(* a differentiable function keeps a strict sign / inequality in a neighbourhood *)
Lemma locally_lt : forall (f g : R -> R) (x f' g' : R),
  is_derive f x f' -> is_derive g x g' -> f x < g x -> locally x (fun u => f u < g u).
Proof.
  intros f g x f' g' Hf Hg Hlt.
  assert (Cf : continuous f x).
  { apply (ex_derive_continuous (K:=R_AbsRing) (V:=R_NormedModule) f x). now exists f'. }
  assert (Cg : continuous g x).
  { apply (ex_derive_continuous (K:=R_AbsRing) (V:=R_NormedModule) g x). now exists g'. }
  assert (Cd : continuous (fun u => minus (g u) (f u)) x).
  { apply (continuous_minus g f x Cg Cf). }
  pose (eps := mkposreal (g x - f x) ltac:(lra)).
  destruct (proj1 (filterlim_locally _ _) Cd eps) as [d Hd].
  exists d. intros u Hu. specialize (Hd u Hu).
  unfold ball in Hd; simpl in Hd. unfold AbsRing_ball, abs, minus, plus, opp in Hd; simpl in Hd.
  apply Rabs_def2 in Hd. lra.
Qed.

Lemma locally_pos : forall (f : R -> R) (x f' : R), is_derive f x f' -> 0 < f x -> locally x (fun u => 0 < f u).
Proof.
  intros f x f' Hf H.
  apply (locally_lt (fun _ => 0) f x 0 f'); [apply is_derive_const_R | assumption | assumption].
Qed.

Lemma locally_neg : forall (f : R -> R) (x f' : R), is_derive f x f' -> f x < 0 -> locally x (fun u => f u < 0).
Proof.
  intros f x f' Hf H.
  apply (locally_lt f (fun _ => 0) x f' 0); [assumption | apply is_derive_const_R | assumption].
Qed.

Lemma is_derive_eq : forall (f : R -> R) (x l l' : R), is_derive f x l -> l = l' -> is_derive f x l'.
Proof. intros; subst; assumption. Qed.

Ltac ringR := match goal with |- @eq _ ?a ?b => change (@eq R a b); ring end.
Ltac fieldR := match goal with |- @eq _ ?a ?b => change (@eq R a b); field end.

(* auto_derive with abstract differentiable functions: conditions, then the value *)
Ltac ad_start := evar_last; [ auto_derive; [ | reflexivity ] | ].
Ltac ad_conds :=
  repeat match goal with
  | |- _ /\ _ => split
  | |- True => exact I
  | |- ex_derive _ _ => eexists; eassumption
  | |- _ => assumption
  | |- _ => lra
  end.
Ltac known f x f' Hf := rewrite ?(is_derive_unique (fun u : R => f u) x f' Hf).

(* derivative of u |-> Rpower (f u) c *)
Lemma is_derive_Rpower_l : forall (f : R -> R) (x f' c : R), is_derive f x f' -> 0 < f x ->
  is_derive (fun u => Rpower (f u) c) x (c * Rpower (f x) (c - 1) * f').
Proof.
  intros f x f' c Hf Hpos. unfold Rpower at 1.
  ad_start.
  - ad_conds.
  - known f x f' Hf.
    unfold Rminus. rewrite Rpower_plus, Rpower_Ropp, Rpower_1 by lra. unfold Rpower. field. lra.
Qed.

(* derivative of u |-> Rpower c (f u) *)
Lemma is_derive_Rpower_r : forall (f : R -> R) (x f' c : R), is_derive f x f' -> 0 < c ->
  is_derive (fun u => Rpower c (f u)) x (Rpower c (f x) * ln c * f').
Proof.
  intros f x f' c Hf Hpos. unfold Rpower.
  ad_start.
  - ad_conds.
  - known f x f' Hf. ring.
Qed.

Lemma powerRZ_neg_base : forall v n, v < 0 -> powerRZ v n = powerRZ (-1) n * Rpower (- v) (IZR n).
Proof.
  intros v n Hv. rewrite <- powerRZ_Rpower by lra. rewrite <- powerRZ_mult. f_equal. ring.
Qed.

Lemma powerRZ_m1_pred : forall n, powerRZ (-1) (n - 1) = - powerRZ (-1) n.
Proof.
  intros n. unfold Z.sub. rewrite powerRZ_add by lra. simpl. field.
Qed.

(* derivative of u |-> powerRZ (f u) n at a negative base *)
Lemma is_derive_powerRZ_neg : forall (f : R -> R) (x f' : R) (n : Z), is_derive f x f' -> f x < 0 ->
  is_derive (fun u => powerRZ (f u) n) x (IZR n * powerRZ (f x) (n - 1) * f').
Proof.
  intros f x f' n Hf Hneg.
  apply (is_derive_ext_loc (fun u => powerRZ (-1) n * Rpower (- f u) (IZR n))).
  - generalize (locally_neg f x f' Hf Hneg). apply filter_imp. intros u Hu. symmetry. now apply powerRZ_neg_base.
  - assert (Hm : is_derive (fun u => - f u) x (- f')).
    { ad_start; [ad_conds | known f x f' Hf; ring]. }
    generalize (is_derive_Rpower_l (fun u => - f u) x (- f') (IZR n) Hm ltac:(lra)). intros HP.
    eapply is_derive_eq; [ apply (is_derive_scal _ x (powerRZ (-1) n) _ HP) | ].
    rewrite (powerRZ_neg_base (f x) (n - 1) Hneg). rewrite powerRZ_m1_pred. rewrite minus_IZR. ringR.
Qed.

(* ------------------------------------------------------------------------------ *)
(* one lemma per generated rule                                                    *)
(* ------------------------------------------------------------------------------ *)

Notation dualR := (dual RD).

(* [d] is (value, derivative) of [F] at [x] *)
Definition derives (F : R -> R) (x : R) (d : dualR) : Prop := fst d = F x /\ is_derive F x (snd d).

Ltac rule_start := intros; split; [ try reflexivity | cbn -[rpow expit Rltb Reqb] ].
Ltac rule1 f x f' Hf := ad_start; [ ad_conds | known f x f' Hf; try ringR ].
Ltac rule2 f g x f' g' Hf Hg := ad_start; [ ad_conds | known f x f' Hf; known g x g' Hg; try ringR ].

Lemma neg_rule : forall (f : R -> R) (x f' : R), is_derive f x f' -> derives (fun u => - f u) x (atom_neg RD (f x, f')).
Proof. rule_start. rule1 f x f' H. Qed.

Lemma pos_rule : forall (f : R -> R) (x f' : R), is_derive f x f' -> derives f x (atom_pos RD (f x, f')).
Proof. intros; split; [reflexivity | assumption]. Qed.

Lemma add_aa_rule : forall (f g : R -> R) (x f' g' : R), is_derive f x f' -> is_derive g x g' ->
  derives (fun u => f u + g u) x (atom_add_aa RD (f x, f') (g x, g')).
Proof. rule_start. rule2 f g x f' g' H H0. Qed.

Lemma add_ac_rule : forall (f : R -> R) (x f' c : R), is_derive f x f' -> derives (fun u => f u + c) x (atom_add_ac RD (f x, f') c).
Proof. rule_start. rule1 f x f' H. Qed.

Lemma radd_rule : forall (f : R -> R) (x f' c : R), is_derive f x f' -> derives (fun u => c + f u) x (atom_radd RD (f x, f') c).
Proof. intros; split; [cbn; ring | cbn]. rule1 f x f' H. Qed.

Lemma sub_aa_rule : forall (f g : R -> R) (x f' g' : R), is_derive f x f' -> is_derive g x g' ->
  derives (fun u => f u - g u) x (atom_sub_aa RD (f x, f') (g x, g')).
Proof. rule_start. rule2 f g x f' g' H H0. Qed.

Lemma sub_ac_rule : forall (f : R -> R) (x f' c : R), is_derive f x f' -> derives (fun u => f u - c) x (atom_sub_ac RD (f x, f') c).
Proof. rule_start. rule1 f x f' H. Qed.

Lemma rsub_rule : forall (f : R -> R) (x f' c : R), is_derive f x f' -> derives (fun u => c - f u) x (atom_rsub RD (f x, f') c).
Proof. intros; split; [cbn; ring | cbn]. rule1 f x f' H. Qed.

Lemma mul_aa_rule : forall (f g : R -> R) (x f' g' : R), is_derive f x f' -> is_derive g x g' ->
  derives (fun u => f u * g u) x (atom_mul_aa RD (f x, f') (g x, g')).
Proof. rule_start. rule2 f g x f' g' H H0. Qed.

Lemma mul_ac_rule : forall (f : R -> R) (x f' c : R), is_derive f x f' -> derives (fun u => f u * c) x (atom_mul_ac RD (f x, f') c).
Proof. rule_start. rule1 f x f' H. Qed.

Lemma rmul_rule : forall (f : R -> R) (x f' c : R), is_derive f x f' -> derives (fun u => c * f u) x (atom_rmul RD (f x, f') c).
Proof. intros; split; [cbn; ring | cbn]. rule1 f x f' H. Qed.

Lemma truediv_aa_rule : forall (f g : R -> R) (x f' g' : R), is_derive f x f' -> is_derive g x g' -> g x <> 0 ->
  derives (fun u => f u / g u) x (atom_truediv_aa RD (f x, f') (g x, g')).
Proof.
  rule_start. rewrite rpow_2. ad_start; [ ad_conds | known f x f' H; known g x g' H0; fieldR; assumption ].
Qed.

Lemma truediv_ac_rule : forall (f : R -> R) (x f' c : R), is_derive f x f' -> derives (fun u => f u / c) x (atom_truediv_ac RD (f x, f') c).
Proof.
  rule_start. unfold Rdiv. rule1 f x f' H.
Qed.

Lemma rtruediv_rule : forall (f : R -> R) (x f' c : R), is_derive f x f' -> f x <> 0 ->
  derives (fun u => c / f u) x (atom_rtruediv RD (f x, f') c).
Proof.
  rule_start. rewrite rpow_2. ad_start; [ ad_conds | known f x f' H; fieldR; assumption ].
Qed.

(* u |-> f(u) ** c for a plain number c: positive base and any exponent ... *)
Lemma power_rule_pos : forall (f : R -> R) (x f' c : R), is_derive f x f' -> 0 < f x ->
  derives (fun u => rpow (f u) c) x (atom_power RD (f x, f') c).
Proof.
  rule_start.
  apply (is_derive_ext_loc (fun u => Rpower (f u) c)).
  - generalize (locally_pos f x f' H H0). apply filter_imp. intros u Hu. symmetry; now apply rpow_pos.
  - rewrite rpow_pos by assumption. now apply is_derive_Rpower_l.
Qed.

(* ... or a non-zero base and an integer exponent (x ** 2 at negative x, x ** -1, ...) *)
Lemma power_rule_int : forall (f : R -> R) (x f' : R) (n : Z), is_derive f x f' -> f x <> 0 ->
  derives (fun u => rpow (f u) (IZR n)) x (atom_power RD (f x, f') (IZR n)).
Proof.
  intros f x f' n Hf Hnz.
  destruct (Rlt_dec 0 (f x)) as [Hpos | Hnpos]; [ now apply power_rule_pos | ].
  assert (Hneg : f x < 0) by lra.
  split; [ reflexivity | cbn -[rpow] ].
  apply (is_derive_ext (fun u => powerRZ (f u) n)).
  - intros u. symmetry. apply rpow_int.
  - replace (IZR n - 1) with (IZR (n - 1)) by (rewrite minus_IZR; reflexivity).
    rewrite rpow_int. now apply is_derive_powerRZ_neg.
Qed.

(* u |-> c ** f(u) for a positive plain number c *)
Lemma exponential_rule : forall (f : R -> R) (x f' c : R), is_derive f x f' -> 0 < c ->
  derives (fun u => rpow c (f u)) x (atom_exponential RD (f x, f') c).
Proof.
  rule_start.
  apply (is_derive_ext (fun u => Rpower c (f u))).
  - intros u. symmetry; now apply rpow_pos.
  - rewrite rpow_pos by assumption. now apply is_derive_Rpower_r.
Qed.

(* number ** f(u): class Atom defines no __rpow__, so Python raises TypeError; should one be added, it has to be
   the derivative of c ** f for a positive number c *)
Lemma rpow_rule_or_absent :
  has_rpow = false \/
  (forall (f : R -> R) (x f' c : R), is_derive f x f' -> 0 < c ->
     derives (fun u => rpow c (f u)) x (atom_rpow RD (f x, f') c)).
Proof.
  first
  [ left; reflexivity
  | right; intros f x f' c Hf Hc; unfold atom_rpow;
    first [ apply exponential_rule; assumption
          | destruct (atom_exponential RD (f x, f') c) as [v d] eqn:E; rewrite <- E; apply exponential_rule; assumption ] ].
Qed.

Lemma pow_ac_rule_pos : forall (f : R -> R) (x f' c : R), is_derive f x f' -> 0 < f x ->
  derives (fun u => rpow (f u) c) x (atom_pow_ac RD (f x, f') c).
Proof. intros. unfold atom_pow_ac. destruct (atom_power RD (f x, f') c) eqn:E. rewrite <- E. now apply power_rule_pos. Qed.

Lemma pow_ac_rule_int : forall (f : R -> R) (x f' : R) (n : Z), is_derive f x f' -> f x <> 0 ->
  derives (fun u => rpow (f u) (IZR n)) x (atom_pow_ac RD (f x, f') (IZR n)).
Proof. intros. unfold atom_pow_ac. destruct (atom_power RD (f x, f') (IZR n)) eqn:E. rewrite <- E. now apply power_rule_int. Qed.

(* u |-> f(u) ** g(u), positive base *)
Lemma pow_aa_rule : forall (f g : R -> R) (x f' g' : R), is_derive f x f' -> is_derive g x g' -> 0 < f x ->
  derives (fun u => rpow (f u) (g u)) x (atom_pow_aa RD (f x, f') (g x, g')).
Proof.
  intros f g x f' g' Hf Hg Hpos.
  split; [ reflexivity | ].
  apply (is_derive_ext_loc (fun u => exp (g u * ln (f u)))).
  - generalize (locally_pos f x f' Hf Hpos). apply filter_imp. intros u Hu. symmetry. now apply rpow_pos.
  - cbn -[rpow]. rewrite !rpow_pos by assumption.
    ad_start; [ ad_conds | known f x f' Hf; known g x g' Hg ].
    unfold Rminus. rewrite Rpower_plus, Rpower_Ropp, Rpower_1 by lra. unfold Rpower. fieldR. lra.
Qed.

Lemma log_rule : forall (f : R -> R) (x f' : R), is_derive f x f' -> 0 < f x -> derives (fun u => ln (f u)) x (atom_log RD (f x, f')).
Proof. rule_start. ad_start; [ ad_conds | known f x f' H; fieldR; lra ]. Qed.

Lemma exp_rule : forall (f : R -> R) (x f' : R), is_derive f x f' -> derives (fun u => exp (f u)) x (atom_exp RD (f x, f')).
Proof. rule_start. rule1 f x f' H. Qed.

Lemma sqrt_rule : forall (f : R -> R) (x f' : R), is_derive f x f' -> 0 < f x -> derives (fun u => sqrt (f u)) x (atom_sqrt RD (f x, f')).
Proof.
  rule_start. eapply is_derive_eq; [ apply (is_derive_sqrt f x f' H H0) | ].
  assert (sqrt (f x) <> 0) by (apply Rgt_not_eq, sqrt_lt_R0; assumption).
  fieldR. assumption.
Qed.

Lemma logistic_rule : forall (f : R -> R) (x f' : R), is_derive f x f' -> derives (fun u => expit (f u)) x (atom_logistic RD (f x, f')).
Proof.
  rule_start. unfold expit.
  assert (0 < exp (- f x)) by apply exp_pos.
  ad_start; [ ad_conds | known f x f' H; fieldR; lra ].
Qed.

(* maximum(f, c) and maximum(f, g), away from the kink *)
Ltac cmp_simpl a b :=
  rewrite ?(Rltb_true a b) by lra; rewrite ?(Rltb_false a b) by lra;
  rewrite ?(Rltb_true b a) by lra; rewrite ?(Rltb_false b a) by lra;
  rewrite ?(Reqb_false a b) by lra; rewrite ?(Reqb_true a b) by lra.

Lemma maximum_aa_value : forall v d w e : R, fst (atom_maximum_aa RD (v, d) (w, e)) = Rmax v w.
Proof.
  intros. cbn -[Rltb Reqb]. unfold Rmax. destruct (Rle_dec v w) as [H | H].
  - destruct (Req_EM_T v w) as [-> | Hne]; [ cmp_simpl w w; reflexivity | cmp_simpl v w; reflexivity ].
  - cmp_simpl v w. reflexivity.
Qed.

Lemma maximum_ac_value : forall v d c : R, fst (atom_maximum_ac RD (v, d) c) = Rmax v c.
Proof.
  intros. cbn -[Rltb Reqb]. unfold Rmax. destruct (Rle_dec v c) as [H | H].
  - destruct (Req_EM_T v c) as [-> | Hne]; [ cmp_simpl c c; reflexivity | cmp_simpl v c; reflexivity ].
  - cmp_simpl v c. reflexivity.
Qed.

Lemma maximum_aa_rule : forall (f g : R -> R) (x f' g' : R), is_derive f x f' -> is_derive g x g' -> f x <> g x ->
  derives (fun u => Rmax (f u) (g u)) x (atom_maximum_aa RD (f x, f') (g x, g')).
Proof.
  intros f g x f' g' Hf Hg Hne. split; [ apply maximum_aa_value | ].
  destruct (Rlt_dec (f x) (g x)) as [Hlt | Hnlt].
  - apply (is_derive_ext_loc g).
    + generalize (locally_lt f g x f' g' Hf Hg Hlt). apply filter_imp. intros u Hu.
      symmetry. apply Rmax_right. lra.
    + cbn -[Rltb Reqb]. cmp_simpl (f x) (g x). eapply is_derive_eq; [ exact Hg | ringR ].
  - assert (Hgt : g x < f x) by lra.
    apply (is_derive_ext_loc f).
    + generalize (locally_lt g f x g' f' Hg Hf Hgt). apply filter_imp. intros u Hu.
      symmetry. apply Rmax_left. lra.
    + cbn -[Rltb Reqb]. cmp_simpl (f x) (g x). eapply is_derive_eq; [ exact Hf | ringR ].
Qed.

Lemma maximum_ac_rule : forall (f : R -> R) (x f' c : R), is_derive f x f' -> f x <> c ->
  derives (fun u => Rmax (f u) c) x (atom_maximum_ac RD (f x, f') c).
Proof.
  intros f x f' c Hf Hne. split; [ apply maximum_ac_value | ].
  assert (Hc : is_derive (fun _ : R => c) x 0) by apply is_derive_const_R.
  destruct (Rlt_dec (f x) c) as [Hlt | Hnlt].
  - apply (is_derive_ext_loc (fun _ => c)).
    + generalize (locally_lt f (fun _ => c) x f' 0 Hf Hc Hlt). apply filter_imp. intros u Hu.
      symmetry. apply Rmax_right. lra.
    + cbn -[Rltb Reqb]. cmp_simpl (f x) c. eapply is_derive_eq; [ exact Hc | ringR ].
  - assert (Hgt : c < f x) by lra.
    apply (is_derive_ext_loc f).
    + generalize (locally_lt (fun _ => c) f x 0 f' Hc Hf Hgt). apply filter_imp. intros u Hu.
      symmetry. apply Rmax_left. lra.
    + cbn -[Rltb Reqb]. cmp_simpl (f x) c. eapply is_derive_eq; [ exact Hf | ringR ].
Qed.

(* minimum: `adaptations.py` dispatches to a method called "minimum"; class Atom spells its method
   "mininum", so an Atom argument reaches numpy.minimum, which raises TypeError: rejected.  The text of
   that method (regenerated as atom_minimum_aa, atom_minimum_ac) is (-x).maximum(-c) = -min(x, c): were it reachable under
   the offered name, it would have to be the derivative of min; this lemma is what forces that. *)
Definition minimum_is_method : bool := is_method (fn2_name FMinimum).

Lemma Rmin_opp_max : forall a b, Rmin a b = - Rmax (- a) (- b).
Proof. intros. unfold Rmin, Rmax. destruct (Rle_dec a b), (Rle_dec (- a) (- b)); lra. Qed.

Lemma minimum_rule_or_unreachable :
  minimum_is_method = false \/
  ((forall (f g : R -> R) (x f' g' : R), is_derive f x f' -> is_derive g x g' -> f x <> g x ->
      derives (fun u => Rmin (f u) (g u)) x (atom_minimum_aa RD (f x, f') (g x, g'))) /\
   (forall (f : R -> R) (x f' c : R), is_derive f x f' -> f x <> c ->
      derives (fun u => Rmin (f u) c) x (atom_minimum_ac RD (f x, f') c))).
Proof.
  first
  [ left; reflexivity
  | right; split;
    [ intros f g x f' g' Hf Hg Hne;
      assert (Hf' : is_derive (fun u => - f u) x (- f')) by (apply (neg_rule f x f' Hf));
      assert (Hg' : is_derive (fun u => - g u) x (- g')) by (apply (neg_rule g x g' Hg));
      destruct (maximum_aa_rule _ _ x _ _ Hf' Hg' ltac:(lra)) as [V D];
      split;
      [ rewrite Rmin_opp_max; cbn -[Rltb Reqb atom_maximum_aa] in *; rewrite <- V; reflexivity
      | apply (is_derive_ext (fun u => - Rmax (- f u) (- g u)));
        [ intros u; symmetry; apply Rmin_opp_max
        | apply (neg_rule _ x _ D) ] ]
    | intros f x f' c Hf Hne;
      assert (Hf' : is_derive (fun u => - f u) x (- f')) by (apply (neg_rule f x f' Hf));
      destruct (maximum_ac_rule _ x _ (- c) Hf' ltac:(lra)) as [V D];
      split;
      [ rewrite Rmin_opp_max; cbn -[Rltb Reqb atom_maximum_ac] in *; rewrite <- V; reflexivity
      | apply (is_derive_ext (fun u => - Rmax (- f u) (- c)));
        [ intros u; symmetry; apply Rmin_opp_max
        | apply (neg_rule _ x _ D) ] ] ] ].
Qed.

(* ------------------------------------------------------------------------------ *)
(* the tree evaluator computes value and derivative of the residual                *)
(* ------------------------------------------------------------------------------ *)

Lemma derives_ext : forall (F G : R -> R) x d, (forall u, F u = G u) -> derives F x d -> derives G x d.
Proof.
  intros F G x d E [V D]. split; [ now rewrite <- E | now apply (is_derive_ext F G) ].
Qed.

Lemma derives_eta : forall (F : R -> R) x (d : dualR), derives F x d -> d = (F x, snd d).
Proof. intros F x [v d'] [V _]. simpl in *. now subst. Qed.

Lemma novars_not_atom : forall rho sd lg (t : tree RD), novars t = true ->
  match eval RD rho sd lg t with VA _ => False | _ => True end.
Proof.
  intros rho sd lg t. induction t as [c | q s | a IHa | a IHa | o a IHa b IHb | f a IHa | f a IHa b IHb | f a IHa];
    simpl; intros H; try discriminate; try exact I.
  - specialize (IHa H). destruct (eval RD rho sd lg a); auto.
  - specialize (IHa H). destruct (eval RD rho sd lg a); auto.
  - apply andb_prop in H as [H1 H2]. specialize (IHa H1). specialize (IHb H2).
    destruct (eval RD rho sd lg a), (eval RD rho sd lg b); simpl; auto; contradiction.
  - specialize (IHa H). destruct (eval RD rho sd lg a); simpl; auto; contradiction.
  - apply andb_prop in H as [H1 H2]. specialize (IHa H1). specialize (IHb H2).
    destruct (eval RD rho sd lg a), (eval RD rho sd lg b); simpl; auto; contradiction.
  - specialize (IHa H). destruct (eval RD rho sd lg a); simpl; auto; contradiction.
Qed.

Section EvalCorrect.
Variable gam : R -> token -> R.     (* a curve of evaluation points *)
Variable sd : token -> R.           (* Atom._diff of each token *)
Variable lg : Z -> bool.
Variable s0 : R.

Definition leaf_ok (v : token) : Prop :=
  is_derive (fun u => gam u v) s0 (atom_diff RD (lg (fst v)) (gam s0 v) (sd v)).

Definition result_ok (t : tree RD) (v : val RD) : Prop :=
  match v with
  | VRej => True                                        (* TypeError: nothing is computed *)
  | VC c => forall rho, den t rho = c                    (* a plain number *)
  | VA d => derives (fun u => den t (gam u)) s0 d        (* value and derivative along the curve *)
  end.

Ltac split_ih IH v d' Hd :=
  let V := fresh "V" in destruct IH as [V Hd]; destruct v as [v d']; simpl in V, Hd; subst v.

Lemma bop_correct : forall o (a b : tree RD),
  adm (TBin o a b) (gam s0) ->
  result_ok a (eval RD (gam s0) sd lg a) -> result_ok b (eval RD (gam s0) sd lg b) ->
  result_ok (TBin o a b) (eval RD (gam s0) sd lg (TBin o a b)).
Proof.
  intros o a b Hadm IHa IHb. simpl eval.
  pose proof (novars_not_atom (gam s0) sd lg b) as Hnv.
  destruct (eval RD (gam s0) sd lg a) as [ca | da | ], (eval RD (gam s0) sd lg b) as [cb | db | ];
    simpl apply_bop; try exact I; simpl in IHa, IHb.
  - (* number op number *)
    intros rho. simpl. rewrite IHa, IHb. destruct o; reflexivity.
  - (* number op Atom: reflected operators *)
    split_ih IHb db db' Hb.
    destruct o; simpl in Hadm; unfold atom_bop_ca.
    + apply (derives_ext (fun u => ca + den b (gam u))); [ intros; simpl; now rewrite IHa | ].
      apply (radd_rule (fun u => den b (gam u)) s0 db' ca Hb).
    + apply (derives_ext (fun u => ca - den b (gam u))); [ intros; simpl; now rewrite IHa | ].
      apply (rsub_rule (fun u => den b (gam u)) s0 db' ca Hb).
    + apply (derives_ext (fun u => ca * den b (gam u))); [ intros; simpl; now rewrite IHa | ].
      apply (rmul_rule (fun u => den b (gam u)) s0 db' ca Hb).
    + apply (derives_ext (fun u => ca / den b (gam u))); [ intros; simpl; now rewrite IHa | ].
      apply (rtruediv_rule (fun u => den b (gam u)) s0 db' ca Hb). tauto.
    + (* number ** Atom: class Atom has no __rpow__ (Python raises TypeError), or its rule is correct *)
      destruct has_rpow eqn:Erp; [ | exact I ].
      destruct rpow_rule_or_absent as [Habs | Hrule]; [ congruence | ].
      apply (derives_ext (fun u => rpow ca (den b (gam u)))); [ intros; simpl; now rewrite IHa | ].
      destruct Hadm as (_ & _ & [Hpos | (_ & Hn & _)]).
      * rewrite IHa in Hpos. apply (Hrule (fun u => den b (gam u)) s0 db' ca Hb Hpos).
      * exfalso. exact (Hnv Hn).
  - (* Atom op number *)
    split_ih IHa da da' Ha.
    destruct o; simpl in Hadm; unfold atom_bop_ac.
    + apply (derives_ext (fun u => den a (gam u) + cb)); [ intros; simpl; now rewrite IHb | ].
      apply (add_ac_rule (fun u => den a (gam u)) s0 da' cb Ha).
    + apply (derives_ext (fun u => den a (gam u) - cb)); [ intros; simpl; now rewrite IHb | ].
      apply (sub_ac_rule (fun u => den a (gam u)) s0 da' cb Ha).
    + apply (derives_ext (fun u => den a (gam u) * cb)); [ intros; simpl; now rewrite IHb | ].
      apply (mul_ac_rule (fun u => den a (gam u)) s0 da' cb Ha).
    + apply (derives_ext (fun u => den a (gam u) / cb)); [ intros; simpl; now rewrite IHb | ].
      apply (truediv_ac_rule (fun u => den a (gam u)) s0 da' cb Ha).
    + apply (derives_ext (fun u => rpow (den a (gam u)) cb)); [ intros; simpl; now rewrite IHb | ].
      destruct Hadm as (_ & _ & [Hpos | (Hnz & _ & n & Hn)]).
      * apply (pow_ac_rule_pos (fun u => den a (gam u)) s0 da' cb Ha Hpos).
      * rewrite IHb in Hn. subst cb.
        apply (pow_ac_rule_int (fun u => den a (gam u)) s0 da' n Ha Hnz).
  - (* Atom op Atom *)
    split_ih IHa da da' Ha. split_ih IHb db db' Hb.
    destruct o; simpl in Hadm; unfold atom_bop_aa.
    + apply (add_aa_rule (fun u => den a (gam u)) (fun u => den b (gam u)) s0 da' db' Ha Hb).
    + apply (sub_aa_rule (fun u => den a (gam u)) (fun u => den b (gam u)) s0 da' db' Ha Hb).
    + apply (mul_aa_rule (fun u => den a (gam u)) (fun u => den b (gam u)) s0 da' db' Ha Hb).
    + apply (truediv_aa_rule (fun u => den a (gam u)) (fun u => den b (gam u)) s0 da' db' Ha Hb). tauto.
    + destruct Hadm as (_ & _ & [Hpos | (_ & Hn & _)]).
      * apply (pow_aa_rule (fun u => den a (gam u)) (fun u => den b (gam u)) s0 da' db' Ha Hb Hpos).
      * exfalso. exact (Hnv Hn).
Qed.

Lemma fn_correct : forall f (a : tree RD),
  adm (TFun f a) (gam s0) ->
  result_ok a (eval RD (gam s0) sd lg a) ->
  result_ok (TFun f a) (eval RD (gam s0) sd lg (TFun f a)).
Proof.
  intros f a Hadm IHa. simpl eval.
  destruct (eval RD (gam s0) sd lg a) as [ca | da | ]; simpl apply_fn; try exact I; simpl in IHa.
  - intros rho. simpl. rewrite IHa. destruct f; reflexivity.
  - split_ih IHa da da' Ha.
    destruct (is_method (fn_name f)); [ | exact I ].
    destruct f; simpl in Hadm; try exact I.
    + apply (log_rule (fun u => den a (gam u)) s0 da' Ha). tauto.
    + apply (exp_rule (fun u => den a (gam u)) s0 da' Ha).
    + apply (sqrt_rule (fun u => den a (gam u)) s0 da' Ha). tauto.
    + apply (logistic_rule (fun u => den a (gam u)) s0 da' Ha).
Qed.

Lemma fn2_correct : forall f (a b : tree RD),
  adm (TFun2 f a b) (gam s0) ->
  result_ok a (eval RD (gam s0) sd lg a) -> result_ok b (eval RD (gam s0) sd lg b) ->
  result_ok (TFun2 f a b) (eval RD (gam s0) sd lg (TFun2 f a b)).
Proof.
  intros f a b Hadm IHa IHb. simpl eval. simpl in Hadm. destruct Hadm as (_ & _ & Hne).
  destruct (eval RD (gam s0) sd lg a) as [ca | da | ], (eval RD (gam s0) sd lg b) as [cb | db | ];
    simpl apply_fn2; try exact I; simpl in IHa, IHb.
  - intros rho. simpl. rewrite IHa, IHb. destruct f; reflexivity.
  - split_ih IHa da da' Ha.
    destruct (is_method (fn2_name f)) eqn:E; [ | exact I ].
    rewrite IHb in Hne.
    destruct f; unfold atom_fn2_ac.
    + apply (derives_ext (fun u => Rmax (den a (gam u)) cb)); [ intros; simpl; now rewrite IHb | ].
      apply (maximum_ac_rule (fun u => den a (gam u)) s0 da' cb Ha Hne).
    + destruct minimum_rule_or_unreachable as [Hun | [_ Hac]];
        [ unfold minimum_is_method in Hun; congruence | ].
      apply (derives_ext (fun u => Rmin (den a (gam u)) cb)); [ intros; simpl; now rewrite IHb | ].
      apply (Hac (fun u => den a (gam u)) s0 da' cb Ha Hne).
  - split_ih IHa da da' Ha. split_ih IHb db db' Hb.
    destruct (is_method (fn2_name f)) eqn:E; [ | exact I ].
    destruct f; unfold atom_fn2_aa.
    + apply (maximum_aa_rule (fun u => den a (gam u)) (fun u => den b (gam u)) s0 da' db' Ha Hb Hne).
    + destruct minimum_rule_or_unreachable as [Hun | [Haa _]];
        [ unfold minimum_is_method in Hun; congruence | ].
      apply (Haa (fun u => den a (gam u)) (fun u => den b (gam u)) s0 da' db' Ha Hb Hne).
Qed.

Lemma fn2d_correct : forall f (a : tree RD),
  adm (TFun2d f a) (gam s0) ->
  result_ok a (eval RD (gam s0) sd lg a) ->
  result_ok (TFun2d f a) (eval RD (gam s0) sd lg (TFun2d f a)).
Proof.
  intros f a Hadm IHa. simpl eval. simpl in Hadm. destruct Hadm as (_ & Hne).
  destruct (eval RD (gam s0) sd lg a) as [ca | da | ]; simpl apply_fn2d; try exact I; simpl in IHa.
  split_ih IHa da da' Ha.
  destruct (is_method (fn2_name f)) eqn:E; [ | exact I ].
  destruct f; unfold atom_fn2_ac.
  - apply (maximum_ac_rule (fun u => den a (gam u)) s0 da' _ Ha Hne).
  - destruct minimum_rule_or_unreachable as [Hun | [_ Hac]];
      [ unfold minimum_is_method in Hun; congruence | ].
    apply (Hac (fun u => den a (gam u)) s0 da' _ Ha Hne).
Qed.

Lemma adm_sub : forall o (a b : tree RD) rho, adm (TBin o a b) rho -> adm a rho /\ adm b rho.
Proof. intros o a b rho H. destruct o; simpl in H; tauto. Qed.
Lemma adm_fn_sub : forall f (a : tree RD) rho, adm (TFun f a) rho -> adm a rho.
Proof. intros f a rho H. destruct f; simpl in H; tauto. Qed.

(* MAIN: for every expression tree, every differentiable curve of evaluation points through an
   admissible point and every seed assignment that is the derivative of the curve (through Atom.diff),
   the evaluator returns the value of the residual and its derivative along the curve - or rejects. *)
Theorem eval_correct : forall t : tree RD,
  (forall v, In v (vars RD t) -> leaf_ok v) ->
  adm t (gam s0) ->
  result_ok t (eval RD (gam s0) sd lg t).
Proof.
  induction t as [c | q s | a IHa | a IHa | o a IHa b IHb | f a IHa | f a IHa b IHb | f a IHa];
    intros Hl Hadm.
  - simpl. intros rho. reflexivity.
  - simpl. split; [ reflexivity | ]. simpl. apply (Hl (q, s)). simpl. auto.
  - simpl in *. specialize (IHa Hl Hadm).
    destruct (eval RD (gam s0) sd lg a) as [ca | da | ]; simpl in *; auto.
  - simpl in *. specialize (IHa Hl Hadm).
    destruct (eval RD (gam s0) sd lg a) as [ca | da | ]; simpl in *; auto.
    + intros rho. now rewrite IHa.
    + destruct IHa as [V D]. destruct da as [v d']. simpl in V, D. subst v.
      apply (neg_rule (fun u => den a (gam u)) s0 d' D).
  - destruct (adm_sub _ _ _ _ Hadm) as [A1 A2].
    apply bop_correct; [ assumption | apply IHa | apply IHb ]; try assumption;
      intros v Hv; apply Hl; simpl; rewrite in_app_iff; auto.
  - apply fn_correct; [ assumption | apply IHa; [ exact Hl | exact (adm_fn_sub _ _ _ Hadm) ] ].
  - simpl in Hadm. destruct Hadm as (A1 & A2 & Hne).
    apply fn2_correct; [ simpl; tauto | apply IHa | apply IHb ]; try assumption;
      intros v Hv; apply Hl; simpl; rewrite in_app_iff; auto.
  - simpl in Hadm. destruct Hadm as (A1 & Hne).
    apply fn2d_correct; [ simpl; tauto | apply IHa; assumption ].
Qed.

End EvalCorrect.

(* ------------------------------------------------------------------------------ *)
(* partial derivatives: plain tokens, log-variables, steady level and change       *)
(* ------------------------------------------------------------------------------ *)

Lemma token_eqb_eq : forall a b : token, token_eqb a b = true <-> a = b.
Proof.
  intros [q s] [q' s']. unfold token_eqb. simpl. rewrite andb_true_iff, !Z.eqb_eq.
  split; [ intros [-> ->]; reflexivity | intros E; inversion E; auto ].
Qed.

Lemma token_eqb_refl : forall a, token_eqb a a = true.
Proof. intros. now apply token_eqb_eq. Qed.

Lemma token_eqb_neq : forall a b : token, token_eqb a b = false <-> a <> b.
Proof.
  intros a b. split.
  - intros E H. apply token_eqb_eq in H. congruence.
  - intros H. destruct (token_eqb a b) eqn:E; [ apply token_eqb_eq in E; contradiction | reflexivity ].
Qed.

Lemma upd_same : forall rho v, upd rho v (rho v) = rho.
Proof.
  intros rho v. apply functional_extensionality. intros w. unfold upd.
  destruct (token_eqb w v) eqn:E; [ apply token_eqb_eq in E; now subst | reflexivity ].
Qed.

Lemma atom_diff_zero : forall b v, atom_diff RD b v 0 = 0.
Proof. intros [|] v; unfold atom_diff; simpl; ring. Qed.

Lemma is_derive_id_R : forall x : R, is_derive (fun u : R => u) x 1.
Proof. intros x. exact (@is_derive_id R_AbsRing x). Qed.

(* the derivative seed used for the k-th component of the diff vectors: 1 on the k-th wrt token *)
Lemma ind_same : forall v, ind RD v v = 1.
Proof. intros v. unfold ind. now rewrite token_eqb_refl. Qed.
Lemma ind_other : forall v w, w <> v -> ind RD v w = 0.
Proof. intros v w H. unfold ind. apply token_eqb_neq in H. now rewrite H. Qed.

(* 1. w.r.t. an occurrence of a variable that is not a log-variable *)
Theorem partial_plain : forall (t : tree RD) (rho : token -> R) (lg : Z -> bool) (v : token),
  lg (fst v) = false -> adm t rho ->
  result_ok (fun u => upd rho v u) (rho v) t (eval RD rho (ind RD v) lg t).
Proof.
  intros t rho lg v Hlg Hadm.
  pose proof (eval_correct (fun u => upd rho v u) (ind RD v) lg (rho v) t) as H.
  rewrite upd_same in H. apply H; [ | assumption ].
  intros w _. unfold leaf_ok. rewrite upd_same.
  destruct (token_eqb w v) eqn:E.
  - apply token_eqb_eq in E. subst w. rewrite Hlg, ind_same. unfold atom_diff. simpl.
    apply (is_derive_ext (fun u : R => u)); [ intros u; unfold upd; now rewrite token_eqb_refl | apply is_derive_id_R ].
  - assert (Hne : w <> v) by now apply token_eqb_neq.
    rewrite (ind_other v w Hne), atom_diff_zero.
    apply (is_derive_ext (fun _ : R => rho w)); [ intros u; unfold upd; now rewrite E | apply is_derive_const_R ].
Qed.

(* 2. w.r.t. the logarithm of an occurrence of a log-variable *)
Theorem partial_log : forall (t : tree RD) (rho : token -> R) (lg : Z -> bool) (v : token),
  lg (fst v) = true -> 0 < rho v -> adm t rho ->
  result_ok (fun u => upd rho v (exp u)) (ln (rho v)) t (eval RD rho (ind RD v) lg t).
Proof.
  intros t rho lg v Hlg Hpos Hadm.
  pose proof (eval_correct (fun u => upd rho v (exp u)) (ind RD v) lg (ln (rho v)) t) as H.
  cbv beta in H. rewrite (exp_ln _ Hpos), upd_same in H. apply H; [ | assumption ].
  intros w _. unfold leaf_ok. cbv beta. rewrite (exp_ln _ Hpos), upd_same.
  destruct (token_eqb w v) eqn:E.
  - apply token_eqb_eq in E. subst w. rewrite Hlg, ind_same. unfold atom_diff. simpl.
    apply (is_derive_ext exp); [ intros u; unfold upd; now rewrite token_eqb_refl | ].
    eapply is_derive_eq; [ apply is_derive_exp | rewrite (exp_ln _ Hpos); ringR ].
  - assert (Hne : w <> v) by now apply token_eqb_neq.
    rewrite (ind_other v w Hne), atom_diff_zero.
    apply (is_derive_ext (fun _ : R => rho w)); [ intros u; unfold upd; now rewrite E | apply is_derive_const_R ].
Qed.

(* 3. steady state: the data are a path  level + shift * change  (exponentiated for log-variables); the
      unknowns are the (log) level and the (log) change of each quantity; all lags and leads move together *)
Definition steady_path (lg : Z -> bool) (lev chg : Z -> R) : token -> R :=
  fun w => let y := lev (fst w) + IZR (snd w) * chg (fst w) in if lg (fst w) then exp y else y.
Definition updz (f : Z -> R) (q : Z) (u : R) : Z -> R := fun p => if Z.eqb p q then u else f p.

Lemma updz_same : forall f q, updz f q (f q) = f.
Proof.
  intros f q. apply functional_extensionality. intros p. unfold updz.
  destruct (Z.eqb p q) eqn:E; [ apply Z.eqb_eq in E; now subst | reflexivity ].
Qed.

Theorem steady_level_correct : forall (t : tree RD) (lg : Z -> bool) (lev chg : Z -> R) (q0 : Z),
  adm t (steady_path lg lev chg) ->
  result_ok (fun u => steady_path lg (updz lev q0 u) chg) (lev q0) t
            (eval RD (steady_path lg lev chg) (seed_level RD q0) lg t).
Proof.
  intros t lg lev chg q0 Hadm.
  pose proof (eval_correct (fun u => steady_path lg (updz lev q0 u) chg) (seed_level RD q0) lg (lev q0) t) as H.
  cbv beta in H. rewrite updz_same in H. apply H; [ | assumption ].
  intros [q s] _. unfold leaf_ok. cbv beta. rewrite updz_same. unfold steady_path, seed_level, updz. simpl.
  destruct (Z.eqb q q0) eqn:E.
  - apply Z.eqb_eq in E. subst q. destruct (lg q0); unfold atom_diff; simpl.
    + ad_start; [ ad_conds | ringR ].
    + ad_start; [ ad_conds | ringR ].
  - rewrite atom_diff_zero. apply is_derive_const_R.
Qed.

Theorem steady_change_correct : forall (t : tree RD) (lg : Z -> bool) (lev chg : Z -> R) (q0 : Z),
  adm t (steady_path lg lev chg) ->
  result_ok (fun u => steady_path lg lev (updz chg q0 u)) (chg q0) t
            (eval RD (steady_path lg lev chg) (seed_change RD q0) lg t).
Proof.
  intros t lg lev chg q0 Hadm.
  pose proof (eval_correct (fun u => steady_path lg lev (updz chg q0 u)) (seed_change RD q0) lg (chg q0) t) as H.
  cbv beta in H. rewrite updz_same in H. apply H; [ | assumption ].
  intros [q s] _. unfold leaf_ok. cbv beta. rewrite updz_same. unfold steady_path, seed_change, updz. simpl.
  destruct (Z.eqb q q0) eqn:E.
  - apply Z.eqb_eq in E. subst q. destruct (lg q0); unfold atom_diff; simpl.
    + ad_start; [ ad_conds | ringR ].
    + ad_start; [ ad_conds | ringR ].
  - rewrite atom_diff_zero. apply is_derive_const_R.
Qed.

(* an equation does not depend on tokens that do not occur in it: those derivatives are 0 *)
Lemma den_ext : forall (t : tree RD) rho rho', (forall v, In v (vars RD t) -> rho v = rho' v) -> den t rho = den t rho'.
Proof.
  induction t as [c | q s | a IHa | a IHa | o a IHa b IHb | f a IHa | f a IHa b IHb | f a IHa]; intros rho rho' H; simpl.
  - reflexivity.
  - apply H. simpl. auto.
  - now apply IHa.
  - f_equal. now apply IHa.
  - rewrite (IHa rho rho'), (IHb rho rho'); [ reflexivity | | ]; intros v Hv; apply H; simpl; rewrite in_app_iff; auto.
  - f_equal. now apply IHa.
  - rewrite (IHa rho rho'), (IHb rho rho'); [ reflexivity | | ]; intros v Hv; apply H; simpl; rewrite in_app_iff; auto.
  - f_equal. now apply IHa.
Qed.

Theorem partial_absent : forall (t : tree RD) rho v (g : R -> R) x, ~ In v (vars RD t) ->
  is_derive (fun u => den t (upd rho v (g u))) x 0.
Proof.
  intros t rho v g x Hn.
  apply (is_derive_ext (fun _ : R => den t rho)); [ | apply is_derive_const_R ].
  intros u. apply den_ext. intros w Hw. unfold upd.
  destruct (token_eqb w v) eqn:E; [ apply token_eqb_eq in E; subst; contradiction | reflexivity ].
Qed.

(* ------------------------------------------------------------------------------ *)
(* placement: ArrayMap.static + `M[lhs] = td[rhs]` put each derivative in its cell  *)
(* ------------------------------------------------------------------------------ *)

Local Close Scope R_scope.
Local Open Scope nat_scope.

Section Placement.
Context {V : Type}.
Variable zero : V.
Variable td : nat -> nat -> V.

Definition lhs_of (e : entry) : nat * nat := let '(lr, lc, _, _) := e in (lr, lc).

Lemma hits_iff : forall r c e, hits r c e = true <-> lhs_of e = (r, c).
Proof.
  intros r c [[[lr lc] rr] rc]. unfold hits, lhs_of. rewrite andb_true_iff, !Nat.eqb_eq.
  split; [ intros [-> ->]; reflexivity | intros E; inversion E; auto ].
Qed.

(* a map in which no cell is written twice *)
Definition functional (entries : list entry) : Prop :=
  forall e1 e2, In e1 entries -> In e2 entries -> lhs_of e1 = lhs_of e2 -> e1 = e2.

Lemma cell_hit : forall entries lr lc rr rc, functional entries -> In (lr, lc, rr, rc) entries ->
  cell zero td entries lr lc = td rr rc.
Proof.
  intros entries lr lc rr rc F Hin. unfold cell.
  destruct (find (hits lr lc) (rev entries)) as [e | ] eqn:E.
  - apply find_some in E as [Hin' Hh]. apply in_rev in Hin'. apply hits_iff in Hh.
    assert (e = (lr, lc, rr, rc)) by (apply F; auto). subst e. reflexivity.
  - exfalso. assert (Hh : hits lr lc (lr, lc, rr, rc) = false).
    { apply (find_none _ _ E). now apply in_rev in Hin. }
    assert (Ht : hits lr lc (lr, lc, rr, rc) = true) by (apply hits_iff; reflexivity).
    congruence.
Qed.

Lemma cell_miss : forall entries r c, (forall e, In e entries -> lhs_of e <> (r, c)) -> cell zero td entries r c = zero.
Proof.
  intros entries r c H. unfold cell.
  destruct (find (hits r c) (rev entries)) as [e | ] eqn:E; [ | reflexivity ].
  apply find_some in E as [Hin Hh]. apply in_rev in Hin. apply hits_iff in Hh. exfalso. exact (H e Hin Hh).
Qed.
End Placement.

(* column lookup: the column recorded for a token holds that token *)
Lemma col_from_sound : forall cols i t c, col_from cols i t = Some c ->
  i <= c /\ nth_error cols (c - i) = Some (Some t).
Proof.
  induction cols as [ | x r IH]; intros i t c H; simpl in H; [ discriminate | ].
  destruct (col_from r (S i) t) as [j | ] eqn:E.
  - inversion H; subst j. destruct (IH _ _ _ E) as [L N]. split; [ lia | ].
    replace (c - i) with (S (c - S i)) by lia. exact N.
  - destruct x as [u | ]; simpl in H; [ | discriminate ].
    destruct (token_eqb u t) eqn:Eq; [ | discriminate ].
    inversion H; subst c. apply token_eqb_eq in Eq. subst u. split; [ lia | ]. now rewrite Nat.sub_diag.
Qed.

Lemma col_of_sound : forall cols t c, col_of cols t = Some c -> nth_error cols c = Some (Some t).
Proof. intros cols t c H. apply col_from_sound in H as [_ N]. now rewrite Nat.sub_0_r in N. Qed.

Lemma col_from_complete : forall cols i t, In (Some t) cols -> exists c, col_from cols i t = Some c.
Proof.
  induction cols as [ | x r IH]; intros i t H; simpl in H; [ contradiction | ]. simpl.
  destruct (col_from r (S i) t) as [j | ] eqn:E; [ eauto | ].
  destruct H as [-> | H].
  - simpl. rewrite token_eqb_refl. eauto.
  - destruct (IH (S i) t H) as [c Hc]. congruence.
Qed.

Lemma col_of_none : forall cols t, col_of cols t = None -> ~ In (Some t) cols.
Proof. intros cols t H Hin. destruct (col_from_complete cols 0 t Hin) as [c Hc]. unfold col_of in H. congruence. Qed.

Lemma col_of_inj : forall cols t u c, col_of cols t = Some c -> col_of cols u = Some c -> t = u.
Proof. intros cols t u c H1 H2. apply col_of_sound in H1, H2. congruence. Qed.

(* which entries a single equation contributes *)
Lemma raw_map_single_In : forall toks cols rhs_row lhs_row rcol off lr lc rr rc,
  In (lr, lc, rr, rc) (raw_map_single toks cols rhs_row lhs_row rcol off) <->
  lr = lhs_row /\ rc = rcol /\
  exists k t c, nth_error toks k = Some t /\ col_of cols t = Some c /\ lc = off + c /\ rr = rhs_row + k.
Proof.
  induction toks as [ | x r IH]; intros cols rhs_row lhs_row rcol off lr lc rr rc; simpl.
  - split; [ contradiction | intros (_ & _ & k & t & c & H & _) ]. destruct k; discriminate.
  - destruct (col_of cols x) as [cx | ] eqn:E; simpl; rewrite IH; split.
    + intros [H | (-> & -> & k & t & c & Hk & Hc & -> & ->)].
      * inversion H; subst. repeat split; auto. exists 0, x, cx. simpl. repeat split; auto; lia.
      * repeat split; auto. exists (S k), t, c. simpl. repeat split; auto; lia.
    + intros (-> & -> & k & t & c & Hk & Hc & -> & ->). destruct k as [ | k]; simpl in Hk.
      * inversion Hk; subst t. rewrite E in Hc. inversion Hc; subst c. left. now rewrite Nat.add_0_r.
      * right. repeat split; auto. exists k, t, c. repeat split; auto; lia.
    + intros (-> & -> & k & t & c & Hk & Hc & -> & ->).
      repeat split; auto. exists (S k), t, c. simpl. repeat split; auto; lia.
    + intros (-> & -> & k & t & c & Hk & Hc & -> & ->). destruct k as [ | k]; simpl in Hk.
      * inversion Hk; subst t. congruence.
      * repeat split; auto. exists k, t, c. repeat split; auto; lia.
Qed.

Lemma static_from_In : forall m offs cols rcol off eids row0 lr lc rr rc,
  In (lr, lc, rr, rc) (static_from m offs cols rcol off eids row0) <->
  exists i eid, nth_error eids i = Some eid /\ lr = row0 + i /\ rc = rcol /\
  exists k t c, nth_error (wrt_of m eid) k = Some t /\ col_of cols t = Some c /\ lc = off + c /\
                rr = offset_of offs eid + k.
Proof.
  intros m offs cols rcol off eids. induction eids as [ | e r IH]; intros row0 lr lc rr rc; simpl.
  - split; [ contradiction | intros (i & eid & H & _) ]. destruct i; discriminate.
  - rewrite in_app_iff, raw_map_single_In, IH. split.
    + intros [(-> & -> & R) | (i & eid & Hi & -> & -> & R)].
      * exists 0, e. simpl. repeat split; auto; lia.
      * exists (S i), eid. simpl. repeat split; auto; lia.
    + intros (i & eid & Hi & -> & -> & R). destruct i as [ | i]; simpl in Hi.
      * inversion Hi; subst eid. left. repeat split; auto; lia.
      * right. exists i, eid. repeat split; auto; lia.
Qed.

Lemma NoDup_nth_error_inj : forall {T} (l : list T) i j x, NoDup l -> nth_error l i = Some x -> nth_error l j = Some x -> i = j.
Proof.
  intros T l i j x ND Hi Hj. rewrite NoDup_nth_error in ND. apply ND; [ | congruence ].
  apply nth_error_Some. congruence.
Qed.

Lemma static_functional : forall eids m cols offs rcol off,
  (forall e, In e eids -> NoDup (wrt_of m e)) ->
  functional (array_map_static eids m cols offs rcol off).
Proof.
  intros eids m cols offs rcol off ND [[[lr lc] rr] rc] [[[lr' lc'] rr'] rc'] H1 H2 E.
  unfold lhs_of in E. inversion E; subst lr' lc'. clear E.
  unfold array_map_static in *. apply static_from_In in H1, H2.
  destruct H1 as (i & eid & Hi & Hr & -> & k & t & c & Hk & Hc & Hlc & ->).
  destruct H2 as (i' & eid' & Hi' & Hr' & -> & k' & t' & c' & Hk' & Hc' & Hlc' & ->).
  assert (i = i') by lia. subst i'. assert (eid = eid') by congruence. subst eid'.
  assert (c = c') by lia. subst c'. assert (t = t') by (eapply col_of_inj; eauto). subst t'.
  assert (k = k').
  { eapply NoDup_nth_error_inj; [ apply (ND eid) | eauto | eauto ]. eapply nth_error_In; eauto. }
  subst k'. reflexivity.
Qed.

(* THE PLACEMENT THEOREM for ArrayMap.static (A, D, F, G, J; B with its lagged columns; the steady Jacobian):
   row i belongs to equation eids[i], column off+c to the token recorded for column c; the cell holds the diff
   row of that token within that equation, and every other cell of the matrix is zero. *)
Theorem array_map_places : forall {V} (zero : V) (td : nat -> nat -> V) eids m cols offs rcol off i eid k t c,
  (forall e, In e eids -> NoDup (wrt_of m e)) ->
  nth_error eids i = Some eid -> nth_error (wrt_of m eid) k = Some t -> col_of cols t = Some c ->
  cell zero td (array_map_static eids m cols offs rcol off) i (off + c) = td (offset_of offs eid + k) rcol.
Proof.
  intros V zero td eids m cols offs rcol off i eid k t c ND Hi Hk Hc.
  apply cell_hit; [ now apply static_functional | ].
  unfold array_map_static. apply static_from_In. exists i, eid. repeat split; auto.
  exists k, t, c. repeat split; auto.
Qed.

Theorem array_map_zero_elsewhere : forall {V} (zero : V) (td : nat -> nat -> V) eids m cols offs rcol off r cc,
  (forall i eid k t c, nth_error eids i = Some eid -> nth_error (wrt_of m eid) k = Some t -> col_of cols t = Some c ->
     (r, cc) <> (i, off + c)) ->
  cell zero td (array_map_static eids m cols offs rcol off) r cc = zero.
Proof.
  intros V zero td eids m cols offs rcol off r cc H. apply cell_miss.
  intros [[[lr lc] rr] rc] Hin E. unfold lhs_of in E. inversion E; subst lr lc.
  unfold array_map_static in Hin. apply static_from_In in Hin.
  destruct Hin as (i & eid & Hi & -> & -> & k & t & c & Hk & Hc & -> & ->).
  exact (H i eid k t c Hi Hk Hc eq_refl).
Qed.

(* ---- the stacked diff array: where the rows of an equation start -------------------------------- *)
Fixpoint prefix_len (m : emap) (l : list Z) : nat :=
  match l with [] => 0 | e :: r => List.length (wrt_of m e) + prefix_len m r end.

Lemma dict_get_offsets_none : forall m l acc e, ~ In e l -> dict_get (offsets_from m l acc) e = None.
Proof.
  intros m l. induction l as [ | x r IH]; intros acc e H; simpl; [ reflexivity | ].
  rewrite IH by (intros Hin; apply H; now right).
  destruct (Z.eqb x e) eqn:E; [ apply Z.eqb_eq in E; subst; exfalso; apply H; now left | reflexivity ].
Qed.

Lemma offset_of_split : forall m l1 e l2 acc, ~ In e l2 ->
  offset_of (offsets_from m (l1 ++ e :: l2) acc) e = acc + prefix_len m l1.
Proof.
  intros m l1. induction l1 as [ | x r IH]; intros e l2 acc H; unfold offset_of in *; simpl.
  - rewrite dict_get_offsets_none by assumption. rewrite Z.eqb_refl. lia.
  - specialize (IH e l2 (acc + List.length (wrt_of m x)) H).
    destruct (dict_get (offsets_from m (r ++ e :: l2) (acc + List.length (wrt_of m x))) e) as [n | ] eqn:E.
    + lia.
    + exfalso. clear IH. revert E. generalize (acc + List.length (wrt_of m x)). induction r as [ | y r' IHr]; intros a; simpl.
      * rewrite dict_get_offsets_none by assumption. now rewrite Z.eqb_refl.
      * destruct (dict_get (offsets_from m (r' ++ e :: l2) (a + List.length (wrt_of m y))) e) eqn:E'; [ discriminate | ].
        exfalso. exact (IHr _ E').
Qed.

Section StackedRows.
Variable rho : token -> R.
Variable lg : Z -> bool.
Variable m : emap.

Lemma eq_rows_length : forall t wrt, List.length (eq_rows RD rho lg t wrt) = List.length wrt.
Proof. intros. unfold eq_rows. apply map_length. Qed.

Lemma td_rows_length : forall l : list (Z * tree RD), List.length (td_rows RD rho lg l m) = prefix_len m (map fst l).
Proof.
  induction l as [ | [e t] r IH]; [ reflexivity | ].
  unfold td_rows. cbn [flat_map map fst snd prefix_len]. rewrite app_length, eq_rows_length. f_equal. exact IH.
Qed.

Lemma td_rows_nth : forall (l1 l2 : list (Z * tree RD)) eid t k tok,
  nth_error (wrt_of m eid) k = Some tok ->
  nth (prefix_len m (map fst l1) + k) (td_rows RD rho lg (l1 ++ (eid, t) :: l2) m) (dofZ RD 0)
  = diff_of RD (eval_equation RD rho (ind RD tok) lg t).
Proof.
  intros l1 l2 eid t k tok Hk. unfold td_rows. rewrite flat_map_app. cbn [flat_map fst snd].
  assert (HA : List.length (flat_map (fun et : Z * tree RD => eq_rows RD rho lg (snd et) (wrt_of m (fst et))) l1)
               = prefix_len m (map fst l1)) by (apply td_rows_length).
  rewrite app_nth2 by lia. rewrite HA.
  replace (prefix_len m (map fst l1) + k - prefix_len m (map fst l1)) with k by lia.
  assert (Hlt : k < List.length (wrt_of m eid)) by (apply nth_error_Some; congruence).
  rewrite app_nth1 by (rewrite eq_rows_length; exact Hlt).
  unfold eq_rows.
  rewrite (nth_indep _ _ (diff_of RD (eval_equation RD rho (ind RD (0%Z, 0%Z)) lg t))) by (rewrite map_length; exact Hlt).
  rewrite (map_nth (fun tk => diff_of RD (eval_equation RD rho (ind RD tk) lg t))).
  f_equal. f_equal. f_equal. apply nth_error_nth with (d := (0%Z, 0%Z)) in Hk. now rewrite Hk.
Qed.
End StackedRows.

Lemma nth_map_seq : forall {T} (f : nat -> T) n i d, i < n -> nth i (map f (seq 0 n)) d = f i.
Proof.
  intros T f n i d H. rewrite (nth_indep _ d (f 0)) by (rewrite map_length, seq_length; exact H).
  rewrite (map_nth f (seq 0 n) 0 i). now rewrite seq_nth.
Qed.

(* entry (i, c) of a matrix of the unsolved system is the diff the evaluator computes for equation eids[i]
   with the seed on the token of column c *)
Theorem system_matrix_entry : forall rho lg (l1 l2 : list (Z * tree RD)) m eids cols i c eid t tok k,
  ~ In eid (map fst l2) ->
  (forall e, In e eids -> NoDup (wrt_of m e)) ->
  nth_error eids i = Some eid -> col_of cols tok = Some c -> nth_error (wrt_of m eid) k = Some tok ->
  nth c (nth i (system_matrix RD rho lg (l1 ++ (eid, t) :: l2) m eids cols) []) (dofZ RD 0)
  = diff_of RD (eval_equation RD rho (ind RD tok) lg t).
Proof.
  intros rho lg l1 l2 m eids cols i c eid t tok k Hnot ND Hi Hc Hk.
  unfold system_matrix.
  assert (Hil : i < List.length eids) by (apply nth_error_Some; congruence).
  assert (Hcl : c < List.length cols) by (apply nth_error_Some; rewrite (col_of_sound _ _ _ Hc); discriminate).
  rewrite (nth_map_seq _ _ _ _ Hil). rewrite (nth_map_seq _ _ _ _ Hcl).
  change c with (0 + c) at 1.
  rewrite (array_map_places _ _ eids m cols _ 0 0 i eid k tok c ND Hi Hk Hc).
  unfold create_eid_to_rhs_offset. rewrite map_app. simpl map.
  rewrite offset_of_split by assumption. simpl. unfold td_of.
  now apply td_rows_nth.
Qed.

Theorem system_matrix_zero : forall rho lg (eqs : list (Z * tree RD)) m eids cols i c eid tok,
  nth_error eids i = Some eid -> col_of cols tok = Some c -> ~ In tok (wrt_of m eid) ->
  nth c (nth i (system_matrix RD rho lg eqs m eids cols) []) (dofZ RD 0) = dofZ RD 0.
Proof.
  intros rho lg eqs m eids cols i c eid tok Hi Hc Hnot.
  unfold system_matrix.
  assert (Hil : i < List.length eids) by (apply nth_error_Some; congruence).
  assert (Hcl : c < List.length cols) by (apply nth_error_Some; rewrite (col_of_sound _ _ _ Hc); discriminate).
  rewrite (nth_map_seq _ _ _ _ Hil). rewrite (nth_map_seq _ _ _ _ Hcl).
  apply array_map_zero_elsewhere.
  intros i' eid' k t' c' Hi' Hk' Hc' E. inversion E; subst i' c'. simpl in *.
  assert (eid' = eid) by congruence. subst eid'.
  assert (t' = tok) by (eapply col_of_inj; eauto). subst t'.
  apply Hnot. eapply nth_error_In; eauto.
Qed.

Lemma system_matrix_none_column : forall rho lg (eqs : list (Z * tree RD)) m eids cols i c,
  i < List.length eids -> nth_error cols c = Some None ->
  nth c (nth i (system_matrix RD rho lg eqs m eids cols) []) (dofZ RD 0) = dofZ RD 0.
Proof.
  intros rho lg eqs m eids cols i c Hil Hn.
  unfold system_matrix.
  assert (Hcl : c < List.length cols) by (apply nth_error_Some; congruence).
  rewrite (nth_map_seq _ _ _ _ Hil). rewrite (nth_map_seq _ _ _ _ Hcl).
  apply array_map_zero_elsewhere.
  intros i' eid' k t' c' Hi' Hk' Hc' E. inversion E; subst i' c'. simpl in *.
  apply col_of_sound in Hc'. congruence.
Qed.

(* ---- stacked time: rows (period j, equation i) at i + n*j, columns = the wrt spots ----------------- *)

Lemma stacked_cols_In : forall tok cols cte eqn n rhs_row j0 lr lc rr rc,
  In (lr, lc, rr, rc) (stacked_cols tok cols cte eqn n rhs_row j0) <->
  rr = rhs_row /\ exists j col, nth_error cte j = Some col /\ col_of cols (shifted tok col) = Some lc /\
                                lr = eqn + n * (j0 + j) /\ rc = j0 + j.
Proof.
  intros tok cols cte. induction cte as [ | x r IH]; intros eqn n rhs_row j0 lr lc rr rc; simpl.
  - split; [ contradiction | intros (_ & j & col & H & _) ]. destruct j; discriminate.
  - destruct (col_of cols (shifted tok x)) as [cx | ] eqn:E; simpl; rewrite IH; split.
    + intros [H | (-> & j & col & Hj & Hc & -> & ->)].
      * inversion H; subst. split; auto. exists 0, x. simpl. rewrite Nat.add_0_r. auto.
      * split; auto. exists (S j), col. simpl. repeat split; auto; nia.
    + intros (-> & j & col & Hj & Hc & -> & ->). destruct j as [ | j]; simpl in Hj.
      * inversion Hj; subst col. rewrite E in Hc. inversion Hc; subst. left. now rewrite Nat.add_0_r.
      * right. split; auto. exists j, col. repeat split; auto; nia.
    + intros (-> & j & col & Hj & Hc & -> & ->). split; auto. exists (S j), col. simpl. repeat split; auto; nia.
    + intros (-> & j & col & Hj & Hc & -> & ->). destruct j as [ | j]; simpl in Hj.
      * inversion Hj; subst col. congruence.
      * split; auto. exists j, col. repeat split; auto; nia.
Qed.

Lemma stacked_toks_In : forall toks cols cte eqn n rhs_row lr lc rr rc,
  In (lr, lc, rr, rc) (stacked_toks toks cols cte eqn n rhs_row) <->
  exists k tok, nth_error toks k = Some tok /\ rr = rhs_row + k /\
  exists j col, nth_error cte j = Some col /\ col_of cols (shifted tok col) = Some lc /\ lr = eqn + n * j /\ rc = j.
Proof.
  induction toks as [ | x r IH]; intros cols cte eqn n rhs_row lr lc rr rc; simpl.
  - split; [ contradiction | intros (k & tok & H & _) ]. destruct k; discriminate.
  - rewrite in_app_iff, stacked_cols_In, IH. split.
    + intros [(-> & j & col & Hj & Hc & -> & ->) | (k & tok & Hk & -> & R)].
      * exists 0, x. simpl. split; auto. split; [ lia | ]. exists j, col. auto.
      * exists (S k), tok. simpl. split; auto. split; [ lia | exact R ].
    + intros (k & tok & Hk & -> & j & col & Hj & Hc & -> & ->). destruct k as [ | k]; simpl in Hk.
      * inversion Hk; subst tok. left. split; [ lia | ]. exists j, col. auto.
      * right. exists k, tok. split; auto. split; [ lia | ]. exists j, col. auto.
Qed.

Lemma stacked_from_In : forall m cols cte n eids e0 off0 lr lc rr rc,
  In (lr, lc, rr, rc) (stacked_from m cols cte n eids e0 off0) <->
  exists i eid, nth_error eids i = Some eid /\
  exists k tok, nth_error (wrt_of m eid) k = Some tok /\ rr = off0 + prefix_len m (firstn i eids) + k /\
  exists j col, nth_error cte j = Some col /\ col_of cols (shifted tok col) = Some lc /\ lr = e0 + i + n * j /\ rc = j.
Proof.
  intros m cols cte n eids. induction eids as [ | e r IH]; intros e0 off0 lr lc rr rc; simpl.
  - split; [ contradiction | intros (i & eid & H & _) ]. destruct i; discriminate.
  - rewrite in_app_iff, stacked_toks_In, IH. split.
    + intros [(k & tok & Hk & -> & j & col & Hj & Hc & -> & ->) | (i & eid & Hi & k & tok & Hk & -> & j & col & Hj & Hc & -> & ->)].
      * exists 0, e. simpl. split; auto. exists k, tok. split; auto. split; [ lia | ]. exists j, col. repeat split; auto; lia.
      * exists (S i), eid. simpl. split; auto. exists k, tok. split; auto. split; [ lia | ].
        exists j, col. repeat split; auto; lia.
    + intros (i & eid & Hi & k & tok & Hk & -> & j & col & Hj & Hc & -> & ->). destruct i as [ | i]; simpl in *.
      * inversion Hi; subst eid. left. exists k, tok. split; auto. split; [ lia | ]. exists j, col. repeat split; auto; lia.
      * right. exists i, eid. split; auto. exists k, tok. split; auto. split; [ lia | ].
        exists j, col. repeat split; auto; lia.
Qed.

Lemma shifted_inj : forall a b k, shifted a k = shifted b k -> a = b.
Proof. intros [q s] [q' s'] k H. unfold shifted in H. simpl in H. inversion H. f_equal. lia. Qed.

Lemma decode_row : forall n i j i' j', i < n -> i' < n -> i + n * j = i' + n * j' -> i = i' /\ j = j'.
Proof.
  intros n i j i' j' Hi Hi' E.
  assert (Hn : n <> 0) by lia.
  assert (J : j = j').
  { rewrite (Nat.div_unique (i + n * j) n j i) by lia.
    rewrite (Nat.div_unique (i' + n * j') n j' i') by lia. now rewrite E. }
  subst j'. split; [ lia | reflexivity ].
Qed.

Lemma stacked_functional : forall eids m spots cte,
  (forall e, In e eids -> NoDup (wrt_of m e)) ->
  functional (stacked_map eids m spots cte).
Proof.
  intros eids m spots cte ND [[[lr lc] rr] rc] [[[lr' lc'] rr'] rc'] H1 H2 E.
  unfold lhs_of in E. inversion E; subst lr' lc'. clear E.
  unfold stacked_map in *. apply stacked_from_In in H1, H2.
  destruct H1 as (i & eid & Hi & k & tok & Hk & -> & j & col & Hj & Hc & Hlr & ->).
  destruct H2 as (i' & eid' & Hi' & k' & tok' & Hk' & -> & j' & col' & Hj' & Hc' & Hlr' & ->).
  assert (Hil : i < List.length eids) by (apply nth_error_Some; congruence).
  assert (Hil' : i' < List.length eids) by (apply nth_error_Some; congruence).
  destruct (decode_row (List.length eids) i j i' j' Hil Hil') as [-> ->]; [ lia | ].
  assert (eid = eid') by congruence. subst eid'. assert (col = col') by congruence. subst col'.
  assert (tok = tok') by (eapply shifted_inj, col_of_inj; eauto). subst tok'.
  assert (k = k').
  { eapply NoDup_nth_error_inj; [ apply (ND eid) | eauto | eauto ]. eapply nth_error_In; eauto. }
  subst k'. reflexivity.
Qed.

(* THE PLACEMENT THEOREM for the stacked-time Jacobian: the residual of equation eids[i] in the j-th simulated
   period (data column col) differentiated w.r.t. its k-th wrt token lands in row i + n*j and in the column of
   the spot (qid, shift + col); every other cell is zero *)
Theorem stacked_map_places : forall {V} (zero : V) (td : nat -> nat -> V) eids m spots cte i eid k tok j col c,
  (forall e, In e eids -> NoDup (wrt_of m e)) ->
  nth_error eids i = Some eid -> nth_error (wrt_of m eid) k = Some tok -> nth_error cte j = Some col ->
  col_of (some_columns spots) (shifted tok col) = Some c ->
  cell zero td (stacked_map eids m spots cte) (i + List.length eids * j) c = td (prefix_len m (firstn i eids) + k) j.
Proof.
  intros V zero td eids m spots cte i eid k tok j col c ND Hi Hk Hj Hc.
  apply cell_hit; [ now apply stacked_functional | ].
  unfold stacked_map. apply stacked_from_In. exists i, eid. split; auto.
  exists k, tok. split; auto. split; [ lia | ]. exists j, col. repeat split; auto.
Qed.

Theorem stacked_map_zero_elsewhere : forall {V} (zero : V) (td : nat -> nat -> V) eids m spots cte r cc,
  (forall i eid k tok j col, nth_error eids i = Some eid -> nth_error (wrt_of m eid) k = Some tok ->
     nth_error cte j = Some col -> col_of (some_columns spots) (shifted tok col) = Some cc ->
     r <> i + List.length eids * j) ->
  cell zero td (stacked_map eids m spots cte) r cc = zero.
Proof.
  intros V zero td eids m spots cte r cc H. apply cell_miss.
  intros [[[lr lc] rr] rc] Hin E. unfold lhs_of in E. inversion E; subst lr lc.
  unfold stacked_map in Hin. apply stacked_from_In in Hin.
  destruct Hin as (i & eid & Hi & k & tok & Hk & -> & j & col & Hj & Hc & Hr & ->).
  apply (H i eid k tok j col Hi Hk Hj Hc). lia.
Qed.

(* ---- the terminal-condition map of the stacked-time Jacobian --------------------------------------------- *)
Lemma terminal_map_from_In : forall terminit spots j0 i j,
  In (i, j) (terminal_map_from terminit spots j0) <->
  exists k t, nth_error terminit k = Some t /\ j = j0 + k /\ col_of spots t = Some i.
Proof.
  induction terminit as [ | x r IH]; intros spots j0 i j; simpl.
  - split; [ contradiction | intros (k & t & H & _) ]. destruct k; discriminate.
  - destruct (col_of spots x) as [cx | ] eqn:E; simpl; rewrite IH; split.
    + intros [H | (k & t & Hk & -> & Hc)].
      * inversion H; subst. exists 0, x. simpl. repeat split; auto; lia.
      * exists (S k), t. simpl. repeat split; auto; lia.
    + intros (k & t & Hk & -> & Hc). destruct k as [ | k]; simpl in Hk.
      * inversion Hk; subst t. rewrite E in Hc. inversion Hc; subst. left. now rewrite Nat.add_0_r.
      * right. exists k, t. repeat split; auto; lia.
    + intros (k & t & Hk & -> & Hc). exists (S k), t. simpl. repeat split; auto; lia.
    + intros (k & t & Hk & -> & Hc). destruct k as [ | k]; simpl in Hk.
      * inversion Hk; subst t. congruence.
      * exists k, t. repeat split; auto; lia.
Qed.

(* column j of the terminal transition matrices is added into column i of the Jacobian exactly when the j-th
   terminal-initial-condition spot is the unknown of column i; spots that are not unknowns contribute nothing and do
   not shift the columns of the spots after them *)
Theorem terminal_map_pairs : forall terminit spots i j,
  In (i, j) (terminal_jacobian_map terminit spots) <->
  exists t, nth_error terminit j = Some t /\ col_of (some_columns spots) t = Some i.
Proof.
  intros terminit spots i j. unfold terminal_jacobian_map. rewrite terminal_map_from_In. split.
  - intros (k & t & Hk & -> & Hc). exists t. simpl. auto.
  - intros (t & Hj & Hc). exists j, t. simpl. auto.
Qed.

(* ------------------------------------------------------------------------------ *)
(* entries of the Jacobians are the partial derivatives                            *)
(* ------------------------------------------------------------------------------ *)
Local Close Scope nat_scope.
Local Open Scope R_scope.

Lemma eval_equation_diff : forall rho sd lg (t : tree RD),
  diff_of RD (eval_equation RD rho sd lg t) =
  match eval RD rho sd lg t with VA d => snd d + 0 | _ => 0 end.
Proof.
  intros rho sd lg t. unfold eval_equation. destruct (eval RD rho sd lg t) as [c | d | ]; reflexivity.
Qed.

(* the diff the evaluator returns for an equation, seeded on one token, is the partial derivative of the
   residual w.r.t. that occurrence ... *)
Theorem equation_diff_plain : forall (t : tree RD) rho lg tok,
  lg (fst tok) = false -> adm t rho -> eval RD rho (ind RD tok) lg t <> VRej ->
  is_derive (fun u => den t (upd rho tok u)) (rho tok) (diff_of RD (eval_equation RD rho (ind RD tok) lg t)).
Proof.
  intros t rho lg tok Hlg Hadm Hrej. rewrite eval_equation_diff.
  pose proof (partial_plain t rho lg tok Hlg Hadm) as H.
  destruct (eval RD rho (ind RD tok) lg t) as [c | d | ]; simpl in H; [ | | congruence ].
  - apply (is_derive_ext (fun _ : R => c)); [ intros u; symmetry; apply H | apply is_derive_const_R ].
  - destruct H as [_ D]. eapply is_derive_eq; [ exact D | symmetry; apply Rplus_0_r ].
Qed.

(* ... w.r.t. its logarithm for a log-variable *)
Theorem equation_diff_log : forall (t : tree RD) rho lg tok,
  lg (fst tok) = true -> 0 < rho tok -> adm t rho -> eval RD rho (ind RD tok) lg t <> VRej ->
  is_derive (fun u => den t (upd rho tok (exp u))) (ln (rho tok)) (diff_of RD (eval_equation RD rho (ind RD tok) lg t)).
Proof.
  intros t rho lg tok Hlg Hpos Hadm Hrej. rewrite eval_equation_diff.
  pose proof (partial_log t rho lg tok Hlg Hpos Hadm) as H.
  destruct (eval RD rho (ind RD tok) lg t) as [c | d | ]; simpl in H; [ | | congruence ].
  - apply (is_derive_ext (fun _ : R => c)); [ intros u; symmetry; apply H | apply is_derive_const_R ].
  - destruct H as [_ D]. eapply is_derive_eq; [ exact D | symmetry; apply Rplus_0_r ].
Qed.

(* whether an equation is rejected does not depend on the seeds *)
Lemma rejection_seed_independent : forall rho sd sd' lg (t : tree RD),
  match eval RD rho sd lg t, eval RD rho sd' lg t with
  | VRej, VRej => True | VC c, VC c' => c = c' | VA _, VA _ => True | _, _ => False
  end.
Proof.
  intros rho sd sd' lg. induction t as [c | q s | a IHa | a IHa | o a IHa b IHb | f a IHa | f a IHa b IHb | f a IHa];
    cbn [eval];
    repeat match goal with
           | |- context [eval RD rho ?s lg ?x] => destruct (eval RD rho s lg x)
           end;
    simpl in *; try contradiction; subst; auto;
    try (destruct o; simpl; auto; destruct has_rpow; exact I);
    try (destruct (is_method _); try destruct f; simpl; auto).
Qed.

(* ------------------------------------------------------------------------------ *)
(* offered in equations: differentiated correctly or rejected                      *)
(* ------------------------------------------------------------------------------ *)

(* every name of the dispatch table, applied to an Atom, either is rejected by the model (Python raises
   TypeError) or is one of the functions for which a rule lemma above is proved *)
Definition proved_function (name : string) : bool :=
  existsb (String.eqb name) ("log" :: "exp" :: "sqrt" :: "logistic" :: "maximum" :: nil)%string
  || (String.eqb name "minimum" && minimum_is_method).

Lemma offered_or_rejected : forall name, In name offered ->
  is_method name = false \/ proved_function name = true.
Proof.
  intros name H. unfold offered in H. simpl in H.
  repeat (destruct H as [<- | H]; [ vm_compute; auto | ]). contradiction.
Qed.

Lemma offered_fn_names : forall f : fn, In (fn_name f) offered.
Proof. intros f. destruct f; vm_compute; tauto. Qed.
Lemma offered_fn2_names : forall f : fn2, In (fn2_name f) offered.
Proof. intros f. destruct f; vm_compute; tauto. Qed.

(* ------------------------------------------------------------------------------ *)
(* the defective rules as they were found (frozen copies): provably not derivatives *)
(* ------------------------------------------------------------------------------ *)

Definition sqrt_rule_as_found (s : dualR) : dualR := (sqrt (fst s), 1 / 2 / sqrt (snd s)).

Lemma sqrt_rule_as_found_refuted :
  exists (f : R -> R) (x f' : R), is_derive f x f' /\ 0 < f x /\
    ~ derives (fun u => sqrt (f u)) x (sqrt_rule_as_found (f x, f')).
Proof.
  exists (fun u => u * u), 4, 8. split; [ | split ].
  - ad_start; [ ad_conds | ringR ].
  - lra.
  - intros [_ D]. simpl in D.
    assert (Hf : is_derive (fun u : R => u * u) 4 8) by (ad_start; [ ad_conds | ringR ]).
    pose proof (is_derive_sqrt (fun u => u * u) 4 8 Hf ltac:(lra)) as D'.
    pose proof (is_derive_unique _ _ _ D) as U. pose proof (is_derive_unique _ _ _ D') as U'.
    cbv beta in U, U'.
    assert (U2 : 1 / 2 / sqrt 8 = 8 / (2 * sqrt (4 * 4))) by (rewrite <- U; exact U').
    clear - U2. rename U2 into U'.
    replace (4 * 4) with (Rsqr 4) in U' by (unfold Rsqr; ring). rewrite sqrt_Rsqr in U' by lra.
    assert (H8 : 1 <= sqrt 8) by (rewrite <- sqrt_1; apply sqrt_le_1; lra).
    assert (Hpos : 0 < sqrt 8) by lra.
    assert (E : 1 / 2 / sqrt 8 = 1) by (rewrite U'; field).
    assert (1 / 2 / sqrt 8 <= 1 / 2).
    { unfold Rdiv. rewrite <- (Rmult_1_r (1 * / 2)) at 2. apply Rmult_le_compat_l; [ lra | ].
      rewrite <- Rinv_1. apply Rinv_le_contravar; lra. }
    lra.
Qed.

Definition maximum_aa_rule_as_found (s o : dualR) : dualR :=
  (Rmax (fst s) (fst o),
   snd s * (if Rltb (fst s) (fst o) then 0 else if Rltb (fst o) (fst s) then 1 else 1 / 2)).

Lemma maximum_aa_rule_as_found_refuted :
  exists (f g : R -> R) (x f' g' : R), is_derive f x f' /\ is_derive g x g' /\ f x <> g x /\
    ~ derives (fun u => Rmax (f u) (g u)) x (maximum_aa_rule_as_found (f x, f') (g x, g')).
Proof.
  exists (fun _ => 1), (fun u => 3 * u), 1, 0, 3. split; [ | split; [ | split ] ].
  - apply is_derive_const_R.
  - ad_start; [ ad_conds | ringR ].
  - lra.
  - intros [_ D]. cbn -[Rltb] in D.
    assert (Hf : is_derive (fun _ : R => 1) 1 0) by apply is_derive_const_R.
    assert (Hg : is_derive (fun u : R => 3 * u) 1 3) by (ad_start; [ ad_conds | ringR ]).
    destruct (maximum_aa_rule (fun _ => 1) (fun u => 3 * u) 1 0 3 Hf Hg ltac:(lra)) as [_ D'].
    cbn -[Rltb Reqb] in D'.
    rewrite (Rltb_true 1 (3 * 1)) in D, D' by lra.
    pose proof (is_derive_unique _ _ _ D) as U. pose proof (is_derive_unique _ _ _ D') as U'.
    cbv beta in U, U'.
    assert (E : 0 * 0 = 0 * 0 + 3 * (1 - 0)) by (transitivity (Derive (fun u : R => Rmax 1 (3 * u)) 1); [ symmetry; exact U | exact U' ]).
    lra.
Qed.

(* ------------------------------------------------------------------------------ *)
(* user functions: the two-sided quotient (finite_differentiators.py) on affine functions *)
(* ------------------------------------------------------------------------------ *)
From Verif Require Import gen.AldiFdGen.

Lemma fd_epsilon_pos : forall v, 0 < fd_epsilon v.
Proof.
  intros v. unfold fd_epsilon, fd_relative_step.
  apply Rmult_lt_0_compat; [ | lra ].
  apply Rlt_le_trans with 1; [ lra | apply Rmax_r ].
Qed.

(* exact on affine functions, at every point *)
Lemma fd_two_sided_affine : forall a b x : R, fd_two_sided (fun u => a * u + b) x = a.
Proof.
  intros a b x. unfold fd_two_sided. pose proof (fd_epsilon_pos x). field. lra.
Qed.

Lemma fd_two_sided_affine_is_derivative : forall a b x : R,
  is_derive (fun u => a * u + b) x (fd_two_sided (fun u => a * u + b) x).
Proof.
  intros a b x. rewrite fd_two_sided_affine. ad_start; [ ad_conds | ringR ].
Qed.

(* ------------------------------------------------------------------------------ *)
(* the rule lemmas grouped as they are restated in props/C02.v                      *)
(* ------------------------------------------------------------------------------ *)

Lemma rules_arithmetic : forall (f g : R -> R) (x f' g' c : R), is_derive f x f' -> is_derive g x g' ->
  derives (fun u => - f u) x (atom_neg RD (f x, f')) /\
  derives f x (atom_pos RD (f x, f')) /\
  derives (fun u => f u + g u) x (atom_add_aa RD (f x, f') (g x, g')) /\
  derives (fun u => f u + c) x (atom_add_ac RD (f x, f') c) /\
  derives (fun u => c + f u) x (atom_radd RD (f x, f') c) /\
  derives (fun u => f u - g u) x (atom_sub_aa RD (f x, f') (g x, g')) /\
  derives (fun u => f u - c) x (atom_sub_ac RD (f x, f') c) /\
  derives (fun u => c - f u) x (atom_rsub RD (f x, f') c) /\
  derives (fun u => f u * g u) x (atom_mul_aa RD (f x, f') (g x, g')) /\
  derives (fun u => f u * c) x (atom_mul_ac RD (f x, f') c) /\
  derives (fun u => c * f u) x (atom_rmul RD (f x, f') c) /\
  derives (fun u => f u / c) x (atom_truediv_ac RD (f x, f') c) /\
  (g x <> 0 -> derives (fun u => f u / g u) x (atom_truediv_aa RD (f x, f') (g x, g'))) /\
  (f x <> 0 -> derives (fun u => c / f u) x (atom_rtruediv RD (f x, f') c)).
Proof.
  intros f g x f' g' c Hf Hg.
  split; [ now apply neg_rule | ]. split; [ now apply pos_rule | ].
  split; [ now apply add_aa_rule | ]. split; [ now apply add_ac_rule | ]. split; [ now apply radd_rule | ].
  split; [ now apply sub_aa_rule | ]. split; [ now apply sub_ac_rule | ]. split; [ now apply rsub_rule | ].
  split; [ now apply mul_aa_rule | ]. split; [ now apply mul_ac_rule | ]. split; [ now apply rmul_rule | ].
  split; [ now apply truediv_ac_rule | ].
  split; [ intros; now apply truediv_aa_rule | intros; now apply rtruediv_rule ].
Qed.

Lemma rules_power : forall (f g : R -> R) (x f' g' c : R) (n : Z), is_derive f x f' -> is_derive g x g' ->
  (0 < f x -> derives (fun u => rpow (f u) c) x (atom_pow_ac RD (f x, f') c)) /\
  (f x <> 0 -> derives (fun u => rpow (f u) (IZR n)) x (atom_pow_ac RD (f x, f') (IZR n))) /\
  (0 < f x -> derives (fun u => rpow (f u) (g u)) x (atom_pow_aa RD (f x, f') (g x, g'))) /\
  (0 < c -> derives (fun u => rpow c (f u)) x (atom_exponential RD (f x, f') c)).
Proof.
  intros f g x f' g' c n Hf Hg.
  split; [ intros; now apply pow_ac_rule_pos | ]. split; [ intros; now apply pow_ac_rule_int | ].
  split; [ intros; now apply pow_aa_rule | intros; now apply exponential_rule ].
Qed.

Lemma rules_functions : forall (f : R -> R) (x f' : R), is_derive f x f' ->
  (0 < f x -> derives (fun u => ln (f u)) x (atom_log RD (f x, f'))) /\
  derives (fun u => exp (f u)) x (atom_exp RD (f x, f')) /\
  (0 < f x -> derives (fun u => sqrt (f u)) x (atom_sqrt RD (f x, f'))) /\
  derives (fun u => expit (f u)) x (atom_logistic RD (f x, f')).
Proof.
  intros f x f' Hf.
  split; [ intros; now apply log_rule | ]. split; [ now apply exp_rule | ].
  split; [ intros; now apply sqrt_rule | now apply logistic_rule ].
Qed.

Lemma rules_maximum : forall (f g : R -> R) (x f' g' c : R), is_derive f x f' -> is_derive g x g' ->
  (f x <> g x -> derives (fun u => Rmax (f u) (g u)) x (atom_maximum_aa RD (f x, f') (g x, g'))) /\
  (f x <> c -> derives (fun u => Rmax (f u) c) x (atom_maximum_ac RD (f x, f') c)).
Proof.
  intros f g x f' g' c Hf Hg. split; intros; [ now apply maximum_aa_rule | now apply maximum_ac_rule ].
Qed.

Lemma hypotheses_satisfiable :
  let t : tree RD := TFun FSqrt (TBin BMul (TVar 0 0) (TVar 0 0)) in
  let rho : token -> R := fun _ => 4 in
  adm t rho /\ (exists d, eval RD rho (ind RD (0%Z, 0%Z)) (fun _ => false) t = VA d /\ snd d = 1).
Proof.
  cbv zeta. split.
  - simpl. lra.
  - eexists. split; [ reflexivity | ].
    cbn. unfold ind. cbn.
    replace (4 * 4) with (Rsqr 4) by (unfold Rsqr; ring). rewrite sqrt_Rsqr by lra. field.
Qed.

(* ------------------------------------------------------------------------------ *)
(* the computed diff is linear in the seeds (used for the block  B + k*A  of the     *)
(* non-flat steady Jacobian)                                                        *)
(* ------------------------------------------------------------------------------ *)
Section Linearity.
Variable rho : token -> R.
Variable lg : Z -> bool.
Variable sd1 sd2 : token -> R.
Variable c : R.
Definition sd3 : token -> R := fun w => sd1 w + c * sd2 w.

Definition lin3 (v1 v2 v3 : val RD) : Prop :=
  match v1, v2, v3 with
  | VA d1, VA d2, VA d3 => fst d2 = fst d1 /\ fst d3 = fst d1 /\ snd d3 = snd d1 + c * snd d2
  | VC a, VC b, VC e => b = a /\ e = a
  | VRej, VRej, VRej => True
  | _, _, _ => False
  end.

Ltac lin_crush :=
  repeat match goal with
         | d : dual RD |- _ => destruct d
         | d : (dcar RD * dcar RD)%type |- _ => destruct d
         | H : _ /\ _ |- _ => destruct H
         end;
  simpl in *; subst;
  repeat split; try reflexivity; try (unfold Rdiv; ring).

Lemma eval_linear : forall t : tree RD,
  lin3 (eval RD rho sd1 lg t) (eval RD rho sd2 lg t) (eval RD rho sd3 lg t).
Proof.
  induction t as [k | q s | a IHa | a IHa | o a IHa b IHb | f a IHa | f a IHa b IHb | f a IHa]; cbn [eval].
  - simpl. auto.
  - simpl. unfold sd3, atom_diff. destruct (lg q); simpl; repeat split; ring.
  - unfold lin3 in *. destruct (eval RD rho sd1 lg a), (eval RD rho sd2 lg a), (eval RD rho sd3 lg a);
      try contradiction; try exact I; lin_crush.
  - unfold lin3 in *. destruct (eval RD rho sd1 lg a), (eval RD rho sd2 lg a), (eval RD rho sd3 lg a);
      try contradiction; try exact I; lin_crush.
  - unfold lin3 in *.
    destruct (eval RD rho sd1 lg a), (eval RD rho sd2 lg a), (eval RD rho sd3 lg a); try contradiction;
    destruct (eval RD rho sd1 lg b), (eval RD rho sd2 lg b), (eval RD rho sd3 lg b); try contradiction;
    try exact I; simpl apply_bop; try exact I.
    + lin_crush.
    + destruct o; unfold atom_bop_ca; try (destruct has_rpow; [ | exact I ]); lin_crush.
    + destruct o; unfold atom_bop_ac; lin_crush.
    + destruct o; unfold atom_bop_aa; lin_crush.
  - unfold lin3 in *. destruct (eval RD rho sd1 lg a), (eval RD rho sd2 lg a), (eval RD rho sd3 lg a);
      try contradiction; try exact I; simpl apply_fn.
    + lin_crush.
    + destruct (is_method (fn_name f)); [ | exact I ]. destruct f; try exact I; lin_crush.
  - unfold lin3 in *.
    destruct (eval RD rho sd1 lg a), (eval RD rho sd2 lg a), (eval RD rho sd3 lg a); try contradiction;
    destruct (eval RD rho sd1 lg b), (eval RD rho sd2 lg b), (eval RD rho sd3 lg b); try contradiction;
    try exact I; simpl apply_fn2; try exact I.
    + lin_crush.
    + destruct (is_method (fn2_name f)); [ | exact I ]. destruct f; unfold atom_fn2_ac; lin_crush.
    + destruct (is_method (fn2_name f)); [ | exact I ]. destruct f; unfold atom_fn2_aa; lin_crush.
  - unfold lin3 in *. destruct (eval RD rho sd1 lg a), (eval RD rho sd2 lg a), (eval RD rho sd3 lg a);
      try contradiction; try exact I; simpl apply_fn2d; try exact I.
    destruct (is_method (fn2_name f)); [ | exact I ]. destruct f; unfold atom_fn2_ac; lin_crush.
Qed.
End Linearity.

(* the second block row of the non-flat steady Jacobian, [Ak, Bk + k*Ak]: the residuals evaluated k periods
   ahead, differentiated w.r.t. the (log) level and the (log) change *)
Theorem steady_level_shifted : forall (t : tree RD) (lg : Z -> bool) (lev chg : Z -> R) (q0 k : Z),
  adm t (shift_rho RD (steady_path lg lev chg) k) ->
  result_ok (fun u => shift_rho RD (steady_path lg (updz lev q0 u) chg) k) (lev q0) t
            (eval RD (shift_rho RD (steady_path lg lev chg) k) (seed_level RD q0) lg t).
Proof.
  intros t lg lev chg q0 k Hadm.
  pose proof (eval_correct (fun u => shift_rho RD (steady_path lg (updz lev q0 u) chg) k) (seed_level RD q0) lg (lev q0) t) as H.
  cbv beta in H. rewrite updz_same in H. apply H; [ | assumption ].
  intros [q s] _. unfold leaf_ok. cbv beta. rewrite updz_same.
  unfold shift_rho, steady_path, seed_level, updz. simpl.
  destruct (Z.eqb q q0) eqn:E.
  - apply Z.eqb_eq in E. subst q. destruct (lg q0); unfold atom_diff; simpl.
    + ad_start; [ ad_conds | ringR ].
    + ad_start; [ ad_conds | ringR ].
  - rewrite atom_diff_zero. apply is_derive_const_R.
Qed.

Theorem steady_change_shifted : forall (t : tree RD) (lg : Z -> bool) (lev chg : Z -> R) (q0 k : Z),
  adm t (shift_rho RD (steady_path lg lev chg) k) ->
  match eval RD (shift_rho RD (steady_path lg lev chg) k) (seed_level RD q0) lg t,
        eval RD (shift_rho RD (steady_path lg lev chg) k) (seed_change RD q0) lg t with
  | VA dA, VA dB =>
      is_derive (fun u => den t (shift_rho RD (steady_path lg lev (updz chg q0 u)) k)) (chg q0)
                (snd dB + IZR k * snd dA)
  | _, _ => True
  end.
Proof.
  intros t lg lev chg q0 k Hadm.
  set (rk := shift_rho RD (steady_path lg lev chg) k) in *.
  pose proof (eval_linear rk lg (seed_change RD q0) (seed_level RD q0) (IZR k) t) as L.
  pose proof (eval_correct (fun u => shift_rho RD (steady_path lg lev (updz chg q0 u)) k)
                (sd3 (seed_change RD q0) (seed_level RD q0) (IZR k)) lg (chg q0) t) as H.
  cbv beta in H. rewrite updz_same in H. fold rk in H.
  unfold lin3 in L.
  destruct (eval RD rk (seed_level RD q0) lg t) as [ | dA | ]; try exact I.
  destruct (eval RD rk (seed_change RD q0) lg t) as [ | dB | ]; try exact I.
  destruct (eval RD rk (sd3 (seed_change RD q0) (seed_level RD q0) (IZR k)) lg t) as [ | d3 | ]; try contradiction.
  destruct L as (_ & _ & L3). rewrite <- L3.
  assert (Hok : result_ok (fun u => shift_rho RD (steady_path lg lev (updz chg q0 u)) k) (chg q0) t (VA d3)).
  { apply H; [ | assumption ].
    intros [q s] _. unfold leaf_ok. cbv beta. rewrite updz_same.
    unfold shift_rho, steady_path, sd3, seed_level, seed_change, updz. simpl.
    destruct (Z.eqb q q0) eqn:E.
    - apply Z.eqb_eq in E. subst q. rewrite plus_IZR. destruct (lg q0); unfold atom_diff; simpl.
      + ad_start; [ ad_conds | ringR ].
      + ad_start; [ ad_conds | ringR ].
    - replace (0 + IZR k * 0) with 0 by ring. rewrite atom_diff_zero. apply is_derive_const_R. }
  exact (proj2 Hok).
Qed.

(* ---- the stacked-time Jacobian: cell (equation i, period j; spot) is the diff computed on the data of that period --- *)
Local Close Scope R_scope.
Local Open Scope nat_scope.

Section StackedTd.
Variable rho : token -> R.
Variable lg : Z -> bool.
Variable m : emap.
Variable cte : list Z.

Definition srow (t : tree RD) (tok : token) : list R :=
  map (fun c => diff_of RD (eval_equation RD (shift_rho RD rho c) (ind RD tok) lg t)) cte.

Lemma stacked_td_length : forall l : list (Z * tree RD),
  List.length (stacked_td RD rho lg l m cte) = prefix_len m (map fst l).
Proof.
  induction l as [ | [e t] r IH]; [ reflexivity | ].
  unfold stacked_td. cbn [flat_map map fst snd prefix_len]. rewrite app_length, map_length. f_equal. exact IH.
Qed.

Lemma stacked_td_nth : forall (l1 l2 : list (Z * tree RD)) eid t k tok,
  nth_error (wrt_of m eid) k = Some tok ->
  nth (prefix_len m (map fst l1) + k) (stacked_td RD rho lg (l1 ++ (eid, t) :: l2) m cte) [] = srow t tok.
Proof.
  intros l1 l2 eid t k tok Hk. unfold stacked_td. rewrite flat_map_app. cbn [flat_map fst snd].
  assert (HA : List.length (flat_map (fun et : Z * tree RD =>
                 map (fun tk => map (fun c => diff_of RD (eval_equation RD (shift_rho RD rho c) (ind RD tk) lg (snd et))) cte)
                     (wrt_of m (fst et))) l1) = prefix_len m (map fst l1)) by (apply stacked_td_length).
  rewrite app_nth2 by lia. rewrite HA.
  replace (prefix_len m (map fst l1) + k - prefix_len m (map fst l1)) with k by lia.
  assert (Hlt : k < List.length (wrt_of m eid)) by (apply nth_error_Some; congruence).
  rewrite app_nth1 by (rewrite map_length; exact Hlt).
  rewrite (nth_indep _ _ (srow t (0%Z, 0%Z))) by (rewrite map_length; exact Hlt).
  unfold srow.
  rewrite (map_nth (fun tk => map (fun c => diff_of RD (eval_equation RD (shift_rho RD rho c) (ind RD tk) lg t)) cte)).
  apply nth_error_nth with (d := (0%Z, 0%Z)) in Hk. now rewrite Hk.
Qed.
End StackedTd.

Lemma firstn_map_app : forall (l1 : list (Z * tree RD)) x l2,
  firstn (List.length l1) (map fst (l1 ++ x :: l2)) = map fst l1.
Proof.
  intros l1 x l2. rewrite map_app. rewrite <- (map_length fst l1). rewrite firstn_app, Nat.sub_diag. simpl.
  rewrite firstn_all. apply app_nil_r.
Qed.

Theorem stacked_jacobian_entry : forall rho lg (l1 l2 : list (Z * tree RD)) m spots cte eid t k tok j col c,
  (forall e, In e (map fst (l1 ++ (eid, t) :: l2)) -> NoDup (wrt_of m e)) ->
  nth_error (wrt_of m eid) k = Some tok -> nth_error cte j = Some col ->
  col_of (some_columns spots) (shifted tok col) = Some c ->
  cell (dofZ RD 0) (td2_of RD (stacked_td RD rho lg (l1 ++ (eid, t) :: l2) m cte))
       (stacked_map (map fst (l1 ++ (eid, t) :: l2)) m spots cte)
       (List.length l1 + List.length (map fst (l1 ++ (eid, t) :: l2)) * j) c
  = diff_of RD (eval_equation RD (shift_rho RD rho col) (ind RD tok) lg t).
Proof.
  intros rho lg l1 l2 m spots cte eid t k tok j col c ND Hk Hj Hc.
  assert (Hi : nth_error (map fst (l1 ++ (eid, t) :: l2)) (List.length l1) = Some eid).
  { rewrite map_app. rewrite nth_error_app2 by (rewrite map_length; lia). rewrite map_length, Nat.sub_diag. reflexivity. }
  rewrite (stacked_map_places _ _ _ m spots cte _ eid k tok j col c ND Hi Hk Hj Hc).
  rewrite firstn_map_app. unfold td2_of.
  rewrite (stacked_td_nth rho lg m cte l1 l2 eid t k tok Hk). unfold srow.
  assert (Hjl : j < List.length cte) by (apply nth_error_Some; congruence).
  rewrite (nth_indep _ _ (diff_of RD (eval_equation RD (shift_rho RD rho 0%Z) (ind RD tok) lg t))) by (rewrite map_length; exact Hjl).
  rewrite (map_nth (fun c0 => diff_of RD (eval_equation RD (shift_rho RD rho c0) (ind RD tok) lg t))).
  apply nth_error_nth with (d := 0%Z) in Hj. now rewrite Hj.
Qed.
