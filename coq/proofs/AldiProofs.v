(* C02: every differentiation rule regenerated from aldi/differentiators.py is the true
   derivative (Coquelicot [is_derive]); the tree evaluator that folds them computes the
   derivative of the residual along any differentiable curve of evaluation points. *)
From Coq Require Import Reals Lra Lia ZArith List String Bool.
From Coquelicot Require Import Coquelicot.
From Verif Require Import lib.Dual gen.AldiGen.
Import ListNotations.
Local Open Scope R_scope.

(* ------------------------------------------------------------------------------ *)
(* real-number helpers                                                             *)
(* ------------------------------------------------------------------------------ *)

Lemma up_IZR : forall n : Z, up (IZR n) = (n + 1)%Z.
Proof.
  intros n. symmetry. apply tech_up; rewrite plus_IZR; lra.
Qed.

Lemma as_int_IZR : forall n : Z, as_int (IZR n) = Some n.
Proof.
  intros n. unfold as_int. rewrite up_IZR.
  replace (n + 1 - 1)%Z with n by lia.
  destruct (Req_EM_T (IZR n) (IZR n)); congruence.
Qed.

Lemma as_int_Some : forall y n, as_int y = Some n -> y = IZR n.
Proof.
  unfold as_int. intros y n. destruct (Req_EM_T _ _); congruence.
Qed.

Lemma rpow_pos : forall x y, 0 < x -> rpow x y = Rpower x y.
Proof. intros x y H. unfold rpow. destruct (Rlt_dec 0 x); [reflexivity | contradiction]. Qed.

Lemma rpow_int : forall x n, rpow x (IZR n) = powerRZ x n.
Proof.
  intros x n. unfold rpow. destruct (Rlt_dec 0 x) as [H | H].
  - symmetry. now apply powerRZ_Rpower.
  - now rewrite as_int_IZR.
Qed.

Lemma rpow_2 : forall v, rpow v 2 = v * v.
Proof. intros v. rewrite (rpow_int v 2). simpl. ring. Qed.

Lemma Rltb_true : forall x y, x < y -> Rltb x y = true.
Proof. intros. unfold Rltb. destruct (Rlt_dec x y); [reflexivity | contradiction]. Qed.
Lemma Rltb_false : forall x y, ~ x < y -> Rltb x y = false.
Proof. intros. unfold Rltb. destruct (Rlt_dec x y); [contradiction | reflexivity]. Qed.
Lemma Reqb_true : forall x y, x = y -> Reqb x y = true.
Proof. intros. unfold Reqb. destruct (Req_EM_T x y); [reflexivity | contradiction]. Qed.
Lemma Reqb_false : forall x y, x <> y -> Reqb x y = false.
Proof. intros. unfold Reqb. destruct (Req_EM_T x y); [contradiction | reflexivity]. Qed.

Lemma is_derive_const_R : forall (c x : R), is_derive (fun _ : R => c) x 0.
Proof. intros c x. exact (@is_derive_const R_AbsRing R_NormedModule c x). Qed.

(* a differentiable function keeps a strict sign / inequality in a neighbourhood *)
Lemma locally_lt : forall (f g : R -> R) (x f' g' : R),
  is_derive f x f' -> is_derive g x g' -> f x < g x -> locally x (fun u => f u < g u).
Proof.
  intros f g x f' g' Hf Hg Hlt.
  assert (Cf : continuous f x).
  { apply (ex_derive_continuous (K:=R_AbsRing) (V:=R_NormedModule) f x). now exists f'. }
  assert (Cg : continuous g x).
  { apply (ex_derive_continuous (K:=R_AbsRing) (V:=R_NormedModule) g x). now exists g'. }
  assert (Cd : continuous (fun u => minus (g u) (f u)) x).
  { apply (continuous_minus g f x Cg Cf). }
  pose (eps := mkposreal (g x - f x) ltac:(lra)).
  destruct (proj1 (filterlim_locally _ _) Cd eps) as [d Hd].
  exists d. intros u Hu. specialize (Hd u Hu).
  unfold ball in Hd; simpl in Hd. unfold AbsRing_ball, abs, minus, plus, opp in Hd; simpl in Hd.
  apply Rabs_def2 in Hd. lra.
Qed.

Lemma locally_pos : forall (f : R -> R) (x f' : R), is_derive f x f' -> 0 < f x -> locally x (fun u => 0 < f u).
Proof.
  intros f x f' Hf H.
  apply (locally_lt (fun _ => 0) f x 0 f'); [apply is_derive_const_R | assumption | assumption].
Qed.

Lemma locally_neg : forall (f : R -> R) (x f' : R), is_derive f x f' -> f x < 0 -> locally x (fun u => f u < 0).
Proof.
  intros f x f' Hf H.
  apply (locally_lt f (fun _ => 0) x f' 0); [assumption | apply is_derive_const_R | assumption].
Qed.

Lemma is_derive_eq : forall (f : R -> R) (x l l' : R), is_derive f x l -> l = l' -> is_derive f x l'.
Proof. intros; subst; assumption. Qed.

Ltac ringR := match goal with |- @eq _ ?a ?b => change (@eq R a b); ring end.
Ltac fieldR := match goal with |- @eq _ ?a ?b => change (@eq R a b); field end.

(* auto_derive with abstract differentiable functions: conditions, then the value *)
Ltac ad_start := evar_last; [ auto_derive; [ | reflexivity ] | ].
Ltac ad_conds :=
  repeat match goal with
  | |- _ /\ _ => split
  | |- True => exact I
  | |- ex_derive _ _ => eexists; eassumption
  | |- _ => assumption
  | |- _ => lra
  end.
Ltac known f x f' Hf := rewrite ?(is_derive_unique (fun u : R => f u) x f' Hf).

(* derivative of u |-> Rpower (f u) c *)
Lemma is_derive_Rpower_l : forall (f : R -> R) (x f' c : R), is_derive f x f' -> 0 < f x ->
  is_derive (fun u => Rpower (f u) c) x (c * Rpower (f x) (c - 1) * f').
Proof.
  intros f x f' c Hf Hpos. unfold Rpower at 1.
  ad_start.
  - ad_conds.
  - known f x f' Hf.
    unfold Rminus. rewrite Rpower_plus, Rpower_Ropp, Rpower_1 by lra. unfold Rpower. field. lra.
Qed.

(* derivative of u |-> Rpower c (f u) *)
Lemma is_derive_Rpower_r : forall (f : R -> R) (x f' c : R), is_derive f x f' -> 0 < c ->
  is_derive (fun u => Rpower c (f u)) x (Rpower c (f x) * ln c * f').
Proof.
  intros f x f' c Hf Hpos. unfold Rpower.
  ad_start.
  - ad_conds.
  - known f x f' Hf. ring.
Qed.

Lemma powerRZ_neg_base : forall v n, v < 0 -> powerRZ v n = powerRZ (-1) n * Rpower (- v) (IZR n).
Proof.
  intros v n Hv. rewrite <- powerRZ_Rpower by lra. rewrite <- powerRZ_mult. f_equal. ring.
Qed.

Lemma powerRZ_m1_pred : forall n, powerRZ (-1) (n - 1) = - powerRZ (-1) n.
Proof.
  intros n. unfold Z.sub. rewrite powerRZ_add by lra. simpl. field.
Qed.

(* derivative of u |-> powerRZ (f u) n at a negative base *)
Lemma is_derive_powerRZ_neg : forall (f : R -> R) (x f' : R) (n : Z), is_derive f x f' -> f x < 0 ->
  is_derive (fun u => powerRZ (f u) n) x (IZR n * powerRZ (f x) (n - 1) * f').
Proof.
  intros f x f' n Hf Hneg.
  apply (is_derive_ext_loc (fun u => powerRZ (-1) n * Rpower (- f u) (IZR n))).
  - generalize (locally_neg f x f' Hf Hneg). apply filter_imp. intros u Hu. symmetry. now apply powerRZ_neg_base.
  - assert (Hm : is_derive (fun u => - f u) x (- f')).
    { ad_start; [ad_conds | known f x f' Hf; ring]. }
    generalize (is_derive_Rpower_l (fun u => - f u) x (- f') (IZR n) Hm ltac:(lra)). intros HP.
    eapply is_derive_eq; [ apply (is_derive_scal _ x (powerRZ (-1) n) _ HP) | ].
    rewrite (powerRZ_neg_base (f x) (n - 1) Hneg). rewrite powerRZ_m1_pred. rewrite minus_IZR. ringR.
Qed.

(* ------------------------------------------------------------------------------ *)
(* one lemma per generated rule                                                    *)
(* ------------------------------------------------------------------------------ *)

Notation dualR := (dual RD).

(* [d] is (value, derivative) of [F] at [x] *)
Definition derives (F : R -> R) (x : R) (d : dualR) : Prop := fst d = F x /\ is_derive F x (snd d).

Ltac rule_start := intros; split; [ try reflexivity | cbn -[rpow expit Rltb Reqb] ].
Ltac rule1 f x f' Hf := ad_start; [ ad_conds | known f x f' Hf; try ringR ].
Ltac rule2 f g x f' g' Hf Hg := ad_start; [ ad_conds | known f x f' Hf; known g x g' Hg; try ringR ].

Lemma neg_rule : forall (f : R -> R) (x f' : R), is_derive f x f' -> derives (fun u => - f u) x (atom_neg RD (f x, f')).
Proof. rule_start. rule1 f x f' H. Qed.

Lemma pos_rule : forall (f : R -> R) (x f' : R), is_derive f x f' -> derives f x (atom_pos RD (f x, f')).
Proof. intros; split; [reflexivity | assumption]. Qed.

Lemma add_aa_rule : forall (f g : R -> R) (x f' g' : R), is_derive f x f' -> is_derive g x g' ->
  derives (fun u => f u + g u) x (atom_add_aa RD (f x, f') (g x, g')).
Proof. rule_start. rule2 f g x f' g' H H0. Qed.

Lemma add_ac_rule : forall (f : R -> R) (x f' c : R), is_derive f x f' -> derives (fun u => f u + c) x (atom_add_ac RD (f x, f') c).
Proof. rule_start. rule1 f x f' H. Qed.

Lemma radd_rule : forall (f : R -> R) (x f' c : R), is_derive f x f' -> derives (fun u => c + f u) x (atom_radd RD (f x, f') c).
Proof. intros; split; [cbn; ring | cbn]. rule1 f x f' H. Qed.

Lemma sub_aa_rule : forall (f g : R -> R) (x f' g' : R), is_derive f x f' -> is_derive g x g' ->
  derives (fun u => f u - g u) x (atom_sub_aa RD (f x, f') (g x, g')).
Proof. rule_start. rule2 f g x f' g' H H0. Qed.

Lemma sub_ac_rule : forall (f : R -> R) (x f' c : R), is_derive f x f' -> derives (fun u => f u - c) x (atom_sub_ac RD (f x, f') c).
Proof. rule_start. rule1 f x f' H. Qed.

Lemma rsub_rule : forall (f : R -> R) (x f' c : R), is_derive f x f' -> derives (fun u => c - f u) x (atom_rsub RD (f x, f') c).
Proof. intros; split; [cbn; ring | cbn]. rule1 f x f' H. Qed.

Lemma mul_aa_rule : forall (f g : R -> R) (x f' g' : R), is_derive f x f' -> is_derive g x g' ->
  derives (fun u => f u * g u) x (atom_mul_aa RD (f x, f') (g x, g')).
Proof. rule_start. rule2 f g x f' g' H H0. Qed.

Lemma mul_ac_rule : forall (f : R -> R) (x f' c : R), is_derive f x f' -> derives (fun u => f u * c) x (atom_mul_ac RD (f x, f') c).
Proof. rule_start. rule1 f x f' H. Qed.

Lemma rmul_rule : forall (f : R -> R) (x f' c : R), is_derive f x f' -> derives (fun u => c * f u) x (atom_rmul RD (f x, f') c).
Proof. intros; split; [cbn; ring | cbn]. rule1 f x f' H. Qed.

Lemma truediv_aa_rule : forall (f g : R -> R) (x f' g' : R), is_derive f x f' -> is_derive g x g' -> g x <> 0 ->
  derives (fun u => f u / g u) x (atom_truediv_aa RD (f x, f') (g x, g')).
Proof.
  rule_start. rewrite rpow_2. ad_start; [ ad_conds | known f x f' H; known g x g' H0; fieldR; assumption ].
Qed.

Lemma truediv_ac_rule : forall (f : R -> R) (x f' c : R), is_derive f x f' -> derives (fun u => f u / c) x (atom_truediv_ac RD (f x, f') c).
Proof.
  rule_start. unfold Rdiv. rule1 f x f' H.
Qed.

Lemma rtruediv_rule : forall (f : R -> R) (x f' c : R), is_derive f x f' -> f x <> 0 ->
  derives (fun u => c / f u) x (atom_rtruediv RD (f x, f') c).
Proof.
  rule_start. rewrite rpow_2. ad_start; [ ad_conds | known f x f' H; fieldR; assumption ].
Qed.

(* u |-> f(u) ** c for a plain number c: positive base and any exponent ... *)
Lemma power_rule_pos : forall (f : R -> R) (x f' c : R), is_derive f x f' -> 0 < f x ->
  derives (fun u => rpow (f u) c) x (atom_power RD (f x, f') c).
Proof.
  rule_start.
  apply (is_derive_ext_loc (fun u => Rpower (f u) c)).
  - generalize (locally_pos f x f' H H0). apply filter_imp. intros u Hu. symmetry; now apply rpow_pos.
  - rewrite rpow_pos by assumption. now apply is_derive_Rpower_l.
Qed.

(* ... or a non-zero base and an integer exponent (x ** 2 at negative x, x ** -1, ...) *)
Lemma power_rule_int : forall (f : R -> R) (x f' : R) (n : Z), is_derive f x f' -> f x <> 0 ->
  derives (fun u => rpow (f u) (IZR n)) x (atom_power RD (f x, f') (IZR n)).
Proof.
  intros f x f' n Hf Hnz.
  destruct (Rlt_dec 0 (f x)) as [Hpos | Hnpos]; [ now apply power_rule_pos | ].
  assert (Hneg : f x < 0) by lra.
  split; [ reflexivity | cbn -[rpow] ].
  apply (is_derive_ext (fun u => powerRZ (f u) n)).
  - intros u. symmetry. apply rpow_int.
  - replace (IZR n - 1) with (IZR (n - 1)) by (rewrite minus_IZR; reflexivity).
    rewrite rpow_int. now apply is_derive_powerRZ_neg.
Qed.

(* u |-> c ** f(u) for a positive plain number c *)
Lemma exponential_rule : forall (f : R -> R) (x f' c : R), is_derive f x f' -> 0 < c ->
  derives (fun u => rpow c (f u)) x (atom_exponential RD (f x, f') c).
Proof.
  rule_start.
  apply (is_derive_ext (fun u => Rpower c (f u))).
  - intros u. symmetry; now apply rpow_pos.
  - rewrite rpow_pos by assumption. now apply is_derive_Rpower_r.
Qed.

Lemma pow_ac_rule_pos : forall (f : R -> R) (x f' c : R), is_derive f x f' -> 0 < f x ->
  derives (fun u => rpow (f u) c) x (atom_pow_ac RD (f x, f') c).
Proof. intros. unfold atom_pow_ac. destruct (atom_power RD (f x, f') c) eqn:E. rewrite <- E. now apply power_rule_pos. Qed.

Lemma pow_ac_rule_int : forall (f : R -> R) (x f' : R) (n : Z), is_derive f x f' -> f x <> 0 ->
  derives (fun u => rpow (f u) (IZR n)) x (atom_pow_ac RD (f x, f') (IZR n)).
Proof. intros. unfold atom_pow_ac. destruct (atom_power RD (f x, f') (IZR n)) eqn:E. rewrite <- E. now apply power_rule_int. Qed.

(* u |-> f(u) ** g(u), positive base *)
Lemma pow_aa_rule : forall (f g : R -> R) (x f' g' : R), is_derive f x f' -> is_derive g x g' -> 0 < f x ->
  derives (fun u => rpow (f u) (g u)) x (atom_pow_aa RD (f x, f') (g x, g')).
Proof.
  intros f g x f' g' Hf Hg Hpos.
  split; [ reflexivity | ].
  apply (is_derive_ext_loc (fun u => exp (g u * ln (f u)))).
  - generalize (locally_pos f x f' Hf Hpos). apply filter_imp. intros u Hu. symmetry. now apply rpow_pos.
  - cbn -[rpow]. rewrite !rpow_pos by assumption.
    ad_start; [ ad_conds | known f x f' Hf; known g x g' Hg ].
    unfold Rminus. rewrite Rpower_plus, Rpower_Ropp, Rpower_1 by lra. unfold Rpower. fieldR. lra.
Qed.

Lemma log_rule : forall (f : R -> R) (x f' : R), is_derive f x f' -> 0 < f x -> derives (fun u => ln (f u)) x (atom_log RD (f x, f')).
Proof. rule_start. ad_start; [ ad_conds | known f x f' H; fieldR; lra ]. Qed.

Lemma exp_rule : forall (f : R -> R) (x f' : R), is_derive f x f' -> derives (fun u => exp (f u)) x (atom_exp RD (f x, f')).
Proof. rule_start. rule1 f x f' H. Qed.

Lemma sqrt_rule : forall (f : R -> R) (x f' : R), is_derive f x f' -> 0 < f x -> derives (fun u => sqrt (f u)) x (atom_sqrt RD (f x, f')).
Proof.
  rule_start. eapply is_derive_eq; [ apply (is_derive_sqrt f x f' H H0) | ].
  assert (sqrt (f x) <> 0) by (apply Rgt_not_eq, sqrt_lt_R0; assumption).
  fieldR. assumption.
Qed.

Lemma logistic_rule : forall (f : R -> R) (x f' : R), is_derive f x f' -> derives (fun u => expit (f u)) x (atom_logistic RD (f x, f')).
Proof.
  rule_start. unfold expit.
  assert (0 < exp (- f x)) by apply exp_pos.
  ad_start; [ ad_conds | known f x f' H; fieldR; lra ].
Qed.
