(* C19: import (export db) returns the exported series: names, descriptions, variant counts and,
   period by period, the rounded values on the exported span.  The sheet is a grid of cells;
   period <-> text and number <-> text are abstract codecs with round-trip hypotheses. *)
From Coq Require Import String Ascii ZArith List Bool Lia.
From Verif Require Import lib.Arith model.Series model.SeriesOps model.Databox model.Csv gen.CsvGen
  proofs.SeriesProofs proofs.SeriesOpsProofs proofs.DataboxProofs.
Import ListNotations.
Open Scope Z_scope.

(* ------------------------------------------------------------------ lists *)
Lemma map_nth_seq {T} (l : list T) d : map (fun i => nth i l d) (seq 0 (length l)) = l.
Proof.
  apply nth_ext with (d := d) (d' := d).
  - now rewrite map_length, seq_length.
  - intros i Hi. rewrite map_length, seq_length in Hi.
    rewrite nth_map_in with (d' := O) by now rewrite seq_length. now rewrite seq_nth.
Qed.

Lemma map_seq_nth {X Y} (g : X -> Y) (F : nat -> Y) (l : list X) d :
  (forall r, (r < length l)%nat -> F r = g (nth r l d)) -> map F (seq 0 (length l)) = map g l.
Proof.
  intros H. transitivity (map g (map (fun i => nth i l d) (seq 0 (length l)))).
  - rewrite map_map. apply map_ext_in. intros r Hr. apply in_seq in Hr. apply H. lia.
  - now rewrite map_nth_seq.
Qed.

Lemma combine_map2 {X Y Z0} (f : X -> Y) (g : X -> Z0) l :
  combine (map f l) (map g l) = map (fun x => (f x, g x)) l.
Proof. induction l; simpl; [reflexivity|now rewrite IHl]. Qed.

Definition offset {T} (ls : list (list T)) (i : nat) : nat := length (concat (firstn i ls)).

Lemma offset_S {T} (ls : list (list T)) i : (i < length ls)%nat ->
  offset ls (S i) = (offset ls i + length (nth i ls []))%nat.
Proof.
  unfold offset. revert i. induction ls as [|x r IH]; intros i Hi; simpl in Hi; [lia|].
  destruct i; simpl.
  - rewrite !app_length. simpl. lia.
  - rewrite !app_length. specialize (IH i ltac:(lia)). simpl in IH. rewrite IH. lia.
Qed.

Lemma concat_split {T} (ls : list (list T)) i : (i < length ls)%nat ->
  concat ls = concat (firstn i ls) ++ nth i ls [] ++ concat (skipn (S i) ls).
Proof.
  revert i. induction ls as [|x r IH]; intros i Hi; simpl in Hi; [lia|].
  destruct i; simpl; [reflexivity|]. rewrite (IH i) at 1 by lia. now rewrite app_assoc.
Qed.

Lemma nth_concat {T} (ls : list (list T)) i j d : (i < length ls)%nat -> (j < length (nth i ls []))%nat ->
  nth (offset ls i + j) (concat ls) d = nth j (nth i ls []) d.
Proof.
  intros Hi Hj. rewrite (concat_split ls i Hi). unfold offset.
  rewrite app_nth2_plus. now apply app_nth1.
Qed.

Lemma slice_mid {T} (p : list T) m body s :
  slice (p ++ (m :: body) ++ s) (S (length p)) (length p + S (length body)) = body.
Proof.
  unfold slice. replace (length p + S (length body) - S (length p))%nat with (length body) by lia.
  replace (S (length p)) with (length p + 1)%nat by lia.
  rewrite skipn_app, skipn_all2 by lia. replace (length p + 1 - length p)%nat with 1%nat by lia.
  simpl. rewrite firstn_app, firstn_all, Nat.sub_diag. simpl. apply app_nil_r.
Qed.

Lemma filter_none {X} (p : X -> bool) l : (forall x, In x l -> p x = false) -> filter p l = [].
Proof.
  induction l as [|a r IH]; simpl; intros H; [reflexivity|].
  rewrite (H a) by now left. apply IH. intros x Hx. apply H. now right.
Qed.

Lemma filter_map_seq_prefix {T} (p : T -> bool) (f : nat -> T) len total : (len <= total)%nat ->
  (forall r, (r < total)%nat -> p (f r) = Nat.ltb r len) ->
  filter p (map f (seq 0 total)) = map f (seq 0 len).
Proof.
  intros Hle Hp. replace total with (len + (total - len))%nat in * by lia.
  set (m := (total - len)%nat) in *. clearbody m. rewrite seq_app, map_app, filter_app. simpl.
  rewrite filter_all.
  - rewrite filter_none; [apply app_nil_r|]. intros x Hx. apply in_map_iff in Hx as (r & <- & Hr). apply in_seq in Hr.
    rewrite Hp by lia. destruct (Nat.ltb_spec r len); [lia|reflexivity].
  - intros x Hx. apply in_map_iff in Hx as (r & <- & Hr). apply in_seq in Hr.
    rewrite Hp by lia. destruct (Nat.ltb_spec r len); [reflexivity|lia].
Qed.

Lemma all_some_map_Some {X T} (g : X -> T) l : all_some (map (fun x => Some (g x)) l) = Some (map g l).
Proof. induction l; simpl; [reflexivity|now rewrite IHl]. Qed.

(* ------------------------------------------------------------------ hcat_all as rows of concatenations *)
Lemma hcat_all_rows (bs : list grid) R : bs <> [] -> (forall b, In b bs -> length b = R) ->
  hcat_all bs = map (fun r => concat (map (fun b => nth r b []) bs)) (seq 0 R).
Proof.
  induction bs as [|b r IH]; intros Hne Hlen; [contradiction|].
  destruct r as [|b2 r2].
  - simpl. rewrite <- (map_nth_seq b []) at 1. rewrite (Hlen b) by now left.
    apply map_ext. intros i. now rewrite app_nil_r.
  - change (hcat_all (b :: b2 :: r2)) with (hcat b (hcat_all (b2 :: r2))).
    rewrite IH; [|discriminate|intros x Hx; apply Hlen; now right].
    unfold hcat. rewrite <- (map_nth_seq b []) at 1. rewrite (Hlen b) by now left.
    rewrite combine_map2, map_map. apply map_ext. intros i. reflexivity.
Qed.

(* ------------------------------------------------------------------ the name row scanner *)
Fixpoint blocks_from (hs : list (Z * row)) (col : nat) : list (Z * nat * nat) :=
  match hs with
  | [] => []
  | (f, body) :: r => (f, col, col + S (length body))%nat :: blocks_from r (col + S (length body))
  end.

Lemma scan_body body : forall rest col f dc, Forall (fun c => is_end c = false) body ->
  scan (body ++ rest) col (Some (f, dc)) = scan rest (col + length body) (Some (f, dc)).
Proof.
  induction body as [|c b IH]; intros rest col f dc H; simpl.
  - now rewrite Nat.add_0_r.
  - inversion H; subst. rewrite H2. simpl. rewrite IH by assumption. f_equal. lia.
Qed.

Lemma is_start_is_end c f : is_start c = Some f -> is_end c = true.
Proof. unfold is_start, is_end. destruct (prefix "__" c); [reflexivity|discriminate]. Qed.

Lemma scan_marks (hs : list (Z * row)) : forall col cur,
  (forall f body, In (f, body) hs -> is_start (mark_of_freq f) = Some f /\ Forall (fun c => is_end c = false) body) ->
  scan (concat (map (fun p => mark_of_freq (fst p) :: snd p) hs) ++ ["__"%string]) col cur
  = (match cur with Some (f, dc) => [(f, dc, col)] | None => [] end) ++ blocks_from hs col.
Proof.
  induction hs as [|[f body] r IH]; intros col cur H.
  - simpl. destruct cur as [[f dc]|]; reflexivity.
  - destruct (H f body (or_introl eq_refl)) as [Hs Hb].
    cbn [map concat fst snd]. rewrite <- app_assoc. cbn [app scan].
    rewrite (is_start_is_end _ _ Hs), Hs.
    replace (match match cur with Some _ => @None (Z * nat) | None => None end with
             | Some _ => match cur with Some _ => None | None => None end
             | None => Some (f, col) end) with (Some (f, col)) by (destruct cur; reflexivity).
    rewrite scan_body by assumption.
    rewrite IH by (intros f0 b0 Hin; apply H; now right).
    cbn [blocks_from]. replace (S col + length body)%nat with (col + S (length body))%nat by lia.
    destruct cur as [[f1 dc1]|]; reflexivity.
Qed.

(* ------------------------------------------------------------------ the column iterator *)
Definition gcells (g : string * string * list string) : list (string * string) :=
  (fst (fst g), snd (fst g)) :: map (fun e => ("*"%string, e)) (snd g).

Fixpoint groups_from (gs : list (string * string * list string)) (i : nat) : list (list nat * string * string) :=
  match gs with
  | [] => []
  | g :: r => (seq i (S (length (snd g))), fst (fst g), snd (fst g)) :: groups_from r (i + S (length (snd g)))
  end.

Lemma col_iter_stars ex : forall rest i cs cn cd,
  col_iter (map (fun e => ("*"%string, e)) ex ++ rest) i (Some (cs, cn, cd))
  = col_iter rest (i + length ex) (Some (cs ++ seq i (length ex), cn, cd)).
Proof.
  induction ex as [|e ex IH]; intros rest i cs cn cd; simpl.
  - now rewrite Nat.add_0_r, app_nil_r.
  - rewrite IH. rewrite <- app_assoc. simpl. f_equal. lia.
Qed.

Lemma col_iter_groups gs : forall i cur x y,
  (forall g, In g gs -> fst (fst g) <> ""%string /\ fst (fst g) <> "*"%string) ->
  col_iter (flat_map gcells gs ++ [(""%string, x); (""%string, y)]) i cur
  = (match cur with Some g => [g] | None => [] end) ++ groups_from gs i.
Proof.
  induction gs as [|[[n d] ex] r IH]; intros i cur x y H.
  - simpl. destruct cur as [[[cs cn] cd]|]; reflexivity.
  - destruct (H _ (or_introl eq_refl)) as [Hn1 Hn2]. cbn [fst snd] in Hn1, Hn2.
    assert (E1 : String.eqb n "*" = false) by now apply String.eqb_neq.
    assert (E2 : str_nonempty n = true) by (unfold str_nonempty; apply negb_true_iff; now apply String.eqb_neq).
    cbn [flat_map]. unfold gcells at 1. cbn [fst snd]. rewrite <- app_assoc. cbn [app col_iter]. rewrite E1, E2. cbn [negb andb].
    destruct cur as [[[cs cn] cd]|]; cbn [app];
      rewrite col_iter_stars, IH by (intros g Hg; apply H; now right);
      cbn [groups_from fst snd app]; replace (S i + length ex)%nat with (i + S (length ex))%nat by lia; reflexivity.
Qed.

Lemma fold_add_sum l : forall a, fold_left Nat.add l a = (a + list_sum l)%nat.
Proof. induction l as [|x r IH]; intros a; simpl; [lia|]. rewrite IH. lia. Qed.

(* cells n, e, ..., e (nv cells) for every (n, nv) *)
Definition gen_cells (e : string) (l : list (string * nat)) : row :=
  flat_map (fun p => fst p :: repeat e (snd p - 1)) l.

Lemma header_cells_gen l : header_cells l = gen_cells "*" l.
Proof. reflexivity. Qed.

Lemma gen_cells_length e l : Forall (fun p => (1 <= snd p)%nat) l -> length (gen_cells e l) = list_sum (map snd l).
Proof.
  unfold gen_cells. induction 1 as [|p r Hp Hr IH]; [reflexivity|].
  cbn [flat_map map]. change (list_sum (snd p :: map snd r)) with (snd p + list_sum (map snd r))%nat.
  rewrite app_length. cbn [length]. rewrite repeat_length, IH. lia.
Qed.

Lemma repeat_gen_cells (l : list (string * nat)) : Forall (fun p => (1 <= snd p)%nat) l ->
  repeat ""%string (list_sum (map snd l)) = gen_cells "" (map (fun p => (""%string, snd p)) l).
Proof.
  unfold gen_cells. induction 1 as [|p r Hp Hr IH]; [reflexivity|].
  cbn [flat_map map fst snd]. change (list_sum (snd p :: map snd r)) with (snd p + list_sum (map snd r))%nat.
  rewrite repeat_app, IH. replace (snd p) with (S (snd p - 1)) at 1 by lia. reflexivity.
Qed.

Lemma combine_app' {X Y} (a1 a2 : list X) (b1 b2 : list Y) : length a1 = length b1 ->
  combine (a1 ++ a2) (b1 ++ b2) = combine a1 b1 ++ combine a2 b2.
Proof.
  revert b1. induction a1 as [|x r IH]; intros [|y s] H; simpl in *; try discriminate; [reflexivity|].
  f_equal. apply IH. congruence.
Qed.

(* zipping the name cells with the description cells gives the groups *)
Lemma combine_gen_cells e (l : list (string * string * nat)) :
  combine (gen_cells "*" (map (fun q => (fst (fst q), snd q)) l)) (gen_cells e (map (fun q => (snd (fst q), snd q)) l))
  = flat_map gcells (map (fun q => (fst q, repeat e (snd q - 1))) l).
Proof.
  unfold gen_cells. induction l as [|[[n d] nv] r IH]; [reflexivity|].
  cbn [map flat_map fst snd]. unfold gcells at 1. cbn [fst snd app combine]. f_equal.
  rewrite combine_app' by now rewrite !repeat_length. rewrite IH. f_equal.
  clear. induction (nv - 1)%nat; simpl; [reflexivity|]. now f_equal.
Qed.

Lemma seq_add a n : seq a n = map (fun r => (a + r)%nat) (seq 0 n).
Proof.
  induction a as [|a IH]; [now rewrite map_id|].
  rewrite <- seq_shift, IH, map_map. reflexivity.
Qed.

Lemma slice_repeat {T} (x : T) N c m : (c + S m <= N)%nat -> slice (repeat x N) (S c) (c + S m) = repeat x m.
Proof.
  intros H. unfold slice. replace (c + S m - S c)%nat with m by lia.
  replace N with (S c + (N - S c))%nat by lia. rewrite repeat_app, skipn_app, skipn_all2 by (rewrite repeat_length; lia).
  rewrite repeat_length, Nat.sub_diag. simpl.
  replace (N - S c)%nat with (m + (N - S c - m))%nat by lia. rewrite repeat_app, firstn_app, repeat_length.
  rewrite firstn_all2 by (rewrite repeat_length; lia). rewrite Nat.sub_diag. simpl. apply app_nil_r.
Qed.

Definition good_name (n : string) : Prop := n <> ""%string /\ n <> "*"%string /\ prefix "__" n = false.

(* what a databox holds after a sequence of assignments to distinct names *)
Lemma dget_fold_dset A (l : list (string * item A)) : forall acc, NoDup (map fst l) ->
  (forall k it, In (k, it) l -> dget A (fold_left (fun d q => dset A d (fst q) (snd q)) l acc) k = Some it) /\
  (forall k, ~ In k (map fst l) -> dget A (fold_left (fun d q => dset A d (fst q) (snd q)) l acc) k = dget A acc k).
Proof.
  induction l as [|[k0 it0] r IH]; intros acc Hnd; cbn [fold_left map fst snd] in *.
  - split; [intros k it []|reflexivity].
  - inversion Hnd as [|? ? Hn1 Hn2]; subst. destruct (IH (dset A acc k0 it0) Hn2) as [IH1 IH2]. split.
    + intros k it [E|Hin]; [inversion E; subst; rewrite IH2 by assumption; apply dget_dset_same|now apply IH1].
    + intros k Hk. rewrite IH2 by (intros Hx; apply Hk; now right).
      apply dget_dset_other. intros ->. apply Hk. now left.
Qed.

(* ====================================================================== the round trip *)
Section CsvProofs.
Variable A : Arith.
Notation V := (car A).
Notation series := (series A).
Notation databox := (databox A).
Hypothesis miss_law : forall x : V, is_miss A x = true -> x = miss A.

Variable fmt_period : Z -> Z -> string.
Variable parse_period : Z -> string -> option Z.
Variable fmt_val : V -> string.
Variable parse_val : string -> V.
Variable rnd : V -> V.
Hypothesis fmt_period_nonempty : forall f t, fmt_period f t <> ""%string.
Hypothesis period_roundtrip : forall f t, parse_period f (fmt_period f t) = Some t.
Hypothesis value_roundtrip : forall x, is_miss A (rnd x) = false -> parse_val (fmt_val (rnd x)) = rnd x.
Variable o : wopts.
Hypothesis nan_roundtrip : parse_val (w_nan o) = miss A.

Notation vcell := (val_cell A fmt_val rnd (w_nan o)).

Lemma parse_vcell x : parse_val (vcell x) = rnd x.
Proof.
  unfold val_cell. destruct (is_miss A (rnd x)) eqn:E.
  - rewrite nan_roundtrip. symmetry. now apply miss_law.
  - now apply value_roundtrip.
Qed.

Definition itemsT := list (string * (string * series)).
Definition blockT := (Z * list Z * itemsT)%type.

Definition nvs (its : itemsT) : list nat := map (fun p => s_nv (snd (snd p))) its.
Definition sumnv (its : itemsT) : nat := list_sum (nvs its).
Definition its_ok (its : itemsT) : Prop :=
  Forall (fun p => good_name (fst p) /\ WF A (snd (snd p)) /\ (1 <= s_nv (snd (snd p)))%nat) its.

Definition hbody (its : itemsT) : row := header_cells (combine (map fst its) (nvs its)) ++ [""%string].
Definition dbody (its : itemsT) : row :=
  header_cells (combine (map (fun p => fst (snd p)) its) (nvs its)) ++ [""%string].
Definition drow (f : Z) (its : itemsT) (t : Z) : row :=
  fmt_period f t :: flat_map (fun p => map vcell (row_at A (snd (snd p)) t)) its ++ [""%string].
Definition padrow (its : itemsT) : row := ""%string :: repeat ""%string (fold_left Nat.add (nvs its) O) ++ [""%string].
Definition hrows : nat := if w_desc o then 2%nat else 1%nat.
Definition datarow (b : blockT) (r : nat) : row :=
  if Nat.ltb r (length (snd (fst b))) then drow (fst (fst b)) (snd b) (nth r (snd (fst b)) 0) else padrow (snd b).
Definition bgrid (total : nat) (b : blockT) : grid :=
  block_grid A fmt_period fmt_val rnd o total (fst (fst b)) (snd (fst b)) (snd b).

Lemma bgrid_eq total b : bgrid total b =
  [mark_of_freq (fst (fst b)) :: hbody (snd b)] ++ (if w_desc o then [""%string :: dbody (snd b)] else [])
  ++ map (drow (fst (fst b)) (snd b)) (snd (fst b)) ++ repeat (padrow (snd b)) (total - length (snd (fst b))).
Proof. reflexivity. Qed.

Lemma bgrid_length total b : (length (snd (fst b)) <= total)%nat -> length (bgrid total b) = (hrows + total)%nat.
Proof.
  intros H. rewrite bgrid_eq. unfold hrows. rewrite !app_length, map_length, repeat_length.
  destruct (w_desc o); simpl; lia.
Qed.

Lemma bgrid_nth0 total b : nth 0 (bgrid total b) [] = mark_of_freq (fst (fst b)) :: hbody (snd b).
Proof. reflexivity. Qed.

Lemma bgrid_nth1 total b : w_desc o = true -> nth 1 (bgrid total b) [] = ""%string :: dbody (snd b).
Proof. intros H. rewrite bgrid_eq, H. reflexivity. Qed.

Lemma bgrid_nth_data total b r : (length (snd (fst b)) <= total)%nat -> (r < total)%nat ->
  nth (hrows + r) (bgrid total b) [] = datarow b r.
Proof.
  intros Hle Hr. rewrite bgrid_eq. unfold hrows, datarow.
  assert (E : forall (hd : grid) rest, length hd = (if w_desc o then 2 else 1)%nat ->
              nth ((if w_desc o then 2 else 1) + r) (hd ++ rest) [] = nth r rest []).
  { intros hd rest Hl. rewrite <- Hl. apply app_nth2_plus. }
  rewrite app_assoc, E by (destruct (w_desc o); reflexivity).
  destruct (Nat.ltb_spec r (length (snd (fst b)))) as [Hin|Hout].
  - rewrite app_nth1 by now rewrite map_length. now apply nth_map_in.
  - rewrite app_nth2 by (rewrite map_length; lia). rewrite map_length.
    rewrite nth_indep with (d' := padrow (snd b)) by (rewrite repeat_length; lia). apply nth_repeat_same.
Qed.

(* ---- widths ---- *)
Lemma combine_fst_nvs (g : string * (string * series) -> string) (its : itemsT) :
  combine (map g its) (nvs its) = map (fun p => (g p, s_nv (snd (snd p)))) its.
Proof. unfold nvs. apply combine_map2. Qed.

Lemma hcells_length (g : string * (string * series) -> string) (its : itemsT) : its_ok its ->
  length (header_cells (combine (map g its) (nvs its))) = sumnv its.
Proof.
  intros H. rewrite combine_fst_nvs, header_cells_gen, gen_cells_length.
  - unfold sumnv, nvs. now rewrite map_map.
  - apply Forall_forall. intros q Hq. apply in_map_iff in Hq as (p & <- & Hp). cbn [snd].
    eapply Forall_forall in H; [|exact Hp]. tauto.
Qed.

Lemma hbody_length its : its_ok its -> length (hbody its) = S (sumnv its).
Proof. intros H. unfold hbody. rewrite app_length, hcells_length by assumption. simpl. lia. Qed.

Lemma dbody_length its : its_ok its -> length (dbody its) = S (sumnv its).
Proof. intros H. unfold dbody. rewrite app_length, hcells_length by assumption. simpl. lia. Qed.

Lemma vals_length (its : itemsT) t : its_ok its ->
  length (flat_map (fun p => map vcell (row_at A (snd (snd p)) t)) its) = sumnv its.
Proof.
  unfold sumnv, nvs. induction 1 as [|p r Hp Hr IH]; [reflexivity|].
  cbn [flat_map map]. change (list_sum (?x :: ?l)) with (x + list_sum l)%nat.
  rewrite app_length, map_length, IH. rewrite row_at_length by tauto. reflexivity.
Qed.

Lemma drow_length f its t : its_ok its -> length (drow f its t) = S (S (sumnv its)).
Proof. intros H. unfold drow. cbn [length]. rewrite app_length, vals_length by assumption. simpl. lia. Qed.

Lemma padrow_length its : length (padrow its) = S (S (sumnv its)).
Proof.
  unfold padrow. cbn [length]. rewrite app_length, repeat_length, fold_add_sum. unfold sumnv. simpl. lia.
Qed.

Lemma datarow_length b r : its_ok (snd b) -> length (datarow b r) = S (S (sumnv (snd b))).
Proof. intros H. unfold datarow. destruct (Nat.ltb _ _); [now apply drow_length|apply padrow_length]. Qed.

(* ---- the sheet of a list of blocks ---- *)
Definition hdr (b : blockT) : row := mark_of_freq (fst (fst b)) :: hbody (snd b).
Definition NR (bl : list blockT) : row := concat (map hdr bl).
Definition DR (bl : list blockT) : row := concat (map (fun b => ""%string :: dbody (snd b)) bl).
Definition DATA (bl : list blockT) (r : nat) : row := concat (map (fun b => datarow b r) bl).

Definition b_ok (total : nat) (b : blockT) : Prop :=
  its_ok (snd b) /\ snd (fst b) <> [] /\ (length (snd (fst b)) <= total)%nat /\
  is_start (mark_of_freq (fst (fst b))) = Some (fst (fst b)).

Lemma grid_shape total (bl : list blockT) : bl <> [] -> Forall (b_ok total) bl ->
  hcat_all (map (bgrid total) bl) = NR bl :: (if w_desc o then [DR bl] else []) ++ map (DATA bl) (seq 0 total).
Proof.
  intros Hne Hok.
  rewrite (hcat_all_rows _ (hrows + total)).
  2: { destruct bl; [contradiction|discriminate]. }
  2: { intros g Hg. apply in_map_iff in Hg as (b & <- & Hb). apply bgrid_length.
       eapply Forall_forall in Hok; [|exact Hb]. unfold b_ok in Hok. tauto. }
  erewrite map_ext; [|intros r; rewrite map_map; reflexivity].
  assert (Edata : map (fun r => concat (map (fun b => nth r (bgrid total b) []) bl)) (seq hrows total)
                  = map (DATA bl) (seq 0 total)).
  { rewrite (seq_add hrows), map_map. apply map_ext_in. intros r Hr. apply in_seq in Hr. unfold DATA. f_equal.
    apply map_ext_in. intros b Hb. apply bgrid_nth_data; [|lia].
    eapply Forall_forall in Hok; [|exact Hb]. unfold b_ok in Hok. tauto. }
  rewrite seq_app, map_app. cbn [Nat.add].
  match goal with |- _ ++ ?X = _ => replace X with (map (DATA bl) (seq 0 total)) by (symmetry; exact Edata) end.
  clear Edata. unfold hrows.
  destruct (w_desc o) eqn:Ed; cbn [seq map app].
  - f_equal. f_equal. unfold DR. f_equal. apply map_ext. intros b. now apply bgrid_nth1.
  - reflexivity.
Qed.

Lemma widths_pre total (pre : list blockT) : Forall (b_ok total) pre ->
  length (DR pre) = length (NR pre) /\ forall r, length (DATA pre r) = length (NR pre).
Proof.
  unfold DR, NR, DATA. induction 1 as [|b r Hb Hr [IH1 IH2]]; [split; reflexivity|].
  destruct Hb as (Hits & _).
  assert (E1 : length (hdr b) = S (S (sumnv (snd b)))) by (unfold hdr; cbn [length]; now rewrite hbody_length).
  assert (E2 : length (""%string :: dbody (snd b)) = S (S (sumnv (snd b)))) by (cbn [length]; now rewrite dbody_length).
  split.
  - cbn [map concat]. rewrite !app_length. rewrite E1, E2, IH1. reflexivity.
  - intros r0. cbn [map concat]. rewrite !app_length. rewrite IH2, datarow_length, E1 by assumption. reflexivity.
Qed.

(* ---- one block ---- *)
Definition imp_series (f : Z) (ps : list Z) (s : series) : series :=
  set_data A f (empty_series A (s_nv s)) ps (map (fun t => map rnd (row_at A s t)) ps) None.

Definition imported (b : blockT) : list (string * item A) :=
  map (fun p => let s' := imp_series (fst (fst b)) (snd (fst b)) (snd (snd p)) in
                (fst p, ISer A (kept_desc A (snd (fst b)) s' (if w_desc o then fst (snd p) else ""%string)) s'))
      (snd b).

Definition dcell_of (p : string * (string * series)) : string := if w_desc o then fst (snd p) else ""%string.
Definition gs_of (its : itemsT) : list (string * string * list string) :=
  map (fun p => ((fst p, dcell_of p), repeat (if w_desc o then "*"%string else ""%string) (s_nv (snd (snd p)) - 1))) its.

Lemma groups_from_gs (post : itemsT) : forall off, its_ok post ->
  groups_from (gs_of post) off =
  match post with
  | [] => []
  | p :: r => (seq off (s_nv (snd (snd p))), fst p, dcell_of p) :: groups_from (gs_of r) (off + s_nv (snd (snd p)))
  end.
Proof.
  intros off H. destruct post as [|p r]; [reflexivity|]. inversion H as [|? ? Hp Hr]; subst.
  cbn [gs_of map groups_from fst snd]. rewrite repeat_length.
  replace (S (s_nv (snd (snd p)) - 1)) with (s_nv (snd (snd p))) by lia. reflexivity.
Qed.

Lemma import_groups_fold (DATAw : nat -> row) col f ps (its : itemsT) :
  its_ok its ->
  (forall r j, (r < length ps)%nat -> (j < S (S (sumnv its)))%nat ->
               cell_at (DATAw r) (col + j) = nth j (drow f its (nth r ps 0)) ""%string) ->
  forall (post pre : itemsT) acc, its = pre ++ post ->
  fold_left (fun d g => let '(cs, n, ds) := g in
               let s := set_data A f (empty_series A (length cs)) ps
                          (map (fun r => map (fun c => parse_val (cell_at r (S col + c))) cs)
                               (map DATAw (seq 0 (length ps)))) None in
               dset A d n (ISer A (kept_desc A ps s ds) s))
            (groups_from (gs_of post) (sumnv pre)) acc
  = fold_left (fun d q => dset A d (fst q) (snd q)) (imported (f, ps, post)) acc.
Proof.
  intros Hok Hcell. induction post as [|p post IH]; intros pre acc E; [reflexivity|].
  assert (Hpost : its_ok (p :: post)).
  { subst its. unfold its_ok in *. apply Forall_app in Hok. tauto. }
  rewrite groups_from_gs by assumption. cbn [fold_left]. unfold imported at 1. cbn [map fold_left fst snd].
  pose proof (Forall_inv Hpost) as Hp. destruct Hp as (Hgood & Hwf & Hnv).
  set (nv := s_nv (snd (snd p))) in *. rewrite seq_length.
  assert (Hpre : its_ok pre) by (subst its; unfold its_ok in *; apply Forall_app in Hok; tauto).
  assert (Hsum : sumnv its = (sumnv pre + (nv + sumnv post))%nat).
  { rewrite E. unfold sumnv, nvs. rewrite map_app, list_sum_app. reflexivity. }
  assert (Erows : map (fun r => map (fun c => parse_val (cell_at r (S col + c))) (seq (sumnv pre) nv))
                      (map DATAw (seq 0 (length ps)))
                  = map (fun t => map rnd (row_at A (snd (snd p)) t)) ps).
  { rewrite map_map. apply map_seq_nth with (d := 0). intros r Hr.
    rewrite (seq_add (sumnv pre)), map_map.
    assert (Hlen : length (row_at A (snd (snd p)) (nth r ps 0)) = nv) by now apply row_at_length.
    rewrite <- Hlen. apply map_seq_nth with (d := miss A). intros m Hm. rewrite Hlen in Hm.
    replace (S col + (sumnv pre + m))%nat with (col + S (sumnv pre + m))%nat by lia.
    rewrite Hcell by lia. unfold drow. cbn [nth].
    rewrite app_nth1 by (rewrite vals_length by assumption; lia).
    rewrite E, flat_map_app. cbn [flat_map].
    rewrite <- (vals_length pre (nth r ps 0) Hpre) at 1. rewrite app_nth2_plus.
    rewrite app_nth1 by (rewrite map_length; lia).
    rewrite nth_map_in with (d' := miss A) by lia.
    apply parse_vcell. }
  rewrite Erows. specialize (IH (pre ++ [p])).
  replace (sumnv (pre ++ [p])) with (sumnv pre + nv)%nat in IH
    by (unfold sumnv, nvs; rewrite map_app, list_sum_app; simpl; fold nv; lia).
  apply IH. rewrite <- app_assoc. exact E.
Qed.

Lemma gs_cells (its : itemsT) : its_ok its ->
  combine (header_cells (combine (map fst its) (nvs its)))
          (if w_desc o then header_cells (combine (map (fun p => fst (snd p)) its) (nvs its))
           else repeat ""%string (sumnv its))
  = flat_map gcells (gs_of its).
Proof.
  intros Hok.
  set (l := map (fun p => ((fst p, dcell_of p), s_nv (snd (snd p)))) its).
  assert (E1 : combine (map fst its) (nvs its) = map (fun q => (fst (fst q), snd q)) l).
  { rewrite combine_fst_nvs. unfold l. rewrite map_map. reflexivity. }
  assert (Hl : Forall (fun p : string * nat => (1 <= snd p)%nat) (map (fun q => (snd (fst q), snd q)) l)).
  { unfold l. rewrite map_map. apply Forall_forall. intros q Hq. apply in_map_iff in Hq as (p & <- & Hp). cbn [snd fst].
    eapply Forall_forall in Hok; [|exact Hp]. tauto. }
  assert (E3 : gs_of its = map (fun q => (fst q, repeat (if w_desc o then "*"%string else ""%string) (snd q - 1))) l).
  { unfold gs_of, l. rewrite map_map. reflexivity. }
  rewrite E1, E3, header_cells_gen, <- combine_gen_cells. f_equal.
  unfold dcell_of in *. destruct (w_desc o).
  - rewrite combine_fst_nvs, header_cells_gen. unfold l. rewrite map_map. reflexivity.
  - assert (E4 : sumnv its = list_sum (map snd (map (fun q : string * string * nat => (snd (fst q), snd q)) l))).
    { unfold sumnv, nvs, l. rewrite !map_map. reflexivity. }
    rewrite E4, repeat_gen_cells by assumption. f_equal. unfold l. rewrite !map_map. reflexivity.
Qed.

Lemma import_block_step (NRw DRw : row) (DATAw : nat -> row) total col f ps (its : itemsT) acc :
  b_ok total (f, ps, its) ->
  slice NRw (S col) (col + S (length (hbody its))) = hbody its ->
  slice DRw (S col) (col + S (length (hbody its))) = (if w_desc o then dbody its else repeat ""%string (length (hbody its))) ->
  (forall r j, (r < total)%nat -> (j < S (S (sumnv its)))%nat ->
               cell_at (DATAw r) (col + j) = nth j (datarow (f, ps, its) r) ""%string) ->
  import_block A parse_period parse_val NRw DRw (map DATAw (seq 0 total)) (Ok acc) (f, col, (col + S (length (hbody its)))%nat)
  = Ok (fold_left (fun d q => dset A d (fst q) (snd q)) (imported (f, ps, its)) acc).
Proof.
  intros (Hits & Hne & Hle & Hst) Hn Hd Hcell. cbn [fst snd] in *.
  assert (Hlen : (0 < length ps)%nat) by (destruct ps; [contradiction|simpl; lia]).
  assert (Hdate : forall r, (r < total)%nat ->
            cell_at (DATAw r) col = if Nat.ltb r (length ps) then fmt_period f (nth r ps 0) else ""%string).
  { intros r Hr. rewrite <- (Nat.add_0_r col) at 1. rewrite Hcell by lia. unfold datarow. cbn [fst snd].
    destruct (Nat.ltb r (length ps)); reflexivity. }
  unfold import_block.
  remember (map DATAw (seq 0 total)) as rows eqn:Erows.
  destruct rows as [|r0 rest].
  { destruct total; [lia|discriminate]. }
  assert (Er0 : r0 = DATAw 0%nat) by (destruct total; [lia|]; simpl in Erows; now inversion Erows).
  rewrite Er0, Hdate by lia. destruct (Nat.ltb_spec 0 (length ps)); [|lia].
  rewrite period_roundtrip. rewrite <- Er0, Erows. clear Er0 r0 rest Erows.
  rewrite (filter_map_seq_prefix _ DATAw (length ps) total Hle).
  2:{ intros r Hr. rewrite Hdate by assumption. unfold str_nonempty.
      destruct (Nat.ltb r (length ps)); [|reflexivity].
      apply negb_true_iff. apply String.eqb_neq. apply fmt_period_nonempty. }
  rewrite map_map.
  assert (Eper : map (fun x => parse_period f (cell_at (DATAw x) col)) (seq 0 (length ps))
                 = map (fun r => Some (nth r ps 0)) (seq 0 (length ps))).
  { apply map_ext_in. intros r Hr. apply in_seq in Hr. rewrite Hdate by lia.
    destruct (Nat.ltb_spec r (length ps)); [|lia]. apply period_roundtrip. }
  rewrite Eper, all_some_map_Some, map_nth_seq. clear Eper.
  rewrite Hn, Hd.
  assert (Ecomb : combine (hbody its ++ [""%string])
                          ((if w_desc o then dbody its else repeat ""%string (length (hbody its))) ++ [""%string])
                  = flat_map gcells (gs_of its) ++ [(""%string, ""%string); (""%string, ""%string)]).
  { rewrite <- gs_cells by assumption. unfold hbody, dbody. destruct (w_desc o).
    - rewrite <- !app_assoc. rewrite combine_app' by now rewrite !hcells_length. reflexivity.
    - rewrite app_length, hcells_length by assumption. cbn [length]. rewrite repeat_app. cbn [repeat].
      rewrite <- !app_assoc. rewrite combine_app' by now rewrite hcells_length, repeat_length. reflexivity. }
  rewrite Ecomb, col_iter_groups.
  2:{ intros g Hg. unfold gs_of in Hg. apply in_map_iff in Hg as (p & <- & Hp). cbn [fst].
      eapply Forall_forall in Hits; [|exact Hp]. destruct Hits as ((H1 & H2 & _) & _). split; assumption. }
  cbn [app]. f_equal.
  apply (import_groups_fold DATAw col f ps its Hits) with (pre := []); [|reflexivity].
  intros r j Hr Hj. rewrite Hcell by lia. unfold datarow. cbn [fst snd].
  destruct (Nat.ltb_spec r (length ps)); [reflexivity|lia].
Qed.

(* ---- all blocks ---- *)
Lemma NR_app l1 l2 : NR (l1 ++ l2) = NR l1 ++ NR l2.
Proof. unfold NR. now rewrite map_app, concat_app. Qed.
Lemma DR_app l1 l2 : DR (l1 ++ l2) = DR l1 ++ DR l2.
Proof. unfold DR. now rewrite map_app, concat_app. Qed.
Lemma DATA_app l1 l2 r : DATA (l1 ++ l2) r = DATA l1 r ++ DATA l2 r.
Proof. unfold DATA. now rewrite map_app, concat_app. Qed.

Lemma import_blocks_fold total (bl : list blockT) : Forall (b_ok total) bl ->
  forall post pre acc, bl = pre ++ post ->
  fold_left (import_block A parse_period parse_val (NR bl)
               (if w_desc o then DR bl else repeat ""%string (length (NR bl)))
               (map (DATA bl) (seq 0 total)))
            (blocks_from (map (fun b => (fst (fst b), hbody (snd b))) post) (length (NR pre))) (Ok acc)
  = Ok (fold_left (fun d q => dset A d (fst q) (snd q)) (concat (map imported post)) acc).
Proof.
  intros Hok. induction post as [|b post IH]; intros pre acc E; [reflexivity|].
  destruct b as [[f ps] its]. cbn [map blocks_from fst snd fold_left].
  assert (Hall : Forall (b_ok total) pre /\ b_ok total (f, ps, its) /\ Forall (b_ok total) post).
  { rewrite E in Hok. apply Forall_app in Hok as [H1 H2]. inversion H2; subst. tauto. }
  destruct Hall as (Hpre & Hb & Hpost).
  destruct (widths_pre total pre Hpre) as [Wd Wdata].
  assert (Hits : its_ok its) by (destruct Hb; assumption).
  assert (ENR : NR bl = NR pre ++ (mark_of_freq f :: hbody its) ++ NR post).
  { rewrite E, NR_app. reflexivity. }
  rewrite (import_block_step _ _ (DATA bl) total (length (NR pre)) f ps its acc Hb).
  - specialize (IH (pre ++ [(f, ps, its)]) (fold_left (fun d q => dset A d (fst q) (snd q)) (imported (f, ps, its)) acc)).
    assert (EL : length (NR (pre ++ [(f, ps, its)])) = (length (NR pre) + S (length (hbody its)))%nat).
    { rewrite NR_app, app_length. unfold NR at 2. cbn [map concat hdr fst snd]. rewrite app_nil_r. reflexivity. }
    rewrite EL in IH. rewrite IH by (rewrite <- app_assoc; exact E).
    cbn [map concat]. now rewrite fold_left_app.
  - rewrite ENR. apply slice_mid.
  - destruct (w_desc o) eqn:Ed.
    + assert (EDR : DR bl = DR pre ++ (""%string :: dbody its) ++ DR post).
      { rewrite E, DR_app. reflexivity. }
      rewrite EDR, <- Wd, hbody_length, <- (dbody_length its) by assumption. apply slice_mid.
    + apply slice_repeat. rewrite ENR, !app_length. cbn [length]. lia.
  - intros r j Hr Hj.
    assert (ED : DATA bl r = DATA pre r ++ datarow (f, ps, its) r ++ DATA post r).
    { rewrite E, DATA_app. reflexivity. }
    unfold cell_at. rewrite ED, <- (Wdata r), app_nth2_plus. apply app_nth1.
    rewrite datarow_length by assumption. exact Hj.
Qed.

Lemma hbody_no_end (its : itemsT) : its_ok its -> Forall (fun c => is_end c = false) (hbody its).
Proof.
  intros H. unfold hbody. apply Forall_app. split; [|repeat constructor].
  rewrite combine_fst_nvs. unfold header_cells. apply Forall_forall. intros c Hc.
  apply in_flat_map in Hc as (q & Hq & Hc). apply in_map_iff in Hq as (p & <- & Hp). cbn [fst snd] in Hc.
  destruct Hc as [<-|Hc].
  - eapply Forall_forall in H; [|exact Hp]. destruct H as ((_ & _ & Hpre) & _). exact Hpre.
  - apply repeat_spec in Hc. subst c. reflexivity.
Qed.

Theorem import_export_blocks total (bl : list blockT) : bl <> [] -> Forall (b_ok total) bl ->
  import A parse_period parse_val (w_desc o) (hcat_all (map (bgrid total) bl))
  = Ok (fold_left (fun d q => dset A d (fst q) (snd q)) (concat (map imported bl)) []).
Proof.
  intros Hne Hok. rewrite grid_shape by assumption.
  assert (Eblocks : blocks_of (NR bl) = blocks_from (map (fun b => (fst (fst b), hbody (snd b))) bl) 0).
  { unfold blocks_of, NR.
    replace (map hdr bl) with (map (fun p : Z * row => mark_of_freq (fst p) :: snd p)
                                   (map (fun b : blockT => (fst (fst b), hbody (snd b))) bl))
      by (rewrite map_map; reflexivity).
    rewrite scan_marks; [reflexivity|].
    intros f body Hin. apply in_map_iff in Hin as (b & Eb & Hb). inversion Eb; subst.
    eapply Forall_forall in Hok; [|exact Hb]. destruct Hok as (H1 & _ & _ & H4). split; [assumption|now apply hbody_no_end]. }
  pose proof (import_blocks_fold total bl Hok bl [] [] eq_refl) as Hfold. cbn [NR map concat length] in Hfold.
  unfold import. destruct (w_desc o); cbn [app]; rewrite Eblocks; exact Hfold.
Qed.

(* ---- the series that comes back ---- *)
Lemma imp_series_spec f ps (s : series) : WF A s ->
  let s' := imp_series f ps s in
  WF A s' /\ Trimmed A s' /\ s_nv s' = s_nv s /\
  (forall t, row_at A s' t = if in_dec Z.eq_dec t ps then map rnd (row_at A s t) else missrow A (s_nv s)) /\
  (s_start s' <> None -> s_freq s' = f).
Proof.
  intros Hwf s'. unfold s', imp_series.
  split; [exact (set_data_WF A miss_law f (empty_series A (s_nv s)) ps _ (empty_WF A _))|].
  split; [exact (set_data_Trimmed A miss_law f (empty_series A (s_nv s)) ps _ None (empty_WF A _) (or_intror eq_refl))|].
  split; [exact (set_data_nv A f (empty_series A (s_nv s)) ps _)|].
  split.
  - intros t. rewrite (row_at_set_data A miss_law) by apply empty_WF.
    destruct (in_dec Z.eq_dec t ps) as [Hin|Hout].
    + rewrite (last_assoc_map A t ps (fun u => map rnd (row_at A s u))) by assumption.
      cbn [empty_series s_nv]. apply bcast_row_id. rewrite map_length. now apply row_at_length.
    + rewrite last_assoc_notin by assumption. reflexivity.
  - destruct ps as [|p0 pr]; [intros H; exfalso; apply H; reflexivity|].
    unfold set_data, build, trim. cbn [empty_series s_start s_freq s_nv s_data].
    destruct (drop_leading A _) as [m r1]. destruct (rev (snd (drop_leading A (rev r1)))); cbn [s_start s_freq].
    + intros H. exfalso. now apply H.
    + reflexivity.
Qed.

(* ---- from the databox to the blocks ---- *)
Lemma In_series_of_freq (db : databox) f n d s :
  In (n, (d, s)) (series_of_freq A db f) <-> In (n, ISer A d s) db /\ sfreq A s = f.
Proof.
  unfold series_of_freq. rewrite in_flat_map. split.
  - intros ([k it] & Hin & Hx). cbn [fst snd] in Hx. destruct it as [[v|d0 s0]|l]; try destruct Hx.
    destruct (Z.eqb_spec (sfreq A s0) f) as [Ef|]; [|destruct Hx]. destruct Hx as [Hx|[]]. inversion Hx; subst.
    split; [exact Hin|reflexivity].
  - intros [Hin Ef]. exists (n, ISer A d s). split; [assumption|]. cbn [fst snd ISer].
    rewrite Ef, Z.eqb_refl. now left.
Qed.

Lemma In_db_dget (db : databox) n it : ND A db -> (In (n, it) db <-> dget A db n = Some it).
Proof.
  unfold ND. induction db as [|[k v] r IH]; intros Hnd; cbn [dget names map fst] in *.
  - split; [intros []|discriminate].
  - inversion Hnd as [|? ? Hn1 Hn2]; subst. destruct (String.eqb_spec k n) as [->|Hne].
    + split.
      * intros [E|Hin]; [now inversion E|]. exfalso. apply Hn1. apply in_map_iff. now exists (n, it).
      * intros E. inversion E. now left.
    + rewrite <- (IH Hn2). split; [intros [E|Hin]; [inversion E; congruence|assumption]|intros Hin; now right].
Qed.

Lemma sof_names_sub (db : databox) f n : In n (map fst (series_of_freq A db f)) -> In n (names A db).
Proof.
  intros H. apply in_map_iff in H as ([k [d s]] & <- & Hin). apply In_series_of_freq in Hin as [Hin _].
  apply in_map_iff. now exists (k, ISer A d s).
Qed.

Lemma sof_NoDup (db : databox) f : ND A db -> NoDup (map fst (series_of_freq A db f)).
Proof.
  unfold ND. induction db as [|[k v] r IH]; intros Hnd; [constructor|].
  cbn [names map fst] in Hnd. inversion Hnd as [|? ? Hn1 Hn2]; subst.
  change (series_of_freq A ((k, v) :: r) f) with
    ((match v with INon (ESer d s) => if sfreq A s =? f then [(k, (d, s))] else [] | _ => [] end) ++ series_of_freq A r f).
  specialize (IH Hn2).
  assert (Hk : ~ In k (map fst (series_of_freq A r f))) by (intros Hx; apply Hn1; eapply sof_names_sub; eauto).
  destruct v as [[x|d s]|l]; try exact IH. destruct (sfreq A s =? f); [|exact IH].
  cbn [app map fst]. now constructor.
Qed.

Definition blocks_of_db (db1 : databox) (fs : list (Z * list Z)) : list blockT :=
  flat_map (fun p => match series_of_freq A db1 (fst p) with [] => [] | its => [(fst p, snd p, its)] end) fs.

Lemma export_as_blocks (db : databox) :
  export A fmt_period fmt_val rnd db o
  = hcat_all (map (bgrid (total_rows (resolve_fspan A (selected A db o) (w_fspan o))))
                  (blocks_of_db (selected A db o) (resolve_fspan A (selected A db o) (w_fspan o)))).
Proof.
  unfold export. f_equal. unfold blocks_of_db.
  induction (resolve_fspan A (selected A db o) (w_fspan o)) as [|p fs IH] at 2 4; [reflexivity|].
  cbn [flat_map]. rewrite map_app, IH. f_equal.
  destruct (series_of_freq A (selected A db o) (fst p)); reflexivity.
Qed.

Lemma In_blocks (db1 : databox) fs (b : blockT) :
  In b (blocks_of_db db1 fs) <->
  In (fst b) fs /\ snd b = series_of_freq A db1 (fst (fst b)) /\ snd b <> [].
Proof.
  unfold blocks_of_db. rewrite in_flat_map. split.
  - intros (p & Hp & Hb). destruct (series_of_freq A db1 (fst p)) as [|x r] eqn:E; [destruct Hb|].
    destruct Hb as [<-|[]]. cbn [fst snd]. rewrite <- surjective_pairing. rewrite E. repeat split; [assumption|discriminate].
  - intros (Hp & Hs & Hne). exists (fst b). split; [assumption|].
    destruct b as [[f ps] its]. cbn [fst snd] in *. rewrite <- Hs. destruct its; [contradiction|now left].
Qed.

Lemma total_rows_ge (fs : list (Z * list Z)) p : In p fs -> (length (snd p) <= total_rows fs)%nat.
Proof.
  unfold total_rows.
  assert (G : forall l m, (m <= fold_left (fun m p => Nat.max m (length (snd p))) l m)%nat /\
                          forall q : Z * list Z, In q l -> (length (snd q) <= fold_left (fun m p => Nat.max m (length (snd p))) l m)%nat).
  { induction l as [|x r IH]; intros m; cbn [fold_left]; [split; [lia|intros q []]|].
    destruct (IH (Nat.max m (length (snd x)))) as [I1 I2]. split; [lia|].
    intros q [->|Hq]; [lia|now apply I2]. }
  intros H. now apply (proj2 (G fs O)).
Qed.

Lemma NoDup_app_intro {T} (a b : list T) : NoDup a -> NoDup b -> (forall x, In x a -> ~ In x b) -> NoDup (a ++ b).
Proof.
  induction a as [|x r IH]; intros Ha Hb Hd; [assumption|]. inversion Ha; subst. cbn [app]. constructor.
  - rewrite in_app_iff. intros [H|H]; [contradiction|]. apply (Hd x); [now left|assumption].
  - apply IH; [assumption|assumption|]. intros y Hy. apply Hd. now right.
Qed.

Lemma blocks_names_NoDup (db1 : databox) fs : ND A db1 -> NoDup (map fst fs) ->
  NoDup (concat (map (fun b : blockT => map fst (snd b)) (blocks_of_db db1 fs))).
Proof.
  intros Hnd. induction fs as [|p fs IH]; intros Hfs; [constructor|].
  cbn [map] in Hfs. inversion Hfs as [|? ? Hf1 Hf2]; subst.
  unfold blocks_of_db. cbn [flat_map]. rewrite map_app, concat_app. apply NoDup_app_intro.
  - destruct (series_of_freq A db1 (fst p)) as [|x r] eqn:E; [constructor|]. rewrite <- E. cbn [map concat snd].
    rewrite app_nil_r. now apply sof_NoDup.
  - now apply IH.
  - intros n Hn1 Hn2.
    assert (H1 : exists d s, In (n, ISer A d s) db1 /\ sfreq A s = fst p).
    { destruct (series_of_freq A db1 (fst p)) as [|x r] eqn:E; [destruct Hn1|]. rewrite <- E in Hn1.
      cbn [map concat snd] in Hn1. rewrite app_nil_r in Hn1. apply in_map_iff in Hn1 as ([k [d s]] & <- & Hin).
      apply In_series_of_freq in Hin. now exists d, s. }
    destruct H1 as (d & s & Hin & Ef).
    apply in_concat in Hn2 as (l & Hl & Hn2). apply in_map_iff in Hl as (b & <- & Hb).
    apply In_blocks in Hb as (Hb1 & Hb2 & _). rewrite Hb2 in Hn2.
    apply in_map_iff in Hn2 as ([k [d' s']] & Ek & Hin'). cbn [fst] in Ek. subst k.
    apply In_series_of_freq in Hin' as [Hin' Ef'].
    apply (In_db_dget db1 n _ Hnd) in Hin. apply (In_db_dget db1 n _ Hnd) in Hin'.
    rewrite Hin in Hin'. inversion Hin'; subst s' d'.
    apply Hf1. apply in_map_iff. exists (fst b). split; [transitivity (sfreq A s); [symmetry; exact Ef'|exact Ef]|assumption].
Qed.

Lemma ND_shallow (db : databox) s t : ND A (d_shallow A db s t).
Proof.
  unfold d_shallow.
  assert (G : forall l acc, ND A acc ->
    ND A (fold_left (fun acc p => match dget A db (fst p) with Some v => dset A acc (snd p) v | None => acc end) l acc)).
  { induction l as [|x r IH]; intros acc H; cbn [fold_left]; [assumption|].
    apply IH. destruct (dget A db (fst x)); [now apply ND_dset|assumption]. }
  apply G. constructor.
Qed.

Lemma resolve_fspan_fst (db1 : databox) l : map fst (resolve_fspan A db1 l) = map fst l.
Proof. unfold resolve_fspan. rewrite map_map. reflexivity. Qed.

(* ====================================================================== csv_roundtrip *)
Theorem csv_roundtrip (db : databox) :
  let db1 := selected A db o in
  let fs := resolve_fspan A db1 (w_fspan o) in
  NoDup (map fst (w_fspan o)) ->
  (forall n d s ps, dget A db1 n = Some (ISer A d s) -> In (sfreq A s, ps) fs ->
     good_name n /\ WF A s /\ (1 <= s_nv s)%nat /\ ps <> [] /\
     is_start (mark_of_freq (sfreq A s)) = Some (sfreq A s)) ->
  exists db', import A parse_period parse_val (w_desc o) (export A fmt_period fmt_val rnd db o) = Ok db' /\
    (forall n d s ps, dget A db1 n = Some (ISer A d s) -> In (sfreq A s, ps) fs ->
       let s' := imp_series (sfreq A s) ps s in
       dget A db' n = Some (ISer A (kept_desc A ps s' (if w_desc o then d else ""%string)) s')) /\
    (forall n, (forall d s ps, dget A db1 n = Some (ISer A d s) -> ~ In (sfreq A s, ps) fs) -> dget A db' n = None).
Proof.
  intros db1 fs Hfs Hgood.
  assert (Hnd1 : ND A db1) by apply ND_shallow.
  set (bl := blocks_of_db db1 fs).
  assert (Hmem : forall n d s ps, dget A db1 n = Some (ISer A d s) -> In (sfreq A s, ps) fs ->
             In (sfreq A s, ps, series_of_freq A db1 (sfreq A s)) bl /\
             In (n, (d, s)) (series_of_freq A db1 (sfreq A s))).
  { intros n d s ps Hget Hin.
    assert (Hs : In (n, (d, s)) (series_of_freq A db1 (sfreq A s))).
    { apply In_series_of_freq. split; [now apply In_db_dget|reflexivity]. }
    split; [|assumption]. apply In_blocks. cbn [fst snd]. repeat split; [assumption|].
    intros E. rewrite E in Hs. destruct Hs. }
  assert (Hbl : forall b, In b bl -> forall p, In p (snd b) ->
             dget A db1 (fst p) = Some (ISer A (fst (snd p)) (snd (snd p))) /\ sfreq A (snd (snd p)) = fst (fst b) /\
             In (fst b) fs).
  { intros b Hb p Hp. apply In_blocks in Hb as (Hb1 & Hb2 & _). rewrite Hb2 in Hp.
    destruct p as [n [d s]]. apply In_series_of_freq in Hp as [Hp Ef]. cbn [fst snd].
    split; [now apply In_db_dget|]. split; assumption. }
  assert (Hok : Forall (b_ok (total_rows fs)) bl).
  { apply Forall_forall. intros b Hb. pose proof (Hbl b Hb) as Hp.
    pose proof Hb as Hb'. apply In_blocks in Hb' as (Hb1 & Hb2 & Hb3).
    assert (Hall : forall p, In p (snd b) ->
              good_name (fst p) /\ WF A (snd (snd p)) /\ (1 <= s_nv (snd (snd p)))%nat /\ snd (fst b) <> [] /\
              is_start (mark_of_freq (fst (fst b))) = Some (fst (fst b))).
    { intros p Hin. destruct (Hp p Hin) as (Hget & Ef & Hfs').
      destruct (Hgood (fst p) (fst (snd p)) (snd (snd p)) (snd (fst b)) Hget) as (G1 & G2 & G3 & G4 & G5).
      - rewrite Ef, <- surjective_pairing. exact Hfs'.
      - rewrite Ef in G5. tauto. }
    unfold b_ok. split; [|split; [|split]].
    - apply Forall_forall. intros p Hin. destruct (Hall p Hin). tauto.
    - destruct (snd b) as [|p0 r0] eqn:E0; [contradiction|]. destruct (Hall p0 (or_introl eq_refl)). tauto.
    - apply (total_rows_ge fs (fst b) Hb1).
    - destruct (snd b) as [|p0 r0] eqn:E0; [contradiction|]. destruct (Hall p0 (or_introl eq_refl)). tauto. }
  assert (Hnames : NoDup (map fst (concat (map imported bl)))).
  { rewrite concat_map, map_map.
    replace (map (fun x => map fst (imported x)) bl) with (map (fun b : blockT => map fst (snd b)) bl)
      by (apply map_ext; intros b; unfold imported; now rewrite map_map).
    apply blocks_names_NoDup; [assumption|]. unfold fs. now rewrite resolve_fspan_fst. }
  rewrite export_as_blocks. fold db1 fs bl.
  destruct bl as [|b0 bl0] eqn:Ebl.
  - exists []. split; [reflexivity|]. split; [|reflexivity].
    intros n d s ps Hget Hin. destruct (Hmem n d s ps Hget Hin) as [[] _].
  - rewrite <- Ebl in *. rewrite import_export_blocks by (try assumption; rewrite Ebl; discriminate).
    eexists. split; [reflexivity|].
    destruct (dget_fold_dset A (concat (map imported bl)) [] Hnames) as [D1 D2]. split.
    + intros n d s ps Hget Hin s'. apply D1. destruct (Hmem n d s ps Hget Hin) as [Hb Hp].
      apply in_concat. exists (imported (sfreq A s, ps, series_of_freq A db1 (sfreq A s))).
      split; [apply in_map; exact Hb|]. unfold imported. cbn [fst snd].
      apply in_map_iff. exists (n, (d, s)). split; [reflexivity|exact Hp].
    + intros n Hn. rewrite D2; [reflexivity|]. intros Hx.
      apply in_map_iff in Hx as ([k it] & Ek & Hx). cbn [fst] in Ek. subst k.
      apply in_concat in Hx as (l & Hl & Hx). apply in_map_iff in Hl as (b & <- & Hb).
      unfold imported in Hx. apply in_map_iff in Hx as (p & Ep & Hp). inversion Ep; subst.
      destruct (Hbl b Hb p Hp) as (Hget & Ef & Hfs').
      apply (Hn _ _ (snd (fst b)) Hget). rewrite Ef, <- surjective_pairing. exact Hfs'.
Qed.

(* ---- lossless on trimmed series when the span covers them ---- *)
Hypothesis miss_is_miss : is_miss A (miss A) = true.

Lemma all_miss_missrow' n : all_miss A (missrow A n) = true.
Proof. unfold all_miss, missrow. apply forallb_forall. intros x Hx. apply repeat_spec in Hx. now subst. Qed.

Lemma row_at_first (s : series) st : s_start s = Some st -> s_data s <> [] -> row_at A s st = hd [] (s_data s).
Proof.
  intros Es Hne. unfold row_at. rewrite Es, Z.ltb_irrefl, Z.sub_diag. simpl.
  destruct (s_data s); [contradiction|reflexivity].
Qed.

Lemma nth_pred_last {T} (l : list T) d d' : l <> [] -> nth (length l - 1) l d = last l d'.
Proof.
  induction l as [|x r IH]; intros H; [contradiction|]. destruct r as [|y r]; [reflexivity|].
  replace (length (x :: y :: r) - 1)%nat with (S (length (y :: r) - 1)) by (simpl; lia).
  specialize (IH ltac:(discriminate)). set (k := (length (y :: r) - 1)%nat) in *.
  change (nth (S k) (x :: y :: r) d) with (nth k (y :: r) d). rewrite IH. reflexivity.
Qed.

Lemma last_map' {X Y} (f : X -> Y) l d : last (map f l) (f d) = f (last l d).
Proof. induction l as [|x r IH]; [reflexivity|]. destruct r; [reflexivity|]. exact IH. Qed.

Lemma row_at_last (s : series) st : s_start s = Some st -> s_data s <> [] ->
  row_at A s (st + Z.of_nat (length (s_data s)) - 1) = last (s_data s) [].
Proof.
  intros Es Hne. unfold row_at. rewrite Es.
  assert (Hpos : (0 < length (s_data s))%nat) by (destruct (s_data s); [contradiction|simpl; lia]).
  destruct (Z.ltb_spec (st + Z.of_nat (length (s_data s)) - 1) st) as [H|H]; [lia|].
  replace (Z.to_nat (st + Z.of_nat (length (s_data s)) - 1 - st)) with (length (s_data s) - 1)%nat by lia.
  now apply nth_pred_last.
Qed.

(* a trimmed, well-formed series is determined by its period -> row map *)
Lemma trimmed_ext (s1 s2 : series) : WF A s1 -> WF A s2 -> Trimmed A s1 -> Trimmed A s2 -> s_nv s1 = s_nv s2 ->
  (forall t, row_at A s1 t = row_at A s2 t) -> s_start s1 = s_start s2 /\ s_data s1 = s_data s2.
Proof.
  intros W1 W2 T1 T2 Hnv Hrow. unfold Trimmed in *.
  destruct (s_start s1) as [a|] eqn:E1; destruct (s_start s2) as [b|] eqn:E2.
  - destruct T1 as (N1 & F1 & L1). destruct T2 as (N2 & F2 & L2).
    set (e1 := a + Z.of_nat (length (s_data s1)) - 1). set (e2 := b + Z.of_nat (length (s_data s2)) - 1).
    assert (En1 : s_end A s1 = Some e1) by (unfold s_end; now rewrite E1).
    assert (En2 : s_end A s2 = Some e2) by (unfold s_end; now rewrite E2).
    assert (Hab : a = b).
    { destruct (Z.lt_trichotomy a b) as [H|[H|H]]; [|assumption|].
      - exfalso. rewrite <- (row_at_first s1 a E1 N1), Hrow in F1.
        rewrite (row_at_outside A s2 a b e2 E2 En2) in F1 by lia. rewrite all_miss_missrow' in F1. discriminate.
      - exfalso. rewrite <- (row_at_first s2 b E2 N2), <- Hrow in F2.
        rewrite (row_at_outside A s1 b a e1 E1 En1) in F2 by lia. rewrite all_miss_missrow' in F2. discriminate. }
    subst b.
    assert (Hee : e1 = e2).
    { destruct (Z.lt_trichotomy e1 e2) as [H|[H|H]]; [|assumption|].
      - exfalso. unfold e2 in *. rewrite <- (row_at_last s2 a E2 N2), <- Hrow in L2.
        rewrite (row_at_outside A s1 _ a e1 E1 En1) in L2 by (fold e2; lia). rewrite all_miss_missrow' in L2. discriminate.
      - exfalso. unfold e1 in *. rewrite <- (row_at_last s1 a E1 N1), Hrow in L1.
        rewrite (row_at_outside A s2 _ a e2 E2 En2) in L1 by (fold e1; lia). rewrite all_miss_missrow' in L1. discriminate. }
    split; [reflexivity|].
    rewrite (data_as_map A s1 a W1 E1), (data_as_map A s2 a W2 E2).
    assert (Hlen : length (s_data s1) = length (s_data s2)) by (unfold e1, e2 in Hee; lia).
    rewrite Hlen. apply map_ext. exact Hrow.
  - exfalso. destruct T1 as (N1 & F1 & _). rewrite <- (row_at_first s1 a E1 N1), Hrow in F1.
    rewrite (row_at_empty A s2 a E2), all_miss_missrow' in F1. discriminate.
  - exfalso. destruct T2 as (N2 & F2 & _). rewrite <- (row_at_first s2 b E2 N2), <- Hrow in F2.
    rewrite (row_at_empty A s1 b E1), all_miss_missrow' in F2. discriminate.
  - split; [reflexivity|]. now rewrite T1, T2.
Qed.

(* the series with every value rounded *)
Definition rounded (s : series) : series := mkSeries (s_freq s) (s_start s) (s_nv s) (map (map rnd) (s_data s)).

Theorem imp_series_identity ps (s : series) st :
  (forall x, is_miss A (rnd x) = is_miss A x) ->
  WF A s -> Trimmed A s -> s_start s = Some st ->
  (forall t, st <= t < st + Z.of_nat (length (s_data s)) -> In t ps) ->
  imp_series (s_freq s) ps s = rounded s.
Proof.
  intros Hrnd Hwf Htr Es Hcover.
  assert (Hrm : rnd (miss A) = miss A) by (apply miss_law; now rewrite Hrnd).
  assert (Hmr : forall n, map rnd (missrow A n) = missrow A n).
  { intros n. unfold missrow. induction n; simpl; [reflexivity|]. now rewrite Hrm, IHn. }
  assert (Ham : forall r, all_miss A (map rnd r) = all_miss A r).
  { intros r. unfold all_miss. induction r as [|x r IH]; simpl; [reflexivity|]. now rewrite Hrnd, IH. }
  set (s2 := rounded s).
  assert (W2 : WF A s2).
  { destruct Hwf as [Hrows Hnone]. split; [|intros H; unfold s2, rounded in *; cbn [s_start s_data] in *; now rewrite (Hnone H)].
    unfold s2, rounded. cbn [s_data s_nv]. apply Forall_forall. intros r Hr. apply in_map_iff in Hr as (r0 & <- & Hr0).
    rewrite map_length. eapply Forall_forall in Hrows; eauto. }
  assert (T2 : Trimmed A s2).
  { unfold Trimmed in *. unfold s2, rounded. cbn [s_start s_data]. rewrite Es in *. destruct Htr as (N & F & L).
    split; [intros H; apply map_eq_nil in H; contradiction|].
    destruct (s_data s) as [|r0 rr] eqn:Ed; [contradiction|]. split.
    - cbn [map hd]. rewrite Ham. exact F.
    - rewrite <- Ed in *. replace (@nil V) with (map rnd (@nil V)) by reflexivity.
      rewrite last_map'. rewrite Ham. exact L. }
  assert (R2 : forall t, row_at A s2 t = map rnd (row_at A s t)).
  { intros t. unfold row_at, s2, rounded. cbn [s_start s_data s_nv]. rewrite Es.
    destruct (t <? st); [now rewrite Hmr|]. rewrite <- (Hmr (s_nv s)) at 1. apply map_nth. }
  destruct (imp_series_spec (s_freq s) ps s Hwf) as (W1 & T1 & Nv1 & R1 & F1).
  assert (Hext : forall t, row_at A (imp_series (s_freq s) ps s) t = row_at A s2 t).
  { intros t. rewrite R1, R2. destruct (in_dec Z.eq_dec t ps) as [Hin|Hout]; [reflexivity|].
    rewrite (row_at_outside A s t st (st + Z.of_nat (length (s_data s)) - 1) Es); [now rewrite Hmr| |].
    - unfold s_end. now rewrite Es.
    - destruct (Z.lt_ge_cases t st); [now left|]. destruct (Z.lt_ge_cases (st + Z.of_nat (length (s_data s)) - 1) t); [now right|].
      exfalso. apply Hout. apply Hcover. lia. }
  destruct (trimmed_ext _ _ W1 W2 T1 T2 Nv1 Hext) as [Hst Hdat].
  destruct (imp_series (s_freq s) ps s) as [fr0 st0 nv0 dat0] eqn:Ei. cbn [s_start s_data s_nv s_freq] in *.
  unfold s2, rounded in *. cbn [s_start s_data] in Hst, Hdat. subst st0 dat0 nv0. f_equal.
  apply F1. rewrite Es. discriminate.
Qed.

End CsvProofs.

(* ---- the frequency marks written by the export are recognised by the import ---- *)
Lemma marks_roundtrip f : In f (map snd freq_members) -> is_start (mark_of_freq f) = Some f.
Proof.
  assert (H : forallb (fun p => match is_start (mark_of_freq (snd p)) with Some g => g =? snd p | None => false end)
                      freq_members = true) by (vm_compute; reflexivity).
  intros Hin. apply in_map_iff in Hin as (p & <- & Hp).
  rewrite forallb_forall in H. specialize (H p Hp).
  destruct (is_start (mark_of_freq (snd p))) as [g|]; [|discriminate]. apply Z.eqb_eq in H. now subst.
Qed.

(* ---- a concrete instance: non-vacuity, and the stated exceptions are real ---- *)
From Verif Require Import lib.ArithOptZ.

Module CsvExamples.
Definition fp (f t : Z) : string := if t =? 0 then "t0" else if t =? 1 then "t1" else "t2".
Definition pp (f : Z) (c : string) : option Z :=
  if String.eqb c "t0" then Some 0 else if String.eqb c "t1" then Some 1 else if String.eqb c "t2" then Some 2 else None.
Definition fv (x : option Z) : string := match x with Some 1 => "1" | Some 2 => "2" | Some _ => "3" | None => "?" end.
Definition pv (c : string) : option Z :=
  if String.eqb c "1" then Some 1 else if String.eqb c "2" then Some 2 else if String.eqb c "3" then Some 3 else None.
Definition opts (d : bool) : wopts := mkWopts None default_fspan d "".
Definition ser (rows : list (list (option Z))) : series OZArith := mkSeries (A:=OZArith) 4 (Some 0) 1%nat rows.
Definition roundtrip (d : bool) (db : databox OZArith) : res (databox OZArith) :=
  import OZArith pp pv d (export OZArith fp fv (fun x => x) db (opts d)).

Example roundtrip_ok :
  roundtrip true [("a"%string, ISer OZArith "about a" (ser [[Some 1]; [None]; [Some 2]]));
                  ("k"%string, INon (@EScal OZArith (Some 3)))]
  = Ok [("a"%string, ISer OZArith "about a" (ser [[Some 1]; [None]; [Some 2]]))].
Proof. vm_compute. reflexivity. Qed.

(* a name starting with "__" ends its block: the series (and its neighbours) are not read back *)
Example dunder_name_lost :
  roundtrip false [("__x"%string, ISer OZArith "" (ser [[Some 1]])); ("b"%string, ISer OZArith "" (ser [[Some 2]]))] = Ok [].
Proof. vm_compute. reflexivity. Qed.

(* a name "*" is read as a continuation column, an empty name is skipped *)
Example star_name_lost :
  roundtrip false [("*"%string, ISer OZArith "" (ser [[Some 1]])); (""%string, ISer OZArith "" (ser [[Some 1]]));
                   ("b"%string, ISer OZArith "" (ser [[Some 2]]))]
  = Ok [("b"%string, ISer OZArith "" (ser [[Some 2]]))].
Proof. vm_compute. reflexivity. Qed.

(* a series without any observation comes back empty: no span, no frequency, no description *)
Example all_missing_comes_back_empty :
  roundtrip true [("a"%string, ISer OZArith "about a" (ser [[None]; [None]])); ("b"%string, ISer OZArith "about b" (ser [[Some 2]]))]
  = Ok [("a"%string, ISer OZArith "" (empty_series OZArith 1)); ("b"%string, ISer OZArith "about b" (ser [[Some 2]]))].
Proof. vm_compute. reflexivity. Qed.

(* a sheet holding nothing but empty series has no data row: the series come back empty, with their names, variant
   counts and descriptions (the unrepaired import raised IndexError here: fixes/C19_2) *)
Example only_empty_series_roundtrip :
  roundtrip true [("e"%string, ISer OZArith "about e" (empty_series OZArith 1)); ("e2"%string, ISer OZArith "" (empty_series OZArith 3))]
  = Ok [("e"%string, ISer OZArith "about e" (empty_series OZArith 1)); ("e2"%string, ISer OZArith "" (empty_series OZArith 3))].
Proof. vm_compute. reflexivity. Qed.
End CsvExamples.

(* ====================================================================== the default export is lossless *)
Section CsvLossless.
Variable A : Arith.
Notation V := (car A).
Notation series := (series A).
Notation databox := (databox A).
Hypothesis miss_law : forall x : V, is_miss A x = true -> x = miss A.
Hypothesis miss_is_miss : is_miss A (miss A) = true.
Variable fmt_period : Z -> Z -> string.
Variable parse_period : Z -> string -> option Z.
Variable fmt_val : V -> string.
Variable parse_val : string -> V.
Variable rnd : V -> V.
Hypothesis fmt_period_nonempty : forall f t, fmt_period f t <> ""%string.
Hypothesis period_roundtrip : forall f t, parse_period f (fmt_period f t) = Some t.
Hypothesis value_roundtrip : forall x, is_miss A (rnd x) = false -> parse_val (fmt_val (rnd x)) = rnd x.
Hypothesis rnd_keeps_missing : forall x, is_miss A (rnd x) = is_miss A x.
Variable o : wopts.
Hypothesis nan_roundtrip : parse_val (w_nan o) = miss A.

(* Databox.get_span_by_frequency covers every series of the frequency *)
Lemma span_covers_series (db1 : databox) f n d (s : series) st t :
  f <> -1 -> In (n, (d, s)) (series_of_freq A db1 f) -> s_start s = Some st ->
  st <= t < st + Z.of_nat (length (s_data s)) -> In t (span_of_freq A db1 f).
Proof.
  intros Hf Hin Es Ht. unfold span_of_freq. destruct (Z.eqb_spec f (-1)); [contradiction|].
  destruct (series_of_freq A db1 f) as [|[nm0 [d0 s0]] r] eqn:E; [destruct Hin|].
  cbn [snd fst]. apply In_zrange.
  set (starts := map (fun p : string * (string * series) => match s_start (snd (snd p)) with Some x => x | None => 0 end) r).
  set (ends := map (fun p : string * (string * series) => match s_end A (snd (snd p)) with Some x => x | None => 0 end) r).
  pose proof (minl_le (match s_start s0 with Some x => x | None => 0 end) starts) as [M1 M2].
  pose proof (maxl_ge (match s_end A s0 with Some x => x | None => 0 end) ends) as [X1 X2].
  destruct Hin as [Eh|Hin].
  - inversion Eh; subst. unfold s_end in *. rewrite Es in *. lia.
  - assert (H1 : In st starts).
    { unfold starts. apply in_map_iff. exists (n, (d, s)). cbn [snd]. rewrite Es. split; [reflexivity|assumption]. }
    assert (H2 : In (st + Z.of_nat (length (s_data s)) - 1) ends).
    { unfold ends. apply in_map_iff. exists (n, (d, s)). cbn [snd]. unfold s_end. rewrite Es. split; [reflexivity|assumption]. }
    specialize (M2 _ H1). specialize (X2 _ H2). lia.
Qed.

Lemma default_order_facts :
  NoDup default_freq_order /\ forall f, In f default_freq_order -> In f (map snd freq_members).
Proof.
  split.
  - assert (H : forall l : list Z, (fix nd (l : list Z) := match l with [] => true | x :: r => negb (existsb (Z.eqb x) r) && nd r end) l = true -> NoDup l).
    { induction l as [|x r IH]; intros H; [constructor|]. apply andb_true_iff in H as [H1 H2]. constructor; [|now apply IH].
      intros Hin. apply negb_true_iff in H1. assert (existsb (Z.eqb x) r = true) by (apply existsb_exists; exists x; split; [assumption|apply Z.eqb_refl]). congruence. }
    apply H. vm_compute. reflexivity.
  - assert (H : forallb (fun f => existsb (Z.eqb f) (map snd freq_members)) default_freq_order = true) by (vm_compute; reflexivity).
    intros f Hf. rewrite forallb_forall in H. specialize (H f Hf). apply existsb_exists in H as (g & Hg & E).
    apply Z.eqb_eq in E. now subst.
Qed.

Theorem csv_lossless_default (db : databox) :
  let db1 := selected A db o in
  w_fspan o = default_fspan ->
  (forall n d s, dget A db1 n = Some (ISer A d s) ->
     good_name n /\ WF A s /\ Trimmed A s /\ (1 <= s_nv s)%nat /\ s_start s <> None /\
     In (s_freq s) default_freq_order /\ s_freq s <> -1) ->
  exists db', import A parse_period parse_val (w_desc o) (export A fmt_period fmt_val rnd db o) = Ok db' /\
    forall n, dget A db' n = match dget A db1 n with
                             | Some (INon (ESer d s)) => Some (ISer A (if w_desc o then d else ""%string) (rounded A rnd s))
                             | _ => None
                             end.
Proof.
  intros db1 Hfs Hgood. destruct default_order_facts as [Hnd Hmem].
  assert (Hnd1 : ND A db1) by apply ND_shallow.
  assert (Hps : forall f ps, In (f, ps) (resolve_fspan A db1 (w_fspan o)) -> In f default_freq_order /\ ps = span_of_freq A db1 f).
  { intros f ps Hin. rewrite Hfs in Hin. unfold resolve_fspan, default_fspan in Hin. rewrite map_map in Hin.
    apply in_map_iff in Hin as (g & E & Hg). cbn [fst snd] in E. inversion E; subst. split; [assumption|reflexivity]. }
  assert (Hcov : forall n d s ps st, dget A db1 n = Some (ISer A d s) -> s_start s = Some st ->
            In (sfreq A s, ps) (resolve_fspan A db1 (w_fspan o)) ->
            sfreq A s = s_freq s /\ forall t, st <= t < st + Z.of_nat (length (s_data s)) -> In t ps).
  { intros n d s ps st Hget Es Hin. assert (Ef : sfreq A s = s_freq s) by (unfold sfreq; now rewrite Es).
    split; [assumption|]. intros t Ht. destruct (Hps _ _ Hin) as [Hf ->].
    apply (span_covers_series db1 (sfreq A s) n d s st t); try assumption.
    - destruct (Hgood n d s Hget) as (_ & _ & _ & _ & _ & _ & Hm1). now rewrite Ef.
    - apply In_series_of_freq. split; [now apply In_db_dget|reflexivity]. }
  destruct (csv_roundtrip A miss_law fmt_period parse_period fmt_val parse_val rnd fmt_period_nonempty period_roundtrip
              value_roundtrip o nan_roundtrip db) as (db' & Himp & H1 & H2).
  - rewrite Hfs. unfold default_fspan. rewrite map_map. cbn [fst]. now rewrite map_id.
  - intros n d s ps Hget Hin. fold db1 in Hget, Hin. destruct (Hgood n d s Hget) as (G1 & G2 & G3 & G4 & G5 & G6 & G7).
    destruct (s_start s) as [st|] eqn:Es; [|contradiction].
    destruct (Hcov n d s ps st Hget Es Hin) as [Ef Hc].
    split; [assumption|]. split; [assumption|]. split; [assumption|]. split.
    + intros E. subst ps. unfold Trimmed in G3. rewrite Es in G3. destruct G3 as (Hne & _).
      apply (Hc st). destruct (s_data s); [contradiction|]. simpl. lia.
    + apply marks_roundtrip. apply Hmem. rewrite Ef. exact G6.
  - exists db'. split; [exact Himp|]. intros n. fold db1 in H1, H2.
    destruct (dget A db1 n) as [[[v|d s]|l]|] eqn:Hget.
    + apply H2. intros d0 s0 ps0 E. rewrite Hget in E. unfold ISer in E. discriminate E.
    + destruct (Hgood n d s Hget) as (G1 & G2 & G3 & G4 & G5 & G6 & G7).
      destruct (s_start s) as [st|] eqn:Es; [|contradiction].
      assert (Ef : sfreq A s = s_freq s) by (unfold sfreq; now rewrite Es).
      assert (Hin : In (sfreq A s, span_of_freq A db1 (sfreq A s)) (resolve_fspan A db1 (w_fspan o))).
      { rewrite Hfs. unfold resolve_fspan, default_fspan. rewrite map_map. apply in_map_iff. exists (sfreq A s).
        split; [reflexivity|]. rewrite Ef. exact G6. }
      destruct (Hcov n d s _ st Hget Es Hin) as [_ Hc].
      rewrite (H1 n d s _ Hget Hin). cbv zeta.
      pose proof (imp_series_identity A miss_law rnd miss_is_miss _ s st rnd_keeps_missing G2 G3 Es Hc) as Hid.
      rewrite <- Ef in Hid. rewrite Hid.
      f_equal. unfold ISer. f_equal. f_equal. unfold kept_desc, rounded. cbn [s_start]. rewrite Es.
      destruct (span_of_freq A db1 (sfreq A s)) eqn:E; [|reflexivity].
      exfalso. unfold Trimmed in G3. rewrite Es in G3. destruct G3 as (Hne & _).
      apply (Hc st). destruct (s_data s); [contradiction|]. simpl. lia.
    + apply H2. intros d0 s0 ps0 E. rewrite Hget in E. unfold ISer in E. discriminate E.
    + apply H2. intros d0 s0 ps0 E. rewrite Hget in E. unfold ISer in E. discriminate E.
Qed.

End CsvLossless.
