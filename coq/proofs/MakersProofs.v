(* C04: the function make_function returns for a request depends on the request alone (text and context), whatever
   was compiled before in the same session. *)
From Coq Require Import String List Bool Lia.
From Verif Require Import lib.MakersSyntax gen.MakersGen model.Makers.
Import ListNotations.
Open Scope string_scope.

(* ---- dicts ---- *)
Section DictFacts.
Context {V : Type}.
Implicit Types (d g : dict V) (k n : string).

Lemma dict_get_set_same : forall k (v : V) d, dict_get k (dict_set k v d) = Some v.
Proof.
  intros k v d; induction d as [|[k' v'] r IH]; cbn.
  - now rewrite String.eqb_refl.
  - destruct (String.eqb k k') eqn:E; cbn; rewrite E; auto.
Qed.

Lemma dict_get_set_other : forall k k' (v : V) d, k <> k' -> dict_get k (dict_set k' v d) = dict_get k d.
Proof.
  intros k k' v d Hne; induction d as [|[k2 v2] r IH]; cbn.
  - destruct (String.eqb_spec k k'); [contradiction|reflexivity].
  - destruct (String.eqb_spec k' k2) as [->|N]; cbn.
    + destruct (String.eqb_spec k k2); [contradiction|reflexivity].
    + destruct (String.eqb_spec k k2); auto.
Qed.

Lemma dict_get_notin : forall n d, ~ In n (map fst d) -> dict_get n d = None.
Proof.
  intros n d; induction d as [|[k v] r IH]; cbn; auto.
  intros H. destruct (String.eqb_spec n k) as [->|N]; [exfalso; auto|apply IH; auto].
Qed.

(* d1 | d2 : the entries of d2 win, the others are those of d1 (keys of d2 unique, as in a Python dict) *)
Lemma dict_get_union : forall d2 d1 n, NoDup (map fst d2) ->
  dict_get n (dict_union d1 d2) = match dict_get n d2 with Some v => Some v | None => dict_get n d1 end.
Proof.
  unfold dict_union. induction d2 as [|[k v] r IH]; intros d1 n ND; cbn; auto.
  inversion ND as [|? ? Hk ND']; subst.
  rewrite IH by assumption.
  destruct (String.eqb_spec n k) as [->|N].
  - rewrite (dict_get_notin k r Hk). apply dict_get_set_same.
  - destruct (dict_get n r); auto. now apply dict_get_set_other.
Qed.

Lemma dict_get_fold_set_notin : forall (f : string -> V) names g n, ~ In n names ->
  dict_get n (fold_left (fun d m => dict_set m (f m) d) names g) = dict_get n g.
Proof.
  intros f names; induction names as [|m r IH]; intros g n H; cbn; auto.
  rewrite IH by (intro; apply H; now right).
  apply dict_get_set_other. intro; apply H; now left.
Qed.

Lemma dict_get_fold_set_in : forall (f : string -> V) names g n, In n names ->
  dict_get n (fold_left (fun d m => dict_set m (f m) d) names g) = Some (f n).
Proof.
  intros f names; induction names as [|m r IH]; intros g n H; cbn; [contradiction|].
  destruct (in_dec string_dec n r) as [I|NI]; [now apply IH|].
  destruct H as [->|H]; [|contradiction].
  rewrite dict_get_fold_set_notin by assumption. apply dict_get_set_same.
Qed.
End DictFacts.

Section Proofs.
Variable V : Type.
Variable F : Type.
Variable v_empty_dict : V.
Variable v_adapt : string -> V.
Variable v_fun : F -> V.
Variable exec_def : string -> string -> dict V -> F.

Notation request := (request V).
Notation result := (result V F).
Notation compile := (compile V F v_empty_dict v_adapt v_fun exec_def).
Notation prepare_globals := (prepare_globals V v_empty_dict v_adapt).
Notation run_keyed := (run_session_keyed V F v_empty_dict v_adapt v_fun exec_def).
Notation run_session := (run_session V F v_empty_dict v_adapt v_fun exec_def).
Notation make_function := (make_function V F v_empty_dict v_adapt v_fun exec_def).
Notation remake_function := (remake_function V F v_empty_dict v_adapt exec_def).
Notation table := (table V F).

(* every entry of the module-level table is what compiling any request with that key gives *)
Definition table_sound (key : request -> string) (tb : table) : Prop :=
  forall kk res, dict_get kk tb = Some res -> forall r, key r = kk -> compile r = res.

Lemma run_none : forall reqs tb, run_keyed None tb reqs = map compile reqs.
Proof. induction reqs as [|r rs IH]; intros tb; cbn; [reflexivity|now rewrite IH]. Qed.

(* a table keyed by anything that determines the compiled function is invisible, for every session and every
   initial table that is sound *)
Theorem keyed_session_independent : forall key : request -> string,
  (forall r1 r2, key r1 = key r2 -> compile r1 = compile r2) ->
  forall reqs tb, table_sound key tb -> run_keyed (Some key) tb reqs = map compile reqs.
Proof.
  intros key Hkey; induction reqs as [|r rs IH]; intros tb Hs; cbn; [reflexivity|].
  destruct (dict_get (key r) tb) as [res|] eqn:E.
  - rewrite (Hs _ _ E r eq_refl). now rewrite IH.
  - rewrite IH; [reflexivity|].
    intros kk res Hg r' Hk.
    destruct (string_dec kk (key r)) as [->|N].
    + rewrite dict_get_set_same in Hg. inversion Hg; subst. now apply Hkey.
    + rewrite dict_get_set_other in Hg by assumption. eapply Hs; eauto.
Qed.

Definition cache_sound (c : cache_mode) : bool := match c with CacheNone => true | CacheBySource => false end.

Lemma generated_cache_sound : cache_sound mk_cache = true.
Proof. reflexivity. Qed.

Lemma sound_cache_session : forall c, cache_sound c = true ->
  forall reqs, run_keyed (key_of V c) [] reqs = map compile reqs.
Proof. intros [] H reqs; [apply run_none|discriminate]. Qed.

(* THE SESSION THEOREM: in every session (any number of calls, any order, any contexts) every call returns the
   function, the text and the globals determined by its own request *)
Theorem session_results : forall reqs, run_session reqs = map compile reqs.
Proof. intros; unfold Makers.run_session; apply sound_cache_session, generated_cache_sound. Qed.

Theorem session_nth : forall reqs k, nth_error (run_session reqs) k = option_map compile (nth_error reqs k).
Proof. intros; rewrite session_results. apply nth_error_map. Qed.

(* the k-th function does not depend on what was compiled before or after it *)
Theorem session_history_irrelevant : forall pre1 post1 pre2 post2 r,
  nth_error (run_session (pre1 ++ r :: post1)) (length pre1) = Some (compile r) /\
  nth_error (run_session (pre2 ++ r :: post2)) (length pre2) = nth_error (run_session (pre1 ++ r :: post1)) (length pre1).
Proof.
  intros. rewrite !session_nth, !nth_error_app2 by lia. rewrite !PeanoNat.Nat.sub_diag. cbn. auto.
Qed.

(* ... it is the text compiled in the globals prepared from ITS OWN context *)
Theorem compiled_in_own_context : forall r,
  rs_func V F (compile r) = exec_def (func_str V r) (rq_name V r) (prepare_globals (rq_ctx V r))
  /\ rs_str V F (compile r) = func_str V r
  /\ rs_globals V F (compile r) = dict_set (rq_name V r) (v_fun (rs_func V F (compile r))) (prepare_globals (rq_ctx V r)).
Proof. intros; repeat split. Qed.

Lemma prepare_globals_shape : forall ctx,
  prepare_globals ctx = fold_left (fun d n => dict_set n (v_adapt n) d) mk_adaptation_names
                                  (dict_set "__builtins__" v_empty_dict (dict_union [] ctx)).
Proof. reflexivity. Qed.

(* a name of the context (a user function) is bound, in the globals of the compiled function, to the object this
   context binds it to -- unless it is the name of a function adaptation, which wins *)
Theorem globals_bind_context_names : forall ctx n, NoDup (map fst ctx) ->
  ~ In n mk_adaptation_names -> n <> "__builtins__" ->
  dict_get n (prepare_globals ctx) = dict_get n ctx.
Proof.
  intros ctx n ND NA NB. rewrite prepare_globals_shape.
  rewrite dict_get_fold_set_notin by assumption.
  rewrite dict_get_set_other by assumption.
  rewrite dict_get_union by assumption. cbn. now destruct (dict_get n ctx).
Qed.

Theorem globals_bind_adaptations : forall ctx n, In n mk_adaptation_names ->
  dict_get n (prepare_globals ctx) = Some (v_adapt n).
Proof. intros. rewrite prepare_globals_shape. now apply dict_get_fold_set_in. Qed.

(* the function of the k-th model of a session resolves a user function name in the context of the k-th model *)
Theorem session_function_context : forall reqs k r n, nth_error reqs k = Some r ->
  NoDup (map fst (rq_ctx V r)) -> ~ In n mk_adaptation_names -> n <> "__builtins__" ->
  exists res, nth_error (run_session reqs) k = Some res
    /\ rs_func V F res = exec_def (func_str V r) (rq_name V r) (prepare_globals (rq_ctx V r))
    /\ dict_get n (prepare_globals (rq_ctx V r)) = dict_get n (rq_ctx V r).
Proof.
  intros reqs k r n Hk ND NA NB. exists (compile r). rewrite session_nth, Hk. cbn.
  repeat split. now apply globals_bind_context_names.
Qed.

(* remake_function (copies, unpickling) gives the function make_function gave *)
Theorem remake_is_make : forall r,
  remake_function (rq_name V r) (rs_str V F (compile r)) (rq_ctx V r) = rs_func V F (compile r).
Proof. reflexivity. Qed.

(* equators: all the equators of all the models of a session *)
Theorem equators_of_session : forall (models : list (list (list string) * dict V)),
  run_session (concat (map (model_requests V) models))
  = concat (map (fun m => map (fun xs => compile (equator_request V xs (snd m))) (fst m)) models).
Proof.
  intros. rewrite session_results, concat_map. f_equal. rewrite !map_map. apply map_ext.
  intros m. unfold model_requests. now rewrite map_map.
Qed.
End Proofs.

(* ---- a table keyed by the source text alone is NOT sound: the second of two requests with the same text and
        different contexts gets the function of the first (symbolic instance) ---- *)
Definition refuting_requests : list s_request :=
  [mkReq SV "__equator" ["x"; "t"] "(f(x[(0, t)]) , )" [("f", "<f one>")];
   mkReq SV "__equator" ["x"; "t"] "(f(x[(0, t)]) , )" [("f", "<f two>")]].

Theorem cache_by_source_refuted :
  map s_observe (s_run CacheBySource refuting_requests) <> map s_observe (s_run CacheNone refuting_requests)
  /\ (exists g, option_map (fun o => dict_get "f" (snd o)) (nth_error (map s_observe (s_run CacheBySource refuting_requests)) 1) = Some g
               /\ g = Some "<f one>")
  /\ option_map (fun o => dict_get "f" (snd o)) (nth_error (map s_observe (s_run CacheNone refuting_requests)) 1)
     = Some (Some "<f two>").
Proof.
  split; [|split].
  - vm_compute. discriminate.
  - eexists; split; [vm_compute; reflexivity|reflexivity].
  - vm_compute. reflexivity.
Qed.

(* non-vacuity: a session of three requests, two of them with the same text *)
Example session_example :
  map (fun o => dict_get "f" (snd o)) (s_session (refuting_requests ++ [mkReq SV "g" ["a"] "f(a)" [("log", "<user log>"); ("f", "<f three>")]]))
  = [Some "<f one>"; Some "<f two>"; Some "<f three>"]
  /\ map (fun o => fst (fst o)) (s_session [mkReq SV "g" ["a"; "b"] "f(a)" []]) = ["def g(a, b): return f(a)"]
  /\ map (fun o => dict_get "log" (snd o)) (s_session [mkReq SV "g" ["a"] "f(a)" [("log", "<user log>")]]) = [Some "adapt:log"].
Proof. vm_compute. repeat split. Qed.
