(* Dimension-indexed matrix interface used by the C18 (reduced-form VAR) model.

   One model text (model/RedVar.v) is written over the record [MatOps]; it is instantiated
   - on MathComp matrices 'M[F]_(m,n) over a real field (lib/MxC18MC.v), where the theorems are proved, and
   - on [list (list (option bigQ))] below (dimensions are passed but the carrier does not depend on
     them; [None] = NaN / missing, absorbing), where it is executed by vm_compute in the correspondence.

   Plain-stdlib style; no proofs in this file. *)
From Coq Require Import ZArith List Bool.
From Bignums Require Import BigQ.
Import ListNotations.

Record MatOps : Type := mkMatOps {
  sc : Type;                                         (* scalars *)
  mx : nat -> nat -> Type;                           (* mx m n : m rows, n columns *)
  sel : nat -> nat -> Type;                          (* sel k N : k column positions out of N *)
  sc_of_nat : nat -> sc;
  sc_sub : sc -> sc -> sc;
  sc_inv : sc -> sc;
  mmul : forall m n p : nat, mx m n -> mx n p -> mx m p;
  madd : forall m n : nat, mx m n -> mx m n -> mx m n;
  msub : forall m n : nat, mx m n -> mx m n -> mx m n;
  mscale : forall m n : nat, sc -> mx m n -> mx m n;
  mtr : forall m n : nat, mx m n -> mx n m;
  mzero : forall m n : nat, mx m n;
  mones : forall m n : nat, mx m n;
  meye : forall m n : nat, mx m n;                   (* numpy.eye(m, n) *)
  mrow : forall m n1 n2 : nat, mx m n1 -> mx m n2 -> mx m (n1 + n2);     (* numpy.hstack *)
  mcol : forall m1 m2 n : nat, mx m1 n -> mx m2 n -> mx (m1 + m2) n;     (* numpy.vstack *)
  mlsub : forall m n1 n2 : nat, mx m (n1 + n2) -> mx m n1;               (* X[:, :n1] *)
  mrsub : forall m n1 n2 : nat, mx m (n1 + n2) -> mx m n2;               (* X[:, n1:] *)
  musub : forall m1 m2 n : nat, mx (m1 + m2) n -> mx m1 n;               (* X[:m1, :] *)
  mdsub : forall m1 m2 n : nat, mx (m1 + m2) n -> mx m2 n;               (* X[m1:, :] *)
  mcolsel : forall m k N : nat, sel k N -> mx m N -> mx m k;             (* X[:, where] *)
  msolve : forall n p : nat, mx n n -> mx n p -> mx n p;                 (* numpy.linalg.solve *)
  mis_zero : forall m n : nat, mx m n -> bool;                           (* numpy.all(X == 0) *)
}.

Arguments mmul {_ _ _ _} _ _.
Arguments madd {_ _ _} _ _.
Arguments msub {_ _ _} _ _.
Arguments mscale {_ _ _} _ _.
Arguments mtr {_ _ _} _.
Arguments mrow {_ _ _ _} _ _.
Arguments mcol {_ _ _ _} _ _.
Arguments mlsub {_ _ _ _} _.
Arguments mrsub {_ _ _ _} _.
Arguments musub {_ _ _ _} _.
Arguments mdsub {_ _ _ _} _.
Arguments mcolsel {_ _ _ _} _ _.
Arguments msolve {_ _ _} _ _.
Arguments mis_zero {_ _ _} _.

(* ------------------------------------------------------------------ *)
(* Executable instance: lists of rows of optional exact rationals      *)
(* ------------------------------------------------------------------ *)

Definition V := option bigQ.
Definition lrow := list V.
Definition lmx := list lrow.

Definition q0 : bigQ := BigQ.zero.
Definition q1 : bigQ := BigQ.one.

(* m * 2^e : every finite IEEE double is of this form *)
Definition dy (m e : Z) : bigQ :=
  if (0 <=? e)%Z then BigQ.Qz (BigZ.of_Z (m * 2 ^ e))
  else BigQ.red (BigQ.Qq (BigZ.of_Z m) (BigN.of_N (Z.to_N (2 ^ (- e))))).
Definition fl (m e : Z) : V := Some (dy m e).
Definition nan : V := None.

Definition v2 (f : bigQ -> bigQ -> bigQ) (a b : V) : V :=
  match a, b with Some x, Some y => Some (f x y) | _, _ => None end.
Definition vadd := v2 BigQ.add_norm.
Definition vsub := v2 BigQ.sub_norm.
Definition vmul := v2 BigQ.mul_norm.
Definition vinv (a : V) : V := match a with Some x => Some (BigQ.inv_norm x) | None => None end.
Definition vfin (a : V) : bool := match a with Some _ => true | None => false end.
Definition vzero : V := Some q0.
Definition vone : V := Some q1.
Definition qis0 (x : bigQ) : bool := BigQ.eq_bool x q0.
Definition vis0 (a : V) : bool := match a with Some x => qis0 x | None => false end.

Definition tab (m n : nat) (f : nat -> nat -> V) : lmx :=
  map (fun i => map (fun j => f i j) (seq 0 n)) (seq 0 m).
Definition lget (A : lmx) (i j : nat) : V := nth j (nth i A []) None.

Fixpoint map2 {A B C} (f : A -> B -> C) (a : list A) (b : list B) : list C :=
  match a, b with x :: xs, y :: ys => f x y :: map2 f xs ys | _, _ => [] end.

Definition ltr (m n : nat) (A : lmx) : lmx := tab n m (fun j i => lget A i j).
Definition ldot (a b : lrow) : V := fold_left vadd (map2 vmul a b) vzero.
Definition lmul (m n p : nat) (A B : lmx) : lmx :=
  let Bt := ltr n p B in
  map (fun i => let ra := nth i A [] in map (fun cb => ldot ra cb) Bt) (seq 0 m).
Definition lzip (f : V -> V -> V) (A B : lmx) : lmx := map2 (map2 f) A B.
Definition lscale (c : V) (A : lmx) : lmx := map (map (vmul c)) A.
Definition leye (m n : nat) : lmx := tab m n (fun i j => if Nat.eqb i j then vone else vzero).
Definition lconst (c : V) (m n : nat) : lmx := tab m n (fun _ _ => c).
Definition lall_some (A : lmx) : bool := forallb (forallb vfin) A.
Definition lunwrap (A : lmx) : list (list bigQ) := map (map (fun v => match v with Some x => x | None => q0 end)) A.

(* Gauss-Jordan elimination on [M | N] over exact rationals (any non-zero pivot) *)
Definition qnth (r : list bigQ) (j : nat) : bigQ := nth j r q0.
Fixpoint gj_pick (k : nat) (cands acc : list (list bigQ)) : option (list bigQ * list (list bigQ)) :=
  match cands with
  | [] => None
  | r :: rs => if qis0 (qnth r k) then gj_pick k rs (r :: acc) else Some (r, rev_append acc rs)
  end.
Fixpoint gj_steps (fuel k : nat) (top rest : list (list bigQ)) : option (list (list bigQ)) :=
  match fuel with
  | O => Some top
  | S f =>
      match gj_pick k rest [] with
      | None => None
      | Some (pr, others) =>
          let pv := BigQ.inv_norm (qnth pr k) in
          let prn := map (fun x => BigQ.mul_norm x pv) pr in
          let elim := fun r => let c := qnth r k in
                               if qis0 c then r else map2 (fun x y => BigQ.sub_norm x (BigQ.mul_norm c y)) r prn in
          gj_steps f (S k) (map elim top ++ [prn]) (map elim others)
      end
  end.
(* numpy.linalg.solve(M, N); a NaN anywhere, or a singular M, poisons the whole result *)
Definition lsolve (n p : nat) (Mm Nn : lmx) : lmx :=
  if lall_some Mm && lall_some Nn then
    match gj_steps n 0 [] (map2 (@app bigQ) (lunwrap Mm) (lunwrap Nn)) with
    | Some rows => map (fun r => map (@Some bigQ) (skipn n r)) rows
    | None => lconst None n p
    end
  else lconst None n p.

Definition LM : MatOps := {|
  sc := V;
  mx := fun _ _ => lmx;
  sel := fun _ _ => list nat;
  sc_of_nat := fun k => Some (BigQ.Qz (BigZ.of_Z (Z.of_nat k)));
  sc_sub := vsub;
  sc_inv := vinv;
  mmul := lmul;
  madd := fun _ _ => lzip vadd;
  msub := fun _ _ => lzip vsub;
  mscale := fun _ _ => lscale;
  mtr := ltr;
  mzero := lconst vzero;
  mones := lconst vone;
  meye := leye;
  mrow := fun _ _ _ A B => map2 (@app V) A B;
  mcol := fun _ _ _ A B => A ++ B;
  mlsub := fun _ n1 _ A => map (firstn n1) A;
  mrsub := fun _ n1 _ A => map (skipn n1) A;
  musub := fun m1 _ _ A => firstn m1 A;
  mdsub := fun m1 _ _ A => skipn m1 A;
  mcolsel := fun _ _ _ idx A => map (fun r => map (fun j => nth j r None) idx) A;
  msolve := lsolve;
  mis_zero := fun _ _ A => forallb (forallb vis0) A;
|}.

(* ------------------------------------------------------------------ *)
(* comparison helpers for the correspondence case files                *)
(* ------------------------------------------------------------------ *)

Definition qabs (x : bigQ) : bigQ := match BigQ.compare x q0 with Lt => BigQ.opp x | _ => x end.
Definition qle (x y : bigQ) : bool := match BigQ.compare x y with Gt => false | _ => true end.
(* |a - b| <= tol * (1 + |b|);  None matches None only *)
Definition vclose (tol : bigQ) (a b : V) : bool :=
  match a, b with
  | Some x, Some y => qle (qabs (BigQ.sub x y)) (BigQ.mul tol (BigQ.add q1 (qabs y)))
  | None, None => true
  | _, _ => false
  end.
Definition veq (a b : V) : bool :=
  match a, b with Some x, Some y => BigQ.eq_bool x y | None, None => true | _, _ => false end.
Fixpoint all2 {A B} (f : A -> B -> bool) (a : list A) (b : list B) : bool :=
  match a, b with
  | [], [] => true
  | x :: xs, y :: ys => f x y && all2 f xs ys
  | _, _ => false
  end.
Definition mx_close (tol : bigQ) (A B : lmx) : bool := all2 (all2 (vclose tol)) A B.
Definition mx_eq (A B : lmx) : bool := all2 (all2 veq) A B.

(* characteristic polynomial by Faddeev-LeVerrier: coefficients c_0 .. c_{n-1} of
   det(lambda I - A) = lambda^n + c_{n-1} lambda^{n-1} + ... + c_0, returned highest first (numpy.poly order) *)
Definition ltrace (n : nat) (A : lmx) : V := fold_left vadd (map (fun i => lget A i i) (seq 0 n)) vzero.
Fixpoint fl_steps (fuel : nat) (n k : nat) (A Mk : lmx) (acc : list V) : list V :=
  match fuel with
  | O => rev acc
  | S f =>
      let AM := lmul n n n A Mk in
      let ck := vmul (vinv (Some (BigQ.Qz (BigZ.of_Z (- Z.of_nat k))))) (ltrace n AM) in
      let Mk' := lzip vadd AM (lscale ck (leye n n)) in
      fl_steps f n (S k) A Mk' (ck :: acc)
  end.
Definition charpoly (n : nat) (A : lmx) : list V := vone :: fl_steps n n 1 A (leye n n) [].
