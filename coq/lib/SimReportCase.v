(* Checker used by the generated C06 correspondence case files of the kinds "report" and "slatable": evaluates
   model/SimReport.v on what was recorded from one call of Simultaneous.simulate and returns the indices of the cases
   on which model and implementation differ.  Rows are IEEE doubles (PrimFloat), compared bit-wise up to NaN = NaN. *)
From Coq Require Import List Bool Arith PrimFloat.
From Verif Require Import lib.SimProg gen.SimReportGen model.SimReport.
Import ListNotations.

Definition fsame' (x y : float) : bool :=
  if PrimFloat.is_nan x then PrimFloat.is_nan y
  else if PrimFloat.is_nan y then false
  else PrimFloat.eqb x y && PrimFloat.eqb (1 / x) (1 / y).

Fixpoint list_eqb' {T} (e : T -> T -> bool) (a b : list T) : bool :=
  match a, b with
  | [], [] => true
  | x :: xs, y :: ys => e x y && list_eqb' e xs ys
  | _, _ => false
  end.

Definition pair_nat_eqb (a b : nat * nat) : bool := Nat.eqb (fst a) (fst b) && Nat.eqb (snd a) (snd b).

Definition outcome_eqb (a b : outcome) : bool :=
  match a, b with
  | OReturned, OReturned => true
  | OWarned m, OWarned m' | OError m, OError m' | OCritical m, OCritical m' => list_eqb' pair_nat_eqb m m'
  | ONameError, ONameError => true
  | _, _ => false
  end.

(* one call of simulate(): when_fails, number of frames per variant, recorded is_success per variant and frame
   (frames that were never run are listed as true: the model does not consult them), what the caller saw *)
Record rep_case := mkRep { r_kind : wf_kind; r_nfs : list nat; r_sts : list (list bool); r_obs : outcome }.

Definition rep_ok (c : rep_case) : bool :=
  outcome_eqb (simulate_report (r_kind c) (fun v f => nth f (nth v (r_sts c) []) true) (r_nfs c)) (r_obs c).

Fixpoint failing_idx {T} (ok : T -> bool) (cs : list T) (i : nat) : list nat :=
  match cs with
  | [] => []
  | c :: r => if ok c then failing_idx ok r (S i) else i :: failing_idx ok r (S i)
  end.

(* one variant of the dataslate simulate() built: the three flags passed to simulate() (parameters, shocks, stds), and
   per name of a parameter / shock / std: its group, the model's value, the row read from the input databox
   (NaN where the databox holds nothing), the row of the dataslate *)
Record slat_entry := mkEnt { e_group : group; e_value : float; e_raw : list float; e_obs : list float }.
Record slat_case := mkSlat { sl_flags : bool * bool * bool; sl_entries : list slat_entry }.

Definition flags_fun (fl : bool * bool * bool) (g : group) : bool :=
  match g with GParameters => fst (fst fl) | GShocks => snd (fst fl) | GStds => snd fl end.

Definition slat_src (es : list slat_entry) (g : group) (n : nat) : option float :=
  match nth_error es n with
  | Some e => if group_eqb (e_group e) g then Some (e_value e) else None
  | None => None
  end.

Definition slat_entry_ok (c : slat_case) (ne : nat * slat_entry) : bool :=
  list_eqb' fsame'
    (simulate_row PrimFloat.is_nan (slat_src (sl_entries c)) (length (sl_entries c)) (flags_fun (sl_flags c))
                  (fst ne) (e_raw (snd ne)))
    (e_obs (snd ne)).

Definition slat_ok (c : slat_case) : bool :=
  forallb (slat_entry_ok c) (combine (seq 0 (length (sl_entries c))) (sl_entries c)).
