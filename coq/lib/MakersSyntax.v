(* Syntax of the fragments that translator/makers.py regenerates from irispie/makers.py,
   irispie/aldi/adaptations.py and irispie/equators/plain.py (gen/MakersGen.v). *)
From Coq Require Import String List.
Import ListNotations.

(* pieces of the f-string that make_function compiles:  f"def {func_name}({args_string}): return {str(expression)}" *)
Inductive fpart := FLit (s : string) | FName | FArgs | FExpr.

(* statements of _prepare_globals, in order: the globals dict in which the function is compiled *)
Inductive gstep :=
| GContext                        (* a NEW dict with the entries of the context:  (context or {}) | ...   *)
| GSetEmptyDict (k : string)      (* ... | {k: {}}                                                      *)
| GAdaptations.                   (* for n in _ELEMENTWISE_FUNCTIONS: globals_[n] = adaptations.<n>      *)

(* what make_function consults before it compiles (module-level state of makers.py) *)
Inductive cache_mode :=
| CacheNone                       (* nothing: every call compiles in a fresh globals dict *)
| CacheBySource.                  (* a module-level table keyed by the generated source text of the function *)
