(* C01  Syntax of the statements by which has_variants.py::Mixin.expand_num_variants / shrink_num_variants build
   the list of parameter variants (generated: gen/VariantListGen.v; semantics: model/VariantList.v). *)

(* the expression that produces ONE new list element *)
Inductive velem : Set :=
| ECopyLast        (* self._variants[-1].copy() : a new object with the content of the last variant *)
| ELast.           (* self._variants[-1]        : the last variant itself *)

(* how new_num - num_variants elements are added *)
Inductive vstmt : Set :=
| SForAppend (e : velem)       (* the element expression is evaluated once PER new variant *)
| SExtendRepeat (e : velem).   (* [e] * count : the element expression is evaluated ONCE *)

Inductive vshrink : Set :=
| SPrefix.                     (* self._variants[0:new_num] *)
