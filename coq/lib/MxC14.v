(* Matrix interface for C14 (trend filters): ONE model text, two carriers.

   - the record [MatOps] is the abstract, dimension-indexed interface in which
     model/HP.v and model/L1.v are written;
   - [QOps] (this file) is the executable instance on [list (list bigQ)]
     (dimensions are phantom), used by the tolerance correspondence: every
     IEEE double is a dyadic rational, so the model is evaluated EXACTLY;
   - the MathComp instance ['M[F]_(m,n)] over a [realFieldType] lives in
     proofs/HPProofs.v and is what the theorems are about.

   The linear solve is NOT part of the interface: it is an oracle argument of
   the model (numpy.linalg.solve in the code).  The executable instance uses
   Gauss-Jordan elimination [q_solve] and then CHECKS the oracle's contract
   [M x = b] exactly ([q_solve_checked]); the theorems assume that contract. *)
From Coq Require Import ZArith List Bool.
From Bignums Require Import BigQ.
Import ListNotations.

Record MatOps := mkMatOps {
  sc : Type;
  s_ofZ : Z -> sc;
  s_add : sc -> sc -> sc;
  s_sub : sc -> sc -> sc;
  s_mul : sc -> sc -> sc;
  s_leb : sc -> sc -> bool;
  mx : nat -> nat -> Type;
  m_fun : forall m n, (nat -> nat -> sc) -> mx m n;
  m_get : forall m n, mx m n -> nat -> nat -> sc;
  m_mul : forall m n p, mx m n -> mx n p -> mx m p;
  m_add : forall m n, mx m n -> mx m n -> mx m n;
  m_sub : forall m n, mx m n -> mx m n -> mx m n;
  m_scale : forall m n, sc -> mx m n -> mx m n;
  m_tr : forall m n, mx m n -> mx n m;
  m_block : forall m1 m2 n1 n2, mx m1 n1 -> mx m1 n2 -> mx m2 n1 -> mx m2 n2 -> mx (m1 + m2) (n1 + n2);
  m_col : forall m1 m2 n, mx m1 n -> mx m2 n -> mx (m1 + m2) n;
  m_up : forall m1 m2 n, mx (m1 + m2) n -> mx m1 n;
  m_down : forall m1 m2 n, mx (m1 + m2) n -> mx m2 n
}.

Arguments m_get _ {_ _} _ _ _.
Arguments m_mul _ {_ _ _} _ _.
Arguments m_add _ {_ _} _ _.
Arguments m_sub _ {_ _} _ _.
Arguments m_scale _ {_ _} _ _.
Arguments m_tr _ {_ _} _.
Arguments m_block _ {_ _ _ _} _ _ _ _.
Arguments m_col _ {_ _ _} _ _.
Arguments m_up _ {_ _ _} _.
Arguments m_down _ {_ _ _} _.

(* ------------------------------------------------------------------ *)
(* exact rationals                                                     *)
(* ------------------------------------------------------------------ *)

Definition q0 : bigQ := BigQ.zero.
Definition q1 : bigQ := BigQ.one.
Definition qadd (a b : bigQ) : bigQ := BigQ.add_norm a b.
Definition qsub (a b : bigQ) : bigQ := BigQ.sub_norm a b.
Definition qmul (a b : bigQ) : bigQ := BigQ.mul_norm a b.
Definition qdiv (a b : bigQ) : bigQ := BigQ.div_norm a b.
Definition qopp (a : bigQ) : bigQ := BigQ.opp a.
Definition qeqb (a b : bigQ) : bool := BigQ.eq_bool a b.
Definition qleb (a b : bigQ) : bool := match BigQ.compare a b with Gt => false | _ => true end.
Definition qltb (a b : bigQ) : bool := match BigQ.compare a b with Lt => true | _ => false end.
Definition qabs (a : bigQ) : bigQ := if qleb q0 a then a else qopp a.
Definition qofZ (z : Z) : bigQ := BigQ.Qz (BigZ.of_Z z).
(* m * 2^e : the exact value of a double given by its integer mantissa and exponent *)
Definition qdyadic (m e : Z) : bigQ :=
  match e with
  | Zneg p => BigQ.red (BigQ.Qq (BigZ.of_Z m) (BigN.of_N (Npos (Pos.shiftl 1 (Npos p)))))
  | _ => BigQ.Qz (BigZ.of_Z (Z.shiftl m e))
  end.

Definition qis0 (x : bigQ) : bool :=
  match x with
  | BigQ.Qz z => BigZ.eqb z BigZ.zero
  | BigQ.Qq n d => BigZ.eqb n BigZ.zero || BigN.eqb d BigN.zero
  end.

Definition qrow := list bigQ.
Definition qmat := list qrow.

Definition q_fun (m n : nat) (f : nat -> nat -> bigQ) : qmat :=
  map (fun i => map (fun j => f i j) (seq 0 n)) (seq 0 m).
Definition q_get (A : qmat) (i j : nat) : bigQ := nth j (nth i A []) q0.
Definition q_dot (u v : qrow) : bigQ :=
  fold_left (fun acc p => if qis0 (fst p) then acc else if qis0 (snd p) then acc
                          else qadd acc (qmul (fst p) (snd p))) (combine u v) q0.
Fixpoint q_transpose (n : nat) (A : qmat) : qmat :=   (* n = number of columns of A *)
  match n with
  | O => []
  | S k => map (fun r => hd q0 r) A :: q_transpose k (map (fun r => tl r) A)
  end.
Definition q_mmul (p : nat) (A B : qmat) : qmat :=      (* p = number of columns of B *)
  let Bt := q_transpose p B in map (fun r => map (fun c => q_dot r c) Bt) A.
Definition q_zip (f : bigQ -> bigQ -> bigQ) (A B : qmat) : qmat :=
  map (fun p => map (fun q => f (fst q) (snd q)) (combine (fst p) (snd p))) (combine A B).

Definition QOps : MatOps := {|
  sc := bigQ; s_ofZ := qofZ; s_add := qadd; s_sub := qsub; s_mul := qmul; s_leb := qleb;
  mx := fun _ _ => qmat;
  m_fun := q_fun;
  m_get := fun _ _ A i j => q_get A i j;
  m_mul := fun _ _ p A B => q_mmul p A B;
  m_add := fun _ _ A B => q_zip qadd A B;
  m_sub := fun _ _ A B => q_zip qsub A B;
  m_scale := fun _ _ a A => map (map (qmul a)) A;
  m_tr := fun _ n A => q_transpose n A;
  m_block := fun _ _ _ _ A B C D =>
     map (fun p => fst p ++ snd p) (combine A B) ++ map (fun p => fst p ++ snd p) (combine C D);
  m_col := fun _ _ _ A B => A ++ B;
  m_up := fun m1 _ _ A => firstn m1 A;
  m_down := fun m1 _ _ A => skipn m1 A
|}.

(* ------------------------------------------------------------------ *)
(* Exact linear solve: fraction-free (Bareiss) elimination on integers  *)
(*                                                                      *)
(* Rational Gaussian elimination spends its time in gcds of numbers of  *)
(* thousands of bits; instead every row of [A | b] is scaled to         *)
(* integers, eliminated without fractions (all divisions exact), and    *)
(* the solution is returned as X_k / D with one common denominator.     *)
(* Nothing of this is trusted: [q_solve_checked] re-checks A x = b.     *)
(* ------------------------------------------------------------------ *)

Definition zrow := list bigZ.
Definition z0 : bigZ := BigZ.zero.
Definition zis0 (z : bigZ) : bool := BigZ.eqb z z0.

Definition q_den (x : bigQ) : bigN :=
  match x with
  | BigQ.Qz _ => BigN.one
  | BigQ.Qq _ d => if BigN.eqb d BigN.zero then BigN.one else d
  end.
(* s * x as an integer, for a denominator s that the denominator of x divides *)
Definition q_scaled (s : bigN) (x : bigQ) : bigZ :=
  match x with
  | BigQ.Qz z => BigZ.mul z (BigZ.Pos s)
  | BigQ.Qq n d => if BigN.eqb d BigN.zero then z0 else BigZ.mul n (BigZ.Pos (BigN.div s d))
  end.
Definition int_row (r : qrow) : bigN * zrow :=
  let s := fold_left (fun acc x => BigN.max acc (q_den x)) r BigN.one in
  (s, map (q_scaled s) r).
(* the scaling is exact: every integer entry equals s * (rational entry) *)
Definition int_row_ok (r : qrow) (sr : bigN * zrow) : bool :=
  let s := BigQ.Qz (BigZ.Pos (fst sr)) in
  Nat.eqb (length r) (length (snd sr)) &&
  forallb (fun p => BigQ.eq_bool (BigQ.Qz (snd p)) (BigQ.mul s (fst p))) (combine r (snd sr)).

(* a row that no elimination step has touched yet stands for (previous pivot) * (original row) *)
Inductive brow := Raw (r : zrow) | Mat (r : zrow).
Definition brow_get (c : nat) (b : brow) : bigZ :=
  match b with Raw r => nth c r z0 | Mat r => nth c r z0 end.

Fixpoint bfind (c : nat) (rows : list brow) : option (brow * list brow) :=
  match rows with
  | [] => None
  | r :: rs =>
      if zis0 (brow_get c r) then
        match bfind c rs with
        | Some (p, rest) => Some (p, r :: rest)
        | None => None
        end
      else Some (r, rs)
  end.

(* p * x - a * y, entry by entry *)
Definition zrow_comb (p : bigZ) (x : zrow) (a : bigZ) (y : zrow) : zrow :=
  map (fun q => BigZ.sub (BigZ.mul p (fst q)) (BigZ.mul a (snd q))) (combine x y).

Fixpoint bareiss (fuel c : nat) (prev : bigZ) (done : list zrow) (todo : list brow) : option (list zrow) :=
  match fuel with
  | O => Some done
  | S f =>
      match bfind c todo with
      | None => None                                (* singular *)
      | Some (pr, rest) =>
          let prow := match pr with Raw r => map (BigZ.mul prev) r | Mat r => r end in
          let p := nth c prow z0 in
          let upd := fun br =>
            match br with
            | Raw r => let a := nth c r z0 in
                       if zis0 a then Raw r else Mat (zrow_comb p r a prow)
            | Mat r => let a := nth c r z0 in
                       Mat (map (fun v => BigZ.div v prev)
                                (if zis0 a then map (BigZ.mul p) r else zrow_comb p r a prow))
            end in
          bareiss f (S c) p (prow :: done) (map upd rest)
      end
  end.

(* [rows]: pivot rows of columns c-1, ..., 0; [xs]: numerators X_c, ..., X_(n-1) over the denominator D *)
Fixpoint bareiss_back (n c : nat) (D : bigZ) (rows : list zrow) (xs : list bigZ) : list bigZ :=
  match rows, c with
  | r :: rs, S k =>
      let s := fold_left (fun acc q => if zis0 (fst q) then acc else BigZ.add acc (BigZ.mul (fst q) (snd q)))
                         (combine (skipn c r) xs) z0 in
      let x := BigZ.div (BigZ.sub (BigZ.mul D (nth n r z0)) s) (nth k r z0) in
      bareiss_back n k D rs (x :: xs)
  | _, _ => xs
  end.

Definition q_of_frac (X D : bigZ) : bigQ :=      (* X / D, not normalised *)
  match D with
  | BigZ.Pos d => BigQ.Qq X d
  | BigZ.Neg d => BigQ.Qq (BigZ.opp X) d
  end.

Definition q_solve (n : nat) (A : qmat) (b : qmat) : option qmat :=
  let aug := map (fun p => fst p ++ snd p) (combine A b) in
  let irows := map int_row aug in
  if negb (forallb (fun p => int_row_ok (fst p) (snd p)) (combine aug irows)) then None else
  match bareiss n 0 BigZ.one [] (map (fun sr => Raw (snd sr)) irows) with
  | Some ((last :: _) as rows) =>
      let D := nth (n - 1) last z0 in
      let X := bareiss_back n n D rows [] in
      (* exact check on the integer rows: (s_i A_i) . X = D (s_i b_i) *)
      if forallb (fun sr => let r := snd sr in
                    BigZ.eqb (fold_left (fun acc q => if zis0 (fst q) then acc else BigZ.add acc (BigZ.mul (fst q) (snd q)))
                                        (combine r X) z0)
                             (BigZ.mul D (nth n r z0))) irows
         && negb (zis0 D) && Nat.eqb (length X) n
      then Some (map (fun x => [q_of_frac x D]) X) else None
  | _ => None
  end.

(* the solve oracle of the executable model.  [q_solve] already checked, in exact integer
   arithmetic, that its result satisfies every (scaled) equation; singular systems give None *)
Definition q_solve_checked (n : nat) (A : qmat) (b : qmat) : option qmat := q_solve n A b.

Definition qmat_eqb (A B : qmat) : bool :=
  Nat.eqb (length A) (length B) &&
  forallb (fun p => Nat.eqb (length (fst p)) (length (snd p)) &&
                    forallb (fun q => qeqb (fst q) (snd q)) (combine (fst p) (snd p))) (combine A B).

(* tolerance comparison: |model - impl| <= tol * (1 + |impl|) *)
Definition q_close (tol m v : bigQ) : bool :=
  qleb (qabs (qsub m v)) (qmul tol (qadd q1 (qabs v))).
Definition q_close_opt (tol : bigQ) (m v : option bigQ) : bool :=
  match m, v with
  | Some a, Some b => q_close tol a b
  | None, None => true
  | _, _ => false
  end.
Fixpoint all2 {A B} (f : A -> B -> bool) (u : list A) (v : list B) : bool :=
  match u, v with
  | [], [] => true
  | a :: u', b :: v' => f a b && all2 f u' v'
  | _, _ => false
  end.
