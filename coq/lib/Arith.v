(* Scalar carriers: one model text, several instances (DESIGN.md 1.3).
   - [RArith]      : Coq reals, used by the theorems
   - [FArith tbl]  : IEEE-754 binary64 through PrimFloat, used to run the model
                     against the implementation bit for bit; ln/exp/pow have no
                     PrimFloat primitive, so they are looked up in a table that
                     the harness records from numpy (libm is a black box). *)
From Coq Require Import ZArith List Bool Reals PrimFloat Uint63.
Import ListNotations.

Record Arith := mkArith {
  car : Type;
  add : car -> car -> car;
  sub : car -> car -> car;
  mul : car -> car -> car;
  div : car -> car -> car;
  neg : car -> car;
  ofZ : Z -> car;
  ln  : car -> car;
  exp : car -> car;
  pow : car -> car -> car;
  miss : car;
  is_miss : car -> bool
}.

(* ---------- reals ---------- *)
Definition RArith : Arith := {|
  car := R; add := Rplus; sub := Rminus; mul := Rmult; div := Rdiv; neg := Ropp;
  ofZ := IZR; ln := Rpower.ln; exp := Rtrigo_def.exp; pow := Rpower;
  miss := 0%R; is_miss := fun _ => false |}.

(* ---------- floats ---------- *)
Definition float_of_Z (z : Z) : float :=
  match z with
  | Z0 => 0%float
  | Zpos _ => PrimFloat.of_uint63 (Uint63.of_Z z)
  | Zneg p => PrimFloat.opp (PrimFloat.of_uint63 (Uint63.of_Z (Zpos p)))
  end.

Definition feq (x y : float) : bool :=
  if PrimFloat.is_nan x then PrimFloat.is_nan y
  else if PrimFloat.is_nan y then false
  else PrimFloat.eqb x y.

Record ftables := { t_ln : list (float * float); t_exp : list (float * float);
                    t_pow : list ((float * float) * float) }.

Fixpoint lookup1 (t : list (float * float)) (x : float) : float :=
  match t with
  | [] => (* not recorded: poison value, recognisable in the output *) 0x1.deadp+999%float
  | (k, v) :: r => if feq k x then v else lookup1 r x
  end.
Fixpoint lookup2 (t : list ((float * float) * float)) (x y : float) : float :=
  match t with
  | [] => 0x1.deadp+999%float
  | ((k1, k2), v) :: r => if feq k1 x && feq k2 y then v else lookup2 r x y
  end.

Definition FArith (t : ftables) : Arith := {|
  car := float;
  add := PrimFloat.add; sub := PrimFloat.sub; mul := PrimFloat.mul; div := PrimFloat.div;
  neg := PrimFloat.opp;
  ofZ := float_of_Z;
  ln := lookup1 (t_ln t); exp := lookup1 (t_exp t); pow := lookup2 (t_pow t);
  miss := nan; is_miss := PrimFloat.is_nan |}.
