(* The fragment of Python's str / int / format machinery used by irispie's
   period codecs: str(int), int(str) on [+-]?digits, '{:0Wg}' for non-negative
   integers below 10^6, tuple repr of integers, str.strip / removeprefix /
   removesuffix / split(sep).  Definitions first, lemmas below. *)
From Coq Require Import ZArith Bool Ascii String List Lia.
From Verif Require Import lib.RegexSub.
Import ListNotations.
Open Scope Z_scope.

Definition str := list ascii.
Definition s2l (s : string) : str := list_ascii_of_string s.

(* pieces of an f-string *)
Inductive fpiece :=
| FLit (s : string)                           (* literal text *)
| FG (n : Z) (width : nat) (zero : bool)      (* {n:0Wg} (zero = true) or {n:Wg} *)
| FD (n : Z)                                  (* {n} : str(int) *)
| FTup (l : list Z).                          (* {t} : repr of a tuple of ints *)

(* a from_sdmx_string body: strip?, removeprefix, removesuffix, split(sep)?, int() of the pieces, constructor *)
Record sdmx_parser := {
  sp_strip : bool; sp_prefix : string; sp_suffix : string; sp_sep : option string;
  sp_npieces : nat; sp_star : bool; sp_build : list Z -> option Z }.

(* ------------------------------------------------------------------ digits *)

Definition digit_char (d : Z) : ascii :=
  match d with
  | 0 => "0" | 1 => "1" | 2 => "2" | 3 => "3" | 4 => "4" | 5 => "5" | 6 => "6" | 7 => "7" | 8 => "8" | _ => "9"
  end%char.

Definition digit_val (c : ascii) : Z := Z.of_nat (nat_of_ascii c) - 48.

Fixpoint digits_fuel (fuel : nat) (n : Z) : str :=
  match fuel with
  | O => []
  | S f => if n <? 10 then [digit_char n] else digits_fuel f (n / 10) ++ [digit_char (n mod 10)]
  end.

(* str(n) for n >= 0 *)
Definition dec_nat (n : Z) : str := digits_fuel (S (Z.to_nat (Z.log2 n))) n.
(* str(n) *)
Definition dec_int (n : Z) : str := if n <? 0 then "-"%char :: dec_nat (- n) else dec_nat n.

Definition digits_value (s : str) : Z := fold_left (fun a c => 10 * a + digit_val c) s 0.

Definition all_digits (s : str) : bool := forallb is_digit s.

Definition parse_nat (s : str) : option Z :=
  match s with
  | [] => None
  | _ => if all_digits s then Some (digits_value s) else None
  end.

(* int(s) for s of the form [+-]?digits+ ; anything else: ValueError (None) *)
Definition parse_int (s : str) : option Z :=
  match s with
  | c :: t => if Ascii.eqb c "-" then option_map Z.opp (parse_nat t)
              else if Ascii.eqb c "+" then parse_nat t
              else parse_nat s
  | [] => None
  end.

Definition pad (w : nat) (c : ascii) (s : str) : str := repeat c (w - length s) ++ s.

(* '{n:0Wg}' / '{n:Wg}' : exact for integers 0 <= n < 10^6 (beyond that %g switches to an exponent) *)
Definition fmt_g (n : Z) (w : nat) (zero : bool) : option str :=
  if (0 <=? n) && (n <? 1000000) then Some (pad w (if zero then "0" else " ")%char (dec_nat n)) else None.

Fixpoint join_comma (l : list str) : str :=
  match l with
  | [] => []
  | [x] => x
  | x :: r => x ++ ","%char :: " "%char :: join_comma r
  end.

(* repr of a tuple of ints *)
Definition tuple_repr (l : list Z) : str :=
  match l with
  | [x] => "("%char :: dec_int x ++ [","; ")"]%char
  | _ => "("%char :: join_comma (map dec_int l) ++ [")"]%char
  end.

Definition render_piece (p : fpiece) : option str :=
  match p with
  | FLit s => Some (s2l s)
  | FG n w z => fmt_g n w z
  | FD n => Some (dec_int n)
  | FTup l => Some (tuple_repr l)
  end.

Fixpoint render (l : list fpiece) : option str :=
  match l with
  | [] => Some []
  | p :: r => match render_piece p, render r with
              | Some a, Some b => Some (a ++ b)
              | _, _ => None
              end
  end.

Definition remove_blanks (s : str) : str := filter (fun c => negb (Ascii.eqb c " ")) s.

(* ------------------------------------------------------------------ str methods *)

(* ASCII characters removed by str.strip() *)
Definition is_space (c : ascii) : bool :=
  let n := nat_of_ascii c in
  ((9 <=? n) && (n <=? 13) || (28 <=? n) && (n <=? 32))%nat.

Fixpoint lstrip (s : str) : str :=
  match s with
  | c :: t => if is_space c then lstrip t else s
  | [] => []
  end.
Definition rstrip (s : str) : str := rev (lstrip (rev s)).
Definition strip (s : str) : str := rstrip (lstrip s).

Fixpoint is_prefix (p s : str) : bool :=
  match p, s with
  | [], _ => true
  | a :: p', b :: s' => Ascii.eqb a b && is_prefix p' s'
  | _ :: _, [] => false
  end.

Definition removeprefix (p s : str) : str := if is_prefix p s then skipn (length p) s else s.
Definition removesuffix (p s : str) : str :=
  match p with
  | [] => s
  | _ => if is_prefix (rev p) (rev s) then firstn (length s - length p) s else s
  end.

(* s.split(sep), sep non-empty: [skip] characters of a separator are still to be consumed *)
Fixpoint split_aux (sep : str) (skip : nat) (s cur : str) : list str :=
  match s with
  | [] => [cur]
  | c :: s' =>
      match skip with
      | S k => split_aux sep k s' cur
      | O => if is_prefix sep s then cur :: split_aux sep (length sep - 1) s' []
             else split_aux sep 0 s' (cur ++ [c])
      end
  end.
Definition split_on (sep s : str) : list str := split_aux sep 0 s [].

Fixpoint all_some {T} (l : list (option T)) : option (list T) :=
  match l with
  | [] => Some []
  | Some x :: r => option_map (cons x) (all_some r)
  | None :: _ => None
  end.

(* run a from_sdmx_string descriptor; None = the implementation raises *)
Definition parse_with (p : sdmx_parser) (s : str) : option Z :=
  let s1 := if sp_strip p then strip s else s in
  let s2 := removeprefix (s2l (sp_prefix p)) s1 in
  let s3 := removesuffix (s2l (sp_suffix p)) s2 in
  let pieces := match sp_sep p with None => [s3] | Some sep => split_on (s2l sep) s3 end in
  let n := sp_npieces p in
  if Nat.eqb (length pieces) n || (sp_star p && Nat.leb n (length pieces)) then
    match all_some (map parse_int (firstn n pieces)) with
    | Some l => sp_build p l
    | None => None
    end
  else None.

(* ================================================================== lemmas *)

Lemma digit_char_spec : forall d, 0 <= d <= 9 ->
  is_digit (digit_char d) = true /\ digit_val (digit_char d) = d.
Proof.
  intros d H.
  assert (C : d = 0 \/ d = 1 \/ d = 2 \/ d = 3 \/ d = 4 \/ d = 5 \/ d = 6 \/ d = 7 \/ d = 8 \/ d = 9) by lia.
  repeat (destruct C as [C | C]); subst d; split; reflexivity.
Qed.

Lemma digits_value_app1 : forall s c, digits_value (s ++ [c]) = 10 * digits_value s + digit_val c.
Proof. intros. unfold digits_value. rewrite fold_left_app. reflexivity. Qed.

Lemma all_digits_app : forall a b, all_digits (a ++ b) = all_digits a && all_digits b.
Proof. intros. unfold all_digits. apply forallb_app. Qed.

Lemma digits_fuel_all : forall f n, 0 <= n -> all_digits (digits_fuel f n) = true.
Proof.
  induction f; intros n H; cbn [digits_fuel]; [reflexivity |].
  destruct (Z.ltb_spec n 10).
  - cbn. rewrite (proj1 (digit_char_spec n ltac:(lia))). reflexivity.
  - rewrite all_digits_app, IHf by (apply Z.div_pos; lia). cbn.
    rewrite (proj1 (digit_char_spec (n mod 10) ltac:(pose proof (Z.mod_pos_bound n 10); lia))). reflexivity.
Qed.

Lemma digits_fuel_nonempty : forall f n, digits_fuel (S f) n <> [].
Proof.
  intros f n. cbn [digits_fuel]. destruct (n <? 10); [discriminate |].
  destruct (digits_fuel f (n / 10)); discriminate.
Qed.

Lemma digits_fuel_value : forall f n, 0 <= n < 2 ^ Z.of_nat (S f) -> digits_value (digits_fuel (S f) n) = n.
Proof.
  induction f; intros n H.
  - cbn in H. cbn [digits_fuel]. destruct (Z.ltb_spec n 10); [| lia].
    unfold digits_value. cbn. rewrite (proj2 (digit_char_spec n ltac:(lia))). lia.
  - remember (S f) as g. cbn [digits_fuel]. destruct (Z.ltb_spec n 10).
    + unfold digits_value. cbn. rewrite (proj2 (digit_char_spec n ltac:(lia))). lia.
    + rewrite digits_value_app1. subst g. rewrite IHf.
      * rewrite (proj2 (digit_char_spec (n mod 10) ltac:(pose proof (Z.mod_pos_bound n 10); lia))).
        pose proof (Z.div_mod n 10). lia.
      * rewrite Nat2Z.inj_succ, Z.pow_succ_r in H by lia.
        split; [apply Z.div_pos; lia |].
        apply Z.div_lt_upper_bound; lia.
Qed.

Lemma log2_fuel : forall n, 0 <= n -> 0 <= n < 2 ^ Z.of_nat (S (Z.to_nat (Z.log2 n))).
Proof.
  intros n H. split; [assumption |].
  rewrite Nat2Z.inj_succ, Z2Nat.id by apply Z.log2_nonneg.
  destruct (Z.eq_dec n 0); [subst; reflexivity |].
  apply Z.log2_spec. lia.
Qed.

Theorem dec_nat_digits : forall n, 0 <= n -> all_digits (dec_nat n) = true /\ dec_nat n <> [].
Proof. intros. split; [apply digits_fuel_all; assumption | apply digits_fuel_nonempty]. Qed.

Theorem dec_nat_value : forall n, 0 <= n -> digits_value (dec_nat n) = n.
Proof. intros. apply digits_fuel_value, log2_fuel. assumption. Qed.

Theorem parse_nat_dec_nat : forall n, 0 <= n -> parse_nat (dec_nat n) = Some n.
Proof.
  intros n H. destruct (dec_nat_digits n H) as [D N]. unfold parse_nat.
  destruct (dec_nat n) eqn:E; [congruence |]. rewrite D, <- E, dec_nat_value; auto.
Qed.

Lemma parse_nat_digits : forall s, s <> [] -> all_digits s = true -> parse_nat s = Some (digits_value s).
Proof. intros s N D. unfold parse_nat. destruct s; [congruence |]. rewrite D. reflexivity. Qed.

Lemma digit_not_sign : forall c, is_digit c = true -> Ascii.eqb c "-" = false /\ Ascii.eqb c "+" = false.
Proof.
  intros c H. split; destruct (Ascii.eqb_spec c "-"%char), (Ascii.eqb_spec c "+"%char); subst; try reflexivity;
    cbn in H; discriminate.
Qed.

Lemma parse_int_digits : forall s, s <> [] -> all_digits s = true -> parse_int s = Some (digits_value s).
Proof.
  intros s N D. destruct s as [| c t]; [congruence |].
  unfold parse_int. pose proof D as D'. cbn in D'. apply andb_true_iff in D'. destruct D' as [Dc _].
  destruct (digit_not_sign c Dc) as [-> ->]. apply parse_nat_digits; assumption.
Qed.

Theorem parse_int_dec_int : forall n, parse_int (dec_int n) = Some n.
Proof.
  intros n. unfold dec_int. destruct (Z.ltb_spec n 0).
  - unfold parse_int. cbv beta iota. rewrite Ascii.eqb_refl, parse_nat_dec_nat by lia. cbn [option_map]. f_equal. lia.
  - destruct (dec_nat_digits n H). rewrite parse_int_digits, dec_nat_value; auto.
Qed.

(* leading zeros *)
Lemma digits_value_zeros : forall k s, digits_value (repeat "0"%char k ++ s) = digits_value s.
Proof.
  intros k s. unfold digits_value. rewrite fold_left_app.
  replace (fold_left (fun a c => 10 * a + digit_val c) (repeat "0"%char k) 0) with 0; [reflexivity |].
  induction k; cbn; [reflexivity | assumption].
Qed.

Lemma all_digits_zeros : forall k, all_digits (repeat "0"%char k) = true.
Proof. induction k; cbn; auto. Qed.

Lemma pad0_digits : forall w s, all_digits s = true -> all_digits (pad w "0" s) = true.
Proof. intros. unfold pad. rewrite all_digits_app, all_digits_zeros. assumption. Qed.

Lemma pad_nonempty : forall w c s, s <> [] -> pad w c s <> [].
Proof. intros w c s N. unfold pad. destruct (repeat c (w - length s)); cbn; [assumption | discriminate]. Qed.

Theorem parse_int_pad0 : forall w n, 0 <= n -> parse_int (pad w "0" (dec_nat n)) = Some n.
Proof.
  intros w n H. destruct (dec_nat_digits n H) as [D N].
  rewrite parse_int_digits by (auto using pad_nonempty, pad0_digits).
  unfold pad. rewrite digits_value_zeros, dec_nat_value; auto.
Qed.

Lemma pad_length : forall w c s, length (pad w c s) = Nat.max w (length s).
Proof. intros. unfold pad. rewrite app_length, repeat_length. lia. Qed.

(* number of digits *)
Lemma digits_fuel_length : forall f n k, 0 <= n < 10 ^ Z.of_nat (S k) ->
  (1 <= length (digits_fuel (S f) n) <= S k)%nat.
Proof.
  induction f; intros n k H.
  - cbn [digits_fuel]. destruct (n <? 10); cbn; lia.
  - remember (S f) as g. cbn [digits_fuel]. destruct (Z.ltb_spec n 10); [cbn; lia |].
    subst g. destruct k.
    + cbn in H. lia.
    + rewrite app_length. cbn [length].
      assert (0 <= n / 10 < 10 ^ Z.of_nat (S k)).
      { rewrite (Nat2Z.inj_succ (S k)), Z.pow_succ_r in H by lia.
        split; [apply Z.div_pos; lia | apply Z.div_lt_upper_bound; lia]. }
      specialize (IHf (n / 10) k H1). lia.
Qed.

Theorem dec_nat_length : forall n k, 0 <= n < 10 ^ Z.of_nat (S k) -> (1 <= length (dec_nat n) <= S k)%nat.
Proof. intros. apply digits_fuel_length. assumption. Qed.

Theorem dec_nat_small : forall n, 0 <= n < 10 -> dec_nat n = [digit_char n].
Proof.
  intros n H. unfold dec_nat. cbn [digits_fuel]. destruct (Z.ltb_spec n 10); [reflexivity | lia].
Qed.

(* spaces and digits *)
Lemma digit_not_space : forall c, is_digit c = true -> is_space c = false.
Proof.
  intros c H. unfold is_digit in H. unfold is_space.
  apply andb_true_iff in H. destruct H as [A B].
  apply Nat.leb_le in A. apply Nat.leb_le in B.
  destruct (Nat.leb_spec 9 (nat_of_ascii c)), (Nat.leb_spec (nat_of_ascii c) 13),
    (Nat.leb_spec 28 (nat_of_ascii c)), (Nat.leb_spec (nat_of_ascii c) 32); cbn; try reflexivity; lia.
Qed.

Lemma lstrip_nonspace : forall c t, is_space c = false -> lstrip (c :: t) = c :: t.
Proof. intros. cbn. rewrite H. reflexivity. Qed.

Theorem strip_id : forall s a b, s <> [] -> hd_error s = Some a -> hd_error (rev s) = Some b ->
  is_space a = false -> is_space b = false -> strip s = s.
Proof.
  intros s a b N Ha Hb Sa Sb. unfold strip, rstrip.
  destruct s as [| c t]; [congruence |]. cbn in Ha. injection Ha as ->.
  rewrite lstrip_nonspace by assumption.
  destruct (rev (a :: t)) as [| d u] eqn:E; [cbn in Hb; discriminate |].
  cbn in Hb. injection Hb as ->. rewrite lstrip_nonspace by assumption.
  rewrite <- E. apply rev_involutive.
Qed.

(* split on a separator that starts with a non-digit, pieces made of digits *)
Lemma is_prefix_app : forall p s, is_prefix p (p ++ s) = true.
Proof. induction p; intros; cbn; [reflexivity |]. rewrite Ascii.eqb_refl. apply IHp. Qed.

Lemma is_prefix_head_false : forall c p d s, Ascii.eqb c d = false -> is_prefix (c :: p) (d :: s) = false.
Proof. intros. cbn. rewrite H. reflexivity. Qed.

Lemma split_aux_skip : forall sep p s cur, split_aux sep (length p) (p ++ s) cur = split_aux sep 0 s cur.
Proof. induction p; intros; cbn; [destruct s; reflexivity | apply IHp]. Qed.

Lemma split_aux_digits_sep : forall c sep a rest cur,
  is_digit c = false -> all_digits a = true ->
  split_aux (c :: sep) 0 (a ++ c :: sep ++ rest) cur = (cur ++ a) :: split_aux (c :: sep) 0 rest [].
Proof.
  intros c sep a. induction a as [| x a IH]; intros rest cur Hc Ha.
  - cbn [app]. cbn [split_aux]. change (c :: sep ++ rest) with ((c :: sep) ++ rest).
    rewrite is_prefix_app. rewrite app_nil_r. f_equal.
    cbn [length]. replace (S (length sep) - 1)%nat with (length sep) by lia.
    apply split_aux_skip.
  - cbn in Ha. apply andb_true_iff in Ha. destruct Ha as [Hx Ha].
    cbn [app split_aux]. rewrite is_prefix_head_false.
    + rewrite IH by assumption. rewrite <- app_assoc. reflexivity.
    + destruct (Ascii.eqb_spec c x); [subst; congruence | reflexivity].
Qed.

Lemma split_aux_digits_end : forall c sep a cur,
  is_digit c = false -> all_digits a = true -> split_aux (c :: sep) 0 a cur = [cur ++ a].
Proof.
  intros c sep a. induction a as [| x a IH]; intros cur Hc Ha.
  - cbn. rewrite app_nil_r. reflexivity.
  - cbn in Ha. apply andb_true_iff in Ha. destruct Ha as [Hx Ha].
    cbn [split_aux]. rewrite is_prefix_head_false.
    + rewrite IH by assumption. rewrite <- app_assoc. reflexivity.
    + destruct (Ascii.eqb_spec c x); [subst; congruence | reflexivity].
Qed.

Theorem split_on_digits_sep : forall c sep a rest, is_digit c = false -> all_digits a = true ->
  split_on (c :: sep) (a ++ (c :: sep) ++ rest) = a :: split_on (c :: sep) rest.
Proof. intros. unfold split_on. cbn [app]. rewrite split_aux_digits_sep by assumption. reflexivity. Qed.

Theorem split_on_digits_end : forall c sep a, is_digit c = false -> all_digits a = true ->
  split_on (c :: sep) a = [a].
Proof. intros. unfold split_on. rewrite split_aux_digits_end by assumption. reflexivity. Qed.

Lemma render_app : forall a b x y, render a = Some x -> render b = Some y -> render (a ++ b) = Some (x ++ y).
Proof.
  induction a; intros b x y Ha Hb; cbn in *.
  - injection Ha as <-. assumption.
  - destruct (render_piece a) as [p |]; [| discriminate]. destruct (render a0) as [q |]; [| discriminate].
    injection Ha as <-. rewrite (IHa b q y eq_refl Hb). rewrite app_assoc. reflexivity.
Qed.
