(* The MathComp instance of the matrix interface (lib/MatOps.v): 'M[F]_(m,n) over a field.
   Every proof about a matrix model is carried out on this instance.  The scalar logarithm
   and the constant log(2 pi) are parameters (they become Section variables with hypotheses
   in the theorems that need them). *)
From mathcomp Require Import all_ssreflect all_algebra.
From Verif Require Import lib.MatOps.
Set Implicit Arguments.
Unset Strict Implicit.
Unset Printing Implicit Defensive.
Import GRing.Theory.
Local Open Scope ring_scope.

Section MC.
Variable F : fieldType.
Variables (flog : F -> F) (flog2pi : F).

Definition rows_of m n (A : 'M[F]_(m, n)) : seq 'rV[F]_n := [seq row i A | i <- enum 'I_m].

(* rows of A kept by a boolean mask / listed by number; out-of-range rows read as 0 *)
Definition mc_sel m n (msk : list bool) (A : 'M[F]_(m, n)) : 'M[F]_(count_true msk, n) :=
  \matrix_(i, j) (nth 0 (mask msk (rows_of A)) i) 0 j.
Definition mc_rows m n (idx : list nat) (A : 'M[F]_(m, n)) : 'M[F]_(length idx, n) :=
  \matrix_(i, j) (nth 0 (rows_of A) (nth 0%N idx i)) 0 j.

Definition MC : MatOps := {|
  sc := F; mx := fun m n => 'M[F]_(m, n);
  s0 := 0; s1 := 1; sadd := +%R; ssub := fun x y => x - y; smul := *%R; sdiv := fun x y => x / y;
  sopp := -%R; sofnat := fun k => k%:R; s_is0 := fun x => x == 0;
  mzero := fun m n => 0; mid := fun n => 1%:M;
  madd := fun m n A B => A + B; msub := fun m n A B => A - B; mopp := fun m n A => - A;
  mscale := fun m n c A => c *: A;
  mmul := fun m n p A B => A *m B;
  mtr := fun m n A => A^T;
  minv := fun n A => invmx A;
  mdet := fun n A => \det A;
  m11 := fun A => A ord0 ord0;
  msel := @mc_sel; mrows := @mc_rows;
  mrow := fun m n1 n2 A B => row_mx A B;
  mcol := fun m1 m2 n A B => col_mx A B;
  mblock := fun m1 m2 n1 n2 A B C D => block_mx A B C D;
  mlsub := fun m n1 n2 A => lsubmx A; mrsub := fun m n1 n2 A => rsubmx A;
  musub := fun m1 m2 n A => usubmx A; mdsub := fun m1 m2 n A => dsubmx A;
  mentries := fun m n A => [seq [seq A i j | j <- enum 'I_n] | i <- enum 'I_m];
  mdiag := fun n A => [seq A i i | i <- enum 'I_n];
  mdiagm := fun n l => \matrix_(i, j) (if i == j then nth 0 l i else 0);
  lg := F; lg_of := id; lg_add := +%R; lg_scale := *%R; lg_log := flog; lg_log2pi := flog2pi
|}.
End MC.
