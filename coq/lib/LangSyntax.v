(* Syntax shared by the generated fragment gen/PseudoGen.v and the model
   model/Lang.v of the irispie model-source compiler (property C04).
   Only datatypes and boolean equalities; no proofs. *)
From Coq Require Import ZArith List String Bool Ascii.
Import ListNotations.

Inductive binop := Add | Sub | Mul | Div | Pow.

Definition binop_eqb (a b : binop) : bool :=
  match a, b with
  | Add, Add | Sub, Sub | Mul, Mul | Div, Div | Pow, Pow => true
  | _, _ => false
  end.

(* the eight pseudofunction builders of parsers/_pseudofunctions.py *)
Inductive pseudo := Pshift | Pdiff | Pdifflog | Ppct | Proc | Pmovsum | Pmovavg | Pmovprod.

(* String templates of the _pseudo_* builders, one level up: the string a builder
   returns, parsed as an expression with holes.
     TCode      the argument text `code`
     TShifted   `_shift_all_names(code, s)` for the shift s the template is instantiated with
     TTotal     `str(total)`      (mov_avg)
     TJoin o    `"o".join(sequence)` where sequence comes from _pseudo_mov
     TParen     a pair of parentheses that is literally in the builder's string *)
Inductive tpl :=
| TCode
| TShifted
| TTotal
| TNum (z : Z)
| TBin (o : binop) (a b : tpl)
| TNeg (a : tpl)
| TCall1 (f : string) (a : tpl)
| TParen (a : tpl)
| TJoin (o : binop).

(* kinds of quantities (members of quantities.py::QuantityKind that are not unions) *)
Inductive qkind :=
| QUnspecified | QTransitionVariable | QMeasurementVariable | QTransitionShock
| QAnticipatedShockValue | QMeasurementShock | QLhsVariable | QRhsOnlyVariable
| QParameter | QExogenousVariable | QTransitionStd | QMeasurementStd.

Definition qkind_code (k : qkind) : nat :=
  match k with
  | QUnspecified => 0 | QTransitionVariable => 1 | QMeasurementVariable => 2 | QTransitionShock => 3
  | QAnticipatedShockValue => 4 | QMeasurementShock => 5 | QLhsVariable => 6 | QRhsOnlyVariable => 7
  | QParameter => 8 | QExogenousVariable => 9 | QTransitionStd => 10 | QMeasurementStd => 11
  end.
Definition qkind_eqb (a b : qkind) : bool := Nat.eqb (qkind_code a) (qkind_code b).

(* Expressions over names of type N:  N = string after macro expansion,
   N = Z (quantity id) in a compiled equation (xtring). *)
Section Expr.
Variable N : Type.
Inductive cexpr :=
| CName (n : N) (k : Z)                 (* name with time shift: y, y[-1], x[(qid,t-1)] *)
| CNum (m : Z) (d : nat)                (* decimal literal m / 10^d *)
| CBin (o : binop) (a b : cexpr)
| CNeg (a : cexpr)
| CCall (f : string) (args : list cexpr)
| CParen (a : cexpr)                    (* parentheses that are literally in the text *)
| CPseudo (f : string) (a : cexpr) (k : option Z).   (* pseudofunction call by its spelled name *)
End Expr.
Arguments CName {N}. Arguments CNum {N}. Arguments CBin {N}. Arguments CNeg {N}.
Arguments CCall {N}. Arguments CParen {N}. Arguments CPseudo {N}.
