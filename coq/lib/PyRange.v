(* Python's range(start, stop, step) as a list of Z. *)
From Coq Require Import ZArith List Lia.
Import ListNotations.
Open Scope Z_scope.

Definition py_range_len (start stop step : Z) : Z :=
  if step >? 0 then Z.max 0 ((stop - start + step - 1) / step)
  else if step <? 0 then Z.max 0 ((start - stop - step - 1) / (- step))
  else 0.

Definition py_range (start stop step : Z) : list Z :=
  map (fun i => start + Z.of_nat i * step) (seq 0 (Z.to_nat (py_range_len start stop step))).

Definition sgn (x : Z) : Z := if x >? 0 then 1 else if x =? 0 then 0 else -1.
