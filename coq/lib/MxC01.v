(* C01 matrix helper library.

   [MxOps] is the dimension-indexed matrix interface over which the first-order
   solution algebra (model/Ford.v) is written ONCE.  Instances:

   * the MathComp instance on 'M[F]_(m,n)  (proofs/FordProofs.v) -- all theorems;
   * executable instances on [list (list S)] (dimensions are phantom, row-major):
       LQ : S = bigQ, exact rationals, Gauss-Jordan inverse  (solution algebra, stage (a));
       LD : S = dyadic numbers m * 2^e with bigZ mantissa    (simulation recursion, stage (b):
            only + and * occur, every double is dyadic, no gcd normalisation is needed)
     used by the generated correspondence case files under vm_compute.

   No proofs in this file. *)
From Coq Require Import List ZArith Bool.
From Bignums Require Import BigQ BigZ BigN.
Import ListNotations.

Record MxOps := mkMxOps {
  mx    : nat -> nat -> Type;
  mmul  : forall m n p, mx m n -> mx n p -> mx m p;
  madd  : forall m n, mx m n -> mx m n -> mx m n;
  mopp  : forall m n, mx m n -> mx m n;
  mtr   : forall m n, mx m n -> mx n m;
  minv  : forall n, mx n n -> mx n n;
  mid   : forall n, mx n n;
  mzero : forall m n, mx m n;
  usub  : forall m1 m2 n, mx (m1 + m2) n -> mx m1 n;      (* rows [:m1]  *)
  dsub  : forall m1 m2 n, mx (m1 + m2) n -> mx m2 n;      (* rows [m1:]  *)
  lsub  : forall m n1 n2, mx m (n1 + n2) -> mx m n1;      (* columns [:n1] *)
  rsub  : forall m n1 n2, mx m (n1 + n2) -> mx m n2;      (* columns [n1:] *)
  colmx : forall m1 m2 n, mx m1 n -> mx m2 n -> mx (m1 + m2) n;   (* vstack *)
  mis0  : forall m n, mx m n -> bool;                       (* all entries zero *)
  mrowmask : forall m n, (nat -> bool) -> mx m n -> mx m n; (* rows i with f i = false are set to zero *)
}.

Arguments mmul {_ _ _ _} _ _.
Arguments madd {_ _ _} _ _.
Arguments mopp {_ _ _} _.
Arguments mtr {_ _ _} _.
Arguments minv {_ _} _.
Arguments mid _ _ : clear implicits.
Arguments mzero _ _ _ : clear implicits.
Arguments usub {_ _ _ _} _.
Arguments dsub {_ _ _ _} _.
Arguments lsub {_ _ _ _} _.
Arguments rsub {_ _ _ _} _.
Arguments colmx {_ _ _ _} _ _.
Arguments mis0 {_ _ _} _.
Arguments mrowmask {_ _ _} _ _.

(* ------------------------------------------------------------------ *)
(* list-of-rows matrices over an arbitrary scalar structure             *)

Section ListMx.
Variable S : Type.
Variables (s0 s1 : S) (sadd smul ssub : S -> S -> S) (sopp sinv : S -> S) (sis0 : S -> bool).

Definition LM := list (list S).

Definition dot (a b : list S) : S :=
  fold_left (fun acc p => sadd acc (smul (fst p) (snd p))) (combine a b) s0.

Fixpoint transpose_aux (n : nat) (a : LM) : LM :=
  match n with
  | O => []
  | Datatypes.S k => map (fun r => hd s0 r) a :: transpose_aux k (map (fun r => tl r) a)
  end.

(* the number of columns has to be given: an m x 0 matrix is a list of empty rows *)
Definition ltr (m n : nat) (a : LM) : LM := transpose_aux n a.

Definition lmul (m n p : nat) (a b : LM) : LM :=
  let bt := ltr n p b in map (fun r => map (fun c => dot r c) bt) a.

Definition ladd (a b : LM) : LM :=
  map (fun p => map (fun q => sadd (fst q) (snd q)) (combine (fst p) (snd p))) (combine a b).
Definition lopp (a : LM) : LM := map (map sopp) a.

Definition idrow (n i : nat) : list S := map (fun j => if Nat.eqb i j then s1 else s0) (seq 0 n).
Definition lident (n : nat) : LM := map (idrow n) (seq 0 n).
Definition lzero (m n : nat) : LM := repeat (repeat s0 n) m.

(* Gauss-Jordan on the augmented matrix [a | I]; exact arithmetic, so any non-zero pivot is fine.
   On a singular matrix the result is unspecified. *)
Definition scale_row (c : S) (r : list S) := map (smul c) r.
Definition axpy_row (c : S) (x y : list S) := map (fun p => ssub (snd p) (smul c (fst p))) (combine x y).

Fixpoint find_pivot (col : nat) (rows : LM) (k : nat) : option nat :=
  match rows with
  | [] => None
  | r :: rs => if sis0 (nth col r s0) then find_pivot col rs (Datatypes.S k) else Some k
  end.

Definition swap_rows (i j : nat) (a : LM) : LM :=
  let ri := nth i a [] in let rj := nth j a [] in
  map (fun p => if Nat.eqb (fst p) i then rj else if Nat.eqb (fst p) j then ri else snd p)
      (combine (seq 0 (length a)) a).

Definition eliminate (col : nat) (a : LM) : LM :=
  match find_pivot col (skipn col a) col with
  | None => a
  | Some p =>
      let a1 := swap_rows col p a in
      let pr := nth col a1 [] in
      let prn := scale_row (sinv (nth col pr s0)) pr in
      map (fun q => if Nat.eqb (fst q) col then prn
                    else let c := nth col (snd q) s0 in
                         if sis0 c then snd q else axpy_row c prn (snd q))
          (combine (seq 0 (length a1)) a1)
  end.

Definition linv (n : nat) (a : LM) : LM :=
  let aug := map (fun p => snd p ++ idrow n (fst p)) (combine (seq 0 n) a) in
  let red := fold_left (fun acc col => eliminate col acc) (seq 0 n) aug in
  map (skipn n) red.

Definition ListOps : MxOps := {|
  mx := fun _ _ => LM;
  mmul := fun m n p a b => lmul m n p a b;
  madd := fun _ _ a b => ladd a b;
  mopp := fun _ _ a => lopp a;
  mtr := fun m n a => ltr m n a;
  minv := fun n a => linv n a;
  mid := lident;
  mzero := lzero;
  usub := fun m1 _ _ a => firstn m1 a;
  dsub := fun m1 _ _ a => skipn m1 a;
  lsub := fun _ n1 _ a => map (firstn n1) a;
  rsub := fun _ n1 _ a => map (skipn n1) a;
  colmx := fun _ _ _ a b => a ++ b;
  mis0 := fun _ _ a => forallb (forallb sis0) a;
  mrowmask := fun _ _ f a => map (fun p => if f (fst p) then snd p else map (fun _ => s0) (snd p))
                                 (combine (seq 0 (length a)) a);
|}.

End ListMx.

Fixpoint all2 {T} (f : T -> T -> bool) (a b : list T) : bool :=
  match a, b with
  | [], [] => true
  | x :: xs, y :: ys => f x y && all2 f xs ys
  | _, _ => false
  end.

(* ------------------------------------------------------------------ *)
(* exact rationals                                                      *)
Module LQ.

Definition q0 : bigQ := BigQ.zero.
Definition q1 : bigQ := BigQ.one.
Definition qadd := BigQ.add_norm.
Definition qmul := BigQ.mul_norm.
Definition qsub := BigQ.sub_norm.
Definition qopp := BigQ.opp.
Definition qinv := BigQ.inv_norm.
Definition qis0 (x : bigQ) : bool := BigQ.eqb x q0.
Definition qabs (x : bigQ) : bigQ := match BigQ.compare x q0 with Lt => qopp x | _ => x end.
Definition qleb (x y : bigQ) : bool := match BigQ.compare x y with Gt => false | _ => true end.

(* the dyadic rational m * 2^e : every IEEE double is one *)
Definition dy (m e : Z) : bigQ :=
  if (0 <=? e)%Z then BigQ.Qz (BigZ.of_Z (m * 2 ^ e))
  else BigQ.red (BigQ.Qq (BigZ.of_Z m) (BigN.of_N (Z.to_N (2 ^ (- e))))).

Definition M := list (list bigQ).
Definition Ops : MxOps := ListOps bigQ q0 q1 qadd qmul qsub qopp qinv qis0.

Definition close (tol : bigQ) (model impl : bigQ) : bool :=
  qleb (qabs (qsub model impl)) (qmul tol (qadd q1 (qabs impl))).
Definition mclose (tol : bigQ) (a b : M) : bool := all2 (all2 (close tol)) a b.

End LQ.

(* ------------------------------------------------------------------ *)
(* dyadic numbers m * 2^e: closed under + - *, no normalisation needed  *)
Module LD.

Definition dyad := (bigZ * Z)%type.
Definition d0 : dyad := (BigZ.zero, 0%Z).
Definition d1 : dyad := (BigZ.one, 0%Z).
Definition shl (m : bigZ) (k : Z) : bigZ := BigZ.mul m (BigZ.pow (BigZ.of_Z 2) (BigZ.of_Z k)).
Definition dadd (a b : dyad) : dyad :=
  let '(ma, ea) := a in let '(mb, eb) := b in
  if BigZ.eqb ma BigZ.zero then b else if BigZ.eqb mb BigZ.zero then a else
  if (ea <=? eb)%Z then (BigZ.add ma (shl mb (eb - ea)), ea) else (BigZ.add (shl ma (ea - eb)) mb, eb).
Definition dopp (a : dyad) : dyad := (BigZ.opp (fst a), snd a).
Definition dsub (a b : dyad) : dyad := dadd a (dopp b).
Definition dmul (a b : dyad) : dyad :=
  if BigZ.eqb (fst a) BigZ.zero then d0 else if BigZ.eqb (fst b) BigZ.zero then d0 else
  (BigZ.mul (fst a) (fst b), (snd a + snd b)%Z).
Definition dis0 (a : dyad) : bool := BigZ.eqb (fst a) BigZ.zero.
Definition dabs (a : dyad) : dyad := (BigZ.abs (fst a), snd a).
(* a <= b  <->  mantissa of (b - a) is non-negative *)
Definition dleb (a b : dyad) : bool := match BigZ.compare (fst (dsub b a)) BigZ.zero with Lt => false | _ => true end.

Definition dy (m e : Z) : dyad := (BigZ.of_Z m, e).

Definition M := list (list dyad).
(* there is no inverse on dyadics: [minv] is the identity function and is never used in stage (b) *)
Definition Ops : MxOps := ListOps dyad d0 d1 dadd dmul dsub dopp (fun x => x) dis0.

Definition close (tol : dyad) (model impl : dyad) : bool :=
  dleb (dabs (dsub model impl)) (dmul tol (dadd d1 (dabs impl))).
Definition mclose (tol : dyad) (a b : M) : bool := all2 (all2 (close tol)) a b.

End LD.

(* ------------------------------------------------------------------ *)
(* exact rational matrices with ONE common denominator: integer numerators (bigZ) over a positive
   bigZ denominator.  Products and sums are integer matrix operations (a few gcds per matrix
   operation instead of one per scalar operation); the inverse is fraction-free Gauss-Jordan
   (Bareiss): every intermediate entry is an integer minor and every division is exact.     *)
Module LF.

Definition z0 := BigZ.zero.
Definition z1 := BigZ.one.
Definition zis0 (x : bigZ) : bool := BigZ.eqb x z0.
Definition ZM := list (list bigZ).
Definition ZOps : MxOps := ListOps bigZ z0 z1 BigZ.add BigZ.mul BigZ.sub BigZ.opp (fun x => x) zis0.

Record fm := mkF { fnum : ZM; fden : bigZ }.

Definition zscale (c : bigZ) (a : ZM) : ZM := map (map (BigZ.mul c)) a.
Definition zadd (a b : ZM) : ZM := ladd bigZ BigZ.add a b.

(* bring two matrices to a common denominator *)
Definition common (a b : fm) : ZM * ZM * bigZ :=
  if BigZ.eqb (fden a) (fden b) then (fnum a, fnum b, fden a) else
  let g := BigZ.gcd (fden a) (fden b) in
  let da := BigZ.div (fden a) g in let db := BigZ.div (fden b) g in
  (zscale db (fnum a), zscale da (fnum b), BigZ.mul da (fden b)).

Definition fadd (a b : fm) : fm := let '(x, y, d) := common a b in mkF (zadd x y) d.
Definition fmul (m n p : nat) (a b : fm) : fm :=
  mkF (lmul bigZ z0 BigZ.add BigZ.mul m n p (fnum a) (fnum b)) (BigZ.mul (fden a) (fden b)).
Definition fopp (a : fm) : fm := mkF (lopp bigZ BigZ.opp (fnum a)) (fden a).
Definition ftr (m n : nat) (a : fm) : fm := mkF (ltr bigZ z0 m n (fnum a)) (fden a).

(* fraction-free Gauss-Jordan on [A | I]: after column k every entry is a (k+1)-minor; [prev] is the previous pivot *)
Definition ff_row (p prev : bigZ) (c : bigZ) (prow row : list bigZ) : list bigZ :=
  map (fun q => BigZ.div (BigZ.sub (BigZ.mul p (snd q)) (BigZ.mul c (fst q))) prev) (combine prow row).

Definition ff_eliminate (st : ZM * bigZ * bigZ) (col : nat) : ZM * bigZ * bigZ :=
  let '(a, prev, sign) := st in
  match find_pivot bigZ z0 zis0 col (skipn col a) col with
  | None => (a, prev, sign)
  | Some pi =>
      let a1 := if Nat.eqb pi col then a else swap_rows bigZ col pi a in
      let sign1 := if Nat.eqb pi col then sign else BigZ.opp sign in
      let prow := nth col a1 [] in
      let p := nth col prow z0 in
      (map (fun q => if Nat.eqb (fst q) col then snd q
                     else ff_row p prev (nth col (snd q) z0) prow (snd q))
           (combine (seq 0 (length a1)) a1), p, sign1)
  end.

(* inverse of N/d: the reduced right block R satisfies N * R = p * I (p = last pivot = +- det N), so (N/d)^-1 = d R / p *)
Definition finv (n : nat) (a : fm) : fm :=
  let aug := map (fun q => snd q ++ idrow bigZ z0 z1 n (fst q)) (combine (seq 0 n) (fnum a)) in
  let '(red, p, _) := fold_left ff_eliminate (seq 0 n) (aug, z1, z1) in
  let r := map (skipn n) red in
  let g := BigZ.gcd (fden a) p in
  let d := BigZ.div (fden a) g in let p' := BigZ.div p g in
  if BigZ.ltb p' z0 then mkF (zscale (BigZ.opp d) r) (BigZ.opp p') else mkF (zscale d r) p'.

Definition FOps : MxOps := {|
  mx := fun _ _ => fm;
  mmul := fmul;
  madd := fun _ _ a b => fadd a b;
  mopp := fun _ _ a => fopp a;
  mtr := ftr;
  minv := finv;
  mid := fun n => mkF (lident bigZ z0 z1 n) z1;
  mzero := fun m n => mkF (lzero bigZ z0 m n) z1;
  usub := fun m1 _ _ a => mkF (firstn m1 (fnum a)) (fden a);
  dsub := fun m1 _ _ a => mkF (skipn m1 (fnum a)) (fden a);
  lsub := fun _ n1 _ a => mkF (map (firstn n1) (fnum a)) (fden a);
  rsub := fun _ n1 _ a => mkF (map (skipn n1) (fnum a)) (fden a);
  colmx := fun _ _ _ a b => let '(x, y, d) := common a b in mkF (x ++ y) d;
  mis0 := fun _ _ a => forallb (forallb zis0) (fnum a);
  mrowmask := fun _ _ f a => mkF (map (fun p => if f (fst p) then snd p else map (fun _ => z0) (snd p))
                                      (combine (seq 0 (length (fnum a))) (fnum a))) (fden a);
|}.

(* a matrix of doubles: integer mantissas over the common denominator 2^k *)
Definition of_dyadic (nums : list (list Z)) (k : Z) : fm :=
  mkF (map (map BigZ.of_Z) nums) (BigZ.pow (BigZ.of_Z 2) (BigZ.of_Z k)).

(* | num/den - m/2^k |  <=  (1 + |m|/2^k) / tolinv      (den, tolinv > 0) *)
Definition close_cell (tolinv : bigZ) (den : bigZ) (twok : bigZ) (num : bigZ) (m : bigZ) : bool :=
  BigZ.leb (BigZ.mul tolinv (BigZ.abs (BigZ.sub (BigZ.mul num twok) (BigZ.mul m den))))
           (BigZ.mul den (BigZ.add twok (BigZ.abs m))).

Definition mclose (tolinv : bigZ) (model : fm) (impl : list (list Z)) (k : Z) : bool :=
  let twok := BigZ.pow (BigZ.of_Z 2) (BigZ.of_Z k) in
  BigZ.ltb z0 (fden model) &&
  all2 (fun r1 r2 => all2 (fun x y => close_cell tolinv (fden model) twok x y) r1 r2)
       (fnum model) (map (map BigZ.of_Z) impl).

End LF.
