(* C01 matrix helper library.

   [MxOps] is the dimension-indexed matrix interface over which the first-order
   solution algebra (model/Ford.v) is written ONCE.  Two instances exist:

   * the MathComp instance on 'M[F]_(m,n)  (proofs/FordProofs.v) -- all theorems;
   * the executable instance below on [list (list bigQ)] (dimensions are phantom,
     row-major, exact rationals, Gauss-Jordan inverse) -- used by the generated
     correspondence case files under vm_compute.

   No proofs in this file. *)
From Coq Require Import List ZArith Bool.
From Bignums Require Import BigQ BigZ BigN.
Import ListNotations.

Record MxOps := mkMxOps {
  mx    : nat -> nat -> Type;
  mmul  : forall m n p, mx m n -> mx n p -> mx m p;
  madd  : forall m n, mx m n -> mx m n -> mx m n;
  mopp  : forall m n, mx m n -> mx m n;
  mtr   : forall m n, mx m n -> mx n m;
  minv  : forall n, mx n n -> mx n n;
  mid   : forall n, mx n n;
  mzero : forall m n, mx m n;
  usub  : forall m1 m2 n, mx (m1 + m2) n -> mx m1 n;      (* rows [:m1]  *)
  dsub  : forall m1 m2 n, mx (m1 + m2) n -> mx m2 n;      (* rows [m1:]  *)
  lsub  : forall m n1 n2, mx m (n1 + n2) -> mx m n1;      (* columns [:n1] *)
  rsub  : forall m n1 n2, mx m (n1 + n2) -> mx m n2;      (* columns [n1:] *)
  colmx : forall m1 m2 n, mx m1 n -> mx m2 n -> mx (m1 + m2) n;   (* vstack *)
  mis0  : forall m n, mx m n -> bool;                       (* all entries zero *)
  mrowmask : forall m n, (nat -> bool) -> mx m n -> mx m n; (* rows i with f i = false are set to zero *)
}.

Arguments mmul {_ _ _ _} _ _.
Arguments madd {_ _ _} _ _.
Arguments mopp {_ _ _} _.
Arguments mtr {_ _ _} _.
Arguments minv {_ _} _.
Arguments mid _ _ : clear implicits.
Arguments mzero _ _ _ : clear implicits.
Arguments usub {_ _ _ _} _.
Arguments dsub {_ _ _ _} _.
Arguments lsub {_ _ _ _} _.
Arguments rsub {_ _ _ _} _.
Arguments colmx {_ _ _ _} _ _.
Arguments mis0 {_ _ _} _.
Arguments mrowmask {_ _ _} _ _.

(* ------------------------------------------------------------------ *)
(* Executable instance: list (list bigQ), exact rational arithmetic     *)

Module LQ.

Definition q0 : bigQ := BigQ.zero.
Definition q1 : bigQ := BigQ.one.
Definition qadd := BigQ.add_norm.
Definition qmul := BigQ.mul_norm.
Definition qsub := BigQ.sub_norm.
Definition qopp := BigQ.opp.
Definition qinv := BigQ.inv_norm.
Definition qis0 (x : bigQ) : bool := BigQ.eqb x q0.
Definition qabs (x : bigQ) : bigQ := match BigQ.compare x q0 with Lt => qopp x | _ => x end.
Definition qleb (x y : bigQ) : bool := match BigQ.compare x y with Gt => false | _ => true end.
Definition qltb (x y : bigQ) : bool := match BigQ.compare x y with Lt => true | _ => false end.

(* the dyadic rational m * 2^e : every IEEE double is one *)
Definition dy (m e : Z) : bigQ :=
  if (0 <=? e)%Z then BigQ.Qz (BigZ.of_Z (m * 2 ^ e))
  else BigQ.red (BigQ.Qq (BigZ.of_Z m) (BigN.of_N (Z.to_N (2 ^ (- e))))).

Definition M := list (list bigQ).

Definition dot (a b : list bigQ) : bigQ :=
  fold_left (fun acc p => qadd acc (qmul (fst p) (snd p))) (combine a b) q0.

Fixpoint transpose_aux (n : nat) (a : M) : M :=
  match n with
  | O => []
  | S k => map (fun r => hd q0 r) a :: transpose_aux k (map (fun r => tl r) a)
  end.

(* the number of columns has to be given: an m x 0 and a 0 x n matrix are both [] or [[];...] *)
Definition tr (m n : nat) (a : M) : M := transpose_aux n a.

Definition mul (m n p : nat) (a b : M) : M :=
  let bt := tr n p b in map (fun r => map (fun c => dot r c) bt) a.

Definition add (a b : M) : M := map (fun p => map (fun q => qadd (fst q) (snd q)) (combine (fst p) (snd p))) (combine a b).
Definition opp (a : M) : M := map (map qopp) a.

Definition idrow (n i : nat) : list bigQ := map (fun j => if Nat.eqb i j then q1 else q0) (seq 0 n).
Definition ident (n : nat) : M := map (idrow n) (seq 0 n).
Definition zero (m n : nat) : M := repeat (repeat q0 n) m.

(* Gauss-Jordan on the augmented matrix [a | I]; exact arithmetic, so any non-zero pivot is fine.
   On a singular matrix the result is unspecified (the harness checks [is_inverse]). *)
Definition scale_row (c : bigQ) (r : list bigQ) := map (qmul c) r.
Definition axpy_row (c : bigQ) (x y : list bigQ) := map (fun p => qsub (snd p) (qmul c (fst p))) (combine x y).

Fixpoint find_pivot (col : nat) (rows : M) (k : nat) : option nat :=
  match rows with
  | [] => None
  | r :: rs => if qis0 (nth col r q0) then find_pivot col rs (S k) else Some k
  end.

Definition swap_rows (i j : nat) (a : M) : M :=
  let ri := nth i a [] in let rj := nth j a [] in
  map (fun p => if Nat.eqb (fst p) i then rj else if Nat.eqb (fst p) j then ri else snd p)
      (combine (seq 0 (length a)) a).

Definition eliminate (col : nat) (a : M) : M :=
  match find_pivot col (skipn col a) col with
  | None => a
  | Some p =>
      let a1 := swap_rows col p a in
      let pr := nth col a1 [] in
      let prn := scale_row (qinv (nth col pr q0)) pr in
      map (fun q => if Nat.eqb (fst q) col then prn
                    else let c := nth col (snd q) q0 in
                         if qis0 c then snd q else axpy_row c prn (snd q))
          (combine (seq 0 (length a1)) a1)
  end.

Definition inv (n : nat) (a : M) : M :=
  let aug := map (fun p => snd p ++ idrow n (fst p)) (combine (seq 0 n) a) in
  let red := fold_left (fun acc col => eliminate col acc) (seq 0 n) aug in
  map (skipn n) red.

Definition Ops : MxOps := {|
  mx := fun _ _ => M;
  mmul := fun m n p a b => mul m n p a b;
  madd := fun _ _ a b => add a b;
  mopp := fun _ _ a => opp a;
  mtr := fun m n a => tr m n a;
  minv := fun n a => inv n a;
  mid := ident;
  mzero := zero;
  usub := fun m1 _ _ a => firstn m1 a;
  dsub := fun m1 _ _ a => skipn m1 a;
  lsub := fun _ n1 _ a => map (firstn n1) a;
  rsub := fun _ n1 _ a => map (skipn n1) a;
  colmx := fun _ _ _ a b => a ++ b;
  mis0 := fun _ _ a => forallb (forallb qis0) a;
  mrowmask := fun _ _ f a => map (fun p => if f (fst p) then snd p else map (fun _ => q0) (snd p))
                                 (combine (seq 0 (length a)) a);
|}.

(* comparison helpers for the case files *)
Definition close (tol : bigQ) (model impl : bigQ) : bool :=
  qleb (qabs (qsub model impl)) (qmul tol (qadd q1 (qabs impl))).

Fixpoint all2 {T} (f : T -> T -> bool) (a b : list T) : bool :=
  match a, b with
  | [], [] => true
  | x :: xs, y :: ys => f x y && all2 f xs ys
  | _, _ => false
  end.

Definition mclose (tol : bigQ) (a b : M) : bool := all2 (all2 (close tol)) a b.

(* largest |a - b| / (1 + |b|) over the cells (for diagnostics) *)
Definition well_shaped (m n : nat) (a : M) : bool :=
  Nat.eqb (length a) m && forallb (fun r => Nat.eqb (length r) n) a.

End LQ.
